#!/bin/bash
# Build the framework from files on disk only (offline): translator output, Coq development, harness.
set -e
cd "$(dirname "$0")"
export CARGO_NET_OFFLINE=true
mkdir -p .work evidence replays coq/Generated
python3 tools/xlate.py /repo coq/Generated/Configs.v .work/generated_tables.json || echo "xlate refused (checks will report it)"
( cd coq && coq_makefile -f _CoqProject -o Makefile >/dev/null && timeout 7200 make -j16 >/dev/null )
( cd harness && cargo build --offline 2>/dev/null )
echo "setup done"
