#!/bin/bash
# Build the framework from files on disk only (offline): Coq development, harness, translator.
set -e
cd "$(dirname "$0")"
export CARGO_NET_OFFLINE=true
mkdir -p .work evidence replays
( cd coq && coq_makefile -f _CoqProject -o Makefile >/dev/null && timeout 7200 make -j16 >/dev/null )
( cd harness && cargo build --offline 2>/dev/null )
if [ -f xlate/Cargo.toml ]; then ( cd xlate && cargo build --offline --release 2>/dev/null ); fi
echo "setup done"
