(** C10: which parameters the constructors accept, that the integer
    arithmetic and window sizes of an accepted constructor stay in range (so
    the debug assertions / overflow checks of the implementation cannot fire)
    and that accepted instances never push into an empty window. *)
From Yata Require Import Base.Prelude Base.Num Base.NumR Core.Window Core.WindowSpec Core.Candle Core.Action
  Spec.Hist Spec.MethodDefs Methods.Basic Methods.Select Proofs.MethodsCommon Proofs.Windowed.
From Coq Require Import Reals.
Open Scope Z_scope.

Section Totality.
Context {pw : PW} {N : Num}.
Hypothesis pmax_ge : 2 <= pmax.

Definition accepts {S} (o : outcome S) : bool := is_ok o.
Definition rejects {S} (o : outcome S) : bool :=
  match o with Err EWrongMethodParameters => true | _ => false end.

(** every constructor: Ok exactly on its documented range, Err(WrongMethodParameters) elsewhere *)
Ltac classify := intros; repeat match goal with
  | |- context [bad_len ?n] => unfold bad_len
  | |- context [Z.eqb ?a ?b] => destruct (Z.eqb_spec a b)
  | |- context [Z.ltb ?a ?b] => destruct (Z.ltb_spec a b)
  | |- context [Z.leb ?a ?b] => destruct (Z.leb_spec a b)
  end; cbn; try lia; try reflexivity; try (split; intros; try discriminate; try lia; reflexivity).

Theorem sma_new_class n v : 0 <= n <= pmax ->
  (accepts (sma_new n v) = true <-> 1 <= n <= pmax - 1) /\ (accepts (sma_new n v) = false -> rejects (sma_new n v) = true).
Proof. unfold sma_new. classify. Qed.
Theorem wma_new_class n v : 0 <= n <= pmax ->
  (accepts (wma_new n v) = true <-> 1 <= n <= pmax - 1) /\ (accepts (wma_new n v) = false -> rejects (wma_new n v) = true).
Proof. unfold wma_new. classify. Qed.
Theorem ema_new_class n v : 0 <= n <= pmax ->
  (accepts (ema_new n v) = true <-> 1 <= n <= pmax - 1) /\ (accepts (ema_new n v) = false -> rejects (ema_new n v) = true).
Proof. unfold ema_new. classify. Qed.
Theorem rma_new_class n v : 0 <= n <= pmax ->
  (accepts (rma_new n v) = true <-> 1 <= n) /\ (accepts (rma_new n v) = false -> rejects (rma_new n v) = true).
Proof. unfold rma_new. classify. Qed.
Theorem wsma_new_class n v : 0 <= n <= pmax ->
  (accepts (wsma_new n v) = true <-> 1 <= n <= pmax / 2) /\ (accepts (wsma_new n v) = false -> rejects (wsma_new n v) = true).
Proof.
  intros Hn. unfold wsma_new, ema_new, bad_len.
  assert (H2 : pmax / 2 * 2 <= pmax) by (pose proof (Z.mul_div_le pmax 2 ltac:(lia)); lia).
  destruct (Z.eqb_spec n 0), (Z.ltb_spec (pmax / 2) n); cbn; try (split; [split; [discriminate|lia]|reflexivity]).
  destruct (Z.eqb_spec (n * 2 - 1) 0), (Z.eqb_spec (n * 2 - 1) pmax); cbn; try lia.
Qed.
Theorem swma_new_class n v : 0 <= n <= pmax ->
  (accepts (swma_new n v) = true <-> 1 <= n <= pmax - 1) /\ (accepts (swma_new n v) = false -> rejects (swma_new n v) = true).
Proof. unfold swma_new. classify. Qed.
Theorem linreg_new_class n v : 0 <= n <= pmax ->
  (accepts (linreg_new n v) = true <-> 2 <= n <= pmax - 1) /\ (accepts (linreg_new n v) = false -> rejects (linreg_new n v) = true).
Proof. unfold linreg_new. classify. Qed.
Theorem stdev_new_class n v : 0 <= n <= pmax ->
  (accepts (stdev_new n v) = true <-> 2 <= n <= pmax - 1) /\ (accepts (stdev_new n v) = false -> rejects (stdev_new n v) = true).
Proof. unfold stdev_new. classify. Qed.
Theorem integral_new_class n v : 0 <= n <= pmax ->
  (accepts (integral_new n v) = true <-> 0 <= n <= pmax - 1) /\ (accepts (integral_new n v) = false -> rejects (integral_new n v) = true).
Proof. unfold integral_new. classify. Qed.
Theorem vidya_new_class n v : 0 <= n <= pmax ->
  (accepts (vidya_new n v) = true <-> 1 <= n <= pmax - 1) /\ (accepts (vidya_new n v) = false -> rejects (vidya_new n v) = true).
Proof. unfold vidya_new. classify. Qed.
Theorem momentum_new_class n v : 0 <= n <= pmax ->
  (accepts (momentum_new n v) = true <-> 1 <= n <= pmax - 1) /\ (accepts (momentum_new n v) = false -> rejects (momentum_new n v) = true).
Proof. unfold momentum_new. classify. Qed.
Theorem derivative_new_class n v : 0 <= n <= pmax ->
  (accepts (derivative_new n v) = true <-> 1 <= n <= pmax - 1) /\ (accepts (derivative_new n v) = false -> rejects (derivative_new n v) = true).
Proof. unfold derivative_new. classify. Qed.
Theorem vwma_new_class n v : 0 <= n <= pmax ->
  (accepts (vwma_new n v) = true <-> 1 <= n <= pmax - 1) /\ (accepts (vwma_new n v) = false -> rejects (vwma_new n v) = true).
Proof. unfold vwma_new. classify. Qed.
Theorem linvol_new_class n v : 0 <= n <= pmax ->
  (accepts (linvol_new n v) = true <-> 1 <= n <= pmax - 1) /\ (accepts (linvol_new n v) = false -> rejects (linvol_new n v) = true).
Proof. unfold linvol_new. classify. Qed.
Theorem rev_new_class l r v : 0 <= l <= pmax -> 0 <= r <= pmax ->
  (accepts (rev_new l r v) = true <-> 1 <= l /\ 1 <= r /\ l + r <= pmax - 2) /\
  (accepts (rev_new l r v) = false -> rejects (rev_new l r v) = true).
Proof.
  intros Hl Hr. unfold rev_new, sat_add.
  destruct (Z.eqb_spec l 0), (Z.eqb_spec r 0), (Z.leb_spec (pmax - 1) (Z.min pmax (l + r))); cbn;
    (split; [split; [try discriminate; try lia|try lia; try reflexivity]|try reflexivity; try discriminate]); lia.
Qed.

(** what an accepted constructor asks of Window::new and of PeriodType arithmetic:
    every requested capacity is at most MAX-1, every intermediate fits PeriodType *)
Theorem ctor_requests_in_range n : 1 <= n <= pmax - 1 ->
  n <= pmax - 1 /\ n + 1 <= pmax /\ (n + 1) / 2 <= pmax - 1 /\ n / 2 <= pmax - 1 /\ 0 <= n - 1.
Proof. intros H. repeat split; lia. Qed.
Theorem wsma_requests_in_range n : 1 <= n <= pmax / 2 -> 1 <= n * 2 - 1 <= pmax - 1 /\ n * 2 - 1 + 1 <= pmax.
Proof. intros H. pose proof (Z.mul_div_le pmax 2 ltac:(lia)). lia. Qed.
Theorem reversal_requests_in_range l r : 1 <= l -> 1 <= r -> l + r <= pmax - 2 -> 3 <= l + r + 1 <= pmax - 1.
Proof. lia. Qed.

(** Window::new never fails on an accepted capacity; push never fails on the window it made *)
Theorem w_new_accepted {A} n (v : A) : 0 <= n <= pmax - 1 -> w_new n v = Ok (w_new_t n v).
Proof. intros H. unfold w_new_t. destruct (new_spec n v H) as (w & -> & _). reflexivity. Qed.
Theorem w_push_nonempty {A} (w : window A) x : wf w -> 0 < wsize w -> w_push w x = Ok (w_push_t w x).
Proof. intros Hwf Hp. unfold w_push_t. destruct (push_spec w x Hwf Hp) as (w' & old & -> & _). reflexivity. Qed.
End Totality.

(** an accepted SMA never pushes into an empty window, whatever the stream (same argument for every
    method whose invariant contains WinOK (S m): all windowed methods of Proofs/Windowed*.v) *)
Theorem sma_never_panics {pw : PW} n (v : @F NumR) xs x : 1 <= n <= pmax - 1 ->
  exists s0, sma_new n v = Ok s0 /\
    let s := steps sma_next s0 xs in w_push (sma_window s) x = Ok (w_push_t (sma_window s) x).
Proof.
  intros Hn. destruct (sma_init n v Hn) as (s0 & Hnew & Hinv). exists s0. split; [exact Hnew|].
  destruct (nat_len n ltac:(lia)) as (m & Em). rewrite Em in *.
  assert (Hi : sma_inv (S m) (steps sma_next s0 xs) (hget v (rev xs))).
  { rewrite steps_is_rev. apply (steps_rev_inv sma_next (sma_inv (S m)) (sma_def (S m)) (sma_step m)). exact Hinv. }
  destruct Hi as ((Hwf & Hsz & _) & _). cbv zeta. apply w_push_nonempty; [exact Hwf|lia].
Qed.
