(** C05 continued: Donchian channel, price channel and Aroon values equal their published formulas for
    every stream (exact arithmetic), by composition of the selection theorems of C04. *)
From Yata Require Import Base.Prelude Base.Num Base.NumR Core.Window Core.WindowSpec Core.Candle Core.Action
  Spec.Hist Spec.MethodDefs Spec.IndicatorDefs Methods.Basic Methods.Select Indicators.Common Indicators.Set1 Indicators.Set2 Indicators.Set3
  Proofs.MethodsCommon Proofs.Selection Proofs.Selection2.
From Coq Require Import Reals Lra.
Open Scope Z_scope.

Section IP2.
Context {pw : PW}.
Local Notation R := (@F NumR).
Local Notation C := (candle (N := NumR)).

(** the invariant principle for the VALUES of an indicator *)
Lemma values_correct {S} (next : S -> C -> S * iresult (N := NumR)) (Inv : S -> (nat -> C) -> Prop)
    (vals : (nat -> C) -> list R) :
  (forall s h k, Inv s h -> Inv (fst (next s k)) (hcons k h) /\ fst (snd (next s k)) = vals (hcons k h)) ->
  forall s0 c0 cs c, Inv s0 (hconst c0) ->
    fst (snd (next (steps next s0 cs) c)) = vals (hget c0 (rev (cs ++ [c]))).
Proof.
  intros Hstep s0 c0 cs c H0.
  set (next' := fun (s : S) (k : C) => (fst (next s k), fst (snd (next s k)))).
  pose proof (inv_correct next' Inv vals) as IC.
  assert (Hs : forall s h x, Inv s h -> Inv (fst (next' s x)) (hcons x h) /\ snd (next' s x) = vals (hcons x h)).
  { intros s h x Hi. unfold next'. cbn [fst snd]. apply Hstep. exact Hi. }
  destruct (IC Hs s0 c0 cs c H0) as (Hout & _).
  assert (Hsteps : forall xs s, steps next' s xs = steps next s xs).
  { induction xs as [|x r IH]; intros s; [reflexivity|]. unfold steps in *. cbn [fold_left]. apply IH. }
  rewrite <- Hsteps. exact Hout.
Qed.

(** invariants are stable under pointwise-equal histories *)
Lemma highest_inv_ext n s (h h' : nat -> R) : (forall i, h i = h' i) -> highest_inv n s h -> highest_inv n s h'.
Proof.
  intros E (W & V). split; [eapply winok_ext; eauto|]. rewrite V. unfold highest_def. rewrite (E O).
  f_equal. apply map_ext. intros i. apply E.
Qed.
Lemma lowest_inv_ext n s (h h' : nat -> R) : (forall i, h i = h' i) -> lowest_inv n s h -> lowest_inv n s h'.
Proof.
  intros E (W & V). split; [eapply winok_ext; eauto|]. rewrite V. unfold lowest_def. rewrite (E O).
  f_equal. apply map_ext. intros i. apply E.
Qed.
Lemma highest_def_ext n (h h' : nat -> R) : (forall i, h i = h' i) -> highest_def n h = highest_def n h'.
Proof. intros E. unfold highest_def. rewrite (E O). f_equal. apply map_ext. intros i. apply E. Qed.
Lemma lowest_def_ext n (h h' : nat -> R) : (forall i, h i = h' i) -> lowest_def n h = lowest_def n h'.
Proof. intros E. unfold lowest_def. rewrite (E O). f_equal. apply map_ext. intros i. apply E. Qed.
Lemma hcons_map {A B} (f : A -> B) k (h : nat -> A) i : hcons (f k) (fun j => f (h j)) i = f (hcons k h i).
Proof. destruct i; reflexivity. Qed.

(** ---- Donchian channel: lowest low, middle, highest high of the last n candles *)
Definition hl2_inv (n : nat) (hi lo : hl (N := NumR)) (h : nat -> C) : Prop :=
  highest_inv n hi (fun i => c_high (h i)) /\ lowest_inv n lo (fun i => c_low (h i)).
Lemma hl2_step n hi lo (h : nat -> C) k : hl2_inv (S n) hi lo h ->
  hl2_inv (S n) (fst (highest_step hi (c_high k))) (fst (lowest_step lo (c_low k))) (hcons k h) /\
  snd (highest_step hi (c_high k)) = highest_def (S n) (fun i => c_high (hcons k h i)) /\
  snd (lowest_step lo (c_low k)) = lowest_def (S n) (fun i => c_low (hcons k h i)).
Proof.
  intros (Hh & Hl).
  destruct (highest_step_ok n hi _ (c_high k) Hh) as (Ih & Oh).
  destruct (lowest_step_ok n lo _ (c_low k) Hl) as (Il & Ol).
  split; [split|split].
  - eapply highest_inv_ext; [|exact Ih]. intros i. apply (hcons_map c_high).
  - eapply lowest_inv_ext; [|exact Il]. intros i. apply (hcons_map c_low).
  - rewrite Oh. apply highest_def_ext. intros i. apply (hcons_map c_high).
  - rewrite Ol. apply lowest_def_ext. intros i. apply (hcons_map c_low).
Qed.
Lemma hl2_init n (c0 : C) : 1 <= n <= pmax - 1 ->
  exists hi lo, hl_new n (c_high c0) = Ok hi /\ hl_new n (c_low c0) = Ok lo /\ hl2_inv (Z.to_nat n) hi lo (hconst c0).
Proof.
  intros Hn. destruct (highest_init n (c_high c0) Hn) as (hi & Eh & Ih). destruct (lowest_init n (c_low c0) Hn) as (lo & El & Il).
  exists hi, lo. split; [exact Eh|]. split; [exact El|]. split.
  - eapply highest_inv_ext; [|exact Ih]. intros i. reflexivity.
  - eapply lowest_inv_ext; [|exact Il]. intros i. reflexivity.
Qed.
Lemma hmax_is_highest n (c0 : C) rcs : hmax n (hget (c_high c0) (map c_high rcs)) = highest_def n (fun i => c_high (hget c0 rcs i)).
Proof. unfold hmax. apply highest_def_ext. intros i. apply (hget_map_gen c_high). Qed.
Lemma hmin_is_lowest n (c0 : C) rcs : hmin n (hget (c_low c0) (map c_low rcs)) = lowest_def n (fun i => c_low (hget c0 rcs i)).
Proof. unfold hmin. apply lowest_def_ext. intros i. apply (hget_map_gen c_low). Qed.

Theorem donchian_values_correct n (c0 : C) cs c : 2 <= n <= pmax - 1 ->
  exists s0, donch_init n c0 = Ok s0 /\
    fst (snd (donch_next (steps donch_next s0 cs) c)) = donch_values n c0 (rev (cs ++ [c])).
Proof.
  intros Hn. unfold donch_init. destruct (Z.ltb_spec 1 n); [|lia]. cbn [negb].
  assert (Hn' : 1 <= n <= pmax - 1) by lia.
  destruct (hl2_init n c0 Hn') as (hi & lo & Eh & El & I0). rewrite Eh, El. cbn [obind].
  eexists; split; [reflexivity|].
  assert (Hn1 : 1 <= n) by lia. destruct (nat_len n Hn1) as (m & Em). rewrite Em in I0.
  set (Inv := fun (s : donch_st (N := NumR)) h => hl2_inv (S m) (dn_high s) (dn_low s) h).
  set (valsf := fun (h : nat -> C) => [lowest_def (S m) (fun i => c_low (h i));
                       fmul (fadd (highest_def (S m) (fun i => c_high (h i))) (lowest_def (S m) (fun i => c_low (h i)))) (flit 1 2);
                       highest_def (S m) (fun i => c_high (h i))]).
  assert (Hstep : forall s h k, Inv s h -> Inv (fst (donch_next s k)) (hcons k h) /\ fst (snd (donch_next s k)) = valsf (hcons k h)).
  { intros s h k Hi. destruct (hl2_step m _ _ h k Hi) as (I' & Oh & Ol). unfold donch_next.
    destruct (highest_step (dn_high s) (c_high k)) as (h1, o1). destruct (lowest_step (dn_low s) (c_low k)) as (l1, o2).
    cbn [fst snd] in *. split; [exact I'|]. rewrite Oh, Ol. reflexivity. }
  rewrite (values_correct donch_next Inv valsf Hstep (mkDonch hi lo) c0 cs c I0).
  unfold valsf, donch_values. cbv zeta. rewrite Em, hmax_is_highest, hmin_is_lowest. reflexivity.
Qed.

(** ---- price channel: middle +- sigma * half range *)
Theorem price_channel_values_correct n (sigma : R) (c0 : C) cs c : 2 <= n <= pmax - 1 -> (0 < sigma <= 1)%R ->
  exists s0, pch_init n sigma c0 = Ok s0 /\
    fst (snd (pch_next (steps pch_next s0 cs) c)) = pch_values n sigma c0 (rev (cs ++ [c])).
Proof.
  intros Hn Hs. unfold pch_init. destruct (Z.ltb_spec 1 n); [|lia].
  assert (Eg : fgt sigma (f0 (N := NumR)) = true) by (unfold fgt; rsimp; destruct (Rltb_spec 0 sigma); [reflexivity|lra]).
  assert (El1 : fle sigma (f1 (N := NumR)) = true) by (rsimp; destruct (Rleb_spec sigma 1); [reflexivity|lra]).
  rewrite Eg, El1. cbn [andb negb].
  assert (Hn' : 1 <= n <= pmax - 1) by lia.
  destruct (hl2_init n c0 Hn') as (hi & lo & Eh & El & I0). rewrite Eh, El. cbn [obind].
  eexists; split; [reflexivity|].
  assert (Hn1 : 1 <= n) by lia. destruct (nat_len n Hn1) as (m & Em). rewrite Em in I0.
  set (valsf := fun (h : nat -> C) =>
     let hi := highest_def (S m) (fun i => c_high (h i)) in let lo := lowest_def (S m) (fun i => c_low (h i)) in
     let mid := fmul (fadd hi lo) (flit 1 2) in let d := fsub hi mid in
     [fadd mid (fmul sigma d); fsub mid (fmul sigma d)]).
  set (Inv := fun (s : pch_st (N := NumR)) h => pc_sigma s = sigma /\ hl2_inv (S m) (pc_high s) (pc_low s) h).
  assert (Hstep : forall s h k, Inv s h -> Inv (fst (pch_next s k)) (hcons k h) /\ fst (snd (pch_next s k)) = valsf (hcons k h)).
  { intros s h k (Es & Hi). destruct (hl2_step m _ _ h k Hi) as (I' & Oh & Ol). unfold pch_next.
    destruct (highest_step (pc_high s) (c_high k)) as (h1, o1). destruct (lowest_step (pc_low s) (c_low k)) as (l1, o2).
    cbn [fst snd] in *. split; [split; [exact Es|exact I']|]. rewrite Oh, Ol, Es. unfold valsf. cbv zeta.
    f_equal; [|f_equal]; rsimp; ring. }
  assert (I0' : Inv (mkPch sigma hi lo) (hconst c0)) by (split; [reflexivity|exact I0]).
  rewrite (values_correct pch_next Inv valsf Hstep (mkPch sigma hi lo) c0 cs c I0').
  unfold valsf, pch_values. cbv zeta. rewrite Em, hmax_is_highest, hmin_is_lowest. reflexivity.
Qed.

(** ---- Aroon: (n - age of the newest highest high) / n and (n - age of the newest lowest low) / n *)
Definition aroon_inv (n : nat) (p : Z) (s : aroon_st (N := NumR)) (h : nat -> C) : Prop :=
  ar_period s = p /\ hli_inv fgt n (ar_high s) (fun i => c_high (h i)) /\ hli_inv flt n (ar_low s) (fun i => c_low (h i)).
Theorem aroon_values_correct n zone ozp (c0 : C) cs c : aroon_validate n zone ozp = true ->
  exists s0, aroon_init n zone ozp c0 = Ok s0 /\
    fst (snd (aroon_next (steps aroon_next s0 cs) c)) = aroon_values n c0 (rev (cs ++ [c])).
Proof.
  intros Hv. unfold aroon_init. rewrite Hv. cbn [negb].
  assert (Hn : 2 <= n <= pmax - 1).
  { unfold aroon_validate in Hv. repeat (apply andb_prop in Hv; destruct Hv as (Hv & ?)).
    repeat match goal with H : (_ <? _) = true |- _ => apply Z.ltb_lt in H end. lia. }
  assert (Hn' : 1 <= n <= pmax - 1) by lia.
  destruct (lowest_index_init n (c_low c0) Hn') as (lo & El & Il).
  destruct (highest_index_init n (c_high c0) Hn') as (hi & Eh & Ih).
  rewrite El, Eh. cbn [obind]. eexists; split; [reflexivity|].
  assert (Hn1 : 1 <= n) by lia. destruct (nat_len n Hn1) as (m & Em). rewrite Em in *.
  set (Inv := aroon_inv (S m) n).
  set (valsf := fun (h : nat -> C) =>
     [fdiv (fofZ (n - highest_age (S m) (fun i => c_high (h i)))) (@fofZ NumR n);
      fdiv (fofZ (n - lowest_age (S m) (fun i => c_low (h i)))) (@fofZ NumR n)]).
  assert (Hstep : forall s h k, Inv s h -> Inv (fst (aroon_next s k)) (hcons k h) /\ fst (snd (aroon_next s k)) = valsf (hcons k h)).
  { intros s h k (Ep & Hh & Hl).
    destruct (highest_index_step_ok m _ _ (c_high k) Hh) as (Ih' & Oh).
    destruct (lowest_index_step_ok m _ _ (c_low k) Hl) as (Il' & Ol).
    unfold aroon_next.
    destruct (highest_index_step (ar_high s) (c_high k)) as (h1, o1). destruct (lowest_index_step (ar_low s) (c_low k)) as (l1, o2).
    cbn [fst snd] in *. cbv zeta. destruct (cross_next _ _) as (cc, tr). cbn [fst snd ar_period ar_high ar_low].
    split; [split; [exact Ep|split]|].
    - eapply hli_inv_ext; [|exact Ih']. intros i. apply (hcons_map c_high).
    - eapply hli_inv_ext; [|exact Il']. intros i. apply (hcons_map c_low).
    - rewrite Oh, Ol, Ep. unfold valsf, highest_age, lowest_age.
      rewrite (argbest_ext fgt _ (fun i => c_high (hcons k h i))) by (intros i; apply (hcons_map c_high)).
      rewrite (argbest_ext flt _ (fun i => c_low (hcons k h i))) by (intros i; apply (hcons_map c_low)). reflexivity. }
  assert (I0 : Inv (mkAroon n zone ozp lo hi (f0, f0) 0 0) (hconst c0)).
  { split; [reflexivity|]. split.
    - eapply hli_inv_ext; [|exact Ih]. intros i. reflexivity.
    - eapply hli_inv_ext; [|exact Il]. intros i. reflexivity. }
  rewrite (values_correct aroon_next Inv valsf Hstep _ c0 cs c I0).
  unfold valsf, aroon_values. cbv zeta. rewrite Em. unfold highest_age, lowest_age.
  rewrite (argbest_ext fgt _ (hget (c_high c0) (map c_high (rev (cs ++ [c]))))) by (intros i; symmetry; apply (hget_map_gen c_high)).
  rewrite (argbest_ext flt _ (hget (c_low c0) (map c_low (rev (cs ++ [c]))))) by (intros i; symmetry; apply (hget_map_gen c_low)).
  reflexivity.
Qed.
End IP2.
