(** C02 (continued): weighted / two-accumulator sliding-window methods. *)
From Yata Require Import Base.Prelude Base.Num Base.NumR Core.Window Core.WindowSpec Core.Candle
  Spec.Hist Spec.MethodDefs Methods.Basic Proofs.MethodsCommon Proofs.Windowed.
From Coq Require Import Reals Lra.
Open Scope Z_scope.

Section Proofs.
Context {pw : PW}.
Local Notation "'R'" := (@F NumR) (only parsing).

(* ------------------------------------------------------------------ WMA *)
Lemma tri_succ n : 0 <= n -> (n + 1) * (n + 1 + 1) / 2 = n + 1 + n * (n + 1) / 2.
Proof. intros H. replace ((n + 1) * (n + 1 + 1)) with ((n + 1) * 2 + n * (n + 1)) by ring.
  rewrite Z.div_add_l by lia. reflexivity. Qed.

Lemma wma_weights_sum n :
  gsum (N := NumR) n (fun i => INR (n - i)) = IZR (Z.of_nat n * (Z.of_nat n + 1) / 2).
Proof.
  induction n as [|n IH]; [reflexivity|].
  rewrite gsum_S_shift. rewrite (gsum_ext _ _ (fun i => INR (n - i))) by (intros; f_equal; lia).
  rewrite IH, Nat2Z.inj_succ. unfold Z.succ. rewrite tri_succ by lia.
  rewrite !plus_IZR, <- INR_IZR_INZ. replace (S n - 0)%nat with (S n) by lia. rewrite S_INR. simpl. lra.
Qed.

Definition wma_num (n : nat) (h : nat -> R) : R := hwsum n (fun i => fofN (n - i)) h.
Definition wma_inv (n : nat) (s : wma (N := NumR)) (h : nat -> R) : Prop :=
  WinOK n (wma_window s) h /\ wma_float_length s = INR n /\
  wma_invert_sum s = (/ IZR (Z.of_nat n * (Z.of_nat n + 1) / 2))%R /\
  wma_total s = (- hsum n h)%R /\ wma_numerator s = wma_num n h.

Lemma wma_num_hcons n x (h : nat -> R) :
  wma_num (S n) (hcons x h) = (wma_num (S n) h + INR (S n) * x - hsum (S n) h)%R.
Proof.
  unfold wma_num, hwsum, hsum. rewrite gsum_S_shift. rewrite !gsum_S. cbn [hcons]. rsimp.
  rewrite (gsum_ext n (fun i => fofN (N := NumR) (S n - i) * h i)%R (fun i => INR (n - i) * h i + h i)%R).
  2:{ intros i Hi. rewrite fofN_INR. replace (S n - i)%nat with (S (n - i)) by lia. rewrite S_INR. lra. }
  rewrite gsum_plus. rewrite (gsum_ext n (fun i => fofN (N := NumR) (S n - S i) * h i)%R (fun i => INR (n - i) * h i)%R)
    by (intros; rewrite fofN_INR; reflexivity).
  replace (S n - n)%nat with 1%nat by lia. replace (S n - 0)%nat with (S n) by lia.
  change (gsum (N := NumR) n (fun i => h i)) with (gsum (N := NumR) n h). change (INR 1) with 1%R. lra.
Qed.

Lemma wma_step n s h x : wma_inv (S n) s h ->
  wma_inv (S n) (fst (wma_next s x)) (hcons x h) /\
  snd (wma_next s x) = wma_def (S n) (hcons x h).
Proof.
  intros (Hw & Hfl & His & Ht & Hn). destruct (winok_push n _ h x Hw) as (w' & Hp & Hw').
  unfold wma_next. rewrite Hp. cbv zeta. cbn [fst snd].
  assert (En : fadd (wma_numerator s) (ffma (wma_float_length s) x (wma_total s)) = wma_num (S n) (hcons x h)).
  { rewrite wma_num_hcons, Hn, Hfl, Ht. rsimp. lra. }
  assert (Et : fadd (wma_total s) (fsub (h n) x) = (- hsum (S n) (hcons x h))%R).
  { rewrite Ht. unfold hsum. pose proof (gsum_hcons n x h (fun y => y)) as G. cbn beta in G.
    change (gsum (S n) (fun i => hcons x h i)) with (gsum (S n) (hcons x h)) in G.
    change (gsum (S n) (fun i => h i)) with (gsum (S n) h) in G. rewrite G. rsimp. lra. }
  split.
  - split; [exact Hw'|]. cbn [wma_float_length wma_invert_sum wma_total wma_numerator].
    repeat split; auto.
  - unfold wma_peek. cbn [wma_numerator wma_invert_sum]. rewrite En, His.
    unfold wma_def. fold (wma_num (S n) (hcons x h)). rsimp. unfold Rdiv. reflexivity.
Qed.

Lemma wma_init n v : 1 <= n <= pmax - 1 ->
  exists s0, wma_new n v = Ok s0 /\ wma_inv (Z.to_nat n) s0 (hconst v).
Proof.
  intros Hn. unfold wma_new. rewrite bad_len_false by lia. eexists; split; [reflexivity|].
  split; [apply winok_new; lia|].
  cbn [wma_float_length wma_invert_sum wma_total wma_numerator]. rewrite Z2Nat.id by lia.
  split; [rsimp; apply IZR_nat; lia|]. split; [unfold frecip; rsimp; unfold Rdiv; lra|]. split.
  - unfold hsum, hconst. rewrite gsum_const. rsimp. rewrite (IZR_nat n) by lia. lra.
  - unfold wma_num, hwsum, hconst. rsimp.
    rewrite (gsum_ext _ _ (fun i => v * INR (Z.to_nat n - i))%R) by (intros; rewrite fofN_INR; lra).
    rewrite gsum_scal, wma_weights_sum, Z2Nat.id by lia. reflexivity.
Qed.

Theorem wma_correct n v xs x : 1 <= n <= pmax - 1 ->
  exists s0, wma_new n v = Ok s0 /\
    snd (wma_next (steps wma_next s0 xs) x) = wma_def (Z.to_nat n) (hget v (rev (xs ++ [x]))).
Proof. intros Hn. by_inv (wma_init n v Hn) wma_step. Qed.
End Proofs.
