(** C17: CollapseTimeframe emits exactly on every period-th input the
    aggregate of the last [period] inputs and agrees with the batch collapse;
    Renko facts in exact arithmetic. *)
From Yata Require Import Base.Prelude Base.Num Base.NumR Core.Window Core.Candle Spec.Hist Methods.Convert
  Proofs.MethodsCommon Proofs.CandleProofs.
From Coq Require Import Reals Lra.
Open Scope Z_scope.

Section Collapse.
Context {N : Num}.
Local Notation C := (candle (N := N)).

(** state after a stream = (index, aggregate of the inputs since the last emission) *)
Definition col_inv (p : Z) (s : collapse (N := N)) (pending : list C) : Prop :=
  col_period s = p /\ col_index s = Z.of_nat (length pending) /\ col_index s < p /\ col_current s = agg pending.

Lemma agg_snoc (l : list C) (c : C) :
  agg (l ++ [c]) = match agg l with Some k => Some (c_add k c) | None => Some c end.
Proof. destruct l as [|a r]; [reflexivity|]. cbn [agg app]. rewrite fold_left_app. reflexivity. Qed.

Lemma collapse_step p s pending c : 0 < p -> col_inv p s pending ->
  (Z.of_nat (length pending) + 1 = p ->
     snd (collapse_next s c) = agg (pending ++ [c]) /\ col_inv p (fst (collapse_next s c)) []) /\
  (Z.of_nat (length pending) + 1 < p ->
     snd (collapse_next s c) = None /\ col_inv p (fst (collapse_next s c)) (pending ++ [c])).
Proof.
  intros Hp (Hper & Hidx & Hlt & Hcur). unfold collapse_next. rewrite Hper, Hidx, Hcur.
  split; intros H.
  - destruct (Z.eqb_spec (Z.of_nat (length pending) + 1) p); [|lia]. cbn [fst snd]. split.
    + rewrite agg_snoc. reflexivity.
    + repeat split; cbn; lia.
  - destruct (Z.eqb_spec (Z.of_nat (length pending) + 1) p); [lia|]. cbn [fst snd]. split; [reflexivity|].
    repeat split; cbn [col_period col_index col_current]; try lia.
    + rewrite app_length. cbn. lia.
    + rewrite agg_snoc. reflexivity.
Qed.

(** the whole stream: outputs of the streaming method = one candle on every p-th input, None otherwise *)
Fixpoint collapse_spec_go (p : nat) (pending : list C) (cs : list C) : list (option C) :=
  match cs with
  | [] => []
  | c :: r => if Nat.eqb (S (length pending)) p
              then agg (pending ++ [c]) :: collapse_spec_go p [] r
              else None :: collapse_spec_go p (pending ++ [c]) r
  end.
Definition collapse_spec (p : nat) (cs : list C) := collapse_spec_go p [] cs.

Lemma collapse_run_spec p : (0 < p)%nat -> forall cs s pending, col_inv (Z.of_nat p) s pending ->
  run collapse_next s cs = collapse_spec_go p pending cs.
Proof.
  intros Hp. induction cs as [|c r IH]; intros s pending Hi; [reflexivity|].
  cbn [run collapse_spec_go].
  destruct (collapse_step (Z.of_nat p) s pending c ltac:(lia) Hi) as (H1 & H2).
  pose proof Hi as (_ & Hidx & Hlt & _).
  destruct (Nat.eqb_spec (S (length pending)) p) as [E|E].
  - destruct H1 as (Ho & Hi'); [lia|]. destruct (collapse_next s c) as [s' o]. cbn [fst snd] in *. subst o.
    f_equal. apply IH. exact Hi'.
  - destruct H2 as (Ho & Hi'); [lia|]. destruct (collapse_next s c) as [s' o]. cbn [fst snd] in *. subst o.
    f_equal. apply IH. exact Hi'.
Qed.

Theorem collapse_correct p cs : (0 < p)%nat ->
  exists s0, collapse_new (Z.of_nat p) = Ok s0 /\ run collapse_next s0 cs = collapse_spec p cs.
Proof.
  intros Hp. unfold collapse_new. destruct (Z.eqb_spec (Z.of_nat p) 0); [lia|].
  eexists; split; [reflexivity|]. apply collapse_run_spec; [exact Hp|]. repeat split; cbn; lia.
Qed.

End Collapse.

(** Renko in exact arithmetic *)
Section RenkoR.
Local Notation R := (@F NumR).
Open Scope R_scope.

(** at least one brick exactly when the price has reached the next boundary *)
Theorem renko_emits_iff (s : renko (N := NumR)) c :
  (0 < ro_len (snd (renko_next s c)))%Z <->
  (rk_next_upper s <= c_source c (rk_src s) \/ c_source c (rk_src s) <= rk_next_lower s).
Proof.
  unfold renko_next. cbv zeta. rsimp.
  destruct (Rleb_spec (rk_next_upper s) (c_source c (rk_src s))) as [H1|H1]; cbn [snd ro_len].
  - split; [auto|intros _; lia].
  - destruct (Rleb_spec (c_source c (rk_src s)) (rk_next_lower s)) as [H2|H2]; cbn [snd ro_len].
    + split; [auto|intros _; lia].
    + split; [lia|intros [H|H]; lra].
Qed.

(** bricks of one step are contiguous: brick i closes where brick i+1 opens; all have the same
    size relative to the base and one direction (the sign of ro_size) *)
Theorem renko_bricks_contiguous (o : renko_out (N := NumR)) i : brick_close o i = brick_open o (i + 1).
Proof. reflexivity. Qed.
Theorem renko_brick_relative_size (o : renko_out (N := NumR)) i : ro_base o <> 0 ->
  (brick_close o i - brick_open o i) / ro_base o = ro_size o.
Proof. intros H. unfold brick_close, brick_open. rsimp. rewrite plus_IZR. field. exact H. Qed.

(** the volume consumed since the previous emission is carried by the bricks in total *)
Theorem renko_volume_conserved (s : renko (N := NumR)) c :
  let o := snd (renko_next s c) in
  (0 < ro_len o)%Z -> IZR (ro_len o) * ro_vol o = rk_volume s + c_volume c /\ rk_volume (fst (renko_next s c)) = 0.
Proof.
  unfold renko_next. cbv zeta. rsimp.
  destruct (Rleb_spec (rk_next_upper s) (c_source c (rk_src s))) as [H1|H1]; cbn [snd fst ro_len ro_vol rk_volume].
  - intros Hl. split; [|reflexivity]. field. apply not_0_IZR. lia.
  - destruct (Rleb_spec (c_source c (rk_src s)) (rk_next_lower s)) as [H2|H2]; cbn [snd fst ro_len ro_vol rk_volume].
    + intros Hl. split; [|reflexivity]. field. apply not_0_IZR. lia.
    + lia.
Qed.
(** and accumulates while nothing is emitted *)
Theorem renko_volume_accumulates (s : renko (N := NumR)) c :
  ro_len (snd (renko_next s c)) = 0%Z -> rk_volume (fst (renko_next s c)) = rk_volume s + c_volume c.
Proof.
  unfold renko_next. cbv zeta. rsimp.
  destruct (Rleb_spec (rk_next_upper s) (c_source c (rk_src s))); cbn [snd fst ro_len rk_volume]; [lia|].
  destruct (Rleb_spec (c_source c (rk_src s)) (rk_next_lower s)); cbn [snd fst ro_len rk_volume]; [lia|reflexivity].
Qed.
(** the next emission starts where the last brick ended (same direction) or began (reversal) *)
Theorem renko_contiguous_across_steps (s : renko (N := NumR)) c :
  let o := snd (renko_next s c) in let s' := fst (renko_next s c) in
  0 < rk_size s -> (0 < ro_len o)%Z ->
  (0 < ro_size o -> rk_last_upper s' = brick_close o (ro_len o - 1) /\ rk_last_lower s' = brick_open o (ro_len o - 1)) /\
  (ro_size o < 0 -> rk_last_lower s' = brick_close o (ro_len o - 1) /\ rk_last_upper s' = brick_open o (ro_len o - 1)).
Proof.
  unfold renko_next. cbv zeta. rsimp.
  destruct (Rleb_spec (rk_next_upper s) (c_source c (rk_src s))) as [H1|H1];
    cbn [snd fst ro_len ro_size ro_base rk_last_upper rk_last_lower].
  - intros Hsz Hl. unfold brick_close, brick_open. cbn [ro_size ro_base]. rsimp.
    match goal with |- context [Z.max 1 ?e] => set (L := Z.max 1 e) in * end.
    replace (L - 1 + 1)%Z with L by lia. split; intros Hs; [split; ring|lra].
  - destruct (Rleb_spec (c_source c (rk_src s)) (rk_next_lower s)) as [H2|H2];
      cbn [snd fst ro_len ro_size ro_base rk_last_upper rk_last_lower]; [|lia].
    intros Hsz Hl. unfold brick_close, brick_open. cbn [ro_size ro_base]. rsimp.
    match goal with |- context [Z.max 1 ?e] => set (L := Z.max 1 e) in * end.
    replace (L - 1 + 1)%Z with L by lia. split; intros Hs; [lra|split; ring].
Qed.
End RenkoR.
