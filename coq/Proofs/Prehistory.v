(** C08: the construction value acts as an infinite constant prehistory.
    Generic consequences of the [X_correct] theorems: extra leading copies of
    the construction value change nothing, constant input gives constant output. *)
From Yata Require Import Base.Prelude Base.Num Base.NumR Core.Window Core.WindowSpec Core.Candle
  Spec.Hist Spec.MethodDefs Methods.Basic Proofs.MethodsCommon Proofs.Windowed Proofs.Windowed2
  Proofs.Windowed3 Proofs.Windowed4 Proofs.Windowed5 Proofs.Windowed6 Proofs.Recursive.
From Coq Require Import Reals Lra.
Open Scope Z_scope.

Lemma hget_prefix {A} (v : A) k l i : hget v (l ++ repeat v k) i = hget v l i.
Proof.
  rewrite !hget_nth. destruct (Nat.ltb_spec i (length l)) as [H|H].
  - rewrite app_nth1 by lia. reflexivity.
  - rewrite app_nth2 by lia. rewrite (nth_overflow l) by lia.
    destruct (Nat.ltb_spec (i - length l) k) as [H2|H2].
    + apply nth_repeat.
    + apply nth_overflow. rewrite repeat_length. lia.
Qed.
Lemma rev_prefix {A} (v : A) k xs : rev (repeat v k ++ xs) = rev xs ++ repeat v k.
Proof. rewrite rev_app_distr. f_equal. clear. induction k; simpl; auto. rewrite IHk.
  clear. induction k; simpl; auto. f_equal; auto. Qed.

Section Generic.
Context {S I O : Type}.
Variable new : Z -> I -> outcome S.
Variable next : S -> I -> S * O.
Variable def : nat -> (nat -> I) -> O.
Variables lo hi : Z.
Hypothesis correct : forall n v xs x, lo <= n <= hi ->
  exists s0, new n v = Ok s0 /\ snd (next (steps next s0 xs) x) = def (Z.to_nat n) (hget v (rev (xs ++ [x]))).
Hypothesis def_ext : forall n h h', (forall i, h i = h' i) -> def n h = def n h'.

(** any number of leading copies of the construction value leaves every later output unchanged *)
Theorem prefix_invariant n v k xs x : lo <= n <= hi ->
  exists s0, new n v = Ok s0 /\
    snd (next (steps next s0 (repeat v k ++ xs)) x) = snd (next (steps next s0 xs) x).
Proof.
  intros Hn. destruct (correct n v (repeat v k ++ xs) x Hn) as (s0 & E0 & E1).
  destruct (correct n v xs x Hn) as (s1 & E0' & E2). rewrite E0 in E0'. injection E0' as <-.
  exists s0. split; [exact E0|]. rewrite E1, E2. apply def_ext. intros i.
  rewrite <- app_assoc, rev_prefix. apply hget_prefix.
Qed.

(** constant input gives constant output, from the first step on *)
Theorem constant_output n v k : lo <= n <= hi ->
  exists s0, new n v = Ok s0 /\
    snd (next (steps next s0 (repeat v k)) v) = snd (next s0 v).
Proof.
  intros Hn. destruct (prefix_invariant n v k [] v Hn) as (s0 & E0 & E1).
  exists s0. split; [exact E0|]. rewrite app_nil_r in E1. exact E1.
Qed.
End Generic.

(** the definitions only look at the history pointwise *)
Section Ext.
Local Notation "'R'" := (@F NumR) (only parsing).
Lemma gsum_ext' n (g g' : nat -> R) : (forall i, g i = g' i) -> gsum n g = gsum n g'.
Proof. intros E. apply gsum_ext. intros; apply E. Qed.
Ltac ext_tac E := repeat (first [ reflexivity | rewrite E | apply gsum_ext'; intros ? | f_equal ]).
Lemma sma_ext n (h h' : nat -> R) : (forall i, h i = h' i) -> sma_def n h = sma_def n h'.
Proof. intros E. unfold sma_def, hsum. f_equal. apply gsum_ext'. exact E. Qed.
Lemma wma_ext n (h h' : nat -> R) : (forall i, h i = h' i) -> wma_def n h = wma_def n h'.
Proof. intros E. unfold wma_def, hwsum. f_equal. apply gsum_ext'. intros i. rewrite E. reflexivity. Qed.
Lemma integral_ext n (h h' : nat -> R) : (forall i, h i = h' i) -> integral_def n h = integral_def n h'.
Proof. intros E. unfold integral_def, hsum. apply gsum_ext'. exact E. Qed.
Lemma momentum_ext n (h h' : nat -> R) : (forall i, h i = h' i) -> momentum_def n h = momentum_def n h'.
Proof. intros E. unfold momentum_def. rewrite !E. reflexivity. Qed.
Lemma derivative_ext n (h h' : nat -> R) : (forall i, h i = h' i) -> derivative_def n h = derivative_def n h'.
Proof. intros E. unfold derivative_def. rewrite !E. reflexivity. Qed.
Lemma roc_ext n (h h' : nat -> R) : (forall i, h i = h' i) -> roc_def n h = roc_def n h'.
Proof. intros E. unfold roc_def. rewrite !E. reflexivity. Qed.
Lemma past_ext n (h h' : nat -> R) : (forall i, h i = h' i) -> past_def n h = past_def n h'.
Proof. intros E. unfold past_def. apply E. Qed.
Lemma linvol_ext n (h h' : nat -> R) : (forall i, h i = h' i) -> linvol_def n h = linvol_def n h'.
Proof. intros E. unfold linvol_def. apply gsum_ext'. intros i. rewrite !E. reflexivity. Qed.
Lemma stdev_ext n (h h' : nat -> R) : (forall i, h i = h' i) -> stdev_def n h = stdev_def n h'.
Proof. intros E. unfold stdev_def, var_def. rewrite (sma_ext n h h' E). f_equal. f_equal.
  apply gsum_ext'. intros i. rewrite E. reflexivity. Qed.
Lemma mad_ext n (h h' : nat -> R) : (forall i, h i = h' i) -> mad_def n h = mad_def n h'.
Proof. intros E. unfold mad_def. rewrite (sma_ext n h h' E). f_equal.
  apply gsum_ext'. intros i. rewrite E. reflexivity. Qed.
Lemma cci_ext n (h h' : nat -> R) : (forall i, h i = h' i) -> cci_def n h = cci_def n h'.
Proof. intros E. unfold cci_def. rewrite (mad_ext n h h' E), (sma_ext n h h' E), E. reflexivity. Qed.
Lemma trima_ext n (h h' : nat -> R) : (forall i, h i = h' i) -> trima_def n h = trima_def n h'.
Proof. intros E. unfold trima_def. apply sma_ext. intros j. apply sma_ext. intros i. apply E. Qed.
Lemma linreg_ext n (h h' : nat -> R) : (forall i, h i = h' i) -> linreg_def n h = linreg_def n h'.
Proof. intros E. unfold linreg_def, hsum.
  rewrite (gsum_ext' n h h' E).
  rewrite (gsum_ext' n (fun i => fmul (fneg (fofN i)) (h i)) (fun i => fmul (fneg (fofN i)) (h' i)))
    by (intros i; rewrite E; reflexivity). reflexivity. Qed.
Lemma vwma_ext n (h h' : nat -> R * R) : (forall i, h i = h' i) -> vwma_def n h = vwma_def n h'.
Proof. intros E. unfold vwma_def. f_equal; apply gsum_ext'; intros i; rewrite E; reflexivity. Qed.
Lemma adi_ext n (h h' : nat -> candle (N := NumR)) : (forall i, h i = h' i) -> adi_def n h = adi_def n h'.
Proof. intros E. unfold adi_def. apply gsum_ext'. intros i. rewrite E. reflexivity. Qed.
End Ext.

(** recursive methods: the recurrence started at x0 is at its fixed point on x0 *)
Section Rec.
Local Notation "'R'" := (@F NumR) (only parsing).
Open Scope R_scope.
Lemma ema_rec_prefix (a x0 : R) k rh : ema_rec a x0 (rh ++ repeat x0 k) = ema_rec a x0 rh.
Proof.
  induction rh as [|x r IH]; cbn [app ema_rec].
  - induction k as [|k IHk]; cbn [repeat ema_rec]; [reflexivity|]. rewrite IHk. rsimp. ring.
  - rewrite IH. reflexivity.
Qed.
Lemma ema_outs_prefix (a x0 : R) k rh : ema_outs a x0 (rh ++ repeat x0 k) = ema_outs a x0 rh ++ repeat x0 k.
Proof.
  induction rh as [|x r IH]; cbn [app ema_outs].
  - induction k as [|k IHk]; cbn [repeat ema_outs]; [reflexivity|]. rewrite IHk. f_equal.
    change (x0 :: repeat x0 k) with (repeat x0 (S k)). rewrite <- (app_nil_l (repeat x0 (S k))), ema_rec_prefix.
    reflexivity.
  - rewrite IH. f_equal. change (x :: r ++ repeat x0 k) with ((x :: r) ++ repeat x0 k).
    apply ema_rec_prefix.
Qed.
Theorem ema_family_prefix n (x0 : R) k rh :
  ema_def n x0 (rh ++ repeat x0 k) = ema_def n x0 rh /\
  dma_def n x0 (rh ++ repeat x0 k) = dma_def n x0 rh /\
  tma_def n x0 (rh ++ repeat x0 k) = tma_def n x0 rh /\
  dema_def n x0 (rh ++ repeat x0 k) = dema_def n x0 rh /\
  tema_def n x0 (rh ++ repeat x0 k) = tema_def n x0 rh /\
  rma_def n x0 (rh ++ repeat x0 k) = rma_def n x0 rh.
Proof.
  unfold tema_def, dema_def, tma_def, dma_def, ema_def, rma_def.
  rewrite !ema_outs_prefix, !ema_rec_prefix. repeat split; reflexivity.
Qed.
End Rec.
