(** The MA constructor (helpers::MA): for all 15 kinds the dispatched instance returns, at every step of
    every stream, the kind's from-scratch definition [ma_def] (exact arithmetic). *)
From Yata Require Import Base.Prelude Base.Num Base.NumR Core.Window Core.WindowSpec Core.Candle Core.Action Core.Strings
  Spec.Hist Spec.MethodDefs Spec.IndicatorDefs Methods.Basic Methods.Select Indicators.Common
  Proofs.MethodsCommon Proofs.Windowed Proofs.Windowed2 Proofs.Windowed4 Proofs.Windowed5 Proofs.Windowed6 Proofs.Recursive Proofs.Swma Proofs.Vidya Proofs.Smm.
From Coq Require Import Reals Lra.
Open Scope Z_scope.

Section MA.
Context {pw : PW}.
Local Notation R := (@F NumR).

Definition ma_proved (c : ma_cfg) : bool :=
  match c with MAcfg k _ =>
    match k with KSMA | KWMA | KHMA | KRMA | KEMA | KDMA | KDEMA | KTMA | KTEMA | KWSMA | KSMM | KSWMA | KTRIMA | KLinReg | KVidya => true end
  end.
(** the lengths each kind accepts (C10) *)
Definition ma_len_ok (c : ma_cfg) : Prop :=
  match c with MAcfg k n =>
    match k with
    | KHMA | KLinReg => 2 <= n <= pmax - 1
    | KRMA => 1 <= n <= pmax
    | KWSMA => 1 <= n <= pmax / 2 /\ pmax / 2 * 2 + 1 = pmax
    | _ => 1 <= n <= pmax - 1
    end
  end.

Lemma steps_lift {S} (c : S -> ma_state (N := NumR)) (knext : S -> R -> S * R) :
  (forall s x, ma_next (c s) x = (c (fst (knext s x)), snd (knext s x))) ->
  forall xs s, steps ma_next (c s) xs = c (steps knext s xs).
Proof.
  intros H xs. induction xs as [|x xs IH]; intros s; [reflexivity|].
  unfold steps in *. cbn [fold_left]. rewrite H. cbn [fst]. apply IH.
Qed.

Tactic Notation "ma_case" constr(correct) constr(ctor) constr(knext) constr(v) constr(xs) constr(x) constr(Hn) :=
  let s0 := fresh "s0" in let E := fresh "E" in let Ho := fresh "Ho" in
  destruct (correct _ v xs x Hn) as (s0 & E & Ho); rewrite E; cbn [omap];
  eexists; split; [reflexivity|];
  rewrite (steps_lift ctor knext) by (intros; reflexivity); cbn [ma_next fst snd]; exact Ho.

Theorem ma_correct (c : ma_cfg) (v : R) xs x : ma_proved c = true -> ma_len_ok c ->
  exists s0, ma_init c v = Ok s0 /\ snd (ma_next (steps ma_next s0 xs) x) = ma_def c v (rev (xs ++ [x])).
Proof.
  destruct c as (k, n). intros Hp Hn. unfold ma_init, ma_def. cbv zeta.
  destruct k; try discriminate Hp; cbn [ma_len_ok] in Hn.
  - ma_case sma_correct (MS_SMA (N := NumR)) (sma_next (N := NumR)) v xs x Hn.
  - ma_case wma_correct (MS_WMA (N := NumR)) (wma_next (N := NumR)) v xs x Hn.
  - ma_case hma_correct (MS_HMA (N := NumR)) (hma_next (N := NumR)) v xs x Hn.
  - ma_case rma_correct (MS_RMA (N := NumR)) (rma_next (N := NumR)) v xs x Hn.
  - ma_case ema_correct (MS_EMA (N := NumR)) (ema_next (N := NumR)) v xs x Hn.
  - ma_case dma_correct (MS_DMA (N := NumR)) (dma_next (N := NumR)) v xs x Hn.
  - ma_case dema_correct (MS_DEMA (N := NumR)) (dema_next (N := NumR)) v xs x Hn.
  - ma_case tma_correct (MS_TMA (N := NumR)) (tma_next (N := NumR)) v xs x Hn.
  - ma_case tema_correct (MS_TEMA (N := NumR)) (tema_next (N := NumR)) v xs x Hn.
  - destruct Hn as (Hn & Hodd).
    destruct (wsma_correct Hodd n v xs x Hn) as (s0 & E & Ho). rewrite E. cbn [omap].
    eexists; split; [reflexivity|].
    rewrite (steps_lift (MS_WSMA (N := NumR)) (wsma_next (N := NumR))) by (intros; reflexivity). cbn [ma_next fst snd]. exact Ho.
  - destruct (smm_total_correct n v xs x Hn) as (s0 & E & Ho). rewrite E. cbn [omap]. eexists; split; [reflexivity|].
    rewrite (steps_lift (MS_SMM (N := NumR)) smm_step_t) by (intros s y; cbn [ma_next]; unfold smm_step_t; destruct (smm_next s y) as [[? ?]| |]; reflexivity).
    cbn [ma_next]. unfold smm_step_t in Ho at 1. destruct (smm_next (steps smm_step_t s0 xs) x) as [[? ?]| |]; exact Ho.
  - ma_case swma_correct (MS_SWMA (N := NumR)) (swma_next (N := NumR)) v xs x Hn.
  - ma_case trima_correct (MS_TRIMA (N := NumR)) (trima_next (N := NumR)) v xs x Hn.
  - ma_case linreg_correct (MS_LinReg (N := NumR)) (linreg_next (N := NumR)) v xs x Hn.
  - ma_case vidya_correct (MS_Vidya (N := NumR)) (vidya_next (N := NumR)) v xs x Hn.
Qed.
End MA.
