(** C02: SWMA (symmetric weights 1,2,..,2,1) equals its from-scratch definition for every length and stream. *)
From Yata Require Import Base.Prelude Base.Num Base.NumR Core.Window Core.WindowSpec Core.Candle
  Spec.Hist Spec.MethodDefs Methods.Basic Proofs.MethodsCommon Proofs.Windowed Proofs.Windowed2.
From Coq Require Import Reals Lra.
Open Scope R_scope.

Section Swma.
Context {pw : PW}.
Local Notation "'R'" := (@F NumR) (only parsing).
Local Notation gs := (gsum (N := NumR)).

Lemma gsum_split a b (f : nat -> R) : gs (a + b) f = gs a f + gs b (fun i => f (a + i)%nat).
Proof.
  induction b as [|b IH]; [rewrite Nat.add_0_r, gsum_0; lra|].
  rewrite Nat.add_succ_r, !gsum_S, IH. lra.
Qed.

(** the two halves of the weighted sum: ages 0..r-1 carry weights 1..r, ages r..r+l-1 carry l..1 *)
Definition sw_A (r : nat) (h : nat -> R) : R := gs r (fun i => INR (S i) * h i).
Definition sw_B (r l : nat) (h : nat -> R) : R := gs l (fun i => INR (l - i) * h (r + i)%nat).

Lemma swma_num_split r l (h : nat -> R) : (l = r \/ l = S r)%nat ->
  hwsum (r + l) (swma_weight (r + l)) h = sw_A r h + sw_B r l h.
Proof.
  intros Hl. unfold hwsum. rewrite gsum_split. unfold sw_A, sw_B. f_equal.
  - apply gsum_ext. intros i Hi. unfold swma_weight. rewrite fofN_INR. rsimp. f_equal. f_equal. lia.
  - apply gsum_ext. intros i Hi. unfold swma_weight. rewrite fofN_INR. rsimp. f_equal. f_equal. lia.
Qed.

Lemma sw_A_hcons r x (h : nat -> R) :
  sw_A (S r) (hcons x h) = sw_A (S r) h + x + gs (S r) h - INR (S (S r)) * h r.
Proof.
  unfold sw_A. rewrite gsum_S_shift. cbn [hcons]. rewrite !gsum_S.
  rewrite (gsum_ext r (fun i => INR (S (S i)) * h i) (fun i => INR (S i) * h i + h i)).
  2:{ intros i Hi. rewrite (S_INR (S i)). lra. }
  rewrite gsum_plus. change (gs r (fun i => h i)) with (gs r h). rewrite (S_INR (S r)). change (INR 1) with 1. lra.
Qed.
Lemma sw_B_hcons r l x (h : nat -> R) :
  sw_B (S r) (S l) (hcons x h) = sw_B (S r) (S l) h + INR (S l) * h r - gs (S l) (fun i => h (S r + i)%nat).
Proof.
  unfold sw_B. rewrite gsum_S_shift. rewrite Nat.add_0_r. cbn [hcons]. replace (S l - 0)%nat with (S l) by lia.
  rewrite (gsum_ext l (fun i => INR (S l - S i) * hcons x h (S r + S i)%nat) (fun i => INR (l - i) * h (S r + i)%nat)).
  2:{ intros i Hi. replace (S r + S i)%nat with (S (S r + i)) by lia. cbn [hcons]. reflexivity. }
  rewrite (gsum_S l (fun i => INR (S l - i) * h (S r + i)%nat)). replace (S l - l)%nat with 1%nat by lia.
  rewrite (gsum_ext l (fun i => INR (S l - i) * h (S r + i)%nat) (fun i => INR (l - i) * h (S r + i)%nat + h (S r + i)%nat)).
  2:{ intros i Hi. replace (S l - i)%nat with (S (l - i)) by lia. rewrite S_INR. lra. }
  rewrite gsum_plus. rewrite (gsum_S l (fun i => h (S r + i)%nat)). change (INR 1) with 1. rsimp. ring.
Qed.

Definition swma_inv (r l : nat) (s : swma (N := NumR)) (h : nat -> R) : Prop :=
  WinOK r (sw_right_window s) h /\ WinOK l (sw_left_window s) (hshift r h) /\
  sw_right_total s = gs r h /\ sw_right_fl s = - INR r /\
  sw_left_total s = - gs l (hshift r h) /\ sw_left_fl s = INR l /\
  sw_invert_sum s = / IZR (swma_wsum (r + l)) /\ sw_numerator s = sw_A r h + sw_B r l h.

Lemma swma_step r l s h x : (S l = S r \/ S l = S (S r))%nat -> swma_inv (S r) (S l) s h ->
  swma_inv (S r) (S l) (fst (swma_next s x)) (hcons x h) /\
  snd (swma_next s x) = swma_def (S r + S l) (hcons x h).
Proof.
  intros Hl (Wr & Wl & Hrt & Hrf & Hlt & Hlf & His & Hn).
  destruct (winok_push r _ h x Wr) as (rw & Pr & Wr').
  destruct (winok_push l _ (hshift (S r) h) (h r) Wl) as (lw & Pl & Wl').
  unfold swma_next.
  assert (Hne : w_is_empty (sw_right_window s) = false).
  { destruct Wr as (Hwf & Hsz & _). unfold w_is_empty. destruct (buf (sw_right_window s)) eqn:Eb; [|reflexivity].
    destruct Hwf as (Hb & _). rewrite Eb in Hb. cbn [length] in Hb. rewrite Hsz in Hb. exfalso. lia. }
  rewrite Hne, Pr. cbv zeta. cbv beta iota. rewrite Pl. cbv beta iota.
  set (rt := fadd (sw_right_total s) (fsub x (h r))).
  assert (Ert : rt = gs (S r) (hcons x h)).
  { unfold rt. rewrite Hrt. pose proof (gsum_hcons r x h (fun y => y)) as G. cbn beta in G.
    change (gsum (S r) (fun i => hcons x h i)) with (gs (S r) (hcons x h)) in G.
    change (gsum (S r) (fun i => h i)) with (gs (S r) h) in G. rewrite G. rsimp. lra. }
  assert (Elp : hshift (S r) h l = h (S r + l)%nat) by reflexivity.
  set (lt := fadd (sw_left_total s) (fsub (hshift (S r) h l) (h r))).
  assert (Elt : lt = - gs (S l) (hshift (S r) (hcons x h))).
  { unfold lt. rewrite Hlt.
    assert (E : forall i, hshift (S r) (hcons x h) i = hcons (h r) (hshift (S r) h) i).
    { intros [|i]; unfold hshift; [rewrite Nat.add_0_r; reflexivity|]. replace (S r + S i)%nat with (S (S r + i)) by lia. reflexivity. }
    rewrite (gsum_ext (S l) (hshift (S r) (hcons x h)) (hcons (h r) (hshift (S r) h))) by (intros; apply E).
    pose proof (gsum_hcons l (h r) (hshift (S r) h) (fun y => y)) as G. cbn beta in G.
    change (gsum (S l) (fun i => hcons (h r) (hshift (S r) h) i)) with (gs (S l) (hcons (h r) (hshift (S r) h))) in G.
    change (gsum (S l) (fun i => hshift (S r) h i)) with (gs (S l) (hshift (S r) h)) in G. rewrite G. rsimp. lra. }
  set (num2 := fadd (fadd (sw_numerator s) (ffma (h r) (sw_right_fl s) rt)) (ffma (h r) (sw_left_fl s) (sw_left_total s))).
  assert (En : num2 = sw_A (S r) (hcons x h) + sw_B (S r) (S l) (hcons x h)).
  { unfold num2. rewrite Ert, Hn, Hrf, Hlf, Hlt, sw_A_hcons, sw_B_hcons.
    pose proof (gsum_hcons r x h (fun y => y)) as G. cbn beta in G.
    change (gsum (S r) (fun i => hcons x h i)) with (gs (S r) (hcons x h)) in G.
    change (gsum (S r) (fun i => h i)) with (gs (S r) h) in G. rewrite G.
    change (gs (S l) (hshift (S r) h)) with (gs (S l) (fun i => h (S r + i)%nat)).
    rewrite (S_INR (S r)). rsimp. lra. }
  cbn [fst snd]. split.
  - split; [exact Wr'|]. split.
    + eapply winok_ext; [|exact Wl']. intros [|i]; unfold hshift; [rewrite Nat.add_0_r; reflexivity|].
      replace (S r + S i)%nat with (S (S r + i)) by lia. reflexivity.
    + cbn [sw_right_total sw_right_fl sw_left_total sw_left_fl sw_invert_sum sw_numerator].
      repeat split; assumption.
  - unfold swma_peek. cbn [sw_numerator sw_invert_sum]. fold num2. rewrite En, His.
    unfold swma_def. rewrite (swma_num_split (S r) (S l)) by lia. rsimp. unfold Rdiv. reflexivity.
Qed.

Lemma succ_weights_sum n : gs n (fun i => INR (S i)) = IZR (Z.of_nat n * (Z.of_nat n + 1) / 2).
Proof.
  induction n as [|n IH]; [reflexivity|].
  rewrite gsum_S, IH, Nat2Z.inj_succ. unfold Z.succ. rewrite tri_succ by lia.
  rewrite !plus_IZR, <- INR_IZR_INZ, S_INR. simpl. lra.
Qed.

Lemma swma_init n v : (2 <= n <= pmax - 1)%Z ->
  exists s0 r l, swma_new n v = Ok s0 /\ Z.to_nat n = (S r + S l)%nat /\ (S l = S r \/ S l = S (S r))%nat /\
    swma_inv (S r) (S l) s0 (hconst v).
Proof.
  intros Hn. unfold swma_new. rewrite bad_len_false by lia. cbv zeta.
  set (rl := (n / 2)%Z). set (ll := ((n + 1) / 2)%Z).
  assert (Hrl : (1 <= rl)%Z) by (unfold rl; apply Z.div_le_lower_bound; lia).
  assert (Hsum : (rl + ll = n)%Z) by (unfold rl, ll; lia).
  assert (Hll : (ll = rl \/ ll = rl + 1)%Z) by (unfold rl, ll; lia).
  exists (mkSWMA (fmul v (fofZ rl)) (fneg (fofZ rl)) (w_new_t rl v) (fmul (fneg v) (fofZ ll)) (fofZ ll) (w_new_t ll v)
            (frecip (fofZ ((ll * (ll + 1)) / 2 + (rl * (rl + 1)) / 2))) (fmul v (fofZ ((ll * (ll + 1)) / 2 + (rl * (rl + 1)) / 2)))).
  exists (Z.to_nat (rl - 1)), (Z.to_nat (ll - 1)).
  split; [reflexivity|]. split; [lia|]. split; [lia|].
  assert (Er : S (Z.to_nat (rl - 1)) = Z.to_nat rl) by lia. assert (El : S (Z.to_nat (ll - 1)) = Z.to_nat ll) by lia.
  rewrite Er, El. unfold swma_inv. cbn [sw_right_window sw_left_window sw_right_total sw_right_fl sw_left_total sw_left_fl sw_invert_sum sw_numerator].
  split; [apply winok_new; lia|]. split.
  { eapply winok_ext; [|apply winok_new; lia]. intros i. reflexivity. }
  split; [unfold hconst; rewrite gsum_const; rsimp; rewrite (IZR_nat rl) by lia; lra|].
  split; [rsimp; rewrite (IZR_nat rl) by lia; reflexivity|].
  split; [unfold hshift, hconst; rewrite gsum_const; rsimp; rewrite (IZR_nat ll) by lia; lra|].
  split; [rsimp; rewrite (IZR_nat ll) by lia; reflexivity|].
  assert (Ew : swma_wsum (Z.to_nat rl + Z.to_nat ll) = (ll * (ll + 1) / 2 + rl * (rl + 1) / 2)%Z).
  { unfold swma_wsum. cbv zeta. replace (Z.of_nat (Z.to_nat rl + Z.to_nat ll)) with n by lia. reflexivity. }
  split; [unfold frecip; rsimp; rewrite Ew; unfold Rdiv; lra|].
  unfold sw_A, sw_B, hconst.
  rewrite (gsum_ext _ (fun i => INR (S i) * v) (fun i => v * INR (S i))) by (intros; lra).
  rewrite (gsum_ext _ (fun i => INR (Z.to_nat ll - i) * v) (fun i => v * INR (Z.to_nat ll - i))) by (intros; lra).
  rewrite !gsum_scal, succ_weights_sum, wma_weights_sum, !Z2Nat.id by lia. rsimp. rewrite plus_IZR. lra.
Qed.

Theorem swma_correct n v xs x : (1 <= n <= pmax - 1)%Z ->
  exists s0, swma_new n v = Ok s0 /\
    snd (swma_next (steps swma_next s0 xs) x) = swma_def (Z.to_nat n) (hget v (rev (xs ++ [x]))).
Proof.
  intros Hn. destruct (Z.eq_dec n 1) as [->|Hne].
  - (* length 1: the right half is empty and the input is passed through *)
    unfold swma_new. rewrite bad_len_false by lia. cbv zeta. eexists; split; [reflexivity|].
    change (1 / 2)%Z with 0%Z. change ((1 + 1) / 2)%Z with 1%Z.
    set (s0 := mkSWMA _ _ _ _ _ _ _ _).
    assert (Hemp : forall xs0 s, w_is_empty (sw_right_window s) = true -> w_is_empty (sw_right_window (steps swma_next s xs0)) = true).
    { induction xs0 as [|a r IH]; intros s Hs; [exact Hs|]. unfold steps in *. cbn [fold_left]. apply IH.
      unfold swma_next. rewrite Hs. exact Hs. }
    assert (H0 : w_is_empty (sw_right_window s0) = true).
    { unfold s0. cbn [sw_right_window]. unfold w_new_t, w_new. destruct (Z.leb_spec 0 (pmax - 1)); [reflexivity|lia]. }
    unfold swma_next at 1. rewrite (Hemp xs s0 H0). cbn [snd].
    unfold swma_def, hwsum. change (Z.to_nat 1) with 1%nat. cbn [gsum seq map lsum]. unfold swma_weight, swma_wsum. cbn.
    rewrite rev_unit. cbn [hget hcons]. rsimp. unfold fofN. rsimp. cbn. field.
  - assert (Hn2 : (2 <= n <= pmax - 1)%Z) by lia.
    destruct (swma_init n v Hn2) as (s0 & r & l & Hnew & En & Hl & Hinv). exists s0. split; [exact Hnew|].
    rewrite En.
    eapply (inv_correct _ (swma_inv (S r) (S l)) (swma_def (S r + S l)) (fun s h x => swma_step r l s h x Hl)). exact Hinv.
Qed.
End Swma.
