(** C15 continued: the remaining averaging kinds - SWMA (symmetric weights) and Vidya (adaptive EMA) - are
    affine-equivariant too. *)
From Yata Require Import Base.Prelude Base.Num Base.NumR Core.Window Core.WindowSpec Core.Candle Core.Strings
  Spec.Hist Spec.MethodDefs Spec.IndicatorDefs Methods.Basic Proofs.MethodsCommon Proofs.Windowed Proofs.Windowed2 Proofs.Swma Proofs.Windowed5 Proofs.Averages.
From Coq Require Import Reals Lra Lia.
Open Scope R_scope.

Section Avg3.
Context {pw : PW}.
Local Notation R := (@F NumR).
Local Notation gs := (gsum (N := NumR)).

Lemma swma_weights_sum n : gs n (fun i => swma_weight (N := NumR) n i) = IZR (swma_wsum n).
Proof.
  set (r := Nat.div n 2). set (l := (n - r)%nat).
  assert (Hn : n = (r + l)%nat) by (unfold l; pose proof (Nat.div_le_upper_bound n 2 n ltac:(lia) ltac:(lia)); fold r in H; lia).
  assert (Hl : (l = r \/ l = S r)%nat).
  { unfold l, r. pose proof (Nat.div_mod n 2 ltac:(lia)) as D. pose proof (Nat.mod_upper_bound n 2 ltac:(lia)) as M. lia. }
  pose proof (swma_num_split r l (fun _ => 1) Hl) as S. unfold hwsum in S. rewrite <- Hn in S.
  rewrite (gsum_ext n _ (fun i => fmul (swma_weight (N := NumR) n i) 1)) by (intros; rsimp; lra). rewrite S.
  unfold sw_A, sw_B. rewrite (gsum_ext r _ (fun i => INR (Datatypes.S i))) by (intros; lra).
  rewrite (gsum_ext l _ (fun i => INR (l - i))) by (intros; lra).
  rewrite succ_weights_sum, wma_weights_sum. unfold swma_wsum. cbv zeta. rewrite <- plus_IZR. f_equal.
  assert (Er : Z.of_nat r = (Z.of_nat n / 2)%Z) by (unfold r; rewrite Nat2Z.inj_div; reflexivity).
  assert (El : Z.of_nat l = ((Z.of_nat n + 1) / 2)%Z).
  { pose proof (Z.div_mod (Z.of_nat n) 2 ltac:(lia)) as D. pose proof (Z.mod_pos_bound (Z.of_nat n) 2 ltac:(lia)) as M.
    pose proof (Z.div_mod (Z.of_nat n + 1) 2 ltac:(lia)) as D1. pose proof (Z.mod_pos_bound (Z.of_nat n + 1) 2 ltac:(lia)) as M1. lia. }
  rewrite Er, El. ring.
Qed.
Lemma swma_den_pos n : (1 <= n)%nat -> 0 < IZR (swma_wsum n).
Proof.
  intros Hn. apply IZR_lt. unfold swma_wsum. cbv zeta.
  assert (H1 : (1 <= (Z.of_nat n + 1) / 2)%Z) by (apply Z.div_le_lower_bound; lia).
  assert (H2 : (0 <= Z.of_nat n / 2)%Z) by (apply Z.div_pos; lia).
  pose proof (tri_pos ((Z.of_nat n + 1) / 2) H1).
  assert (0 <= Z.of_nat n / 2 * (Z.of_nat n / 2 + 1) / 2)%Z by (apply Z.div_pos; nia). lia.
Qed.
Theorem swma_affine n a b (h : nat -> R) : (1 <= n)%nat ->
  swma_def n (fun i => a * h i + b) = a * swma_def n h + b.
Proof.
  intros Hn. unfold swma_def, hwsum. rsimp.
  rewrite (gsum_ext n _ (fun i => a * (swma_weight (N := NumR) n i * h i) + b * swma_weight (N := NumR) n i)) by (intros; ring).
  rewrite gsum_plus, !gsum_scal, swma_weights_sum. pose proof (swma_den_pos n Hn). field. lra.
Qed.

(* ------------------------------------------------------------------ Vidya *)
Lemma fpos_R (c : R) : fpos c = if Rltb 0 c then c else 0.  Proof. reflexivity. Qed.
Lemma fnegp_R (c : R) : fnegp c = if Rltb c 0 then - c else 0.  Proof. reflexivity. Qed.
Lemma fpos_nonneg (c : R) : 0 <= fpos c.
Proof. rewrite fpos_R. destruct (Rltb_spec 0 c); lra. Qed.
Lemma fnegp_nonneg (c : R) : 0 <= fnegp c.
Proof. rewrite fnegp_R. destruct (Rltb_spec c 0); lra. Qed.
Lemma fpos_scale_pos a c : 0 < a -> fpos (a * c) = a * fpos c /\ fnegp (a * c) = a * fnegp c.
Proof.
  intros Ha. rewrite !fpos_R, !fnegp_R.
  destruct (Rltb_spec 0 c), (Rltb_spec 0 (a * c)), (Rltb_spec c 0), (Rltb_spec (a * c) 0); split; try lra; try nra.
Qed.
Lemma fpos_scale_neg a c : a < 0 -> fpos (a * c) = (- a) * fnegp c /\ fnegp (a * c) = (- a) * fpos c.
Proof.
  intros Ha. rewrite !fpos_R, !fnegp_R.
  destruct (Rltb_spec 0 c), (Rltb_spec 0 (a * c)), (Rltb_spec c 0), (Rltb_spec (a * c) 0); split; try lra; try nra.
Qed.
Lemma gsum_nonneg n (g : nat -> R) : (forall i, 0 <= g i) -> 0 <= gs n g.
Proof. intros H. induction n as [|n IH]; [rewrite gsum_0; lra|]. rewrite gsum_S. specialize (H n). lra. Qed.

Lemma diffs_affine a b (x0 : R) rh :
  diffs (a * x0 + b) (map (fun y => a * y + b) rh) = map (fun d => a * d) (diffs x0 rh).
Proof.
  induction rh as [|x r IH]; [reflexivity|]. cbn [map diffs]. rewrite IH. f_equal.
  match goal with |- fsub _ ?t = _ => assert (Hg : t = a * hget x0 r 0%nat + b) by exact (hget_map (fun y => a * y + b) x0 r 0%nat); rewrite Hg end.
  rsimp. ring.
Qed.
Lemma hget_scale a (l : list R) i : hget (f0 (N := NumR)) (map (fun d => a * d) l) i = a * hget (f0 (N := NumR)) l i.
Proof.
  replace (f0 (N := NumR)) with (a * f0 (N := NumR)) at 1 by (unfold f0; numR; ring).
  apply (hget_map (A := @F NumR) (B := @F NumR) (fun d => a * d)).
Qed.

(** the adaptive factor |up - dn| / (up + dn) does not change under a non-zero scaling of the changes *)
Lemma vidya_factor_scale (up dn t : R) : t <> 0 ->
  Rabs ((t * up - t * dn) / (t * up + t * dn)) = Rabs ((up - dn) / (up + dn)).
Proof.
  intros Ht. destruct (Req_dec (up + dn) 0) as [E|NE].
  - replace (t * up + t * dn) with (t * (up + dn)) by ring. rewrite E, Rmult_0_r. unfold Rdiv. rewrite Rinv_0, !Rmult_0_r. reflexivity.
  - assert (NE' : t * up + t * dn <> 0) by (replace (t * up + t * dn) with (t * (up + dn)) by ring; apply Rmult_integral_contrapositive_currified; assumption).
    f_equal. field. split; assumption.
Qed.

(** one step of the definition, with the two sums abstracted *)
Definition vsum_up (n : nat) (ch : nat -> R) : R := gs n (fun i => fpos (ch i)).
Definition vsum_dn (n : nat) (ch : nat -> R) : R := gs n (fun i => fnegp (ch i)).
Definition vidya_step (n : nat) (up dn x prev : R) : R :=
  if fne up f0 || fne dn f0 then
    let k := fmul (MethodDefs.ema_alpha (Z.of_nat n)) (fabs (fdiv (fsub up dn) (fadd up dn))) in
    fadd (fmul x k) (fmul (fsub f1 k) prev)
  else x.
Lemma vidya_rec_step n (x0 x : R) r :
  vidya_rec n x0 (x :: r) =
  let ch := hget f0 (diffs x0 (x :: r)) in vidya_step n (vsum_up n ch) (vsum_dn n ch) x (vidya_rec n x0 r).
Proof. reflexivity. Qed.

Lemma vsum_nonneg n ch : 0 <= vsum_up n ch /\ 0 <= vsum_dn n ch.
Proof. split; apply gsum_nonneg; intros; [apply fpos_nonneg|apply fnegp_nonneg]. Qed.
Lemma vsum_scale_pos n a ch : 0 < a ->
  vsum_up n (fun i => a * ch i) = a * vsum_up n ch /\ vsum_dn n (fun i => a * ch i) = a * vsum_dn n ch.
Proof. intros Ha. unfold vsum_up, vsum_dn. rewrite <- !gsum_scal. split; apply gsum_ext; intros i _; apply fpos_scale_pos; exact Ha. Qed.
Lemma vsum_scale_neg n a ch : a < 0 ->
  vsum_up n (fun i => a * ch i) = (- a) * vsum_dn n ch /\ vsum_dn n (fun i => a * ch i) = (- a) * vsum_up n ch.
Proof. intros Ha. unfold vsum_up, vsum_dn. rewrite <- !gsum_scal. split; apply gsum_ext; intros i _; apply fpos_scale_neg; exact Ha. Qed.
Lemma vsum_scale_zero n ch : vsum_up n (fun i => 0 * ch i) = 0 /\ vsum_dn n (fun i => 0 * ch i) = 0.
Proof.
  unfold vsum_up, vsum_dn. split.
  - rewrite (gsum_ext n _ (fun _ => 0)); [rewrite gsum_const; rsimp; ring|]. intros i _. rewrite Rmult_0_l, fpos_R. destruct (Rltb_spec 0 0); lra.
  - rewrite (gsum_ext n _ (fun _ => 0)); [rewrite gsum_const; rsimp; ring|]. intros i _. rewrite Rmult_0_l, fnegp_R. destruct (Rltb_spec 0 0); lra.
Qed.
Lemma vsum_ext n ch ch' : (forall i, ch i = ch' i) -> vsum_up n ch = vsum_up n ch' /\ vsum_dn n ch = vsum_dn n ch'.
Proof. intros H. unfold vsum_up, vsum_dn. split; apply gsum_ext; intros i _; rewrite H; reflexivity. Qed.

Lemma vidya_step_pos n a b up dn x V : 0 < a ->
  vidya_step n (a * up) (a * dn) (a * x + b) (a * V + b) = a * vidya_step n up dn x V + b.
Proof.
  intros Ha. unfold vidya_step, fne. rsimp.
  assert (E1 : Reqb (a * dn) 0 = Reqb dn 0) by (destruct (Reqb_spec (a * dn) 0), (Reqb_spec dn 0); try reflexivity; exfalso; nra).
  assert (E2 : Reqb (a * up) 0 = Reqb up 0) by (destruct (Reqb_spec (a * up) 0), (Reqb_spec up 0); try reflexivity; exfalso; nra).
  rewrite E1, E2. destruct (negb (Reqb up 0) || negb (Reqb dn 0)); [|reflexivity].
  rewrite (vidya_factor_scale up dn a) by lra. ring.
Qed.
Lemma vidya_step_neg n a b up dn x V : a < 0 ->
  vidya_step n (- a * dn) (- a * up) (a * x + b) (a * V + b) = a * vidya_step n up dn x V + b.
Proof.
  intros Ha. unfold vidya_step, fne. rsimp.
  assert (E1 : Reqb (- a * dn) 0 = Reqb dn 0) by (destruct (Reqb_spec (- a * dn) 0), (Reqb_spec dn 0); try reflexivity; exfalso; nra).
  assert (E2 : Reqb (- a * up) 0 = Reqb up 0) by (destruct (Reqb_spec (- a * up) 0), (Reqb_spec up 0); try reflexivity; exfalso; nra).
  rewrite E1, E2, orb_comm. destruct (negb (Reqb up 0) || negb (Reqb dn 0)); [|reflexivity].
  replace (Rabs ((- a * dn - - a * up) / (- a * dn + - a * up))) with (Rabs ((up - dn) / (up + dn))); [ring|].
  rewrite (vidya_factor_scale dn up (- a)) by lra. rewrite <- (Rabs_Ropp ((dn - up) / (dn + up))).
  f_equal. unfold Rdiv. rewrite (Rplus_comm dn up). ring.
Qed.
Lemma vidya_step_zero n b up dn x V : vidya_step n 0 0 (0 * x + b) (0 * V + b) = 0 * vidya_step n up dn x V + b.
Proof.
  unfold vidya_step, fne. rsimp. destruct (Reqb_spec 0 0) as [_|N0]; [|exfalso; apply N0; reflexivity]. cbn [negb orb]. ring.
Qed.

Theorem vidya_affine n a b (x0 : R) rh :
  vidya_rec n (a * x0 + b) (map (fun y => a * y + b) rh) = a * vidya_rec n x0 rh + b.
Proof.
  induction rh as [|x r IH]; [reflexivity|].
  change (map (fun y => a * y + b) (x :: r)) with ((a * x + b) :: map (fun y => a * y + b) r).
  rewrite !vidya_rec_step. cbv zeta. rewrite IH.
  change ((a * x + b) :: map (fun y => a * y + b) r) with (map (fun y => a * y + b) (x :: r)). rewrite diffs_affine.
  set (ch := hget (f0 (N := NumR)) (diffs x0 (x :: r))).
  match goal with |- vidya_step n (vsum_up n ?c) (vsum_dn n ?c) _ _ = _ =>
    destruct (vsum_ext n c (fun i => a * ch i) (hget_scale a _)) as (-> & ->) end.
  destruct (Rtotal_order a 0) as [Ha|[Ha|Ha]].
  - destruct (vsum_scale_neg n a ch Ha) as (-> & ->). apply vidya_step_neg. exact Ha.
  - subst a. destruct (vsum_scale_zero n ch) as (-> & ->). apply vidya_step_zero.
  - destruct (vsum_scale_pos n a ch Ha) as (-> & ->). apply vidya_step_pos. exact Ha.
Qed.
End Avg3.
