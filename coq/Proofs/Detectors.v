(** C14: crossing detectors are definitional (NumR). *)
From Yata Require Import Base.Prelude Base.Num Base.NumR Core.Window Core.WindowSpec Core.Candle Core.Action
  Spec.Hist Methods.Basic Methods.Select Proofs.MethodsCommon.
From Coq Require Import Reals Lra.
Open Scope Z_scope.

Section Defs.
Context {N : Num}.
Definition delta (h : nat -> F * F) (i : nat) : F := fsub (fst (h i)) (snd (h i)).
(** fires iff the difference was negative one step ago and is non-negative now *)
Definition above_b (h : nat -> F * F) : bool := flt (delta h 1) f0 && fge (delta h 0) f0.
Definition under_b (h : nat -> F * F) : bool := fgt (delta h 1) f0 && fle (delta h 0) f0.
Definition cross_above_def h : action := a_from_i8 (if above_b h then 1 else 0).
Definition cross_under_def h : action := a_from_i8 (if under_b h then 1 else 0).
Definition cross_def h : action :=
  a_from_i8 ((if above_b h then 1 else 0) - (if under_b h then 1 else 0)).
End Defs.

Section Proofs.
Local Notation "'R'" := (@F NumR) (only parsing).

Theorem cross_above_correct (p0 : R * R) ps p :
  snd (cross_above_next (steps cross_above_next (cross_new p0) ps) p) = cross_above_def (hget p0 (rev (ps ++ [p]))).
Proof.
  pose (Inv := fun (s : R) (h : nat -> R * R) => s = delta h 0).
  apply (inv_correct cross_above_next Inv cross_above_def); [|reflexivity].
  intros s h x Hi. unfold Inv in *. subst s. split; reflexivity.
Qed.
Theorem cross_under_correct (p0 : R * R) ps p :
  snd (cross_under_next (steps cross_under_next (cross_new p0) ps) p) = cross_under_def (hget p0 (rev (ps ++ [p]))).
Proof.
  pose (Inv := fun (s : R) (h : nat -> R * R) => s = delta h 0).
  apply (inv_correct cross_under_next Inv cross_under_def); [|reflexivity].
  intros s h x Hi. unfold Inv in *. subst s. split; reflexivity.
Qed.
Theorem cross_correct (p0 : R * R) ps p :
  snd (cross_next (steps cross_next (cross_new p0, cross_new p0) ps) p) = cross_def (hget p0 (rev (ps ++ [p]))).
Proof.
  pose (Inv := fun (s : R * R) (h : nat -> R * R) => s = (delta h 0, delta h 0)).
  apply (inv_correct cross_next Inv cross_def); [|reflexivity].
  intros s h x Hi. unfold Inv in *. subst s. split; reflexivity.
Qed.

Open Scope R_scope.
(** swapping the two series negates the signed crossing *)
Theorem cross_def_swap (h : nat -> R * R) :
  cross_def (fun i => (snd (h i), fst (h i))) = a_neg (cross_def h).
Proof.
  unfold cross_def, above_b, under_b, delta. cbn [fst snd]. rsimp.
  set (d1 := fst (h 1%nat) - snd (h 1%nat)). set (d0 := fst (h 0%nat) - snd (h 0%nat)).
  replace (snd (h 1%nat) - fst (h 1%nat)) with (- d1) by (unfold d1; lra).
  replace (snd (h 0%nat) - fst (h 0%nat)) with (- d0) by (unfold d0; lra).
  destruct (Rltb_spec d1 0), (Rltb_spec 0 d1), (Rltb_spec (- d1) 0), (Rltb_spec 0 (- d1)); try lra;
  destruct (Rleb_spec 0 d0), (Rleb_spec d0 0), (Rleb_spec 0 (- d0)), (Rleb_spec (- d0) 0); try lra;
  reflexivity.
Qed.
End Proofs.
