(** C06 continued: ChandeKrollStop #2.  The signal is the DEFINITIONAL crossing (C14: CrossAbove) of the returned stop lines
    (long over short) over the whole history, kept only when the short stop is below the long stop, and signed by the joint move
    of the two stops since the previous result.  Proved for streams of every length. *)
From Yata Require Import Base.Prelude Base.Num Base.NumR Core.Window Core.Candle Core.Action
  Spec.Hist Methods.Basic Methods.Select Indicators.Common Indicators.Set5
  Proofs.MethodsCommon Proofs.Detectors Proofs.SignalProofs Proofs.SignalProofs2 Proofs.Cascade Proofs.SignalProofs3.
From Coq Require Import Reals Lra Lia.
Open Scope Z_scope.

Section CKS2.
Context {pw : PW}.
Local Notation R := (@F NumR).
Local Notation C := (candle (N := NumR)).
Local Notation IR := (iresult (N := NumR)).

Definition cks_pair (r : IR) : R * R := (vals r 0, vals r 2).     (* (stop_long, stop_short) *)

Lemma cks2_shape (s : cks_st (N := NumR)) k : let r := snd (cks_next s k) in
  ck_ca (fst (cks_next s k)) = fst (cross_above_next (ck_ca s) (cks_pair r)) /\
  ck_prev_long (fst (cks_next s k)) = vals r 0 /\ ck_prev_short (fst (cks_next s k)) = vals r 2 /\
  nth 1 (sigs r) ANone =
    a_from_i8 (a_to_i8 (snd (cross_above_next (ck_ca s) (cks_pair r))) * b2z (flt (vals r 2) (vals r 0))
               * signi (fadd (fsub (vals r 2) (ck_prev_short s)) (fsub (vals r 0) (ck_prev_long s)))).
Proof.
  cbv zeta. unfold cks_next. destruct (ma_next (ck_ma s) _) as (m, atr). destruct (highest_step (ck_h1 s) _) as (h1, hi).
  destruct (lowest_step (ck_l1 s) _) as (l1, lo). cbv zeta. destruct (highest_step (ck_h2 s) _) as (h2, ss). destruct (lowest_step (ck_l2 s) _) as (l2, sl).
  cbv zeta. destruct (cross_above_next (ck_ca s) (sl, ss)) as (ca, cra) eqn:E.
  unfold cks_pair, vals, sigs. cbn [fst snd nth ck_ca ck_prev_long ck_prev_short]. rewrite E. repeat split.
Qed.

Variables (s0 : cks_st (N := NumR)) (p0 : R * R).
Hypothesis H0 : ck_ca s0 = cross_new p0.

(** the previous pair of stops: the last result returned, or the values the instance was built with *)
Definition cks_prev (cs : list C) : R * R :=
  match rev (run cks_next s0 cs) with [] => (ck_prev_long s0, ck_prev_short s0) | r :: _ => cks_pair r end.

Lemma cks_prev_state cs : (ck_prev_long (steps cks_next s0 cs), ck_prev_short (steps cks_next s0 cs)) = cks_prev cs.
Proof.
  unfold cks_prev. induction cs as [|k cs _] using rev_ind; [reflexivity|].
  rewrite steps_snoc, run_app, rev_app_distr. cbn [run]. destruct (cks2_shape (steps cks_next s0 cs) k) as (_ & A & B & _).
  cbv zeta in A, B. rewrite A, B. destruct (cks_next (steps cks_next s0 cs) k) as (s', y). reflexivity.
Qed.

Theorem cks_signal2_correct cs k :
  nth 1 (sigs (snd (cks_next (steps cks_next s0 cs) k))) ANone =
  let r := snd (cks_next (steps cks_next s0 cs) k) in
  a_from_i8 (a_to_i8 (cross_above_def (pair_hist cks_next s0 cs k p0 cks_pair)) * b2z (flt (vals r 2) (vals r 0))
             * signi (fadd (fsub (vals r 2) (snd (cks_prev cs))) (fsub (vals r 0) (fst (cks_prev cs))))).
Proof.
  cbv zeta. rewrite (proj2 (proj2 (proj2 (cks2_shape (steps cks_next s0 cs) k)))).
  rewrite <- (cks_prev_state cs). cbn [fst snd]. unfold pair_hist.
  rewrite <- (det_output cks_next cross_above_next cross_above_def ck_ca cks_pair TrueS);
    [reflexivity | intros; exact I | intros s c _; apply cks2_shape | exact I | intros ps p; rewrite H0; apply cross_above_correct].
Qed.
End CKS2.
