(** Cascades of exponential averages (DMA = EMA of EMA, TMA = EMA of EMA of EMA): the binary64 model stays within
    2c/alpha (3c/alpha) of the exact cascade after any number of steps, c = 7 * 2^-53 * m + 2^-1075.
    Core: the EMA link with PERTURBED inputs - if the float inputs are within delta of ideal real inputs, the float EMA is within
    c/alpha + delta of the exact EMA of the ideal inputs (the exact recurrence has gain 1 in the sup norm). *)
From Coq Require Import ZArith Reals Floats Lra Lia Psatz List.
From Flocq Require Import Core BinarySingleNaN PrimFloat Relative Operations.
From Yata Require Import Base.Prelude Base.Num Base.NumR Base.NumF64 Methods.Basic Proofs.RoundingLink Proofs.RoundingLinkEma.
Import ListNotations.
Open Scope R_scope.

Local Notation pfloat := Coq.Floats.PrimFloat.float.

Definition close (d : R) (f : pfloat) (X : R) : Prop := Rabs (val f - X) <= d.

Theorem ema_link_perturbed (a y0 : pfloat) (Y0 B d : R) (l : list pfloat) (Xs : list R) :
  fin a -> fin y0 -> 0 < val a <= 1 -> 0 <= B -> 0 <= d -> ema_ok a y0 l -> ema_scale a y0 B l ->
  Rabs (val y0 - Y0) <= (u64 * B + eta64) / val a + d -> Forall2 (close d) l Xs ->
  Rabs (val (emaF a y0 l) - emaR (val a) Y0 Xs) <= (u64 * B + eta64) / val a + d.
Proof.
  intros Fa Fy0 Ha HB Hd. assert (Hu : 0 <= u64) by (unfold u64; pose proof (bpow_gt_0 radix2 (-53 + 1)); lra).
  assert (Het : 0 < eta64) by (unfold eta64; pose proof (bpow_gt_0 radix2 (-1074)); lra).
  assert (Hc : 0 <= u64 * B + eta64) by (pose proof (Rmult_le_pos _ _ Hu HB); lra).
  revert Xs. induction l as [|x r IH]; intros Xs Hok Hsc H0 Hcl.
  - inversion Hcl; subst. cbn [emaF emaR]. exact H0.
  - inversion Hcl as [|x' X r' Xr Hx Hr]; subst. cbn [ema_ok] in Hok. cbn [ema_scale] in Hsc.
    destruct Hok as (Okr & Fx & Hov1 & Hov2). destruct Hsc as (Sr & Sx).
    assert (Ey := IH Xr Okr Sr H0 Hr). cbn [emaF emaR].
    destruct (ema_rounding_link a y0 B r Fa Fy0 Ha HB Okr Sr) as (Fy & _).
    set (yF := emaF a y0 r) in *. set (Y := emaR (val a) Y0 Xr) in *.
    destruct (f64_sub_error x yF Fx Fy Hov1) as (Fd & e1 & He1 & Hdv).
    destruct (f64_fma_error (x - yF)%float a yF Fd Fa Fy Hov2) as (Fv & e2 & eta & He2 & Heta & Hv).
    rewrite Hv. unfold close in Hx.
    set (al := val a) in *. set (xr := val x) in *. set (y := val yF) in *. set (dd := val (x - yF)%float) in *.
    replace ((dd * al + y) * (1 + e2) + eta - ((X - Y) * al + Y))
      with ((1 - al) * (y - Y) + al * (xr - X) + e1 * (al * (xr - y)) + e2 * (dd * al + y) + eta) by (rewrite Hdv; ring).
    eapply Rle_trans; [apply Rabs_triang|]. eapply Rle_trans; [apply Rplus_le_compat_r, Rabs_triang|].
    eapply Rle_trans; [apply Rplus_le_compat_r, Rplus_le_compat_r, Rabs_triang|].
    eapply Rle_trans; [apply Rplus_le_compat_r, Rplus_le_compat_r, Rplus_le_compat_r, Rabs_triang|]. rewrite !Rabs_mult.
    rewrite (Rabs_pos_eq (1 - al)) by lra. rewrite (Rabs_pos_eq al) by lra.
    assert (H1 : Rabs e1 * (al * Rabs (xr - y)) <= u64 * (al * Rabs (xr - y))).
    { apply Rmult_le_compat_r; [apply Rmult_le_pos; [lra|apply Rabs_pos]|exact He1]. }
    assert (H2 : Rabs e2 * Rabs (dd * al + y) <= u64 * Rabs (dd * al + y)) by (apply Rmult_le_compat_r; [apply Rabs_pos|exact He2]).
    assert (H3 : (1 - al) * Rabs (y - Y) <= (1 - al) * ((u64 * B + eta64) / al + d)) by (apply Rmult_le_compat_l; [lra|exact Ey]).
    assert (H4 : u64 * (al * Rabs (xr - y)) + u64 * Rabs (dd * al + y) <= u64 * B).
    { rewrite <- Rmult_plus_distr_l. apply Rmult_le_compat_l; [exact Hu|exact Sx]. }
    assert (H6 : al * Rabs (xr - X) <= al * d) by (apply Rmult_le_compat_l; [lra|exact Hx]).
    assert (H5 : (1 - al) * ((u64 * B + eta64) / al + d) + al * d + (u64 * B + eta64) = (u64 * B + eta64) / al + d) by (field; lra).
    lra.
Qed.

(** the outputs of a run, newest first *)
Fixpoint emaF_outs (a y0 : pfloat) (l : list pfloat) : list pfloat :=
  match l with [] => [] | x :: r => emaF a y0 (x :: r) :: emaF_outs a y0 r end.
Fixpoint emaR_outs (a y0 : R) (l : list R) : list R :=
  match l with [] => [] | x :: r => emaR a y0 (x :: r) :: emaR_outs a y0 r end.

Lemma ema_boundb_tail a y0 m x r : ema_boundb a y0 m (x :: r) = true -> ema_boundb a y0 m r = true.
Proof. cbn [ema_boundb]. intros H. repeat (apply andb_prop in H; destruct H as (H & _)). exact H. Qed.

Lemma ema_outs_close (a y0 m : pfloat) (l : list pfloat) :
  fin a -> fin y0 -> fin m -> 0 < val a <= 1 -> ema_boundb a y0 m l = true ->
  Forall2 (close ((7 * u64 * val m + eta64) / val a)) (emaF_outs a y0 l) (emaR_outs (val a) (val y0) (map val l)).
Proof.
  intros Fa Fy0 Fm Ha. induction l as [|x r IH]; intros Hb; [constructor|].
  cbn [emaF_outs emaR_outs map]. constructor; [|exact (IH (ema_boundb_tail _ _ _ _ _ Hb))].
  exact (ema_rounding_uniform a y0 m (x :: r) Fa Fy0 Fm Ha Hb).
Qed.

Definition dmaF a y0 l := emaF a y0 (emaF_outs a y0 l).
Definition dmaR a y0 l := emaR a y0 (emaR_outs a y0 l).
Definition tmaF a y0 l := emaF a y0 (emaF_outs a y0 (emaF_outs a y0 l)).
Definition tmaR a y0 l := emaR a y0 (emaR_outs a y0 (emaR_outs a y0 l)).

Lemma val_m_nonneg a y0 m l : fin y0 -> fin m -> ema_boundb a y0 m l = true -> 0 <= val m.
Proof.
  intros Fy0 Fm. induction l as [|x r IH]; intros Hb.
  - cbn [ema_boundb] in Hb. eapply Rle_trans; [apply Rabs_pos|apply (absle_ok y0 m Fy0 Fm Hb)].
  - exact (IH (ema_boundb_tail _ _ _ _ _ Hb)).
Qed.

Theorem dma_rounding_uniform (a y0 m : pfloat) (l : list pfloat) :
  fin a -> fin y0 -> fin m -> 0 < val a <= 1 ->
  ema_boundb a y0 m l = true -> ema_boundb a y0 m (emaF_outs a y0 l) = true ->
  Rabs (val (dmaF a y0 l) - dmaR (val a) (val y0) (map val l)) <= 2 * ((7 * u64 * val m + eta64) / val a).
Proof.
  intros Fa Fy0 Fm Ha Hb1 Hb2. unfold dmaF, dmaR.
  destruct (ema_boundb_ok a y0 m _ Fa Fy0 Fm Ha Hb2) as (_ & _ & Hok & Hsc).
  assert (HM := val_m_nonneg a y0 m l Fy0 Fm Hb1).
  assert (Hu : 0 <= u64) by (unfold u64; pose proof (bpow_gt_0 radix2 (-53 + 1)); lra).
  assert (Het : 0 < eta64) by (unfold eta64; pose proof (bpow_gt_0 radix2 (-1074)); lra).
  set (c := (7 * u64 * val m + eta64) / val a).
  assert (Hc : 0 <= c).
  { unfold c. apply Rmult_le_pos; [|left; apply Rinv_0_lt_compat; lra]. assert (0 <= 7 * u64 * val m) by nra. lra. }
  assert (E : (u64 * (7 * val m) + eta64) / val a = c) by (unfold c; f_equal; ring).
  replace (2 * c) with ((u64 * (7 * val m) + eta64) / val a + c) by (rewrite E; ring).
  apply (ema_link_perturbed a y0 (val y0) (7 * val m) c); try assumption; try lra.
  - rewrite Rminus_diag_eq by reflexivity. rewrite Rabs_R0, E. lra.
  - exact (ema_outs_close a y0 m l Fa Fy0 Fm Ha Hb1).
Qed.

Lemma outs_close_perturbed (a y0 : pfloat) (B d : R) (l : list pfloat) (Xs : list R) :
  fin a -> fin y0 -> 0 < val a <= 1 -> 0 <= B -> 0 <= d -> ema_ok a y0 l -> ema_scale a y0 B l ->
  Forall2 (close d) l Xs ->
  Forall2 (close ((u64 * B + eta64) / val a + d)) (emaF_outs a y0 l) (emaR_outs (val a) (val y0) Xs).
Proof.
  intros Fa Fy0 Ha HB Hd. assert (Hu : 0 <= u64) by (unfold u64; pose proof (bpow_gt_0 radix2 (-53 + 1)); lra).
  assert (Het : 0 < eta64) by (unfold eta64; pose proof (bpow_gt_0 radix2 (-1074)); lra).
  assert (Hc : 0 <= (u64 * B + eta64) / val a).
  { apply Rmult_le_pos; [|left; apply Rinv_0_lt_compat; lra]. pose proof (Rmult_le_pos _ _ Hu HB). lra. }
  revert Xs. induction l as [|x r IH]; intros Xs Hok Hsc Hcl; inversion Hcl as [|x' X r' Xr Hx Hr]; subst; [constructor|].
  cbn [emaF_outs emaR_outs]. constructor.
  - apply (ema_link_perturbed a y0 (val y0) B d (x :: r) (X :: Xr)); try assumption.
    rewrite Rminus_diag_eq by reflexivity. rewrite Rabs_R0. lra.
  - cbn [ema_ok] in Hok. cbn [ema_scale] in Hsc. exact (IH Xr (proj1 Hok) (proj1 Hsc) Hr).
Qed.

Theorem tma_rounding_uniform (a y0 m : pfloat) (l : list pfloat) :
  fin a -> fin y0 -> fin m -> 0 < val a <= 1 ->
  ema_boundb a y0 m l = true -> ema_boundb a y0 m (emaF_outs a y0 l) = true ->
  ema_boundb a y0 m (emaF_outs a y0 (emaF_outs a y0 l)) = true ->
  Rabs (val (tmaF a y0 l) - tmaR (val a) (val y0) (map val l)) <= 3 * ((7 * u64 * val m + eta64) / val a).
Proof.
  intros Fa Fy0 Fm Ha Hb1 Hb2 Hb3. unfold tmaF, tmaR.
  destruct (ema_boundb_ok a y0 m _ Fa Fy0 Fm Ha Hb2) as (_ & _ & Hok2 & Hsc2).
  destruct (ema_boundb_ok a y0 m _ Fa Fy0 Fm Ha Hb3) as (_ & _ & Hok3 & Hsc3).
  assert (HM := val_m_nonneg a y0 m l Fy0 Fm Hb1).
  assert (Hu : 0 <= u64) by (unfold u64; pose proof (bpow_gt_0 radix2 (-53 + 1)); lra).
  assert (Het : 0 < eta64) by (unfold eta64; pose proof (bpow_gt_0 radix2 (-1074)); lra).
  set (c := (7 * u64 * val m + eta64) / val a).
  assert (Hc : 0 <= c).
  { unfold c. apply Rmult_le_pos; [|left; apply Rinv_0_lt_compat; lra]. assert (0 <= 7 * u64 * val m) by nra. lra. }
  assert (E : (u64 * (7 * val m) + eta64) / val a = c) by (unfold c; f_equal; ring).
  replace (3 * c) with ((u64 * (7 * val m) + eta64) / val a + (c + c)) by (rewrite E; ring).
  apply (ema_link_perturbed a y0 (val y0) (7 * val m) (c + c)); try assumption; try lra.
  - rewrite Rminus_diag_eq by reflexivity. rewrite Rabs_R0, E. lra.
  - rewrite <- E at 1. apply outs_close_perturbed; try assumption; try lra.
    exact (ema_outs_close a y0 m l Fa Fy0 Fm Ha Hb1).
Qed.

(** ---- on the model's own step functions *)
From Yata Require Import Spec.Hist.
Open Scope R_scope.

Lemma dma_model_f (a y0 : pfloat) xs :
  let s := steps (dma_next (N := NumF64)) (mkDMA (mkEMA a y0) (mkEMA a y0)) xs in
  dma_ema s = mkEMA a (emaF a y0 (rev xs)) /\ dma_dma s = mkEMA a (dmaF a y0 (rev xs)).
Proof.
  induction xs as [|x xs IH] using rev_ind; [split; reflexivity|]. cbv zeta in *.
  rewrite steps_snoc, rev_unit. destruct IH as (IH1 & IH2).
  destruct (steps (dma_next (N := NumF64)) _ xs) as [e d]. cbn [dma_ema dma_dma] in IH1, IH2. subst e d.
  split; reflexivity.
Qed.

Lemma dma_model_r (a y0 : R) xs :
  let s := steps (dma_next (N := NumR)) (mkDMA (@mkEMA NumR a y0) (@mkEMA NumR a y0)) xs in
  dma_ema s = @mkEMA NumR a (emaR a y0 (rev xs)) /\ dma_dma s = @mkEMA NumR a (dmaR a y0 (rev xs)).
Proof.
  induction xs as [|x xs IH] using rev_ind; [split; reflexivity|]. cbv zeta in *.
  rewrite steps_snoc, rev_unit. destruct IH as (IH1 & IH2).
  destruct (steps (dma_next (N := NumR)) _ xs) as [e d]. cbn [dma_ema dma_dma] in IH1, IH2. subst e d.
  split; reflexivity.
Qed.

Theorem dma_model_accuracy (a y0 m : pfloat) (xs : list pfloat) :
  fin a -> fin y0 -> fin m -> 0 < val a <= 1 ->
  ema_boundb a y0 m (rev xs) = true -> ema_boundb a y0 m (emaF_outs a y0 (rev xs)) = true ->
  Rabs (val (dma_peek (steps (dma_next (N := NumF64)) (mkDMA (mkEMA a y0) (mkEMA a y0)) xs))
        - dma_peek (steps (dma_next (N := NumR)) (mkDMA (@mkEMA NumR (val a) (val y0)) (@mkEMA NumR (val a) (val y0))) (map val xs)))
  <= 2 * ((7 * u64 * val m + eta64) / val a).
Proof.
  intros Fa Fy0 Fm Ha Hb1 Hb2. unfold dma_peek.
  rewrite (proj2 (dma_model_f a y0 xs)), (proj2 (dma_model_r (val a) (val y0) (map val xs))). cbn [ema_value].
  rewrite <- map_rev. exact (dma_rounding_uniform a y0 m (rev xs) Fa Fy0 Fm Ha Hb1 Hb2).
Qed.

Lemma tma_model_f (a y0 : pfloat) xs :
  let s := steps (tma_next (N := NumF64)) (mkTMA (mkDMA (mkEMA a y0) (mkEMA a y0)) (mkEMA a y0)) xs in
  tma_dma s = mkDMA (mkEMA a (emaF a y0 (rev xs))) (mkEMA a (dmaF a y0 (rev xs))) /\ tma_tma s = mkEMA a (tmaF a y0 (rev xs)).
Proof.
  induction xs as [|x xs IH] using rev_ind; [split; reflexivity|]. cbv zeta in *.
  rewrite steps_snoc, rev_unit. destruct IH as (IH1 & IH2).
  destruct (steps (tma_next (N := NumF64)) _ xs) as [d t]. cbn [tma_dma tma_tma] in IH1, IH2. subst d t.
  split; reflexivity.
Qed.

Lemma tma_model_r (a y0 : R) xs :
  let s := steps (tma_next (N := NumR)) (mkTMA (mkDMA (@mkEMA NumR a y0) (@mkEMA NumR a y0)) (@mkEMA NumR a y0)) xs in
  tma_dma s = mkDMA (@mkEMA NumR a (emaR a y0 (rev xs))) (@mkEMA NumR a (dmaR a y0 (rev xs))) /\
  tma_tma s = @mkEMA NumR a (tmaR a y0 (rev xs)).
Proof.
  induction xs as [|x xs IH] using rev_ind; [split; reflexivity|]. cbv zeta in *.
  rewrite steps_snoc, rev_unit. destruct IH as (IH1 & IH2).
  destruct (steps (tma_next (N := NumR)) _ xs) as [d t]. cbn [tma_dma tma_tma] in IH1, IH2. subst d t.
  split; reflexivity.
Qed.

Theorem tma_model_accuracy (a y0 m : pfloat) (xs : list pfloat) :
  fin a -> fin y0 -> fin m -> 0 < val a <= 1 ->
  ema_boundb a y0 m (rev xs) = true -> ema_boundb a y0 m (emaF_outs a y0 (rev xs)) = true ->
  ema_boundb a y0 m (emaF_outs a y0 (emaF_outs a y0 (rev xs))) = true ->
  Rabs (val (tma_peek (steps (tma_next (N := NumF64)) (mkTMA (mkDMA (mkEMA a y0) (mkEMA a y0)) (mkEMA a y0)) xs))
        - tma_peek (steps (tma_next (N := NumR))
            (mkTMA (mkDMA (@mkEMA NumR (val a) (val y0)) (@mkEMA NumR (val a) (val y0))) (@mkEMA NumR (val a) (val y0))) (map val xs)))
  <= 3 * ((7 * u64 * val m + eta64) / val a).
Proof.
  intros Fa Fy0 Fm Ha Hb1 Hb2 Hb3. unfold tma_peek.
  rewrite (proj2 (tma_model_f a y0 xs)), (proj2 (tma_model_r (val a) (val y0) (map val xs))). cbn [ema_value].
  rewrite <- map_rev. exact (tma_rounding_uniform a y0 m (rev xs) Fa Fy0 Fm Ha Hb1 Hb2 Hb3).
Qed.

Example dma_tma_accuracy_witness :
  let xs := [7; 0.1; 1; -0x1.7e43c8800759cp+50; 1.5; 2e15; 3; 3; 3; 1e-300]%float in
  let a := 0.2%float in let y0 := 1%float in let m := 0x1p+60%float in
  ema_boundb a y0 m (rev xs) = true /\ ema_boundb a y0 m (emaF_outs a y0 (rev xs)) = true /\
  ema_boundb a y0 m (emaF_outs a y0 (emaF_outs a y0 (rev xs))) = true.
Proof. cbv zeta. repeat split; vm_compute; reflexivity. Qed.
