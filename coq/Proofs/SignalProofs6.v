(** C06 continued: a pivot-based signal end to end.  HullMovingAverage's signal is the DEFINITIONAL reversal (C14) of the series
    of Hull averages it has returned, for every stream that begins - as the API prescribes - with the candle the instance
    was created from (then the first value fed to the detector is its construction value). *)
From Yata Require Import Base.Prelude Base.Num Base.NumR Core.Window Core.WindowSpec Core.Candle Core.Action Core.Strings
  Spec.Hist Spec.MethodDefs Spec.IndicatorDefs Methods.Basic Methods.Select Indicators.Common Indicators.Set4
  Proofs.MethodsCommon Proofs.Windowed5 Proofs.Selection Proofs.Selection2 Proofs.MAProofs Proofs.Cascade Proofs.IndicatorProofs Proofs.IndicatorProofs3
  Proofs.IndicatorProofs9 Proofs.IndicatorProofs11 Proofs.Averages5 Proofs.Constant Proofs.SignalProofs2.
From Coq Require Import Reals Lra Lia.
Open Scope Z_scope.

Section Hull.
Context {pw : PW}.
Local Notation R := (@F NumR).
Local Notation C := (candle (N := NumR)).
Ltac dlet := repeat match goal with |- context [let '(_, _) := ?e in _] => destruct e end.

(** the Hull average after the candles [l] (newest first) *)
Definition hull_of (period : Z) (src : source) (c0 : C) (l : list C) : R :=
  hma_def (Z.to_nat period) (Z.to_nat (period / 2)) (Z.to_nat (hma_len3 period)) (hget (c_source c0 src) (srcs src l)).

Definition hmai_inp (s : hmai_st (N := NumR)) (k : C) : R := snd (hma_next (hi_hma s) (c_source k (hi_source s))).
Lemma hmai_shape (s : hmai_st (N := NumR)) k :
  hi_pivot (fst (hmai_next s k)) = fst (reversal_next (hi_pivot s) (hmai_inp s k)) /\
  fst (snd (hmai_next s k)) = [hmai_inp s k] /\ sigs (snd (hmai_next s k)) = [snd (reversal_next (hi_pivot s) (hmai_inp s k))].
Proof. unfold hmai_next, hmai_inp. destruct (hma_next (hi_hma s) _) as (h, v). cbn [snd]. destruct (reversal_next (hi_pivot s) v). repeat split. Qed.

Theorem hull_signal_correct period lft right src (c0 : C) cs c :
  2 < period <= pmax - 1 -> 1 <= lft -> 1 <= right -> lft + right <= pmax - 2 ->
  exists s0, hmai_init period lft right src c0 = Ok s0 /\
    sigs (snd (hmai_next (steps hmai_next s0 (c0 :: cs)) c)) =
    let h := hget (c_source c0 src) (series (hull_of period src c0) (rev ((c0 :: cs) ++ [c]))) in
    let L := Z.to_nat (lft + right + 1) in let r := Z.to_nat right in
    [a_sub (if Nat.eqb (argbest flt h L) r then a_buy_all else ANone) (if Nat.eqb (argbest fgt h L) r then a_buy_all else ANone)].
Proof.
  intros Hp Hl Hr Hlr. set (v := c_source c0 src).
  destruct (hull_indicator_values_correct period lft right src c0 [] c0 Hp Hl Hr Hlr) as (s0 & E0 & _). exists s0. split; [exact E0|].
  (* the value fed to the detector at every step is the Hull average of the history *)
  assert (HD : forall p k, hmai_inp (steps hmai_next s0 p) k = hull_of period src c0 (rev (p ++ [k]))).
  { intros p k. destruct (hull_indicator_values_correct period lft right src c0 p k Hp Hl Hr Hlr) as (s1 & E1 & H1).
    rewrite E0 in E1. injection E1 as <-. rewrite (proj1 (proj2 (hmai_shape _ k))) in H1. injection H1 as H1. exact H1. }
  (* the detector of the instance is the one built from v *)
  assert (Epv : reversal_new lft right v = Ok (hi_pivot s0)).
  { unfold hmai_init in E0. destruct (negb _); [discriminate|]. cbv zeta in E0. fold v in E0.
    destruct (hma_new period v); cbn [obind] in E0; try discriminate. destruct (reversal_new lft right v); cbn [obind] in E0; try discriminate.
    injection E0 as <-. reflexivity. }
  pose proof (proj_steps hmai_next reversal_next hi_pivot hmai_inp (fun s k => proj1 (hmai_shape s k))) as PS.
  rewrite (proj2 (proj2 (hmai_shape _ c))). rewrite PS.
  (* the first value fed is the construction value: the Hull average of a constant history *)
  assert (Hfirst : hmai_inp s0 c0 = v).
  { pose proof (HD [] c0) as H0. change (steps hmai_next s0 []) with s0 in H0. rewrite H0. unfold hull_of. cbn [app rev]. unfold srcs. cbn [map]. fold v.
    assert (Lk : ma_len_ok (MAcfg KHMA period)) by (cbn [ma_len_ok]; lia).
    pose proof (ma_def_constant (MAcfg KHMA period) v 1 Lk) as Hc. unfold ma_def in Hc. cbv zeta in Hc. cbn [repeat] in Hc. exact Hc. }
  cbn [inputs]. rewrite Hfirst.
  destruct (reversal_signal_correct lft right v (inputs hmai_next hmai_inp (fst (hmai_next s0 c0)) cs) (hmai_inp (steps hmai_next s0 (c0 :: cs)) c) Hl Hr Hlr)
    as (r0 & Er & Hsig). rewrite Epv in Er. injection Er as <-. rewrite Hsig. cbv zeta.
  (* the inputs fed so far, newest first, are the series of Hull averages *)
  pose proof (inputs_series_next hmai_next hmai_inp (hull_of period src c0) s0 HD (c0 :: cs) c) as IS.
  cbn [inputs] in IS. rewrite Hfirst in IS. cbn [app] in IS |- *. rewrite IS. unfold series. reflexivity.
Qed.
End Hull.
