(** RelativeStrengthIndex with an exponential average (the default) on BINARY64 itself: the value lies in [0, 1] after every stream,
    with no rounding allowance.  Why it holds although every operation rounds: rounding is monotone and maps floats to themselves,
    so (a) the binary64 EMA step  y' = fma(x - y, alpha, y)  with 0 <= alpha <= 1/2 lies between y and x, (b) hence the average of
    the gains stays >= 0 and the average of the losses <= 0, (c) the rounded sum of two non-negative floats is at least each of
    them, and (d) the rounded quotient of 0 <= p <= s, 0 < s, lies in [0, 1].  (With SMA / WMA the running sums can leave their
    sign behind - the known finding KF-C12-rsi-residue; this theorem is the positive counterpart for the recursive average.) *)
From Coq Require Import ZArith Reals Floats Lra Lia Psatz List.
From Flocq Require Import Core BinarySingleNaN PrimFloat Relative Operations.
From Yata Require Import Base.Prelude Base.Num Base.NumR Base.NumF64 Proofs.RoundingLink Proofs.RoundingLinkEma Proofs.Binary64Range.
Import ListNotations.
Open Scope R_scope.

Local Notation pfloat := Coq.Floats.PrimFloat.float.
Local Notation rnd := (round radix2 (FLT_exp (-1074) 53) ZnearestE).
Local Instance Hprec53c : FLX.Prec_gt_0 prec := eq_refl _.
Local Instance Hmax1024c : Prec_lt_emax prec emax := eq_refl _.

(** the value of a finite float is representable *)
Lemma val_format (x : pfloat) : generic_format radix2 (FLT_exp (-1074) 53) (val x).
Proof. unfold val. apply (generic_format_B2R prec emax). Qed.
Lemma rnd_val (x : pfloat) : rnd (val x) = val x.
Proof. apply round_generic; [apply valid_rnd_N|apply val_format]. Qed.
Lemma rnd_mono a b : a <= b -> rnd a <= rnd b.
Proof. intros H. apply round_le; [apply FLT_exp_valid; reflexivity|apply valid_rnd_N|exact H]. Qed.
(** a real between two float values rounds to a value between them *)
Lemma rnd_between (lo hi : pfloat) t : val lo <= t <= val hi -> val lo <= rnd t <= val hi.
Proof. intros (H1 & H2). rewrite <- (rnd_val lo), <- (rnd_val hi). split; apply rnd_mono; assumption. Qed.

Definition big : R := bpow radix2 1000.
Lemma big_lt_max : big < maxf.
Proof. unfold big, maxf. apply bpow_lt. reflexivity. Qed.
Lemma big_format : generic_format radix2 (FLT_exp (-1074) 53) big.
Proof. unfold big. apply generic_format_bpow. unfold FLT_exp. cbn. lia. Qed.
Lemma rnd_abs_le_big t : Rabs t <= big -> Rabs (rnd t) <= big.
Proof.
  intros H. apply Rabs_le. apply Rabs_le_inv in H. destruct H as (H1 & H2).
  assert (Rb : rnd big = big) by (apply round_generic; [apply valid_rnd_N|apply big_format]).
  assert (Rn : rnd (- big) = - big) by (apply round_generic; [apply valid_rnd_N|apply generic_format_opp, big_format]).
  split; [rewrite <- Rn|rewrite <- Rb]; apply rnd_mono; assumption.
Qed.

(** the operations as "round the exact result", when the exact result is at most 2^1000 in magnitude *)
Lemma f64_sub_rnd (x y : pfloat) : fin x -> fin y -> Rabs (val x - val y) <= big ->
  fin (x - y)%float /\ val (x - y)%float = rnd (val x - val y).
Proof.
  unfold fin. rewrite !is_finite_equiv. intros Fx Fy Hb. unfold val. rewrite sub_equiv.
  pose proof (Bminus_correct prec emax Hprec53c Hmax1024c mode_NE (Prim2B x) (Prim2B y) Fx Fy) as H.
  change (SpecFloat.fexp prec emax) with (FLT_exp (-1074) 53) in H. cbn [round_mode] in H.
  rewrite Rlt_bool_true in H by (eapply Rle_lt_trans; [apply rnd_abs_le_big; exact Hb|apply big_lt_max]).
  destruct H as (Hv & Hf & _). split; [exact Hf|exact Hv].
Qed.
Lemma f64_add_rnd (x y : pfloat) : fin x -> fin y -> Rabs (val x + val y) <= big ->
  fin (x + y)%float /\ val (x + y)%float = rnd (val x + val y).
Proof.
  unfold fin. rewrite !is_finite_equiv. intros Fx Fy Hb. unfold val. rewrite add_equiv.
  pose proof (Bplus_correct prec emax Hprec53c Hmax1024c mode_NE (Prim2B x) (Prim2B y) Fx Fy) as H.
  change (SpecFloat.fexp prec emax) with (FLT_exp (-1074) 53) in H. cbn [round_mode] in H.
  rewrite Rlt_bool_true in H by (eapply Rle_lt_trans; [apply rnd_abs_le_big; exact Hb|apply big_lt_max]).
  destruct H as (Hv & Hf & _). split; [exact Hf|exact Hv].
Qed.
Lemma f64_fma_rnd (x y z : pfloat) : fin x -> fin y -> fin z -> Rabs (val x * val y + val z) <= big ->
  fin (f64_fma x y z) /\ val (f64_fma x y z) = rnd (val x * val y + val z).
Proof.
  unfold fin. rewrite !is_finite_equiv. intros Fx Fy Fz Hb. unfold val, f64_fma. rewrite Prim2B_B2Prim.
  pose proof (Bfma_correct prec emax Hprec53c Hmax1024c mode_NE (Prim2B x) (Prim2B y) (Prim2B z) Fx Fy Fz) as H.
  cbv zeta in H. change (SpecFloat.fexp prec emax) with (FLT_exp (-1074) 53) in H. cbn [round_mode] in H.
  rewrite Rlt_bool_true in H by (eapply Rle_lt_trans; [apply rnd_abs_le_big; exact Hb|apply big_lt_max]).
  destruct H as (Hv & Hf & _). split; [exact Hf|exact Hv].
Qed.
Lemma f64_opp_exact (x : pfloat) : fin x -> fin (- x)%float /\ val (- x)%float = - val x.
Proof.
  unfold fin, val. rewrite !is_finite_equiv, opp_equiv. intros Fx. split; [transitivity (is_finite (Prim2B x)); [apply is_finite_Bopp|exact Fx]|apply B2R_Bopp].
Qed.

Definition half_big : R := bpow radix2 999.
Lemma half_big_eq : big = 2 * half_big.
Proof. unfold big, half_big. change 1000%Z with (1 + 999)%Z. rewrite bpow_plus. cbn [bpow]. simpl. lra. Qed.
Lemma half_big_pos : 0 < half_big.
Proof. apply bpow_gt_0. Qed.

Lemma u64_le_1 : 0 <= u64 <= 1.
Proof.
  unfold u64. change (-53 + 1)%Z with (-52)%Z. pose proof (bpow_gt_0 radix2 (-52)).
  assert (bpow radix2 (-52) <= bpow radix2 0) by (apply bpow_le; lia). cbn [bpow] in *. lra.
Qed.

(** (a) one binary64 EMA step with 0 <= alpha <= 1/2 lies between the old value and the input *)
Lemma ema_step_between (x y a : pfloat) : fin x -> fin y -> fin a ->
  Rabs (val x) <= half_big -> Rabs (val y) <= half_big -> 0 <= val a <= / 2 ->
  let r := f64_fma (x - y)%float a y in
  fin r /\ Rmin (val x) (val y) <= val r <= Rmax (val x) (val y).
Proof.
  intros Fx Fy Fa Bx By Ha. cbv zeta.
  assert (Hd : Rabs (val x - val y) <= big).
  { rewrite half_big_eq. unfold Rminus. eapply Rle_trans; [apply Rabs_triang|]. rewrite Rabs_Ropp. lra. }
  destruct (f64_sub_rnd x y Fx Fy Hd) as (Fd & Vd).
  assert (Hov : Rabs (rnd (val x - val y)) < maxf) by (eapply Rle_lt_trans; [apply rnd_abs_le_big; exact Hd|apply big_lt_max]).
  destruct (f64_sub_error x y Fx Fy Hov) as (_ & e1 & He1 & Ve).
  pose proof u64_le_1 as Hu. apply Rabs_le_inv in He1.
  set (w := val a * (1 + e1)). assert (Hw : 0 <= w <= 1) by (unfold w; nra).
  assert (Et : val (x - y)%float * val a + val y = (1 - w) * val y + w * val x) by (rewrite Ve; unfold w; ring).
  assert (Hbt : Rmin (val x) (val y) <= (1 - w) * val y + w * val x <= Rmax (val x) (val y)).
  { destruct (Rle_or_lt (val x) (val y)) as [L|L].
    - rewrite Rmin_left, Rmax_right by lra. nra.
    - rewrite Rmin_right, Rmax_left by lra. nra. }
  assert (Habs : Rabs (val (x - y)%float * val a + val y) <= big).
  { rewrite Et. apply Rabs_le. apply Rabs_le_inv in Bx. apply Rabs_le_inv in By. rewrite half_big_eq. pose proof half_big_pos.
    destruct (Rle_or_lt (val x) (val y)) as [L|L]; [rewrite Rmin_left, Rmax_right in Hbt by lra|rewrite Rmin_right, Rmax_left in Hbt by lra]; lra. }
  destruct (f64_fma_rnd (x - y)%float a y Fd Fa Fy Habs) as (Fr & Vr). split; [exact Fr|]. rewrite Vr, Et.
  destruct (Rle_or_lt (val x) (val y)) as [L|L].
  - rewrite Rmin_left, Rmax_right in * by lra. apply (rnd_between x y). exact Hbt.
  - rewrite Rmin_right, Rmax_left in * by lra. apply (rnd_between y x). exact Hbt.
Qed.

(** comparisons and max / min of finite floats *)
Lemma f64_ltb_val (x y : pfloat) : fin x -> fin y -> PrimFloat.ltb x y = Rlt_bool (val x) (val y).
Proof. unfold fin, val. rewrite !is_finite_equiv, ltb_equiv. intros Fx Fy. apply Bltb_correct; assumption. Qed.
Lemma f64_eqb_val (x y : pfloat) : fin x -> fin y -> PrimFloat.eqb x y = Req_bool (val x) (val y).
Proof. unfold fin, val. rewrite !is_finite_equiv, eqb_equiv. intros Fx Fy. apply Beqb_correct; assumption. Qed.
Lemma fin_not_nan (x : pfloat) : fin x -> PrimFloat.is_nan x = false.
Proof. unfold fin. rewrite is_finite_equiv, is_nan_equiv. destruct (Prim2B x); cbn; congruence. Qed.

Lemma f64_max_val (x y : pfloat) : fin x -> fin y -> fin (f64_max x y) /\ val (f64_max x y) = Rmax (val x) (val y).
Proof.
  intros Fx Fy. unfold f64_max. rewrite (f64_ltb_val x y Fx Fy), (f64_ltb_val y x Fy Fx), (fin_not_nan x Fx).
  destruct (Rlt_bool_spec (val x) (val y)) as [L|L]; [split; [exact Fy|rewrite Rmax_right by lra; reflexivity]|].
  destruct (Rlt_bool_spec (val y) (val x)) as [G|G]; [split; [exact Fx|rewrite Rmax_left by lra; reflexivity]|].
  split; [exact Fx|rewrite Rmax_left by lra; reflexivity].
Qed.
Lemma f64_min_val (x y : pfloat) : fin x -> fin y -> fin (f64_min x y) /\ val (f64_min x y) = Rmin (val x) (val y).
Proof.
  intros Fx Fy. unfold f64_min. rewrite (f64_ltb_val x y Fx Fy), (f64_ltb_val y x Fy Fx), (fin_not_nan x Fx).
  destruct (Rlt_bool_spec (val y) (val x)) as [L|L]; [split; [exact Fy|rewrite Rmin_right by lra; reflexivity]|].
  destruct (Rlt_bool_spec (val x) (val y)) as [G|G]; [split; [exact Fx|rewrite Rmin_left by lra; reflexivity]|].
  split; [exact Fx|rewrite Rmin_left by lra; reflexivity].
Qed.

Lemma val_f0 : fin (@f0 NumF64) /\ val (@f0 NumF64) = 0.
Proof. destruct (val_ofZ 0) as (F & V); [lia|]. split; [exact F|exact V]. Qed.
Lemma val_f1 : fin (@f1 NumF64) /\ val (@f1 NumF64) = 1.
Proof. destruct (val_ofZ 1) as (F & V); [lia|]. split; [exact F|exact V]. Qed.

(** multiplication by -1 is exact *)
Lemma f64_mul_m1 (x : pfloat) : fin x -> Rabs (val x) <= big ->
  fin (x * @fneg NumF64 (@f1 NumF64))%float /\ val (x * @fneg NumF64 (@f1 NumF64))%float = - val x.
Proof.
  intros Fx Bx. destruct val_f1 as (F1 & V1). destruct (f64_opp_exact _ F1) as (Fm & Vm).
  change (@fneg NumF64 (@f1 NumF64)) with (- @f1 NumF64)%float. set (m1 := (- @f1 NumF64)%float) in *. rewrite V1 in Vm.
  unfold fin, val in *. rewrite !is_finite_equiv in *. rewrite mul_equiv.
  pose proof (Bmult_correct prec emax Hprec53c Hmax1024c mode_NE (Prim2B x) (Prim2B m1)) as H.
  change (SpecFloat.fexp prec emax) with (FLT_exp (-1074) 53) in H. cbn [round_mode] in H.
  assert (Ep : B2R (Prim2B x) * B2R (Prim2B m1) = - B2R (Prim2B x)) by (rewrite Vm; ring).
  assert (Er : rnd (- B2R (Prim2B x)) = - B2R (Prim2B x)).
  { apply round_generic; [apply valid_rnd_N|]. apply generic_format_opp. apply (generic_format_B2R prec emax). }
  rewrite Ep, Er in H. rewrite Rlt_bool_true in H by (rewrite Rabs_Ropp; eapply Rle_lt_trans; [exact Bx|apply big_lt_max]).
  destruct H as (Hv & Hf & _). split; [|exact Hv].
  transitivity (is_finite (Prim2B x) && is_finite (Prim2B m1))%bool; [exact Hf|]. rewrite Fx, Fm. reflexivity.
Qed.

Lemma f64_div_rnd (x y : pfloat) : fin x -> fin y -> val y <> 0 -> Rabs (val x / val y) <= big ->
  fin (x / y)%float /\ val (x / y)%float = rnd (val x / val y).
Proof.
  unfold fin, val. rewrite !is_finite_equiv, div_equiv. intros Fx Fy Hy Hb.
  pose proof (Bdiv_correct prec emax Hprec53c Hmax1024c mode_NE (Prim2B x) (Prim2B y) Hy) as H.
  change (SpecFloat.fexp prec emax) with (FLT_exp (-1074) 53) in H. cbn [round_mode] in H.
  rewrite Rlt_bool_true in H by (eapply Rle_lt_trans; [apply rnd_abs_le_big; exact Hb|apply big_lt_max]).
  destruct H as (Hv & Hf & _). split; [transitivity (is_finite (Prim2B x)); [exact Hf|exact Fx]|exact Hv].
Qed.

Lemma half_big_format : generic_format radix2 (FLT_exp (-1074) 53) half_big.
Proof. unfold half_big. apply generic_format_bpow. unfold FLT_exp. cbn. lia. Qed.
Lemma rnd_abs_le_hb t : Rabs t <= half_big -> Rabs (rnd t) <= half_big.
Proof.
  intros H. apply Rabs_le. apply Rabs_le_inv in H. destruct H as (H1 & H2).
  assert (Rb : rnd half_big = half_big) by (apply round_generic; [apply valid_rnd_N|apply half_big_format]).
  assert (Rn : rnd (- half_big) = - half_big) by (apply round_generic; [apply valid_rnd_N|apply generic_format_opp, half_big_format]).
  split; [rewrite <- Rn|rewrite <- Rb]; apply rnd_mono; assumption.
Qed.
Lemma hb_le_big : half_big <= big.
Proof. rewrite half_big_eq. pose proof half_big_pos. lra. Qed.

(** the smoothing factor of EMA(n), n >= 3: a float in [0, 1/2] *)
Lemma ema_alpha_half (n : Z) : (3 <= n < 2 ^ 52)%Z ->
  let a := @fdiv NumF64 (@f2 NumF64) (@fofZ NumF64 (n + 1)) in fin a /\ 0 <= val a <= / 2.
Proof.
  intros Hn. cbv zeta. destruct (val_ofZ 2) as (F2 & V2); [lia|]. destruct (val_ofZ (n + 1)) as (Fn & Vn); [lia|].
  change (@f2 NumF64) with (f64_ofZ 2). change (@fofZ NumF64 (n + 1)) with (f64_ofZ (n + 1)).
  assert (Hn1 : 4 <= IZR (n + 1)) by (apply IZR_le; lia).
  assert (Hq : 0 <= 2 / IZR (n + 1) <= / 2).
  { split; [apply Rmult_le_pos; [lra|left; apply Rinv_0_lt_compat; lra]|].
    apply (Rmult_le_reg_r (IZR (n + 1))); [lra|]. unfold Rdiv. rewrite Rmult_assoc, Rinv_l by lra. lra. }
  destruct (f64_div_rnd (f64_ofZ 2) (f64_ofZ (n + 1)) F2 Fn) as (Fa & Va).
  - rewrite Vn. lra.
  - rewrite V2, Vn. rewrite Rabs_pos_eq by lra. pose proof half_big_pos. pose proof hb_le_big.
    assert (/ 2 <= half_big). { unfold half_big. change (/ 2) with (bpow radix2 (-1)). apply bpow_le. lia. } lra.
  - change (@fdiv NumF64 (f64_ofZ 2) (f64_ofZ (n + 1))) with (f64_ofZ 2 / f64_ofZ (n + 1))%float. split; [exact Fa|]. rewrite Va, V2, Vn.
    assert (R0 : rnd 0 = 0) by apply round_0, valid_rnd_N.
    assert (Rh : rnd (/ 2) = / 2).
    { apply round_generic; [apply valid_rnd_N|]. change (/ 2) with (bpow radix2 (-1)). apply generic_format_bpow. unfold FLT_exp. cbn. lia. }
    split; [rewrite <- R0|rewrite <- Rh]; apply rnd_mono; lra.
Qed.

(** (c) + (d): the RSI quotient of a non-negative average gain and a non-positive average loss *)
Lemma rsi_value_unit (pos neg0 : pfloat) : fin pos -> fin neg0 -> 0 <= val pos <= half_big -> - half_big <= val neg0 <= 0 ->
  let neg := @fmul NumF64 neg0 (@fneg NumF64 (@f1 NumF64)) in
  let sum := @fadd NumF64 pos neg in
  let value := if @fne NumF64 sum (@f0 NumF64) then @fdiv NumF64 pos sum else @flit NumF64 1 2 in
  fin value /\ 0 <= val value <= 1.
Proof.
  intros Fp Fn Bp Bn. cbv zeta. pose proof hb_le_big as Hbb. pose proof half_big_pos as Hhp.
  destruct (f64_mul_m1 neg0 Fn) as (Fneg & Vneg); [apply Rabs_le; lra|].
  change (@fmul NumF64 neg0 (@fneg NumF64 (@f1 NumF64))) with (neg0 * @fneg NumF64 (@f1 NumF64))%float.
  set (neg := (neg0 * @fneg NumF64 (@f1 NumF64))%float) in *.
  assert (Hs : Rabs (val pos + val neg) <= big) by (rewrite Vneg, half_big_eq; apply Rabs_le; lra).
  destruct (f64_add_rnd pos neg Fp Fneg Hs) as (Fs & Vs).
  change (@fadd NumF64 pos neg) with (pos + neg)%float. set (sum := (pos + neg)%float) in *.
  assert (Hge : val pos <= val sum) by (rewrite Vs, <- (rnd_val pos) at 1; apply rnd_mono; rewrite Vneg; lra).
  destruct val_f0 as (F0 & V0). unfold fne. change (@feq NumF64 sum (@f0 NumF64)) with (PrimFloat.eqb sum (@f0 NumF64)).
  rewrite (f64_eqb_val sum _ Fs F0), V0.
  destruct (Req_bool_spec (val sum) 0) as [E|E]; cbn [negb].
  - apply (f64_ratio_unit 1 2); lia.
  - change (@fdiv NumF64 pos sum) with (pos / sum)%float. apply f64_div_unit; try assumption; lra.
Qed.

(** ---- the model of RelativeStrengthIndex at binary64 with an exponential average *)
From Yata Require Import Core.Window Core.Candle Core.Action Core.Strings Spec.Hist Methods.Basic Methods.Select Indicators.Common Indicators.Set2.
Open Scope R_scope.

Section RsiF64.
Context {pw : PW}.
Local Notation C := (candle (N := NumF64)).

Definition src_ok (src : source) (k : C) : Prop := fin (c_source k src) /\ 0 <= val (c_source k src) <= half_big.

Definition rsi_inv (s : rsi_st (N := NumF64)) : Prop :=
  exists a e1 e2, rs_pos s = MS_EMA (mkEMA a e1) /\ rs_neg s = MS_EMA (mkEMA a e2) /\
    fin a /\ 0 <= val a <= / 2 /\ fin e1 /\ 0 <= val e1 <= half_big /\ fin e2 /\ - half_big <= val e2 <= 0 /\
    fin (rs_prev s) /\ 0 <= val (rs_prev s) <= half_big.

Lemma rsi_step (s : rsi_st (N := NumF64)) (k : C) : rsi_inv s -> src_ok (rc_source (rs_cfg s)) k ->
  rsi_inv (fst (rsi_next s k)) /\ rs_cfg (fst (rsi_next s k)) = rs_cfg s /\
  Forall (fun v => fin v /\ 0 <= val v <= 1) (fst (snd (rsi_next s k))).
Proof.
  intros (a & e1 & e2 & Ep & En & Fa & Ba & F1 & B1 & F2 & B2 & Fp & Bp) (Fs & Bs).
  pose proof half_big_pos as Hhp. pose proof hb_le_big as Hbb. destruct val_f0 as (F0 & V0).
  unfold rsi_next. cbv zeta. rewrite Ep, En. set (src := c_source k (rc_source (rs_cfg s))) in *.
  (* change = src - prev, a float of magnitude at most 2^999 *)
  assert (Hc : Rabs (val src - val (rs_prev s)) <= big) by (apply Rabs_le; lra).
  destruct (f64_sub_rnd src (rs_prev s) Fs Fp Hc) as (Fc & Vc).
  change (@fsub NumF64 src (rs_prev s)) with (src - rs_prev s)%float. set (change := (src - rs_prev s)%float) in *.
  assert (Bc : Rabs (val change) <= half_big) by (rewrite Vc; apply rnd_abs_le_hb; apply Rabs_le; lra).
  apply Rabs_le_inv in Bc.
  destruct (f64_max_val change _ Fc F0) as (Fu & Vu). destruct (f64_min_val change _ Fc F0) as (Fd & Vd). rewrite V0 in Vu, Vd.
  change (@fmax NumF64 change (@f0 NumF64)) with (f64_max change (@f0 NumF64)). change (@fmin NumF64 change (@f0 NumF64)) with (f64_min change (@f0 NumF64)).
  set (up := f64_max change (@f0 NumF64)) in *. set (dn := f64_min change (@f0 NumF64)) in *.
  assert (Bu : 0 <= val up <= half_big) by (rewrite Vu; split; [apply Rmax_r|apply Rmax_lub; lra]).
  assert (Bd : - half_big <= val dn <= 0) by (rewrite Vd; split; [apply Rmin_glb; lra|apply Rmin_r]).
  (* the two EMA steps *)
  unfold ma_next. cbn [fst snd]. unfold ema_next. cbn [ema_value ema_alpha fst snd].
  change (@ffma NumF64 (@fsub NumF64 up e1) a e1) with (f64_fma (up - e1)%float a e1).
  change (@ffma NumF64 (@fsub NumF64 dn e2) a e2) with (f64_fma (dn - e2)%float a e2).
  destruct (ema_step_between up e1 a Fu F1 Fa) as (Fp' & Bp'); [apply Rabs_le; lra|apply Rabs_le; lra|exact Ba|].
  destruct (ema_step_between dn e2 a Fd F2 Fa) as (Fn' & Bn'); [apply Rabs_le; lra|apply Rabs_le; lra|exact Ba|].
  set (pos := f64_fma (up - e1)%float a e1) in *. set (neg0 := f64_fma (dn - e2)%float a e2) in *.
  assert (Bpos : 0 <= val pos <= half_big).
  { destruct Bp' as (L & U). split; [eapply Rle_trans; [|exact L]; apply Rmin_glb; lra|eapply Rle_trans; [exact U|]; apply Rmax_lub; lra]. }
  assert (Bneg : - half_big <= val neg0 <= 0).
  { destruct Bn' as (L & U). split; [eapply Rle_trans; [|exact L]; apply Rmin_glb; lra|eapply Rle_trans; [exact U|]; apply Rmax_lub; lra]. }
  pose proof (rsi_value_unit pos neg0 Fp' Fn' Bpos Bneg) as Hval. cbv zeta in Hval.
  destruct (cross_next (rs_cross_lower s) _) as (cl, al). destruct (cross_next (rs_cross_upper s) _) as (cu, au). cbn [fst snd rs_cfg].
  split; [|split; [reflexivity|constructor; [exact Hval|constructor]]].
  exists a, pos, neg0. cbn [rs_pos rs_neg rs_prev]. repeat split; try assumption; try lra.
Qed.

Lemma rsi_init_inv (c : rsi_cfg (N := NumF64)) n (c0 : C) s0 : rsi_init c c0 = Ok s0 -> rc_ma c = MAcfg KEMA n -> (n < 2 ^ 52)%Z ->
  src_ok (rc_source c) c0 -> rsi_inv s0 /\ rs_cfg s0 = c.
Proof.
  intros Hi Hm Hn (Fs & Bs). unfold rsi_init in Hi. destruct (rsi_validate c) eqn:Hv; cbn [negb] in Hi; [|discriminate].
  assert (H3 : (3 <= n)%Z).
  { unfold rsi_validate in Hv. apply andb_prop in Hv. destruct Hv as (Hv & _). apply andb_prop in Hv. destruct Hv as (Hv & _).
    rewrite Hm in Hv. cbn [ma_period] in Hv. apply Z.ltb_lt in Hv. lia. }
  rewrite Hm in Hi. unfold ma_init in Hi. unfold ema_new in Hi. destruct (bad_len n); cbn [omap obind] in Hi; [discriminate|].
  injection Hi as <-. split; [|reflexivity].
  destruct (ema_alpha_half n) as (Fa & Ba); [lia|]. destruct val_f0 as (F0 & V0). pose proof half_big_pos.
  exists (@fdiv NumF64 (@f2 NumF64) (@fofZ NumF64 (n + 1))), (@f0 NumF64), (@f0 NumF64). cbn [rs_pos rs_neg rs_prev].
  split; [reflexivity|]. split; [reflexivity|]. split; [exact Fa|]. split; [exact Ba|].
  split; [exact F0|]. split; [rewrite V0; lra|]. split; [exact F0|]. split; [rewrite V0; lra|]. split; [exact Fs|exact Bs].
Qed.

(** RSI with an exponential average, at IEEE binary64: finite and in [0, 1] after every stream of candles whose source price is
    finite and in [0, 2^999] *)
Theorem rsi_ema_binary64_range (c : rsi_cfg (N := NumF64)) n (c0 : C) s0 cs k : rsi_init c c0 = Ok s0 -> rc_ma c = MAcfg KEMA n ->
  (n < 2 ^ 52)%Z -> src_ok (rc_source c) c0 -> Forall (src_ok (rc_source c)) (cs ++ [k]) ->
  Forall (fun v => fin v /\ 0 <= val v <= 1) (fst (snd (rsi_next (steps rsi_next s0 cs) k))).
Proof.
  intros Hi Hm Hn H0 Hall. destruct (rsi_init_inv c n c0 s0 Hi Hm Hn H0) as (I0 & C0).
  apply Forall_app in Hall. destruct Hall as (Hcs & Hk).
  assert (G : forall l s, rsi_inv s -> rs_cfg s = c -> Forall (src_ok (rc_source c)) l -> rsi_inv (steps rsi_next s l) /\ rs_cfg (steps rsi_next s l) = c).
  { induction l as [|x r IH]; intros s Is Cs Hl; [split; assumption|]. unfold steps in *. cbn [fold_left]. inversion Hl as [|? ? Hx Hr]; subst.
    assert (Hx' : src_ok (rc_source (rs_cfg s)) x) by (rewrite Cs; exact Hx).
    destruct (rsi_step s x Is Hx') as (Is' & Cs' & _). apply IH; [exact Is'|rewrite Cs'; exact Cs|exact Hr]. }
  destruct (G cs s0 I0 C0 Hcs) as (Is & Cs). inversion Hk as [|? ? Hk' _]; subst.
  assert (Hk'' : src_ok (rc_source (rs_cfg (steps rsi_next s0 cs))) k) by (rewrite Cs; exact Hk').
  apply (rsi_step _ k Is Hk'').
Qed.
End RsiF64.

(** the binary64 EMA (0 <= alpha <= 1/2, i.e. every length >= 3) never leaves the interval spanned by its construction value and
    its inputs - exactly, after any number of steps *)
Theorem ema_binary64_between (a y0 : pfloat) (lo hi : R) (l : list pfloat) : fin a -> 0 <= val a <= / 2 ->
  fin y0 -> lo <= val y0 <= hi -> - half_big <= lo -> hi <= half_big ->
  Forall (fun x => fin x /\ lo <= val x <= hi) l ->
  fin (emaF a y0 l) /\ lo <= val (emaF a y0 l) <= hi.
Proof.
  intros Fa Ba Fy By Hlo Hhi Hall. induction l as [|x r IH]; cbn [emaF]; [split; assumption|].
  inversion Hall as [|? ? (Fx & Bx) Hr]; subst. destruct (IH Hr) as (Fr & Br).
  destruct (ema_step_between x (emaF a y0 r) a Fx Fr Fa) as (Fn & Bn); [apply Rabs_le; lra|apply Rabs_le; lra|exact Ba|].
  split; [exact Fn|]. destruct Bn as (L & U).
  split; [eapply Rle_trans; [|exact L]; apply Rmin_glb; lra|eapply Rle_trans; [exact U|]; apply Rmax_lub; lra].
Qed.
