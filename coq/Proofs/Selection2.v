(** C04 continued: Lowest, HighestLowestDelta, HighestIndex, LowestIndex are exact selections
    (exact carrier NumR; ties are resolved towards the NEWEST extreme element). *)
From Yata Require Import Base.Prelude Base.Num Base.NumR Core.Window Core.WindowSpec Core.Candle Core.Action
  Spec.Hist Spec.MethodDefs Spec.IndicatorDefs Methods.Basic Methods.Select Proofs.MethodsCommon Proofs.Selection.
From Coq Require Import Reals Lra.
Open Scope R_scope.

Lemma lmin_le (l : list R) x : fold_left Rmin l x <= x /\ forall y, In y l -> fold_left Rmin l x <= y.
Proof.
  revert x; induction l as [|a l IH]; intros x; simpl; [split; [lra|tauto]|].
  destruct (IH (Rmin x a)) as (H1 & H2). pose proof (Rmin_l x a). pose proof (Rmin_r x a).
  split; [lra|]. intros y [->|Hy]; [lra|auto].
Qed.
Lemma lmin_in (l : list R) x : fold_left Rmin l x = x \/ In (fold_left Rmin l x) l.
Proof.
  revert x; induction l as [|a l IH]; intros x; simpl; [auto|].
  destruct (IH (Rmin x a)) as [H|H]; [|auto].
  rewrite H. unfold Rmin. destruct (Rle_dec x a); auto.
Qed.
Lemma lmin_char (l : list R) x m :
  m <= x -> (forall y, In y l -> m <= y) -> (m = x \/ In m l) -> fold_left Rmin l x = m.
Proof.
  intros Hx Hl Hin. destruct (lmin_le l x) as (G1 & G2).
  apply Rle_antisym.
  - destruct Hin as [->|Hi]; auto.
  - destruct (lmin_in l x) as [->|Hi]; auto.
Qed.

Section Proofs.
Context {pw : PW}.
Local Notation "'R'" := (@F NumR) (only parsing).
Open Scope Z_scope.

Definition lowest_inv (n : nat) (s : hl (N := NumR)) (h : nat -> R) : Prop :=
  WinOK n (hl_window s) h /\ hl_value s = lowest_def n h.

Lemma lowest_step_ok n s h x : lowest_inv (S n) s h ->
  lowest_inv (S n) (fst (lowest_step s x)) (hcons x h) /\
  snd (lowest_step s x) = lowest_def (S n) (hcons x h).
Proof.
  intros (Hw & Hv). destruct (winok_push n _ h x Hw) as (w' & Hp & Hw').
  unfold lowest_step. rewrite Hp. cbv zeta. cbn [fst snd].
  rewrite (winok_items _ _ _ Hw').
  assert (E : (if fle x (hl_value s) then x
               else if fbits_eq (h n) (hl_value s)
                    then fold_left fmin (map (hcons x h) (seq 0 (S n))) x else hl_value s)
              = lowest_def (S n) (hcons x h)).
  { unfold lowest_def at 1. cbn [hcons]. rewrite Hv. unfold lowest_def.
    destruct (lmin_le (map h (seq 0 (S n))) (h O)) as (G1 & G2).
    set (m := fold_left fmin (map h (seq 0 (S n))) (h O)) in *.
    assert (Hall : forall i, (i < S n)%nat -> (m <= h i)%R).
    { intros i Hi. apply G2. apply in_hist. exists i. split; auto. }
    rsimp. destruct (Rleb_spec x m) as [Hge|Hlt].
    - symmetry. apply lmin_char; [lra| |left; reflexivity].
      intros y Hy. apply in_hist in Hy. destruct Hy as (i & Hi & <-).
      destruct i as [|i]; cbn [hcons]; [lra|]. assert (Hi' : (i < S n)%nat) by lia. specialize (Hall i Hi'). lra.
    - destruct (Reqb_spec (h n) m) as [Heq|Hne]; [reflexivity|].
      symmetry. apply lmin_char; [lra| |].
      + intros y Hy. apply in_hist in Hy. destruct Hy as (i & Hi & <-).
        destruct i as [|i]; cbn [hcons]; [lra|]. apply Hall. lia.
      + right. assert (Hm : m = h O \/ In m (map h (seq 0 (S n)))) by apply lmin_in.
        assert (Hex : exists i, (i < S n)%nat /\ h i = m).
        { destruct Hm as [Hm|Hm]; [exists O; split; [lia|auto]|apply in_hist in Hm; exact Hm]. }
        destruct Hex as (i & Hi & Hm').
        assert (i <> n) by (intros ->; auto).
        apply in_hist. exists (S i). split; [lia|]. exact Hm'. }
  split; [split; [exact Hw'|exact E]|exact E].
Qed.

Lemma fold_min_const n (v : R) : fold_left Rmin (map (hconst v) (seq 0 n)) v = v.
Proof. apply lmin_char; [lra| |left; reflexivity]. intros y Hy. apply in_hist in Hy.
  destruct Hy as (i & _ & <-). unfold hconst. lra. Qed.

Lemma lowest_init n v : 1 <= n <= pmax - 1 ->
  exists s0, hl_new n v = Ok s0 /\ lowest_inv (Z.to_nat n) s0 (hconst v).
Proof.
  intros Hn. unfold hl_new. cbn [fis_finite NumR negb]. rewrite bad_len_false by lia.
  eexists; split; [reflexivity|]. split; [apply winok_new; lia|].
  cbn [hl_value]. unfold lowest_def. rsimp. symmetry. apply fold_min_const.
Qed.

Theorem lowest_correct n v xs x : 1 <= n <= pmax - 1 ->
  exists s0, hl_new n v = Ok s0 /\
    snd (lowest_step (steps lowest_step s0 xs) x) = lowest_def (Z.to_nat n) (hget v (rev (xs ++ [x]))).
Proof. intros Hn. by_inv (lowest_init n v Hn) lowest_step_ok. Qed.

Theorem lowest_def_is_min n (h : nat -> R) : (0 < n)%nat ->
  (forall i, (i < n)%nat -> (lowest_def n h <= h i)%R) /\ exists i, (i < n)%nat /\ h i = lowest_def n h.
Proof.
  intros Hn. unfold lowest_def. rsimp.
  destruct (lmin_le (map h (seq 0 n)) (h O)) as (G1 & G2). split.
  - intros i Hi. apply G2. apply in_hist. eauto.
  - destruct (lmin_in (map h (seq 0 n)) (h O)) as [E|E].
    + exists O. split; [lia|]. symmetry. exact E.
    + apply in_hist in E. exact E.
Qed.

(** ** HighestLowestDelta *)
Lemma fold_minmax (l : list R) a b :
  fold_left (fun mm v => (@fmin NumR (fst mm) v, @fmax NumR (snd mm) v)) l (a, b)
  = (fold_left Rmin l a, fold_left Rmax l b).
Proof. revert a b. induction l as [|x l IH]; intros a b; cbn [fold_left fst snd]; [reflexivity|]. rewrite IH. reflexivity. Qed.

Definition hld_inv (n : nat) (s : hld (N := NumR)) (h : nat -> R) : Prop :=
  WinOK n (hld_window s) h /\ hld_highest s = highest_def n h /\ hld_lowest s = lowest_def n h.

(** the branch expressions of Highest / Lowest equal the definitions (extracted from the step lemmas) *)
Lemma hi_branch n (h : nat -> R) x :
  (if fge x (highest_def (S n) h) then x
   else if fbits_eq (h n) (highest_def (S n) h) then fold_left fmax (map (hcons x h) (seq 0 (S n))) x
        else highest_def (S n) h) = highest_def (S n) (hcons x h).
Proof.
  unfold highest_def at 4. cbn [hcons]. unfold highest_def.
  destruct (lmax_ge (map h (seq 0 (S n))) (h O)) as (G1 & G2).
  set (m := fold_left fmax (map h (seq 0 (S n))) (h O)) in *.
  assert (Hall : forall i, (i < S n)%nat -> (h i <= m)%R).
  { intros i Hi. apply G2. apply in_hist. exists i. split; auto. }
  rsimp. destruct (Rleb_spec m x) as [Hge|Hlt].
  - symmetry. apply lmax_char; [lra| |left; reflexivity].
    intros y Hy. apply in_hist in Hy. destruct Hy as (i & Hi & <-).
    destruct i as [|i]; cbn [hcons]; [lra|]. assert (Hi' : (i < S n)%nat) by lia. specialize (Hall i Hi'). lra.
  - destruct (Reqb_spec (h n) m) as [Heq|Hne]; [reflexivity|].
    symmetry. apply lmax_char; [lra| |].
    + intros y Hy. apply in_hist in Hy. destruct Hy as (i & Hi & <-).
      destruct i as [|i]; cbn [hcons]; [lra|]. apply Hall. lia.
    + right. assert (Hm : m = h O \/ In m (map h (seq 0 (S n)))) by apply lmax_in.
      assert (Hex : exists i, (i < S n)%nat /\ h i = m).
      { destruct Hm as [Hm|Hm]; [exists O; split; [lia|auto]|apply in_hist in Hm; exact Hm]. }
      destruct Hex as (i & Hi & Hm').
      assert (i <> n) by (intros ->; auto).
      apply in_hist. exists (S i). split; [lia|]. exact Hm'.
Qed.
Lemma lo_branch n (h : nat -> R) x :
  (if fle x (lowest_def (S n) h) then x
   else if fbits_eq (h n) (lowest_def (S n) h) then fold_left fmin (map (hcons x h) (seq 0 (S n))) x
        else lowest_def (S n) h) = lowest_def (S n) (hcons x h).
Proof.
  unfold lowest_def at 4. cbn [hcons]. unfold lowest_def.
  destruct (lmin_le (map h (seq 0 (S n))) (h O)) as (G1 & G2).
  set (m := fold_left fmin (map h (seq 0 (S n))) (h O)) in *.
  assert (Hall : forall i, (i < S n)%nat -> (m <= h i)%R).
  { intros i Hi. apply G2. apply in_hist. exists i. split; auto. }
  rsimp. destruct (Rleb_spec x m) as [Hge|Hlt].
  - symmetry. apply lmin_char; [lra| |left; reflexivity].
    intros y Hy. apply in_hist in Hy. destruct Hy as (i & Hi & <-).
    destruct i as [|i]; cbn [hcons]; [lra|]. assert (Hi' : (i < S n)%nat) by lia. specialize (Hall i Hi'). lra.
  - destruct (Reqb_spec (h n) m) as [Heq|Hne]; [reflexivity|].
    symmetry. apply lmin_char; [lra| |].
    + intros y Hy. apply in_hist in Hy. destruct Hy as (i & Hi & <-).
      destruct i as [|i]; cbn [hcons]; [lra|]. apply Hall. lia.
    + right. assert (Hm : m = h O \/ In m (map h (seq 0 (S n)))) by apply lmin_in.
      assert (Hex : exists i, (i < S n)%nat /\ h i = m).
      { destruct Hm as [Hm|Hm]; [exists O; split; [lia|auto]|apply in_hist in Hm; exact Hm]. }
      destruct Hex as (i & Hi & Hm').
      assert (i <> n) by (intros ->; auto).
      apply in_hist. exists (S i). split; [lia|]. exact Hm'.
Qed.
(** a full rescan gives the definitions too *)
Lemma hi_scan n (h : nat -> R) x : fold_left Rmax (map (hcons x h) (seq 0 (S n))) x = highest_def (S n) (hcons x h).
Proof. reflexivity. Qed.
Lemma lo_scan n (h : nat -> R) x : fold_left Rmin (map (hcons x h) (seq 0 (S n))) x = lowest_def (S n) (hcons x h).
Proof. reflexivity. Qed.

Lemma hld_step_ok n s h x : hld_inv (S n) s h ->
  hld_inv (S n) (fst (hld_next s x)) (hcons x h) /\
  snd (hld_next s x) = hld_def (S n) (hcons x h).
Proof.
  intros (Hw & Hh & Hl). destruct (winok_push n _ h x Hw) as (w' & Hp & Hw').
  unfold hld_next. rewrite Hp. cbv zeta. cbv beta iota.
  rewrite (winok_items _ _ _ Hw'). rewrite Hh, Hl.
  pose proof (hi_branch n h x) as Bh. pose proof (lo_branch n h x) as Bl.
  assert (G : forall hi2 lo2, hi2 = highest_def (S n) (hcons x h) -> lo2 = lowest_def (S n) (hcons x h) ->
     hld_inv (S n) (mkHLD hi2 lo2 w') (hcons x h) /\ hld_peek (mkHLD hi2 lo2 w') = hld_def (S n) (hcons x h)).
  { intros hi2 lo2 -> ->. split; [split; [exact Hw'|split; reflexivity]|reflexivity]. }
  destruct (fge x (highest_def (S n) h)) eqn:E1; destruct (fle x (lowest_def (S n) h)) eqn:E2; cbn [orb fst snd];
    try (destruct (fbits_eq (h n) (highest_def (S n) h)) eqn:E3); try (destruct (fbits_eq (h n) (lowest_def (S n) h)) eqn:E4);
    cbn [orb fst snd]; try (rewrite fold_minmax; cbn [fst snd]);
    (apply G; [first [exact Bh|apply hi_scan]|first [exact Bl|apply lo_scan]]).
Qed.

Lemma hld_init n v : 1 <= n <= pmax - 1 ->
  exists s0, hld_new n v = Ok s0 /\ hld_inv (Z.to_nat n) s0 (hconst v).
Proof.
  intros Hn. unfold hld_new. cbn [fis_finite NumR negb]. rewrite bad_len_false by lia.
  eexists; split; [reflexivity|]. split; [apply winok_new; lia|].
  cbn [hld_highest hld_lowest]. unfold highest_def, lowest_def. rsimp. split; symmetry; [apply fold_max_const|apply fold_min_const].
Qed.

Theorem hld_correct n v xs x : 1 <= n <= pmax - 1 ->
  exists s0, hld_new n v = Ok s0 /\
    snd (hld_next (steps hld_next s0 xs) x) = hld_def (Z.to_nat n) (hget v (rev (xs ++ [x]))).
Proof. intros Hn. by_inv (hld_init n v Hn) hld_step_ok. Qed.
End Proofs.

Lemma argbest_ext (better : @F NumR -> @F NumR -> bool) (h h' : nat -> @F NumR) n : (forall i, h i = h' i) -> argbest better h n = argbest better h' n.
Proof. intros E. induction n as [|n IH]; [reflexivity|]. cbn [argbest]. rewrite IH, !E. reflexivity. Qed.

(** ** HighestIndex / LowestIndex: the age of the NEWEST extreme element of the last n inputs *)
Section Index.
Context {pw : PW}.
Local Notation "'R'" := (@F NumR) (only parsing).
Variables (better keep : R -> R -> bool) (gt : R -> R -> Prop).
Hypothesis Hb : forall a b, better a b = true <-> gt a b.
Hypothesis Hk : forall a b, keep a b = true <-> ~ gt b a.
Hypothesis gt_irrefl : forall a, ~ gt a a.
Hypothesis gt_trans : forall a b c, gt a b -> gt b c -> gt a c.
Hypothesis gt_total : forall a b, gt a b \/ a = b \/ gt b a.
Open Scope nat_scope.

Definition is_best (h : nat -> R) (n j : nat) : Prop :=
  j < n /\ (forall i, i < j -> gt (h j) (h i)) /\ (forall i, i < n -> ~ gt (h i) (h j)).

Lemma argbest_best h n : 1 <= n -> is_best h n (argbest better h n).
Proof.
  induction n as [|n IH]; [lia|]. intros _. cbn [argbest]. destruct n as [|n].
  - cbn [argbest]. destruct (better (h 0) (h 0)) eqn:E; [apply Hb in E; exfalso; exact (gt_irrefl _ E)|].
    split; [lia|]. split; [intros i Hi; lia|]. intros i Hi. replace i with 0 by lia. apply gt_irrefl.
  - assert (H1 : 1 <= S n) by lia. specialize (IH H1). destruct IH as (Hj & Hnew & Hall).
    set (j := argbest better h (S n)) in *.
    destruct (better (h (S n)) (h j)) eqn:E.
    + apply Hb in E. split; [lia|]. split.
      * intros i Hi. destruct (gt_total (h (S n)) (h i)) as [G|[G|G]]; [exact G| |].
        -- exfalso. rewrite G in E. exact (Hall i Hi E).
        -- exfalso. exact (Hall i Hi (gt_trans _ _ _ G E)).
      * intros i Hi. assert (Hc : i < S n \/ i = S n) by lia. destruct Hc as [Hc| ->]; [|apply gt_irrefl].
        intros G. exact (Hall i Hc (gt_trans _ _ _ G E)).
    + split; [lia|]. split; [exact Hnew|]. intros i Hi. assert (Hc : i < S n \/ i = S n) by lia.
      destruct Hc as [Hc| ->]; [apply Hall; exact Hc|]. intros G. apply Hb in G. congruence.
Qed.
Lemma best_unique h n j j' : is_best h n j -> is_best h n j' -> j = j'.
Proof.
  intros (Hj & N1 & A1) (Hj' & N2 & A2).
  destruct (Nat.lt_trichotomy j j') as [L|[E|L]]; [|exact E|].
  - exfalso. exact (A1 j' Hj' (N2 j L)).
  - exfalso. exact (A2 j Hj (N1 j' L)).
Qed.

Lemma combine_app' {A B} (l1 l2 : list A) (m1 m2 : list B) : length l1 = length m1 ->
  combine (l1 ++ l2) (m1 ++ m2) = combine l1 m1 ++ combine l2 m2.
Proof.
  revert m1. induction l1 as [|a l1 IH]; intros [|b m1] Hl; cbn in *; try discriminate; [reflexivity|].
  f_equal. apply IH. lia.
Qed.
Lemma fold_argbest (h : nat -> R) n :
  fold_left (fun (a b : Z * R) => if better (snd b) (snd a) then b else a)
    (combine (map Z.of_nat (seq 0 n)) (map h (seq 0 n))) (0%Z, h 0)
  = (Z.of_nat (argbest better h n), h (argbest better h n)).
Proof.
  induction n as [|n IH]; [reflexivity|].
  rewrite seq_S, !map_app, combine_app' by (rewrite !map_length; reflexivity).
  rewrite fold_left_app, IH. cbn [map combine fold_left snd Nat.add argbest].
  destruct (better (h n) (h (argbest better h n))); reflexivity.
Qed.

Definition hli_inv (n : nat) (s : hli (N := NumR)) (h : nat -> R) : Prop :=
  WinOK n (hli_window s) h /\ hli_index s = Z.of_nat (argbest better h n) /\ hli_value s = h (argbest better h n).

Lemma hindex_step_ok n s h x : hli_inv (S n) s h ->
  hli_inv (S n) (fst (hindex_step better keep s x)) (hcons x h) /\
  snd (hindex_step better keep s x) = Z.of_nat (argbest better (hcons x h) (S n)).
Proof.
  intros (Hw & Hi & Hv). destruct (winok_push n _ h x Hw) as (w' & Hp & Hw').
  unfold hindex_step. rewrite Hp. cbv zeta. cbv beta iota.
  assert (H1 : 1 <= S n) by lia.
  pose proof (argbest_best h (S n) H1) as (Hj & Hnew & Hall).
  set (j := argbest better h (S n)) in *.
  assert (G : forall k, is_best (hcons x h) (S n) k ->
     hli_inv (S n) (mkHLI (Z.of_nat k) (hcons x h k) w') (hcons x h) /\ Z.of_nat k = Z.of_nat (argbest better (hcons x h) (S n))).
  { intros k Hk'. rewrite (best_unique _ _ _ _ Hk' (argbest_best (hcons x h) (S n) H1)).
    split; [split; [exact Hw'|split; reflexivity]|reflexivity]. }
  destruct (keep x (hli_value s)) eqn:E.
  - apply Hk in E. rewrite Hv in E. cbn [fst snd]. apply (G 0%nat). split; [lia|]. split; [intros i Hi0; lia|].
    intros i Hi0 Gt. destruct i as [|i]; cbn [hcons] in Gt; [exact (gt_irrefl _ Gt)|].
    assert (Hi' : i < S n) by lia.
    destruct (gt_total x (h j)) as [G1|[G1|G1]]; [|subst x|exact (E G1)].
    + exact (Hall i Hi' (gt_trans _ _ _ Gt G1)).
    + exact (Hall i Hi' Gt).
  - assert (Ex : gt (h j) x).
    { rewrite Hv in E. destruct (gt_total (h j) x) as [G1|[G1|G1]]; [exact G1| |].
      - exfalso. assert (Hkx : keep x (h j) = true) by (apply Hk; rewrite G1; apply gt_irrefl). congruence.
      - exfalso. assert (Hkx : keep x (h j) = true).
        { apply Hk. intros G2. exact (gt_irrefl _ (gt_trans _ _ _ G1 G2)). } congruence. }
    destruct Hw' as (Hwf' & Hsz' & Hs'). pose proof (conj Hwf' (conj Hsz' Hs')) as Hw''.
    unfold w_len. rewrite Hsz', Hi.
    destruct (Z.eqb_spec (Z.of_nat j + 1) (Z.of_nat (S n))) as [Efull|Enot].
    + (* the remembered extreme has just left the window: rescan *)
      rewrite (winok_items _ _ _ Hw''). unfold enumerate. rewrite map_length, seq_length.
      pose proof (fold_argbest (hcons x h) (S n)) as Hf. change (hcons x h 0) with x in Hf at 1. rewrite Hf. cbn [fst snd].
      split; [split; [exact Hw''|split; reflexivity]|reflexivity].
    + cbn [fst snd]. replace (Z.of_nat j + 1)%Z with (Z.of_nat (S j)) by lia. rewrite Hv.
      change (h j) with (hcons x h (S j)). apply (G (S j)). split; [lia|]. split.
      * intros i Hi0. destruct i as [|i]; cbn [hcons]; [exact Ex|]. apply Hnew. lia.
      * intros i Hi0. destruct i as [|i]; cbn [hcons].
        -- intros G1. exact (gt_irrefl _ (gt_trans _ _ _ G1 Ex)).
        -- apply Hall. lia.
Qed.

Lemma argbest_const (v : R) n : argbest better (hconst v) n = 0.
Proof.
  induction n as [|n IH]; [reflexivity|]. cbn [argbest]. rewrite IH. unfold hconst.
  destruct (better v v) eqn:E; [apply Hb in E; exfalso; exact (gt_irrefl _ E)|reflexivity].
Qed.
Lemma hli_init n v : (1 <= n <= pmax - 1)%Z ->
  exists s0, hli_new n v = Ok s0 /\ hli_inv (Z.to_nat n) s0 (hconst v).
Proof.
  intros Hn. unfold hli_new. cbn [fis_finite NumR negb]. rewrite bad_len_false by lia.
  eexists; split; [reflexivity|]. split; [apply winok_new; lia|].
  cbn [hli_index hli_value]. rewrite argbest_const. split; reflexivity.
Qed.
Theorem hindex_correct n v xs x : (1 <= n <= pmax - 1)%Z ->
  exists s0, hli_new n v = Ok s0 /\
    snd (hindex_step better keep (steps (hindex_step better keep) s0 xs) x)
    = Z.of_nat (argbest better (hget v (rev (xs ++ [x]))) (Z.to_nat n)).
Proof.
  intros Hn. destruct (hli_init n v Hn) as (s0 & Hnew & Hinv). exists s0. split; [exact Hnew|].
  destruct (nat_len n ltac:(lia)) as (m & Em). rewrite Em in *.
  eapply (inv_correct _ _ (fun h => Z.of_nat (argbest better h (S m))) (hindex_step_ok m)). exact Hinv.
Qed.

(** ** Reversal detectors ([beats] = [keep], the non-strict comparison): the detector fires exactly when the
    NEWEST extreme element of the last left+right+1 inputs is [right] steps old.  Convention of the API
    (DESIGN.md, Appendix C): the first input is the construction value. *)
Lemma keep_false a b : keep a b = false -> gt b a.
Proof.
  intros E. destruct (gt_total b a) as [G|[G|G]]; [exact G| |].
  - exfalso. assert (K : keep a b = true) by (apply Hk; rewrite G; apply gt_irrefl). congruence.
  - exfalso. assert (K : keep a b = true) by (apply Hk; intros G2; exact (gt_irrefl _ (gt_trans _ _ _ G G2))). congruence.
Qed.
Lemma not_gt_trans a b c : ~ gt a b -> ~ gt b c -> ~ gt a c.
Proof.
  intros H1 H2 G. destruct (gt_total b a) as [G1|[G1|G1]].
  - destruct (gt_total c b) as [G2|[G2|G2]]; [exact (gt_irrefl _ (gt_trans _ _ _ G (gt_trans _ _ _ G2 G1)))| |exact (H2 G2)].
    subst c. exact (gt_irrefl _ (gt_trans _ _ _ G G1)).
  - subst b. exact (H2 G).
  - exact (H1 G1).
Qed.

(** oldest-first scan with the non-strict comparison: picks the LAST (newest) extreme position *)
Definition scan (g : nat -> R) (fi : Z) (k : nat) : R * Z :=
  fold_left (fun (a : R * Z) (b : Z * R) => if keep (snd b) (fst a) then (snd b, fst b) else a)
    (combine (map (fun j => (fi + 1 + Z.of_nat j)%Z) (seq 0 k)) (map g (seq 1 k))) (g 0, fi).
Lemma scan_spec g fi k : exists m, m <= k /\ scan g fi k = (g m, (fi + Z.of_nat m)%Z) /\
  (forall i, i <= k -> ~ gt (g i) (g m)) /\ (forall i, m < i -> i <= k -> gt (g m) (g i)).
Proof.
  induction k as [|k IH].
  - exists 0. split; [lia|]. split; [unfold scan; cbn; f_equal; lia|]. split.
    + intros i Hi. replace i with 0 by lia. apply gt_irrefl.
    + intros i H1 H2. lia.
  - destruct IH as (m & Hm & Es & Hall & Hnew). unfold scan in *.
    rewrite !seq_S, !map_app, combine_app' by (rewrite !map_length, !seq_length; reflexivity).
    rewrite fold_left_app, Es. cbn [map combine fold_left fst snd Nat.add].
    destruct (keep (g (S k)) (g m)) eqn:E.
    + apply Hk in E. exists (S k). split; [lia|]. split; [f_equal; lia|]. split.
      * intros i Hi. assert (Hc : i <= k \/ i = S k) by lia. destruct Hc as [Hc| ->]; [|apply gt_irrefl].
        exact (not_gt_trans _ _ _ (Hall i Hc) E).
      * intros i H1 H2. lia.
    + apply keep_false in E. exists m. split; [lia|]. split; [reflexivity|]. split.
      * intros i Hi. assert (Hc : i <= k \/ i = S k) by lia. destruct Hc as [Hc| ->]; [exact (Hall i Hc)|].
        intros G. exact (gt_irrefl _ (gt_trans _ _ _ G E)).
      * intros i H1 H2. assert (Hc : i <= k \/ i = S k) by lia. destruct Hc as [Hc| ->]; [exact (Hnew i H1 Hc)|exact E].
Qed.
Lemma hwin_oldest_first n (h : nat -> R) : hwin n h = map (fun i => h (n - 1 - i)) (seq 0 n).
Proof.
  induction n as [|n IH]; [reflexivity|]. rewrite hwin_S, IH. cbn [seq map]. f_equal; [f_equal; lia|].
  rewrite <- seq_shift, map_map. apply map_ext_in. intros i Hi. apply in_seq in Hi. f_equal. lia.
Qed.
(** the rescan of the model returns the newest extreme of the window and its position *)
Lemma rescan_spec n (h : nat -> R) fi :
  let j := argbest better h (S n) in
  fold_left (fun (a : R * Z) (b : Z * R) => if keep (snd b) (fst a) then (snd b, fst b) else a)
    (combine (map (fun k => (fi + 1 + Z.of_nat k)%Z) (seq 0 (length (hwin n h)))) (hwin n h)) (h n, fi)
  = (h j, (fi + Z.of_nat (n - j))%Z).
Proof.
  intros j. set (g := fun i => h (n - i)).
  assert (Eg : hwin n h = map g (seq 1 n)).
  { rewrite hwin_oldest_first, <- seq_shift, map_map. apply map_ext_in. intros i Hi. apply in_seq in Hi. unfold g. f_equal. lia. }
  rewrite hwin_length. rewrite Eg. assert (E0 : h n = g 0) by (unfold g; f_equal; lia). rewrite E0.
  destruct (scan_spec g fi n) as (m & Hm & Es & Hall & Hnew). unfold scan in Es. rewrite Es.
  assert (Hbest : is_best h (S n) (n - m)).
  { split; [lia|]. split.
    - intros i Hi. specialize (Hnew (n - i)). unfold g in Hnew. replace (n - (n - i)) with i in Hnew by lia. apply Hnew; lia.
    - intros i Hi. specialize (Hall (n - i)). unfold g in Hall. replace (n - (n - i)) with i in Hall by lia. apply Hall. lia. }
  assert (H1 : 1 <= S n) by lia.
  pose proof (best_unique _ _ _ _ Hbest (argbest_best h (S n) H1)) as Ej. fold j in Ej.
  unfold g. rewrite <- Ej. f_equal. f_equal. f_equal. lia.
Qed.

Definition rv_inv (n r t : nat) (s : rvs (N := NumR)) (h : nat -> R) : Prop :=
  WinOK (S n) (rv_window s) h /\ rv_right s = Z.of_nat r /\ rv_index s = Z.of_nat (Nat.min t (S n)) /\
  (forall a, t - 1 <= a -> h a = h (t - 1)) /\
  rv_mindex s = Z.of_nat (Nat.min t (S n) - 1 - argbest better h (S n)) /\ rv_value s = h (argbest better h (S n)).

Lemma newest_best_recent n t (h : nat -> R) : 1 <= t -> (forall a, t - 1 <= a -> h a = h (t - 1)) ->
  argbest better h (S n) < Nat.min t (S n).
Proof.
  intros Ht Hc. assert (H1 : 1 <= S n) by lia. destruct (argbest_best h (S n) H1) as (Hj & Hnew & _).
  set (j := argbest better h (S n)) in *. destruct (Nat.lt_ge_cases j t) as [L|G]; [lia|].
  exfalso. assert (Hlt : t - 1 < j) by lia. specialize (Hnew (t - 1) Hlt). rewrite (Hc j) in Hnew by lia. exact (gt_irrefl _ Hnew).
Qed.

Lemma rev_step_ok n r t s h x : (Z.of_nat (S n) <= pmax - 1)%Z -> 1 <= t -> rv_inv n r t s h ->
  rv_inv n r (S t) (fst (rev_next keep s x)) (hcons x h) /\
  snd (rev_next keep s x) = if Nat.eqb (argbest better (hcons x h) (S n)) r then a_buy_all else ANone.
Proof.
  intros HL Ht (Hw & Hr & Hi & Hc & Hm & Hv).
  pose proof (newest_best_recent n t h Ht Hc) as Hjt.
  assert (H1 : 1 <= S n) by lia.
  destruct (argbest_best h (S n) H1) as (Hj & Hnew & Hall).
  set (j := argbest better h (S n)) in *. set (I := Nat.min t (S n)) in *.
  destruct (winok_push n _ h x Hw) as (w' & Hp & Hw').
  assert (Hc' : forall a, S t - 1 <= a -> hcons x h a = hcons x h (S t - 1)).
  { intros a Ha. replace (S t - 1) with (S (t - 1)) by lia. destruct a as [|a]; [lia|]. cbn [hcons]. apply Hc. lia. }
  assert (HSt : 1 <= S t) by lia.
  pose proof (newest_best_recent n (S t) (hcons x h) HSt Hc') as Hjt'.
  destruct (argbest_best (hcons x h) (S n) H1) as (Hj' & Hnew' & Hall').
  set (j' := argbest better (hcons x h) (S n)) in *.
  unfold rev_next. rewrite Hp. cbv beta iota.
  destruct Hw' as (Hwf' & Hsz' & Hs'). pose proof (conj Hwf' (conj Hsz' Hs')) as Hw''.
  unfold w_len. rewrite Hsz', Hi.
  assert (Hsa : sat_add (Z.of_nat I) 1 = (Z.of_nat I + 1)%Z) by (unfold sat_add; lia). rewrite Hsa.
  set (fi := sat_sub (Z.of_nat I + 1) (Z.of_nat (S n))).
  assert (Hfi : fi = if Nat.eqb I (S n) then 1%Z else 0%Z).
  { unfold fi, sat_sub. destruct (Nat.eqb_spec I (S n)); lia. }
  rewrite (iter_rev_all w' Hwf'). unfold content. rewrite rev_involutive, Hs', hwin_S.
  (* the extreme after this step, in the positions of the model: position = I - age *)
  assert (Hpick : (let '(mv, mi) :=
      if (rv_mindex s <? fi)%Z
      then fold_left (fun (a : R * Z) (b : Z * R) => if keep (snd b) (fst a) then (snd b, fst b) else a)
             (combine (map (fun k => (fi + 1 + Z.of_nat k)%Z) (seq 0 (length (hwin n (hcons x h))))) (hwin n (hcons x h)))
             (hcons x h n, fi)
      else if keep x (rv_value s) then (x, Z.of_nat I) else (rv_value s, rv_mindex s) in
      mv = hcons x h j' /\ mi = Z.of_nat (I - j') /\ j' <= I)).
  { rewrite Hm, Hv. destruct (Z.ltb_spec (Z.of_nat (I - 1 - j)) fi) as [Hlt|Hge].
    - (* rescan: steady state and the old extreme was the oldest element *)
      assert (HI : I = S n) by (rewrite Hfi in Hlt; destruct (Nat.eqb_spec I (S n)); [assumption|lia]).
      rewrite rescan_spec. fold j'. rewrite Hfi, HI, Nat.eqb_refl. repeat split; lia.
    - destruct (keep x (h j)) eqn:E.
      + apply Hk in E. assert (Ej : j' = 0).
        { apply (best_unique (hcons x h) (S n)); [exact (conj Hj' (conj Hnew' Hall'))|].
          split; [lia|]. split; [intros i Hi0; lia|]. intros i Hi0 G. destruct i as [|i]; cbn [hcons] in G; [exact (gt_irrefl _ G)|].
          assert (Hi' : i < S n) by lia. exact (not_gt_trans _ _ _ (Hall i Hi') E G). }
        rewrite Ej. cbn [hcons]. repeat split; lia.
      + apply keep_false in E.
        assert (Hjn : S j < S n).
        { rewrite Hfi in Hge. destruct (Nat.eqb_spec I (S n)) as [HI|HI]; [lia|]. unfold I in *. lia. }
        assert (Ej : j' = S j).
        { apply (best_unique (hcons x h) (S n)); [exact (conj Hj' (conj Hnew' Hall'))|].
          split; [exact Hjn|]. split.
          - intros i Hi0. destruct i as [|i]; cbn [hcons]; [exact E|]. apply Hnew. lia.
          - intros i Hi0. destruct i as [|i]; cbn [hcons]; [intros G; exact (gt_irrefl _ (gt_trans _ _ _ G E))|]. apply Hall. lia. }
        rewrite Ej. cbn [hcons]. repeat split; lia. }
  destruct (if (rv_mindex s <? fi)%Z then _ else _) as (mv, mi). destruct Hpick as (Emv & Emi & Hle).
  rewrite Hr.
  assert (Esig : (if (Z.of_nat r <=? Z.of_nat I)%Z && (mi =? sat_sub (Z.of_nat I) (Z.of_nat r))%Z then a_buy_all else ANone)
                 = if Nat.eqb j' r then a_buy_all else ANone).
  { rewrite Emi. unfold sat_sub. destruct (Nat.eqb_spec j' r) as [E|E].
    - subst r. destruct (Z.leb_spec (Z.of_nat j') (Z.of_nat I)); [|lia]. destruct (Z.eqb_spec (Z.of_nat (I - j')) (Z.max 0 (Z.of_nat I - Z.of_nat j'))); [reflexivity|lia].
    - destruct (Z.leb_spec (Z.of_nat r) (Z.of_nat I)); [|reflexivity].
      destruct (Z.eqb_spec (Z.of_nat (I - j')) (Z.max 0 (Z.of_nat I - Z.of_nat r))); [lia|reflexivity]. }
  rewrite Esig.
  destruct (Z.ltb_spec (Z.of_nat (S n)) (Z.of_nat I + 1)) as [Hfull|Hnot]; cbn [fst snd]; (split; [|reflexivity]); unfold rv_inv;
    cbn [rv_window rv_right rv_index rv_mindex rv_value]; (split; [exact Hw''|]); (split; [reflexivity|]).
  - assert (HI : I = S n) by (unfold I in *; lia). split; [unfold I in *; lia|]. split; [exact Hc'|].
    fold j'. split; [|exact Emv]. rewrite Emi. unfold I in *. lia.
  - assert (HI : I = t) by (unfold I in *; lia). split; [unfold I in *; lia|]. split; [exact Hc'|].
    fold j'. split; [|exact Emv]. rewrite Emi. unfold I in *. lia.
Qed.

Fixpoint hist_app (xs : list R) (h : nat -> R) : nat -> R :=
  match xs with [] => h | x :: r => hist_app r (hcons x h) end.
Lemma hist_app_hget v xs l : forall i, hist_app xs (hget v l) i = hget v (rev xs ++ l) i.
Proof.
  revert l. induction xs as [|a r IH]; intros l i; [reflexivity|].
  cbn [hist_app rev]. change (hcons a (hget v l)) with (hget v (a :: l)). rewrite IH, <- app_assoc. reflexivity.
Qed.
Lemma rv_steps n r xs : (Z.of_nat (S n) <= pmax - 1)%Z -> forall t s h, 1 <= t -> rv_inv n r t s h ->
  rv_inv n r (t + length xs) (steps (rev_next keep) s xs) (hist_app xs h).
Proof.
  intros HL. induction xs as [|x xs IH]; intros t s h Ht Hi.
  - cbn [length hist_app]. replace (t + 0) with t by lia. exact Hi.
  - unfold steps in *. cbn [fold_left length hist_app]. replace (t + S (length xs)) with (S t + length xs) by lia.
    apply IH; [lia|]. apply (rev_step_ok n r t s h x HL Ht Hi).
Qed.
Lemma rv_inv_ext n r t s (h h' : nat -> R) : (forall i, h i = h' i) -> rv_inv n r t s h -> rv_inv n r t s h'.
Proof.
  intros E (Hw & Hr & Hi & Hc & Hm & Hv). split; [eapply winok_ext; eauto|]. split; [exact Hr|]. split; [exact Hi|].
  split; [intros a Ha; rewrite <- !E; apply Hc; exact Ha|].
  rewrite <- (argbest_ext better h h' (S n) E), <- E. split; assumption.
Qed.

Theorem rev_correct lft right (v : R) xs x : (1 <= lft)%Z -> (1 <= right)%Z -> (lft + right <= pmax - 2)%Z ->
  exists s0, rev_new lft right v = Ok s0 /\
    snd (rev_next keep (steps (rev_next keep) s0 (v :: xs)) x) =
    if Nat.eqb (argbest better (hget v (rev ((v :: xs) ++ [x]))) (Z.to_nat (lft + right + 1))) (Z.to_nat right)
    then a_buy_all else ANone.
Proof.
  intros Hl Hr Hs. unfold rev_new.
  assert (Hsa : sat_add lft right = (lft + right)%Z) by (unfold sat_add; lia). rewrite Hsa.
  destruct (Z.eqb_spec lft 0); [lia|]. destruct (Z.eqb_spec right 0); [lia|].
  destruct (Z.leb_spec (pmax - 1) (lft + right)); [lia|]. cbn [orb].
  eexists. split; [reflexivity|].
  set (L := (lft + right + 1)%Z). assert (HL1 : (1 <= L)%Z) by lia.
  destruct (nat_len L HL1) as (m & Em). rewrite Em.
  assert (HLm : (Z.of_nat (S m) <= pmax - 1)%Z) by lia.
  set (s0 := mkRev lft right v 0 0 (w_new_t L v)).
  (* the first input is the construction value *)
  assert (I1 : rv_inv m (Z.to_nat right) 1 (fst (rev_next keep s0 v)) (hcons v (hconst v))).
  { assert (HLr : (0 <= L <= pmax - 1)%Z) by lia. pose proof (winok_new L v HLr) as W0. rewrite Em in W0.
    destruct (winok_push m _ (hconst v) v W0) as (w' & Hp & Hw').
    unfold rev_next. cbn [rv_window s0]. rewrite Hp. cbv beta iota.
    destruct Hw' as (Hwf' & Hsz' & Hs'). pose proof (conj Hwf' (conj Hsz' Hs')) as Hw''.
    unfold w_len. rewrite Hsz'. cbn [rv_index rv_mindex rv_value rv_right rv_left s0].
    assert (E1 : sat_sub (sat_add 0 1) (Z.of_nat (S m)) = 0%Z) by (unfold sat_sub, sat_add; lia). rewrite E1.
    cbn [Z.ltb Z.compare].
    assert (Ek : keep v v = true) by (apply Hk; apply gt_irrefl). rewrite Ek.
    destruct (Z.ltb_spec (Z.of_nat (S m)) (0 + 1)) as [Hx|Hx]; [lia|]. cbn [fst].
    unfold rv_inv. cbn [rv_window rv_right rv_index rv_mindex rv_value].
    split; [exact Hw''|]. split; [lia|]. split; [lia|]. split.
    - intros a _. destruct a; reflexivity.
    - split; [lia|]. destruct (argbest better (hcons v (hconst v)) (S m)); reflexivity. }
  pose proof (rv_steps m (Z.to_nat right) xs HLm 1 _ _ (le_n 1) I1) as I2.
  assert (Hst : steps (rev_next keep) s0 (v :: xs) = steps (rev_next keep) (fst (rev_next keep s0 v)) xs) by reflexivity.
  rewrite Hst.
  assert (Ht : 1 <= 1 + length xs) by lia.
  destruct (rev_step_ok m (Z.to_nat right) (1 + length xs) _ _ x HLm Ht I2) as (_ & Hout). rewrite Hout.
  erewrite (argbest_ext better _ (hget v (rev ((v :: xs) ++ [x])))); [reflexivity|].
  intros i. rewrite rev_app_distr. cbn [rev app]. change (hget v (x :: rev xs ++ [v])) with (hcons x (hget v (rev xs ++ [v]))).
  destruct i as [|i]; [reflexivity|]. cbn [hcons].
  change (hcons v (hconst v)) with (hget v [v]). apply hist_app_hget.
Qed.

Lemma argbest_iff h n j : 1 <= n -> (argbest better h n = j <-> is_best h n j).
Proof.
  intros Hn. split; [intros <-; apply argbest_best; exact Hn|].
  intros Hb'. symmetry. exact (best_unique h n _ _ Hb' (argbest_best h n Hn)).
Qed.
End Index.

Section IndexInst.
Context {pw : PW}.
Local Notation "'R'" := (@F NumR) (only parsing).
Open Scope R_scope.
Lemma hi_b (a b : R) : fgt a b = true <-> a > b.
Proof. unfold fgt. rsimp. destruct (Rltb_spec b a); split; intros; try lra; try discriminate; reflexivity. Qed.
Lemma hi_k (a b : R) : fge a b = true <-> ~ b > a.
Proof. unfold fge. rsimp. destruct (Rleb_spec b a) as [L|L]; split; intros H; [lra|reflexivity|discriminate|exfalso; apply H; lra]. Qed.
Lemma lo_b (a b : R) : flt a b = true <-> a < b.
Proof. rsimp. destruct (Rltb_spec a b); split; intros; try lra; try discriminate; reflexivity. Qed.
Lemma lo_k (a b : R) : fle a b = true <-> ~ b < a.
Proof. rsimp. destruct (Rleb_spec a b) as [L|L]; split; intros H; [lra|reflexivity|discriminate|exfalso; apply H; lra]. Qed.
Lemma Rgt_irrefl' (a : R) : ~ a > a. Proof. lra. Qed.
Lemma Rgt_trans' (a b c : R) : a > b -> b > c -> a > c. Proof. lra. Qed.
Lemma Rgt_total' (a b : R) : a > b \/ a = b \/ b > a. Proof. lra. Qed.
Lemma Rlt_irrefl' (a : R) : ~ a < a. Proof. lra. Qed.
Lemma Rlt_trans' (a b c : R) : a < b -> b < c -> a < c. Proof. lra. Qed.
Lemma Rlt_total' (a b : R) : a < b \/ a = b \/ b < a. Proof. lra. Qed.
Lemma highest_index_step_ok n s (h : nat -> R) x : hli_inv fgt (S n) s h ->
  hli_inv fgt (S n) (fst (highest_index_step s x)) (hcons x h) /\
  snd (highest_index_step s x) = highest_age (S n) (hcons x h).
Proof. exact (hindex_step_ok fgt fge (fun a b => a > b) hi_b hi_k Rgt_irrefl' Rgt_trans' Rgt_total' n s h x). Qed.
Lemma lowest_index_step_ok n s (h : nat -> R) x : hli_inv flt (S n) s h ->
  hli_inv flt (S n) (fst (lowest_index_step s x)) (hcons x h) /\
  snd (lowest_index_step s x) = lowest_age (S n) (hcons x h).
Proof. exact (hindex_step_ok flt fle (fun a b => a < b) lo_b lo_k Rlt_irrefl' Rlt_trans' Rlt_total' n s h x). Qed.
Lemma highest_index_init n (v : R) : (1 <= n <= pmax - 1)%Z ->
  exists s0, hli_new n v = Ok s0 /\ hli_inv fgt (Z.to_nat n) s0 (hconst v).
Proof. exact (hli_init fgt fge (fun a b => a > b) hi_b hi_k Rgt_irrefl' Rgt_trans' Rgt_total' n v). Qed.
Lemma lowest_index_init n (v : R) : (1 <= n <= pmax - 1)%Z ->
  exists s0, hli_new n v = Ok s0 /\ hli_inv flt (Z.to_nat n) s0 (hconst v).
Proof. exact (hli_init flt fle (fun a b => a < b) lo_b lo_k Rlt_irrefl' Rlt_trans' Rlt_total' n v). Qed.
Lemma hli_inv_ext better n s (h h' : nat -> R) : (forall i, h i = h' i) -> hli_inv better n s h -> hli_inv better n s h'.
Proof.
  intros E (W & I & V). split; [eapply winok_ext; eauto|]. rewrite <- (argbest_ext better h h' n E), <- E. split; assumption.
Qed.
Theorem highest_index_correct n (v : R) xs x : (1 <= n <= pmax - 1)%Z ->
  exists s0, hli_new n v = Ok s0 /\
    snd (highest_index_step (steps highest_index_step s0 xs) x) = highest_age (Z.to_nat n) (hget v (rev (xs ++ [x]))).
Proof.
  apply (hindex_correct fgt fge (fun a b => a > b)).
  - intros a b. unfold fgt. rsimp. destruct (Rltb_spec b a); split; intros; try lra; try discriminate; reflexivity.
  - intros a b. unfold fge. rsimp. destruct (Rleb_spec b a) as [L|L]; split; intros H; [lra|reflexivity|discriminate|exfalso; apply H; lra].
  - intros a. lra.
  - intros a b c. lra.
  - intros a b. lra.
Qed.
Theorem lowest_index_correct n (v : R) xs x : (1 <= n <= pmax - 1)%Z ->
  exists s0, hli_new n v = Ok s0 /\
    snd (lowest_index_step (steps lowest_index_step s0 xs) x) = lowest_age (Z.to_nat n) (hget v (rev (xs ++ [x]))).
Proof.
  apply (hindex_correct flt fle (fun a b => a < b)).
  - intros a b. rsimp. destruct (Rltb_spec a b); split; intros; try lra; try discriminate; reflexivity.
  - intros a b. rsimp. destruct (Rleb_spec a b) as [L|L]; split; intros H; [lra|reflexivity|discriminate|exfalso; apply H; lra].
  - intros a. lra.
  - intros a b c. lra.
  - intros a b. lra.
Qed.
(** what the age means: the newest element among the maxima of the last n inputs *)
Theorem highest_age_is_newest_max n (h : nat -> R) : (1 <= n)%nat ->
  let j := argbest fgt h n in
  (j < n)%nat /\ (forall i, (i < j)%nat -> h i < h j) /\ (forall i, (i < n)%nat -> h i <= h j).
Proof.
  intros Hn j.
  destruct (argbest_best fgt (fun a b => a > b)) with (h := h) (n := n) as (H1 & H2 & H3); try exact Hn.
  - intros a b. unfold fgt. rsimp. destruct (Rltb_spec b a); split; intros; try lra; try discriminate; reflexivity.
  - intros a. lra.
  - intros a b c. lra.
  - intros a b. lra.
  - split; [exact H1|]. split; [intros i Hi; apply Rgt_lt, H2, Hi|]. intros i Hi. apply Rnot_gt_le, H3, Hi.
Qed.

(** ** the reversal detectors are definitional for streams of every length *)
Theorem upper_reversal_correct lft right (v : R) xs x : (1 <= lft)%Z -> (1 <= right)%Z -> (lft + right <= pmax - 2)%Z ->
  exists s0, rev_new lft right v = Ok s0 /\
    snd (upper_rev_next (steps upper_rev_next s0 (v :: xs)) x) =
    if Nat.eqb (argbest fgt (hget v (rev ((v :: xs) ++ [x]))) (Z.to_nat (lft + right + 1))) (Z.to_nat right)
    then a_buy_all else ANone.
Proof. exact (rev_correct fgt fge (fun a b => a > b) hi_b hi_k Rgt_irrefl' Rgt_trans' Rgt_total' lft right v xs x). Qed.
Theorem lower_reversal_correct lft right (v : R) xs x : (1 <= lft)%Z -> (1 <= right)%Z -> (lft + right <= pmax - 2)%Z ->
  exists s0, rev_new lft right v = Ok s0 /\
    snd (lower_rev_next (steps lower_rev_next s0 (v :: xs)) x) =
    if Nat.eqb (argbest flt (hget v (rev ((v :: xs) ++ [x]))) (Z.to_nat (lft + right + 1))) (Z.to_nat right)
    then a_buy_all else ANone.
Proof. exact (rev_correct flt fle (fun a b => a < b) lo_b lo_k Rlt_irrefl' Rlt_trans' Rlt_total' lft right v xs x). Qed.
(** what the condition says: the element [right] steps back is >= every older and > every newer element of the window *)
Theorem upper_pivot_meaning (h : nat -> R) n j : (1 <= n)%nat ->
  (argbest fgt h n = j <-> (j < n)%nat /\ (forall i, (i < j)%nat -> h i < h j) /\ (forall i, (i < n)%nat -> h i <= h j)).
Proof.
  intros Hn. rewrite (argbest_iff fgt (fun a b => a > b) hi_b Rgt_irrefl' Rgt_trans' Rgt_total' h n j Hn). unfold is_best.
  split; intros (H1 & H2 & H3); (split; [exact H1|]); split.
  - intros i Hi. apply Rgt_lt, H2, Hi.
  - intros i Hi. apply Rnot_gt_le, H3, Hi.
  - intros i Hi. apply Rlt_gt, H2, Hi.
  - intros i Hi. apply Rle_not_gt, H3, Hi.
Qed.
Theorem lower_pivot_meaning (h : nat -> R) n j : (1 <= n)%nat ->
  (argbest flt h n = j <-> (j < n)%nat /\ (forall i, (i < j)%nat -> h j < h i) /\ (forall i, (i < n)%nat -> h j <= h i)).
Proof.
  intros Hn. rewrite (argbest_iff flt (fun a b => a < b) lo_b Rlt_irrefl' Rlt_trans' Rlt_total' h n j Hn). unfold is_best.
  split; intros (H1 & H2 & H3); (split; [exact H1|]); split.
  - intros i Hi. apply H2, Hi.
  - intros i Hi. apply Rnot_lt_le, H3, Hi.
  - intros i Hi. apply H2, Hi.
  - intros i Hi. apply Rle_not_lt, H3, Hi.
Qed.

Lemma reversal_steps xs : forall s : rvs (N := NumR) * rvs (N := NumR),
  steps reversal_next s xs = (steps upper_rev_next (fst s) xs, steps lower_rev_next (snd s) xs).
Proof.
  induction xs as [|x xs IH]; intros s; [destruct s; reflexivity|].
  unfold steps in *. cbn [fold_left]. rewrite IH. unfold reversal_next.
  destruct (lower_rev_next (snd s) x), (upper_rev_next (fst s) x). reflexivity.
Qed.
Theorem reversal_signal_correct lft right (v : R) xs x : (1 <= lft)%Z -> (1 <= right)%Z -> (lft + right <= pmax - 2)%Z ->
  exists s0, reversal_new lft right v = Ok s0 /\
    snd (reversal_next (steps reversal_next s0 (v :: xs)) x) =
    let h := hget v (rev ((v :: xs) ++ [x])) in let L := Z.to_nat (lft + right + 1) in let r := Z.to_nat right in
    a_sub (if Nat.eqb (argbest flt h L) r then a_buy_all else ANone) (if Nat.eqb (argbest fgt h L) r then a_buy_all else ANone).
Proof.
  intros Hl Hr Hs.
  destruct (upper_reversal_correct lft right v xs x Hl Hr Hs) as (u0 & Eu & Hu).
  destruct (lower_reversal_correct lft right v xs x Hl Hr Hs) as (l0 & El & Hlo).
  rewrite Eu in El. injection El as <-.
  unfold reversal_new. rewrite Eu. cbn [obind]. eexists; split; [reflexivity|].
  rewrite reversal_steps. cbn [fst snd]. unfold reversal_next. cbn [fst snd].
  destruct (lower_rev_next (steps lower_rev_next u0 (v :: xs)) x) as (l', lo) eqn:E1.
  destruct (upper_rev_next (steps upper_rev_next u0 (v :: xs)) x) as (h', hi) eqn:E2.
  cbn [snd] in *. cbv zeta. rewrite <- Hu, <- Hlo. reflexivity.
Qed.
End IndexInst.
