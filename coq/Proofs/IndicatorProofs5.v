(** C05 continued: StochasticOscillator (%K raw from the extremes of the window, smoothed twice: a two-level cascade). *)
From Yata Require Import Base.Prelude Base.Num Base.NumR Core.Window Core.WindowSpec Core.Candle Core.Action Core.Strings
  Spec.Hist Spec.MethodDefs Spec.IndicatorDefs Methods.Basic Methods.Select Indicators.Common Indicators.Set2 Indicators.Set3
  Proofs.MethodsCommon Proofs.Windowed3 Proofs.Windowed4 Proofs.Selection Proofs.Selection2 Proofs.MAProofs Proofs.Cascade Proofs.IndicatorProofs2 Proofs.IndicatorProofs3.
From Coq Require Import Reals Lra.
Open Scope Z_scope.

Section IP5.
Context {pw : PW}.
Local Notation R := (@F NumR).
Local Notation C := (candle (N := NumR)).
Ltac dlet := repeat match goal with |- context [let '(_, _) := ?e in _] => destruct e end.

Theorem stochastic_values_correct (cfg : sto_cfg (N := NumR)) (c0 : C) cs c : sto_validate cfg = true ->
  sc_period cfg <= pmax - 1 ->
  ma_proved (sc_ma cfg) = true -> ma_len_ok (sc_ma cfg) -> ma_proved (sc_signal cfg) = true -> ma_len_ok (sc_signal cfg) ->
  exists s0, sto_init cfg c0 = Ok s0 /\
    fst (snd (sto_next (steps sto_next s0 cs) c)) =
    sto_values (sc_period cfg) (sc_ma cfg) (sc_signal cfg) c0 (rev (cs ++ [c])).
Proof.
  intros Hv Hmax P1 L1 P2 L2. unfold sto_init. rewrite Hv. cbn [negb]. cbv zeta.
  set (n := sc_period cfg) in *.
  assert (Hn : 2 <= n) by (unfold sto_validate in Hv; apply andb_prop in Hv; destruct Hv as (Hv & _); apply andb_prop in Hv;
                           destruct Hv as (Hv & _); apply Z.ltb_lt in Hv; fold n in Hv; lia).
  assert (Rn : 1 <= n <= pmax - 1) by lia.
  set (k0 := if feq (c_high c0) (c_low c0) then flit 1 2 else fdiv (fsub (c_close c0) (c_low c0)) (fsub (c_high c0) (c_low c0))).
  destruct (highest_correct n (c_high c0) [] (c_high c0) Rn) as (hi0 & Eh & _).
  destruct (lowest_correct n (c_low c0) [] (c_low c0) Rn) as (lo0 & El & _).
  destruct (ma_correct (sc_ma cfg) k0 [] k0 P1 L1) as (m1 & E1 & _).
  destruct (ma_correct (sc_signal cfg) k0 [] k0 P2 L2) as (m2 & E2 & _).
  rewrite Eh, El, E1, E2. cbn [obind]. eexists; split; [reflexivity|].
  pose proof (ma_correct' _ _ _ P1 L1 E1) as C1. pose proof (ma_correct' _ _ _ P2 L2 E2) as C2.
  assert (Ch : forall xs x, snd (highest_step (steps highest_step hi0 xs) x) = highest_def (Z.to_nat n) (hget (c_high c0) (rev (xs ++ [x])))).
  { intros xs x. destruct (highest_correct n (c_high c0) xs x Rn) as (h1 & Eh1 & H1). rewrite Eh in Eh1. injection Eh1 as <-. exact H1. }
  assert (Cl : forall xs x, snd (lowest_step (steps lowest_step lo0 xs) x) = lowest_def (Z.to_nat n) (hget (c_low c0) (rev (xs ++ [x])))).
  { intros xs x. destruct (lowest_correct n (c_low c0) xs x Rn) as (l1 & El1 & H1). rewrite El in El1. injection El1 as <-. exact H1. }
  set (s0 := mkSto cfg (fsub f1 (sc_zone cfg)) hi0 lo0 m1 m2 (f0, f0) f0 f0 f0 f0).
  assert (G : forall cs0 s, so_high (steps sto_next s cs0) = steps highest_step (so_high s) (map c_high cs0) /\
                            so_low (steps sto_next s cs0) = steps lowest_step (so_low s) (map c_low cs0)).
  { induction cs0 as [|k r IH]; intros s; [split; reflexivity|]. unfold steps in *. cbn [fold_left map].
    destruct (IH (fst (sto_next s k))) as (I1 & I2). rewrite I1, I2. unfold sto_next.
    destruct (highest_step (so_high s) (c_high k)), (lowest_step (so_low s) (c_low k)). dlet. split; reflexivity. }
  (* level 1: the raw %K fed to the first average *)
  set (raw := fun (s : sto_st (N := NumR)) (k : C) =>
     let highest := snd (highest_step (so_high s) (c_high k)) in let lowest := snd (lowest_step (so_low s) (c_low k)) in
     if feq highest lowest then flit 1 2 else fdiv (fsub (c_close k) lowest) (fsub highest lowest)).
  set (D1 := fun rcs : list C => sto_raw n c0 rcs).
  assert (HD1 : forall p k, raw (steps sto_next s0 p) k = D1 (rev (p ++ [k]))).
  { intros p k. destruct (G p s0) as (H1 & H2). unfold raw. cbv zeta. rewrite H1, H2. cbn [so_high so_low s0]. rewrite Ch, Cl.
    unfold D1, sto_raw. cbv zeta.
    assert (Eh' : map c_high (rev (p ++ [k])) = rev (map c_high p ++ [c_high k])) by (rewrite map_rev, map_app; reflexivity).
    assert (El' : map c_low (rev (p ++ [k])) = rev (map c_low p ++ [c_low k])) by (rewrite map_rev, map_app; reflexivity).
    rewrite Eh', El'. assert (Ec : hget c0 (rev (p ++ [k])) 0%nat = k) by (rewrite rev_unit; reflexivity). rewrite Ec.
    reflexivity. }
  assert (Hp1 : forall s k, so_ma1 (fst (sto_next s k)) = fst (ma_next (so_ma1 s) (raw s k))).
  { intros s k. unfold sto_next, raw. destruct (highest_step (so_high s) _), (lowest_step (so_low s) _). cbn [snd].
    destruct (ma_next (so_ma1 s) _). dlet. reflexivity. }
  pose proof (proj_steps sto_next ma_next so_ma1 raw Hp1) as S1.
  (* level 2: the %K line fed to the signal average *)
  set (kl := fun (s : sto_st (N := NumR)) (k : C) => snd (ma_next (so_ma1 s) (raw s k))).
  set (D2 := fun rcs : list C => ma_def (sc_ma cfg) k0 (series D1 rcs)).
  assert (HD2 : forall p k, kl (steps sto_next s0 p) k = D2 (rev (p ++ [k]))).
  { intros p k. unfold kl. rewrite S1. cbn [so_ma1 s0]. rewrite C1.
    rewrite (inputs_series_next sto_next raw D1 s0 HD1 p k). reflexivity. }
  assert (Hp2 : forall s k, so_ma2 (fst (sto_next s k)) = fst (ma_next (so_ma2 s) (kl s k))).
  { intros s k. unfold sto_next, kl, raw. destruct (highest_step (so_high s) _), (lowest_step (so_low s) _). cbn [snd].
    destruct (ma_next (so_ma1 s) _). cbn [snd]. destruct (ma_next (so_ma2 s) _). dlet. reflexivity. }
  pose proof (proj_steps sto_next ma_next so_ma2 kl Hp2 cs s0) as S2.
  assert (Hout : fst (snd (sto_next (steps sto_next s0 cs) c)) =
     [kl (steps sto_next s0 cs) c; snd (ma_next (so_ma2 (steps sto_next s0 cs)) (kl (steps sto_next s0 cs) c))]).
  { unfold sto_next at 1. unfold kl, raw. destruct (highest_step (so_high _) _), (lowest_step (so_low _) _). cbn [snd].
    destruct (ma_next (so_ma1 _) _). cbn [snd]. destruct (ma_next (so_ma2 _) _). dlet. reflexivity. }
  rewrite Hout, S2. cbn [so_ma2 s0]. rewrite C2.
  rewrite (inputs_series_next sto_next kl D2 s0 HD2 cs c). rewrite HD2.
  unfold sto_values. cbv zeta. fold k0. reflexivity.
Qed.

(** ---- RSI: average gain / (average gain + average loss) of the one-step changes of the source *)
Lemma diffs_series (x0 : R) (l : list R) :
  diffs x0 l = map (fun suf => fsub (hget x0 suf 0%nat) (hget x0 suf 1%nat)) (suffixes l).
Proof. induction l as [|x r IH]; [reflexivity|]. cbn [diffs suffixes map]. rewrite IH. reflexivity. Qed.

Theorem rsi_values_correct (cfg : rsi_cfg (N := NumR)) (c0 : C) cs c : rsi_validate cfg = true ->
  ma_proved (rc_ma cfg) = true -> ma_len_ok (rc_ma cfg) ->
  exists s0, rsi_init cfg c0 = Ok s0 /\
    fst (snd (rsi_next (steps rsi_next s0 cs) c)) = rsi_values (rc_ma cfg) (rc_source cfg) c0 (rev (cs ++ [c])).
Proof.
  intros Hv Pm Lm. unfold rsi_init. rewrite Hv. cbn [negb].
  set (f := fun k : C => c_source k (rc_source cfg)).
  destruct (ma_correct (rc_ma cfg) (f0 (N := NumR)) [] (f0 (N := NumR)) Pm Lm) as (m0 & Em & _). rewrite Em. cbn [obind]. cbv zeta.
  eexists; split; [reflexivity|].
  pose proof (ma_correct' _ _ _ Pm Lm Em) as Cm.
  set (s0 := mkRsi cfg (c_source c0 (rc_source cfg)) m0 m0 _ _).
  assert (Hcfg : forall p, rs_cfg (steps rsi_next s0 p) = cfg).
  { intros p. rewrite (steps_field rsi_next rs_cfg); [reflexivity|]. intros s k. unfold rsi_next. dlet. reflexivity. }
  assert (Hprev : forall p, rs_prev (steps rsi_next s0 p) = f (hget c0 (rev p) 0%nat)).
  { intros p. destruct p as [|a q _] using rev_ind; [reflexivity|]. rewrite steps_snoc, rev_unit. cbn [hget hcons].
    unfold rsi_next at 1. rewrite Hcfg. dlet. reflexivity. }
  set (ch := fun (s : rsi_st (N := NumR)) (k : C) => fsub (c_source k (rc_source (rs_cfg s))) (rs_prev s)).
  set (Dc := fun rcs : list C => fsub (f (hget c0 rcs 0%nat)) (f (hget c0 rcs 1%nat))).
  assert (Hch : forall p k, ch (steps rsi_next s0 p) k = Dc (rev (p ++ [k]))).
  { intros p k. unfold ch, Dc. rewrite Hcfg, Hprev, rev_unit. reflexivity. }
  set (ip := fun s k => fmax (ch s k) (f0 (N := NumR))). set (im := fun s k => fmin (ch s k) (f0 (N := NumR))).
  assert (Hpp : forall s k, rs_pos (fst (rsi_next s k)) = fst (ma_next (rs_pos s) (ip s k))).
  { intros s k. unfold rsi_next, ip, ch. destruct (ma_next (rs_pos s) _). dlet. reflexivity. }
  assert (Hpn : forall s k, rs_neg (fst (rsi_next s k)) = fst (ma_next (rs_neg s) (im s k))).
  { intros s k. unfold rsi_next, im, ch. destruct (ma_next (rs_pos s) _), (ma_next (rs_neg s) _). dlet. reflexivity. }
  pose proof (proj_steps rsi_next ma_next rs_pos ip Hpp cs s0) as Sp.
  pose proof (proj_steps rsi_next ma_next rs_neg im Hpn cs s0) as Sn.
  assert (HDp : forall p k, ip (steps rsi_next s0 p) k = (fun rcs => fmax (Dc rcs) f0) (rev (p ++ [k]))) by (intros; unfold ip; rewrite Hch; reflexivity).
  assert (HDn : forall p k, im (steps rsi_next s0 p) k = (fun rcs => fmin (Dc rcs) f0) (rev (p ++ [k]))) by (intros; unfold im; rewrite Hch; reflexivity).
  assert (Hout : fst (snd (rsi_next (steps rsi_next s0 cs) c)) =
     let pos := snd (ma_next (rs_pos (steps rsi_next s0 cs)) (ip (steps rsi_next s0 cs) c)) in
     let neg := fmul (snd (ma_next (rs_neg (steps rsi_next s0 cs)) (im (steps rsi_next s0 cs) c))) fm1 in
     [if fne (fadd pos neg) f0 then fdiv pos (fadd pos neg) else flit 1 2]).
  { unfold rsi_next at 1. unfold ip, im, ch. destruct (ma_next (rs_pos _) _), (ma_next (rs_neg _) _). cbn [snd]. dlet. reflexivity. }
  rewrite Hout. cbv zeta. rewrite Sp, Sn. cbn [rs_pos rs_neg s0]. rewrite !Cm.
  rewrite (inputs_series_next rsi_next ip _ s0 HDp cs c), (inputs_series_next rsi_next im _ s0 HDn cs c).
  unfold rsi_values. cbv zeta. rewrite diffs_series, !map_map. unfold srcs. rewrite suffixes_map, !map_map.
  assert (E1 : forall l : list (list C), map (fun x => fmax (fsub (hget (c_source c0 (rc_source cfg)) (map (fun c1 : C => c_source c1 (rc_source cfg)) x) 0%nat)
                  (hget (c_source c0 (rc_source cfg)) (map (fun c1 : C => c_source c1 (rc_source cfg)) x) 1%nat)) f0) l
            = map (fun rcs => fmax (Dc rcs) f0) l).
  { intros l. apply map_ext. intros a. unfold Dc, f. rewrite !(hget_map_gen (fun c1 : C => c_source c1 (rc_source cfg))). reflexivity. }
  assert (E2 : forall l : list (list C), map (fun x => fmin (fsub (hget (c_source c0 (rc_source cfg)) (map (fun c1 : C => c_source c1 (rc_source cfg)) x) 0%nat)
                  (hget (c_source c0 (rc_source cfg)) (map (fun c1 : C => c_source c1 (rc_source cfg)) x) 1%nat)) f0) l
            = map (fun rcs => fmin (Dc rcs) f0) l).
  { intros l. apply map_ext. intros a. unfold Dc, f. rewrite !(hget_map_gen (fun c1 : C => c_source c1 (rc_source cfg))). reflexivity. }
  rewrite E1, E2.
  set (P := ma_def (rc_ma cfg) f0 (map (fun rcs => fmax (Dc rcs) f0) (suffixes (rev (cs ++ [c]))))).
  set (Q := ma_def (rc_ma cfg) f0 (map (fun rcs => fmin (Dc rcs) f0) (suffixes (rev (cs ++ [c]))))).
  assert (En : fmul Q fm1 = fneg Q) by (unfold fm1; rsimp; ring). rewrite En. reflexivity.
Qed.

(** ---- CommodityChannelIndex: (price - SMA) / (1.5 * mean absolute deviation) *)
Theorem cci_indicator_values_correct period (zone : R) src (c0 : C) cs c : (0 <= zone)%R -> 1 < period < pmax ->
  exists s0, ccii_init period zone src c0 = Ok s0 /\
    fst (snd (ccii_next (steps ccii_next s0 cs) c)) = ccii_values period src c0 (rev (cs ++ [c])).
Proof.
  intros Hz Hp. unfold ccii_init.
  assert (Eg : fge zone (f0 (N := NumR)) = true) by (unfold fge; rsimp; destruct (Rleb_spec 0 zone); [reflexivity|lra]).
  rewrite Eg. destruct (Z.ltb_spec 1 period); [|lia]. destruct (Z.ltb_spec period pmax); [|lia]. cbn [andb negb].
  set (f := fun k : C => c_source k src).
  assert (Rn : 1 <= period <= pmax - 1) by lia.
  destruct (cci_correct period (f c0) [] (f c0) Rn) as (m0 & Em & _). unfold f in Em at 1. rewrite Em. cbn [obind].
  eexists; split; [reflexivity|].
  assert (Cc : forall xs x, snd (cci_next (steps cci_next m0 xs) x) = cci_def (Z.to_nat period) (hget (f c0) (rev (xs ++ [x])))).
  { intros xs x. destruct (cci_correct period (f c0) xs x Rn) as (m1 & E1 & H1). unfold f in E1 at 1. rewrite Em in E1. injection E1 as <-. exact H1. }
  set (s0 := mkCcii zone src m0 f0 0).
  assert (G : forall cs0 s, ci_source s = src ->
     ci_source (steps ccii_next s cs0) = src /\ ci_cci (steps ccii_next s cs0) = steps cci_next (ci_cci s) (map f cs0)).
  { induction cs0 as [|k r IH]; intros s Es; [split; [assumption|reflexivity]|]. unfold steps in *. cbn [fold_left map].
    assert (Es' : ci_source (fst (ccii_next s k)) = src) by (unfold ccii_next; dlet; exact Es).
    destruct (IH _ Es') as (I1 & I2). split; [exact I1|]. rewrite I2. f_equal.
    unfold ccii_next. rewrite Es. fold (f k). destruct (cci_next (ci_cci s) (f k)). reflexivity. }
  destruct (G cs s0 eq_refl) as (Hs & Hm).
  unfold ccii_next at 1. rewrite Hs, Hm. fold (f c). cbn [ci_cci s0]. pose proof (Cc (map f cs) (f c)) as Oc.
  destruct (cci_next (steps cci_next m0 (map f cs)) (f c)) as (m', raw). cbn [snd] in Oc. cbn [fst snd].
  unfold ccii_values. rewrite srcs_rev_snoc. rewrite Oc. unfold cci_scale, f. f_equal. rsimp. field.
Qed.
End IP5.
