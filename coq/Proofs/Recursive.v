(** C03: the recursive methods follow their documented recurrences over the
    whole stream (exact arithmetic, NumR); the history is the list of inputs,
    newest first. *)
From Yata Require Import Base.Prelude Base.Num Base.NumR Core.Window Core.WindowSpec Core.Candle
  Spec.Hist Spec.MethodDefs Methods.Basic Proofs.MethodsCommon.
From Coq Require Import Reals Lra.
Open Scope Z_scope.

Ltac by_invL init step :=
  let s0 := fresh "s0" in let Hnew := fresh "Hnew" in let Hinv := fresh "Hinv" in
  destruct init as (s0 & Hnew & Hinv); exists s0; split; [exact Hnew|];
  eapply (invL_correct _ _ _ step); exact Hinv.

Section Proofs.
Context {pw : PW}.
Local Notation "'R'" := (@F NumR) (only parsing).

(* ------------------------------------------------------------------ EMA *)
Definition ema_inv (a x0 : R) (s : ema (N := NumR)) (rh : list R) : Prop :=
  ema_alpha s = a /\ ema_value s = ema_rec a x0 rh.

Lemma ema_step a x0 s rh x : ema_inv a x0 s rh ->
  ema_inv a x0 (fst (ema_next s x)) (x :: rh) /\ snd (ema_next s x) = ema_rec a x0 (x :: rh).
Proof.
  intros (Ha & Hv). unfold ema_next. cbv zeta. cbn [fst snd ema_rec].
  assert (E : ffma (fsub x (ema_value s)) (ema_alpha s) (ema_value s) =
              fadd (fmul a x) (fmul (fsub f1 a) (ema_rec a x0 rh))).
  { rewrite Ha, Hv. rsimp. ring. }
  split; [split; [exact Ha|exact E]|exact E].
Qed.

Lemma ema_init n v : 1 <= n <= pmax - 1 ->
  exists s0, ema_new n v = Ok s0 /\ ema_inv (MethodDefs.ema_alpha n) v s0 [].
Proof. intros Hn. unfold ema_new. rewrite bad_len_false by lia.
  eexists; split; [reflexivity|]. split; reflexivity. Qed.

Theorem ema_correct n v xs x : 1 <= n <= pmax - 1 ->
  exists s0, ema_new n v = Ok s0 /\
    snd (ema_next (steps ema_next s0 xs) x) = ema_def n v (rev (xs ++ [x])).
Proof. intros Hn. by_invL (ema_init n v Hn) (ema_step (MethodDefs.ema_alpha n) v). Qed.

(* ----------------------------------------------------- DMA / TMA / DEMA / TEMA *)
Definition dma_inv (a x0 : R) (s : dma (N := NumR)) (rh : list R) : Prop :=
  ema_inv a x0 (dma_ema s) rh /\ ema_inv a x0 (dma_dma s) (ema_outs a x0 rh).

Lemma dma_step_gen a x0 s rh x : dma_inv a x0 s rh ->
  dma_inv a x0 (fst (dma_next s x)) (x :: rh) /\
  snd (dma_next s x) = ema_rec a x0 (ema_outs a x0 (x :: rh)).
Proof.
  intros (H1 & H2). unfold dma_next.
  destruct (ema_step a x0 _ rh x H1) as (H1' & E1).
  destruct (ema_next (dma_ema s) x) as [e y]. cbn [fst snd] in *. subst y.
  destruct (ema_step a x0 _ _ (ema_rec a x0 (x :: rh)) H2) as (H2' & E2).
  destruct (ema_next (dma_dma s) (ema_rec a x0 (x :: rh))) as [d z]. cbn [fst snd] in *. subst z.
  split; [split; [exact H1'|exact H2']|reflexivity].
Qed.

Lemma dma_init n v : 1 <= n <= pmax - 1 ->
  exists s0, dma_new n v = Ok s0 /\ dma_inv (MethodDefs.ema_alpha n) v s0 [].
Proof. intros Hn. unfold dma_new. destruct (Z.eqb_spec n 0); [lia|].
  destruct (ema_init n v Hn) as (e & He & Hi). rewrite He. cbn [obind].
  eexists; split; [reflexivity|]. split; exact Hi. Qed.

Theorem dma_correct n v xs x : 1 <= n <= pmax - 1 ->
  exists s0, dma_new n v = Ok s0 /\
    snd (dma_next (steps dma_next s0 xs) x) = dma_def n v (rev (xs ++ [x])).
Proof. intros Hn. by_invL (dma_init n v Hn) (dma_step_gen (MethodDefs.ema_alpha n) v). Qed.

Lemma dema_step a x0 s rh x : dma_inv a x0 s rh ->
  dma_inv a x0 (fst (dema_next s x)) (x :: rh) /\
  snd (dema_next s x) = fsub (fmul f2 (ema_rec a x0 (x :: rh))) (ema_rec a x0 (ema_outs a x0 (x :: rh))).
Proof.
  intros (H1 & H2). unfold dema_next.
  destruct (ema_step a x0 _ rh x H1) as (H1' & E1).
  destruct (ema_next (dma_ema s) x) as [e y]. cbn [fst snd] in *. subst y.
  destruct (ema_step a x0 _ _ (ema_rec a x0 (x :: rh)) H2) as (H2' & E2).
  destruct (ema_next (dma_dma s) (ema_rec a x0 (x :: rh))) as [d z]. cbn [fst snd] in *.
  split; [split; [exact H1'|exact H2']|].
  unfold dema_peek. cbn [dma_ema dma_dma]. destruct H1' as (_ & ->). destruct H2' as (_ & ->).
  cbn [ema_outs]. rsimp. ring.
Qed.

Theorem dema_correct n v xs x : 1 <= n <= pmax - 1 ->
  exists s0, dema_new n v = Ok s0 /\
    snd (dema_next (steps dema_next s0 xs) x) = dema_def n v (rev (xs ++ [x])).
Proof. intros Hn. by_invL (dma_init n v Hn) (dema_step (MethodDefs.ema_alpha n) v). Qed.

Definition tma_inv (a x0 : R) (s : tma (N := NumR)) (rh : list R) : Prop :=
  dma_inv a x0 (tma_dma s) rh /\ ema_inv a x0 (tma_tma s) (ema_outs a x0 (ema_outs a x0 rh)).

Lemma tma_step a x0 s rh x : tma_inv a x0 s rh ->
  tma_inv a x0 (fst (tma_next s x)) (x :: rh) /\
  snd (tma_next s x) = ema_rec a x0 (ema_outs a x0 (ema_outs a x0 (x :: rh))).
Proof.
  intros (H1 & H2). unfold tma_next.
  destruct (dma_step_gen a x0 _ rh x H1) as (H1' & E1).
  destruct (dma_next (tma_dma s) x) as [e y]. cbn [fst snd] in *. subst y.
  destruct (ema_step a x0 _ _ (ema_rec a x0 (ema_outs a x0 (x :: rh))) H2) as (H2' & E2).
  destruct (ema_next (tma_tma s) _) as [d z]. cbn [fst snd] in *. subst z.
  split; [split; [exact H1'|exact H2']|reflexivity].
Qed.

Lemma tma_init n v : 1 <= n <= pmax - 1 ->
  exists s0, tma_new n v = Ok s0 /\ tma_inv (MethodDefs.ema_alpha n) v s0 [].
Proof. intros Hn. unfold tma_new. destruct (Z.eqb_spec n 0); [lia|].
  destruct (dma_init n v Hn) as (d & Hd & Hi). rewrite Hd. cbn [obind].
  destruct (ema_init n v Hn) as (e & He & Hj). rewrite He. cbn [obind].
  eexists; split; [reflexivity|]. split; [exact Hi|exact Hj]. Qed.

Theorem tma_correct n v xs x : 1 <= n <= pmax - 1 ->
  exists s0, tma_new n v = Ok s0 /\
    snd (tma_next (steps tma_next s0 xs) x) = tma_def n v (rev (xs ++ [x])).
Proof. intros Hn. by_invL (tma_init n v Hn) (tma_step (MethodDefs.ema_alpha n) v). Qed.

Definition tema_inv (a x0 : R) (s : tema (N := NumR)) (rh : list R) : Prop :=
  ema_inv a x0 (tema_ema s) rh /\ ema_inv a x0 (tema_dma s) (ema_outs a x0 rh) /\
  ema_inv a x0 (tema_tma s) (ema_outs a x0 (ema_outs a x0 rh)).

Lemma tema_step a x0 s rh x : tema_inv a x0 s rh ->
  tema_inv a x0 (fst (tema_next s x)) (x :: rh) /\
  snd (tema_next s x) =
    fadd (fmul (fofZ 3) (fsub (ema_rec a x0 (x :: rh)) (ema_rec a x0 (ema_outs a x0 (x :: rh)))))
         (ema_rec a x0 (ema_outs a x0 (ema_outs a x0 (x :: rh)))).
Proof.
  intros (H1 & H2 & H3). unfold tema_next.
  destruct (ema_step a x0 _ rh x H1) as (H1' & E1).
  destruct (ema_next (tema_ema s) x) as [e y]. cbn [fst snd] in *. subst y.
  destruct (ema_step a x0 _ _ (ema_rec a x0 (x :: rh)) H2) as (H2' & E2).
  destruct (ema_next (tema_dma s) _) as [d z]. cbn [fst snd] in *. subst z.
  destruct (ema_step a x0 _ _ (ema_rec a x0 (ema_outs a x0 (x :: rh))) H3) as (H3' & E3).
  destruct (ema_next (tema_tma s) _) as [t u]. cbn [fst snd] in *.
  split; [split; [exact H1'|split; [exact H2'|exact H3']]|].
  unfold tema_peek. cbn [tema_ema tema_dma tema_tma].
  destruct H1' as (_ & ->). destruct H2' as (_ & ->). destruct H3' as (_ & ->).
  cbn [ema_outs]. rsimp. ring.
Qed.

Lemma tema_init n v : 1 <= n <= pmax - 1 ->
  exists s0, tema_new n v = Ok s0 /\ tema_inv (MethodDefs.ema_alpha n) v s0 [].
Proof. intros Hn. unfold tema_new. destruct (Z.eqb_spec n 0); [lia|].
  destruct (ema_init n v Hn) as (e & He & Hj). rewrite He. cbn [obind].
  eexists; split; [reflexivity|]. split; [exact Hj|split; exact Hj]. Qed.

Theorem tema_correct n v xs x : 1 <= n <= pmax - 1 ->
  exists s0, tema_new n v = Ok s0 /\
    snd (tema_next (steps tema_next s0 xs) x) = tema_def n v (rev (xs ++ [x])).
Proof. intros Hn. by_invL (tema_init n v Hn) (tema_step (MethodDefs.ema_alpha n) v). Qed.

(* ------------------------------------------------------------ RMA, WSMA *)
Definition rma_inv (a x0 : R) (s : rma (N := NumR)) (rh : list R) : Prop :=
  rma_alpha s = a /\ rma_alpha_rev s = (1 - a)%R /\ rma_prev s = ema_rec a x0 rh.

Lemma rma_step a x0 s rh x : rma_inv a x0 s rh ->
  rma_inv a x0 (fst (rma_next s x)) (x :: rh) /\ snd (rma_next s x) = ema_rec a x0 (x :: rh).
Proof.
  intros (Ha & Hr & Hv). unfold rma_next. cbv zeta. cbn [fst snd ema_rec].
  assert (E : ffma (rma_alpha s) x (fmul (rma_alpha_rev s) (rma_prev s)) =
              fadd (fmul a x) (fmul (fsub f1 a) (ema_rec a x0 rh))).
  { rewrite Ha, Hr, Hv. rsimp. ring. }
  split; [split; [exact Ha|split; [exact Hr|exact E]]|exact E].
Qed.

Lemma rma_init n v : 1 <= n <= pmax ->
  exists s0, rma_new n v = Ok s0 /\ rma_inv (MethodDefs.rma_alpha n) v s0 [].
Proof. intros Hn. unfold rma_new. destruct (Z.eqb_spec n 0); [lia|].
  eexists; split; [reflexivity|]. repeat split. Qed.

Theorem rma_correct n v xs x : 1 <= n <= pmax ->
  exists s0, rma_new n v = Ok s0 /\
    snd (rma_next (steps rma_next s0 xs) x) = rma_def n v (rev (xs ++ [x])).
Proof. intros Hn. by_invL (rma_init n v Hn) (rma_step (MethodDefs.rma_alpha n) v). Qed.

(** WSMA(n) is the EMA of length 2n-1, whose smoothing factor is 1/n *)
Lemma wsma_alpha n : 1 <= n -> MethodDefs.ema_alpha (N := NumR) (n * 2 - 1) = MethodDefs.rma_alpha n.
Proof. intros Hn. unfold MethodDefs.ema_alpha, MethodDefs.rma_alpha. rsimp.
  replace (n * 2 - 1 + 1) with (2 * n) by lia. rewrite mult_IZR.
  assert (IZR n <> 0%R) by (apply not_0_IZR; lia). field. assumption. Qed.

Hypothesis pmax_odd : pmax / 2 * 2 + 1 = pmax.   (* PeriodType::MAX = 2^W - 1 *)
Theorem wsma_correct n v xs x : 1 <= n <= pmax / 2 ->
  exists s0, wsma_new n v = Ok s0 /\
    snd (wsma_next (steps wsma_next s0 xs) x) = wsma_def n v (rev (xs ++ [x])).
Proof.
  intros Hn. unfold wsma_new. destruct (Z.eqb_spec n 0); [lia|].
  destruct (Z.ltb_spec (pmax / 2) n); [lia|]. cbn [orb].
  assert (Hn' : 1 <= n * 2 - 1 <= pmax - 1) by lia.
  unfold wsma_def, rma_def. rewrite <- (wsma_alpha n) by lia.
  by_invL (ema_init (n * 2 - 1) v Hn') (ema_step (MethodDefs.ema_alpha (n * 2 - 1)) v).
Qed.

(* ------------------------------------------------- TR, Heikin-Ashi, cumulative *)
Theorem tr_correct (c0 : candle (N := NumR)) cs c :
  snd (tr_next (steps tr_next (tr_new c0) cs) c) = tr_def (hget c0 (rev (cs ++ [c]))).
Proof.
  pose (Inv := fun (s : R) (h : nat -> candle (N := NumR)) => s = c_close (h O)).
  assert (Hs : forall s h x, Inv s h -> Inv (fst (tr_next s x)) (hcons x h) /\ snd (tr_next s x) = tr_def (hcons x h)).
  { intros s h x Hi. unfold Inv in *. subst s. split; reflexivity. }
  apply (inv_correct tr_next Inv tr_def Hs (tr_new c0) c0 cs c). reflexivity.
Qed.

Theorem ha_correct (c0 : candle (N := NumR)) cs c :
  snd (ha_next (steps ha_next (ha_new c0) cs) c) = ha_def c0 (rev cs) c.
Proof.
  pose (Inv := fun (s : R) (rh : list (candle (N := NumR))) => s = ha_open c0 rh).
  assert (Hs : forall s rh x, Inv s rh -> Inv (fst (ha_next s x)) (x :: rh) /\
             snd (ha_next s x) = ha_def c0 (tl (x :: rh)) x).
  { intros s rh x Hi. unfold Inv in *. subst s. split; reflexivity. }
  destruct (invL_correct ha_next Inv (fun l => match l with [] => c0 | x :: r => ha_def c0 r x end)
              (fun s rh x Hi => Hs s rh x Hi) (ha_new c0) cs c eq_refl) as (E & _).
  rewrite E, rev_unit. reflexivity.
Qed.

(** windowless Integral: the running total of everything seen (seeded with 0 = v * 0) *)
Theorem integral0_correct v xs x : 2 <= pmax ->
  exists s0, integral_new 0 v = Ok s0 /\
    snd (integral_next (steps integral_next s0 xs) x) = cumsum (rev (xs ++ [x])).
Proof.
  intros Hp. unfold integral_new. destruct (Z.eqb_spec 0 pmax); [lia|].
  eexists; split; [reflexivity|].
  pose (Inv := fun (s : integral (N := NumR)) (rh : list R) =>
                 w_is_empty (in_window s) = true /\ in_value s = cumsum rh).
  assert (Hs : forall s rh y, Inv s rh -> Inv (fst (integral_next s y)) (y :: rh) /\
             snd (integral_next s y) = cumsum (y :: rh)).
  { intros s rh y (He & Hv). unfold integral_next. cbv zeta. rewrite He. cbn [fst snd in_window in_value cumsum].
    rewrite Hv. repeat split; auto. }
  apply (invL_correct integral_next Inv cumsum Hs). split.
  - cbn [in_window]. unfold w_new_t, w_new. destruct (Z.leb_spec 0 (pmax - 1)); [reflexivity|lia].
  - cbn [in_value cumsum]. rsimp. ring.
Qed.
End Proofs.
