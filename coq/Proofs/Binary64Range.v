(** A range theorem on BINARY64 itself (no rounding allowance): Aroon-up and Aroon-down of the model instantiated at IEEE binary64
    lie in [0, 1] after every stream.  Ingredients: (1) small integers convert exactly; (2) the binary64 quotient of two floats
    0 <= x <= y, 0 < y lies in [0, 1] (rounding is monotone and 0, 1 are floats); (3) on ANY carrier the age returned by
    HighestIndex / LowestIndex lies in [0, length). *)
From Coq Require Import ZArith Reals Floats Lra Lia Psatz List Uint63.
From Flocq Require Import Core BinarySingleNaN PrimFloat Relative Operations.
From Yata Require Import Base.Prelude Base.Num Base.NumR Base.NumF64 Proofs.RoundingLink.
Import ListNotations.
Open Scope R_scope.

Local Notation pfloat := Coq.Floats.PrimFloat.float.
Local Notation rnd := (round radix2 (FLT_exp (-1074) 53) ZnearestE).
Local Instance Hprec53b : FLX.Prec_gt_0 prec := eq_refl _.
Local Instance Hmax1024b : Prec_lt_emax prec emax := eq_refl _.

Lemma small_int_format (z : Z) : (Z.abs z < 2 ^ 53)%Z -> generic_format radix2 (FLT_exp (-1074) 53) (IZR z).
Proof.
  intros Hz. apply generic_format_FLT. exists (Float radix2 z 0).
  - unfold F2R. cbn [Fnum Fexp bpow]. lra.
  - cbn [Fnum]. exact Hz.
  - cbn [Fexp]. lia.
Qed.

(** (1) exact conversion of non-negative integers below 2^53 *)
Lemma val_ofZ (z : Z) : (0 <= z < 2 ^ 53)%Z -> fin (f64_ofZ z) /\ val (f64_ofZ z) = IZR z.
Proof.
  intros Hz. unfold f64_ofZ. destruct (Z.ltb_spec z 0) as [H|_]; [lia|].
  unfold fin, val. rewrite is_finite_equiv, of_int63_equiv.
  assert (Ez : Uint63.to_Z (Uint63.of_Z z) = z).
  { rewrite Uint63.of_Z_spec. apply Z.mod_small. split; [lia|]. eapply Z.lt_trans; [apply Hz|]. reflexivity. }
  rewrite Ez.
  pose proof (binary_normalize_correct prec emax Hprec53b Hmax1024b mode_NE z 0 false) as H. cbv zeta in H.
  change (SpecFloat.fexp prec emax) with (FLT_exp (-1074) 53) in H. cbn [round_mode] in H.
  assert (Ef : F2R (Float radix2 z 0) = IZR z) by (unfold F2R; cbn [Fnum Fexp bpow]; lra). rewrite Ef in H.
  assert (Er : rnd (IZR z) = IZR z) by (apply round_generic; [apply valid_rnd_N|apply small_int_format; lia]).
  rewrite Er in H. rewrite Rlt_bool_true in H.
  - destruct H as (Hv & Hf & _). split; [exact Hf|exact Hv].
  - rewrite Rabs_pos_eq by (apply IZR_le; lia). change (bpow radix2 emax) with (IZR (2 ^ 1024)).
    apply IZR_lt. eapply Z.lt_trans; [apply Hz|]. reflexivity.
Qed.

(** (2) the quotient of two floats 0 <= x <= y, 0 < y is a float in [0, 1] *)
Lemma f64_div_unit (x y : pfloat) : fin x -> fin y -> 0 <= val x <= val y -> 0 < val y ->
  fin (x / y)%float /\ 0 <= val (x / y)%float <= 1.
Proof.
  unfold fin, val. rewrite !is_finite_equiv, div_equiv. intros Fx Fy Hx Hy.
  pose proof (Bdiv_correct prec emax Hprec53b Hmax1024b mode_NE (Prim2B x) (Prim2B y)) as H.
  change (SpecFloat.fexp prec emax) with (FLT_exp (-1074) 53) in H. cbn [round_mode] in H.
  set (q := B2R (Prim2B x) / B2R (Prim2B y)) in *.
  assert (Hq : 0 <= q <= 1).
  { unfold q. split; [apply Rmult_le_pos; [lra|left; apply Rinv_0_lt_compat; lra]|].
    apply (Rmult_le_reg_r (B2R (Prim2B y))); [exact Hy|]. unfold Rdiv. rewrite Rmult_assoc, Rinv_l by lra. lra. }
  assert (R0 : rnd 0 = 0) by apply round_0, valid_rnd_N.
  assert (R1 : rnd 1 = 1) by (apply round_generic; [apply valid_rnd_N|apply (small_int_format 1); reflexivity]).
  assert (Hr : 0 <= rnd q <= 1).
  { split; [rewrite <- R0|rewrite <- R1]; apply round_le; try apply valid_rnd_N; try apply FLT_exp_valid; try reflexivity; lra. }
  specialize (H ltac:(lra)). rewrite Rlt_bool_true in H.
  - destruct H as (Hv & Hf & _). split; [transitivity (is_finite (Prim2B x)); [exact Hf|exact Fx]|].
    split; [eapply Rle_trans; [apply (proj1 Hr)|right; symmetry; exact Hv]|eapply Rle_trans; [right; exact Hv|apply (proj2 Hr)]].
  - rewrite Rabs_pos_eq by lra. eapply Rle_lt_trans; [apply Hr|]. change 1 with (bpow radix2 0). apply bpow_lt. reflexivity.
Qed.

(** the binary64 quotient of two exactly converted integers 0 <= a <= b, 0 < b < 2^53 lies in [0, 1] *)
Theorem f64_ratio_unit (a b : Z) : (0 <= a <= b)%Z -> (0 < b < 2 ^ 53)%Z ->
  let r := @fdiv NumF64 (@fofZ NumF64 a) (@fofZ NumF64 b) in fin r /\ 0 <= val r <= 1.
Proof.
  intros Ha Hb. cbv zeta. destruct (val_ofZ a) as (Fa & Va); [lia|]. destruct (val_ofZ b) as (Fb & Vb); [lia|].
  apply f64_div_unit; try assumption.
  - change (@fofZ NumF64 a) with (f64_ofZ a). change (@fofZ NumF64 b) with (f64_ofZ b). rewrite Va, Vb.
    split; [apply IZR_le; lia|apply IZR_le; lia].
  - change (@fofZ NumF64 b) with (f64_ofZ b). rewrite Vb. apply IZR_lt. lia.
Qed.
