(** C06 continued: WoodiesCCI.  The signal is driven by a bar counter: the counter restarts at +-1 when the trend CCI crosses zero
    (definitional crossing of the series of returned trend values against 0, C14) and otherwise moves by the sign of the trend
    value; the signal fires exactly when the counter reaches +-s1_lag.  Proved for streams of every length: the counter held by
    the instance IS that function of the values returned so far. *)
From Yata Require Import Base.Prelude Base.Num Base.NumR Core.Window Core.Candle Core.Action
  Spec.Hist Methods.Basic Methods.Select Indicators.Common Indicators.Set3 Indicators.Set4
  Proofs.MethodsCommon Proofs.Detectors Proofs.SignalProofs Proofs.SignalProofs2 Proofs.Cascade Proofs.SignalProofs3.
From Coq Require Import Reals Lra Lia.
Open Scope Z_scope.

Section Woodies.
Context {pw : PW}.
Local Notation R := (@F NumR).
Local Notation C := (candle (N := NumR)).
Local Notation IR := (iresult (N := NumR)).

Definition v1_zero (r : IR) : R * R := (vals r 1, f0).
Ltac dlete := repeat match goal with |- context [let '(_, _) := ?e in _] => let E := fresh "E" in destruct e eqn:E end.

Lemma wcci_shape (s : wcci_st (N := NumR)) k : let r := snd (wcci_next s k) in
  let x := a_analog (snd (cross_next (wc_cross s) (v1_zero r))) in
  let count := if x =? 0 then wc_count s + (b2z (fgt (vals r 1) f0) - b2z (flt (vals r 1) f0)) else x in
  wc_cross (fst (wcci_next s k)) = fst (cross_next (wc_cross s) (v1_zero r)) /\
  wc_count (fst (wcci_next s k)) = count /\ wc_lag (fst (wcci_next s k)) = wc_lag s /\
  sigs r = [a_from_i8 (b2z (Z.abs count =? wc_lag s) * Z.sgn count)].
Proof.
  cbv zeta. unfold wcci_next. destruct (cci_next (wc_turbo s) _) as (a, t0). destruct (cci_next (wc_trend s) _) as (b, r0).
  cbv zeta. unfold v1_zero, vals, sigs. cbn [fst snd nth].
  destruct (cross_next (wc_cross s) (fmul r0 cci_scale, f0)) as (c, cr) eqn:E. cbn [fst snd wc_cross wc_count wc_lag nth]. rewrite E. cbn [fst snd]. repeat split.
Qed.

Variable s0 : wcci_st (N := NumR).
Hypothesis H0 : wc_cross s0 = (f0, f0).

(** the crossing of the returned trend values against zero, at the step that consumes [k] after the stream [cs] *)
Definition wcci_cross (cs : list C) (k : C) : Z := a_analog (cross_def (pair_hist wcci_next s0 cs k (f0, f0) v1_zero)).
Definition wcci_trend (cs : list C) (k : C) : R := vals (snd (wcci_next (steps wcci_next s0 cs) k)) 1.
(** the bar counter as a function of the history (rcs: candles newest first) *)
Fixpoint wcci_count (rcs : list C) : Z :=
  match rcs with
  | [] => wc_count s0
  | k :: q =>
    let x := wcci_cross (rev q) k in let t := wcci_trend (rev q) k in
    if x =? 0 then wcci_count q + (b2z (fgt t f0) - b2z (flt t f0)) else x
  end.

Lemma wcci_cross_output cs k :
  snd (cross_next (wc_cross (steps wcci_next s0 cs)) (v1_zero (snd (wcci_next (steps wcci_next s0 cs) k)))) =
  cross_def (pair_hist wcci_next s0 cs k (f0, f0) v1_zero).
Proof.
  unfold pair_hist. rewrite <- (det_output wcci_next cross_next cross_def wc_cross v1_zero TrueS);
    [reflexivity | intros; exact I | intros s c _; apply wcci_shape | exact I | intros ps p; rewrite H0; apply cross_default_correct].
Qed.

Lemma wcci_state cs : wc_count (steps wcci_next s0 cs) = wcci_count (rev cs) /\ wc_lag (steps wcci_next s0 cs) = wc_lag s0.
Proof.
  induction cs as [|k cs IH] using rev_ind; [split; reflexivity|]. destruct IH as (IH1 & IH2).
  rewrite steps_snoc, rev_unit. destruct (wcci_shape (steps wcci_next s0 cs) k) as (_ & Hc & Hl & _). cbv zeta in Hc.
  rewrite Hc, Hl, wcci_cross_output, IH1, IH2. cbn [wcci_count]. rewrite rev_involutive. split; reflexivity.
Qed.

Theorem wcci_signal_correct cs k :
  sigs (snd (wcci_next (steps wcci_next s0 cs) k)) =
  let c := wcci_count (k :: rev cs) in [a_from_i8 (b2z (Z.abs c =? wc_lag s0) * Z.sgn c)].
Proof.
  destruct (wcci_shape (steps wcci_next s0 cs) k) as (_ & _ & _ & Hs). cbv zeta in Hs. rewrite Hs, wcci_cross_output.
  destruct (wcci_state cs) as (E1 & E2). rewrite E1, E2. cbn [wcci_count]. rewrite rev_involutive. reflexivity.
Qed.
End Woodies.
