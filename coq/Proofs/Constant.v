(** C08: constant input gives constant output.  For the MA constructor (all 15 kinds) this is the affine law with slope 0;
    lifted to the running instances, and to indicators whose value theorem is a composition of averages. *)
From Yata Require Import Base.Prelude Base.Num Base.NumR Core.Window Core.WindowSpec Core.Candle Core.Action Core.Strings
  Spec.Hist Spec.MethodDefs Spec.IndicatorDefs Methods.Basic Indicators.Common Indicators.Set1 Indicators.Set3
  Proofs.MethodsCommon Proofs.Averages Proofs.MAProofs Proofs.Averages5 Proofs.IndicatorProofs3 Proofs.IndicatorProofs11.
From Coq Require Import Reals Lra Lia.
Open Scope R_scope.

Section Const.
Context {pw : PW}.
Local Notation R := (@F NumR).
Local Notation C := (candle (N := NumR)).

(** every averaging kind: a history of k copies of b, seeded with b, averages to b *)
Theorem ma_def_constant (c : ma_cfg) (b : R) k : ma_len_ok c -> ma_def c b (repeat b k) = b.
Proof.
  intros Hl. pose proof (ma_def_affine_all c 0 b 0 (repeat 0 k) Hl) as H.
  assert (E0 : aff 0 b 0 = b) by (unfold aff; lra).
  assert (E : map (aff 0 b) (repeat 0 k) = repeat b k).
  { clear. induction k as [|k IH]; [reflexivity|]. cbn [repeat map]. rewrite IH. f_equal. unfold aff. lra. }
  rewrite E0, E in H. rewrite H. unfold aff. lra.
Qed.

(** ... and so does the running instance built by the MA constructor, after any number of steps *)
Theorem ma_method_constant (c : ma_cfg) (b : R) k : ma_len_ok c ->
  exists s0, ma_init c b = Ok s0 /\ snd (ma_next (steps ma_next s0 (repeat b k)) b) = b.
Proof.
  intros Hl. destruct (ma_correct c b (repeat b k) b (ma_proved_all c) Hl) as (s0 & E & H). exists s0. split; [exact E|].
  rewrite H. replace (rev (repeat b k ++ [b])) with (repeat b (S k)).
  - apply ma_def_constant. exact Hl.
  - rewrite rev_unit. cbn [repeat]. f_equal. clear. induction k as [|k IH]; [reflexivity|]. cbn [repeat rev]. rewrite <- IH.
    clear IH. induction k as [|k IH]; [reflexivity|]. cbn [repeat app]. rewrite <- IH. reflexivity.
Qed.

(** Envelopes on a constant candle: the bands are constant, at v(1 + k) and v(1 - k) around the constant source *)
Lemma srcs_repeat src (c0 : C) k : srcs src (repeat c0 k) = repeat (c_source c0 src) k.
Proof. unfold srcs. induction k as [|k IH]; [reflexivity|]. cbn [repeat map]. rewrite IH. reflexivity. Qed.
Lemma rev_repeat {A} (x : A) k : rev (repeat x k) = repeat x k.
Proof.
  induction k as [|k IH]; [reflexivity|]. cbn [repeat rev]. rewrite IH. clear IH.
  induction k as [|k IH]; [reflexivity|]. cbn [repeat app]. rewrite IH. reflexivity.
Qed.
Theorem envelopes_constant (cfg : env_cfg (N := NumR)) (c0 : C) k : env_validate cfg = true -> ma_len_ok (ec_ma cfg) ->
  exists s0, env_init cfg c0 = Ok s0 /\
    fst (snd (env_next (steps env_next s0 (repeat c0 k)) c0)) =
    let v := c_source c0 (ec_source cfg) in [fmul v (fadd f1 (ec_k cfg)); fmul v (fsub f1 (ec_k cfg)); c_source c0 (ec_source2 cfg)].
Proof.
  intros Hv Hl. destruct (envelopes_values_correct cfg c0 (repeat c0 k) c0 Hv (ma_proved_all _) Hl) as (s0 & E & H).
  exists s0. split; [exact E|]. rewrite H. unfold env_values. cbv zeta.
  replace (rev (repeat c0 k ++ [c0])) with (repeat c0 (S k)) by (rewrite rev_unit, rev_repeat; reflexivity).
  rewrite !srcs_repeat, ma_def_constant by exact Hl. reflexivity.
Qed.

Lemma suffixes_repeat {A} (x : A) k : forall l, In l (suffixes (repeat x k)) -> exists j, l = repeat x j.
Proof.
  induction k as [|k IH]; intros l Hl; [destruct Hl|]. cbn [repeat suffixes] in Hl. destruct Hl as [<-|Hl].
  - exists (S k). reflexivity.
  - apply IH. exact Hl.
Qed.
Lemma series_repeat {A} (f : list A -> R) (x : A) (y : R) k : (forall j, f (repeat x j) = y) -> series f (repeat x k) = repeat y k.
Proof.
  intros Hf. unfold series. induction k as [|k IH]; [reflexivity|]. cbn [repeat suffixes map]. rewrite IH. f_equal. apply (Hf (S k)).
Qed.

(** MACD on a constant candle: both lines are 0 for ever, for every choice of the three averaging kinds *)
Theorem macd_constant (cfg : macd_cfg) (c0 : C) k : macd_validate cfg = true ->
  ma_len_ok (mc_ma1 cfg) -> ma_len_ok (mc_ma2 cfg) -> ma_len_ok (mc_signal cfg) ->
  exists s0, macd_init (N := NumR) cfg c0 = Ok s0 /\
    fst (snd (macd_next (steps macd_next s0 (repeat c0 k)) c0)) = [0; 0].
Proof.
  intros Hv L1 L2 L3.
  destruct (macd_values_correct cfg c0 (repeat c0 k) c0 Hv (ma_proved_all _) L1 (ma_proved_all _) L2 (ma_proved_all _) L3) as (s0 & E & H).
  exists s0. split; [exact E|]. rewrite H. unfold macd_values. cbv zeta.
  replace (rev (repeat c0 k ++ [c0])) with (repeat c0 (S k)) by (rewrite rev_unit, rev_repeat; reflexivity).
  rewrite srcs_repeat. set (v := c_source c0 (mc_source cfg)).
  assert (Hl : forall j, macd_line (mc_ma1 cfg) (mc_ma2 cfg) v (repeat v j) = 0).
  { intros j. unfold macd_line. rewrite !ma_def_constant by assumption. rsimp. lra. }
  rewrite (Hl (S k)), (series_repeat _ v 0 (S k) Hl).
  change (f0 (N := NumR)) with (0 : R). rewrite (ma_def_constant (mc_signal cfg) 0 (S k) L3). reflexivity.
Qed.
End Const.
