(** C08: constant input gives constant output.  For the MA constructor (all 15 kinds) this is the affine law with slope 0;
    lifted to the running instances, and to indicators whose value theorem is a composition of averages. *)
From Yata Require Import Base.Prelude Base.Num Base.NumR Core.Window Core.WindowSpec Core.Candle Core.Action Core.Strings
  Spec.Hist Spec.MethodDefs Spec.IndicatorDefs Methods.Basic Indicators.Common Indicators.Set1 Indicators.Set3
  Proofs.MethodsCommon Proofs.Averages Indicators.Set2 Proofs.MAProofs Proofs.Averages5 Proofs.IndicatorProofs3 Proofs.IndicatorProofs4 Proofs.IndicatorProofs5 Proofs.IndicatorProofs7 Proofs.IndicatorProofs11.
From Coq Require Import Reals Lra Lia.
Open Scope R_scope.

Section Const.
Context {pw : PW}.
Local Notation R := (@F NumR).
Local Notation C := (candle (N := NumR)).

(** every averaging kind: a history of k copies of b, seeded with b, averages to b *)
Theorem ma_def_constant (c : ma_cfg) (b : R) k : ma_len_ok c -> ma_def c b (repeat b k) = b.
Proof.
  intros Hl. pose proof (ma_def_affine_all c 0 b 0 (repeat 0 k) Hl) as H.
  assert (E0 : aff 0 b 0 = b) by (unfold aff; lra).
  assert (E : map (aff 0 b) (repeat 0 k) = repeat b k).
  { clear. induction k as [|k IH]; [reflexivity|]. cbn [repeat map]. rewrite IH. f_equal. unfold aff. lra. }
  rewrite E0, E in H. rewrite H. unfold aff. lra.
Qed.

(** ... and so does the running instance built by the MA constructor, after any number of steps *)
Theorem ma_method_constant (c : ma_cfg) (b : R) k : ma_len_ok c ->
  exists s0, ma_init c b = Ok s0 /\ snd (ma_next (steps ma_next s0 (repeat b k)) b) = b.
Proof.
  intros Hl. destruct (ma_correct c b (repeat b k) b (ma_proved_all c) Hl) as (s0 & E & H). exists s0. split; [exact E|].
  rewrite H. replace (rev (repeat b k ++ [b])) with (repeat b (S k)).
  - apply ma_def_constant. exact Hl.
  - rewrite rev_unit. cbn [repeat]. f_equal. clear. induction k as [|k IH]; [reflexivity|]. cbn [repeat rev]. rewrite <- IH.
    clear IH. induction k as [|k IH]; [reflexivity|]. cbn [repeat app]. rewrite <- IH. reflexivity.
Qed.

(** Envelopes on a constant candle: the bands are constant, at v(1 + k) and v(1 - k) around the constant source *)
Lemma srcs_repeat src (c0 : C) k : srcs src (repeat c0 k) = repeat (c_source c0 src) k.
Proof. unfold srcs. induction k as [|k IH]; [reflexivity|]. cbn [repeat map]. rewrite IH. reflexivity. Qed.
Lemma rev_repeat {A} (x : A) k : rev (repeat x k) = repeat x k.
Proof.
  induction k as [|k IH]; [reflexivity|]. cbn [repeat rev]. rewrite IH. clear IH.
  induction k as [|k IH]; [reflexivity|]. cbn [repeat app]. rewrite IH. reflexivity.
Qed.
Theorem envelopes_constant (cfg : env_cfg (N := NumR)) (c0 : C) k : env_validate cfg = true -> ma_len_ok (ec_ma cfg) ->
  exists s0, env_init cfg c0 = Ok s0 /\
    fst (snd (env_next (steps env_next s0 (repeat c0 k)) c0)) =
    let v := c_source c0 (ec_source cfg) in [fmul v (fadd f1 (ec_k cfg)); fmul v (fsub f1 (ec_k cfg)); c_source c0 (ec_source2 cfg)].
Proof.
  intros Hv Hl. destruct (envelopes_values_correct cfg c0 (repeat c0 k) c0 Hv (ma_proved_all _) Hl) as (s0 & E & H).
  exists s0. split; [exact E|]. rewrite H. unfold env_values. cbv zeta.
  replace (rev (repeat c0 k ++ [c0])) with (repeat c0 (S k)) by (rewrite rev_unit, rev_repeat; reflexivity).
  rewrite !srcs_repeat, ma_def_constant by exact Hl. reflexivity.
Qed.

Lemma suffixes_repeat {A} (x : A) k : forall l, In l (suffixes (repeat x k)) -> exists j, l = repeat x j.
Proof.
  induction k as [|k IH]; intros l Hl; [destruct Hl|]. cbn [repeat suffixes] in Hl. destruct Hl as [<-|Hl].
  - exists (S k). reflexivity.
  - apply IH. exact Hl.
Qed.
Lemma series_repeat {A} (f : list A -> R) (x : A) (y : R) k : (forall j, f (repeat x j) = y) -> series f (repeat x k) = repeat y k.
Proof.
  intros Hf. unfold series. induction k as [|k IH]; [reflexivity|]. cbn [repeat suffixes map]. rewrite IH. f_equal. apply (Hf (S k)).
Qed.

(** MACD on a constant candle: both lines are 0 for ever, for every choice of the three averaging kinds *)
Theorem macd_constant (cfg : macd_cfg) (c0 : C) k : macd_validate cfg = true ->
  ma_len_ok (mc_ma1 cfg) -> ma_len_ok (mc_ma2 cfg) -> ma_len_ok (mc_signal cfg) ->
  exists s0, macd_init (N := NumR) cfg c0 = Ok s0 /\
    fst (snd (macd_next (steps macd_next s0 (repeat c0 k)) c0)) = [0; 0].
Proof.
  intros Hv L1 L2 L3.
  destruct (macd_values_correct cfg c0 (repeat c0 k) c0 Hv (ma_proved_all _) L1 (ma_proved_all _) L2 (ma_proved_all _) L3) as (s0 & E & H).
  exists s0. split; [exact E|]. rewrite H. unfold macd_values. cbv zeta.
  replace (rev (repeat c0 k ++ [c0])) with (repeat c0 (S k)) by (rewrite rev_unit, rev_repeat; reflexivity).
  rewrite srcs_repeat. set (v := c_source c0 (mc_source cfg)).
  assert (Hl : forall j, macd_line (mc_ma1 cfg) (mc_ma2 cfg) v (repeat v j) = 0).
  { intros j. unfold macd_line. rewrite !ma_def_constant by assumption. rsimp. lra. }
  rewrite (Hl (S k)), (series_repeat _ v 0 (S k) Hl).
  change (f0 (N := NumR)) with (0 : R). rewrite (ma_def_constant (mc_signal cfg) 0 (S k) L3). reflexivity.
Qed.

Lemma hget_repeat {A} (x : A) k i : hget x (repeat x k) i = x.
Proof. revert i. induction k as [|k IH]; intros i; [reflexivity|]. destruct i as [|i]; [reflexivity|]. cbn [repeat]. apply (IH i). Qed.
Lemma diffs_repeat (v : R) k : diffs v (repeat v k) = repeat 0 k.
Proof.
  induction k as [|k IH]; [reflexivity|]. cbn [repeat diffs]. rewrite IH. f_equal. rewrite hget_repeat. rsimp. lra.
Qed.
Lemma map_repeat {A B} (f : A -> B) x k : map f (repeat x k) = repeat (f x) k.
Proof. induction k as [|k IH]; [reflexivity|]. cbn [repeat map]. rewrite IH. reflexivity. Qed.

(** RelativeStrengthIndex on a constant candle: exactly the neutral value 1/2 for ever, for every averaging kind *)
Theorem rsi_constant (cfg : rsi_cfg (N := NumR)) (c0 : C) k : rsi_validate cfg = true -> ma_len_ok (rc_ma cfg) ->
  exists s0, rsi_init cfg c0 = Ok s0 /\ fst (snd (rsi_next (steps rsi_next s0 (repeat c0 k)) c0)) = [flit 1 2].
Proof.
  intros Hv Hl. destruct (rsi_values_correct cfg c0 (repeat c0 k) c0 Hv (ma_proved_all _) Hl) as (s0 & E & H).
  exists s0. split; [exact E|]. rewrite H. unfold rsi_values. cbv zeta.
  replace (rev (repeat c0 k ++ [c0])) with (repeat c0 (S k)) by (rewrite rev_unit, rev_repeat; reflexivity).
  rewrite srcs_repeat, diffs_repeat, !map_repeat.
  assert (E1 : fmax (0 : R) (f0 (N := NumR)) = 0) by (unfold f0; rsimp; apply Rmax_left; lra).
  assert (E2 : fmin (0 : R) (f0 (N := NumR)) = 0) by (unfold f0; rsimp; apply Rmin_left; lra).
  rewrite E1, E2. change (f0 (N := NumR)) with (0 : R). rewrite !(ma_def_constant (rc_ma cfg) 0 (S k) Hl).
  unfold fne. rsimp. replace (0 + - 0) with 0 by ring. destruct (Reqb_spec 0 0) as [_|N0]; [reflexivity|exfalso; apply N0; reflexivity].
Qed.

(** DetrendedPriceOscillator on a constant candle: 0 for ever *)
Theorem dpo_constant (ma : ma_cfg) src (c0 : C) k : (1 < ma_period ma < pmax)%Z -> ma_len_ok ma ->
  exists s0, dpo_init ma src c0 = Ok s0 /\ fst (snd (dpo_next (steps dpo_next s0 (repeat c0 k)) c0)) = [0].
Proof.
  intros Hp Hl. destruct (dpo_values_correct ma src c0 (repeat c0 k) c0 Hp (ma_proved_all _) Hl) as (s0 & E & H).
  exists s0. split; [exact E|]. rewrite H. unfold dpo_values. cbv zeta.
  replace (rev (repeat c0 k ++ [c0])) with (repeat c0 (S k)) by (rewrite rev_unit, rev_repeat; reflexivity).
  rewrite srcs_repeat, hget_repeat, ma_def_constant by exact Hl. f_equal. rsimp. lra.
Qed.

(** Trix on a constant candle: the Trix line and its signal line are 0 for ever *)
Theorem trix_constant p1 (signal : ma_cfg) src (c0 : C) k :
  (2 < p1 <= pmax - 1)%Z -> (1 < ma_period signal)%Z -> ma_len_ok signal -> (4 <= pmax)%Z ->
  exists s0, trix_init p1 signal src c0 = Ok s0 /\ fst (snd (trix_next (steps trix_next s0 (repeat c0 k)) c0)) = [0; 0].
Proof.
  intros Hp Hsg Ls Hpm. destruct (trix_values_correct p1 signal src c0 (repeat c0 k) c0 Hp Hsg (ma_proved_all _) Ls Hpm) as (s0 & E & H).
  exists s0. split; [exact E|]. rewrite H. unfold trix_values. cbv zeta.
  replace (rev (repeat c0 k ++ [c0])) with (repeat c0 (S k)) by (rewrite rev_unit, rev_repeat; reflexivity).
  rewrite srcs_repeat. set (v := c_source c0 src).
  assert (Lk : ma_len_ok (MAcfg KTMA p1)) by (cbn [ma_len_ok]; lia).
  assert (Ht : forall j, tma_def p1 v (repeat v j) = v).
  { intros j. pose proof (ma_def_constant (MAcfg KTMA p1) v j Lk) as Hc. unfold ma_def in Hc. cbv zeta in Hc. exact Hc. }
  rewrite (series_repeat (tma_def p1 v) v v (S k) Ht).
  assert (Hc0 : forall j, fsub (hget v (repeat v j) 0%nat) (hget v (repeat v j) 1%nat) = 0) by (intros j; rewrite !hget_repeat; rsimp; lra).
  rewrite (Hc0 (S k)), (series_repeat _ v 0 (S k) Hc0). change (f0 (N := NumR)) with (0 : R).
  rewrite (ma_def_constant signal 0 (S k) Ls). reflexivity.
Qed.
End Const.
