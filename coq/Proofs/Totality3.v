(** C10 continued: [init] of every modelled indicator never panics, whatever the configuration and the first candle:
    it returns an instance or an error. *)
From Yata Require Import Base.Prelude Base.Num Core.Window Core.WindowSpec Core.Candle Core.Action Core.Strings
  Spec.Hist Methods.Basic Methods.Select Methods.Convert Indicators.Common Indicators.Set1 Indicators.Set2 Indicators.Set3 Indicators.Set4 Indicators.Set5
  Proofs.Totality Proofs.Totality2.
Open Scope Z_scope.

Section T3.
Context {pw : PW} {N : Num}.
Lemma obind_no_panic {A B} (o : outcome A) (f : A -> outcome B) :
  is_panic o = false -> (forall a, is_panic (f a) = false) -> is_panic (obind o f) = false.
Proof. destruct o; cbn; intros; auto; discriminate. Qed.
Lemma if_no_panic {A} (b : bool) (x y : outcome A) : is_panic x = false -> is_panic y = false -> is_panic (if b then x else y) = false.
Proof. destruct b; auto. Qed.
Lemma omap_no_panic {A B} (g : A -> B) (o : outcome A) : is_panic o = false -> is_panic (omap g o) = false.
Proof. destruct o; cbn; auto. Qed.
Ltac np := repeat first
  [ reflexivity
  | apply ma_init_never_panics
  | apply if_no_panic
  | apply omap_no_panic
  | apply obind_no_panic; [|intros ?]
  | progress (unfold sma_new, wma_new, hma_new, rma_new, ema_new, dma_new, dema_new, tma_new, tema_new, wsma_new, smm_new, swma_new, trima_new,
              linreg_new, vidya_new, hl_new, hli_new, hld_new, rev_new, reversal_new, momentum_new, roc_new, past_new, stdev_new, mad_new, cci_new,
              adi_new, tsi_new, integral_new, linvol_new, vwma_new, derivative_new, EWC, EWMP; cbn [is_panic obind omap]) ].
Theorem adx_init_never_panics (c : adx_cfg) (k : candle) : is_panic (adx_init c k) = false.
Proof. unfold adx_init. cbv zeta. np. Qed.
Theorem ao_init_never_panics (c : ao_cfg) (k : candle) : is_panic (ao_init c k) = false.
Proof. unfold ao_init. cbv zeta. np. Qed.
Theorem aroon_init_never_panics (period : Z) (zone : F) (ozp : Z) (k : candle) : is_panic (aroon_init period zone ozp k) = false.
Proof. unfold aroon_init. cbv zeta. np. Qed.
Theorem boll_init_never_panics (c : boll_cfg) (k : candle) : is_panic (boll_init c k) = false.
Proof. unfold boll_init. cbv zeta. np. Qed.
Theorem ccii_init_never_panics (period : Z) (zone : F) (src : source) (k : candle) : is_panic (ccii_init period zone src k) = false.
Proof. unfold ccii_init. cbv zeta. np. Qed.
Theorem cks_init_never_panics (ma : ma_cfg) (x : F) (q : Z) (src : source) (k : candle) : is_panic (cks_init ma x q src k) = false.
Proof. unfold cks_init. cbv zeta. np. Qed.
Theorem cmf_init_never_panics (size : Z) (k : candle) : is_panic (cmf_init size k) = false.
Proof. unfold cmf_init. cbv zeta. np. Qed.
Theorem cmo_init_never_panics (period : Z) (zone : F) (src : source) (k : candle) : is_panic (cmo_init period zone src k) = false.
Proof. unfold cmo_init. cbv zeta. np. Qed.
Theorem co_init_never_panics (ma1 ma2 : ma_cfg) (window : Z) (k : candle) : is_panic (co_init ma1 ma2 window k) = false.
Proof. unfold co_init. cbv zeta. np. Qed.
Theorem cop_init_never_panics (c : cop_cfg) (k : candle) : is_panic (cop_init c k) = false.
Proof. unfold cop_init. cbv zeta. np. Qed.
Theorem donch_init_never_panics (period : Z) (k : candle) : is_panic (donch_init period k) = false.
Proof. unfold donch_init. cbv zeta. np. Qed.
Theorem dpo_init_never_panics (ma : ma_cfg) (src : source) (k : candle) : is_panic (dpo_init ma src k) = false.
Proof. unfold dpo_init. cbv zeta. np. Qed.
Theorem efi_init_never_panics (ma : ma_cfg) (p2 : Z) (src : source) (k : candle) : is_panic (efi_init ma p2 src k) = false.
Proof. unfold efi_init. cbv zeta. np. Qed.
Theorem env_init_never_panics (c : env_cfg) (k : candle) : is_panic (env_init c k) = false.
Proof. unfold env_init. cbv zeta. np. Qed.
Theorem eom_init_never_panics (ma : ma_cfg) (p2 : Z) (k : candle) : is_panic (eom_init ma p2 k) = false.
Proof. unfold eom_init. cbv zeta. np. Qed.
Theorem hmai_init_never_panics (period lft right : Z) (src : source) (k : candle) : is_panic (hmai_init period lft right src k) = false.
Proof. unfold hmai_init. cbv zeta. np. Qed.
Theorem ichi_init_never_panics (l1 l2 l3 m : Z) (src : source) (k : candle) : is_panic (ichi_init l1 l2 l3 m src k) = false.
Proof. unfold ichi_init. cbv zeta. np. Qed.
Theorem kauf_init_never_panics (c : kauf_cfg) (k : candle) : is_panic (kauf_init c k) = false.
Proof. unfold kauf_init. cbv zeta. np. Qed.
Theorem kelt_init_never_panics (ma : ma_cfg) (sigma : F) (src : source) (k : candle) : is_panic (kelt_init ma sigma src k) = false.
Proof. unfold kelt_init. cbv zeta. np. Qed.
Theorem kst_init_never_panics (c : kst_cfg) (k : candle) : is_panic (kst_init c k) = false.
Proof. unfold kst_init. cbv zeta. np. Qed.
Theorem kvo_init_never_panics (ma1 ma2 signal : ma_cfg) (k : candle) : is_panic (kvo_init ma1 ma2 signal k) = false.
Proof. unfold kvo_init. cbv zeta. np. Qed.
Theorem macd_init_never_panics (c : macd_cfg) (k : candle) : is_panic (macd_init c k) = false.
Proof. unfold macd_init. cbv zeta. np. Qed.
Theorem mfi_init_never_panics (period : Z) (zone : F) (k : candle) : is_panic (mfi_init period zone k) = false.
Proof. unfold mfi_init. cbv zeta. np. Qed.
Theorem momi_init_never_panics (p1 p2 : Z) (src : source) (k : candle) : is_panic (momi_init p1 p2 src k) = false.
Proof. unfold momi_init. cbv zeta. np. Qed.
Theorem pch_init_never_panics (period : Z) (sigma : F) (k : candle) : is_panic (pch_init period sigma k) = false.
Proof. unfold pch_init. cbv zeta. np. Qed.
Theorem prs_init_never_panics (lft right : Z) (k : candle) : is_panic (prs_init lft right k) = false.
Proof. unfold prs_init. cbv zeta. np. Qed.
Theorem psar_init_never_panics (step mx : F) (k : candle) : is_panic (psar_init step mx k) = false.
Proof. unfold psar_init. cbv zeta. np. Qed.
Theorem rsi_init_never_panics (c : rsi_cfg) (k : candle) : is_panic (rsi_init c k) = false.
Proof. unfold rsi_init. cbv zeta. np. Qed.
Theorem rvi_init_never_panics (p1 p2 : Z) (signal : ma_cfg) (zone : F) (k : candle) : is_panic (rvi_init p1 p2 signal zone k) = false.
Proof. unfold rvi_init. cbv zeta. np. Qed.
Theorem smi_init_never_panics (p1 p2 : Z) (signal : ma_cfg) (zone : F) (src : source) (k : candle) : is_panic (smi_init p1 p2 signal zone src k) = false.
Proof. unfold smi_init. cbv zeta. np. Qed.
Theorem sto_init_never_panics (c : sto_cfg) (k : candle) : is_panic (sto_init c k) = false.
Proof. unfold sto_init. cbv zeta. np. Qed.
Theorem trix_init_never_panics (p1 : Z) (signal : ma_cfg) (src : source) (k : candle) : is_panic (trix_init p1 signal src k) = false.
Proof. unfold trix_init. cbv zeta. np. Qed.
Theorem tsii_init_never_panics (p1 p2 p3 : Z) (zone : F) (src : source) (k : candle) : is_panic (tsii_init p1 p2 p3 zone src k) = false.
Proof. unfold tsii_init. cbv zeta. np. Qed.
Theorem tsx_init_never_panics (period : Z) (zone : F) (offset : Z) (src : source) (k : candle) : is_panic (tsx_init period zone offset src k) = false.
Proof. unfold tsx_init. cbv zeta. np. Qed.
Theorem wcci_init_never_panics (p1 p2 lag : Z) (src : source) (k : candle) : is_panic (wcci_init p1 p2 lag src k) = false.
Proof. unfold wcci_init. cbv zeta. np. Qed.
End T3.

(** the windows requested DIRECTLY by an indicator's [init] (those built by the method constructors are bounded by the
    constructors themselves): whenever [init] accepts, the requested capacity lies in 0 ..= MAX-1, so that Window::new
    cannot hit its capacity assertion, and is at least 1, so that the pushes of [next] never meet an empty window *)
Section Caps.
Context {pw : PW} {N : Num}.
Ltac capz H :=
  repeat match type of H with
         | context [Z.ltb ?a ?b] => destruct (Z.ltb_spec a b)
         | context [Z.leb ?a ?b] => destruct (Z.leb_spec a b)
         end;
  repeat (rewrite ?Bool.andb_false_r, ?Bool.andb_true_r, ?Bool.andb_false_l, ?Bool.andb_true_l in H; cbn [andb negb] in H;
          try match type of H with context [if ?b then _ else _] => destruct b end);
  try discriminate H; try lia.
Definition cap_ok (n : Z) : Prop := 1 <= n <= pmax - 1.
Lemma cmo_cap period zone src k s : cmo_init period zone src k = Ok s -> cap_ok period.
Proof. unfold cmo_init, cmo_validate, cap_ok. intros H. capz H. Qed.
Lemma mfi_cap period zone k s : mfi_init period zone k = Ok s -> cap_ok period.
Proof. unfold mfi_init, mfi_validate, cap_ok. intros H. capz H. Qed.
Lemma cmf_cap size k s : cmf_init size k = Ok s -> cap_ok size.
Proof. unfold cmf_init, cap_ok. intros H. capz H. Qed.
Lemma dpo_cap ma src k s : dpo_init ma src k = Ok s -> cap_ok (ma_period ma / 2 + 1).
Proof. unfold dpo_init, cap_ok. intros H. assert (Hd : forall z, 0 <= z -> z / 2 <= z) by (intros z Hz; apply Z.div_le_upper_bound; lia). capz H; pose proof (Hd (ma_period ma)); lia. Qed.
Lemma efi_cap ma p2 src k s : efi_init ma p2 src k = Ok s -> cap_ok p2.
Proof. unfold efi_init, cap_ok. intros H. capz H. Qed.
Lemma adx_cap c k s : adx_init c k = Ok s -> cap_ok (ac_period1 c).
Proof. unfold adx_init, adx_validate, cap_ok. intros H. capz H. Qed.
Lemma prs_cap lft right k s : prs_init lft right k = Ok s -> cap_ok right.
Proof. unfold prs_init, cap_ok. intros H. unfold sat_add in H. capz H. Qed.
Lemma ichi_cap l1 l2 l3 m src k s : ichi_init l1 l2 l3 m src k = Ok s -> cap_ok m.
Proof. unfold ichi_init, cap_ok. intros H. capz H. Qed.
Lemma eom_cap ma p2 k s : eom_init ma p2 k = Ok s -> cap_ok p2.
Proof. unfold eom_init, cap_ok. intros H. capz H. Qed.
Lemma tsx_cap period zone offset src k s : tsx_init period zone offset src k = Ok s -> cap_ok period.
Proof. unfold tsx_init, cap_ok. intros H. capz H. Qed.
End Caps.
