(** C03: TSI (true strength index) follows its documented recurrence: double-smoothed momentum over
    double-smoothed absolute momentum (0 when the denominator is not positive). *)
From Yata Require Import Base.Prelude Base.Num Base.NumR Core.Window Core.WindowSpec Core.Candle
  Spec.Hist Spec.MethodDefs Methods.Basic Proofs.MethodsCommon Proofs.Recursive.
From Coq Require Import Reals Lra.
Open Scope Z_scope.

Section Tsi.
Context {pw : PW}.
Local Notation "'R'" := (@F NumR) (only parsing).

Definition tsi_inv (a_s a_l x0 : R) (s : tsi (N := NumR)) (rh : list R) : Prop :=
  tsi_last s = hget x0 rh 0%nat /\
  ema_inv a_l f0 (tsi_e11 s) (diffs x0 rh) /\ ema_inv a_s f0 (tsi_e12 s) (ema_outs a_l f0 (diffs x0 rh)) /\
  ema_inv a_l f0 (tsi_e21 s) (map fabs (diffs x0 rh)) /\
  ema_inv a_s f0 (tsi_e22 s) (ema_outs a_l f0 (map fabs (diffs x0 rh))).

Lemma tsi_step short long x0 s rh x :
  tsi_inv (MethodDefs.ema_alpha short) (MethodDefs.ema_alpha long) x0 s rh ->
  tsi_inv (MethodDefs.ema_alpha short) (MethodDefs.ema_alpha long) x0 (fst (tsi_next s x)) (x :: rh) /\
  snd (tsi_next s x) = tsi_def short long x0 (x :: rh).
Proof.
  intros (Hl & H11 & H12 & H21 & H22). unfold tsi_next. cbv zeta. rewrite Hl.
  set (m := fsub x (hget x0 rh 0%nat)).
  destruct (ema_step _ _ _ _ m H11) as (H11' & E11).
  destruct (ema_next (tsi_e11 s) m) as [e11 y1]. cbn [fst snd] in *. subst y1.
  destruct (ema_step _ _ _ _ (ema_rec (MethodDefs.ema_alpha long) f0 (m :: diffs x0 rh)) H12) as (H12' & E12).
  destruct (ema_next (tsi_e12 s) _) as [e12 z1]. cbn [fst snd] in *.
  destruct (ema_step _ _ _ _ (fabs m) H21) as (H21' & E21).
  destruct (ema_next (tsi_e21 s) (fabs m)) as [e21 y2]. cbn [fst snd] in *. subst y2.
  destruct (ema_step _ _ _ _ (ema_rec (MethodDefs.ema_alpha long) f0 (fabs m :: map fabs (diffs x0 rh))) H22) as (H22' & E22).
  destruct (ema_next (tsi_e22 s) _) as [e22 z2]. cbn [fst snd] in *.
  split.
  - split; [reflexivity|]. cbn [tsi_e11 tsi_e12 tsi_e21 tsi_e22 diffs map ema_outs]. fold m. exact (conj H11' (conj H12' (conj H21' H22'))).
  - unfold tsi_peek, ema_peek. cbn [tsi_e12 tsi_e22]. destruct H12' as (_ & ->). destruct H22' as (_ & ->).
    unfold tsi_def. cbv zeta. cbn [diffs map ema_outs]. fold m. reflexivity.
Qed.

Lemma tsi_init short long v : 1 <= short <= pmax - 1 -> 1 <= long <= pmax - 1 ->
  exists s0, tsi_new short long v = Ok s0 /\ tsi_inv (MethodDefs.ema_alpha short) (MethodDefs.ema_alpha long) v s0 [].
Proof.
  intros Hs Hl. unfold tsi_new.
  destruct (ema_init long (f0 (N := NumR)) Hl) as (a & Ea & Ia). destruct (ema_init short (f0 (N := NumR)) Hs) as (b & Eb & Ib).
  rewrite Ea, Eb. cbn [obind]. eexists; split; [reflexivity|].
  split; [reflexivity|]. cbn [tsi_e11 tsi_e12 tsi_e21 tsi_e22 diffs map ema_outs]. exact (conj Ia (conj Ib (conj Ia Ib))).
Qed.

Theorem tsi_correct short long v xs x : 1 <= short <= pmax - 1 -> 1 <= long <= pmax - 1 ->
  exists s0, tsi_new short long v = Ok s0 /\
    snd (tsi_next (steps tsi_next s0 xs) x) = tsi_def short long v (rev (xs ++ [x])).
Proof.
  intros Hs Hl. destruct (tsi_init short long v Hs Hl) as (s0 & Hnew & Hinv). exists s0. split; [exact Hnew|].
  eapply (invL_correct _ _ (tsi_def short long v) (tsi_step short long v)). exact Hinv.
Qed.
End Tsi.

(** windowless ADI (window = 0): the running total of clv * volume of every candle seen *)
Section Adi0.
Context {pw : PW}.
Local Notation "'R'" := (@F NumR) (only parsing).
Theorem adi0_correct (c0 : candle (N := NumR)) cs c : 2 <= pmax ->
  exists s0, adi_new 0 c0 = Ok s0 /\
    snd (adi_next (steps adi_next s0 cs) c) = cumsum (map clvv (rev (cs ++ [c]))).
Proof.
  intros Hp. unfold adi_new. destruct (Z.eqb_spec 0 pmax); [lia|]. cbn [Z.ltb Z.compare].
  eexists; split; [reflexivity|].
  pose (Inv := fun (s : adi (N := NumR)) (rh : list (candle (N := NumR))) =>
                 w_is_empty (adi_window s) = true /\ adi_sum s = cumsum (map clvv rh)).
  assert (Hs : forall s rh y, Inv s rh -> Inv (fst (adi_next s y)) (y :: rh) /\
             snd (adi_next s y) = cumsum (map clvv (y :: rh))).
  { intros s rh y (He & Hv). unfold adi_next. cbv zeta. rewrite He. cbn [fst snd adi_window adi_sum map cumsum].
    rewrite Hv. unfold clvv. rsimp. repeat split; auto; ring. }
  apply (invL_correct adi_next Inv (fun rh => cumsum (map clvv rh)) Hs). split; reflexivity.
Qed.
End Adi0.
