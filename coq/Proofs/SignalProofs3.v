(** C06 continued: signals produced by crossing detectors.  Generic principle: a detector embedded in an indicator and
    fed, at every step, a pair computed from the values the indicator returns at that step, outputs at every step the
    DEFINITIONAL crossing of the series of those pairs over the whole history (C14's theorems lifted through the indicator).
    Instances: one lemma per indicator giving each signal as the documented combination of such crossings. *)
From Yata Require Import Base.Prelude Base.Num Base.NumR Core.Window Core.Candle Core.Action
  Spec.Hist Methods.Basic Methods.Select Indicators.Common Indicators.Set1 Indicators.Set2 Indicators.Set3 Indicators.Set4 Indicators.Set5
  Proofs.MethodsCommon Proofs.Detectors Proofs.SignalProofs Proofs.SignalProofs2 Proofs.Cascade.
From Coq Require Import Reals Lra.
Open Scope Z_scope.

Section Generic.
Context {pw : PW}.
Local Notation R := (@F NumR).
Local Notation C := (candle (N := NumR)).
Context {S D : Type}.
Variable next : S -> C -> S * iresult (N := NumR).
Variable dnext : D -> R * R -> D * action.
Variable ddef : (nat -> R * R) -> action.
Variable dget : S -> D.
Variable pf : iresult (N := NumR) -> R * R.
Variable Good : S -> Prop.
Hypothesis Hgood : forall s k, Good s -> Good (fst (next s k)).
Hypothesis Hstep : forall s k, Good s -> dget (fst (next s k)) = fst (dnext (dget s) (pf (snd (next s k)))).
Variables (s0 : S) (p0 : R * R).
Hypothesis Hs0 : Good s0.
Hypothesis Hdet : forall ps p, snd (dnext (steps dnext (dget s0) ps) p) = ddef (hget p0 (rev (ps ++ [p]))).

Lemma good_steps cs : Good (steps next s0 cs).
Proof. induction cs as [|c r IH] using rev_ind; [exact Hs0|]. rewrite steps_snoc. apply Hgood, IH. Qed.

Lemma det_state cs : dget (steps next s0 cs) = steps dnext (dget s0) (map pf (run next s0 cs)).
Proof.
  induction cs as [|c r IH] using rev_ind; [reflexivity|].
  rewrite steps_snoc, Hstep by apply good_steps. rewrite IH, run_app, map_app. cbn [run map].
  destruct (next (steps next s0 r) c) as (s', y). cbn [snd map]. rewrite steps_snoc. reflexivity.
Qed.

(** the detector's output at the step that consumes [k], after any stream [cs] *)
Theorem det_output cs k :
  snd (dnext (dget (steps next s0 cs)) (pf (snd (next (steps next s0 cs) k)))) =
  ddef (hget p0 (rev (map pf (run next s0 (cs ++ [k]))))).
Proof.
  rewrite det_state, Hdet, run_app, map_app. cbn [run map]. destruct (next (steps next s0 cs) k) as (s', y). reflexivity.
Qed.
End Generic.

Section Instances.
Context {pw : PW}.
Local Notation R := (@F NumR).
Local Notation C := (candle (N := NumR)).
Local Notation IR := (iresult (N := NumR)).
Ltac dlet := repeat match goal with |- context [let '(_, _) := ?e in _] => destruct e end.

Lemma R00 : fsub (f0 (N := NumR)) f0 = f0.
Proof. unfold f0. numR. apply Rminus_diag_eq. reflexivity. Qed.
Lemma cross_above_default_correct (ps : list (R * R)) p :
  snd (cross_above_next (steps cross_above_next f0 ps) p) = cross_above_def (hget (f0, f0) (rev (ps ++ [p]))).
Proof. pose proof (cross_above_correct (f0, f0) ps p) as H. unfold cross_new in H. cbn [fst snd] in H. rewrite R00 in H. exact H. Qed.
Lemma cross_under_default_correct (ps : list (R * R)) p :
  snd (cross_under_next (steps cross_under_next f0 ps) p) = cross_under_def (hget (f0, f0) (rev (ps ++ [p]))).
Proof. pose proof (cross_under_correct (f0, f0) ps p) as H. unfold cross_new in H. cbn [fst snd] in H. rewrite R00 in H. exact H. Qed.

(** the history of pairs [pf] of the results returned so far (the step that consumes [k] included), newest first,
    continued into the past by [p0] *)
Definition pair_hist {S} (next : S -> C -> S * IR) (s0 : S) (cs : list C) (k : C) (p0 : R * R) (pf : IR -> R * R) : nat -> R * R :=
  hget p0 (rev (map pf (run next s0 (cs ++ [k])))).

Definition TrueS {S} (s : S) : Prop := True.

(** ---- one default Cross of (value 0, 0): ElderForceIndex, ChaikinMoneyFlow, EaseOfMovement, ChaikinOscillator *)
Definition v0_zero (r : IR) : R * R := (vals r 0, f0).
Definition v0_v1 (r : IR) : R * R := (vals r 0, vals r 1).

Ltac dlete := repeat match goal with |- context [let '(_, _) := ?e in _] => let E := fresh "E" in destruct e eqn:E end.
Tactic Notation "shape" reference(next) := cbv zeta; intros; unfold next; dlete; unfold v0_zero, v0_v1, vals, sigs; cbn [fst snd nth];
  repeat match goal with E : ?l = (_, _) |- context [?l] => rewrite E end; cbn [fst snd]; repeat split; reflexivity.
(** instantiating the generic theorem for a default Cross held in field [fld] and fed [pf] of the result *)
Ltac by_cross next fld pf shape_lemma H0 :=
  unfold pair_hist; rewrite <- (det_output next cross_next cross_def fld pf TrueS);
  [ | intros; exact I | intros s c _; apply shape_lemma | exact I | intros ps p; rewrite H0; apply cross_default_correct ].

Lemma efi_shape (s : efi_st (N := NumR)) k : let r := snd (efi_next s k) in
  ef_cross (fst (efi_next s k)) = fst (cross_next (ef_cross s) (v0_zero r)) /\ sigs r = [snd (cross_next (ef_cross s) (v0_zero r))].
Proof. shape efi_next. Qed.
Theorem efi_signal_correct (s0 : efi_st (N := NumR)) cs k : ef_cross s0 = (f0, f0) ->
  sigs (snd (efi_next (steps efi_next s0 cs) k)) = [cross_def (pair_hist efi_next s0 cs k (f0, f0) v0_zero)].
Proof. intros H0. rewrite (proj2 (efi_shape _ k)). by_cross (efi_next (N := NumR)) (@ef_cross NumR) v0_zero efi_shape H0. reflexivity. Qed.

Lemma cmf_shape (s : cmf_st (N := NumR)) k : let r := snd (cmf_next s k) in
  cf_cross (fst (cmf_next s k)) = fst (cross_next (cf_cross s) (v0_zero r)) /\ sigs r = [snd (cross_next (cf_cross s) (v0_zero r))].
Proof. shape cmf_next. Qed.
Theorem cmf_signal_correct (s0 : cmf_st (N := NumR)) cs k : cf_cross s0 = (f0, f0) ->
  sigs (snd (cmf_next (steps cmf_next s0 cs) k)) = [cross_def (pair_hist cmf_next s0 cs k (f0, f0) v0_zero)].
Proof. intros H0. rewrite (proj2 (cmf_shape _ k)). by_cross (cmf_next (N := NumR)) (@cf_cross NumR) v0_zero cmf_shape H0. reflexivity. Qed.

Lemma eom_shape (s : eom_st (N := NumR)) k : let r := snd (eom_next s k) in
  eo_cross (fst (eom_next s k)) = fst (cross_next (eo_cross s) (v0_zero r)) /\ sigs r = [snd (cross_next (eo_cross s) (v0_zero r))].
Proof. shape eom_next. Qed.
Theorem eom_signal_correct (s0 : eom_st (N := NumR)) cs k : eo_cross s0 = (f0, f0) ->
  sigs (snd (eom_next (steps eom_next s0 cs) k)) = [cross_def (pair_hist eom_next s0 cs k (f0, f0) v0_zero)].
Proof. intros H0. rewrite (proj2 (eom_shape _ k)). by_cross (eom_next (N := NumR)) (@eo_cross NumR) v0_zero eom_shape H0. reflexivity. Qed.

Lemma co_shape (s : co_st (N := NumR)) k : let r := snd (co_next s k) in
  co_cross (fst (co_next s k)) = fst (cross_next (co_cross s) (v0_zero r)) /\ sigs r = [snd (cross_next (co_cross s) (v0_zero r))].
Proof. shape co_next. Qed.
Theorem chaikin_oscillator_signal_correct (s0 : co_st (N := NumR)) cs k : co_cross s0 = (f0, f0) ->
  sigs (snd (co_next (steps co_next s0 cs) k)) = [cross_def (pair_hist co_next s0 cs k (f0, f0) v0_zero)].
Proof. intros H0. rewrite (proj2 (co_shape _ k)). by_cross (co_next (N := NumR)) (@co_cross NumR) v0_zero co_shape H0. reflexivity. Qed.

Lemma kst_shape (s : kst_st (N := NumR)) k : let r := snd (kst_next s k) in
  ks_cross (fst (kst_next s k)) = fst (cross_next (ks_cross s) (v0_v1 r)) /\ sigs r = [snd (cross_next (ks_cross s) (v0_v1 r))].
Proof. shape kst_next. Qed.
Theorem kst_signal_correct (s0 : kst_st (N := NumR)) cs k : ks_cross s0 = (f0, f0) ->
  sigs (snd (kst_next (steps kst_next s0 cs) k)) = [cross_def (pair_hist kst_next s0 cs k (f0, f0) v0_v1)].
Proof. intros H0. rewrite (proj2 (kst_shape _ k)). by_cross (kst_next (N := NumR)) (@ks_cross NumR) v0_v1 kst_shape H0. reflexivity. Qed.

(** ---- several detectors in one indicator: each output is rewritten by the generic theorem *)
Ltac det_rw next dnext ddef fld pf Good pz :=
  rewrite (fun Hg Hs s0 H0 Hd => det_output next dnext ddef fld pf Good Hg Hs s0 pz H0 Hd).
Definition v0_v1' := v0_v1.

(** KlingerVolumeOscillator [ko; signal]: #1 crossing of (ko, 0), #2 crossing of (ko, signal line) *)
Lemma kvo_shape (s : kvo_st (N := NumR)) k : let r := snd (kvo_next s k) in
  kv_c1 (fst (kvo_next s k)) = fst (cross_next (kv_c1 s) (v0_zero r)) /\
  kv_c2 (fst (kvo_next s k)) = fst (cross_next (kv_c2 s) (v0_v1 r)) /\
  sigs r = [snd (cross_next (kv_c1 s) (v0_zero r)); snd (cross_next (kv_c2 s) (v0_v1 r))].
Proof. shape kvo_next. Qed.
Theorem kvo_signals_correct (s0 : kvo_st (N := NumR)) cs k : kv_c1 s0 = (f0, f0) -> kv_c2 s0 = (f0, f0) ->
  sigs (snd (kvo_next (steps kvo_next s0 cs) k)) =
  [cross_def (pair_hist kvo_next s0 cs k (f0, f0) v0_zero); cross_def (pair_hist kvo_next s0 cs k (f0, f0) v0_v1)].
Proof.
  intros H1 H2. destruct (kvo_shape (steps kvo_next s0 cs) k) as (_ & _ & ->). unfold pair_hist.
  det_rw (kvo_next (N := NumR)) (@cross_next NumR) (@cross_def NumR) (@kv_c1 NumR) v0_zero (@TrueS (@kvo_st NumR)) (@f0 NumR, @f0 NumR).
  det_rw (kvo_next (N := NumR)) (@cross_next NumR) (@cross_def NumR) (@kv_c2 NumR) v0_v1 (@TrueS (@kvo_st NumR)) (@f0 NumR, @f0 NumR).
  reflexivity.
  all: try (intros; exact I).
  all: try (intros s c _; apply kvo_shape).
  all: try (intros ps p; rewrite ?H1, ?H2; apply cross_default_correct).
Qed.

(** CoppockCurve [value, signal line]: #1 crossing of (value, 0), #3 crossing of (value, signal line); #2 is the pivot detector *)
Lemma cop_shape (s : cop_st (N := NumR)) k : let r := snd (cop_next s k) in
  cp_c1 (fst (cop_next s k)) = fst (cross_next (cp_c1 s) (v0_zero r)) /\
  cp_c2 (fst (cop_next s k)) = fst (cross_next (cp_c2 s) (v0_v1 r)) /\
  sigs r = [snd (cross_next (cp_c1 s) (v0_zero r)); snd (reversal_next (cp_pivot s) (vals r 0)); snd (cross_next (cp_c2 s) (v0_v1 r))].
Proof. shape cop_next. Qed.
Theorem coppock_signals_correct (s0 : cop_st (N := NumR)) cs k : cp_c1 s0 = (f0, f0) -> cp_c2 s0 = (f0, f0) ->
  let st := steps cop_next s0 cs in let r := snd (cop_next st k) in
  sigs r = [cross_def (pair_hist cop_next s0 cs k (f0, f0) v0_zero); snd (reversal_next (cp_pivot st) (vals r 0));
            cross_def (pair_hist cop_next s0 cs k (f0, f0) v0_v1)].
Proof.
  intros H1 H2. cbv zeta. destruct (cop_shape (steps cop_next s0 cs) k) as (_ & _ & ->). unfold pair_hist.
  det_rw (cop_next (N := NumR)) (@cross_next NumR) (@cross_def NumR) (@cp_c1 NumR) v0_zero (@TrueS (@cop_st NumR)) (@f0 NumR, @f0 NumR).
  det_rw (cop_next (N := NumR)) (@cross_next NumR) (@cross_def NumR) (@cp_c2 NumR) v0_v1 (@TrueS (@cop_st NumR)) (@f0 NumR, @f0 NumR).
  reflexivity.
  all: try (intros; exact I).
  all: try (intros s c _; apply cop_shape).
  all: try (intros ps p; rewrite ?H1, ?H2; apply cross_default_correct).
Qed.

Ltac side shape_lemma :=
  try (intros; exact I); try (intros s c _; apply shape_lemma).

(** Trix [value; signal line]: #2 crossing of (value, signal line), #3 crossing of (value, 0); both detectors start from a
    zero difference ([cross_new (v, v)]); #1 is the pivot detector *)
Lemma trix_shape (s : trix_st (N := NumR)) k : let r := snd (trix_next s k) in
  tx_c1 (fst (trix_next s k)) = fst (cross_next (tx_c1 s) (v0_v1 r)) /\
  tx_c2 (fst (trix_next s k)) = fst (cross_next (tx_c2 s) (v0_zero r)) /\
  sigs r = [snd (reversal_next (tx_rev s) (vals r 0)); snd (cross_next (tx_c1 s) (v0_v1 r)); snd (cross_next (tx_c2 s) (v0_zero r))].
Proof. shape trix_next. Qed.
Theorem trix_signals_correct (s0 : trix_st (N := NumR)) (v : R) cs k :
  tx_c1 s0 = (cross_new (v, v), cross_new (v, v)) -> tx_c2 s0 = (cross_new (v, v), cross_new (v, v)) ->
  let st := steps trix_next s0 cs in let r := snd (trix_next st k) in
  sigs r = [snd (reversal_next (tx_rev st) (vals r 0)); cross_def (pair_hist trix_next s0 cs k (v, v) v0_v1);
            cross_def (pair_hist trix_next s0 cs k (v, v) v0_zero)].
Proof.
  intros H1 H2. cbv zeta. destruct (trix_shape (steps trix_next s0 cs) k) as (_ & _ & ->). unfold pair_hist.
  det_rw (trix_next (N := NumR)) (@cross_next NumR) (@cross_def NumR) (@tx_c1 NumR) v0_v1 (@TrueS (@trix_st NumR)) (v, v).
  det_rw (trix_next (N := NumR)) (@cross_next NumR) (@cross_def NumR) (@tx_c2 NumR) v0_zero (@TrueS (@trix_st NumR)) (v, v).
  reflexivity.
  all: side trix_shape.
  all: intros ps p; rewrite ?H1, ?H2; apply cross_correct.
Qed.

(** RelativeVigorIndex [rvi; signal line]: #1 = crossing of (rvi, signal line); #2 = the same crossing, kept only outside the zone *)
Lemma rvi_shape (s : rvi_st (N := NumR)) k : let r := snd (rvi_next s k) in
  rv_zone (fst (rvi_next s k)) = rv_zone s /\
  rv_cross (fst (rvi_next s k)) = fst (cross_next (rv_cross s) (v0_v1 r)) /\
  sigs r = let s1 := a_analog (snd (cross_next (rv_cross s) (v0_v1 r))) in let z := rv_zone s in
           [a_from_i8 s1;
            a_from_i8 (b2z ((s1 <? 0) && fgt (vals r 0) z && fgt (vals r 1) z) - b2z ((0 <? s1) && flt (vals r 0) (fneg z) && flt (vals r 1) (fneg z)))].
Proof. shape rvi_next. Qed.
Theorem rvi_signals_correct (s0 : rvi_st (N := NumR)) cs k : rv_cross s0 = (f0, f0) ->
  let r := snd (rvi_next (steps rvi_next s0 cs) k) in
  let s1 := a_analog (cross_def (pair_hist rvi_next s0 cs k (f0, f0) v0_v1)) in let z := rv_zone s0 in
  sigs r = [a_from_i8 s1;
            a_from_i8 (b2z ((s1 <? 0) && fgt (vals r 0) z && fgt (vals r 1) z) - b2z ((0 <? s1) && flt (vals r 0) (fneg z) && flt (vals r 1) (fneg z)))].
Proof.
  intros H1. cbv zeta. destruct (rvi_shape (steps rvi_next s0 cs) k) as (_ & _ & ->). cbv zeta. unfold pair_hist.
  rewrite (steps_field rvi_next rv_zone) by (intros s c; apply rvi_shape).
  det_rw (rvi_next (N := NumR)) (@cross_next NumR) (@cross_def NumR) (@rv_cross NumR) v0_v1 (@TrueS (@rvi_st NumR)) (@f0 NumR, @f0 NumR).
  reflexivity.
  all: side rvi_shape.
  intros ps p; rewrite ?H1; apply cross_default_correct.
Qed.

(** SMIErgodicIndicator [smi; signal line; difference]: crossing of (smi, signal line) kept only when the signal line is outside the zone *)
Lemma smi_shape (s : smi_st (N := NumR)) k : let r := snd (smi_next s k) in
  sm_zone (fst (smi_next s k)) = sm_zone s /\
  sm_cross (fst (smi_next s k)) = fst (cross_next (sm_cross s) (v0_v1 r)) /\
  sigs r = let x := a_analog (snd (cross_next (sm_cross s) (v0_v1 r))) in
           [a_from_i8 (b2z ((0 <? x) && flt (vals r 1) (fneg (sm_zone s))) - b2z ((x <? 0) && fgt (vals r 1) (sm_zone s)))].
Proof. shape smi_next. Qed.
Theorem smi_signal_correct (s0 : smi_st (N := NumR)) cs k : sm_cross s0 = (f0, f0) ->
  let r := snd (smi_next (steps smi_next s0 cs) k) in
  let x := a_analog (cross_def (pair_hist smi_next s0 cs k (f0, f0) v0_v1)) in
  sigs r = [a_from_i8 (b2z ((0 <? x) && flt (vals r 1) (fneg (sm_zone s0))) - b2z ((x <? 0) && fgt (vals r 1) (sm_zone s0)))].
Proof.
  intros H1. cbv zeta. destruct (smi_shape (steps smi_next s0 cs) k) as (_ & _ & ->). cbv zeta. unfold pair_hist.
  rewrite (steps_field smi_next sm_zone) by (intros s c; apply smi_shape).
  det_rw (smi_next (N := NumR)) (@cross_next NumR) (@cross_def NumR) (@sm_cross NumR) v0_v1 (@TrueS (@smi_st NumR)) (@f0 NumR, @f0 NumR).
  reflexivity.
  all: side smi_shape.
  intros ps p; rewrite ?H1; apply cross_default_correct.
Qed.

(** AwesomeOscillator [value]: #2 crossing of (value, 0) *)
Lemma ao_shape (s : ao_st (N := NumR)) k : let r := snd (ao_next s k) in
  ao_cross (fst (ao_next s k)) = fst (cross_next (ao_cross s) (v0_zero r)) /\
  nth 1 (sigs r) ANone = snd (cross_next (ao_cross s) (v0_zero r)).
Proof. shape ao_next. Qed.
Theorem ao_zero_cross_signal_correct (s0 : ao_st (N := NumR)) cs k : ao_cross s0 = (f0, f0) ->
  nth 1 (sigs (snd (ao_next (steps ao_next s0 cs) k))) ANone = cross_def (pair_hist ao_next s0 cs k (f0, f0) v0_zero).
Proof.
  intros H1. rewrite (proj2 (ao_shape _ k)). unfold pair_hist.
  det_rw (ao_next (N := NumR)) (@cross_next NumR) (@cross_def NumR) (@ao_cross NumR) v0_zero (@TrueS (@ao_st NumR)) (@f0 NumR, @f0 NumR).
  reflexivity.
  all: side ao_shape.
  intros ps p; rewrite ?H1; apply cross_default_correct.
Qed.

(** ---- detectors fed (value, threshold) with a threshold kept in the state *)
Definition vi_const (i : nat) (z : R) (r : IR) : R * R := (vals r i, z).
Definition vi_vj (i j : nat) (r : IR) : R * R := (vals r i, vals r j).
Tactic Notation "shapez" reference(next) := cbv zeta; intros; unfold next; dlete; unfold vi_const, vi_vj, v0_zero, v0_v1, vals, sigs; cbn [fst snd nth];
  repeat match goal with E : ?l = (_, _) |- context [?l] => rewrite E end; cbn [fst snd]; repeat split; reflexivity.

(** ChandeMomentumOscillator [value]: cross-under of (value, -zone) minus cross-above of (value, zone) *)
Lemma cmo_shape (s : cmo_st (N := NumR)) k : let r := snd (cmo_next s k) in
  cm_zone (fst (cmo_next s k)) = cm_zone s /\
  cm_cu (fst (cmo_next s k)) = fst (cross_under_next (cm_cu s) (vi_const 0 (fneg (cm_zone s)) r)) /\
  cm_ca (fst (cmo_next s k)) = fst (cross_above_next (cm_ca s) (vi_const 0 (cm_zone s) r)) /\
  sigs r = [a_sub (snd (cross_under_next (cm_cu s) (vi_const 0 (fneg (cm_zone s)) r))) (snd (cross_above_next (cm_ca s) (vi_const 0 (cm_zone s) r)))].
Proof. shapez cmo_next. Qed.
Theorem cmo_signal_correct (s0 : cmo_st (N := NumR)) cs k : cm_cu s0 = f0 -> cm_ca s0 = f0 ->
  let z := cm_zone s0 in
  sigs (snd (cmo_next (steps cmo_next s0 cs) k)) =
  [a_sub (cross_under_def (pair_hist cmo_next s0 cs k (f0, f0) (vi_const 0 (fneg z))))
         (cross_above_def (pair_hist cmo_next s0 cs k (f0, f0) (vi_const 0 z)))].
Proof.
  intros H1 H2. cbv zeta. destruct (cmo_shape (steps cmo_next s0 cs) k) as (_ & _ & _ & ->). unfold pair_hist.
  rewrite (steps_field cmo_next cm_zone) by (intros s c; apply cmo_shape).
  set (Good := fun s : cmo_st (N := NumR) => cm_zone s = cm_zone s0).
  det_rw (cmo_next (N := NumR)) (@cross_under_next NumR) (@cross_under_def NumR) (@cm_cu NumR) (vi_const 0 (fneg (cm_zone s0))) Good (@f0 NumR, @f0 NumR).
  det_rw (cmo_next (N := NumR)) (@cross_above_next NumR) (@cross_above_def NumR) (@cm_ca NumR) (vi_const 0 (cm_zone s0)) Good (@f0 NumR, @f0 NumR).
  reflexivity.
  all: try (intros s c Hg; unfold Good in *; rewrite <- Hg; apply cmo_shape).
  all: try (intros s c Hg; unfold Good in *; rewrite (proj1 (cmo_shape s c)); exact Hg).
  all: try (unfold Good; reflexivity).
  - intros ps p; rewrite H2; apply cross_above_default_correct.
  - intros ps p; rewrite H1; apply cross_under_default_correct.
Qed.

(** KeltnerChannel [source; upper; lower]: cross-under of (source, lower) minus cross-above of (source, upper) *)
Lemma kelt_shape (s : kelt_st (N := NumR)) k : let r := snd (kelt_next s k) in
  kl_cu (fst (kelt_next s k)) = fst (cross_under_next (kl_cu s) (vi_vj 0 2 r)) /\
  kl_ca (fst (kelt_next s k)) = fst (cross_above_next (kl_ca s) (vi_vj 0 1 r)) /\
  sigs r = [a_sub (snd (cross_under_next (kl_cu s) (vi_vj 0 2 r))) (snd (cross_above_next (kl_ca s) (vi_vj 0 1 r)))].
Proof. shapez kelt_next. Qed.
Theorem keltner_signal_correct (s0 : kelt_st (N := NumR)) cs k : kl_cu s0 = f0 -> kl_ca s0 = f0 ->
  sigs (snd (kelt_next (steps kelt_next s0 cs) k)) =
  [a_sub (cross_under_def (pair_hist kelt_next s0 cs k (f0, f0) (vi_vj 0 2)))
         (cross_above_def (pair_hist kelt_next s0 cs k (f0, f0) (vi_vj 0 1)))].
Proof.
  intros H1 H2. destruct (kelt_shape (steps kelt_next s0 cs) k) as (_ & _ & ->). unfold pair_hist.
  det_rw (kelt_next (N := NumR)) (@cross_under_next NumR) (@cross_under_def NumR) (@kl_cu NumR) (vi_vj 0 2) (@TrueS (@kelt_st NumR)) (@f0 NumR, @f0 NumR).
  det_rw (kelt_next (N := NumR)) (@cross_above_next NumR) (@cross_above_def NumR) (@kl_ca NumR) (vi_vj 0 1) (@TrueS (@kelt_st NumR)) (@f0 NumR, @f0 NumR).
  reflexivity.
  all: side kelt_shape.
  - intros ps p; rewrite H2; apply cross_above_default_correct.
  - intros ps p; rewrite H1; apply cross_under_default_correct.
Qed.

(** TrueStrengthIndex [tsi; signal line]: #1 cross-under (tsi, -zone) minus cross-above (tsi, zone); #2 crossing of (tsi, 0);
    #3 crossing of (tsi, signal line) *)
Lemma tsii_shape (s : tsii_st (N := NumR)) k : let r := snd (tsii_next s k) in
  ti_zone (fst (tsii_next s k)) = ti_zone s /\
  ti_cu (fst (tsii_next s k)) = fst (cross_under_next (ti_cu s) (vi_const 0 (fneg (ti_zone s)) r)) /\
  ti_ca (fst (tsii_next s k)) = fst (cross_above_next (ti_ca s) (vi_const 0 (ti_zone s) r)) /\
  ti_c1 (fst (tsii_next s k)) = fst (cross_next (ti_c1 s) (v0_zero r)) /\
  ti_c2 (fst (tsii_next s k)) = fst (cross_next (ti_c2 s) (v0_v1 r)) /\
  sigs r = [a_sub (snd (cross_under_next (ti_cu s) (vi_const 0 (fneg (ti_zone s)) r))) (snd (cross_above_next (ti_ca s) (vi_const 0 (ti_zone s) r)));
            snd (cross_next (ti_c1 s) (v0_zero r)); snd (cross_next (ti_c2 s) (v0_v1 r))].
Proof. shapez tsii_next. Qed.
Theorem tsi_signals_correct (s0 : tsii_st (N := NumR)) cs k : ti_cu s0 = f0 -> ti_ca s0 = f0 -> ti_c1 s0 = (f0, f0) -> ti_c2 s0 = (f0, f0) ->
  let z := ti_zone s0 in
  sigs (snd (tsii_next (steps tsii_next s0 cs) k)) =
  [a_sub (cross_under_def (pair_hist tsii_next s0 cs k (f0, f0) (vi_const 0 (fneg z))))
         (cross_above_def (pair_hist tsii_next s0 cs k (f0, f0) (vi_const 0 z)));
   cross_def (pair_hist tsii_next s0 cs k (f0, f0) v0_zero); cross_def (pair_hist tsii_next s0 cs k (f0, f0) v0_v1)].
Proof.
  intros H1 H2 H3 H4. cbv zeta. destruct (tsii_shape (steps tsii_next s0 cs) k) as (_ & _ & _ & _ & _ & ->). unfold pair_hist.
  rewrite (steps_field tsii_next ti_zone) by (intros s c; apply tsii_shape).
  set (Good := fun s : tsii_st (N := NumR) => ti_zone s = ti_zone s0).
  det_rw (tsii_next (N := NumR)) (@cross_under_next NumR) (@cross_under_def NumR) (@ti_cu NumR) (vi_const 0 (fneg (ti_zone s0))) Good (@f0 NumR, @f0 NumR).
  det_rw (tsii_next (N := NumR)) (@cross_above_next NumR) (@cross_above_def NumR) (@ti_ca NumR) (vi_const 0 (ti_zone s0)) Good (@f0 NumR, @f0 NumR).
  det_rw (tsii_next (N := NumR)) (@cross_next NumR) (@cross_def NumR) (@ti_c1 NumR) v0_zero Good (@f0 NumR, @f0 NumR).
  det_rw (tsii_next (N := NumR)) (@cross_next NumR) (@cross_def NumR) (@ti_c2 NumR) v0_v1 Good (@f0 NumR, @f0 NumR).
  reflexivity.
  all: try (intros s c Hg; unfold Good in *; rewrite <- ?Hg; apply tsii_shape).
  all: try (intros s c Hg; unfold Good in *; rewrite (proj1 (tsii_shape s c)); exact Hg).
  all: try (unfold Good; reflexivity).
  - intros ps p; rewrite H4; apply cross_default_correct.
  - intros ps p; rewrite H3; apply cross_default_correct.
  - intros ps p; rewrite H2; apply cross_above_default_correct.
  - intros ps p; rewrite H1; apply cross_under_default_correct.
Qed.

(** Aroon [up; down]: signal #1 is the crossing of (up, down) *)
Lemma aroon_shape (s : aroon_st (N := NumR)) k : let r := snd (aroon_next s k) in
  ar_cross (fst (aroon_next s k)) = fst (cross_next (ar_cross s) (v0_v1 r)) /\
  nth 0 (sigs r) ANone = snd (cross_next (ar_cross s) (v0_v1 r)).
Proof. shapez aroon_next. Qed.
Theorem aroon_cross_signal_correct (s0 : aroon_st (N := NumR)) cs k : ar_cross s0 = (f0, f0) ->
  nth 0 (sigs (snd (aroon_next (steps aroon_next s0 cs) k))) ANone = cross_def (pair_hist aroon_next s0 cs k (f0, f0) v0_v1).
Proof.
  intros H1. rewrite (proj2 (aroon_shape _ k)). unfold pair_hist.
  det_rw (aroon_next (N := NumR)) (@cross_next NumR) (@cross_def NumR) (@ar_cross NumR) v0_v1 (@TrueS (@aroon_st NumR)) (@f0 NumR, @f0 NumR).
  reflexivity.
  all: side aroon_shape.
  intros ps p; rewrite ?H1; apply cross_default_correct.
Qed.

(** StochasticOscillator [main; signal line]: #1 cross-above of (main, zone) minus cross-under of (main, 1 - zone), #2 the same
    for the signal line, #3 crossing of (main, signal line) *)
Lemma sto_shape (s : sto_st (N := NumR)) k : let r := snd (sto_next s k) in let z := sc_zone (so_cfg s) in let u := so_upper s in
  so_cfg (fst (sto_next s k)) = so_cfg s /\ so_upper (fst (sto_next s k)) = so_upper s /\
  so_ca1 (fst (sto_next s k)) = fst (cross_above_next (so_ca1 s) (vi_const 0 z r)) /\
  so_cu1 (fst (sto_next s k)) = fst (cross_under_next (so_cu1 s) (vi_const 0 u r)) /\
  so_ca2 (fst (sto_next s k)) = fst (cross_above_next (so_ca2 s) (vi_const 1 z r)) /\
  so_cu2 (fst (sto_next s k)) = fst (cross_under_next (so_cu2 s) (vi_const 1 u r)) /\
  so_cross (fst (sto_next s k)) = fst (cross_next (so_cross s) (v0_v1 r)) /\
  sigs r = [a_sub (snd (cross_above_next (so_ca1 s) (vi_const 0 z r))) (snd (cross_under_next (so_cu1 s) (vi_const 0 u r)));
            a_sub (snd (cross_above_next (so_ca2 s) (vi_const 1 z r))) (snd (cross_under_next (so_cu2 s) (vi_const 1 u r)));
            snd (cross_next (so_cross s) (v0_v1 r))].
Proof. shapez sto_next. Qed.
Theorem stochastic_signals_correct (s0 : sto_st (N := NumR)) cs k :
  so_ca1 s0 = f0 -> so_cu1 s0 = f0 -> so_ca2 s0 = f0 -> so_cu2 s0 = f0 -> so_cross s0 = (f0, f0) ->
  let z := sc_zone (so_cfg s0) in let u := so_upper s0 in
  sigs (snd (sto_next (steps sto_next s0 cs) k)) =
  [a_sub (cross_above_def (pair_hist sto_next s0 cs k (f0, f0) (vi_const 0 z))) (cross_under_def (pair_hist sto_next s0 cs k (f0, f0) (vi_const 0 u)));
   a_sub (cross_above_def (pair_hist sto_next s0 cs k (f0, f0) (vi_const 1 z))) (cross_under_def (pair_hist sto_next s0 cs k (f0, f0) (vi_const 1 u)));
   cross_def (pair_hist sto_next s0 cs k (f0, f0) v0_v1)].
Proof.
  intros H1 H2 H3 H4 H5. cbv zeta. pose proof (sto_shape (steps sto_next s0 cs) k) as Sh. cbv zeta in Sh.
  destruct Sh as (_ & _ & _ & _ & _ & _ & _ & ->). unfold pair_hist.
  rewrite (steps_field sto_next so_cfg) by (intros s c; apply sto_shape).
  rewrite (steps_field sto_next so_upper) by (intros s c; apply sto_shape).
  set (Good := fun s : sto_st (N := NumR) => so_cfg s = so_cfg s0 /\ so_upper s = so_upper s0).
  assert (Hg : forall s c, Good s -> Good (fst (sto_next s c))).
  { intros s c (G1 & G2). pose proof (sto_shape s c) as Sh. cbv zeta in Sh. destruct Sh as (E1 & E2 & _). split; congruence. }
  assert (Hs : forall s c, Good s -> let r := snd (sto_next s c) in
     so_ca1 (fst (sto_next s c)) = fst (cross_above_next (so_ca1 s) (vi_const 0 (sc_zone (so_cfg s0)) r)) /\
     so_cu1 (fst (sto_next s c)) = fst (cross_under_next (so_cu1 s) (vi_const 0 (so_upper s0) r)) /\
     so_ca2 (fst (sto_next s c)) = fst (cross_above_next (so_ca2 s) (vi_const 1 (sc_zone (so_cfg s0)) r)) /\
     so_cu2 (fst (sto_next s c)) = fst (cross_under_next (so_cu2 s) (vi_const 1 (so_upper s0) r)) /\
     so_cross (fst (sto_next s c)) = fst (cross_next (so_cross s) (v0_v1 r))).
  { intros s c (G1 & G2). pose proof (sto_shape s c) as Sh. cbv zeta in Sh. rewrite G1, G2 in Sh. cbv zeta. tauto. }
  det_rw (sto_next (N := NumR)) (@cross_above_next NumR) (@cross_above_def NumR) (@so_ca1 NumR) (vi_const 0 (sc_zone (so_cfg s0))) Good (@f0 NumR, @f0 NumR).
  det_rw (sto_next (N := NumR)) (@cross_under_next NumR) (@cross_under_def NumR) (@so_cu1 NumR) (vi_const 0 (so_upper s0)) Good (@f0 NumR, @f0 NumR).
  det_rw (sto_next (N := NumR)) (@cross_above_next NumR) (@cross_above_def NumR) (@so_ca2 NumR) (vi_const 1 (sc_zone (so_cfg s0))) Good (@f0 NumR, @f0 NumR).
  det_rw (sto_next (N := NumR)) (@cross_under_next NumR) (@cross_under_def NumR) (@so_cu2 NumR) (vi_const 1 (so_upper s0)) Good (@f0 NumR, @f0 NumR).
  det_rw (sto_next (N := NumR)) (@cross_next NumR) (@cross_def NumR) (@so_cross NumR) v0_v1 Good (@f0 NumR, @f0 NumR).
  reflexivity.
  all: try exact Hg.
  all: try (intros s c G; apply (Hs s c G)).
  all: try (split; reflexivity).
  - intros ps p; rewrite H5; apply cross_default_correct.
  - intros ps p; rewrite H4; apply cross_under_default_correct.
  - intros ps p; rewrite H3; apply cross_above_default_correct.
  - intros ps p; rewrite H2; apply cross_under_default_correct.
  - intros ps p; rewrite H1; apply cross_above_default_correct.
Qed.

(** MoneyFlowIndex [upper; value; lower]: two crossings, of (value, upper) and of (value, lower); #1 "enters the zone" =
    [value falls under lower] - [value rises over upper], #2 "leaves the zone" = [rises over lower] - [falls under upper] *)
Lemma mfi_shape (s : mfi_st (N := NumR)) k : let r := snd (mfi_next s k) in
  mf_cu (fst (mfi_next s k)) = fst (cross_next (mf_cu s) (vi_vj 1 0 r)) /\
  mf_cl (fst (mfi_next s k)) = fst (cross_next (mf_cl s) (vi_vj 1 2 r)) /\
  sigs r = let xu := a_to_i8 (snd (cross_next (mf_cu s) (vi_vj 1 0 r))) in let xl := a_to_i8 (snd (cross_next (mf_cl s) (vi_vj 1 2 r))) in
           [a_from_i8 (b2z (xl <? 0) - b2z (0 <? xu)); a_from_i8 (b2z (0 <? xl) - b2z (xu <? 0))].
Proof. shapez mfi_next. Qed.
Theorem mfi_signals_correct (s0 : mfi_st (N := NumR)) cs k : mf_cu s0 = (f0, f0) -> mf_cl s0 = (f0, f0) ->
  let xu := a_to_i8 (cross_def (pair_hist mfi_next s0 cs k (f0, f0) (vi_vj 1 0))) in
  let xl := a_to_i8 (cross_def (pair_hist mfi_next s0 cs k (f0, f0) (vi_vj 1 2))) in
  sigs (snd (mfi_next (steps mfi_next s0 cs) k)) = [a_from_i8 (b2z (xl <? 0) - b2z (0 <? xu)); a_from_i8 (b2z (0 <? xl) - b2z (xu <? 0))].
Proof.
  intros H1 H2. cbv zeta. pose proof (mfi_shape (steps mfi_next s0 cs) k) as Sh. cbv zeta in Sh. destruct Sh as (_ & _ & ->). unfold pair_hist.
  det_rw (mfi_next (N := NumR)) (@cross_next NumR) (@cross_def NumR) (@mf_cu NumR) (vi_vj 1 0) (@TrueS (@mfi_st NumR)) (@f0 NumR, @f0 NumR).
  det_rw (mfi_next (N := NumR)) (@cross_next NumR) (@cross_def NumR) (@mf_cl NumR) (vi_vj 1 2) (@TrueS (@mfi_st NumR)) (@f0 NumR, @f0 NumR).
  reflexivity.
  all: try (intros; exact I).
  all: try (intros s c _; pose proof (mfi_shape s c) as Sh; cbv zeta in Sh; apply Sh).
  - intros ps p; rewrite H2; apply cross_default_correct.
  - intros ps p; rewrite H1; apply cross_default_correct.
Qed.

(** RelativeStrengthIndex [value]: crossings of (value, zone) ("lower") and of (value, 1 - zone) ("upper"), both started from
    the neutral value 1/2;  #1 = [falls under zone] - [rises over 1 - zone], #2 = [rises over zone] - [falls under 1 - zone] *)
Lemma rsi_shape (s : rsi_st (N := NumR)) k : let r := snd (rsi_next s k) in let z := rc_zone (rs_cfg s) in
  rs_cfg (fst (rsi_next s k)) = rs_cfg s /\
  rs_cross_lower (fst (rsi_next s k)) = fst (cross_next (rs_cross_lower s) (vi_const 0 z r)) /\
  rs_cross_upper (fst (rsi_next s k)) = fst (cross_next (rs_cross_upper s) (vi_const 0 (fsub f1 z) r)) /\
  sigs r = let oversold := a_analog (snd (cross_next (rs_cross_lower s) (vi_const 0 z r))) in
           let overbought := a_analog (snd (cross_next (rs_cross_upper s) (vi_const 0 (fsub f1 z) r))) in
           [a_from_i8 (b2z (oversold <? 0) - b2z (0 <? overbought)); a_from_i8 (b2z (0 <? oversold) - b2z (overbought <? 0))].
Proof. shapez rsi_next. Qed.
Theorem rsi_signals_correct (s0 : rsi_st (N := NumR)) cs k :
  let z := rc_zone (rs_cfg s0) in let half := flit 1 2 in
  rs_cross_lower s0 = (cross_new (half, z), cross_new (half, z)) ->
  rs_cross_upper s0 = (cross_new (half, fsub f1 z), cross_new (half, fsub f1 z)) ->
  let oversold := a_analog (cross_def (pair_hist rsi_next s0 cs k (half, z) (vi_const 0 z))) in
  let overbought := a_analog (cross_def (pair_hist rsi_next s0 cs k (half, fsub f1 z) (vi_const 0 (fsub f1 z)))) in
  sigs (snd (rsi_next (steps rsi_next s0 cs) k)) =
  [a_from_i8 (b2z (oversold <? 0) - b2z (0 <? overbought)); a_from_i8 (b2z (0 <? oversold) - b2z (overbought <? 0))].
Proof.
  cbv zeta. intros H1 H2. pose proof (rsi_shape (steps rsi_next s0 cs) k) as Sh. cbv zeta in Sh. destruct Sh as (_ & _ & _ & ->). unfold pair_hist.
  rewrite (steps_field rsi_next rs_cfg) by (intros s c; apply rsi_shape).
  set (Good := fun s : rsi_st (N := NumR) => rs_cfg s = rs_cfg s0).
  assert (Hg : forall s c, Good s -> Good (fst (rsi_next s c))).
  { intros s c G. unfold Good in *. rewrite (proj1 (rsi_shape s c)). exact G. }
  assert (Hs : forall s c, Good s -> let r := snd (rsi_next s c) in
     rs_cross_lower (fst (rsi_next s c)) = fst (cross_next (rs_cross_lower s) (vi_const 0 (rc_zone (rs_cfg s0)) r)) /\
     rs_cross_upper (fst (rsi_next s c)) = fst (cross_next (rs_cross_upper s) (vi_const 0 (fsub f1 (rc_zone (rs_cfg s0))) r))).
  { intros s c G. pose proof (rsi_shape s c) as Sh. cbv zeta in Sh. unfold Good in G. rewrite G in Sh. cbv zeta. tauto. }
  det_rw (rsi_next (N := NumR)) (@cross_next NumR) (@cross_def NumR) (@rs_cross_lower NumR) (vi_const 0 (rc_zone (rs_cfg s0))) Good (flit (N := NumR) 1 2, rc_zone (rs_cfg s0)).
  det_rw (rsi_next (N := NumR)) (@cross_next NumR) (@cross_def NumR) (@rs_cross_upper NumR) (vi_const 0 (fsub f1 (rc_zone (rs_cfg s0)))) Good (flit (N := NumR) 1 2, fsub f1 (rc_zone (rs_cfg s0))).
  reflexivity.
  all: try exact Hg.
  all: try (intros s c G; apply (Hs s c G)).
  all: try (unfold Good; reflexivity).
  - intros ps p; rewrite H2; apply cross_correct.
  - intros ps p; rewrite H1; apply cross_correct.
Qed.

(** TrendStrengthIndex [value]: signal #1 as CODED = cross-under of (value, zone) minus cross-above of (value, -zone)
    (the documentation states the opposite polarity: known finding KF-C06-tsx-signals) *)
Lemma tsx_shape (s : tsx_st (N := NumR)) k : let r := snd (tsx_next s k) in
  tz_zone (fst (tsx_next s k)) = tz_zone s /\
  tz_cu (fst (tsx_next s k)) = fst (cross_under_next (tz_cu s) (vi_const 0 (tz_zone s) r)) /\
  tz_ca (fst (tsx_next s k)) = fst (cross_above_next (tz_ca s) (vi_const 0 (fneg (tz_zone s)) r)) /\
  nth 0 (sigs r) ANone = a_sub (snd (cross_under_next (tz_cu s) (vi_const 0 (tz_zone s) r))) (snd (cross_above_next (tz_ca s) (vi_const 0 (fneg (tz_zone s)) r))).
Proof. shapez tsx_next. Qed.
Theorem tsx_cross_signal_as_coded (s0 : tsx_st (N := NumR)) cs k :
  let z := tz_zone s0 in tz_cu s0 = cross_new (f0, z) -> tz_ca s0 = cross_new (f0, fneg z) ->
  nth 0 (sigs (snd (tsx_next (steps tsx_next s0 cs) k))) ANone =
  a_sub (cross_under_def (pair_hist tsx_next s0 cs k (f0, z) (vi_const 0 z)))
        (cross_above_def (pair_hist tsx_next s0 cs k (f0, fneg z) (vi_const 0 (fneg z)))).
Proof.
  cbv zeta. intros H1 H2. pose proof (tsx_shape (steps tsx_next s0 cs) k) as Sh. cbv zeta in Sh. destruct Sh as (_ & _ & _ & ->). unfold pair_hist.
  rewrite (steps_field tsx_next tz_zone) by (intros s c; apply tsx_shape).
  set (Good := fun s : tsx_st (N := NumR) => tz_zone s = tz_zone s0).
  det_rw (tsx_next (N := NumR)) (@cross_under_next NumR) (@cross_under_def NumR) (@tz_cu NumR) (vi_const 0 (tz_zone s0)) Good (@f0 NumR, tz_zone s0).
  det_rw (tsx_next (N := NumR)) (@cross_above_next NumR) (@cross_above_def NumR) (@tz_ca NumR) (vi_const 0 (fneg (tz_zone s0))) Good (@f0 NumR, fneg (tz_zone s0)).
  reflexivity.
  all: try (intros s c Hg; unfold Good in *; rewrite <- ?Hg; apply tsx_shape).
  all: try (intros s c Hg; unfold Good in *; rewrite (proj1 (tsx_shape s c)); exact Hg).
  all: try (unfold Good; reflexivity).
  - intros ps p; rewrite H2; apply cross_above_correct.
  - intros ps p; rewrite H1; apply cross_under_correct.
Qed.

(** ---- the hypotheses on the initial detectors are what [init] builds (so the theorems above apply to every instance) *)
Ltac init_fields X_init :=
  unfold X_init;
  repeat match goal with
         | |- context [if ?b then _ else _] => destruct b
         | |- context [obind ?e _] => destruct e; cbn [obind]
         end; try discriminate; intros Hinit; injection Hinit as <-; repeat split; try reflexivity;
  cbn; unfold cross_new; cbn [fst snd]; change (0 - 0)%R with (fsub (f0 (N := NumR)) f0); rewrite ?R00; reflexivity.
Tactic Notation "init_fields" reference(X) := init_fields X.

Lemma efi_init_detectors ma p2 src (k : C) s0 : efi_init ma p2 src k = Ok s0 -> ef_cross s0 = (f0, f0).
Proof. init_fields efi_init. Qed.
Lemma cmf_init_detectors size (k : C) s0 : cmf_init size k = Ok s0 -> cf_cross s0 = (f0, f0).
Proof. init_fields cmf_init. Qed.
Lemma eom_init_detectors ma p2 (k : C) s0 : eom_init ma p2 k = Ok s0 -> eo_cross s0 = (f0, f0).
Proof. init_fields eom_init. Qed.
Lemma co_init_detectors ma1 ma2 w (k : C) s0 : co_init ma1 ma2 w k = Ok s0 -> co_cross s0 = (f0, f0).
Proof. init_fields co_init. Qed.
Lemma kst_init_detectors c (k : C) s0 : kst_init c k = Ok s0 -> ks_cross s0 = (f0, f0).
Proof. init_fields kst_init. Qed.
Lemma kvo_init_detectors ma1 ma2 sg (k : C) s0 : kvo_init ma1 ma2 sg k = Ok s0 -> kv_c1 s0 = (f0, f0) /\ kv_c2 s0 = (f0, f0).
Proof. init_fields kvo_init. Qed.
Lemma cop_init_detectors c (k : C) s0 : cop_init c k = Ok s0 -> cp_c1 s0 = (f0, f0) /\ cp_c2 s0 = (f0, f0).
Proof. init_fields cop_init. Qed.
Lemma trix_init_detectors p1 sg src (k : C) s0 : trix_init p1 sg src k = Ok s0 ->
  let v := c_source k src in tx_c1 s0 = (cross_new (v, v), cross_new (v, v)) /\ tx_c2 s0 = (cross_new (v, v), cross_new (v, v)).
Proof. cbv zeta. init_fields trix_init. Qed.
Lemma rvi_init_detectors p1 p2 sg zone (k : C) s0 : rvi_init p1 p2 sg zone k = Ok s0 -> rv_cross s0 = (f0, f0) /\ rv_zone s0 = zone.
Proof. init_fields rvi_init. Qed.
Lemma smi_init_detectors p1 p2 sg zone src (k : C) s0 : smi_init p1 p2 sg zone src k = Ok s0 -> sm_cross s0 = (f0, f0) /\ sm_zone s0 = zone.
Proof. init_fields smi_init. Qed.
Lemma ao_init_detectors c (k : C) s0 : ao_init c k = Ok s0 -> ao_cross s0 = (f0, f0).
Proof. init_fields ao_init. Qed.
Lemma cmo_init_detectors period zone src (k : C) s0 : cmo_init period zone src k = Ok s0 -> cm_cu s0 = f0 /\ cm_ca s0 = f0 /\ cm_zone s0 = zone.
Proof. init_fields cmo_init. Qed.
Lemma kelt_init_detectors ma sigma src (k : C) s0 : kelt_init ma sigma src k = Ok s0 -> kl_cu s0 = f0 /\ kl_ca s0 = f0.
Proof. init_fields kelt_init. Qed.
Lemma tsii_init_detectors p1 p2 p3 zone src (k : C) s0 : tsii_init p1 p2 p3 zone src k = Ok s0 ->
  ti_cu s0 = f0 /\ ti_ca s0 = f0 /\ ti_c1 s0 = (f0, f0) /\ ti_c2 s0 = (f0, f0) /\ ti_zone s0 = zone.
Proof. init_fields tsii_init. Qed.
Lemma aroon_init_detectors period zone ozp (k : C) s0 : aroon_init period zone ozp k = Ok s0 -> ar_cross s0 = (f0, f0).
Proof. init_fields aroon_init. Qed.
Lemma sto_init_detectors c (k : C) s0 : sto_init c k = Ok s0 ->
  so_ca1 s0 = f0 /\ so_cu1 s0 = f0 /\ so_ca2 s0 = f0 /\ so_cu2 s0 = f0 /\ so_cross s0 = (f0, f0) /\ so_cfg s0 = c /\ so_upper s0 = fsub f1 (sc_zone c).
Proof. init_fields sto_init. Qed.
Lemma mfi_init_detectors period zone (k : C) s0 : mfi_init period zone k = Ok s0 -> mf_cu s0 = (f0, f0) /\ mf_cl s0 = (f0, f0).
Proof. init_fields mfi_init. Qed.
Lemma rsi_init_detectors c (k : C) s0 : rsi_init c k = Ok s0 ->
  let z := rc_zone c in let half := flit 1 2 in rs_cfg s0 = c /\
  rs_cross_lower s0 = (cross_new (half, z), cross_new (half, z)) /\
  rs_cross_upper s0 = (cross_new (half, fsub f1 z), cross_new (half, fsub f1 z)).
Proof. cbv zeta. init_fields rsi_init. Qed.
Lemma tsx_init_detectors period zone offset src (k : C) s0 : tsx_init period zone offset src k = Ok s0 ->
  tz_zone s0 = zone /\ tz_cu s0 = cross_new (f0, zone) /\ tz_ca s0 = cross_new (f0, fneg zone).
Proof. init_fields tsx_init. Qed.
End Instances.

(** ---- CommodityChannelIndex: the latch [last_signal] never suppresses anything - the signal is exactly the zone-entry rule on
    the current and the previous returned value: +1 when the value falls below -zone from at or above it, -1 when it rises above
    +zone from at or below it.  (A signal can only repeat if the value were on both sides of a threshold at once.) *)
Section CCI.
Context {pw : PW}.
Local Notation R := (@F NumR).
Local Notation C := (candle (N := NumR)).
Definition cci_rule (z cci last : R) : Z :=
  b2z (flt cci (fneg z) && fge last (fneg z)) - b2z (fgt cci z && fle last z).
Definition cci_latch_inv (s : ccii_st (N := NumR)) : Prop :=
  (0 <= ci_zone s)%R /\
  (ci_last_signal s = 1 -> (ci_last s < - ci_zone s)%R) /\ (ci_last_signal s = -1 -> (ci_last s > ci_zone s)%R) /\
  (ci_last_signal s = 0 \/ ci_last_signal s = 1 \/ ci_last_signal s = -1).
Lemma cci_step_rule (s : ccii_st (N := NumR)) (k : C) : cci_latch_inv s ->
  let r := snd (ccii_next s k) in
  cci_latch_inv (fst (ccii_next s k)) /\ ci_last (fst (ccii_next s k)) = vals r 0 /\ ci_zone (fst (ccii_next s k)) = ci_zone s /\
  sigs r = [a_from_i8 (cci_rule (ci_zone s) (vals r 0) (ci_last s))].
Proof.
  intros (Hz & H1 & H2 & H3). cbv zeta. unfold ccii_next. destruct (cci_next (ci_cci s) _) as (c', raw).
  cbn [fst snd vals sigs nth ci_last ci_zone ci_last_signal]. set (cci := fmul raw cci_scale). set (z := ci_zone s) in *. set (last := ci_last s) in *.
  unfold cci_latch_inv, cci_rule. cbn [ci_zone ci_last ci_last_signal]. fold z.
  set (lo := flt cci (fneg z) && fge last (fneg z)). set (hi := fgt cci z && fle last z).
  assert (Hlo : lo = true -> (cci < - z /\ - z <= last)%R).
  { unfold lo, fge, flt. rsimp. intros E. apply andb_prop in E. destruct E as (E1 & E2).
    destruct (Rltb_spec cci (- z)); [|discriminate]. destruct (Rleb_spec (- z) last); [|discriminate]. split; assumption. }
  assert (Hhi : hi = true -> (z < cci /\ last <= z)%R).
  { unfold hi, fgt, fle, flt. rsimp. intros E. apply andb_prop in E. destruct E as (E1 & E2).
    destruct (Rltb_spec z cci); [|discriminate]. destruct (Rleb_spec last z); [|discriminate]. split; assumption. }
  assert (Hex : lo = true -> hi = true -> False) by (intros A B; destruct (Hlo A), (Hhi B); lra).
  destruct lo eqn:El, hi eqn:Eh; cbn [b2z]; try (exfalso; apply Hex; reflexivity).
  - (* enters the lower zone: t = 1 *) destruct (Hlo eq_refl) as (A1 & A2).
    assert (Hn : ci_last_signal s <> 1) by (intros E; specialize (H1 E); fold last z in H1; lra).
    replace (1 - 0)%Z with 1%Z by lia. destruct (Z.eqb_spec 1 0); [lia|]. destruct (Z.eqb_spec (ci_last_signal s) 1); [contradiction|].
    cbn [negb andb b2z]. replace (1 * 1)%Z with 1%Z by lia. repeat split; try assumption; try (intros; lra); try (intros; lia); auto.
  - (* enters the upper zone: t = -1 *) destruct (Hhi eq_refl) as (A1 & A2).
    assert (Hn : ci_last_signal s <> -1) by (intros E; specialize (H2 E); fold last z in H2; lra).
    replace (0 - 1)%Z with (-1)%Z by lia. destruct (Z.eqb_spec (-1) 0); [lia|]. destruct (Z.eqb_spec (ci_last_signal s) (-1)); [contradiction|].
    cbn [negb andb b2z]. replace (1 * -1)%Z with (-1)%Z by lia. repeat split; try assumption; try (intros; lra); try (intros; lia); auto.
  - replace (0 - 0)%Z with 0%Z by lia. cbn [Z.eqb negb andb b2z]. replace (0 * 0)%Z with 0%Z by lia.
    repeat split; try assumption; try (intros; lia); auto.
Qed.
Theorem cci_signal_correct period (zone : R) src (c0 : C) cs c s0 : ccii_init period zone src c0 = Ok s0 ->
  let st := steps ccii_next s0 cs in let r := snd (ccii_next st c) in
  let last := match rev (run ccii_next s0 cs) with [] => f0 | q :: _ => vals q 0 end in
  sigs r = [a_from_i8 (cci_rule zone (vals r 0) last)].
Proof.
  intros Hi. cbv zeta.
  assert (I0 : cci_latch_inv s0 /\ ci_last s0 = f0 /\ ci_zone s0 = zone).
  { unfold ccii_init in Hi. destruct (fge zone f0 && (1 <? period) && (period <? pmax)) eqn:E; [|discriminate]. cbn [negb] in Hi.
    destruct (cci_new period _); cbn [obind] in Hi; try discriminate. injection Hi as <-.
    apply andb_prop in E. destruct E as (E & _). apply andb_prop in E. destruct E as (E & _).
    unfold fge in E. revert E. rsimp. intros E. destruct (Rleb_spec 0 zone); [|discriminate].
    unfold cci_latch_inv. cbn. repeat split; try (intros; lia); auto. }
  assert (I : forall p, cci_latch_inv (steps ccii_next s0 p) /\ ci_zone (steps ccii_next s0 p) = zone /\
                       ci_last (steps ccii_next s0 p) = match rev (run ccii_next s0 p) with [] => f0 | q :: _ => vals q 0 end).
  { induction p as [|a r IH] using rev_ind; [destruct I0 as (A & B & D); cbn; auto|].
    destruct IH as (A & B & D). rewrite steps_snoc. pose proof (cci_step_rule (steps ccii_next s0 r) a A) as S. cbv zeta in S.
    destruct S as (S1 & S2 & S3 & _). split; [exact S1|]. split; [congruence|]. rewrite S2, run_app, rev_app_distr. cbn [run].
    destruct (ccii_next (steps ccii_next s0 r) a). reflexivity. }
  destruct (I cs) as (A & B & D). pose proof (cci_step_rule (steps ccii_next s0 cs) c A) as S. cbv zeta in S.
  destruct S as (_ & _ & _ & ->). rewrite B, D. reflexivity.
Qed.
End CCI.
