(** C02 (continued): VWMA, windowed ADI, Conv, StDev, MeanAbsDev, CCI, TRIMA, HMA. *)
From Yata Require Import Base.Prelude Base.Num Base.NumR Core.Window Core.WindowSpec Core.Candle
  Spec.Hist Spec.MethodDefs Methods.Basic Proofs.MethodsCommon Proofs.Windowed Proofs.Windowed2.
From Coq Require Import Reals Lra.
Open Scope Z_scope.

Section Proofs.
Context {pw : PW}.
Local Notation "'R'" := (@F NumR) (only parsing).

(* ----------------------------------------------------------------- VWMA *)
Definition vw_num (n : nat) (h : nat -> R * R) : R := gsum n (fun i => fmul (fst (h i)) (snd (h i))).
Definition vw_den (n : nat) (h : nat -> R * R) : R := gsum n (fun i => snd (h i)).
Definition vwma_inv (n : nat) (s : vwma (N := NumR)) (h : nat -> R * R) : Prop :=
  WinOK n (vw_window s) h /\ vw_sum s = vw_num n h /\ vw_vol_sum s = vw_den n h.

Lemma vwma_step n s h x : vwma_inv (S n) s h ->
  vwma_inv (S n) (fst (vwma_next s x)) (hcons x h) /\
  snd (vwma_next s x) = vwma_def (S n) (hcons x h).
Proof.
  intros (Hw & Hs & Hv). destruct (winok_push n _ h x Hw) as (w' & Hp & Hw').
  unfold vwma_next. rewrite Hp. cbv zeta. cbn [fst snd].
  assert (E1 : fadd (vw_sum s) (ffma (fst x) (snd x) (fmul (fneg (fst (h n))) (snd (h n)))) = vw_num (S n) (hcons x h)).
  { rewrite Hs. unfold vw_num. rewrite (gsum_hcons n x h (fun p => fmul (fst p) (snd p))). rsimp. lra. }
  assert (E2 : fadd (vw_vol_sum s) (fsub (snd x) (snd (h n))) = vw_den (S n) (hcons x h)).
  { rewrite Hv. unfold vw_den. rewrite (gsum_hcons n x h (fun p => snd p)). rsimp. lra. }
  split; [split; [exact Hw'|split; [exact E1|exact E2]]|].
  unfold vwma_peek. cbn [vw_sum vw_vol_sum]. rewrite E1, E2. reflexivity.
Qed.

Lemma vwma_init n v : 1 <= n <= pmax - 1 ->
  exists s0, vwma_new n v = Ok s0 /\ vwma_inv (Z.to_nat n) s0 (hconst v).
Proof.
  intros Hn. unfold vwma_new. rewrite bad_len_false by lia. eexists; split; [reflexivity|].
  split; [apply winok_new; lia|]. cbn [vw_sum vw_vol_sum]. unfold vw_num, vw_den, hconst.
  rewrite !gsum_const. rsimp. rewrite (IZR_nat n) by lia. split; lra.
Qed.

Theorem vwma_correct n v xs x : 1 <= n <= pmax - 1 ->
  exists s0, vwma_new n v = Ok s0 /\
    snd (vwma_next (steps vwma_next s0 xs) x) = vwma_def (Z.to_nat n) (hget v (rev (xs ++ [x]))).
Proof. intros Hn. by_inv (vwma_init n v Hn) vwma_step. Qed.

(* ----------------------------------------------------------- ADI (windowed) *)
Definition adi_inv (n : nat) (s : adi (N := NumR)) (h : nat -> candle (N := NumR)) : Prop :=
  WinOK n (adi_window s) (fun i => clvv (h i)) /\ adi_sum s = adi_def n h.

Lemma adi_step n s h x : adi_inv (S n) s h ->
  adi_inv (S n) (fst (adi_next s x)) (hcons x h) /\
  snd (adi_next s x) = adi_def (S n) (hcons x h).
Proof.
  intros (Hw & Hv). destruct (winok_push n _ _ (clvv x) Hw) as (w' & Hp & Hw').
  unfold adi_next. fold (clvv x). cbv zeta. rewrite (winok_nonempty _ _ _ Hw), Hp. cbn [fst snd].
  assert (E : fsub (fadd (adi_sum s) (clvv x)) (clvv (h n)) = adi_def (S n) (hcons x h)).
  { rewrite Hv. unfold adi_def. rewrite (gsum_hcons n x h clvv). rsimp. lra. }
  split; [split; [|exact E]|exact E].
  eapply winok_ext; [|exact Hw']. intros [|i]; reflexivity.
Qed.

Lemma adi_init n v : 1 <= n <= pmax - 1 ->
  exists s0, adi_new n v = Ok s0 /\ adi_inv (Z.to_nat n) s0 (hconst v).
Proof.
  intros Hn. unfold adi_new. destruct (Z.eqb_spec n pmax); [lia|].
  destruct (Z.ltb_spec 0 n); [|lia]. fold (clvv v). eexists; split; [reflexivity|].
  split; [apply (winok_new n (clvv v)); lia|]. cbn [adi_sum]. unfold adi_def, hconst.
  rewrite gsum_const. rsimp. rewrite (IZR_nat n) by lia. lra.
Qed.

Theorem adi_correct n v xs x : 1 <= n <= pmax - 1 ->
  exists s0, adi_new n v = Ok s0 /\
    snd (adi_next (steps adi_next s0 xs) x) = adi_def (Z.to_nat n) (hget v (rev (xs ++ [x]))).
Proof. intros Hn. by_inv (adi_init n v Hn) adi_step. Qed.

(* --------------------------------------------------------------- StDev *)
Open Scope R_scope.
Definition sq_sum (n : nat) (h : nat -> R) : R := gsum n (fun i => h i * h i).
Lemma var_identity n (h : nat -> R) : INR n <> 0 ->
  gsum (N := NumR) n (fun i => (h i - hsum n h / INR n) * (h i - hsum n h / INR n)) =
  sq_sum n h - hsum n h * hsum n h / INR n.
Proof.
  intros Hn. set (m := hsum n h / INR n).
  rewrite (gsum_ext n _ (fun i => h i * h i + (-2 * m) * h i + m * m)) by (intros; ring).
  rewrite !gsum_plus, gsum_scal, gsum_const. unfold sq_sum. change (gsum n (fun i => h i)) with (hsum n h).
  unfold m, hsum. rsimp. field. exact Hn.
Qed.
Lemma gsum_nonneg n (g : nat -> R) : (forall i, 0 <= g i) -> 0 <= gsum (N := NumR) n g.
Proof. intros H. induction n as [|n IH]; [unfold gsum; simpl; numR; lra|]. rewrite gsum_S. specialize (H n). lra. Qed.
Open Scope Z_scope.

Definition stdev_inv (n : nat) (s : stdev (N := NumR)) (h : nat -> R) : Prop :=
  WinOK n (sd_window s) h /\ sd_divider s = (- / INR n)%R /\ sd_k s = (/ INR (n - 1))%R /\
  sd_val_sum s = hsum n h /\ sd_sq_val_sum s = sq_sum n h /\ sd_mean s = (- hsum n h / INR n)%R.

Lemma stdev_out n (s : stdev (N := NumR)) h : (2 <= n)%nat -> stdev_inv n s h -> stdev_peek s = stdev_def n h.
Proof.
  intros Hn (_ & Hd & Hk & Hv & Hq & Hm). unfold stdev_peek, stdev_def, var_def, sma_def.
  rewrite Hk, Hv, Hq, Hm.
  assert (Hn0 : INR n <> 0%R) by (apply not_0_INR; lia).
  assert (Hn1 : INR (n - 1) <> 0%R) by (apply not_0_INR; lia).
  assert (Hpos : (0 < INR (n - 1))%R) by (apply lt_0_INR; lia).
  pose proof (var_identity n h Hn0) as VI.
  assert (Hnn : (0 <= sq_sum n h - hsum n h * hsum n h / INR n)%R).
  { rewrite <- VI. apply gsum_nonneg. intros i. apply Rle_0_sqr. }
  rewrite !fofN_INR. cbn [fsqrt fabs fmul ffma fdiv fsub NumR].
  cbn [fsub fmul fdiv NumR] in VI. rewrite VI.
  set (S1 := hsum n h) in *. set (S2 := sq_sum n h) in *. clearbody S1 S2. f_equal.
  replace ((S1 * (- S1 / INR n) + S2) * / INR (n - 1))%R
    with ((S2 - S1 * S1 / INR n) / INR (n - 1))%R by (field; auto).
  apply Rabs_right. apply Rle_ge.
  apply Rmult_le_pos; [exact Hnn|left; apply Rinv_0_lt_compat; exact Hpos].
Qed.

Lemma stdev_step n s h x : stdev_inv (S (S n)) s h ->
  stdev_inv (S (S n)) (fst (stdev_next s x)) (hcons x h) /\
  snd (stdev_next s x) = stdev_def (S (S n)) (hcons x h).
Proof.
  intros Hi. pose proof Hi as (Hw & Hd & Hk & Hv & Hq & Hm).
  destruct (winok_push (S n) _ h x Hw) as (w' & Hp & Hw').
  unfold stdev_next. rewrite Hp. cbv zeta. cbn [fst snd].
  match goal with |- ?I _ ?s' _ /\ _ => assert (Hi' : I (S (S n)) s' (hcons x h)) end.
  { split; [exact Hw'|]. cbn [sd_divider sd_k sd_val_sum sd_sq_val_sum sd_mean].
    split; [exact Hd|]. split; [exact Hk|].
    assert (G : hsum (S (S n)) (hcons x h) = (hsum (S (S n)) h + x - h (S n))%R).
    { unfold hsum. pose proof (gsum_hcons (S n) x h (fun y => y)) as G0. cbn beta in G0.
      change (gsum (N := NumR) (S (S n)) (fun i => hcons x h i)) with (gsum (N := NumR) (S (S n)) (hcons x h)) in G0.
      change (gsum (N := NumR) (S (S n)) (fun i => h i)) with (gsum (N := NumR) (S (S n)) h) in G0. lra. }
    assert (G2 : sq_sum (S (S n)) (hcons x h) = (sq_sum (S (S n)) h + x * x - h (S n) * h (S n))%R).
    { unfold sq_sum. rewrite (gsum_hcons (S n) x h (fun y => y * y)%R). lra. }
    rewrite Hv, Hq, Hm, Hd, G, G2. rsimp. pose proof (INR_S_neq (S n)).
    split; [lra|]. split; [ring|]. field. assumption. }
  split; [exact Hi'|]. apply stdev_out; [lia|exact Hi'].
Qed.

Lemma stdev_init n v : 2 <= n <= pmax - 1 ->
  exists s0, stdev_new n v = Ok s0 /\ stdev_inv (Z.to_nat n) s0 (hconst v).
Proof.
  intros Hn. unfold stdev_new.
  destruct (Z.eqb_spec n 0), (Z.eqb_spec n 1), (Z.eqb_spec n pmax); try lia. cbn [orb].
  eexists; split; [reflexivity|]. split; [apply winok_new; lia|].
  cbn [sd_divider sd_k sd_val_sum sd_sq_val_sum sd_mean].
  assert (Hn0 : INR (Z.to_nat n) <> 0%R) by (apply not_0_INR; lia).
  unfold frecip, hsum, sq_sum, hconst. rewrite !gsum_const. rsimp.
  rewrite (IZR_nat n), (IZR_nat (n - 1)) by lia. replace (Z.to_nat (n - 1)) with (Z.to_nat n - 1)%nat by lia.
  repeat split; try (field; assumption); try lra.
Qed.

Theorem stdev_correct n v xs x : 2 <= n <= pmax - 1 ->
  exists s0, stdev_new n v = Ok s0 /\
    snd (stdev_next (steps stdev_next s0 xs) x) = stdev_def (Z.to_nat n) (hget v (rev (xs ++ [x]))).
Proof.
  intros Hn. destruct (stdev_init n v Hn) as (s0 & Hnew & Hinv). exists s0. split; [exact Hnew|].
  assert (E : exists m, Z.to_nat n = S (S m)) by (exists (Z.to_nat (n - 2)); lia).
  destruct E as (m & Em). rewrite Em in *.
  eapply (inv_correct _ _ _ (stdev_step m)); exact Hinv.
Qed.
End Proofs.
