(** C15 continued: every averaging kind of the MA constructor with a method theorem is affine-equivariant:
    running it on a*x+b (construction value included) gives a*y+b.  First on the definitions, then
    transferred to the running instances through [ma_correct]. *)
From Yata Require Import Base.Prelude Base.Num Base.NumR Core.Window Core.Candle Core.Strings Spec.Hist Spec.MethodDefs Spec.IndicatorDefs
  Methods.Basic Indicators.Common Proofs.MethodsCommon Proofs.Windowed5 Proofs.Prehistory Proofs.Averages Proofs.MAProofs.
From Coq Require Import Reals Lra.
Open Scope R_scope.

Section Avg2.
Context {pw : PW}.
Local Notation R := (@F NumR).
Local Notation gs := (gsum (N := NumR)).

Lemma trima_affine n a b (h : nat -> R) : (1 <= n)%nat -> trima_def n (fun i => a * h i + b) = a * trima_def n h + b.
Proof.
  intros Hn. unfold trima_def.
  rewrite <- (sma_affine n a b (fun j => sma_def n (hshift j h)) Hn).
  unfold sma_def at 1 3, hsum. f_equal. apply gsum_ext. intros j _. unfold hshift. apply (sma_affine n a b (fun i => h (j + i)%nat) Hn).
Qed.
Lemma hma_affine n n2 n3 a b (h : nat -> R) : (1 <= n)%nat -> (1 <= n2)%nat -> (1 <= n3)%nat ->
  hma_def n n2 n3 (fun i => a * h i + b) = a * hma_def n n2 n3 h + b.
Proof.
  intros H1 H2 H3. unfold hma_def.
  rewrite <- (wma_affine n3 a b (fun j => fsub (fmul f2 (wma_def n2 (hshift j h))) (wma_def n (hshift j h))) H3).
  unfold wma_def at 1 4, hwsum. f_equal. apply gsum_ext. intros j _. f_equal. unfold hshift.
  rewrite (wma_affine n2 a b (fun i => h (j + i)%nat) H2), (wma_affine n a b (fun i => h (j + i)%nat) H1). rsimp. ring.
Qed.
Lemma linreg_affine n a b (h : nat -> R) : (1 <= n)%nat -> linreg_def n (fun i => a * h i + b) = a * linreg_def n h + b.
Proof.
  intros Hn. unfold linreg_def, hsum. cbv zeta.
  assert (Hf : INR n <> 0) by (apply not_0_INR; lia).
  assert (E1 : gs n (fun i => a * h i + b) = a * gs n h + INR n * b).
  { rewrite gsum_plus, gsum_scal, gsum_const. change (gs n (fun i => h i)) with (gs n h). lra. }
  assert (E2 : gs n (fun i => fmul (fneg (fofN i)) (a * h i + b)) =
               a * gs n (fun i => fmul (fneg (fofN i)) (h i)) + b * gs n (fun i => fneg (fofN (N := NumR) i))).
  { rewrite <- !gsum_scal, <- gsum_plus. apply gsum_ext. intros i _. rsimp. ring. }
  rewrite E1, E2. rsimp. set (sx := gs n (fun i => - fofN (N := NumR) i)). set (sy := gs n h).
  set (sxy := gs n (fun i => - fofN (N := NumR) i * h i)). set (sxx := gs n (fun i => fofN (N := NumR) i * fofN (N := NumR) i)).
  destruct (Req_dec (INR n * sxx - sx * sx) 0) as [Ed|Ed].
  - unfold Rdiv. rewrite Ed, Rinv_0. field. exact Hf.
  - field. split; assumption.
Qed.
Lemma ema_outs_affine (al x0 a b : R) rh :
  ema_outs al (a * x0 + b) (map (fun x => a * x + b) rh) = map (fun x => a * x + b) (ema_outs al x0 rh).
Proof.
  induction rh as [|x r IH]; [reflexivity|]. cbn [map ema_outs]. rewrite IH. f_equal.
  exact (ema_affine al x0 a b (x :: r)).
Qed.

(** every proved kind, on its definition *)
Theorem ma_def_affine (c : ma_cfg) (a b v : R) rh : ma_proved c = true -> (1 <= ma_period c)%Z ->
  (match c with MAcfg KHMA n => (2 <= n)%Z /\ (1 <= hma_len3 n)%Z | MAcfg KSWMA _ => False | MAcfg KVidya _ => False | MAcfg KSMM _ => False | _ => True end) ->
  ma_def c (aff a b v) (map (aff a b) rh) = aff a b (ma_def c v rh).
Proof.
  destruct c as (k, n). intros Hp Hn Hx. cbn [ma_period] in Hn. unfold ma_def. cbv zeta. unfold aff.
  assert (Hg : forall i, hget (a * v + b) (map (fun y => a * y + b) rh) i = a * hget v rh i + b)
    by (intros i; apply (hget_map (fun y => a * y + b))).
  assert (Hnat : (1 <= Z.to_nat n)%nat) by lia.
  destruct k; try discriminate Hp; try contradiction.
  - rewrite <- (sma_affine _ a b) by exact Hnat. unfold sma_def, hsum. f_equal. apply gsum_ext. intros i _. apply Hg.
  - rewrite <- (wma_affine _ a b) by exact Hnat. unfold wma_def, hwsum. f_equal. apply gsum_ext. intros i _. rewrite Hg. reflexivity.
  - destruct Hx as (H2 & H3). fold (hma_len3 n).
    rewrite <- (hma_affine _ _ _ a b) by (try exact Hnat; try (assert (1 <= n / 2)%Z by (apply Z.div_le_lower_bound; lia); lia); lia).
    unfold hma_def. unfold wma_def at 1 4, hwsum. f_equal. apply gsum_ext. intros j _. f_equal.
    unfold wma_def, hwsum, hshift. f_equal; [f_equal|]; f_equal; apply gsum_ext; intros i _; rewrite Hg; reflexivity.
  - unfold rma_def. apply (ema_affine _ v a b rh).
  - unfold ema_def. apply (ema_affine _ v a b rh).
  - unfold dma_def. rewrite ema_outs_affine. apply (ema_affine _ v a b).
  - unfold dema_def, ema_def, dma_def. rewrite ema_outs_affine, !(ema_affine _ v a b). rsimp. ring.
  - unfold tma_def. rewrite !ema_outs_affine. apply (ema_affine _ v a b).
  - unfold tema_def, ema_def, dma_def, tma_def. rewrite !ema_outs_affine, !(ema_affine _ v a b). rsimp. ring.
  - unfold wsma_def, rma_def. apply (ema_affine _ v a b rh).
  - rewrite <- (trima_affine _ a b) by exact Hnat. unfold trima_def, sma_def, hsum. f_equal. apply gsum_ext. intros j _.
    f_equal. apply gsum_ext. intros i _. unfold hshift. apply Hg.
  - rewrite (linreg_ext _ _ (fun i => a * hget v rh i + b) Hg). apply linreg_affine. exact Hnat.
Qed.

(** ... and on the running instances built by the MA constructor *)
Theorem ma_method_affine (c : ma_cfg) (a b v : R) xs x : ma_proved c = true -> ma_len_ok c -> (1 <= ma_period c)%Z ->
  (match c with MAcfg KHMA n => (2 <= n)%Z /\ (1 <= hma_len3 n)%Z | MAcfg KSWMA _ => False | MAcfg KVidya _ => False | MAcfg KSMM _ => False | _ => True end) ->
  exists s0 s1, ma_init c v = Ok s0 /\ ma_init c (aff a b v) = Ok s1 /\
    snd (ma_next (steps ma_next s1 (map (aff a b) xs)) (aff a b x)) = aff a b (snd (ma_next (steps ma_next s0 xs) x)).
Proof.
  intros Hp Hl Hn Hx. destruct (ma_correct c v xs x Hp Hl) as (s0 & E0 & O0).
  destruct (ma_correct c (aff a b v) (map (aff a b) xs) (aff a b x) Hp Hl) as (s1 & E1 & O1).
  exists s0, s1. split; [exact E0|]. split; [exact E1|]. rewrite O0, O1.
  assert (Ef : map (aff a b) xs ++ [aff a b x] = map (aff a b) (xs ++ [x])) by (rewrite map_app; reflexivity).
  rewrite Ef, <- map_rev. apply ma_def_affine; assumption.
Qed.

Definition not_swma (c : ma_cfg) : bool := match c with MAcfg KSWMA _ => false | MAcfg KVidya _ => false | MAcfg KSMM _ => false | _ => true end.
Theorem ma_method_affine' (c : ma_cfg) (a b v : R) xs x : ma_proved c = true -> not_swma c = true -> ma_len_ok c ->
  exists s0 s1, ma_init c v = Ok s0 /\ ma_init c (aff a b v) = Ok s1 /\
    snd (ma_next (steps ma_next s1 (map (aff a b) xs)) (aff a b x)) = aff a b (snd (ma_next (steps ma_next s0 xs) x)).
Proof.
  intros Hp Hs Hl. apply ma_method_affine; try assumption.
  - destruct c as (k, n). destruct k; cbn [ma_len_ok ma_period] in *; try discriminate; lia.
  - destruct c as (k, n). destruct k; try exact I; try discriminate Hs. cbn [ma_len_ok] in Hl.
    split; [lia|]. apply hma_len3_range. exact Hl.
Qed.
End Avg2.
