(** C06 continued: more signals that are a function of the values returned at the same step (any carrier, every state). *)
From Yata Require Import Base.Prelude Base.Num Core.Window Core.Candle Core.Action Core.Strings
  Spec.Hist Methods.Basic Methods.Select Indicators.Common Indicators.Set4 Indicators.Set5 Proofs.SignalProofs2.
Open Scope Z_scope.

Section SP5.
Context {pw : PW} {N : Num}.
Ltac dlet := repeat match goal with |- context [let '(_, _) := ?e in _] => destruct e end.

(** AverageDirectionalIndex ([adx; +DI; -DI]): #1 = sign of (+DI - -DI) while ADX is above the zone, #2 = +DI - -DI as a
    proportional signal *)
Theorem adx_signals (s : adx_st) (k : candle) :
  let r := snd (adx_next s k) in
  sigs r = [a_from_i8 (b2z (fgt (vals r 0) (ac_zone (ax_cfg s))) * (b2z (fgt (vals r 1) (vals r 2)) - b2z (flt (vals r 1) (vals r 2))));
            a_from_f (fsub (vals r 1) (vals r 2))].
Proof.
  cbv zeta. unfold adx_next. destruct (w_push_t _ _). destruct (ma_next (ax_tr s) _).
  destruct (feq _ f0); [|destruct (ma_next (ax_plus s) _), (ma_next (ax_minus s) _)]; cbv zeta;
    match goal with |- context [if ?b then ma_next ?a ?x else ma_next ?a ?y] => destruct b end;
    match goal with |- context [let '(_, _) := ?e in _] => destruct e end; reflexivity.
Qed.

(** ChandeKrollStop ([stop long; source; stop short]): #1 = position of the source between the two stops mapped to [-1, 1]
    around their midpoint (0 when the stops coincide) *)
Theorem chande_kroll_signal1 (s : cks_st) (k : candle) :
  let r := snd (cks_next s k) in
  let mid := fmul (fadd (vals r 2) (vals r 0)) (flit 1 2) in let size := fsub mid (vals r 0) in
  nth 0 (sigs r) ANone = a_from_f (if feq size f0 then f0 else fdiv (fsub (vals r 1) mid) size).
Proof. cbv zeta. unfold cks_next. dlet. reflexivity. Qed.
End SP5.
