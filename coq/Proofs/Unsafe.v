(** C19: the unsafe_performance build replaces checked slice accesses by
    unchecked ones at the SAME indices.  [slot l i] models an unchecked access:
    defined iff i < len (otherwise undefined behaviour).  For every access site
    of window.rs and smm.rs that the feature changes, the index is proved to be
    in range whenever the default build does not panic there. *)
From Yata Require Import Base.Prelude Base.Num Core.Window Core.WindowSpec Methods.Basic Methods.Select.
Open Scope Z_scope.

Section Unsafe.
Context {pw : PW}.
Hypothesis pmax_ge : 2 <= pmax.
Context {A : Type}.
Definition in_bounds (l : list A) (i : Z) : Prop := 0 <= i < Z.of_nat (length l).

(** push / oldest: slot [index] *)
Theorem push_slot_in_bounds (w : window A) : wf w -> 0 < wsize w -> in_bounds (buf w) (widx w).
Proof. intros (Hs & Hm & H1 & Hi) Hp. unfold in_bounds. lia. Qed.
(** newest: slot [index - 1] or [s_1] *)
Theorem newest_slot_in_bounds (w : window A) : wf w -> 0 < wsize w ->
  in_bounds (buf w) (if widx w - 1 <? 0 then ws1 w else widx w - 1).
Proof. intros (Hs & Hm & H1 & Hi) Hp. unfold in_bounds. destruct (Z.ltb_spec (widx w - 1) 0); lia. Qed.
(** Index (w[i]): whenever slice_index yields a slot of a non-empty window it is inside the buffer *)
Theorem index_slot_in_bounds (w : window A) i k : wf w -> 0 < wsize w -> 0 <= i <= pmax ->
  w_slice_index w i = Ok (Some k) -> in_bounds (buf w) k.
Proof.
  intros Hwf Hp Hi. rewrite (slice_index_spec pmax_ge w i Hwf Hp Hi). destruct Hwf as (Hs & _).
  destruct (Z.ltb_spec i (wsize w)); [|discriminate]. intros [= <-]. unfold in_bounds. rewrite <- Hs.
  apply Z.mod_pos_bound. lia.
Qed.
(** ... but on the EMPTY window slice_index 0 yields slot 0 of an empty buffer: `get` must keep its
    checked access there (both builds use the checked `buf.get`) *)
Theorem empty_get_needs_check (w : window A) : wf w -> wsize w = 0 ->
  w_slice_index w 0 = Ok (Some 0) /\ ~ in_bounds (buf w) 0.
Proof.
  intros Hwf Hz. split; [apply slice_index_empty; assumption|]. destruct Hwf as (Hs & _). unfold in_bounds. lia.
Qed.
(** every access of an iterator that the default build survives is in range: taking k items
    succeeds exactly with the first k elements of the content (C01), i.e. never reads outside *)
Theorem iter_all_defined (w : window A) : wf w -> exists l, w_iter_all w = Ok l /\ length l = length (buf w).
Proof. intros Hwf. exists (content w). split; [apply iter_all; assumption|apply content_length]. Qed.
End Unsafe.

(** SMM: the two indices handed to ptr::copy / get_unchecked_mut are exactly the ones the default
    build passes to copy_within and to the final indexed write; the model returns Panic when one of
    them is out of range, so a run that does not panic only touches in-range slots. *)
Section SmmUnsafe.
Context {pw : PW} {N : Num}.
Theorem smm_indices_in_range (s : smm) x s' y : smm_next s x = Ok (s', y) ->
  let old_index := find_index (snd (w_push_t (smm_window s) x)) (smm_slice s) in
  let index0 := find_insert_index x (smm_slice s) in
  let index := index0 - (if old_index <? index0 then 1 else 0) in
  0 <= old_index < Z.of_nat (length (smm_slice s)) /\ 0 <= index < Z.of_nat (length (smm_slice s)).
Proof.
  unfold smm_next. destruct (fis_finite x); [|discriminate]. cbn [negb].
  destruct (w_push_t (smm_window s) x) as [w old]. cbn [snd].
  destruct (Z.ltb_spec (find_index old (smm_slice s)) 0); [discriminate|].
  destruct (Z.ltb_spec (find_insert_index x (smm_slice s)) 0); [discriminate|]. cbn [orb].
  set (oi := find_index old (smm_slice s)) in *. set (i0 := find_insert_index x (smm_slice s)) in *.
  destruct (Z.leb_spec (Z.of_nat (length (smm_slice s))) oi); [discriminate|].
  destruct (Z.leb_spec (Z.of_nat (length (smm_slice s))) (i0 - (if oi <? i0 then 1 else 0))); [discriminate|].
  cbn [orb]. intros _. cbv zeta. destruct (Z.ltb_spec oi i0); lia.
Qed.
(** the (start, dest, count) triple of ptr::copy denotes the copy_within ranges and stays inside the slice *)
Theorem smm_copy_ranges_in_slice (len oi i : Z) : 0 <= oi < len -> 0 <= i < len -> i <> oi ->
  let after := if oi <? i then 1 else 0 in
  let start := (oi + 1) * after + i * (1 - after) in
  let dest := oi * after + (i + 1) * (1 - after) in
  let count := Z.max 0 (i - oi) * after + Z.max 0 (oi - i) * (1 - after) in
  0 <= start /\ start + count <= len /\ 0 <= dest /\ dest + count <= len.
Proof. intros H1 H2 H3. cbv zeta. destruct (Z.ltb_spec oi i); lia. Qed.
End SmmUnsafe.
