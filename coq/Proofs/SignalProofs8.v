(** C06 continued: Aroon's edge signal (#2) as a rule on the returned values (exact arithmetic): +1 when Aroon-up is exactly 1
    (the newest candle sets the highest high of the window), -1 when Aroon-down is exactly 1. *)
From Yata Require Import Base.Prelude Base.Num Base.NumR Core.Window Core.Candle Core.Action
  Spec.Hist Methods.Basic Methods.Select Indicators.Common Indicators.Set2 Proofs.MethodsCommon Proofs.SignalProofs2.
From Coq Require Import Reals Lra Lia.
Open Scope Z_scope.

Section Aroon.
Context {pw : PW}.
Local Notation R := (@F NumR).
Local Notation C := (candle (N := NumR)).

Lemma ratio_is_one (p hi : Z) : 0 < p -> (Reqb (IZR (p - hi) / IZR p) 1 = (hi =? 0)).
Proof.
  intros Hp. assert (HP : (0 < IZR p)%R) by (apply IZR_lt; exact Hp).
  destruct (Z.eqb_spec hi 0) as [->|Hn].
  - rewrite Z.sub_0_r. destruct (Reqb_spec (IZR p / IZR p) 1) as [_|N]; [reflexivity|]. exfalso. apply N. field. lra.
  - destruct (Reqb_spec (IZR (p - hi) / IZR p) 1) as [E|_]; [|reflexivity]. exfalso. apply Hn.
    assert (E2 : (IZR (p - hi) = IZR p)%R). { apply (Rmult_eq_reg_r (/ IZR p)); [|apply Rinv_neq_0_compat; lra]. rewrite Rinv_r by lra. exact E. }
    apply eq_IZR in E2. lia.
Qed.

Theorem aroon_edge_signal (s : aroon_st (N := NumR)) (k : C) : 0 < ar_period s ->
  let r := snd (aroon_next s k) in
  nth 1 (sigs r) ANone = a_from_i8 (b2z (feq (vals r 0) f1) - b2z (feq (vals r 1) f1)).
Proof.
  intros Hp. cbv zeta. unfold aroon_next. destruct (highest_index_step (ar_high s) _) as (h, hi). destruct (lowest_index_step (ar_low s) _) as (l, li).
  cbv zeta. destruct (cross_next (ar_cross s) _). cbn [snd sigs vals fst nth]. unfold f1. rsimp.
  rewrite !(ratio_is_one _ _ Hp). reflexivity.
Qed.
End Aroon.
