(** The rounding link for the exponential average, PROVED on binary64:
    (1) the fused multiply-add of the model's carrier (Flocq's [Bfma], the same term that is executed in the correspondence runs)
        returns the exact x*y+z times (1 + eps) plus an underflow term, unless it overflows;
    (2) the binary64 EMA recurrence  y' = fma (x - y) alpha y  of [Methods/Basic.v: ema_next] stays within
            (2^-53 * B + 2^-1075) / alpha
        of the exact recurrence on the same inputs AFTER ANY NUMBER OF STEPS, where B bounds the magnitudes of the operations
        of one step: the error does not grow with the length of the stream (the contraction (1 - alpha) absorbs the rounding
        error of every earlier step). *)
From Coq Require Import ZArith Reals Floats Lra Lia Psatz List.
From Flocq Require Import Core BinarySingleNaN PrimFloat Relative Operations.
From Yata Require Import Base.Prelude Base.Num Base.NumR Base.NumF64 Methods.Basic Proofs.RoundingLink.
Import ListNotations.
Open Scope R_scope.

Local Notation pfloat := Coq.Floats.PrimFloat.float.
Local Notation rnd := (round radix2 (FLT_exp (-1074) 53) ZnearestE).
Local Instance Hprec53' : FLX.Prec_gt_0 prec := eq_refl _.
Local Instance Hmax1024' : Prec_lt_emax prec emax := eq_refl _.

Definition eta64 : R := / 2 * bpow radix2 (-1074).    (* 2^-1075 *)

Theorem f64_fma_error (x y z : pfloat) : fin x -> fin y -> fin z -> Rabs (rnd (val x * val y + val z)) < maxf ->
  fin (f64_fma x y z) /\ exists eps eta, Rabs eps <= u64 /\ Rabs eta <= eta64 /\
    val (f64_fma x y z) = (val x * val y + val z) * (1 + eps) + eta.
Proof.
  unfold fin. rewrite !is_finite_equiv. intros Fx Fy Fz Hov. unfold val, f64_fma. rewrite Prim2B_B2Prim.
  pose proof (Bfma_correct prec emax Hprec53' Hmax1024' mode_NE (Prim2B x) (Prim2B y) (Prim2B z) Fx Fy Fz) as H.
  cbv zeta in H. change (SpecFloat.fexp prec emax) with (FLT_exp (-1074) 53) in H. cbn [round_mode] in H.
  rewrite Rlt_bool_true in H by exact Hov. destruct H as (Hv & Hf & _). split; [exact Hf|].
  destruct (error_N_FLT radix2 (-1074) 53 eq_refl (fun z => negb (Z.even z)) (B2R (Prim2B x) * B2R (Prim2B y) + B2R (Prim2B z)))
    as (eps & eta & He & Ht & _ & Hr).
  exists eps, eta. repeat split; try assumption.
  transitivity (rnd (B2R (Prim2B x) * B2R (Prim2B y) + B2R (Prim2B z))); [exact Hv|exact Hr].
Qed.

(** the model's recurrence on both carriers, inputs newest first *)
Fixpoint emaF (a y0 : pfloat) (l : list pfloat) : pfloat :=
  match l with [] => y0 | x :: r => let y := emaF a y0 r in f64_fma (x - y)%float a y end.
Fixpoint emaR (a y0 : R) (l : list R) : R :=
  match l with [] => y0 | x :: r => let y := emaR a y0 r in (x - y) * a + y end.

Lemma emaF_model (a y0 : pfloat) xs :
  emaF a y0 (rev xs) = ema_value (fold_left (fun s x => fst (ema_next (N := NumF64) s x)) xs (mkEMA a y0)) /\
  ema_alpha (fold_left (fun s x => fst (ema_next (N := NumF64) s x)) xs (mkEMA a y0)) = a.
Proof.
  induction xs as [|x xs IH] using rev_ind; [split; reflexivity|].
  rewrite rev_app_distr, fold_left_app. cbn [rev app fold_left emaF]. destruct IH as (IH1 & IH2).
  set (s := fold_left _ xs _) in *. unfold ema_next. cbn [fst ema_value ema_alpha]. split; [|exact IH2].
  change (f64_fma (x - emaF a y0 (rev xs)) a (emaF a y0 (rev xs)) = f64_fma (x - ema_value s) (ema_alpha s) (ema_value s)).
  f_equal; [f_equal; exact IH1 | symmetry; exact IH2 | exact IH1].
Qed.

Lemma emaR_model (a y0 : R) xs :
  emaR a y0 (rev xs) = ema_value (fold_left (fun s x => fst (ema_next (N := NumR) s x)) xs (@mkEMA NumR a y0)) /\
  ema_alpha (fold_left (fun s x => fst (ema_next (N := NumR) s x)) xs (@mkEMA NumR a y0)) = a.
Proof.
  induction xs as [|x xs IH] using rev_ind; [split; reflexivity|].
  rewrite rev_app_distr, fold_left_app. cbn [rev app fold_left emaR]. destruct IH as (IH1 & IH2).
  set (s := fold_left _ xs _) in *. unfold ema_next. cbn [fst ema_value ema_alpha]. split; [|exact IH2].
  change ((x - emaR a y0 (rev xs)) * a + emaR a y0 (rev xs) = (x - ema_value s) * ema_alpha s + ema_value s).
  f_equal; [f_equal; [f_equal; exact IH1 | symmetry; exact IH2] | exact IH1].
Qed.

(** every input finite, no operation overflows *)
Fixpoint ema_ok (a y0 : pfloat) (l : list pfloat) : Prop :=
  match l with
  | [] => True
  | x :: r => let y := emaF a y0 r in
      ema_ok a y0 r /\ fin x /\ Rabs (rnd (val x - val y)) < maxf /\ Rabs (rnd (val (x - y)%float * val a + val y)) < maxf
  end.
(** the magnitudes of the operations of every step are bounded by B *)
Fixpoint ema_scale (a y0 : pfloat) (B : R) (l : list pfloat) : Prop :=
  match l with
  | [] => True
  | x :: r => let y := emaF a y0 r in
      ema_scale a y0 B r /\ val a * Rabs (val x - val y) + Rabs (val (x - y)%float * val a + val y) <= B
  end.

Theorem ema_rounding_link (a y0 : pfloat) (B : R) (l : list pfloat) :
  fin a -> fin y0 -> 0 < val a <= 1 -> 0 <= B -> ema_ok a y0 l -> ema_scale a y0 B l ->
  fin (emaF a y0 l) /\ Rabs (val (emaF a y0 l) - emaR (val a) (val y0) (map val l)) <= (u64 * B + eta64) / val a.
Proof.
  intros Fa Fy0 Ha HB. assert (Hu : 0 <= u64) by (unfold u64; pose proof (bpow_gt_0 radix2 (-53 + 1)); lra).
  assert (Het : 0 < eta64) by (unfold eta64; pose proof (bpow_gt_0 radix2 (-1074)); lra).
  assert (Hc : 0 <= u64 * B + eta64) by (pose proof (Rmult_le_pos _ _ Hu HB); lra).
  induction l as [|x r IH]; intros Hok Hsc.
  - cbn [emaF emaR map]. split; [exact Fy0|]. rewrite Rminus_diag_eq by reflexivity. rewrite Rabs_R0.
    apply Rmult_le_pos; [exact Hc|left; apply Rinv_0_lt_compat; lra].
  - cbn [ema_ok] in Hok. cbn [ema_scale] in Hsc. destruct Hok as (Hr & Fx & Hov1 & Hov2). destruct Hsc as (Sr & Sx).
    destruct (IH Hr Sr) as (Fy & Ey). cbn [emaF emaR map].
    set (yF := emaF a y0 r) in *. set (Y := emaR (val a) (val y0) (map val r)) in *.
    destruct (f64_sub_error x yF Fx Fy Hov1) as (Fd & e1 & He1 & Hd).
    destruct (f64_fma_error (x - yF)%float a yF Fd Fa Fy Hov2) as (Fv & e2 & eta & He2 & Heta & Hv).
    split; [exact Fv|]. rewrite Hv.
    set (al := val a) in *. set (xr := val x) in *. set (y := val yF) in *. set (d := val (x - yF)%float) in *.
    replace ((d * al + y) * (1 + e2) + eta - ((xr - Y) * al + Y))
      with ((1 - al) * (y - Y) + e1 * (al * (xr - y)) + e2 * (d * al + y) + eta) by (rewrite Hd; ring).
    eapply Rle_trans; [apply Rabs_triang|]. eapply Rle_trans; [apply Rplus_le_compat_r, Rabs_triang|].
    eapply Rle_trans; [apply Rplus_le_compat_r, Rplus_le_compat_r, Rabs_triang|]. rewrite !Rabs_mult.
    rewrite (Rabs_pos_eq (1 - al)) by lra. rewrite (Rabs_pos_eq al) by lra.
    assert (H1 : Rabs e1 * (al * Rabs (xr - y)) <= u64 * (al * Rabs (xr - y))).
    { apply Rmult_le_compat_r; [apply Rmult_le_pos; [lra|apply Rabs_pos]|exact He1]. }
    assert (H2 : Rabs e2 * Rabs (d * al + y) <= u64 * Rabs (d * al + y)) by (apply Rmult_le_compat_r; [apply Rabs_pos|exact He2]).
    assert (H3 : (1 - al) * Rabs (y - Y) <= (1 - al) * ((u64 * B + eta64) / al)) by (apply Rmult_le_compat_l; [lra|exact Ey]).
    assert (H4 : u64 * (al * Rabs (xr - y)) + u64 * Rabs (d * al + y) <= u64 * B).
    { rewrite <- Rmult_plus_distr_l. apply Rmult_le_compat_l; [exact Hu|exact Sx]. }
    assert (H5 : (1 - al) * ((u64 * B + eta64) / al) + (u64 * B + eta64) = (u64 * B + eta64) / al) by (field; lra).
    lra.
Qed.

(** ---- the hypotheses decided by computation: finite results mean that nothing overflowed; |x| <= m is a float comparison *)
Lemma finite_sub_no_overflow (x y : pfloat) : fin x -> fin y -> fin (x - y)%float -> Rabs (rnd (val x - val y)) < maxf.
Proof.
  unfold fin. rewrite !is_finite_equiv, sub_equiv. intros Fx Fy Fs.
  pose proof (Bminus_correct prec emax Hprec53' Hmax1024' mode_NE (Prim2B x) (Prim2B y) Fx Fy) as H.
  change (SpecFloat.fexp prec emax) with (FLT_exp (-1074) 53) in H. cbn [round_mode] in H.
  destruct (Rlt_bool_spec (Rabs (rnd (B2R (Prim2B x) - B2R (Prim2B y)))) (bpow radix2 emax)) as [Hlt|Hge]; [exact Hlt|].
  exfalso. destruct H as (Ho & _). unfold binary_overflow in Ho. cbn [overflow_to_inf] in Ho.
  assert (Hi : is_finite (Bminus mode_NE (Prim2B x) (Prim2B y)) = false).
  { destruct (Bminus mode_NE (Prim2B x) (Prim2B y)); cbn in Ho; try discriminate; reflexivity. }
  assert (Hc : is_finite (Bminus mode_NE (Prim2B x) (Prim2B y)) = true) by exact Fs. rewrite Hi in Hc. discriminate.
Qed.

Lemma finite_fma_no_overflow (x y z : pfloat) : fin x -> fin y -> fin z -> fin (f64_fma x y z) ->
  Rabs (rnd (val x * val y + val z)) < maxf.
Proof.
  unfold fin. rewrite !is_finite_equiv. unfold f64_fma. rewrite Prim2B_B2Prim. intros Fx Fy Fz Fs.
  pose proof (Bfma_correct prec emax Hprec53' Hmax1024' mode_NE (Prim2B x) (Prim2B y) (Prim2B z) Fx Fy Fz) as H.
  cbv zeta in H. change (SpecFloat.fexp prec emax) with (FLT_exp (-1074) 53) in H. cbn [round_mode] in H.
  destruct (Rlt_bool_spec (Rabs (rnd (B2R (Prim2B x) * B2R (Prim2B y) + B2R (Prim2B z)))) (bpow radix2 emax)) as [Hlt|Hge]; [exact Hlt|].
  exfalso. unfold binary_overflow in H. cbn [overflow_to_inf] in H.
  assert (Hi : is_finite (Bfma mode_NE (Prim2B x) (Prim2B y) (Prim2B z)) = false).
  { destruct (Bfma mode_NE (Prim2B x) (Prim2B y) (Prim2B z)); cbn in H; try discriminate; reflexivity. }
  assert (Hc : is_finite (Bfma mode_NE (Prim2B x) (Prim2B y) (Prim2B z)) = true) by exact Fs. rewrite Hi in Hc. discriminate.
Qed.

Definition absle (x m : pfloat) : bool := (Coq.Floats.PrimFloat.abs x <=? m)%float.
Lemma absle_ok (x m : pfloat) : fin x -> fin m -> absle x m = true -> Rabs (val x) <= val m.
Proof.
  unfold fin, absle. rewrite !is_finite_equiv, leb_equiv, abs_equiv. intros Fx Fm H.
  rewrite Bleb_correct in H by (rewrite ?is_finite_Babs; assumption). rewrite B2R_Babs in H.
  unfold val. destruct (Rle_bool_spec (Rabs (B2R (Prim2B x))) (B2R (Prim2B m))) as [Hle|Hgt]; [exact Hle|discriminate].
Qed.

(** every input and every state is finite and at most m in magnitude; the difference and the fma are finite *)
Fixpoint ema_boundb (a y0 m : pfloat) (l : list pfloat) : bool :=
  match l with
  | [] => absle y0 m
  | x :: r => let y := emaF a y0 r in
      ema_boundb a y0 m r && Coq.Floats.PrimFloat.is_finite x && absle x m && Coq.Floats.PrimFloat.is_finite (x - y)%float
      && Coq.Floats.PrimFloat.is_finite (f64_fma (x - y)%float a y) && absle (f64_fma (x - y)%float a y) m
  end.

Lemma ema_boundb_ok (a y0 m : pfloat) (l : list pfloat) : fin a -> fin y0 -> fin m -> 0 < val a <= 1 -> ema_boundb a y0 m l = true ->
  fin (emaF a y0 l) /\ Rabs (val (emaF a y0 l)) <= val m /\ ema_ok a y0 l /\ ema_scale a y0 (7 * val m) l.
Proof.
  intros Fa Fy0 Fm Ha. assert (Hu1 : Rabs 1 = 1) by (apply Rabs_pos_eq; lra).
  assert (Hu : 0 <= u64 <= 1).
  { unfold u64. change (-53 + 1)%Z with (-52)%Z. pose proof (bpow_gt_0 radix2 (-52)).
    assert (bpow radix2 (-52) <= bpow radix2 0) by (apply bpow_le; lia). cbn [bpow] in *. lra. }
  induction l as [|x r IH]; cbn [ema_boundb emaF ema_ok ema_scale]; intros H.
  - split; [exact Fy0|]. split; [apply absle_ok; assumption|]. split; exact I.
  - repeat (apply andb_prop in H; let H' := fresh "Hb" in destruct H as (H & H')).
    destruct (IH H) as (Fy & By & Okr & Scr). set (y := emaF a y0 r) in *.
    assert (Fx : fin x) by exact Hb3. assert (Bx := absle_ok x m Fx Fm Hb2).
    assert (Fd : fin (x - y)%float) by exact Hb1. assert (Fv : fin (f64_fma (x - y)%float a y)) by exact Hb0.
    assert (Hov1 := finite_sub_no_overflow x y Fx Fy Fd). assert (Hov2 := finite_fma_no_overflow _ _ _ Fd Fa Fy Fv).
    split; [exact Fv|]. split; [apply absle_ok; assumption|]. split; [repeat split; assumption|]. split; [exact Scr|].
    destruct (f64_sub_error x y Fx Fy Hov1) as (_ & e1 & He1 & Hd).
    set (d := val (x - y)%float) in *. set (al := val a) in *. set (xr := val x) in *. set (yr := val y) in *. set (M := val m) in *.
    assert (Hxy : Rabs (xr - yr) <= 2 * M).
    { unfold Rminus. eapply Rle_trans; [apply Rabs_triang|]. rewrite Rabs_Ropp. lra. }
    assert (Hdd : Rabs d <= 4 * M).
    { rewrite Hd, Rabs_mult. assert (Rabs (1 + e1) <= 2) by (eapply Rle_trans; [apply Rabs_triang|]; rewrite Hu1; lra).
      assert (0 <= Rabs (xr - yr)) by apply Rabs_pos. assert (0 <= Rabs (1 + e1)) by apply Rabs_pos. nra. }
    assert (H1 : al * Rabs (xr - yr) <= 2 * M) by (assert (0 <= Rabs (xr - yr)) by apply Rabs_pos; nra).
    assert (H2 : Rabs (d * al + yr) <= 5 * M).
    { eapply Rle_trans; [apply Rabs_triang|]. rewrite Rabs_mult, (Rabs_pos_eq al) by lra. assert (0 <= Rabs d) by apply Rabs_pos. nra. }
    lra.
Qed.

(** THE uniform bound: independent of the length of the stream *)
Theorem ema_rounding_uniform (a y0 m : pfloat) (l : list pfloat) :
  fin a -> fin y0 -> fin m -> 0 < val a <= 1 -> ema_boundb a y0 m l = true ->
  Rabs (val (emaF a y0 l) - emaR (val a) (val y0) (map val l)) <= (7 * u64 * val m + eta64) / val a.
Proof.
  intros Fa Fy0 Fm Ha Hb. destruct (ema_boundb_ok a y0 m l Fa Fy0 Fm Ha Hb) as (_ & _ & Hok & Hsc).
  assert (HM : 0 <= val m).
  { destruct l as [|x r]; cbn [ema_boundb] in Hb.
    - eapply Rle_trans; [apply Rabs_pos|apply (absle_ok y0 m Fy0 Fm Hb)].
    - repeat (apply andb_prop in Hb; let H' := fresh "Hb" in destruct Hb as (Hb & H')).
      eapply Rle_trans; [apply Rabs_pos|apply (absle_ok x m Hb4 Fm Hb3)]. }
  replace (7 * u64 * val m) with (u64 * (7 * val m)) by ring.
  apply (ema_rounding_link a y0 (7 * val m) l Fa Fy0 Ha); [lra|exact Hok|exact Hsc].
Qed.

(** non-vacuity: a concrete stream that meets the hypotheses (alpha = 2/(9+1), values of very different magnitudes) *)
Example ema_link_witness :
  let a := 0.2%float in let y0 := 1%float in let l := [3; 2e15; 1.5; -0x1.7e43c8800759cp+50; 1; 0.1; 7]%float in
  fin a /\ fin y0 /\ fin 0x1p+60%float /\ ema_boundb a y0 0x1p+60 l = true.
Proof. cbv zeta. repeat split; vm_compute; reflexivity. Qed.

Lemma val_alpha_02 : 0 < val 0.2%float <= 1.
Proof.
  assert (F1 : fin 0.2%float) by reflexivity. assert (F0 : fin 0%float) by reflexivity. assert (F2 : fin 1%float) by reflexivity.
  assert (H1 := absle_ok 0.2%float 1%float F1 F2 eq_refl).
  assert (E1 : val 1%float = 1) by (unfold val; cbn; unfold F2R; cbn; lra). rewrite E1 in H1.
  split; [|eapply Rle_trans; [apply Rle_abs|exact H1]].
  unfold val. cbn. unfold F2R. cbn. lra.
Qed.

(** stated on the model's own step function (the term run against the implementation bit-for-bit) *)
From Yata Require Import Spec.Hist.
Open Scope R_scope.
Theorem ema_model_accuracy (a y0 m : pfloat) (xs : list pfloat) :
  fin a -> fin y0 -> fin m -> 0 < val a <= 1 -> ema_boundb a y0 m (rev xs) = true ->
  Rabs (val (ema_value (steps (ema_next (N := NumF64)) (mkEMA a y0) xs))
        - ema_value (steps (ema_next (N := NumR)) (@mkEMA NumR (val a) (val y0)) (map val xs)))
  <= (7 * u64 * val m + eta64) / val a.
Proof.
  intros Fa Fy0 Fm Ha Hb. unfold steps.
  rewrite <- (proj1 (emaF_model a y0 xs)), <- (proj1 (emaR_model (val a) (val y0) (map val xs))), <- map_rev.
  exact (ema_rounding_uniform a y0 m (rev xs) Fa Fy0 Fm Ha Hb).
Qed.

Example ema_model_accuracy_witness :
  let xs := [7; 0.1; 1; -0x1.7e43c8800759cp+50; 1.5; 2e15; 3]%float in
  Rabs (val (ema_value (steps (ema_next (N := NumF64)) (mkEMA 0.2%float 1%float) xs))
        - ema_value (steps (ema_next (N := NumR)) (@mkEMA NumR (val 0.2%float) (val 1%float)) (map val xs)))
  <= (7 * u64 * val 0x1p+60%float + eta64) / val 0.2%float.
Proof. cbv zeta. apply ema_model_accuracy; try reflexivity; try exact val_alpha_02; vm_compute; reflexivity. Qed.
