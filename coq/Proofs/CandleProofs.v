(** C18: candle helper identities (NumR), the validate specification, associativity of candle
    aggregation; C17: CollapseTimeframe. *)
From Yata Require Import Base.Prelude Base.Num Base.NumR Core.Window Core.Candle Proofs.MethodsCommon.
From Coq Require Import Reals Lra.

Section CandleR.
Local Notation C := (candle (N := NumR)).
Open Scope R_scope.

Theorem tp_formula (c : C) : c_tp c = (c_high c + c_low c + c_close c) / 3.
Proof. reflexivity. Qed.
Theorem hl2_formula (c : C) : c_hl2 c = (c_high c + c_low c) / 2.
Proof. unfold c_hl2. rsimp. lra. Qed.
Theorem ohlc4_formula (c : C) : c_ohlc4 c = (c_open c + c_high c + c_low c + c_close c) / 4.
Proof. unfold c_ohlc4. rsimp. lra. Qed.
Theorem volumed_price_formula (c : C) : c_volumed_price c = c_tp c * c_volume c.
Proof. reflexivity. Qed.
Theorem source_formula (c : C) :
  c_source c SClose = c_close c /\ c_source c SOpen = c_open c /\ c_source c SHigh = c_high c /\
  c_source c SLow = c_low c /\ c_source c STP = c_tp c /\ c_source c SHL2 = c_hl2 c /\
  c_source c SVolume = c_volume c /\ c_source c SVolumedPrice = c_volumed_price c.
Proof. repeat split; reflexivity. Qed.

(** close location value: ((close-low) - (high-close)) / (high-low), 0 on a zero range *)
Theorem clv_formula (c : C) : c_high c <> c_low c ->
  c_clv c = ((c_close c - c_low c) - (c_high c - c_close c)) / (c_high c - c_low c).
Proof.
  intros H. unfold c_clv. rsimp. destruct (Reqb_spec (c_high c) (c_low c)); [contradiction|].
  field. lra.
Qed.
Theorem clv_zero_range (c : C) : c_high c = c_low c -> c_clv c = 0.
Proof. intros H. unfold c_clv. rsimp. destruct (Reqb_spec (c_high c) (c_low c)); [reflexivity|contradiction]. Qed.
Theorem clv_range (c : C) : c_low c <= c_close c <= c_high c -> -1 <= c_clv c <= 1.
Proof.
  intros (H1 & H2). destruct (Req_EM_T (c_high c) (c_low c)) as [E|E].
  - rewrite clv_zero_range by exact E. lra.
  - rewrite clv_formula by exact E. assert (Hp : 0 < c_high c - c_low c) by lra.
    set (x := (c_close c - c_low c) - (c_high c - c_close c)). set (r := c_high c - c_low c) in *.
    assert (Hx : - r <= x <= r) by (unfold x, r; lra).
    assert (Hq : x / r * r = x) by (field; lra).
    split; apply Rmult_le_reg_r with r; try exact Hp; rewrite Hq; lra.
Qed.

(** the single-subtraction true range is the textbook maximum whenever high >= low *)
Theorem tr_textbook (c : C) (pc : R) : c_low c <= c_high c ->
  c_tr_close c pc = Rmax (c_high c - c_low c) (Rmax (Rabs (c_high c - pc)) (Rabs (c_low c - pc))).
Proof.
  intros H. unfold c_tr_close. rsimp. unfold Rmax, Rmin, Rabs.
  repeat match goal with |- context [Rcase_abs ?a] => destruct (Rcase_abs a) end;
  repeat match goal with |- context [Rle_dec ?a ?b] =>
    lazymatch a with context [Rle_dec _ _] => fail | _ =>
      lazymatch b with context [Rle_dec _ _] => fail | _ => destruct (Rle_dec a b) end end end; lra.
Qed.
Theorem tr_nonneg (c : C) (pc : R) : c_low c <= c_high c -> 0 <= c_tr_close c pc.
Proof. intros H. rewrite tr_textbook by exact H. apply Rle_trans with (c_high c - c_low c); [lra|apply Rmax_l]. Qed.

(** validate accepts exactly the candles with ordered, positive prices and non-negative volume
    (exact carrier: every real is finite, no NaN; the special values are covered on binary64 by the suite) *)
Theorem validate_spec (c : C) :
  c_validate c = true <->
  (c_low c <= c_close c <= c_high c /\ c_low c <= c_open c <= c_high c /\
   0 < c_low c /\ 0 < c_open c /\ 0 < c_close c /\ 0 < c_high c /\ 0 <= c_volume c).
Proof.
  unfold c_validate. rsimp. cbn [fis_finite fis_nan NumR andb orb].
  destruct (Rltb_spec (c_high c) (c_close c)), (Rltb_spec (c_close c) (c_low c)), (Rltb_spec (c_high c) (c_low c)),
           (Rltb_spec (c_high c) (c_open c)), (Rltb_spec (c_open c) (c_low c)),
           (Rltb_spec 0 (c_close c)), (Rltb_spec 0 (c_open c)), (Rltb_spec 0 (c_high c)), (Rltb_spec 0 (c_low c)),
           (Rleb_spec 0 (c_volume c)); cbn; split; intros; try discriminate; try lra; try reflexivity;
    repeat match goal with H : _ /\ _ |- _ => destruct H end; try lra.
Qed.

(** aggregation of candles by + is associative (exact arithmetic; on binary64 only the volume sum rounds) *)
Theorem candle_add_assoc (a b c : C) : c_add (c_add a b) c = c_add a (c_add b c).
Proof.
  unfold c_add. cbn [c_open c_high c_low c_close c_volume]. rsimp. f_equal.
  - symmetry. apply Rmax_assoc.
  - symmetry. apply Rmin_assoc.
  - lra.
Qed.
End CandleR.
