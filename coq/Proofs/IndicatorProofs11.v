(** C05 continued: AwesomeOscillator (difference of two averages of the source) and SMIErgodicIndicator (TSI, the
    average of the series of TSI values, and their difference). *)
From Yata Require Import Base.Prelude Base.Num Base.NumR Core.Window Core.WindowSpec Core.Candle Core.Action Core.Strings
  Spec.Hist Spec.MethodDefs Spec.IndicatorDefs Methods.Basic Methods.Select Indicators.Common Indicators.Set3 Indicators.Set4 Indicators.Set5
  Proofs.MethodsCommon Proofs.Windowed Proofs.Windowed4 Proofs.Recursive Proofs.Tsi Proofs.MAProofs Proofs.Cascade Proofs.IndicatorProofs3.
From Coq Require Import Reals Lra.
Open Scope Z_scope.

Section IP11.
Context {pw : PW}.
Local Notation R := (@F NumR).
Local Notation C := (candle (N := NumR)).
Ltac dlet := repeat match goal with |- context [let '(_, _) := ?e in _] => destruct e end.

Lemma ma_proved_all (c : ma_cfg) : ma_proved c = true.
Proof. destruct c as (k, n). destruct k; reflexivity. Qed.

Theorem awesome_oscillator_values_correct (cfg : ao_cfg) (c0 : C) cs c : ao_validate cfg = true ->
  oc_left cfg + oc_right cfg <= pmax - 2 -> ma_len_ok (oc_ma1 cfg) -> ma_len_ok (oc_ma2 cfg) ->
  exists s0, ao_init (N := NumR) cfg c0 = Ok s0 /\
    fst (snd (ao_next (steps ao_next s0 cs) c)) =
    let s0' := c_source c0 (oc_source cfg) in let rs := srcs (oc_source cfg) (rev (cs ++ [c])) in
    [fsub (ma_def (oc_ma2 cfg) s0' rs) (ma_def (oc_ma1 cfg) s0' rs)].
Proof.
  intros Hv Hlr L1 L2. unfold ao_init. rewrite Hv. cbn [negb]. cbv zeta.
  assert (Hr : 1 <= oc_left cfg /\ 1 <= oc_right cfg).
  { unfold ao_validate in Hv. repeat (apply andb_prop in Hv; destruct Hv as (Hv & ?)).
    repeat match goal with H : (_ <? _) = true |- _ => apply Z.ltb_lt in H end. lia. }
  set (f := fun k : C => c_source k (oc_source cfg)).
  destruct (ma_correct (oc_ma1 cfg) (f c0) [] (f c0) (ma_proved_all _) L1) as (a0 & Ea & _).
  destruct (ma_correct (oc_ma2 cfg) (f c0) [] (f c0) (ma_proved_all _) L2) as (b0 & Eb & _).
  unfold f in Ea at 1, Eb at 1. rewrite Ea, Eb. cbn [obind].
  destruct (reversal_new (oc_left cfg) (oc_right cfg) (f0 (N := NumR))) as [r0| |] eqn:Er.
  2:{ exfalso. unfold reversal_new, rev_new in Er. assert (Hsa : sat_add (oc_left cfg) (oc_right cfg) = oc_left cfg + oc_right cfg) by (unfold sat_add; lia).
      rewrite Hsa in Er. destruct (Z.eqb_spec (oc_left cfg) 0); [lia|]. destruct (Z.eqb_spec (oc_right cfg) 0); [lia|].
      destruct (Z.leb_spec (pmax - 1) (oc_left cfg + oc_right cfg)); [lia|]. cbn in Er. discriminate. }
  2:{ exfalso. unfold reversal_new, rev_new in Er. assert (Hsa : sat_add (oc_left cfg) (oc_right cfg) = oc_left cfg + oc_right cfg) by (unfold sat_add; lia).
      rewrite Hsa in Er. destruct (Z.eqb_spec (oc_left cfg) 0); [lia|]. destruct (Z.eqb_spec (oc_right cfg) 0); [lia|].
      destruct (Z.leb_spec (pmax - 1) (oc_left cfg + oc_right cfg)); [lia|]. cbn in Er. discriminate. }
  cbn [obind]. eexists; split; [reflexivity|].
  pose proof (ma_correct' _ _ _ (ma_proved_all _) L1 Ea) as C1. pose proof (ma_correct' _ _ _ (ma_proved_all _) L2 Eb) as C2.
  set (s0 := mkAo cfg a0 b0 (f0, f0) r0 0 0).
  assert (G : forall cs0 s, ao_cfg_ s = cfg ->
     ao_cfg_ (steps ao_next s cs0) = cfg /\ ao_ma1 (steps ao_next s cs0) = steps ma_next (ao_ma1 s) (map f cs0) /\
     ao_ma2 (steps ao_next s cs0) = steps ma_next (ao_ma2 s) (map f cs0)).
  { induction cs0 as [|k r IH]; intros s Es; [repeat split; assumption|]. unfold steps in *. cbn [fold_left map].
    assert (Es' : ao_cfg_ (fst (ao_next s k)) = cfg) by (unfold ao_next; dlet; exact Es).
    destruct (IH _ Es') as (I1 & I2 & I3). split; [exact I1|]. rewrite I2, I3.
    unfold ao_next. rewrite Es. fold (f k). destruct (ma_next (ao_ma2 s) (f k)), (ma_next (ao_ma1 s) (f k)). dlet. split; reflexivity. }
  destruct (G cs s0 eq_refl) as (Hc & H1 & H2).
  unfold ao_next at 1. rewrite Hc, H1, H2. fold (f c). cbn [ao_ma1 ao_ma2 s0].
  pose proof (C1 (map f cs) (f c)) as O1. pose proof (C2 (map f cs) (f c)) as O2.
  destruct (ma_next (steps ma_next b0 (map f cs)) (f c)) as (b', v2). destruct (ma_next (steps ma_next a0 (map f cs)) (f c)) as (a', v1).
  cbn [snd] in O1, O2. dlet. cbn [fst snd]. cbv zeta. rewrite srcs_rev_snoc. rewrite O1, O2. reflexivity.
Qed.

(** ---- SMI ergodic: [TSI; average of the series of TSI values; their difference] *)
Theorem smi_values_correct p1 p2 (signal : ma_cfg) (zone : R) src (c0 : C) cs c :
  1 < p2 <= p1 -> p1 < pmax -> 1 < ma_period signal < pmax -> (0 <= zone <= 1)%R -> ma_len_ok signal ->
  exists s0, smi_init p1 p2 signal zone src c0 = Ok s0 /\
    fst (snd (smi_next (steps smi_next s0 cs) c)) =
    let s0' := c_source c0 src in let rs := srcs src (rev (cs ++ [c])) in
    let t := tsi_line p2 p1 s0' rs in let sg := ma_def signal f0 (series (tsi_line p2 p1 s0') rs) in
    [t; sg; fsub t sg].
Proof.
  intros Hp Hp1 Hs Hz Ls. unfold smi_init.
  destruct (Z.ltb_spec 1 p2); [|lia]. destruct (Z.leb_spec p2 p1); [|lia]. destruct (Z.ltb_spec p1 pmax); [|lia].
  destruct (Z.ltb_spec 1 (ma_period signal)); [|lia]. destruct (Z.ltb_spec (ma_period signal) pmax); [|lia].
  assert (E1 : fge zone (f0 (N := NumR)) = true) by (unfold fge; rsimp; destruct (Rleb_spec 0 zone); [reflexivity|lra]).
  assert (E2 : fle zone (f1 (N := NumR)) = true) by (rsimp; destruct (Rleb_spec zone 1); [reflexivity|lra]).
  rewrite E1, E2. cbn [andb negb].
  set (f := fun k : C => c_source k src).
  assert (R2 : 1 <= p2 <= pmax - 1) by lia. assert (R1 : 1 <= p1 <= pmax - 1) by lia.
  destruct (tsi_correct p2 p1 (f c0) [] (f c0) R2 R1) as (t0 & Et & _).
  destruct (ma_correct signal (f0 (N := NumR)) [] (f0 (N := NumR)) (ma_proved_all _) Ls) as (m0 & Em & _).
  unfold f in Et at 1. rewrite Et, Em. cbn [obind]. eexists; split; [reflexivity|].
  pose proof (ma_correct' _ _ _ (ma_proved_all _) Ls Em) as Cm.
  assert (Ct : forall xs x, snd (tsi_next (steps tsi_next t0 xs) x) = tsi_def p2 p1 (f c0) (rev (xs ++ [x]))).
  { intros xs x. destruct (tsi_correct p2 p1 (f c0) xs x R2 R1) as (t1 & Et1 & Ht1). unfold f in Et1 at 1. rewrite Et in Et1. injection Et1 as <-. exact Ht1. }
  set (s0 := mkSmi zone src t0 m0 (f0, f0)).
  assert (G : forall cs0 s, sm_source s = src ->
     sm_source (steps smi_next s cs0) = src /\ sm_tsi (steps smi_next s cs0) = steps tsi_next (sm_tsi s) (map f cs0)).
  { induction cs0 as [|k r IH]; intros s Es; [split; [assumption|reflexivity]|]. unfold steps in *. cbn [fold_left map].
    assert (Es' : sm_source (fst (smi_next s k)) = src) by (unfold smi_next; dlet; exact Es).
    destruct (IH _ Es') as (I1 & I2). split; [exact I1|]. rewrite I2. f_equal.
    unfold smi_next. rewrite Es. fold (f k). destruct (tsi_next (sm_tsi s) (f k)). dlet. reflexivity. }
  set (line := fun (rcs : list C) => tsi_line p2 p1 (f c0) (srcs src rcs)).
  set (inp := fun (s : smi_st (N := NumR)) (k : C) => snd (tsi_next (sm_tsi s) (c_source k (sm_source s)))).
  assert (HD : forall p k, inp (steps smi_next s0 p) k = line (rev (p ++ [k]))).
  { intros p k. destruct (G p s0 eq_refl) as (Hc & H1'). unfold inp. rewrite Hc, H1'. fold (f k). cbn [sm_tsi s0].
    rewrite Ct. unfold line, tsi_line. rewrite srcs_rev_snoc. reflexivity. }
  assert (Hproj : forall s k, sm_ma (fst (smi_next s k)) = fst (ma_next (sm_ma s) (inp s k))).
  { intros s k. unfold smi_next, inp. destruct (tsi_next (sm_tsi s) _). cbn [snd]. destruct (ma_next (sm_ma s) _). dlet. reflexivity. }
  pose proof (proj_steps smi_next ma_next sm_ma inp Hproj cs s0) as Hsm.
  assert (Hout : fst (snd (smi_next (steps smi_next s0 cs) c)) =
      let v := inp (steps smi_next s0 cs) c in let sg := snd (ma_next (sm_ma (steps smi_next s0 cs)) v) in [v; sg; fsub v sg]).
  { unfold smi_next at 1. unfold inp. destruct (tsi_next (sm_tsi _) _). cbn [snd]. destruct (ma_next (sm_ma _) _). dlet. reflexivity. }
  rewrite Hout. cbv zeta. rewrite Hsm. cbn [sm_ma s0]. rewrite Cm.
  rewrite (inputs_series_next smi_next inp line s0 HD cs c). rewrite HD.
  unfold line, series, f, srcs. rewrite suffixes_map, map_map. reflexivity.
Qed.

(** ---- Woodies CCI: the turbo and the trend CCI of the source, both scaled by 1/1.5 *)
Theorem woodies_cci_values_correct p1 p2 lag src (c0 : C) cs c : 1 <= p1 -> p1 < p2 -> p2 < pmax -> 0 < lag < pmax ->
  exists s0, wcci_init p1 p2 lag src c0 = Ok s0 /\
    fst (snd (wcci_next (steps wcci_next s0 cs) c)) =
    let h := hget (c_source c0 src) (srcs src (rev (cs ++ [c]))) in
    [fmul (cci_def (Z.to_nat p1) h) cci_scale; fmul (cci_def (Z.to_nat p2) h) cci_scale].
Proof.
  intros H1 H12 H2 Hl. unfold wcci_init.
  destruct (Z.ltb_spec p1 p2); [|lia]. destruct (Z.ltb_spec 0 lag); [|lia]. destruct (Z.ltb_spec p2 pmax); [|lia]. destruct (Z.ltb_spec lag pmax); [|lia].
  cbn [andb negb]. cbv zeta.
  set (f := fun k : C => c_source k src).
  assert (R1 : 1 <= p1 <= pmax - 1) by lia. assert (R2 : 1 <= p2 <= pmax - 1) by lia.
  destruct (cci_correct p1 (f c0) [] (f c0) R1) as (a0 & Ea & _). destruct (cci_correct p2 (f c0) [] (f c0) R2) as (b0 & Eb & _).
  unfold f in Ea at 1, Eb at 1. rewrite Ea, Eb. cbn [obind]. eexists; split; [reflexivity|].
  assert (Ca : forall xs x, snd (cci_next (steps cci_next a0 xs) x) = cci_def (Z.to_nat p1) (hget (f c0) (rev (xs ++ [x])))).
  { intros xs x. destruct (cci_correct p1 (f c0) xs x R1) as (q & Eq & Hq). unfold f in Eq at 1. rewrite Ea in Eq. injection Eq as <-. exact Hq. }
  assert (Cb : forall xs x, snd (cci_next (steps cci_next b0 xs) x) = cci_def (Z.to_nat p2) (hget (f c0) (rev (xs ++ [x])))).
  { intros xs x. destruct (cci_correct p2 (f c0) xs x R2) as (q & Eq & Hq). unfold f in Eq at 1. rewrite Eb in Eq. injection Eq as <-. exact Hq. }
  set (s0 := mkWcci lag src a0 b0 0 (f0, f0)).
  assert (G : forall cs0 s, wc_source s = src ->
     wc_source (steps wcci_next s cs0) = src /\ wc_turbo (steps wcci_next s cs0) = steps cci_next (wc_turbo s) (map f cs0) /\
     wc_trend (steps wcci_next s cs0) = steps cci_next (wc_trend s) (map f cs0)).
  { induction cs0 as [|k r IH]; intros s Es; [repeat split; assumption|]. unfold steps in *. cbn [fold_left map].
    assert (Es' : wc_source (fst (wcci_next s k)) = src) by (unfold wcci_next; dlet; exact Es).
    destruct (IH _ Es') as (I1 & I2 & I3). split; [exact I1|]. rewrite I2, I3.
    unfold wcci_next. rewrite Es. fold (f k). destruct (cci_next (wc_turbo s) (f k)), (cci_next (wc_trend s) (f k)). dlet. split; reflexivity. }
  destruct (G cs s0 eq_refl) as (Hs & Ht & Hr).
  unfold wcci_next at 1. rewrite Hs, Ht, Hr. fold (f c). cbn [wc_turbo wc_trend s0].
  pose proof (Ca (map f cs) (f c)) as Oa. pose proof (Cb (map f cs) (f c)) as Ob.
  destruct (cci_next (steps cci_next a0 (map f cs)) (f c)) as (a', t0). destruct (cci_next (steps cci_next b0 (map f cs)) (f c)) as (b', r0).
  cbn [snd] in Oa, Ob. dlet. cbn [fst snd]. cbv zeta. rewrite srcs_rev_snoc, Oa, Ob. reflexivity.
Qed.

(** ---- Ease of movement: the average of  (midpoint move over p2 bars) * (high - low) / volume  (0 on a zero-volume bar) *)
Definition eom_raw (p2 : Z) (c0 : C) (l : list C) : R :=
  let h := hget c0 l in let k := h O in let prev := h (Z.to_nat p2) in
  let d := fmul (fadd (fsub (c_high k) (c_high prev)) (fsub (c_low k) (c_low prev))) (flit 1 2) in
  if feq (c_volume k) f0 then f0 else fdiv (fmul d (fsub (c_high k) (c_low k))) (c_volume k).
Theorem eom_values_correct (ma : ma_cfg) p2 (c0 : C) cs c : 1 < ma_period ma < pmax -> 1 <= p2 < pmax -> ma_len_ok ma ->
  exists s0, eom_init ma p2 c0 = Ok s0 /\
    fst (snd (eom_next (steps eom_next s0 cs) c)) = [ma_def ma f0 (series (eom_raw p2 c0) (rev (cs ++ [c])))].
Proof.
  intros Hm Hp Lm. unfold eom_init.
  destruct (Z.ltb_spec 1 (ma_period ma)); [|lia]. destruct (Z.ltb_spec (ma_period ma) pmax); [|lia].
  destruct (Z.leb_spec 1 p2); [|lia]. destruct (Z.ltb_spec p2 pmax); [|lia]. cbn [andb negb].
  destruct (ma_correct ma (f0 (N := NumR)) [] (f0 (N := NumR)) (ma_proved_all _) Lm) as (m0 & Em & _). rewrite Em. cbn [obind].
  eexists; split; [reflexivity|].
  pose proof (ma_correct' _ _ _ (ma_proved_all _) Lm Em) as Cm.
  assert (Hn1 : 1 <= p2) by lia. destruct (nat_len p2 Hn1) as (m & En).
  set (s0 := mkEom m0 (w_new_t p2 c0) (cross_new (f0, f0), cross_new (f0, f0))).
  assert (Hinv : forall p, WinOK (S m) (eo_w (steps eom_next s0 p)) (hget c0 (rev p))).
  { intros p. induction p as [|a q IH] using rev_ind.
    - change (steps eom_next s0 []) with s0. cbn [eo_w s0]. pose proof (winok_new p2 c0) as W. rewrite En in W. apply W. lia.
    - rewrite steps_snoc, rev_unit. destruct (winok_push m _ _ a IH) as (w' & Pw & Hw'). unfold eom_next at 1. rewrite Pw. cbv beta iota. dlet. exact Hw'. }
  set (inp := fun (s : eom_st (N := NumR)) (k : C) =>
     let prev := snd (w_push_t (eo_w s) k) in
     let d := fmul (fadd (fsub (c_high k) (c_high prev)) (fsub (c_low k) (c_low prev))) (flit 1 2) in
     if feq (c_volume k) f0 then f0 else fdiv (fmul d (fsub (c_high k) (c_low k))) (c_volume k)).
  assert (HD : forall p k, inp (steps eom_next s0 p) k = eom_raw p2 c0 (rev (p ++ [k]))).
  { intros p k. destruct (winok_push m _ _ k (Hinv p)) as (w' & Pw & _). unfold inp. cbv zeta. rewrite Pw. cbn [snd].
    unfold eom_raw. cbv zeta. rewrite rev_unit, En. change (hget c0 (k :: rev p)) with (hcons k (hget c0 (rev p))). cbn [hcons]. reflexivity. }
  assert (Hproj : forall s k, eo_ma (fst (eom_next s k)) = fst (ma_next (eo_ma s) (inp s k))).
  { intros s k. unfold eom_next, inp. destruct (w_push_t (eo_w s) k). cbn [snd]. destruct (ma_next (eo_ma s) _). dlet. reflexivity. }
  pose proof (proj_steps eom_next ma_next eo_ma inp Hproj cs s0) as S1.
  assert (Hout : fst (snd (eom_next (steps eom_next s0 cs) c)) =
     [snd (ma_next (eo_ma (steps eom_next s0 cs)) (inp (steps eom_next s0 cs) c))]).
  { unfold eom_next at 1. unfold inp. destruct (w_push_t (eo_w _) c). cbn [snd]. destruct (ma_next (eo_ma _) _). dlet. reflexivity. }
  rewrite Hout, S1. cbn [eo_ma s0]. rewrite Cm.
  rewrite (inputs_series_next eom_next inp (eom_raw p2 c0) s0 HD cs c). reflexivity.
Qed.
End IP11.
