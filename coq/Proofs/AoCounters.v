(** C07: the saturating 8-bit peak counters of AwesomeOscillator are unobservable - an instance with unbounded counters
    returns the same values and signals for ever (conseq_peaks is at most 255, and a saturated counter still satisfies
    ">= conseq_peaks"), on every carrier. *)
From Yata Require Import Base.Prelude Base.Num Core.Window Core.Candle Core.Action Core.Strings Spec.Hist
  Methods.Basic Methods.Select Indicators.Common Indicators.Set4.
From Coq Require Import Lia ZArith.
Open Scope Z_scope.

Section Ao.
Context {pw : PW} {N : Num}.
(** the same step with unbounded counters *)
Definition ao_next_unb (s : ao_st) (k : candle) : ao_st * iresult :=
  let c := ao_cfg_ s in
  let src := c_source k (oc_source c) in
  let '(b, v2) := ma_next (ao_ma2 s) src in
  let '(a, v1) := ma_next (ao_ma1 s) src in
  let value := fsub v2 v1 in
  let '(r, ra) := reversal_next (ao_rev s) value in
  let reverse := a_to_i8 ra in
  let hp := ao_high s + b2z (0 <? reverse) in
  let lp := ao_low s + b2z (reverse <? 0) in
  let s1 := b2z ((reverse <? 0) && (oc_peaks c <=? lp)) - b2z ((0 <? reverse) && (oc_peaks c <=? hp)) in
  let '(cx, s2) := cross_next (ao_cross s) (value, f0) in
  (mkAo c a b cx r (lp * b2z (fle value f0)) (hp * b2z (fge value f0)), ([value], [a_from_i8 s1; s2])).

(** [s] (8-bit saturating) simulates [u] (unbounded) *)
Definition ao_sim (s u : ao_st) : Prop :=
  ao_cfg_ s = ao_cfg_ u /\ ao_ma1 s = ao_ma1 u /\ ao_ma2 s = ao_ma2 u /\ ao_cross s = ao_cross u /\ ao_rev s = ao_rev u /\
  0 <= ao_high u /\ 0 <= ao_low u /\ ao_high s = Z.min 255 (ao_high u) /\ ao_low s = Z.min 255 (ao_low u).

Lemma ao_sim_step s u k : oc_peaks (ao_cfg_ u) <= 255 -> ao_sim s u ->
  ao_sim (fst (ao_next s k)) (fst (ao_next_unb u k)) /\ snd (ao_next s k) = snd (ao_next_unb u k).
Proof.
  intros Hp (E1 & E2 & E3 & E4 & E5 & Hh & Hl & Eh & El). unfold ao_next, ao_next_unb. rewrite E1, E2, E3, E4, E5, Eh, El.
  destruct (ma_next (ao_ma2 u) _) as (b, v2). destruct (ma_next (ao_ma1 u) _) as (a, v1).
  destruct (reversal_next (ao_rev u) _) as (r, ra). destruct (cross_next (ao_cross u) _) as (cx, s2).
  set (rv := a_to_i8 ra). set (P := oc_peaks (ao_cfg_ u)) in *.
  assert (Hb1 : 0 <= b2z (0 <? rv) <= 1) by (destruct (0 <? rv); cbn; lia).
  assert (Hb2 : 0 <= b2z (rv <? 0) <= 1) by (destruct (rv <? 0); cbn; lia).
  assert (Eh' : u8_sat (Z.min 255 (ao_high u) + b2z (0 <? rv)) = Z.min 255 (ao_high u + b2z (0 <? rv))) by (unfold u8_sat; lia).
  assert (El' : u8_sat (Z.min 255 (ao_low u) + b2z (rv <? 0)) = Z.min 255 (ao_low u + b2z (rv <? 0))) by (unfold u8_sat; lia).
  rewrite Eh', El'.
  assert (C1 : (P <=? Z.min 255 (ao_low u + b2z (rv <? 0))) = (P <=? ao_low u + b2z (rv <? 0))).
  { destruct (Z.leb_spec P (Z.min 255 (ao_low u + b2z (rv <? 0)))), (Z.leb_spec P (ao_low u + b2z (rv <? 0))); try reflexivity; lia. }
  assert (C2 : (P <=? Z.min 255 (ao_high u + b2z (0 <? rv))) = (P <=? ao_high u + b2z (0 <? rv))).
  { destruct (Z.leb_spec P (Z.min 255 (ao_high u + b2z (0 <? rv)))), (Z.leb_spec P (ao_high u + b2z (0 <? rv))); try reflexivity; lia. }
  rewrite C1, C2. cbn [fst snd]. split; [|reflexivity].
  unfold ao_sim. cbn [ao_cfg_ ao_ma1 ao_ma2 ao_cross ao_rev ao_high ao_low].
  repeat split; try reflexivity.
  - destruct (fge (fsub v2 v1) f0); cbn [b2z]; lia.
  - destruct (fle (fsub v2 v1) f0); cbn [b2z]; lia.
  - destruct (fge (fsub v2 v1) f0); cbn [b2z]; lia.
  - destruct (fle (fsub v2 v1) f0); cbn [b2z]; lia.
Qed.

Theorem ao_saturation_unobservable (s0 : ao_st) cs : oc_peaks (ao_cfg_ s0) <= 255 -> 0 <= ao_high s0 <= 255 -> 0 <= ao_low s0 <= 255 ->
  run ao_next s0 cs = run ao_next_unb s0 cs.
Proof.
  intros Hp Hh Hl.
  assert (G : forall cs s u, oc_peaks (ao_cfg_ u) <= 255 -> ao_sim s u -> run ao_next s cs = run ao_next_unb u cs).
  { clear. induction cs as [|c r IH]; intros s u Hp Hs; [reflexivity|]. cbn [run].
    destruct (ao_sim_step s u c Hp Hs) as (Hs' & Ho).
    destruct (ao_next s c) as (s', o) eqn:E1. destruct (ao_next_unb u c) as (u', o') eqn:E2. cbn [fst snd] in *. subst o'.
    f_equal. apply IH; [|exact Hs'].
    destruct Hs' as (Ec & _). rewrite <- Ec. destruct Hs as (Ec0 & _).
    assert (ao_cfg_ s' = ao_cfg_ s).
    { pose proof (f_equal fst E1) as F. cbn in F. rewrite <- F. unfold ao_next.
      repeat match goal with |- context [let '(_, _) := ?e in _] => destruct e end. reflexivity. }
    congruence. }
  apply G; [exact Hp|]. unfold ao_sim. repeat split; try reflexivity; lia.
Qed.
End Ao.
