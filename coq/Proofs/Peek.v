(** C09: peek returns the value most recently produced (for every Num instance:
    these are equalities of terms, no arithmetic is needed). *)
From Yata Require Import Base.Prelude Base.Num Core.Window Core.Candle Core.Action Methods.Basic Methods.Select.

Section Peek.
Context {pw : PW} {N : Num}.

Tactic Notation "pk" reference(f) := intros; unfold f;
  repeat match goal with |- context [let '(_, _) := ?e in _] => destruct e end; cbv zeta; reflexivity.

Theorem sma_peek_ok s x : sma_peek (fst (sma_next s x)) = snd (sma_next s x). Proof. pk sma_next. Qed.
Theorem wma_peek_ok s x : wma_peek (fst (wma_next s x)) = snd (wma_next s x). Proof. pk wma_next. Qed.
Theorem ema_peek_ok s x : ema_peek (fst (ema_next s x)) = snd (ema_next s x). Proof. pk ema_next. Qed.
Theorem rma_peek_ok s x : rma_peek (fst (rma_next s x)) = snd (rma_next s x). Proof. pk rma_next. Qed.
Theorem dma_peek_ok s x : dma_peek (fst (dma_next s x)) = snd (dma_next s x).
Proof. unfold dma_next. destruct (ema_next (dma_ema s) x) as [e y].
  pose proof (ema_peek_ok (dma_dma s) y). destruct (ema_next (dma_dma s) y) as [d z]. exact H. Qed.
Theorem tma_peek_ok s x : tma_peek (fst (tma_next s x)) = snd (tma_next s x).
Proof. unfold tma_next. destruct (dma_next (tma_dma s) x) as [e y].
  pose proof (ema_peek_ok (tma_tma s) y). destruct (ema_next (tma_tma s) y) as [d z]. exact H. Qed.
Theorem dema_peek_ok s x : dema_peek (fst (dema_next s x)) = snd (dema_next s x). Proof. pk dema_next. Qed.
Theorem tema_peek_ok s x : tema_peek (fst (tema_next s x)) = snd (tema_next s x). Proof. pk tema_next. Qed.
Theorem trima_peek_ok s x : trima_peek (fst (trima_next s x)) = snd (trima_next s x).
Proof. unfold trima_next. destruct (sma_next (tr_sma1 s) x) as [a y].
  pose proof (sma_peek_ok (tr_sma2 s) y). destruct (sma_next (tr_sma2 s) y) as [b z]. exact H. Qed.
Theorem hma_peek_ok s x : hma_peek (fst (hma_next s x)) = snd (hma_next s x).
Proof. unfold hma_next. destruct (wma_next (hma_w1 s) x) as [a w1]. destruct (wma_next (hma_w2 s) x) as [b w2].
  pose proof (wma_peek_ok (hma_w3 s) (ffma w1 f2 (fneg w2))).
  destruct (wma_next (hma_w3 s) (ffma w1 f2 (fneg w2))) as [c y]. exact H. Qed.
Theorem linreg_peek_ok s x : linreg_peek (fst (linreg_next s x)) = snd (linreg_next s x). Proof. pk linreg_next. Qed.
Theorem conv_peek_ok s x : conv_peek (fst (conv_next s x)) = snd (conv_next s x). Proof. pk conv_next. Qed.
Theorem vwma_peek_ok s x : vwma_peek (fst (vwma_next s x)) = snd (vwma_next s x). Proof. pk vwma_next. Qed.
Theorem stdev_peek_ok s x : stdev_peek (fst (stdev_next s x)) = snd (stdev_next s x). Proof. pk stdev_next. Qed.
Theorem mad_peek_ok s x : mad_peek (fst (mad_next s x)) = snd (mad_next s x). Proof. pk mad_next. Qed.
Theorem linvol_peek_ok s x : linvol_peek (fst (linvol_next s x)) = snd (linvol_next s x). Proof. pk linvol_next. Qed.
Theorem vidya_peek_ok s x : vidya_peek (fst (vidya_next s x)) = snd (vidya_next s x). Proof. pk vidya_next. Qed.
Theorem tsi_peek_ok s x : tsi_peek (fst (tsi_next s x)) = snd (tsi_next s x). Proof. pk tsi_next. Qed.
Theorem integral_peek_ok s x : integral_peek (fst (integral_next s x)) = snd (integral_next s x).
Proof. unfold integral_next. cbv zeta. destruct (w_is_empty (in_window s)); [reflexivity|].
  destruct (w_push_t (in_window s) x). reflexivity. Qed.
Theorem adi_peek_ok s c : adi_peek (fst (adi_next s c)) = snd (adi_next s c).
Proof. unfold adi_next. cbv zeta. destruct (w_is_empty (adi_window s)); [reflexivity|].
  destruct (w_push_t (adi_window s) _). reflexivity. Qed.
(** SWMA for every length, length 1 (empty right window) included *)
Theorem swma_peek_ok s x : sw_invert_sum s = f1 -> (forall y, fmul y f1 = y) \/ w_is_empty (sw_right_window s) = false ->
  swma_peek (fst (swma_next s x)) = snd (swma_next s x).
Proof.
  intros Hi Hc. unfold swma_next. destruct (w_is_empty (sw_right_window s)) eqn:E.
  - destruct Hc as [Hm|Hc]; [|discriminate]. unfold swma_peek. cbn [fst snd sw_numerator sw_invert_sum]. rewrite Hi. apply Hm.
  - destruct (w_push_t (sw_right_window s) x) as [rw rp]. destruct (w_push_t (sw_left_window s) rp). reflexivity.
Qed.
Theorem highest_peek_ok s x : hl_peek (fst (highest_step s x)) = snd (highest_step s x). Proof. pk highest_step. Qed.
Theorem lowest_peek_ok s x : hl_peek (fst (lowest_step s x)) = snd (lowest_step s x). Proof. pk lowest_step. Qed.
Theorem hli_peek_ok b k s x : hli_peek (fst (hindex_step b k s x)) = snd (hindex_step b k s x).
Proof. unfold hindex_step. destruct (w_push_t (hli_window s) x).
  match goal with |- context [let '(_, _) := ?e in _] => destruct e end. reflexivity. Qed.
End Peek.
