(** C02 (continued): LinReg — the incremental sums equal the least-squares
    intercept at the newest point, including the closed forms of s_x, s_x2. *)
From Yata Require Import Base.Prelude Base.Num Base.NumR Core.Window Core.WindowSpec Core.Candle
  Spec.Hist Spec.MethodDefs Methods.Basic Proofs.MethodsCommon Proofs.Windowed Proofs.Windowed2.
From Coq Require Import Reals Lra Lia.
Open Scope Z_scope.

(** closed forms in Z: k n = n(n-1)/2 = sum of i<n ; sq n = sum of i^2 *)
Fixpoint zsum (n : nat) : Z := match n with O => 0 | S m => zsum m + Z.of_nat m end.
Fixpoint zsq (n : nat) : Z := match n with O => 0 | S m => zsq m + Z.of_nat m * Z.of_nat m end.
Lemma zsum_closed n : 2 * zsum n = Z.of_nat n * (Z.of_nat n - 1).
Proof. induction n as [|n IH]; [reflexivity|]. cbn [zsum]. rewrite Nat2Z.inj_succ. nia. Qed.
Lemma zsum_div n : Z.of_nat n * (Z.of_nat n - 1) / 2 = zsum n.
Proof. rewrite <- zsum_closed. rewrite Z.mul_comm. apply Z.div_mul. lia. Qed.
Lemma zsq_closed n : 3 * zsq n = zsum n * (2 * (Z.of_nat n - 1) + 1).
Proof. induction n as [|n IH]; [reflexivity|]. cbn [zsum zsq]. rewrite Nat2Z.inj_succ.
  pose proof (zsum_closed n). nia. Qed.
Lemma zsq_div n : zsum n * (2 * (Z.of_nat n - 1) + 1) / 3 = zsq n.
Proof. rewrite <- zsq_closed. rewrite Z.mul_comm. apply Z.div_mul. lia. Qed.

Open Scope R_scope.
Lemma gsum_INR n : gsum (N := NumR) n (fun i => INR i) = IZR (zsum n).
Proof. induction n as [|n IH]; [reflexivity|]. rewrite gsum_S, IH. cbn [zsum]. rewrite plus_IZR, <- INR_IZR_INZ. reflexivity. Qed.
Lemma gsum_INR_sq n : gsum (N := NumR) n (fun i => INR i * INR i) = IZR (zsq n).
Proof. induction n as [|n IH]; [reflexivity|]. rewrite gsum_S, IH. cbn [zsq].
  rewrite plus_IZR, mult_IZR, <- INR_IZR_INZ. reflexivity. Qed.
(** Cauchy-Schwarz slack: n * sum i^2 - (sum i)^2 > 0 for n >= 2 (the divider is defined) *)
Lemma linreg_den_pos n : (2 <= n)%nat -> (0 < Z.of_nat n * zsq n - zsum n * zsum n)%Z.
Proof.
  intros Hn. pose proof (zsum_closed n). pose proof (zsq_closed n).
  assert (12 * (Z.of_nat n * zsq n - zsum n * zsum n) = Z.of_nat n * Z.of_nat n * (Z.of_nat n * Z.of_nat n - 1))%Z by nia.
  nia.
Qed.
Open Scope Z_scope.

Section Proofs.
Context {pw : PW}.
Local Notation "'R'" := (@F NumR) (only parsing).

Definition lr_sxy (n : nat) (h : nat -> R) : R := gsum n (fun i => (- INR i * h i)%R).
Definition linreg_inv (n : nat) (s : linreg (N := NumR)) (h : nat -> R) : Prop :=
  WinOK n (lr_window s) h /\ lr_fl s = INR n /\ lr_linv s = (- / INR n)%R /\
  lr_s_x s = (- IZR (zsum n))%R /\
  lr_divider s = (/ IZR (Z.of_nat n * zsq n - zsum n * zsum n))%R /\
  lr_s_y s = (- hsum n h)%R /\ lr_s_xy s = lr_sxy n h.

Lemma linreg_out n (s : linreg (N := NumR)) h : (2 <= n)%nat -> linreg_inv n s h -> linreg_b s = linreg_def n h.
Proof.
  intros Hn (_ & Hfl & Hli & Hsx & Hdv & Hsy & Hsxy).
  unfold linreg_b, linreg_tan, linreg_def. rewrite Hfl, Hli, Hsx, Hdv, Hsy, Hsxy.
  assert (E1 : gsum (N := NumR) n (fun i => fneg (fofN i)) = (- IZR (zsum n))%R).
  { rewrite (gsum_ext _ _ (fun i => (-1) * INR i)%R) by (intros; rewrite fofN_INR; rsimp; lra).
    rewrite gsum_scal, gsum_INR. lra. }
  assert (E2 : gsum (N := NumR) n (fun i => fmul (fofN i) (fofN i)) = IZR (zsq n)).
  { rewrite (gsum_ext _ _ (fun i => INR i * INR i)%R) by (intros; rewrite !fofN_INR; reflexivity).
    apply gsum_INR_sq. }
  assert (E3 : gsum (N := NumR) n (fun i => fmul (fneg (fofN i)) (h i)) = lr_sxy n h).
  { unfold lr_sxy. apply gsum_ext. intros; rewrite fofN_INR; reflexivity. }
  rewrite E1, E2, E3, fofN_INR.
  pose proof (linreg_den_pos n Hn) as Hd. apply IZR_lt in Hd.
  rewrite minus_IZR, !mult_IZR, <- INR_IZR_INZ in *.
  assert (Hn0 : INR n <> 0%R) by (apply not_0_INR; lia).
  set (SX := IZR (zsum n)) in *. set (SQ := IZR (zsq n)) in *. set (SY := hsum n h). set (SXY := lr_sxy n h).
  clearbody SX SQ SY SXY. rsimp. field. split; [lra|exact Hn0].
Qed.

Lemma lr_sxy_hcons n x (h : nat -> R) :
  lr_sxy (S n) (hcons x h) = (lr_sxy (S n) h + INR (S n) * h n - hsum (S n) h)%R.
Proof.
  unfold lr_sxy, hsum. rewrite gsum_S_shift, !gsum_S. cbn [hcons].
  rewrite (gsum_ext n (fun i => - INR (S i) * h i)%R (fun i => - INR i * h i + (-1) * h i)%R)
    by (intros; rewrite S_INR; lra).
  rewrite gsum_plus, gsum_scal. rewrite S_INR. simpl INR at 1. lra.
Qed.

Lemma linreg_step n s h x : linreg_inv (S (S n)) s h ->
  linreg_inv (S (S n)) (fst (linreg_next s x)) (hcons x h) /\
  snd (linreg_next s x) = linreg_def (S (S n)) (hcons x h).
Proof.
  intros Hi. pose proof Hi as (Hw & Hfl & Hli & Hsx & Hdv & Hsy & Hsxy).
  destruct (winok_push (S n) _ h x Hw) as (w' & Hp & Hw').
  unfold linreg_next. rewrite Hp. cbv zeta. cbn [fst snd].
  match goal with |- ?I _ ?s' _ /\ _ => assert (Hi' : I (S (S n)) s' (hcons x h)) end.
  { split; [exact Hw'|]. cbn [lr_fl lr_linv lr_s_x lr_divider lr_s_y lr_s_xy].
    split; [exact Hfl|]. split; [exact Hli|]. split; [exact Hsx|]. split; [exact Hdv|].
    rewrite lr_sxy_hcons, Hsxy, Hsy, Hfl.
    assert (G : hsum (S (S n)) (hcons x h) = (hsum (S (S n)) h + x - h (S n))%R).
    { unfold hsum. pose proof (gsum_hcons (S n) x h (fun y => y)) as G0. cbn beta in G0.
      change (gsum (N := NumR) (S (S n)) (fun i => hcons x h i)) with (gsum (N := NumR) (S (S n)) (hcons x h)) in G0.
      change (gsum (N := NumR) (S (S n)) (fun i => h i)) with (gsum (N := NumR) (S (S n)) h) in G0. lra. }
    rewrite G. rsimp. split; lra. }
  split; [exact Hi'|apply linreg_out; [lia|exact Hi']].
Qed.

Lemma linreg_init n v : 2 <= n <= pmax - 1 ->
  exists s0, linreg_new n v = Ok s0 /\ linreg_inv (Z.to_nat n) s0 (hconst v).
Proof.
  intros Hn. unfold linreg_new.
  destruct (Z.eqb_spec n 0), (Z.eqb_spec n 1), (Z.eqb_spec n pmax); try lia. cbn [orb].
  eexists; split; [reflexivity|]. split; [apply winok_new; lia|].
  cbn [lr_fl lr_linv lr_s_x lr_divider lr_s_y lr_s_xy].
  assert (En : n = Z.of_nat (Z.to_nat n)) by lia.
  assert (Es : n * (n - 1) / 2 = zsum (Z.to_nat n)) by (rewrite En at 1 2; apply zsum_div).
  assert (Eq : n * (n - 1) / 2 * (2 * (n - 1) + 1) / 3 = zsq (Z.to_nat n)).
  { rewrite Es. replace (2 * (n - 1) + 1) with (2 * (Z.of_nat (Z.to_nat n) - 1) + 1) by lia. apply zsq_div. }
  rewrite Eq, Es. unfold frecip. rsimp. rewrite (IZR_nat n) by lia.
  assert (Hn0 : INR (Z.to_nat n) <> 0%R) by (apply not_0_INR; lia).
  split; [reflexivity|]. split; [unfold Rdiv; lra|]. split; [reflexivity|].
  split; [rewrite <- En; unfold Rdiv; lra|].
  unfold hsum, lr_sxy, hconst. rewrite gsum_const. split; [lra|].
  rewrite (gsum_ext _ _ (fun i => (- v) * INR i)%R) by (intros; lra).
  rewrite gsum_scal, gsum_INR. lra.
Qed.

Theorem linreg_correct n v xs x : 2 <= n <= pmax - 1 ->
  exists s0, linreg_new n v = Ok s0 /\
    snd (linreg_next (steps linreg_next s0 xs) x) = linreg_def (Z.to_nat n) (hget v (rev (xs ++ [x]))).
Proof.
  intros Hn. destruct (linreg_init n v Hn) as (s0 & Hnew & Hinv). exists s0. split; [exact Hnew|].
  assert (E : exists m, Z.to_nat n = S (S m)) by (exists (Z.to_nat (n - 2)); lia).
  destruct E as (m & Em). rewrite Em in *.
  eapply (inv_correct _ _ _ (linreg_step m)); exact Hinv.
Qed.
End Proofs.
