(** C05 continued: RelativeVigorIndex (SWMA then SMA of close-to-close moves over SWMA then SMA of the ranges, and the
    signal average of the series of quotients). *)
From Yata Require Import Base.Prelude Base.Num Base.NumR Core.Window Core.WindowSpec Core.Candle Core.Action Core.Strings
  Spec.Hist Spec.MethodDefs Spec.IndicatorDefs Methods.Basic Methods.Select Indicators.Common Indicators.Set4
  Proofs.MethodsCommon Proofs.Windowed Proofs.Swma Proofs.MAProofs Proofs.Cascade Proofs.IndicatorProofs3 Proofs.IndicatorProofs11.
From Coq Require Import Reals Lra.
Open Scope Z_scope.

Section IP12.
Context {pw : PW}.
Local Notation R := (@F NumR).
Local Notation C := (candle (N := NumR)).
Ltac dlet := repeat match goal with |- context [let '(_, _) := ?e in _] => destruct e end.

Section Defs.
Variables (p1 p2 : Z) (signal : ma_cfg) (c0 : C).
Definition rvi_co (l : list C) : R := fsub (c_close (hget c0 l 0%nat)) (c_close (hget c0 l 1%nat)).
Definition rvi_hl (l : list C) : R := fsub (c_high (hget c0 l 0%nat)) (c_low (hget c0 l 0%nat)).
Definition rvi_x1 (l : list C) : R := swma_def (Z.to_nat p2) (hget f0 (series rvi_co l)).
Definition rvi_y1 (l : list C) : R := sma_def (Z.to_nat p1) (hget f0 (series rvi_x1 l)).
Definition rvi_d0 : R := fsub (c_high c0) (c_low c0).
Definition rvi_x2 (l : list C) : R := swma_def (Z.to_nat p2) (hget rvi_d0 (series rvi_hl l)).
Definition rvi_y2 (l : list C) : R := sma_def (Z.to_nat p1) (hget rvi_d0 (series rvi_x2 l)).
Definition rvi_line (l : list C) : R := if feq (rvi_y2 l) f0 then f0 else fdiv (rvi_y1 l) (rvi_y2 l).
Definition rvi_values (l : list C) : list R := [rvi_line l; ma_def signal f0 (series rvi_line l)].
End Defs.

Theorem rvi_values_correct p1 p2 (signal : ma_cfg) (zone : R) (c0 : C) cs c :
  2 <= p1 <= pmax - 1 -> 2 <= p2 <= pmax - 1 -> 1 < ma_period signal -> (0 <= zone < 1 / 2)%R -> ma_len_ok signal ->
  exists s0, rvi_init p1 p2 signal zone c0 = Ok s0 /\
    fst (snd (rvi_next (steps rvi_next s0 cs) c)) = rvi_values p1 p2 signal c0 (rev (cs ++ [c])).
Proof.
  intros H1 H2 Hs Hz Ls. unfold rvi_init.
  destruct (Z.leb_spec 2 p1); [|lia]. destruct (Z.ltb_spec 1 p2); [|lia]. destruct (Z.ltb_spec 1 (ma_period signal)); [|lia].
  assert (E1 : fge zone (f0 (N := NumR)) = true) by (unfold fge; rsimp; destruct (Rleb_spec 0 zone); [reflexivity|lra]).
  assert (E2 : flt zone (flit (N := NumR) 1 2) = true) by (rsimp; destruct (Rltb_spec zone (1 / 2)); [reflexivity|lra]).
  rewrite E1, E2. cbn [andb negb]. cbv zeta.
  set (d0 := fsub (c_high c0) (c_low c0)).
  assert (R1 : 1 <= p1 <= pmax - 1) by lia. assert (R2 : 1 <= p2 <= pmax - 1) by lia.
  destruct (swma_correct p2 (f0 (N := NumR)) [] (f0 (N := NumR)) R2) as (w1 & Ew1 & _).
  destruct (sma_correct p1 (f0 (N := NumR)) [] (f0 (N := NumR)) R1) as (a1 & Ea1 & _).
  destruct (swma_correct p2 d0 [] d0 R2) as (w2 & Ew2 & _). destruct (sma_correct p1 d0 [] d0 R1) as (a2 & Ea2 & _).
  destruct (ma_correct signal (f0 (N := NumR)) [] (f0 (N := NumR)) (ma_proved_all _) Ls) as (m0 & Em & _).
  rewrite Ew1, Ea1, Ew2, Ea2, Em. cbn [obind]. eexists; split; [reflexivity|].
  pose proof (ma_correct' _ _ _ (ma_proved_all _) Ls Em) as Cm.
  assert (Cw1 : forall xs x, snd (swma_next (steps swma_next w1 xs) x) = swma_def (Z.to_nat p2) (hget f0 (rev (xs ++ [x])))).
  { intros xs x. destruct (swma_correct p2 (f0 (N := NumR)) xs x R2) as (q & Eq & Hq). rewrite Ew1 in Eq. injection Eq as <-. exact Hq. }
  assert (Ca1 : forall xs x, snd (sma_next (steps sma_next a1 xs) x) = sma_def (Z.to_nat p1) (hget f0 (rev (xs ++ [x])))).
  { intros xs x. destruct (sma_correct p1 (f0 (N := NumR)) xs x R1) as (q & Eq & Hq). rewrite Ea1 in Eq. injection Eq as <-. exact Hq. }
  assert (Cw2 : forall xs x, snd (swma_next (steps swma_next w2 xs) x) = swma_def (Z.to_nat p2) (hget d0 (rev (xs ++ [x])))).
  { intros xs x. destruct (swma_correct p2 d0 xs x R2) as (q & Eq & Hq). rewrite Ew2 in Eq. injection Eq as <-. exact Hq. }
  assert (Ca2 : forall xs x, snd (sma_next (steps sma_next a2 xs) x) = sma_def (Z.to_nat p1) (hget d0 (rev (xs ++ [x])))).
  { intros xs x. destruct (sma_correct p1 d0 xs x R1) as (q & Eq & Hq). rewrite Ea2 in Eq. injection Eq as <-. exact Hq. }
  set (s0 := mkRvi zone (c_close c0) w1 a1 w2 a2 m0 (f0, f0)).
  assert (Hprev : forall p, rv_prev_close (steps rvi_next s0 p) = c_close (hget c0 (rev p) 0%nat)).
  { intros p. destruct p as [|a q _] using rev_ind; [reflexivity|]. rewrite steps_snoc, rev_unit. cbn [hget hcons]. unfold rvi_next at 1. dlet. reflexivity. }
  (* level 1 *)
  set (ico := fun (s : rvi_st (N := NumR)) (k : C) => fsub (c_close k) (rv_prev_close s)).
  set (ihl := fun (s : rvi_st (N := NumR)) (k : C) => fsub (c_high k) (c_low k)).
  assert (Hco : forall p k, ico (steps rvi_next s0 p) k = rvi_co c0 (rev (p ++ [k]))) by (intros p k; unfold ico, rvi_co; rewrite Hprev, rev_unit; reflexivity).
  assert (Hhl : forall p k, ihl (steps rvi_next s0 p) k = rvi_hl c0 (rev (p ++ [k]))) by (intros p k; unfold ihl, rvi_hl; rewrite rev_unit; reflexivity).
  assert (Pw1 : forall s k, rv_swma1 (fst (rvi_next s k)) = fst (swma_next (rv_swma1 s) (ico s k))).
  { intros s k. unfold rvi_next, ico. destruct (swma_next (rv_swma1 s) _). dlet. reflexivity. }
  assert (Pw2 : forall s k, rv_swma2 (fst (rvi_next s k)) = fst (swma_next (rv_swma2 s) (ihl s k))).
  { intros s k. unfold rvi_next, ihl. destruct (swma_next (rv_swma1 s) _), (sma_next (rv_sma1 s) _), (swma_next (rv_swma2 s) _). dlet. reflexivity. }
  pose proof (proj_steps rvi_next swma_next rv_swma1 ico Pw1) as S1. pose proof (proj_steps rvi_next swma_next rv_swma2 ihl Pw2) as S2.
  (* level 2 *)
  set (ix1 := fun (s : rvi_st (N := NumR)) (k : C) => snd (swma_next (rv_swma1 s) (ico s k))).
  set (ix2 := fun (s : rvi_st (N := NumR)) (k : C) => snd (swma_next (rv_swma2 s) (ihl s k))).
  assert (Hx1 : forall p k, ix1 (steps rvi_next s0 p) k = rvi_x1 p2 c0 (rev (p ++ [k]))).
  { intros p k. unfold ix1. rewrite S1. cbn [rv_swma1 s0]. rewrite Cw1. rewrite (inputs_series_next rvi_next ico (rvi_co c0) s0 Hco p k). reflexivity. }
  assert (Hx2 : forall p k, ix2 (steps rvi_next s0 p) k = rvi_x2 p2 c0 (rev (p ++ [k]))).
  { intros p k. unfold ix2. rewrite S2. cbn [rv_swma2 s0]. rewrite Cw2. rewrite (inputs_series_next rvi_next ihl (rvi_hl c0) s0 Hhl p k). reflexivity. }
  assert (Pa1 : forall s k, rv_sma1 (fst (rvi_next s k)) = fst (sma_next (rv_sma1 s) (ix1 s k))).
  { intros s k. unfold rvi_next, ix1, ico. destruct (swma_next (rv_swma1 s) _). cbn [snd]. destruct (sma_next (rv_sma1 s) _). dlet. reflexivity. }
  assert (Pa2 : forall s k, rv_sma2 (fst (rvi_next s k)) = fst (sma_next (rv_sma2 s) (ix2 s k))).
  { intros s k. unfold rvi_next, ix2, ihl. destruct (swma_next (rv_swma1 s) _), (sma_next (rv_sma1 s) _), (swma_next (rv_swma2 s) _). cbn [snd].
    destruct (sma_next (rv_sma2 s) _). dlet. reflexivity. }
  pose proof (proj_steps rvi_next sma_next rv_sma1 ix1 Pa1) as S3. pose proof (proj_steps rvi_next sma_next rv_sma2 ix2 Pa2) as S4.
  (* level 3: the quotient fed to the signal average *)
  set (iy := fun (s : rvi_st (N := NumR)) (k : C) =>
     let y1 := snd (sma_next (rv_sma1 s) (ix1 s k)) in let y2 := snd (sma_next (rv_sma2 s) (ix2 s k)) in
     if feq y2 f0 then f0 else fdiv y1 y2).
  assert (Hy : forall p k, iy (steps rvi_next s0 p) k = rvi_line p1 p2 c0 (rev (p ++ [k]))).
  { intros p k. unfold iy. cbv zeta. rewrite S3, S4. cbn [rv_sma1 rv_sma2 s0]. rewrite Ca1, Ca2.
    rewrite (inputs_series_next rvi_next ix1 (rvi_x1 p2 c0) s0 Hx1 p k), (inputs_series_next rvi_next ix2 (rvi_x2 p2 c0) s0 Hx2 p k). reflexivity. }
  assert (Pm : forall s k, rv_ma (fst (rvi_next s k)) = fst (ma_next (rv_ma s) (iy s k))).
  { intros s k. unfold rvi_next, iy, ix1, ix2, ico, ihl. cbv zeta. destruct (swma_next (rv_swma1 s) _). cbn [snd]. destruct (sma_next (rv_sma1 s) _).
    destruct (swma_next (rv_swma2 s) _). cbn [snd]. destruct (sma_next (rv_sma2 s) _). cbn [snd]. destruct (ma_next (rv_ma s) _). dlet. reflexivity. }
  pose proof (proj_steps rvi_next ma_next rv_ma iy Pm cs s0) as S5.
  assert (Hout : fst (snd (rvi_next (steps rvi_next s0 cs) c)) =
     [iy (steps rvi_next s0 cs) c; snd (ma_next (rv_ma (steps rvi_next s0 cs)) (iy (steps rvi_next s0 cs) c))]).
  { unfold rvi_next at 1. unfold iy, ix1, ix2, ico, ihl. cbv zeta. destruct (swma_next (rv_swma1 _) _). cbn [snd]. destruct (sma_next (rv_sma1 _) _).
    destruct (swma_next (rv_swma2 _) _). cbn [snd]. destruct (sma_next (rv_sma2 _) _). cbn [snd]. destruct (ma_next (rv_ma _) _). dlet. reflexivity. }
  rewrite Hout, S5. cbn [rv_ma s0]. rewrite Cm.
  rewrite (inputs_series_next rvi_next iy (rvi_line p1 p2 c0) s0 Hy cs c). rewrite Hy. reflexivity.
Qed.
End IP12.
