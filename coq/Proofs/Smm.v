(** C04: SMM (simple moving median) returns the median of the last n inputs: its sorted buffer, maintained by
    two binary searches (removal of the leaving element, insertion of the entering one), is THE sorted
    arrangement of the window after every step (exact carrier). *)
From Yata Require Import Base.Prelude Base.Num Base.NumR Core.Window Core.WindowSpec Core.Candle Core.Action
  Spec.Hist Spec.MethodDefs Spec.IndicatorDefs Methods.Basic Methods.Select Proofs.MethodsCommon.
From Coq Require Import Reals Lra Sorting.Sorted Sorting.Permutation.
Open Scope nat_scope.

Section ListLemmas.
Local Notation R := (@F NumR).
Definition sortedR (l : list R) : Prop := StronglySorted Rle l.
Definition allle (l : list R) (x : R) : Prop := forall y, In y l -> (y <= x)%R.
Definition allge (l : list R) (x : R) : Prop := forall y, In y l -> (x <= y)%R.

Lemma sorted_app (l1 l2 : list R) : sortedR (l1 ++ l2) <-> sortedR l1 /\ sortedR l2 /\ (forall a b, In a l1 -> In b l2 -> (a <= b)%R).
Proof.
  induction l1 as [|x l1 IH]; cbn [app].
  - split; [intros H; split; [constructor|split; [exact H|intros a b []]]|intros (_ & H & _); exact H].
  - split.
    + intros H. inversion H as [|? ? Hs Hf]; subst. apply IH in Hs. destruct Hs as (S1 & S2 & S12). rewrite Forall_forall in Hf.
      split; [constructor; [exact S1|rewrite Forall_forall; intros y Hy; apply Hf; apply in_or_app; left; exact Hy]|].
      split; [exact S2|]. intros a b [<-|Ha] Hb; [apply Hf; apply in_or_app; right; exact Hb|apply S12; assumption].
    + intros (S1 & S2 & S12). inversion S1 as [|? ? Hs Hf]; subst. constructor.
      * apply IH. split; [exact Hs|]. split; [exact S2|]. intros a b Ha Hb. apply S12; [right; exact Ha|exact Hb].
      * rewrite Forall_forall in *. intros y Hy. apply in_app_or in Hy. destruct Hy as [Hy|Hy]; [apply Hf; exact Hy|apply S12; [left; reflexivity|exact Hy]].
Qed.
Lemma sorted_split (l : list R) i : sortedR l -> sortedR (firstn i l) /\ sortedR (skipn i l) /\
  (forall a b, In a (firstn i l) -> In b (skipn i l) -> (a <= b)%R).
Proof. intros H. rewrite <- (firstn_skipn i l) in H. apply sorted_app in H. exact H. Qed.

Lemma remove_at_In {A} (y : A) i l : In y (remove_at i l) -> In y l.
Proof. revert i. induction l as [|a l IH]; intros i H; [destruct i; exact H|]. destruct i as [|i]; cbn in H; [right; exact H|].
  destruct H as [<-|H]; [left; reflexivity|right; exact (IH i H)]. Qed.
Lemma remove_at_sorted i (l : list R) : sortedR l -> sortedR (remove_at i l).
Proof.
  revert i. induction l as [|a l IH]; intros i H; [destruct i; exact H|]. inversion H as [|? ? Hs Hf]; subst.
  destruct i as [|i]; cbn; [exact Hs|]. constructor; [apply IH; exact Hs|]. rewrite Forall_forall in *. intros y Hy. apply Hf. exact (remove_at_In _ _ _ Hy).
Qed.
Lemma remove_at_perm {A} i (l : list A) v : nth_error l i = Some v -> Permutation l (v :: remove_at i l).
Proof.
  revert i. induction l as [|a l IH]; intros i H; [destruct i; discriminate|]. destruct i as [|i]; cbn in *.
  - injection H as ->. apply Permutation_refl.
  - apply IH in H. eapply Permutation_trans; [apply perm_skip; exact H|]. apply perm_swap.
Qed.
Lemma remove_at_length {A} i (l : list A) : i < length l -> length (remove_at i l) = length l - 1.
Proof. revert i. induction l as [|a l IH]; intros i H; [cbn in H; lia|]. destruct i as [|i]; cbn in *; [lia|]. rewrite IH by lia. lia. Qed.
Lemma insert_at_perm {A} i (x : A) l : Permutation (x :: l) (insert_at i x l).
Proof.
  revert l. induction i as [|i IH]; intros l; [apply Permutation_refl|]. destruct l as [|a l]; cbn; [apply Permutation_refl|].
  eapply Permutation_trans; [apply perm_swap|]. apply perm_skip. apply IH.
Qed.
Lemma insert_at_split {A} i (x : A) l : i <= length l -> insert_at i x l = firstn i l ++ x :: skipn i l.
Proof. revert l. induction i as [|i IH]; intros l H; [reflexivity|]. destruct l as [|a l]; cbn in *; [lia|]. rewrite IH by lia. reflexivity. Qed.
Lemma insert_at_sorted i x (l : list R) : i <= length l -> sortedR l -> allle (firstn i l) x -> allge (skipn i l) x -> sortedR (insert_at i x l).
Proof.
  intros Hi Hs Hle Hge. rewrite insert_at_split by exact Hi. destruct (sorted_split l i Hs) as (S1 & S2 & S12).
  apply sorted_app. split; [exact S1|]. split.
  - constructor; [exact S2|]. rewrite Forall_forall. exact Hge.
  - intros a b Ha [<-|Hb]; [apply Hle; exact Ha|apply S12; assumption].
Qed.

Lemma remove_at_nil {A} i : remove_at i (@nil A) = [].
Proof. destruct i; reflexivity. Qed.
(** removal before / after a position *)
Lemma firstn_remove_lt {A} oi j (l : list A) : oi < j -> firstn (j - 1) (remove_at oi l) = remove_at oi (firstn j l).
Proof.
  revert oi j. induction l as [|a l IH]; intros oi j H; [rewrite firstn_nil, !remove_at_nil, firstn_nil; reflexivity|].
  destruct j as [|j]; [lia|]. destruct oi as [|oi]; cbn [remove_at firstn]; [replace (S j - 1) with j by lia; reflexivity|].
  replace (S j - 1) with (S (j - 1)) by lia. cbn [firstn]. f_equal. apply IH. lia.
Qed.
Lemma skipn_remove_lt {A} oi j (l : list A) : oi < j -> skipn (j - 1) (remove_at oi l) = skipn j l.
Proof.
  revert oi j. induction l as [|a l IH]; intros oi j H; [rewrite remove_at_nil, !skipn_nil; reflexivity|].
  destruct j as [|j]; [lia|]. destruct oi as [|oi]; cbn [remove_at skipn]; [replace (S j - 1) with j by lia; reflexivity|].
  replace (S j - 1) with (S (j - 1)) by lia. cbn [skipn]. apply IH. lia.
Qed.
Lemma firstn_remove_ge {A} oi j (l : list A) : j <= oi -> firstn j (remove_at oi l) = firstn j l.
Proof.
  revert oi j. induction l as [|a l IH]; intros oi j H; [rewrite remove_at_nil; reflexivity|].
  destruct j as [|j]; [reflexivity|]. destruct oi as [|oi]; [lia|]. cbn [remove_at firstn]. f_equal. apply IH. lia.
Qed.
Lemma skipn_remove_ge {A} oi j (l : list A) : j <= oi -> skipn j (remove_at oi l) = remove_at (oi - j) (skipn j l).
Proof.
  revert oi j. induction l as [|a l IH]; intros oi j H; [rewrite skipn_nil, !remove_at_nil, skipn_nil; reflexivity|].
  destruct j as [|j]; [rewrite Nat.sub_0_r; reflexivity|]. destruct oi as [|oi]; [lia|]. cbn [remove_at skipn]. replace (S oi - S j) with (oi - j) by lia. apply IH. lia.
Qed.

(** a sorted arrangement of a multiset is unique *)
Lemma sorted_perm_unique (l1 l2 : list R) : sortedR l1 -> sortedR l2 -> Permutation l1 l2 -> l1 = l2.
Proof.
  revert l2. induction l1 as [|a l1 IH]; intros l2 S1 S2 P.
  - apply Permutation_nil in P. subst. reflexivity.
  - destruct l2 as [|b l2]; [apply Permutation_sym, Permutation_nil in P; discriminate|].
    inversion S1 as [|? ? S1' F1]; inversion S2 as [|? ? S2' F2]; subst. rewrite Forall_forall in F1, F2.
    assert (Hab : a = b).
    { assert (Ia : In a (b :: l2)) by (eapply Permutation_in; [exact P|left; reflexivity]).
      assert (Ib : In b (a :: l1)) by (eapply Permutation_in; [apply Permutation_sym; exact P|left; reflexivity]).
      destruct Ia as [->|Ia]; [reflexivity|]. destruct Ib as [<-|Ib]; [reflexivity|].
      apply Rle_antisym; [apply F1; exact Ib|apply F2; exact Ia]. }
    subst b. f_equal. apply IH; [exact S1'|exact S2'|]. eapply Permutation_cons_inv. exact P.
Qed.
Lemma insert_sorted_ok x (l : list R) : sortedR l -> sortedR (insert_sorted (N := NumR) x l) /\ Permutation (x :: l) (insert_sorted (N := NumR) x l).
Proof.
  induction l as [|y l IH]; intros S; cbn [insert_sorted].
  - split; [repeat constructor|apply Permutation_refl].
  - inversion S as [|? ? S' Fy]; subst. rewrite Forall_forall in Fy. rsimp. destruct (Rleb_spec x y) as [L|L].
    + split; [|apply Permutation_refl]. constructor; [exact S|]. rewrite Forall_forall. intros z [<-|Hz]; [exact L|]. specialize (Fy z Hz). lra.
    + destruct (IH S') as (S2 & P2). split.
      * constructor; [exact S2|]. rewrite Forall_forall. intros z Hz. apply (Permutation_in _ (Permutation_sym P2)) in Hz.
        destruct Hz as [<-|Hz]; [lra|apply Fy; exact Hz].
      * eapply Permutation_trans; [apply perm_swap|]. apply perm_skip. exact P2.
Qed.
Lemma sort_list_ok (l : list R) : sortedR (fold_right (insert_sorted (N := NumR)) [] l) /\ Permutation l (fold_right (insert_sorted (N := NumR)) [] l).
Proof.
  induction l as [|x l (S & P)]; cbn [fold_right]; [split; [constructor|apply Permutation_refl]|].
  destruct (insert_sorted_ok x _ S) as (S2 & P2). split; [exact S2|]. eapply Permutation_trans; [apply perm_skip; exact P|exact P2].
Qed.
End ListLemmas.

Section Search.
Context {pw : PW}.
Local Notation R := (@F NumR).
Open Scope nat_scope.

Lemma total_gt_R (a b : R) : ftotal_gt a b = true <-> (b < a)%R.
Proof.
  unfold ftotal_gt. rsimp. destruct (Rltb_spec b a) as [L|L]; cbn [orb]; [split; [intros; exact L|reflexivity]|].
  destruct (Reqb_spec a b) as [E|E]; cbn [andb]; [|split; [discriminate|intros; lra]].
  subst b. destruct (Rltb_spec a 0); cbn [andb negb]; split; try discriminate; intros; lra.
Qed.
Lemma total_gt_false (a b : R) : ftotal_gt a b = false -> (a <= b)%R.
Proof. intros H. destruct (Rle_or_lt a b) as [L|L]; [exact L|]. apply total_gt_R in L. congruence. Qed.

Lemma nth_error_firstn_lt {A} n (l : list A) i : i < n -> nth_error (firstn n l) i = nth_error l i.
Proof. intros H. rewrite nth_error_firstn. destruct (Nat.ltb_spec i n); [reflexivity|lia]. Qed.

Lemma firstn_S_nth {A} k (l : list A) h : nth_error l k = Some h -> firstn (S k) l = firstn k l ++ [h].
Proof. revert l. induction k as [|k IH]; intros [|a l] H; cbn in *; try discriminate; [injection H as ->; reflexivity|]. rewrite (IH l H). reflexivity. Qed.

Lemma nth_error_in_sorted_before (l : list R) i j x y : sortedR l -> nth_error l i = Some x -> nth_error l j = Some y -> i <= j -> (x <= y)%R.
Proof.
  intros Hsrt Hi Hj Hij. assert (E : i = j \/ i < j) by lia. destruct E as [->|L]; [rewrite Hi in Hj; injection Hj as ->; lra|].
  destruct (sorted_split l (S i) Hsrt) as (_ & _ & S12). apply S12.
  - apply nth_error_In with i. rewrite nth_error_firstn_lt by lia. exact Hi.
  - apply nth_error_In with (j - S i). rewrite nth_error_skipn. replace (S i + (j - S i)) with j by lia. exact Hj.
Qed.

(** find: on a sorted slice that contains the value, the search returns the position of an element equal to it *)
Lemma find_spec fuel : forall (v : R) (l : list R) pad, length l < fuel -> sortedR l -> In v l ->
  exists i, smm_find false fuel v l pad = (pad + Z.of_nat i)%Z /\ nth_error l i = Some v.
Proof.
  induction fuel as [|f IH]; intros v l pad Hf Hsrt Hin; [lia|]. cbn [smm_find andb negb].
  destruct (Z.ltb_spec (Z.of_nat (length l)) 2) as [Hs|Hs].
  - destruct l as [|a [|b l]]; [destruct Hin| |cbn [length] in Hs; lia]. destruct Hin as [->|[]]. exists 0. split; [cbn [length]; lia|reflexivity].
  - assert (Hh : length l / 2 < length l) by (apply Nat.div_lt; lia).
    destruct (nth_error l (length l / 2)) as [h|] eqn:Eh; [|apply nth_error_None in Eh; lia].
    cbn [fbits_eq NumR]. destruct (Reqb_spec v h) as [E|E].
    + subst h. exists (length l / 2). split; [lia|exact Eh].
    + destruct (ftotal_gt v h) eqn:Eg.
      * apply total_gt_R in Eg.
        destruct (sorted_split l (S (length l / 2)) Hsrt) as (_ & S2 & _).
        assert (Hin2 : In v (skipn (S (length l / 2)) l)).
        { rewrite <- (firstn_skipn (S (length l / 2)) l) in Hin. apply in_app_or in Hin. destruct Hin as [Hin|Hin]; [|exact Hin].
          exfalso. apply In_nth_error in Hin. destruct Hin as (k & Hk). assert (Hkl : k < S (length l / 2)).
          { assert (Hx : k < length (firstn (S (length l / 2)) l)) by (apply nth_error_Some; rewrite Hk; discriminate). rewrite firstn_length in Hx. lia. }
          rewrite nth_error_firstn_lt in Hk by lia. pose proof (nth_error_in_sorted_before l k (length l / 2) v h Hsrt Hk Eh ltac:(lia)). lra. }
        destruct (IH v (skipn (S (length l / 2)) l) (pad + Z.of_nat (length l / 2) + 1)%Z) as (i & Ei & Hi); [rewrite skipn_length; lia|exact S2|exact Hin2|].
        exists (S (length l / 2) + i). split; [rewrite Ei; lia|]. rewrite nth_error_skipn in Hi. exact Hi.
      * apply total_gt_false in Eg. assert (Hlt : (v < h)%R) by lra.
        destruct (sorted_split l (length l / 2) Hsrt) as (S1 & _ & _).
        assert (Hin1 : In v (firstn (length l / 2) l)).
        { rewrite <- (firstn_skipn (length l / 2) l) in Hin. apply in_app_or in Hin. destruct Hin as [Hin|Hin]; [exact Hin|].
          exfalso. apply In_nth_error in Hin. destruct Hin as (k & Hk). rewrite nth_error_skipn in Hk.
          pose proof (nth_error_in_sorted_before l (length l / 2) (length l / 2 + k) h v Hsrt Eh Hk ltac:(lia)). lra. }
        destruct (IH v (firstn (length l / 2) l) pad) as (i & Ei & Hi); [rewrite firstn_length; lia|exact S1|exact Hin1|].
        exists i. split; [exact Ei|]. assert (Hil : i < length l / 2).
        { assert (Hx : i < length (firstn (length l / 2) l)) by (apply nth_error_Some; rewrite Hi; discriminate). rewrite firstn_length in Hx. lia. }
        rewrite nth_error_firstn_lt in Hi by exact Hil. exact Hi.
Qed.

(** insert: on a sorted slice the search returns a position that keeps it sorted *)
Lemma insert_spec fuel : forall (v : R) (l : list R) pad, length l < fuel -> sortedR l ->
  exists i, smm_find true fuel v l pad = (pad + Z.of_nat i)%Z /\ i <= length l /\ allle (firstn i l) v /\ allge (skipn i l) v.
Proof.
  induction fuel as [|f IH]; intros v l pad Hf Hsrt; [lia|]. cbn [smm_find andb negb].
  destruct (Z.eqb_spec (Z.of_nat (length l)) 0) as [H0|H0].
  - destruct l; [|cbn [length] in H0; lia]. exists 0. split; [lia|]. split; [lia|]. split; intros y [].
  - assert (Hh : length l / 2 < length l) by (apply Nat.div_lt_upper_bound; lia).
    destruct (nth_error l (length l / 2)) as [h|] eqn:Eh; [|apply nth_error_None in Eh; lia].
    cbn [fbits_eq NumR].
    destruct (sorted_split l (length l / 2) Hsrt) as (S1 & S2 & S12).
    assert (Hhead : exists t, skipn (length l / 2) l = h :: t).
    { destruct (skipn (length l / 2) l) as [|h' t] eqn:Es; [pose proof (nth_error_skipn (length l / 2) l 0) as X; rewrite Es, Nat.add_0_r, Eh in X; discriminate|].
      pose proof (nth_error_skipn (length l / 2) l 0) as X. rewrite Es, Nat.add_0_r, Eh in X. cbn in X. injection X as ->. exists t. reflexivity. }
    destruct Hhead as (t & Et).
    assert (Hb : allle (firstn (length l / 2) l) h) by (intros y Hy; apply S12; [exact Hy|rewrite Et; left; reflexivity]).
    assert (Ha : allge (skipn (length l / 2) l) h).
    { intros y Hy. rewrite Et in Hy, S2. destruct Hy as [<-|Hy]; [lra|]. inversion S2 as [|? ? _ Fh]; subst. rewrite Forall_forall in Fh. apply Fh. exact Hy. }
    destruct (Reqb_spec v h) as [E|E].
    + subst h. exists (length l / 2). split; [lia|]. split; [lia|]. split; assumption.
    + destruct (ftotal_gt v h) eqn:Eg.
      * apply total_gt_R in Eg.
        destruct (sorted_split l (S (length l / 2)) Hsrt) as (_ & S2' & _).
        destruct (IH v (skipn (S (length l / 2)) l) (pad + Z.of_nat (length l / 2) + 1)%Z) as (i & Ei & Hi & Hle & Hge); [rewrite skipn_length; lia|exact S2'|].
        rewrite skipn_length in Hi.
        exists (S (length l / 2) + i). split; [rewrite Ei; lia|]. split; [lia|]. split.
        -- intros y Hy. rewrite <- (firstn_skipn (S (length l / 2)) (firstn (S (length l / 2) + i) l)) in Hy.
           rewrite firstn_firstn, Nat.min_l in Hy by lia. apply in_app_or in Hy. destruct Hy as [Hy|Hy].
           ++ assert (Hy' : In y (firstn (length l / 2) l ++ [h])) by (rewrite <- (firstn_S_nth _ _ _ Eh); exact Hy).
              apply in_app_or in Hy'. destruct Hy' as [Hy'|[<-|[]]]; [specialize (Hb y Hy'); lra|lra].
           ++ apply Hle. rewrite skipn_firstn_comm in Hy. replace (S (length l / 2) + i - S (length l / 2)) with i in Hy by lia. exact Hy.
        -- intros y Hy. apply Hge. rewrite skipn_skipn. replace (i + S (length l / 2)) with (S (length l / 2) + i) by lia. exact Hy.
      * apply total_gt_false in Eg. assert (Hlt : (v < h)%R) by lra.
        destruct (IH v (firstn (length l / 2) l) pad) as (i & Ei & Hi & Hle & Hge); [rewrite firstn_length; lia|exact S1|].
        rewrite firstn_length, Nat.min_l in Hi by lia.
        exists i. split; [exact Ei|]. split; [lia|]. split.
        -- intros y Hy. apply Hle. rewrite firstn_firstn, Nat.min_l by lia. exact Hy.
        -- intros y Hy. rewrite <- (firstn_skipn (length l / 2 - i) (skipn i l)) in Hy. apply in_app_or in Hy. destruct Hy as [Hy|Hy].
           ++ apply Hge. rewrite skipn_firstn_comm. exact Hy.
           ++ rewrite skipn_skipn in Hy. replace (length l / 2 - i + i) with (length l / 2) in Hy by lia. specialize (Ha y Hy). lra.
Qed.
End Search.

Section SmmProof.
Context {pw : PW}.
Local Notation R := (@F NumR).
Open Scope nat_scope.

Definition smm_inv (n : nat) (s : smm (N := NumR)) (h : nat -> R) : Prop :=
  WinOK n (smm_window s) h /\ smm_half s = Z.of_nat (n / 2) /\
  smm_half_m1 s = Z.of_nat (n / 2 - (if Nat.even n then 1 else 0)) /\
  sortedR (smm_slice s) /\ Permutation (smm_slice s) (map h (seq 0 n)).

Lemma median_of_sorted n (h : nat -> R) (sl : list R) : 1 <= n -> sortedR sl -> Permutation sl (map h (seq 0 n)) ->
  exists a b, nth_error sl (n / 2) = Some a /\ nth_error sl (n / 2 - (if Nat.even n then 1 else 0)) = Some b /\
    median_def n h = fmul (fadd a b) (flit 1 2).
Proof.
  intros Hn Hs Hp. destruct (sort_list_ok (map h (seq 0 n))) as (S2 & P2).
  assert (E : sl = fold_right (insert_sorted (N := NumR)) [] (map h (seq 0 n))).
  { apply sorted_perm_unique; [exact Hs|exact S2|]. eapply Permutation_trans; [exact Hp|exact P2]. }
  assert (Hlen : length sl = n) by (rewrite (Permutation_length Hp), map_length, seq_length; reflexivity).
  assert (H1 : n / 2 < length sl) by (rewrite Hlen; apply Nat.div_lt; lia).
  assert (H2 : n / 2 - (if Nat.even n then 1 else 0) < length sl) by lia.
  destruct (nth_error sl (n / 2)) as [a|] eqn:Ea; [|apply nth_error_None in Ea; lia].
  destruct (nth_error sl (n / 2 - (if Nat.even n then 1 else 0))) as [b|] eqn:Eb; [|apply nth_error_None in Eb; lia].
  exists a, b. split; [reflexivity|]. split; [reflexivity|]. unfold median_def. cbv zeta. rewrite <- E.
  rewrite (nth_error_nth _ _ _ Ea), (nth_error_nth _ _ _ Eb). reflexivity.
Qed.

Lemma smm_step n s h x : smm_inv (S n) s h ->
  exists s' y, smm_next s x = Ok (s', y) /\ smm_inv (S n) s' (hcons x h) /\ y = median_def (S n) (hcons x h).
Proof.
  intros (Hw & Hh & Hm1 & Hs & Hp). unfold smm_next. cbn [fis_finite NumR negb].
  destruct (winok_push n _ h x Hw) as (w' & Pw & Hw'). rewrite Pw. cbv beta iota.
  assert (Hlen : length (smm_slice s) = S n) by (rewrite (Permutation_length Hp), map_length, seq_length; reflexivity).
  assert (Hin : In (h n) (smm_slice s)).
  { apply (Permutation_in _ (Permutation_sym Hp)). apply in_map. apply in_seq. lia. }
  unfold find_index, find_insert_index.
  destruct (find_spec (S (length (smm_slice s))) (h n) (smm_slice s) 0%Z (Nat.lt_succ_diag_r _) Hs Hin) as (oi & Eoi & Hoi).
  destruct (insert_spec (S (length (smm_slice s))) x (smm_slice s) 0%Z (Nat.lt_succ_diag_r _) Hs) as (i0 & Ei0 & Hi0 & Hle & Hge).
  rewrite Eoi, Ei0. cbn [Z.add].
  assert (Hoil : oi < S n) by (rewrite <- Hlen; apply nth_error_Some; rewrite Hoi; discriminate).
  destruct (Z.ltb_spec (Z.of_nat oi) 0); [lia|]. destruct (Z.ltb_spec (Z.of_nat i0) 0); [lia|]. cbn [orb].
  set (idx := if (Z.of_nat oi <? Z.of_nat i0)%Z then (i0 - 1)%nat else i0).
  assert (Eidx : (Z.of_nat i0 - (if (Z.of_nat oi <? Z.of_nat i0)%Z then 1 else 0))%Z = Z.of_nat idx).
  { unfold idx. destruct (Z.ltb_spec (Z.of_nat oi) (Z.of_nat i0)); lia. }
  rewrite Eidx, Hlen.
  assert (Hidx : idx < S n) by (unfold idx; destruct (Z.ltb_spec (Z.of_nat oi) (Z.of_nat i0)); lia).
  destruct (Z.leb_spec (Z.of_nat (S n)) (Z.of_nat oi)); [lia|]. destruct (Z.leb_spec (Z.of_nat (S n)) (Z.of_nat idx)); [lia|]. cbn [orb].
  rewrite !Nat2Z.id.
  set (rm := remove_at oi (smm_slice s)). set (sl := insert_at idx x rm).
  assert (Hrml : length rm = n) by (unfold rm; rewrite remove_at_length by lia; lia).
  assert (Hrms : sortedR rm) by (apply remove_at_sorted; exact Hs).
  assert (Hrmp : Permutation rm (map h (seq 0 n))).
  { pose proof (remove_at_perm oi (smm_slice s) (h n) Hoi) as P1. fold rm in P1.
    assert (P2 : Permutation (h n :: rm) (h n :: map h (seq 0 n))).
    { eapply Permutation_trans; [apply Permutation_sym; exact P1|]. eapply Permutation_trans; [exact Hp|].
      rewrite seq_S, map_app. cbn [map Nat.add]. apply Permutation_sym, Permutation_cons_append. }
    exact (Permutation_cons_inv P2). }
  assert (Hsls : sortedR sl).
  { unfold sl. apply insert_at_sorted; [lia|exact Hrms| |].
    - unfold idx, rm. destruct (Z.ltb_spec (Z.of_nat oi) (Z.of_nat i0)) as [L|L].
      + rewrite firstn_remove_lt by lia. intros y Hy. apply Hle. exact (remove_at_In _ _ _ Hy).
      + rewrite firstn_remove_ge by lia. exact Hle.
    - unfold idx, rm. destruct (Z.ltb_spec (Z.of_nat oi) (Z.of_nat i0)) as [L|L].
      + rewrite skipn_remove_lt by lia. exact Hge.
      + rewrite skipn_remove_ge by lia. intros y Hy. apply Hge. exact (remove_at_In _ _ _ Hy). }
  assert (Hslp : Permutation sl (map (hcons x h) (seq 0 (S n)))).
  { unfold sl. eapply Permutation_trans; [apply Permutation_sym, insert_at_perm|].
    change (seq 0 (S n)) with (0 :: seq 1 n). cbn [map hcons]. apply perm_skip. rewrite <- seq_shift, map_map. exact Hrmp. }
  assert (H1n : 1 <= S n) by lia.
  destruct (median_of_sorted (S n) (hcons x h) sl H1n Hsls Hslp) as (a & b & Ea & Eb & Em).
  unfold smm_peek_o. cbn [smm_slice smm_half smm_half_m1]. rewrite Hh, Hm1, !Nat2Z.id, Ea, Eb. cbn [obind].
  eexists _, _. split; [reflexivity|]. split; [|symmetry; exact Em].
  split; [exact Hw'|]. cbn [smm_half smm_half_m1 smm_slice]. split; [first [exact Hh|reflexivity]|]. split; [first [exact Hm1|reflexivity]|]. split; assumption.
Qed.

Lemma smm_init n v : (1 <= n <= pmax - 1)%Z ->
  exists s0, smm_new n v = Ok s0 /\ smm_inv (Z.to_nat n) s0 (hconst v).
Proof.
  intros Hn. unfold smm_new. cbn [fis_finite NumR negb]. rewrite bad_len_false by lia. eexists; split; [reflexivity|].
  split; [apply winok_new; lia|]. cbn [smm_half smm_half_m1 smm_slice].
  assert (Ed : (n / 2)%Z = Z.of_nat (Z.to_nat n / 2)) by (rewrite Nat2Z.inj_div, Z2Nat.id by lia; reflexivity).
  split; [exact Ed|]. split.
  - unfold sat_sub. rewrite Ed.
    assert (Ev : (n mod 2 =? 0)%Z = Nat.even (Z.to_nat n)).
    { destruct (Nat.even (Z.to_nat n)) eqn:E.
      - apply Nat.even_spec in E. destruct E as (k & Ek). apply Z.eqb_eq. assert (n = 2 * Z.of_nat k)%Z by lia. subst n. rewrite Z.mul_comm, Z.mod_mul; lia.
      - apply Z.eqb_neq. intros Hm. assert (Nat.even (Z.to_nat n) = true); [|congruence]. apply Nat.even_spec.
        exists (Z.to_nat (n / 2)). assert (n = 2 * (n / 2))%Z by (pose proof (Z.div_mod n 2); lia). lia. }
    rewrite Ev. destruct (Nat.even (Z.to_nat n)); lia.
  - split.
    + clear. induction (Z.to_nat n) as [|k IH]; cbn [repeat]; constructor; [exact IH|]. rewrite Forall_forall. intros y Hy. apply repeat_spec in Hy. subst. lra.
    + replace (map (hconst v) (seq 0 (Z.to_nat n))) with (repeat v (Z.to_nat n)); [apply Permutation_refl|].
      clear. generalize 0. induction (Z.to_nat n) as [|k IH]; intros st; [reflexivity|]. cbn [repeat seq map]. rewrite <- IH. reflexivity.
Qed.

(** the total wrapper used by the MA constructor: on the (never reached) failure of [smm_next] the state is kept *)
Definition smm_step_t (s : smm (N := NumR)) (x : R) : smm (N := NumR) * R :=
  match smm_next s x with Ok r => r | _ => (s, x) end.
Lemma smm_step_t_ok n s h x : smm_inv (S n) s h ->
  smm_inv (S n) (fst (smm_step_t s x)) (hcons x h) /\ snd (smm_step_t s x) = median_def (S n) (hcons x h).
Proof. intros Hi. destruct (smm_step n s h x Hi) as (s' & y & E & Hi' & Hy). unfold smm_step_t. rewrite E. split; assumption. Qed.

(** at every step of every stream [next] succeeds (no panic) and returns the median of the last n inputs *)
Theorem smm_correct n v xs x : (1 <= n <= pmax - 1)%Z ->
  exists s0, smm_new n v = Ok s0 /\
    exists r, smm_next (steps smm_step_t s0 xs) x = Ok r /\ snd r = median_def (Z.to_nat n) (hget v (rev (xs ++ [x]))).
Proof.
  intros Hn. destruct (smm_init n v Hn) as (s0 & Hnew & Hinv). exists s0. split; [exact Hnew|].
  assert (Hn1 : (1 <= n)%Z) by lia. destruct (nat_len n Hn1) as (m & Em). rewrite Em in *.
  assert (Hs : smm_inv (S m) (steps smm_step_t s0 xs) (hget v (rev xs))).
  { clear x. induction xs as [|a q IH] using rev_ind; [exact Hinv|]. rewrite steps_snoc, rev_unit. apply (smm_step_t_ok m _ _ a IH). }
  destruct (smm_step m _ _ x Hs) as (s' & y & E & _ & Hy). exists (s', y). split; [exact E|]. rewrite rev_unit. exact Hy.
Qed.
Theorem smm_total_correct n v xs x : (1 <= n <= pmax - 1)%Z ->
  exists s0, smm_new n v = Ok s0 /\ snd (smm_step_t (steps smm_step_t s0 xs) x) = median_def (Z.to_nat n) (hget v (rev (xs ++ [x]))).
Proof.
  intros Hn. destruct (smm_correct n v xs x Hn) as (s0 & E & r & Er & Hr). exists s0. split; [exact E|]. unfold smm_step_t at 1. rewrite Er. exact Hr.
Qed.
End SmmProof.

(** ** MedianAbsDev: the mean absolute deviation of the last n inputs from their median *)
From Yata Require Import Proofs.Windowed4.
Section MedAD.
Context {pw : PW}.
Local Notation R := (@F NumR).
Definition medad_def (n : nat) (h : nat -> R) : R :=
  fdiv (gsum (N := NumR) n (fun i => fabs (fsub (h i) (median_def n h)))) (fofN n).

Theorem medad_correct n v xs x : (2 <= n <= pmax - 1)%Z ->
  exists s0, medad_new n v = Ok s0 /\
    exists r, medad_next (mkMedAD (steps smm_step_t (md_smm s0) xs) (md_divider s0)) x = Ok r /\
      snd r = medad_def (Z.to_nat n) (hget v (rev (xs ++ [x]))).
Proof.
  intros Hn. assert (Hn' : (1 <= n <= pmax - 1)%Z) by lia. unfold medad_new.
  destruct (Z.eqb_spec n 0); [lia|]. destruct (Z.eqb_spec n 1); [lia|]. cbn [orb].
  destruct (smm_init n v Hn') as (m0 & Em & Hinv). rewrite Em. cbn [obind]. eexists; split; [reflexivity|]. cbn [md_smm md_divider].
  assert (Hn1 : (1 <= n)%Z) by lia. destruct (nat_len n Hn1) as (m & Emn). rewrite Emn in *.
  assert (Hs : smm_inv (S m) (steps smm_step_t m0 xs) (hget v (rev xs))).
  { clear x. induction xs as [|a q IH] using rev_ind; [exact Hinv|]. rewrite steps_snoc, rev_unit. apply (smm_step_t_ok m _ _ a IH). }
  destruct (smm_step m _ _ x Hs) as (s' & y & E & Hi' & Hy). unfold medad_next. cbn [md_smm md_divider]. rewrite E. cbn [obind fst].
  eexists; split; [reflexivity|]. cbn [snd]. unfold medad_peek. cbn [md_smm md_divider].
  (* the restored median is the output just computed *)
  assert (Epk : smm_peek s' = y).
  { destruct Hi' as (Hw' & Hh' & Hm1' & Hs' & Hp'). assert (H1n : (1 <= S m)%nat) by lia.
    destruct (median_of_sorted (S m) _ _ H1n Hs' Hp') as (a & b & Ea & Eb & Emed).
    unfold smm_peek, smm_peek_o. rewrite Hh', Hm1', !Nat2Z.id, Ea, Eb. rewrite Hy. symmetry. exact Emed. }
  rewrite Epk, Hy, rev_unit. destruct Hi' as (Hw' & _).
  change (hget v (x :: rev xs)) with (hcons x (hget v (rev xs))). set (h' := hcons x (hget v (rev xs))) in *.
  rewrite fsum_lsum. destruct Hw' as (Hwf & Hsz & Hseq). unfold w_as_slice.
  rewrite <- (lsum_rot _ (Z.to_nat (widx (smm_window s')))), <- map_rot.
  change (rot (buf (smm_window s')) (Z.to_nat (widx (smm_window s')))) with (wseq (smm_window s')). rewrite Hseq.
  unfold medad_def, frecip. rsimp. rewrite (lsum_map_hwin (S m) h' (fun z => Rabs (z - median_def (N := NumR) (S m) h'))).
  rewrite (IZR_nat n) by lia. rewrite Emn. unfold Rdiv. ring.
Qed.
End MedAD.
