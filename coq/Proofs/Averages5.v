(** C15: every one of the 15 averaging kinds of the MA constructor is affine-equivariant, on its definition and on the
    running instance built by the constructor. *)
From Yata Require Import Base.Prelude Base.Num Base.NumR Core.Window Core.WindowSpec Core.Candle Core.Strings
  Spec.Hist Spec.MethodDefs Spec.IndicatorDefs Methods.Basic Indicators.Common Proofs.MethodsCommon Proofs.Averages Proofs.MAProofs
  Proofs.Windowed5 Proofs.Averages2 Proofs.Averages3 Proofs.Averages4 Proofs.IndicatorProofs11.
From Coq Require Import Reals Lra Lia.
Open Scope R_scope.

Section Avg5.
Context {pw : PW}.
Local Notation R := (@F NumR).

Theorem ma_def_affine_all (c : ma_cfg) (a b v : R) rh : ma_len_ok c ->
  ma_def c (aff a b v) (map (aff a b) rh) = aff a b (ma_def c v rh).
Proof.
  intros Hl. destruct c as (k, n).
  assert (Hn : (1 <= n)%Z) by (destruct k; cbn [ma_len_ok] in Hl; lia).
  assert (Hnat : (1 <= Z.to_nat n)%nat) by lia.
  assert (Hg : forall i, hget (a * v + b) (map (fun y => a * y + b) rh) i = a * hget v rh i + b)
    by (intros i; apply (hget_map (fun y => a * y + b))).
  destruct k eqn:Ek.
  all: try (apply ma_def_affine; [reflexivity|exact Hn|exact I]).
  - (* HMA *) apply ma_def_affine; [reflexivity|exact Hn|]. cbn [ma_len_ok] in Hl. split; [lia|]. apply (proj1 (hma_len3_range n Hl)).
  - (* SMM *) unfold ma_def, aff. cbv beta zeta. rewrite <- (median_affine _ a b) by exact Hnat.
    unfold median_def. cbv zeta. do 2 f_equal.
    all: f_equal; f_equal; apply map_ext; intros i; apply Hg.
  - (* SWMA *) unfold ma_def, aff. cbv beta zeta. rewrite <- (swma_affine _ a b) by exact Hnat.
    unfold swma_def, hwsum. f_equal. apply gsum_ext. intros i _. rewrite Hg. reflexivity.
  - (* Vidya *) unfold ma_def, aff. cbv beta zeta. apply vidya_affine.
Qed.

Theorem ma_method_affine_all (c : ma_cfg) (a b v : R) xs x : ma_len_ok c ->
  exists s0 s1, ma_init c v = Ok s0 /\ ma_init c (aff a b v) = Ok s1 /\
    snd (ma_next (steps ma_next s1 (map (aff a b) xs)) (aff a b x)) = aff a b (snd (ma_next (steps ma_next s0 xs) x)).
Proof.
  intros Hl. destruct (ma_correct c v xs x (ma_proved_all c) Hl) as (s0 & E0 & O0).
  destruct (ma_correct c (aff a b v) (map (aff a b) xs) (aff a b x) (ma_proved_all c) Hl) as (s1 & E1 & O1).
  exists s0, s1. split; [exact E0|]. split; [exact E1|]. rewrite O0, O1.
  assert (Ef : map (aff a b) xs ++ [aff a b x] = map (aff a b) (xs ++ [x])) by (rewrite map_app; reflexivity).
  rewrite Ef, <- map_rev. apply ma_def_affine_all. exact Hl.
Qed.
End Avg5.
