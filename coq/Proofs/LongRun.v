(** C07: the past beyond the window is irrelevant — an instance with an arbitrarily long history behaves
    like a fresh instance primed with the recent inputs (exact arithmetic). *)
From Yata Require Import Base.Prelude Base.Num Base.NumR Core.Window Core.Candle
  Spec.Hist Spec.MethodDefs Methods.Basic Proofs.MethodsCommon.
From Coq Require Import Reals Lra.
Open Scope nat_scope.

Section LongRun.
Context {pw : PW}.
Local Notation R := (@F NumR).

(** [def n h] reads only the [k n] newest elements of the history *)
Definition local_def {I O} (def : nat -> (nat -> I) -> O) (k : nat -> nat) : Prop :=
  forall n h h', (forall i, i < k n -> h i = h' i) -> def n h = def n h'.

Lemma hget_recent {A} (v v' : A) xs ys zs x i : i < length zs + 1 ->
  hget v (rev ((xs ++ zs) ++ [x])) i = hget v' (rev ((ys ++ zs) ++ [x])) i.
Proof.
  intros Hi. rewrite !hget_nth. rewrite <- !app_assoc. rewrite !(rev_app_distr _ (zs ++ [x])).
  assert (Hl : i < length (rev (zs ++ [x]))) by (rewrite rev_length, app_length; cbn; lia).
  rewrite !app_nth1 by exact Hl. apply nth_indep. exact Hl.
Qed.

Theorem long_past_irrelevant {S I O} (new : Z -> I -> outcome S) (next : S -> I -> S * O)
    (def : nat -> (nat -> I) -> O) (lo hi : Z) (k : nat -> nat) :
  (forall n v xs x, (lo <= n <= hi)%Z ->
     exists s0, new n v = Ok s0 /\ snd (next (steps next s0 xs) x) = def (Z.to_nat n) (hget v (rev (xs ++ [x])))) ->
  local_def def k ->
  forall n v v' xs ys zs x, (lo <= n <= hi)%Z -> k (Z.to_nat n) <= length zs + 1 ->
    exists s0 s0', new n v = Ok s0 /\ new n v' = Ok s0' /\
      snd (next (steps next s0 (xs ++ zs)) x) = snd (next (steps next s0' (ys ++ zs)) x).
Proof.
  intros Hc Hl n v v' xs ys zs x Hn Hk.
  destruct (Hc n v (xs ++ zs) x Hn) as (s0 & E0 & H0). destruct (Hc n v' (ys ++ zs) x Hn) as (s0' & E0' & H0').
  exists s0, s0'. split; [exact E0|]. split; [exact E0'|]. rewrite H0, H0'. apply Hl.
  intros i Hi. apply hget_recent. lia.
Qed.

(** locality of the from-scratch definitions *)
Lemma gsum_local n (g g' : nat -> R) : (forall i, i < n -> g i = g' i) -> gsum (N := NumR) n g = gsum n g'.
Proof. exact (gsum_ext n g g'). Qed.
Lemma sma_local : local_def (sma_def (N := NumR)) (fun n => n).
Proof. intros n h h' H. unfold sma_def, hsum. f_equal. apply gsum_local. exact H. Qed.
Lemma wma_local : local_def (wma_def (N := NumR)) (fun n => n).
Proof. intros n h h' H. unfold wma_def, hwsum. f_equal. apply gsum_local. intros i Hi. rewrite H by exact Hi. reflexivity. Qed.
Lemma swma_local : local_def (swma_def (N := NumR)) (fun n => n).
Proof. intros n h h' H. unfold swma_def, hwsum. f_equal. apply gsum_local. intros i Hi. rewrite H by exact Hi. reflexivity. Qed.
Lemma integral_local : local_def (integral_def (N := NumR)) (fun n => n).
Proof. intros n h h' H. unfold integral_def, hsum. apply gsum_local. exact H. Qed.
Lemma momentum_local : local_def (momentum_def (N := NumR)) (fun n => n + 1).
Proof. intros n h h' H. unfold momentum_def. rewrite !H by lia. reflexivity. Qed.
Lemma derivative_local : local_def (derivative_def (N := NumR)) (fun n => n + 1).
Proof. intros n h h' H. unfold derivative_def. rewrite !H by lia. reflexivity. Qed.
Lemma roc_local : local_def (roc_def (N := NumR)) (fun n => n + 1).
Proof. intros n h h' H. unfold roc_def. rewrite !H by lia. reflexivity. Qed.
Lemma past_local {A} : local_def (past_def (A := A)) (fun n => n + 1).
Proof. intros n h h' H. unfold past_def. apply H. lia. Qed.
Lemma linvol_local : local_def (linvol_def (N := NumR)) (fun n => n + 1).
Proof. intros n h h' H. unfold linvol_def. apply gsum_local. intros i Hi. rewrite !H by lia. reflexivity. Qed.
Lemma var_local n (h h' : nat -> R) : (forall i, i < n -> h i = h' i) -> var_def n h = var_def n h'.
Proof.
  intros H. unfold var_def. cbv zeta. rewrite (sma_local n h h' H). f_equal. apply gsum_local.
  intros i Hi. rewrite H by exact Hi. reflexivity.
Qed.
Lemma stdev_local : local_def (stdev_def (N := NumR)) (fun n => n).
Proof. intros n h h' H. unfold stdev_def. f_equal. apply var_local. exact H. Qed.
Lemma mad_local : local_def (mad_def (N := NumR)) (fun n => n).
Proof.
  intros n h h' H. unfold mad_def. cbv zeta. rewrite (sma_local n h h' H). f_equal. apply gsum_local.
  intros i Hi. rewrite H by exact Hi. reflexivity.
Qed.
Lemma cci_local : local_def (cci_def (N := NumR)) (fun n => n + 1).
Proof.
  intros n h h' H. unfold cci_def. cbv zeta.
  rewrite (mad_local n h h') by (intros i Hi; apply H; lia).
  rewrite (sma_local n h h') by (intros i Hi; apply H; lia). rewrite (H O) by lia. reflexivity.
Qed.
Lemma trima_local : local_def (trima_def (N := NumR)) (fun n => n + n).
Proof.
  intros n h h' H. unfold trima_def. apply sma_local. intros j Hj. apply sma_local. intros i Hi.
  unfold hshift. apply H. lia.
Qed.
Lemma linreg_local : local_def (linreg_def (N := NumR)) (fun n => n).
Proof.
  intros n h h' H. unfold linreg_def, hsum. cbv zeta.
  rewrite (gsum_local n h h' H).
  rewrite (gsum_local n (fun i => fmul (fneg (fofN i)) (h i)) (fun i => fmul (fneg (fofN i)) (h' i)))
    by (intros i Hi; rewrite H by exact Hi; reflexivity).
  reflexivity.
Qed.
Lemma vwma_local : local_def (vwma_def (N := NumR)) (fun n => n).
Proof.
  intros n h h' H. unfold vwma_def. f_equal; apply gsum_local; intros i Hi; rewrite H by exact Hi; reflexivity.
Qed.
Lemma adi_local : local_def (adi_def (N := NumR)) (fun n => n).
Proof. intros n h h' H. unfold adi_def. apply gsum_local. intros i Hi. rewrite H by exact Hi. reflexivity. Qed.
End LongRun.

(** * Position counters of the reversal detectors never reach the capacity of PeriodType *)
From Yata Require Import Core.WindowSpec Core.Action Methods.Select.
Section RevCounters.
Context {pw : PW}.
Context {N : Num}.
Open Scope Z_scope.

Definition rev_inv (L : Z) (s : rvs) : Prop :=
  wf (rv_window s) /\ wsize (rv_window s) = L /\ 0 <= rv_mindex s <= rv_index s /\ rv_index s <= L.

Lemma fold_pick_index (beats : F -> F -> bool) (l : list (Z * F)) (acc : F * Z) :
  let r := fold_left (fun (a : F * Z) (b : Z * F) => if beats (snd b) (fst a) then (snd b, fst b) else a) l acc in
  snd r = snd acc \/ In (snd r) (map fst l).
Proof.
  revert acc. induction l as [|b l IH]; intros acc; cbn [fold_left map]; [left; reflexivity|].
  destruct (IH (if beats (snd b) (fst acc) then (snd b, fst b) else acc)) as [E|E].
  - destruct (beats (snd b) (fst acc)); cbn [snd] in E; [right; left; symmetry; exact E|left; exact E].
  - right. right. exact E.
Qed.

Lemma rev_next_inv beats L s x : 3 <= L <= pmax - 1 -> rev_inv L s -> rev_inv L (fst (rev_next beats s x)).
Proof.
  intros HL (Hwf & Hsz & Hm & Hi). unfold rev_next.
  destruct (push_spec (rv_window s) x Hwf ltac:(lia)) as (w' & old & Hp & Hwf' & Hsz' & _ & _).
  unfold w_push_t. rewrite Hp. cbv beta iota.
  assert (Hlen : w_len w' = L) by (unfold w_len; lia). rewrite Hlen.
  assert (Hsa : sat_add (rv_index s) 1 = rv_index s + 1) by (unfold sat_add; lia). rewrite Hsa.
  set (fi := sat_sub (rv_index s + 1) L).
  assert (Hfi : fi = Z.max 0 (rv_index s + 1 - L)) by (unfold fi, sat_sub; lia).
  rewrite (iter_rev_all w' Hwf').
  assert (Hcl : Z.of_nat (length (rev (content w'))) = L).
  { rewrite rev_length, content_length. destruct Hwf' as (Hb & _). lia. }
  (* the candidate chosen in either branch *)
  match goal with |- context [let '(mv, mi) := ?E in _] => set (pick := E) end.
  assert (Hpick : (rv_index s = L -> 1 <= snd pick) /\ 0 <= snd pick <= rv_index s).
  { unfold pick. destruct (Z.ltb_spec (rv_mindex s) fi) as [Hlt|Hge].
    - (* rescan: only possible in the steady state *)
      assert (His : rv_index s = L) by lia. assert (Hf1 : fi = 1) by lia.
      destruct (rev (content w')) as [|o rest] eqn:Er; [cbn in Hcl; lia|].
      match goal with |- context [fold_left ?f ?l ?a] => pose proof (fold_pick_index beats l a) as Hfp end.
      cbv zeta in Hfp. cbn [snd] in Hfp.
      match goal with |- context [fold_left ?f ?l ?a] => set (r := fold_left f l a) in * end.
      cbn [length] in Hcl.
      destruct Hfp as [E|E].
      + rewrite E. lia.
      + assert (Hin : In (snd r) (map (fun k => fi + 1 + Z.of_nat k) (seq 0 (length rest)))).
        { revert E. generalize (map (fun k => fi + 1 + Z.of_nat k) (seq 0 (length rest))) as ks. generalize rest as rs.
          clear. intros rs ks. revert rs. induction ks as [|k ks IH]; intros rs; [cbn; tauto|].
          destruct rs as [|r0 rs]; cbn; [tauto|]. intros [E|E]; [left; exact E|right; exact (IH rs E)]. }
        apply in_map_iff in Hin. destruct Hin as (k & Ek & Hk). apply in_seq in Hk. lia.
    - destruct (beats x (rv_value s)); cbn [snd]; lia. }
  destruct pick as (mv, mi). cbn [snd] in Hpick. destruct Hpick as (Hp1 & Hp2).
  destruct (Z.ltb_spec L (rv_index s + 1)) as [Hfull|Hnot]; cbn [fst]; unfold rev_inv; cbn [rv_window rv_mindex rv_index];
    (split; [exact Hwf'|]; split; [lia|]).
  - assert (Hx : rv_index s = L) by lia. specialize (Hp1 Hx). lia.
  - lia.
Qed.

Lemma steps_pres {S I O} (next : S -> I -> S * O) (P : S -> Prop) :
  (forall s x, P s -> P (fst (next s x))) -> forall xs s, P s -> P (steps next s xs).
Proof. intros Hs xs. induction xs as [|x xs IH]; intros s Hp; cbn; [exact Hp|]. apply IH. apply Hs. exact Hp. Qed.

Theorem rev_counters_bounded beats lft right v xs : 1 <= lft -> 1 <= right -> lft + right <= pmax - 2 ->
  exists s0, rev_new lft right v = Ok s0 /\
    let s := steps (rev_next beats) s0 xs in
    0 <= rv_mindex s <= rv_index s /\ rv_index s <= lft + right + 1 /\ lft + right + 1 < pmax.
Proof.
  intros Hl Hr Hs. unfold rev_new.
  assert (Hsa : sat_add lft right = lft + right) by (unfold sat_add; lia). rewrite Hsa.
  destruct (Z.eqb_spec lft 0); [lia|]. destruct (Z.eqb_spec right 0); [lia|].
  destruct (Z.leb_spec (pmax - 1) (lft + right)); [lia|]. cbn [orb].
  eexists. split; [reflexivity|]. cbv zeta.
  assert (Hinv : rev_inv (lft + right + 1) (steps (rev_next beats)
                   (mkRev lft right v 0 0 (w_new_t (lft + right + 1) v)) xs)).
  { apply (steps_pres (rev_next beats) (rev_inv (lft + right + 1))).
    - intros s x Hi. apply rev_next_inv; [lia|exact Hi].
    - assert (Hrange : 0 <= lft + right + 1 <= pmax - 1) by lia.
      destruct (new_spec (lft + right + 1) v Hrange) as (w & Hnew & Hwf & _ & Hsz).
      unfold rev_inv, w_new_t. rewrite Hnew. cbn [rv_window rv_mindex rv_index]. split; [exact Hwf|]. split; [exact Hsz|]. lia. }
  destruct Hinv as (_ & _ & Hm & Hi). repeat split; lia.
Qed.
End RevCounters.

(** * Recursive averages forget their past geometrically *)
Section Forget.
Local Notation R := (@F NumR).
Open Scope R_scope.
Lemma ema_forgets (a x0 y0 : R) l :
  ema_rec a x0 l - ema_rec a y0 l = (1 - a) ^ (length l) * (x0 - y0).
Proof.
  induction l as [|x l IH]; cbn [ema_rec length pow]; [lra|]. rsimp.
  set (u := ema_rec (N := NumR) a x0 l) in *. set (w := ema_rec (N := NumR) a y0 l) in *.
  replace (a * x + (1 - a) * u - (a * x + (1 - a) * w)) with ((1 - a) * (u - w)) by lra.
  rewrite IH. lra.
Qed.
(** two EMA instances with arbitrary different pasts, fed the same k inputs, differ by at most (1-a)^k times
    their initial difference: the influence of a long past vanishes *)
Theorem ema_long_past_vanishes (a x0 y0 : R) l : 0 <= a <= 1 ->
  Rabs (ema_rec a x0 l - ema_rec a y0 l) <= Rabs (x0 - y0).
Proof.
  intros Ha. rewrite ema_forgets, Rabs_mult. rewrite <- (Rmult_1_l (Rabs (x0 - y0))) at 2.
  apply Rmult_le_compat_r; [apply Rabs_pos|]. rewrite <- RPow_abs.
  apply Rle_trans with (1 ^ length l); [|rewrite pow1; lra].
  apply pow_incr. split; [apply Rabs_pos|]. apply Rabs_le. lra.
Qed.
End Forget.
