(** C06 continued: pivot signals of an indicator's own value, generically (Trix #1, CoppockCurve #2): for every stream that begins
    with the candle the instance was created from, the reversal detector embedded in the indicator returns the DEFINITIONAL
    reversal of the series of values the indicator has returned (its first input is then the detector's construction value). *)
From Yata Require Import Base.Prelude Base.Num Base.NumR Core.Window Core.WindowSpec Core.Candle Core.Action Core.Strings
  Spec.Hist Spec.MethodDefs Spec.IndicatorDefs Methods.Basic Methods.Select Indicators.Common Indicators.Set3 Indicators.Set4
  Proofs.MethodsCommon Proofs.Selection Proofs.Selection2 Proofs.MAProofs Proofs.Cascade Proofs.IndicatorProofs Proofs.IndicatorProofs3
  Proofs.IndicatorProofs7 Proofs.IndicatorProofs9 Proofs.IndicatorProofs11 Proofs.Averages5 Proofs.Constant Proofs.SignalProofs2.
From Coq Require Import Reals Lra Lia.
Open Scope Z_scope.

Section PivotGeneric.
Context {pw : PW}.
Local Notation R := (@F NumR).
Local Notation C := (candle (N := NumR)).
Context {S : Type}.
Variable next : S -> C -> S * iresult (N := NumR).
Variable dget : S -> rvs (N := NumR) * rvs (N := NumR).
Variable inp : S -> C -> R.
Hypothesis Hstep : forall s k, dget (fst (next s k)) = fst (reversal_next (dget s) (inp s k)).
Variables (s0 : S) (c0 : C) (v : R) (lft right : Z).
Variable Val : list C -> R.
Hypothesis HD : forall p k, inp (steps next s0 p) k = Val (rev (p ++ [k])).
Hypothesis Hnew : reversal_new lft right v = Ok (dget s0).
Hypothesis Hfirst : Val [c0] = v.
Hypothesis Hl : 1 <= lft.
Hypothesis Hr : 1 <= right.
Hypothesis Hlr : lft + right <= pmax - 2.

Theorem pivot_output cs c :
  snd (reversal_next (dget (steps next s0 (c0 :: cs))) (inp (steps next s0 (c0 :: cs)) c)) =
  let h := hget v (series Val (rev ((c0 :: cs) ++ [c]))) in
  let L := Z.to_nat (lft + right + 1) in let r := Z.to_nat right in
  a_sub (if Nat.eqb (argbest flt h L) r then a_buy_all else ANone) (if Nat.eqb (argbest fgt h L) r then a_buy_all else ANone).
Proof.
  rewrite (proj_steps next reversal_next dget inp Hstep).
  assert (H0 : inp s0 c0 = v) by (pose proof (HD [] c0) as H; change (steps next s0 []) with s0 in H; rewrite H; exact Hfirst).
  cbn [inputs]. rewrite H0.
  destruct (reversal_signal_correct lft right v (inputs next inp (fst (next s0 c0)) cs) (inp (steps next s0 (c0 :: cs)) c) Hl Hr Hlr)
    as (r0 & Er & Hsig). rewrite Hnew in Er. injection Er as <-. rewrite Hsig. cbv zeta.
  pose proof (inputs_series_next next inp Val s0 HD (c0 :: cs) c) as IS.
  cbn [inputs] in IS. rewrite H0 in IS. cbn [app] in IS |- *. rewrite IS. unfold series. reflexivity.
Qed.
End PivotGeneric.

Section PivotInstances.
Context {pw : PW}.
Local Notation R := (@F NumR).
Local Notation C := (candle (N := NumR)).
Ltac dlete := repeat match goal with |- context [let '(_, _) := ?e in _] => let E := fresh "E" in destruct e eqn:E end.

(** ---- Trix: signal #1 is the reversal (left = right = 1) of the series of Trix values *)
Definition trix_inp (s : trix_st (N := NumR)) (k : C) : R :=
  snd (momentum_next (tx_change s) (snd (tma_next (tx_tma s) (c_source k (tx_source s))))).
Lemma trix_pivot_shape (s : trix_st (N := NumR)) k :
  tx_rev (fst (trix_next s k)) = fst (reversal_next (tx_rev s) (trix_inp s k)) /\
  nth 0 (fst (snd (trix_next s k))) f0 = trix_inp s k /\
  nth 0 (sigs (snd (trix_next s k))) ANone = snd (reversal_next (tx_rev s) (trix_inp s k)).
Proof.
  unfold trix_next, trix_inp. destruct (tma_next (tx_tma s) _) as (t, tv). cbn [snd]. destruct (momentum_next (tx_change s) tv) as (ch, v). cbn [snd].
  destruct (reversal_next (tx_rev s) v). dlete. cbn. repeat split.
Qed.
Definition trix_of (p1 : Z) (signal : ma_cfg) (src : source) (c0 : C) (l : list C) : R := nth 0 (trix_values p1 signal src c0 l) f0.

Theorem trix_pivot_signal_correct p1 (signal : ma_cfg) src (c0 : C) cs c :
  2 < p1 <= pmax - 1 -> 1 < ma_period signal -> ma_len_ok signal -> 4 <= pmax ->
  exists s0, trix_init p1 signal src c0 = Ok s0 /\
    nth 0 (sigs (snd (trix_next (steps trix_next s0 (c0 :: cs)) c))) ANone =
    let h := hget f0 (series (trix_of p1 signal src c0) (rev ((c0 :: cs) ++ [c]))) in
    a_sub (if Nat.eqb (argbest flt h 3) 1 then a_buy_all else ANone) (if Nat.eqb (argbest fgt h 3) 1 then a_buy_all else ANone).
Proof.
  intros Hp Hsg Ls Hpm.
  destruct (trix_values_correct p1 signal src c0 [] c0 Hp Hsg (ma_proved_all _) Ls Hpm) as (s0 & E0 & _). exists s0. split; [exact E0|].
  assert (HD : forall p k, trix_inp (steps trix_next s0 p) k = trix_of p1 signal src c0 (rev (p ++ [k]))).
  { intros p k. destruct (trix_values_correct p1 signal src c0 p k Hp Hsg (ma_proved_all _) Ls Hpm) as (s1 & E1 & H1).
    rewrite E0 in E1. injection E1 as <-. unfold trix_of. rewrite <- H1. symmetry. apply trix_pivot_shape. }
  assert (Enew : reversal_new 1 1 (f0 (N := NumR)) = Ok (tx_rev s0)).
  { unfold trix_init in E0. destruct ((2 <? p1) && (1 <? ma_period signal)); [|discriminate]. cbv zeta in E0.
    destruct (tma_new p1 _); cbn [obind] in E0; try discriminate. destruct (ma_init signal f0); cbn [obind] in E0; try discriminate.
    destruct (momentum_new 1 _); cbn [obind] in E0; try discriminate. destruct (reversal_new 1 1 f0); cbn [obind] in E0; try discriminate.
    injection E0 as <-. reflexivity. }
  assert (Hfirst : trix_of p1 signal src c0 [c0] = f0).
  { unfold trix_of, trix_values. cbv zeta. cbn [nth]. unfold srcs, series. cbn [map suffixes hget]. set (v := c_source c0 src).
    assert (Lk : ma_len_ok (MAcfg KTMA p1)). { cbn [ma_len_ok]. destruct Hp as (Hp1 & Hp2). split; [apply Z.lt_le_incl, (Z.lt_trans 1 2 p1); [reflexivity|exact Hp1]|exact Hp2]. }
    pose proof (ma_def_constant (MAcfg KTMA p1) v 1 Lk) as Hc. unfold ma_def in Hc. cbv zeta in Hc. cbn [repeat] in Hc.
    cbn [hget hcons nth_default]. rewrite Hc. unfold f0. rsimp. unfold hconst. lra. }
  rewrite (proj2 (proj2 (trix_pivot_shape _ c))).
  rewrite (pivot_output trix_next tx_rev trix_inp (fun s k => proj1 (trix_pivot_shape s k)) s0 c0 f0 1 1 (trix_of p1 signal src c0) HD Enew Hfirst);
    [reflexivity|lia|lia|lia].
Qed.

(** ---- CoppockCurve: signal #2 is the reversal (s2_left, s2_right) of the series of Coppock values *)
Definition cop_inp (s : cop_st (N := NumR)) (k : C) : R :=
  let v := c_source k (cp_source s) in
  snd (ma_next (cp_m1 s) (fadd (snd (roc_next (cp_r1 s) v)) (snd (roc_next (cp_r2 s) v)))).
Lemma cop_pivot_shape (s : cop_st (N := NumR)) k :
  cp_pivot (fst (cop_next s k)) = fst (reversal_next (cp_pivot s) (cop_inp s k)) /\
  nth 0 (fst (snd (cop_next s k))) f0 = cop_inp s k /\
  nth 1 (sigs (snd (cop_next s k))) ANone = snd (reversal_next (cp_pivot s) (cop_inp s k)).
Proof.
  unfold cop_next, cop_inp. cbv zeta. destruct (roc_next (cp_r1 s) _) as (r1, x1). destruct (roc_next (cp_r2 s) _) as (r2, x2). cbn [snd].
  destruct (ma_next (cp_m1 s) (fadd x1 x2)) as (m1, v1). cbn [snd]. destruct (ma_next (cp_m2 s) v1). destruct (cross_next (cp_c1 s) _).
  destruct (reversal_next (cp_pivot s) v1). destruct (cross_next (cp_c2 s) _). cbn. repeat split.
Qed.
Definition cop_of (cfg : cop_cfg) (c0 : C) (l : list C) : R :=
  nth 0 (cop_values (cc_ma1 cfg) (cc_s3 cfg) (cc_p2 cfg) (cc_p3 cfg) (cc_source cfg) c0 l) f0.

Theorem coppock_pivot_signal_correct (cfg : cop_cfg) (c0 : C) cs c : cop_validate cfg = true -> cc_left cfg + cc_right cfg <= pmax - 2 ->
  ma_len_ok (cc_ma1 cfg) -> ma_len_ok (cc_s3 cfg) ->
  exists s0, cop_init (N := NumR) cfg c0 = Ok s0 /\
    nth 1 (sigs (snd (cop_next (steps cop_next s0 (c0 :: cs)) c))) ANone =
    let h := hget f0 (series (cop_of cfg c0) (rev ((c0 :: cs) ++ [c]))) in
    let L := Z.to_nat (cc_left cfg + cc_right cfg + 1) in let r := Z.to_nat (cc_right cfg) in
    a_sub (if Nat.eqb (argbest flt h L) r then a_buy_all else ANone) (if Nat.eqb (argbest fgt h L) r then a_buy_all else ANone).
Proof.
  intros Hv Hlr L1 L2.
  destruct (coppock_values_correct cfg c0 [] c0 Hv Hlr (ma_proved_all _) L1 (ma_proved_all _) L2) as (s0 & E0 & _). exists s0. split; [exact E0|].
  assert (HD : forall p k, cop_inp (steps cop_next s0 p) k = cop_of cfg c0 (rev (p ++ [k]))).
  { intros p k. destruct (coppock_values_correct cfg c0 p k Hv Hlr (ma_proved_all _) L1 (ma_proved_all _) L2) as (s1 & E1 & H1).
    rewrite E0 in E1. injection E1 as <-. unfold cop_of. rewrite <- H1. symmetry. apply cop_pivot_shape. }
  assert (Hb : 1 <= cc_left cfg /\ 1 <= cc_right cfg).
  { unfold cop_validate in Hv. repeat (apply andb_prop in Hv; destruct Hv as (Hv & ?)).
    repeat match goal with H : (_ <? _) = true |- _ => apply Z.ltb_lt in H end. lia. }
  assert (Enew : reversal_new (cc_left cfg) (cc_right cfg) (f0 (N := NumR)) = Ok (cp_pivot s0)).
  { unfold cop_init in E0. rewrite Hv in E0. cbn [negb] in E0. cbv zeta in E0.
    destruct (roc_new (cc_p2 cfg) _); cbn [obind] in E0; try discriminate. destruct (roc_new (cc_p3 cfg) _); cbn [obind] in E0; try discriminate.
    destruct (ma_init (cc_ma1 cfg) f0); cbn [obind] in E0; try discriminate. destruct (ma_init (cc_s3 cfg) f0); cbn [obind] in E0; try discriminate.
    destruct (reversal_new (cc_left cfg) (cc_right cfg) f0); cbn [obind] in E0; try discriminate. injection E0 as <-. reflexivity. }
  assert (Hfirst : cop_of cfg c0 [c0] = f0).
  { unfold cop_of, cop_values. cbv zeta. cbn [nth]. unfold srcs, series. cbn [map suffixes]. set (v := c_source c0 (cc_source cfg)).
    assert (Ez : fadd (roc_def (Z.to_nat (cc_p2 cfg)) (hget v [v])) (roc_def (Z.to_nat (cc_p3 cfg)) (hget v [v])) = f0 (N := NumR)).
    { unfold roc_def. assert (Hc : forall i, hget v [v] i = v) by (intros [|[|i]]; reflexivity). rewrite !Hc. unfold f0. rsimp. unfold Rdiv. ring. }
    rewrite Ez. change [f0 (N := NumR)] with (repeat (f0 (N := NumR)) 1). apply ma_def_constant. exact L1. }
  rewrite (proj2 (proj2 (cop_pivot_shape _ c))).
  rewrite (pivot_output cop_next cp_pivot cop_inp (fun s k => proj1 (cop_pivot_shape s k)) s0 c0 f0 (cc_left cfg) (cc_right cfg) (cop_of cfg c0) HD Enew Hfirst);
    [reflexivity|lia|lia|lia].
Qed.
End PivotInstances.
