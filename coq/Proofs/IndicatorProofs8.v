(** C05 continued: Elder's force index (window of candles + running volume sum feeding an average). *)
From Yata Require Import Base.Prelude Base.Num Base.NumR Core.Window Core.WindowSpec Core.Candle Core.Action Core.Strings
  Spec.Hist Spec.MethodDefs Spec.IndicatorDefs Methods.Basic Methods.Select Indicators.Common Indicators.Set3
  Proofs.MethodsCommon Proofs.Windowed Proofs.MAProofs Proofs.Cascade Proofs.IndicatorProofs3.
From Coq Require Import Reals Lra.
Open Scope Z_scope.

Section IP8.
Context {pw : PW}.
Local Notation R := (@F NumR).
Local Notation C := (candle (N := NumR)).
Local Notation gs := (gsum (N := NumR)).
Ltac dlet := repeat match goal with |- context [let '(_, _) := ?e in _] => destruct e end.

Definition efi_winv (n : nat) (src : source) (s : efi_st (N := NumR)) (h : nat -> C) : Prop :=
  ef_source s = src /\ WinOK n (ef_window s) h /\ ef_vol_sum s = gs n (fun i => c_volume (h i)).

Theorem efi_values_correct (ma : ma_cfg) p2 src (c0 : C) cs c :
  1 < ma_period ma -> 1 <= p2 < pmax -> ma_proved ma = true -> ma_len_ok ma ->
  exists s0, efi_init ma p2 src c0 = Ok s0 /\
    fst (snd (efi_next (steps efi_next s0 cs) c)) = efi_values ma p2 src c0 (rev (cs ++ [c])).
Proof.
  intros Hm Hp Pm Lm. unfold efi_init.
  destruct (Z.ltb_spec 1 (ma_period ma)); [|lia]. destruct (Z.leb_spec 1 p2); [|lia]. destruct (Z.ltb_spec p2 pmax); [|lia]. cbn [andb negb].
  destruct (ma_correct ma (f0 (N := NumR)) [] (f0 (N := NumR)) Pm Lm) as (m0 & Em & _). rewrite Em. cbn [obind].
  eexists; split; [reflexivity|].
  pose proof (ma_correct' _ _ _ Pm Lm Em) as Cm.
  assert (Hn1 : 1 <= p2) by lia. destruct (nat_len p2 Hn1) as (m & En).
  set (s0 := mkEfi src m0 (w_new_t p2 c0) (fmul (c_volume c0) (fofZ p2)) (f0, f0)).
  (* the window / volume-sum part of the state tracks the candle history *)
  assert (Hst : forall s h k, efi_winv (S m) src s h -> efi_winv (S m) src (fst (efi_next s k)) (hcons k h)).
  { intros s h k (Es & Hw & Hv). destruct (winok_push m _ h k Hw) as (w' & Pw & Hw').
    unfold efi_next. rewrite Pw. cbv beta iota. dlet. cbn [fst ef_source ef_window ef_vol_sum].
    split; [exact Es|]. split; [exact Hw'|]. rewrite Hv.
    pose proof (gsum_hcons m k h (fun y : C => c_volume y)) as G. cbn beta in G. cbn [ef_vol_sum]. rewrite G. rsimp. lra. }
  assert (Hinv : forall p, efi_winv (S m) src (steps efi_next s0 p) (hget c0 (rev p))).
  { intros p. induction p as [|a q IH] using rev_ind.
    - split; [reflexivity|]. change (steps efi_next s0 []) with s0. cbn [ef_window ef_vol_sum s0]. split.
      + pose proof (winok_new p2 c0) as W. rewrite En in W. apply W. lia.
      + change (hget c0 (rev [])) with (hconst c0). unfold hconst. rewrite gsum_const. change (steps efi_next s0 []) with s0. cbn [ef_vol_sum s0]. rsimp. rewrite (IZR_nat p2) by lia. rewrite En. lra.
    - rewrite steps_snoc, rev_unit. apply (Hst _ _ a IH). }
  set (raw := fun (l : list C) => let h := hget c0 l in
     fmul (fsub (c_source (h O) src) (c_source (h (Z.to_nat p2)) src)) (gs (Z.to_nat p2) (fun i => c_volume (h i)))).
  set (inp := fun (s : efi_st (N := NumR)) (k : C) =>
     let lft := snd (w_push_t (ef_window s) k) in
     fmul (fsub (c_source k (ef_source s)) (c_source lft (ef_source s))) (fadd (ef_vol_sum s) (fsub (c_volume k) (c_volume lft)))).
  assert (HD : forall p k, inp (steps efi_next s0 p) k = raw (rev (p ++ [k]))).
  { intros p k. destruct (Hinv p) as (Es & Hw & Hv). destruct (winok_push m _ _ k Hw) as (w' & Pw & _).
    unfold inp. cbv zeta. rewrite Pw, Es, Hv. cbn [snd]. unfold raw. cbv zeta. rewrite rev_unit, En.
    change (hget c0 (k :: rev p)) with (hcons k (hget c0 (rev p))). cbn [hcons].
    pose proof (gsum_hcons m k (hget c0 (rev p)) (fun y : C => c_volume y)) as G. cbn beta in G. rewrite G. f_equal. rsimp. lra. }
  assert (Hproj : forall s k, ef_ma (fst (efi_next s k)) = fst (ma_next (ef_ma s) (inp s k))).
  { intros s k. unfold efi_next, inp. destruct (w_push_t (ef_window s) k). cbn [snd]. destruct (ma_next (ef_ma s) _). dlet. reflexivity. }
  pose proof (proj_steps efi_next ma_next ef_ma inp Hproj cs s0) as S1.
  assert (Hout : fst (snd (efi_next (steps efi_next s0 cs) c)) =
     [snd (ma_next (ef_ma (steps efi_next s0 cs)) (inp (steps efi_next s0 cs) c))]).
  { unfold efi_next at 1. unfold inp. destruct (w_push_t (ef_window _) c). cbn [snd]. destruct (ma_next (ef_ma _) _). dlet. reflexivity. }
  rewrite Hout, S1. cbn [ef_ma s0]. rewrite Cm.
  rewrite (inputs_series_next efi_next inp raw s0 HD cs c).
  unfold efi_values. cbv zeta. reflexivity.
Qed.
End IP8.
