(** C10 continued: the MA constructor never panics, for any kind, any length in 0..=MAX and any construction value. *)
From Yata Require Import Base.Prelude Base.Num Core.Window Core.WindowSpec Core.Candle Core.Strings
  Spec.Hist Methods.Basic Methods.Select Indicators.Common Proofs.Totality.
Open Scope Z_scope.

Section T2.
Context {pw : PW} {N : Num}.
Ltac dif := repeat (match goal with |- context [if ?b then _ else _] => destruct b end; cbn [obind omap is_panic]).
Theorem ma_init_never_panics (c : ma_cfg) (v : F) : is_panic (ma_init c v) = false.
Proof.
  destruct c as (k, n). unfold ma_init. destruct k; cbn [omap];
    unfold sma_new, wma_new, hma_new, rma_new, ema_new, dma_new, dema_new, tma_new, tema_new, wsma_new, smm_new, swma_new, trima_new, linreg_new, vidya_new;
    repeat (unfold sma_new, wma_new, ema_new, dma_new, tma_new; cbn [obind omap]; dif); try reflexivity.
Qed.
End T2.
