(** RMA (y' = fma alpha x (alpha_rev * y)): the binary64 model stays within (2^-53 * S + 2^-1074) / (1 - alpha_rev) of the exact
    recurrence with the same two coefficients after any number of steps (S bounds the magnitudes of the two operations of a step). *)
From Coq Require Import ZArith Reals Floats Lra Lia Psatz List.
From Flocq Require Import Core BinarySingleNaN PrimFloat Relative Operations.
From Yata Require Import Base.Prelude Base.Num Base.NumR Base.NumF64 Methods.Basic Proofs.RoundingLink Proofs.RoundingLinkEma.
Import ListNotations.
Open Scope R_scope.

Local Notation pfloat := Coq.Floats.PrimFloat.float.
Local Notation rnd := (round radix2 (FLT_exp (-1074) 53) ZnearestE).
Local Instance Hprec53r : FLX.Prec_gt_0 prec := eq_refl _.
Local Instance Hmax1024r : Prec_lt_emax prec emax := eq_refl _.

Fixpoint rmaF (a b y0 : pfloat) (l : list pfloat) : pfloat :=
  match l with [] => y0 | x :: r => f64_fma a x (b * rmaF a b y0 r)%float end.
Fixpoint rmaR (a b y0 : R) (l : list R) : R :=
  match l with [] => y0 | x :: r => a * x + b * rmaR a b y0 r end.

Fixpoint rma_ok (a b y0 : pfloat) (l : list pfloat) : Prop :=
  match l with
  | [] => True
  | x :: r => let y := rmaF a b y0 r in
      rma_ok a b y0 r /\ fin x /\ Rabs (rnd (val b * val y)) < maxf /\ Rabs (rnd (val a * val x + val (b * y)%float)) < maxf
  end.
Fixpoint rma_scale (a b y0 : pfloat) (S : R) (l : list pfloat) : Prop :=
  match l with
  | [] => True
  | x :: r => let y := rmaF a b y0 r in
      rma_scale a b y0 S r /\ Rabs (val b * val y) + Rabs (val a * val x + val (b * y)%float) <= S
  end.

Theorem rma_rounding_link (a b y0 : pfloat) (S : R) (l : list pfloat) :
  fin a -> fin b -> fin y0 -> 0 <= val b < 1 -> 0 <= S -> rma_ok a b y0 l -> rma_scale a b y0 S l ->
  fin (rmaF a b y0 l) /\
  Rabs (val (rmaF a b y0 l) - rmaR (val a) (val b) (val y0) (map val l)) <= (u64 * S + 2 * eta64) / (1 - val b).
Proof.
  intros Fa Fb Fy0 Hb HS. assert (Hu : 0 <= u64) by (unfold u64; pose proof (bpow_gt_0 radix2 (-53 + 1)); lra).
  assert (Het : 0 < eta64) by (unfold eta64; pose proof (bpow_gt_0 radix2 (-1074)); lra).
  assert (Hc : 0 <= u64 * S + 2 * eta64) by (pose proof (Rmult_le_pos _ _ Hu HS); lra).
  induction l as [|x r IH]; intros Hok Hsc.
  - cbn [rmaF rmaR map]. split; [exact Fy0|]. rewrite Rminus_diag_eq by reflexivity. rewrite Rabs_R0.
    apply Rmult_le_pos; [exact Hc|left; apply Rinv_0_lt_compat; lra].
  - cbn [rma_ok] in Hok. cbn [rma_scale] in Hsc. destruct Hok as (Hr & Fx & Hov1 & Hov2). destruct Hsc as (Sr & Sx).
    destruct (IH Hr Sr) as (Fy & Ey). cbn [rmaF rmaR map].
    set (yF := rmaF a b y0 r) in *. set (Y := rmaR (val a) (val b) (val y0) (map val r)) in *.
    destruct (f64_mul_error b yF Fb Fy Hov1) as (Fp & e1 & eta1 & He1 & Heta1 & _ & Hp).
    destruct (f64_fma_error a x (b * yF)%float Fa Fx Fp Hov2) as (Fv & e2 & eta2 & He2 & Heta2 & Hv).
    split; [exact Fv|]. rewrite Hv.
    set (A := val a) in *. set (Bc := val b) in *. set (xr := val x) in *. set (y := val yF) in *. set (p := val (b * yF)%float) in *.
    replace ((A * xr + p) * (1 + e2) + eta2 - (A * xr + Bc * Y))
      with (Bc * (y - Y) + e1 * (Bc * y) + eta1 + e2 * (A * xr + p) + eta2) by (rewrite Hp; ring).
    eapply Rle_trans; [apply Rabs_triang|]. eapply Rle_trans; [apply Rplus_le_compat_r, Rabs_triang|].
    eapply Rle_trans; [apply Rplus_le_compat_r, Rplus_le_compat_r, Rabs_triang|].
    eapply Rle_trans; [apply Rplus_le_compat_r, Rplus_le_compat_r, Rplus_le_compat_r, Rabs_triang|]. rewrite !Rabs_mult.
    rewrite (Rabs_pos_eq Bc) by lra.
    assert (H1 : Rabs e1 * (Bc * Rabs y) <= u64 * (Bc * Rabs y)).
    { apply Rmult_le_compat_r; [apply Rmult_le_pos; [lra|apply Rabs_pos]|exact He1]. }
    assert (H2 : Rabs e2 * Rabs (A * xr + p) <= u64 * Rabs (A * xr + p)) by (apply Rmult_le_compat_r; [apply Rabs_pos|exact He2]).
    assert (H3 : Bc * Rabs (y - Y) <= Bc * ((u64 * S + 2 * eta64) / (1 - Bc))) by (apply Rmult_le_compat_l; [lra|exact Ey]).
    assert (Sx' : Bc * Rabs y + Rabs (A * xr + p) <= S).
    { rewrite Rabs_mult, (Rabs_pos_eq Bc) in Sx by lra. exact Sx. }
    assert (H4 : u64 * (Bc * Rabs y) + u64 * Rabs (A * xr + p) <= u64 * S).
    { rewrite <- Rmult_plus_distr_l. apply Rmult_le_compat_l; [exact Hu|exact Sx']. }
    assert (H5 : Bc * ((u64 * S + 2 * eta64) / (1 - Bc)) + (u64 * S + 2 * eta64) = (u64 * S + 2 * eta64) / (1 - Bc)) by (field; lra).
    unfold eta64 in *. lra.
Qed.

Lemma finite_mul_no_overflow (x y : pfloat) : fin x -> fin y -> fin (x * y)%float -> Rabs (rnd (val x * val y)) < maxf.
Proof.
  unfold fin. rewrite !is_finite_equiv, mul_equiv. intros Fx Fy Fs.
  pose proof (Bmult_correct prec emax Hprec53r Hmax1024r mode_NE (Prim2B x) (Prim2B y)) as H.
  change (SpecFloat.fexp prec emax) with (FLT_exp (-1074) 53) in H. cbn [round_mode] in H.
  destruct (Rlt_bool_spec (Rabs (rnd (B2R (Prim2B x) * B2R (Prim2B y)))) (bpow radix2 emax)) as [Hlt|Hge]; [exact Hlt|].
  exfalso. unfold binary_overflow in H. cbn [overflow_to_inf] in H.
  assert (Hi : is_finite (Bmult mode_NE (Prim2B x) (Prim2B y)) = false).
  { destruct (Bmult mode_NE (Prim2B x) (Prim2B y)); cbn in H; try discriminate; reflexivity. }
  assert (Hc : is_finite (Bmult mode_NE (Prim2B x) (Prim2B y)) = true) by exact Fs. rewrite Hi in Hc. discriminate.
Qed.

Fixpoint rma_boundb (a b y0 m : pfloat) (l : list pfloat) : bool :=
  match l with
  | [] => absle y0 m
  | x :: r => let y := rmaF a b y0 r in
      rma_boundb a b y0 m r && Coq.Floats.PrimFloat.is_finite x && absle x m && Coq.Floats.PrimFloat.is_finite (b * y)%float
      && Coq.Floats.PrimFloat.is_finite (f64_fma a x (b * y)%float) && absle (f64_fma a x (b * y)%float) m
  end.

Lemma rma_boundb_ok (a b y0 m : pfloat) (l : list pfloat) :
  fin a -> fin b -> fin y0 -> fin m -> 0 <= val a <= 1 -> 0 <= val b < 1 -> rma_boundb a b y0 m l = true ->
  fin (rmaF a b y0 l) /\ Rabs (val (rmaF a b y0 l)) <= val m /\ rma_ok a b y0 l /\ rma_scale a b y0 (4 * val m + eta64) l.
Proof.
  intros Fa Fb Fy0 Fm Ha Hb. assert (Hu1 : Rabs 1 = 1) by (apply Rabs_pos_eq; lra).
  assert (Hu : 0 <= u64 <= 1).
  { unfold u64. change (-53 + 1)%Z with (-52)%Z. pose proof (bpow_gt_0 radix2 (-52)).
    assert (bpow radix2 (-52) <= bpow radix2 0) by (apply bpow_le; lia). cbn [bpow] in *. lra. }
  induction l as [|x r IH]; cbn [rma_boundb rmaF rma_ok rma_scale]; intros H.
  - split; [exact Fy0|]. split; [apply absle_ok; assumption|]. split; exact I.
  - repeat (apply andb_prop in H; let H' := fresh "Hb" in destruct H as (H & H')).
    destruct (IH H) as (Fy & By & Okr & Scr). set (y := rmaF a b y0 r) in *.
    assert (Fx : fin x) by exact Hb4. assert (Bx := absle_ok x m Fx Fm Hb3).
    assert (Fp : fin (b * y)%float) by exact Hb2. assert (Fv : fin (f64_fma a x (b * y)%float)) by exact Hb1.
    assert (Hov1 := finite_mul_no_overflow b y Fb Fy Fp). assert (Hov2 := finite_fma_no_overflow _ _ _ Fa Fx Fp Fv).
    split; [exact Fv|]. split; [apply absle_ok; assumption|]. split; [repeat split; assumption|]. split; [exact Scr|].
    destruct (f64_mul_error b y Fb Fy Hov1) as (_ & e1 & eta1 & He1 & Heta1 & _ & Hp).
    set (p := val (b * y)%float) in *. set (A := val a) in *. set (Bc := val b) in *. set (xr := val x) in *. set (yr := val y) in *.
    set (M := val m) in *. fold eta64 in Heta1.
    assert (H1 : Rabs (Bc * yr) <= M).
    { rewrite Rabs_mult, (Rabs_pos_eq Bc) by lra. assert (0 <= Rabs yr) by apply Rabs_pos. nra. }
    assert (Hpp : Rabs p <= 2 * M + eta64).
    { rewrite Hp. eapply Rle_trans; [apply Rabs_triang|]. rewrite Rabs_mult.
      assert (Rabs (1 + e1) <= 2) by (eapply Rle_trans; [apply Rabs_triang|]; rewrite Hu1; lra).
      assert (0 <= Rabs (Bc * yr)) by apply Rabs_pos. assert (0 <= Rabs (1 + e1)) by apply Rabs_pos. nra. }
    assert (H2 : Rabs (A * xr + p) <= 3 * M + eta64).
    { eapply Rle_trans; [apply Rabs_triang|]. rewrite Rabs_mult, (Rabs_pos_eq A) by lra. assert (0 <= Rabs xr) by apply Rabs_pos. nra. }
    lra.
Qed.

From Yata Require Import Spec.Hist.
Open Scope R_scope.

Lemma rma_model_f (a b y0 : pfloat) xs :
  steps (rma_next (N := NumF64)) (mkRMA a b y0) xs = mkRMA a b (rmaF a b y0 (rev xs)).
Proof.
  induction xs as [|x xs IH] using rev_ind; [reflexivity|]. rewrite steps_snoc, rev_unit, IH. reflexivity.
Qed.
Lemma rma_model_r (a b y0 : R) xs :
  steps (rma_next (N := NumR)) (@mkRMA NumR a b y0) xs = @mkRMA NumR a b (rmaR a b y0 (rev xs)).
Proof.
  induction xs as [|x xs IH] using rev_ind; [reflexivity|]. rewrite steps_snoc, rev_unit, IH. reflexivity.
Qed.

Theorem rma_model_accuracy (a b y0 m : pfloat) (xs : list pfloat) :
  fin a -> fin b -> fin y0 -> fin m -> 0 <= val a <= 1 -> 0 <= val b < 1 -> rma_boundb a b y0 m (rev xs) = true ->
  Rabs (val (rma_peek (steps (rma_next (N := NumF64)) (mkRMA a b y0) xs))
        - rma_peek (steps (rma_next (N := NumR)) (@mkRMA NumR (val a) (val b) (val y0)) (map val xs)))
  <= (u64 * (4 * val m + eta64) + 2 * eta64) / (1 - val b).
Proof.
  intros Fa Fb Fy0 Fm Ha Hb Hbb. rewrite rma_model_f, rma_model_r. unfold rma_peek. cbn [rma_prev]. rewrite <- map_rev.
  destruct (rma_boundb_ok a b y0 m (rev xs) Fa Fb Fy0 Fm Ha Hb Hbb) as (_ & _ & Hok & Hsc).
  assert (HM : 0 <= val m).
  { clear - Hbb Fy0 Fm. induction (rev xs) as [|x r IH]; cbn [rma_boundb] in Hbb.
    - eapply Rle_trans; [apply Rabs_pos|apply (absle_ok y0 m Fy0 Fm Hbb)].
    - repeat (apply andb_prop in Hbb; destruct Hbb as (Hbb & _)). exact (IH Hbb). }
  assert (Het : 0 < eta64) by (unfold eta64; pose proof (bpow_gt_0 radix2 (-1074)); lra).
  apply (rma_rounding_link a b y0 (4 * val m + eta64) (rev xs) Fa Fb Fy0 Hb); [lra|exact Hok|exact Hsc].
Qed.

(** non-vacuity: RMA(5) coefficients (alpha = 0.2, alpha_rev = 1 - 0.2) on a stream with values of very different magnitudes *)
Example rma_accuracy_witness :
  let xs := [7; 0.1; 1; -0x1.7e43c8800759cp+50; 1.5; 2e15; 3; 1e-300]%float in
  let a := 0.2%float in let b := (1 - 0.2)%float in
  fin a /\ fin b /\ rma_boundb a b 1%float 0x1p+60%float (rev xs) = true.
Proof. cbv zeta. repeat split; vm_compute; reflexivity. Qed.
