(** C20: PeriodType width is only a capacity choice.  All theorems of the
    development are stated for an arbitrary width ([pw : PW], 2 <= pmax), so
    they hold for u16/u32/u64 with lengths beyond 255; here: for parameters
    that fit the default type the model does not depend on the width. *)
From Yata Require Import Base.Prelude Base.Num Base.NumR Core.Window Core.WindowSpec Spec.Hist Spec.MethodDefs
  Methods.Basic Proofs.MethodsCommon Proofs.Windowed.
Open Scope Z_scope.

Definition PW32 : PW := {| pmax := 4294967295 |}.
Definition PW64 : PW := {| pmax := 18446744073709551615 |}.

Section Width.
Context {A : Type}.
(** constructing and pushing: the result does not mention the width when the capacity fits both *)
Lemma w_new_width (p q : PW) n (v : A) : n <= @pmax p - 1 -> n <= @pmax q - 1 ->
  w_new (pw := p) n v = w_new (pw := q) n v.
Proof.
  intros H1 H2. unfold w_new. destruct (Z.leb_spec n (@pmax p - 1)), (Z.leb_spec n (@pmax q - 1)); try lia. reflexivity.
Qed.
Lemma w_push_width (p q : PW) (w : window A) x : widx w + 1 <= @pmax p -> widx w + 1 <= @pmax q ->
  w_push (pw := p) w x = w_push (pw := q) w x.
Proof.
  intros H1 H2. unfold w_push. destruct (w_is_empty w); [reflexivity|].
  destruct (nth_error (buf w) (Z.to_nat (widx w))); [|reflexivity].
  destruct (Z.ltb_spec (@pmax p) (widx w + 1)), (Z.ltb_spec (@pmax q) (widx w + 1)); try lia. reflexivity.
Qed.
End Width.

(** SMA with a length that fits u8 behaves identically under every wider PeriodType, on every stream *)
Theorem sma_width_irrelevant (q : PW) n (v : @F NumR) xs : 255 <= @pmax q -> 1 <= n <= 254 ->
  exists s, sma_new (pw := PW8) n v = Ok s /\ sma_new (pw := q) n v = Ok s /\
    run (sma_next (pw := PW8)) s xs = run (sma_next (pw := q)) s xs.
Proof.
  intros Hq Hn.
  destruct (sma_init (pw := PW8) n v ltac:(cbn; lia)) as (s & E8 & I8).
  exists s. split; [exact E8|].
  assert (Eq : sma_new (pw := q) n v = Ok s).
  { revert E8. unfold sma_new, bad_len, w_new_t. cbn [pmax PW8].
    destruct (Z.eqb_spec n 0), (Z.eqb_spec n 255), (Z.eqb_spec n (@pmax q)); try lia. cbn [orb].
    rewrite (w_new_width PW8 q n v) by (cbn; lia). intros E. exact E. }
  split; [exact Eq|].
  destruct (nat_len n ltac:(lia)) as (m & Em). rewrite Em in I8.
  assert (G : forall xs s h, sma_inv (pw := PW8) (S m) s h ->
            run (sma_next (pw := PW8)) s xs = run (sma_next (pw := q)) s xs).
  { clear - Hq Hn Em. induction xs as [|x r IH]; intros s h Hi; [reflexivity|].
    cbn [run].
    assert (Ep : w_push_t (pw := PW8) (sma_window s) x = w_push_t (pw := q) (sma_window s) x).
    { unfold w_push_t. destruct Hi as ((Hwf & Hsz & _) & _). destruct Hwf as (H1 & H2 & H3 & H4).
      rewrite (w_push_width PW8 q) by (cbn in *; lia). reflexivity. }
    destruct (sma_step (pw := PW8) m s h x Hi) as (Hi' & _).
    unfold sma_next in *. rewrite <- Ep. destruct (w_push_t (pw := PW8) (sma_window s) x) as [w' old].
    cbv zeta in *. cbn [fst] in Hi'. f_equal. eapply IH. exact Hi'. }
  eapply G. exact I8.
Qed.
