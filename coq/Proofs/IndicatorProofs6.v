(** C05 continued: ChaikinMoneyFlow and ChandeMomentumOscillator (running sums over a window, by state invariants). *)
From Yata Require Import Base.Prelude Base.Num Base.NumR Core.Window Core.WindowSpec Core.Candle Core.Action Core.Strings
  Spec.Hist Spec.MethodDefs Spec.IndicatorDefs Methods.Basic Methods.Select Indicators.Common Indicators.Set2
  Proofs.MethodsCommon Proofs.Windowed Proofs.Windowed3 Proofs.IndicatorProofs Proofs.IndicatorProofs2.
From Coq Require Import Reals Lra.
Open Scope Z_scope.

Section IP6.
Context {pw : PW}.
Local Notation R := (@F NumR).
Local Notation C := (candle (N := NumR)).
Local Notation gs := (gsum (N := NumR)).
Ltac dlet := repeat match goal with |- context [let '(_, _) := ?e in _] => destruct e end.

(** ---- Chaikin money flow: sum of clv*volume over the sum of the volumes of the last n candles *)
Definition cmf_inv (n : nat) (s : cmf_st (N := NumR)) (h : nat -> C) : Prop :=
  adi_inv n (cf_adi s) h /\ WinOK n (cf_window s) (fun i => c_volume (h i)) /\
  cf_vol_sum s = gs n (fun i => c_volume (h i)).

Theorem cmf_values_correct size (c0 : C) cs c : 1 < size < pmax ->
  exists s0, cmf_init size c0 = Ok s0 /\
    fst (snd (cmf_next (steps cmf_next s0 cs) c)) = cmf_values size c0 (rev (cs ++ [c])).
Proof.
  intros Hs. unfold cmf_init. destruct (Z.ltb_spec 1 size); [|lia]. destruct (Z.ltb_spec size pmax); [|lia]. cbn [andb negb].
  assert (Rn : 1 <= size <= pmax - 1) by lia.
  destruct (adi_init size c0 Rn) as (a0 & Ea & Ia). rewrite Ea. cbn [obind]. eexists; split; [reflexivity|].
  assert (Hn1 : 1 <= size) by lia. destruct (nat_len size Hn1) as (m & Em). rewrite Em in *.
  set (valsf := fun (h : nat -> C) => [fdiv (adi_def (S m) h) (gs (S m) (fun i => c_volume (h i)))]).
  assert (Hstep : forall s h k, cmf_inv (S m) s h -> cmf_inv (S m) (fst (cmf_next s k)) (hcons k h) /\
                                fst (snd (cmf_next s k)) = valsf (hcons k h)).
  { intros s h k (Ha & Hw & Hv). destruct (adi_step m _ h k Ha) as (Ha' & Oa).
    destruct (winok_push m _ _ (c_volume k) Hw) as (w' & Hp & Hw').
    unfold cmf_next. destruct (adi_next (cf_adi s) k) as (a1, adiv). cbn [fst snd] in Ha', Oa. rewrite Hp. cbv beta iota.
    destruct (cross_next (cf_cross s) _) as (cc, sg). cbn [fst snd].
    assert (Ev : fadd (cf_vol_sum s) (fsub (c_volume k) (c_volume (h m))) = gs (S m) (fun i => c_volume (hcons k h i))).
    { rewrite Hv. pose proof (gsum_hcons m k h (fun y : C => c_volume y)) as G. cbn beta in G. rewrite G. rsimp. lra. }
    split.
    - split; [exact Ha'|]. split; [|exact Ev]. eapply winok_ext; [|exact Hw']. intros [|i]; reflexivity.
    - unfold valsf. rewrite Oa, Ev. reflexivity. }
  rewrite (values_correct cmf_next (cmf_inv (S m)) valsf Hstep _ c0 cs c).
  - unfold valsf, cmf_values. cbv zeta. rewrite Em. reflexivity.
  - split; [exact Ia|]. split.
    + cbn [cf_window]. pose proof (winok_new size (c_volume c0)) as W. rewrite Em in W. apply W. lia.
    + cbn [cf_vol_sum]. unfold hconst. rewrite gsum_const. rsimp. rewrite (IZR_nat size) by lia. rewrite Em. lra.
Qed.

(** ---- Chande momentum oscillator: (sum of gains - sum of losses) / (sum of gains + sum of losses) over the
    last n one-step changes of the source *)
Lemma hget_diffs (x0 : R) rs i : hget f0 (diffs x0 rs) i = fsub (hget x0 rs i) (hget x0 rs (S i)).
Proof.
  revert i. induction rs as [|x r IH]; intros i.
  - cbn [diffs hget hconst]. unfold hconst. rsimp. ring.
  - destruct i as [|i]; cbn [diffs hget hcons]; [reflexivity|]. apply IH.
Qed.
Lemma cmo_change_R (d : R) : cmo_change d = (fpos d, fnegp d).
Proof.
  unfold cmo_change, fpos, fnegp, fofb, fgt. rsimp. destruct (Rltb_spec 0 d), (Rltb_spec d 0); f_equal; rsimp; try ring; lra.
Qed.

Definition cmo_ch (src : source) (h : nat -> C) (i : nat) : R := fsub (c_source (h i) src) (c_source (h (S i)) src).
Definition cmo_inv (n : nat) (src : source) (s : cmo_st (N := NumR)) (h : nat -> C) : Prop :=
  cm_source s = src /\ WinOK 1 (cm_change s) (fun i => c_source (h i) src) /\ WinOK n (cm_window s) (cmo_ch src h) /\
  cm_pos s = gs n (fun i => fpos (cmo_ch src h i)) /\ cm_neg s = gs n (fun i => fnegp (cmo_ch src h i)).

Theorem cmo_values_correct period zone src (c0 : C) cs c : cmo_validate period zone = true ->
  exists s0, cmo_init period zone src c0 = Ok s0 /\
    fst (snd (cmo_next (steps cmo_next s0 cs) c)) = cmo_values period src c0 (rev (cs ++ [c])).
Proof.
  intros Hv. unfold cmo_init. rewrite Hv. cbn [negb].
  assert (Hn : 2 <= period <= pmax - 1).
  { unfold cmo_validate in Hv. repeat (apply andb_prop in Hv; destruct Hv as (Hv & ?)).
    repeat match goal with H : (_ <? _) = true |- _ => apply Z.ltb_lt in H end. lia. }
  assert (R1 : 1 <= 1 <= pmax - 1) by lia.
  destruct (momentum_init 1 (c_source c0 src) R1) as (ch0 & Ech & Ich). rewrite Ech. cbn [obind].
  eexists; split; [reflexivity|].
  assert (Hn1 : 1 <= period) by lia. destruct (nat_len period Hn1) as (m & Em).
  set (valsf := fun (h : nat -> C) =>
     let up := gs (S m) (fun i => fpos (cmo_ch src h i)) in let dn := gs (S m) (fun i => fnegp (cmo_ch src h i)) in
     [if fne up f0 || fne dn f0 then fdiv (fsub up dn) (fadd up dn) else f0]).
  assert (Hstep : forall s h k, cmo_inv (S m) src s h -> cmo_inv (S m) src (fst (cmo_next s k)) (hcons k h) /\
                                fst (snd (cmo_next s k)) = valsf (hcons k h)).
  { intros s h k (Es & Wc & Ww & Hp & Hq).
    destruct (winok_push 0 _ _ (c_source k src) Wc) as (wc' & Pc & Wc').
    unfold cmo_next. rewrite Es. unfold momentum_next. rewrite Pc. cbv beta iota.
    set (d := fsub (c_source k src) (c_source (h O) src)).
    destruct (winok_push m _ _ d Ww) as (ww' & Pw & Ww'). rewrite Pw. cbv beta iota.
    rewrite !cmo_change_R. cbv beta iota.
    destruct (cross_under_next (cm_cu s) _) as (cu, au). destruct (cross_above_next (cm_ca s) _) as (ca, aa). cbn [fst snd].
    assert (Ech' : forall i, hcons d (cmo_ch src h) i = cmo_ch src (hcons k h) i) by (intros [|i]; reflexivity).
    assert (Ep : fadd (cm_pos s) (fsub (fpos d) (fpos (cmo_ch src h m))) = gs (S m) (fun i => fpos (cmo_ch src (hcons k h) i))).
    { rewrite Hp. rewrite (gsum_ext (S m) (fun i => fpos (cmo_ch src (hcons k h) i)) (fun i => fpos (hcons d (cmo_ch src h) i)))
        by (intros; rewrite Ech'; reflexivity).
      pose proof (gsum_hcons m d (cmo_ch src h) (fun y : R => fpos y)) as G. cbn beta in G. rewrite G. rsimp. lra. }
    assert (Eq : fadd (cm_neg s) (fsub (fnegp d) (fnegp (cmo_ch src h m))) = gs (S m) (fun i => fnegp (cmo_ch src (hcons k h) i))).
    { rewrite Hq. rewrite (gsum_ext (S m) (fun i => fnegp (cmo_ch src (hcons k h) i)) (fun i => fnegp (hcons d (cmo_ch src h) i)))
        by (intros; rewrite Ech'; reflexivity).
      pose proof (gsum_hcons m d (cmo_ch src h) (fun y : R => fnegp y)) as G. cbn beta in G. rewrite G. rsimp. lra. }
    split.
    - split; [reflexivity|]. cbn [cm_change cm_window cm_pos cm_neg]. split; [|split; [|split; assumption]].
      + eapply winok_ext; [|exact Wc']. intros [|i]; reflexivity.
      + eapply winok_ext; [|exact Ww']. exact Ech'.
    - unfold valsf. cbv zeta. rewrite Ep, Eq. reflexivity. }
  rewrite (values_correct cmo_next (cmo_inv (S m) src) valsf Hstep _ c0 cs c).
  - unfold valsf, cmo_values. cbv zeta. rewrite Em.
    assert (E : forall i, cmo_ch src (hget c0 (rev (cs ++ [c]))) i = hget f0 (diffs (c_source c0 src) (srcs src (rev (cs ++ [c])))) i).
    { intros i. rewrite hget_diffs. unfold cmo_ch, srcs. rewrite !(hget_map_gen (fun k : C => c_source k src)). reflexivity. }
    rewrite (gsum_ext (S m) (fun i => fpos (cmo_ch src (hget c0 (rev (cs ++ [c]))) i)) (fun i => fpos (hget f0 (diffs (c_source c0 src) (srcs src (rev (cs ++ [c])))) i)))
      by (intros; rewrite E; reflexivity).
    rewrite (gsum_ext (S m) (fun i => fnegp (cmo_ch src (hget c0 (rev (cs ++ [c]))) i)) (fun i => fnegp (hget f0 (diffs (c_source c0 src) (srcs src (rev (cs ++ [c])))) i)))
      by (intros; rewrite E; reflexivity).
    reflexivity.
  - split; [reflexivity|]. cbn [cm_change cm_window cm_pos cm_neg]. split; [|split; [|split]].
    + change 1%nat with (Z.to_nat 1). eapply winok_ext; [|exact Ich]. intros i. reflexivity.
    + pose proof (winok_new period (f0 (N := NumR))) as W. rewrite Em in W. eapply winok_ext; [|apply W; lia].
      intros i. unfold cmo_ch, hconst. rsimp. ring.
    + rewrite (gsum_ext (S m) _ (fun _ => 0%R)); [rewrite gsum_const; rsimp; ring|].
      intros i _. unfold cmo_ch, hconst, fpos. rsimp. replace (c_source c0 src - c_source c0 src)%R with 0%R by ring.
      destruct (Rltb_spec 0 0); [lra|reflexivity].
    + rewrite (gsum_ext (S m) _ (fun _ => 0%R)); [rewrite gsum_const; rsimp; ring|].
      intros i _. unfold cmo_ch, hconst, fnegp. rsimp. replace (c_source c0 src - c_source c0 src)%R with 0%R by ring.
      destruct (Rltb_spec 0 0); [lra|reflexivity].
Qed.

(** ---- Money flow index: positive flow / negative flow of the last n candles (volume of a bar counts as positive
    (negative) flow when its typical price is above (below) the previous one) *)
Definition mfi_flow (up : bool) (h : nat -> C) (i : nat) : R :=
  if (if up then fgt else flt) (c_tp (h i)) (c_tp (h (S i))) then c_volume (h i) else f0.
Definition mfi_inv (n : nat) (z : R) (s : mfi_st (N := NumR)) (h : nat -> C) : Prop :=
  mf_zone s = z /\ WinOK n (mf_window s) h /\ mf_prev s = h O /\ mf_last_prev s = h n /\
  mf_pmf s = gs n (mfi_flow true h) /\ mf_nmf s = gs n (mfi_flow false h).
Lemma mfi_tfunc_R (a b : C) : mfi_tfunc a b =
  (if fgt (c_tp a) (c_tp b) then c_volume a else f0, if flt (c_tp a) (c_tp b) then c_volume a else f0).
Proof. unfold mfi_tfunc, fofb. cbv zeta. destruct (fgt (c_tp a) (c_tp b)), (flt (c_tp a) (c_tp b)); f_equal; rsimp; ring. Qed.

Theorem mfi_values_correct period zone (c0 : C) cs c : mfi_validate period zone = true ->
  exists s0, mfi_init period zone c0 = Ok s0 /\
    fst (snd (mfi_next (steps mfi_next s0 cs) c)) = mfi_values period zone c0 (rev (cs ++ [c])).
Proof.
  intros Hv. unfold mfi_init. rewrite Hv. cbn [negb]. eexists; split; [reflexivity|].
  assert (Hn : 1 <= period <= pmax - 1).
  { unfold mfi_validate in Hv. repeat (apply andb_prop in Hv; destruct Hv as (Hv & ?)).
    repeat match goal with H : (_ <? _) = true |- _ => apply Z.ltb_lt in H end. lia. }
  assert (Hn1 : 1 <= period) by lia. destruct (nat_len period Hn1) as (m & Em).
  set (valsf := fun (h : nat -> C) =>
     let pmf := gs (S m) (mfi_flow true h) in let nmf := gs (S m) (mfi_flow false h) in
     let mfr := if feq nmf f0 then f1 else fdiv pmf nmf in
     [fsub f1 zone; fsub f1 (fdiv f1 (fadd f1 mfr)); zone]).
  assert (Hstep : forall s h k, mfi_inv (S m) zone s h -> mfi_inv (S m) zone (fst (mfi_next s k)) (hcons k h) /\
                                fst (snd (mfi_next s k)) = valsf (hcons k h)).
  { intros s h k (Ez & Hw & Hp & Hl & Hpm & Hnm).
    destruct (winok_push m _ h k Hw) as (w' & Pw & Hw').
    unfold mfi_next. rewrite !mfi_tfunc_R, Pw. cbv beta iota. rewrite mfi_tfunc_R. cbv beta iota. rewrite Hp, Hl, Ez.
    destruct (cross_next (mf_cu s) _) as (cu, au). destruct (cross_next (mf_cl s) _) as (cl, al). cbn [fst snd].
    assert (Ef : forall up i, hcons (mfi_flow up (hcons k h) O) (mfi_flow up h) i = mfi_flow up (hcons k h) i) by (intros up [|i]; reflexivity).
    assert (Ep : fadd (mf_pmf s) (fsub (if fgt (c_tp k) (c_tp (h O)) then c_volume k else f0)
                                       (if fgt (c_tp (h m)) (c_tp (h (S m))) then c_volume (h m) else f0))
                 = gs (S m) (mfi_flow true (hcons k h))).
    { rewrite Hpm. rewrite (gsum_ext (S m) (mfi_flow true (hcons k h)) (hcons (mfi_flow true (hcons k h) O) (mfi_flow true h))) by (intros; rewrite Ef; reflexivity).
      pose proof (gsum_hcons m (mfi_flow true (hcons k h) O) (mfi_flow true h) (fun y : R => y)) as G. cbn beta in G.
      change (gsum (S m) (fun i => hcons (mfi_flow true (hcons k h) O) (mfi_flow true h) i)) with (gs (S m) (hcons (mfi_flow true (hcons k h) O) (mfi_flow true h))) in G.
      change (gsum (S m) (fun i => mfi_flow true h i)) with (gs (S m) (mfi_flow true h)) in G. rewrite G.
      assert (EA : (if fgt (c_tp k) (c_tp (h O)) then c_volume k else f0) = mfi_flow true (hcons k h) O) by reflexivity.
      assert (EB : (if fgt (c_tp (h m)) (c_tp (h (S m))) then c_volume (h m) else f0) = mfi_flow true h m) by reflexivity.
      rewrite EA, EB. generalize (mfi_flow true (hcons k h) O) (mfi_flow true h m) (gs (S m) (mfi_flow true h)). intros a b g. rsimp. lra. }
    assert (En : fadd (mf_nmf s) (fsub (if flt (c_tp k) (c_tp (h O)) then c_volume k else f0)
                                       (if flt (c_tp (h m)) (c_tp (h (S m))) then c_volume (h m) else f0))
                 = gs (S m) (mfi_flow false (hcons k h))).
    { rewrite Hnm. rewrite (gsum_ext (S m) (mfi_flow false (hcons k h)) (hcons (mfi_flow false (hcons k h) O) (mfi_flow false h))) by (intros; rewrite Ef; reflexivity).
      pose proof (gsum_hcons m (mfi_flow false (hcons k h) O) (mfi_flow false h) (fun y : R => y)) as G. cbn beta in G.
      change (gsum (S m) (fun i => hcons (mfi_flow false (hcons k h) O) (mfi_flow false h) i)) with (gs (S m) (hcons (mfi_flow false (hcons k h) O) (mfi_flow false h))) in G.
      change (gsum (S m) (fun i => mfi_flow false h i)) with (gs (S m) (mfi_flow false h)) in G. rewrite G.
      assert (EA : (if flt (c_tp k) (c_tp (h O)) then c_volume k else f0) = mfi_flow false (hcons k h) O) by reflexivity.
      assert (EB : (if flt (c_tp (h m)) (c_tp (h (S m))) then c_volume (h m) else f0) = mfi_flow false h m) by reflexivity.
      rewrite EA, EB. generalize (mfi_flow false (hcons k h) O) (mfi_flow false h m) (gs (S m) (mfi_flow false h)). intros a b g. rsimp. lra. }
    split.
    - split; [reflexivity|]. cbn [mf_window mf_prev mf_last_prev mf_pmf mf_nmf]. split; [exact Hw'|]. split; [reflexivity|]. split; [reflexivity|]. split; [exact Ep|exact En].
    - unfold valsf. cbv zeta. rewrite Ep, En. unfold frecip. reflexivity. }
  rewrite (values_correct mfi_next (mfi_inv (S m) zone) valsf Hstep _ c0 cs c).
  - unfold valsf, mfi_values. cbv zeta. rewrite Em. reflexivity.
  - split; [reflexivity|]. cbn [mf_window mf_prev mf_last_prev mf_pmf mf_nmf]. split.
    + pose proof (winok_new period c0) as W. rewrite Em in W. apply W. lia.
    + split; [reflexivity|]. split; [reflexivity|].
      assert (Z0 : forall up i, mfi_flow up (hconst c0) i = 0%R).
      { intros up i. unfold mfi_flow, hconst. destruct up; [unfold fgt|]; rsimp; destruct (Rltb_spec (c_tp c0) (c_tp c0)); try lra; reflexivity. }
      split; (rewrite (gsum_ext (S m) _ (fun _ => 0%R)) by (intros; apply Z0); rewrite gsum_const; rsimp; ring).
Qed.
End IP6.
