(** C15 continued: the moving median (SMM) commutes with every affine map (increasing maps keep the order of the
    sorted window, decreasing ones reverse it, and the median of a reversed list is the same). *)
From Yata Require Import Base.Prelude Base.Num Base.NumR Core.Window Core.WindowSpec Core.Candle Core.Strings
  Spec.Hist Spec.MethodDefs Spec.IndicatorDefs Methods.Basic Proofs.MethodsCommon Proofs.Smm.
From Coq Require Import Reals Lra Lia Sorting.Permutation Sorting.Sorted.
Open Scope R_scope.

Section Avg4.
Context {pw : PW}.

Lemma sorted_map_incr (a b : R) (l : list R) : 0 <= a -> sortedR l -> sortedR (map (fun y => a * y + b) l).
Proof.
  intros Ha H. induction H as [|x l Hs IH Hx]; [constructor|]. cbn [map]. constructor; [exact IH|].
  rewrite Forall_forall in *. intros z Hz. apply in_map_iff in Hz. destruct Hz as (y & <- & Hy). specialize (Hx y Hy). nra.
Qed.
Lemma sorted_rev_map_decr (a b : R) (l : list R) : a <= 0 -> sortedR l -> sortedR (rev (map (fun y => a * y + b) l)).
Proof.
  intros Ha H. induction H as [|x l Hs IH Hx]; [constructor|]. cbn [map rev]. apply sorted_app. split; [exact IH|]. split; [repeat constructor|].
  intros u v Hu Hv. apply in_rev in Hu. apply in_map_iff in Hu. destruct Hu as (y & <- & Hy). destruct Hv as [<-|[]].
  rewrite Forall_forall in Hx. specialize (Hx y Hy). nra.
Qed.

Theorem median_affine n a b (h : nat -> R) : (1 <= n)%nat ->
  median_def n (fun i => a * h i + b) = a * median_def n h + b.
Proof.
  intros Hn. set (f := fun y : R => a * y + b).
  destruct (sort_list_ok (map h (seq 0 n))) as (Ss & Ps). set (s := fold_right (insert_sorted (N := NumR)) [] (map h (seq 0 n))) in *.
  assert (Hlen : length s = n) by (rewrite <- (Permutation_length Ps), map_length, seq_length; reflexivity).
  destruct (median_of_sorted n h s Hn Ss (Permutation_sym Ps)) as (x & y & Ex & Ey & ->).
  assert (Pf : Permutation (map f s) (map (fun i => a * h i + b) (seq 0 n))).
  { rewrite <- (map_map h f). apply Permutation_map. apply Permutation_sym. exact Ps. }
  change (@F NumR) with R in *.
  destruct (Rle_or_lt 0 a) as [Ha|Ha].
  - destruct (median_of_sorted n (fun i => a * h i + b) (map f s) Hn (sorted_map_incr a b s Ha Ss) Pf) as (x' & y' & Ex' & Ey' & ->).
    rewrite nth_error_map, Ex in Ex'. rewrite nth_error_map, Ey in Ey'. cbn [option_map] in *. injection Ex' as <-. injection Ey' as <-.
    unfold f. rsimp. lra.
  - assert (Pr : Permutation (rev (map f s)) (map (fun i => a * h i + b) (seq 0 n))) by (eapply Permutation_trans; [apply Permutation_sym, Permutation_rev|exact Pf]).
    destruct (median_of_sorted n (fun i => a * h i + b) (rev (map f s)) Hn (sorted_rev_map_decr a b s ltac:(lra) Ss) Pr) as (x' & y' & Ex' & Ey' & ->).
    assert (Hl2 : length (map f s) = n) by (rewrite map_length; exact Hlen).
    assert (Hd : (n / 2 < n)%nat) by (apply Nat.div_lt; lia).
    rewrite nth_error_rev in Ex', Ey' by (rewrite map_length, Hlen; destruct (Nat.even n); lia). rewrite map_length, Hlen in Ex', Ey'.
    destruct (Nat.even n) eqn:Ev.
    + (* even: the two middle positions swap *)
      apply Nat.even_spec in Ev. destruct Ev as (m & ->). assert (Hm : (2 * m / 2 = m)%nat) by (rewrite Nat.mul_comm; apply Nat.div_mul; lia).
      rewrite Hm in *. replace (2 * m - S m)%nat with (m - 1)%nat in Ex' by lia. replace (2 * m - S (m - 1))%nat with m in Ey' by lia.
      rewrite nth_error_map, Ey in Ex'. rewrite nth_error_map, Ex in Ey'. cbn [option_map] in *. injection Ex' as <-. injection Ey' as <-.
      unfold f. rsimp. lra.
    + (* odd: the middle stays *)
      assert (Ho : Nat.odd n = true) by (rewrite <- Nat.negb_even, Ev; reflexivity). apply Nat.odd_spec in Ho. destruct Ho as (m & ->).
      assert (Hm : ((2 * m + 1) / 2 = m)%nat) by (rewrite Nat.add_comm, Nat.mul_comm, Nat.div_add by lia; reflexivity).
      rewrite Hm, Nat.sub_0_r in *. replace (2 * m + 1 - S m)%nat with m in Ex', Ey' by lia.
      rewrite nth_error_map, Ex in Ex'. rewrite nth_error_map, Ey in Ey'. cbn [option_map] in *. injection Ex' as <-. injection Ey' as <-.
      unfold f. rsimp. lra.
Qed.
End Avg4.
