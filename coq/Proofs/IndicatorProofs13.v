(** C05 continued: ChandeKrollStop (highest of  highest high - x*ATR  and lowest of  lowest low + x*ATR  over q bars). *)
From Yata Require Import Base.Prelude Base.Num Base.NumR Core.Window Core.WindowSpec Core.Candle Core.Action Core.Strings
  Spec.Hist Spec.MethodDefs Spec.IndicatorDefs Methods.Basic Methods.Select Indicators.Common Indicators.Set5
  Proofs.MethodsCommon Proofs.Windowed Proofs.Selection Proofs.Selection2 Proofs.MAProofs Proofs.Cascade Proofs.IndicatorProofs3 Proofs.IndicatorProofs11.
From Coq Require Import Reals Lra.
Open Scope Z_scope.

Section IP13.
Context {pw : PW}.
Local Notation R := (@F NumR).
Local Notation C := (candle (N := NumR)).
Ltac dlet := repeat match goal with |- context [let '(_, _) := ?e in _] => destruct e end.

Section Defs.
Variables (ma : ma_cfg) (x : R) (q : Z) (c0 : C).
Definition cks_tr (l : list C) : R := c_tr_close (hget c0 l 0%nat) (c_close (hget c0 l 1%nat)).
Definition cks_atr (l : list C) : R := ma_def ma (c_tr c0 c0) (series cks_tr l).
Definition cks_phs (l : list C) : R :=
  ffma (cks_atr l) (fneg x) (highest_def (Z.to_nat (ma_period ma)) (hget (c_high c0) (map c_high l))).
Definition cks_pls (l : list C) : R :=
  ffma (cks_atr l) x (lowest_def (Z.to_nat (ma_period ma)) (hget (c_low c0) (map c_low l))).
Definition cks_short0 : R := ffma x (fneg (fsub (c_high c0) (c_low c0))) (c_high c0).
Definition cks_long0 : R := ffma x (fsub (c_high c0) (c_low c0)) (c_low c0).
Definition cks_values (src : source) (l : list C) : list R :=
  [lowest_def (Z.to_nat q) (hget cks_long0 (series cks_pls l)); c_source (hget c0 l 0%nat) src;
   highest_def (Z.to_nat q) (hget cks_short0 (series cks_phs l))].
End Defs.

Theorem cks_values_correct (ma : ma_cfg) (x : R) q src (c0 : C) cs c :
  (0 <= x)%R -> 1 <= ma_period ma <= pmax - 1 -> 1 <= q <= pmax - 1 -> ma_len_ok ma ->
  exists s0, cks_init ma x q src c0 = Ok s0 /\
    fst (snd (cks_next (steps cks_next s0 cs) c)) = cks_values ma x q c0 src (rev (cs ++ [c])).
Proof.
  intros Hx Hn Hq Lm. unfold cks_init.
  assert (E1 : fge x (f0 (N := NumR)) = true) by (unfold fge; rsimp; destruct (Rleb_spec 0 x); [reflexivity|lra]).
  rewrite E1. destruct (Z.ltb_spec 0 (ma_period ma)); [|lia]. destruct (Z.ltb_spec 0 q); [|lia]. cbn [andb negb]. cbv zeta.
  set (n := ma_period ma) in *. set (sh0 := cks_short0 x c0). set (lg0 := cks_long0 x c0).
  destruct (ma_correct ma (c_tr c0 c0) [] (c_tr c0 c0) (ma_proved_all _) Lm) as (m0 & Em & _).
  destruct (highest_correct n (c_high c0) [] (c_high c0) Hn) as (h1 & Eh1 & _). destruct (lowest_correct n (c_low c0) [] (c_low c0) Hn) as (l1 & El1 & _).
  destruct (highest_correct q sh0 [] sh0 Hq) as (h2 & Eh2 & _). destruct (lowest_correct q lg0 [] lg0 Hq) as (l2 & El2 & _).
  unfold sh0, lg0, cks_short0, cks_long0 in Eh2, El2. rewrite Em, Eh1, El1, Eh2, El2. cbn [obind]. eexists; split; [reflexivity|].
  pose proof (ma_correct' _ _ _ (ma_proved_all _) Lm Em) as Cm.
  assert (CH : forall l v h0, 1 <= l <= pmax - 1 -> hl_new l v = Ok h0 -> forall xs y,
     snd (highest_step (steps highest_step h0 xs) y) = highest_def (Z.to_nat l) (hget v (rev (xs ++ [y])))).
  { intros l v h0 Rl E xs y. destruct (highest_correct l v xs y Rl) as (z & Ez & Hz). rewrite E in Ez. injection Ez as <-. exact Hz. }
  assert (CL : forall l v o0, 1 <= l <= pmax - 1 -> hl_new l v = Ok o0 -> forall xs y,
     snd (lowest_step (steps lowest_step o0 xs) y) = lowest_def (Z.to_nat l) (hget v (rev (xs ++ [y])))).
  { intros l v o0 Rl E xs y. destruct (lowest_correct l v xs y Rl) as (z & Ez & Hz). rewrite E in Ez. injection Ez as <-. exact Hz. }
  set (s0 := mkCks x src m0 h1 l1 h2 l2 (c_close c0) _ _ _).
  assert (Hprev : forall p, ck_prev_close (steps cks_next s0 p) = c_close (hget c0 (rev p) 0%nat)).
  { intros p. destruct p as [|a r _] using rev_ind; [reflexivity|]. rewrite steps_snoc, rev_unit. cbn [hget hcons]. unfold cks_next at 1. dlet. reflexivity. }
  assert (Hx' : forall p, ck_x (steps cks_next s0 p) = x /\ ck_source (steps cks_next s0 p) = src).
  { intros p. split; [rewrite (steps_field cks_next ck_x)|rewrite (steps_field cks_next ck_source)]; try reflexivity; intros s k; unfold cks_next; dlet; reflexivity. }
  assert (G : forall cs0 s, ck_h1 (steps cks_next s cs0) = steps highest_step (ck_h1 s) (map c_high cs0) /\
                            ck_l1 (steps cks_next s cs0) = steps lowest_step (ck_l1 s) (map c_low cs0)).
  { induction cs0 as [|k r IH]; intros s; [split; reflexivity|]. unfold steps in *. cbn [fold_left map].
    destruct (IH (fst (cks_next s k))) as (I1 & I2). rewrite I1, I2. unfold cks_next.
    destruct (ma_next (ck_ma s) _), (highest_step (ck_h1 s) (c_high k)), (lowest_step (ck_l1 s) (c_low k)). dlet. split; reflexivity. }
  (* level 1: the true range fed to the average *)
  set (itr := fun (s : cks_st (N := NumR)) (k : C) => c_tr_close k (ck_prev_close s)).
  assert (Htr : forall p k, itr (steps cks_next s0 p) k = cks_tr c0 (rev (p ++ [k]))) by (intros p k; unfold itr, cks_tr; rewrite Hprev, rev_unit; reflexivity).
  assert (Pm : forall s k, ck_ma (fst (cks_next s k)) = fst (ma_next (ck_ma s) (itr s k))).
  { intros s k. unfold cks_next, itr. destruct (ma_next (ck_ma s) _). dlet. reflexivity. }
  pose proof (proj_steps cks_next ma_next ck_ma itr Pm) as S1.
  (* level 2: the preliminary stops fed to the second pair of extremes *)
  set (iph := fun (s : cks_st (N := NumR)) (k : C) =>
     ffma (snd (ma_next (ck_ma s) (itr s k))) (fneg (ck_x s)) (snd (highest_step (ck_h1 s) (c_high k)))).
  set (ipl := fun (s : cks_st (N := NumR)) (k : C) =>
     ffma (snd (ma_next (ck_ma s) (itr s k))) (ck_x s) (snd (lowest_step (ck_l1 s) (c_low k)))).
  assert (Hatr : forall p k, snd (ma_next (ck_ma (steps cks_next s0 p)) (itr (steps cks_next s0 p) k)) = cks_atr ma c0 (rev (p ++ [k]))).
  { intros p k. rewrite S1. cbn [ck_ma s0]. rewrite Cm. rewrite (inputs_series_next cks_next itr (cks_tr c0) s0 Htr p k). reflexivity. }
  assert (Hph : forall p k, iph (steps cks_next s0 p) k = cks_phs ma x c0 (rev (p ++ [k]))).
  { intros p k. unfold iph. rewrite Hatr. destruct (Hx' p) as (-> & _). destruct (G p s0) as (G1 & _). rewrite G1. cbn [ck_h1 s0].
    rewrite (CH n (c_high c0) h1 Hn Eh1). unfold cks_phs. fold n. rewrite map_rev, map_app. reflexivity. }
  assert (Hpl : forall p k, ipl (steps cks_next s0 p) k = cks_pls ma x c0 (rev (p ++ [k]))).
  { intros p k. unfold ipl. rewrite Hatr. destruct (Hx' p) as (-> & _). destruct (G p s0) as (_ & G2). rewrite G2. cbn [ck_l1 s0].
    rewrite (CL n (c_low c0) l1 Hn El1). unfold cks_pls. fold n. rewrite map_rev, map_app. reflexivity. }
  assert (P2 : forall s k, ck_h2 (fst (cks_next s k)) = fst (highest_step (ck_h2 s) (iph s k))).
  { intros s k. unfold cks_next, iph, itr. destruct (ma_next (ck_ma s) _), (highest_step (ck_h1 s) _), (lowest_step (ck_l1 s) _). cbn [snd].
    destruct (highest_step (ck_h2 s) _). dlet. reflexivity. }
  assert (P3 : forall s k, ck_l2 (fst (cks_next s k)) = fst (lowest_step (ck_l2 s) (ipl s k))).
  { intros s k. unfold cks_next, ipl, itr. destruct (ma_next (ck_ma s) _), (highest_step (ck_h1 s) _), (lowest_step (ck_l1 s) _). cbn [snd].
    destruct (highest_step (ck_h2 s) _), (lowest_step (ck_l2 s) _). dlet. reflexivity. }
  pose proof (proj_steps cks_next highest_step ck_h2 iph P2 cs s0) as S2. pose proof (proj_steps cks_next lowest_step ck_l2 ipl P3 cs s0) as S3.
  assert (Hout : fst (snd (cks_next (steps cks_next s0 cs) c)) =
     let st := steps cks_next s0 cs in
     [snd (lowest_step (ck_l2 st) (ipl st c)); c_source c (ck_source st); snd (highest_step (ck_h2 st) (iph st c))]).
  { cbv zeta. unfold cks_next at 1. unfold iph, ipl, itr. destruct (ma_next (ck_ma _) _), (highest_step (ck_h1 _) _), (lowest_step (ck_l1 _) _). cbn [snd].
    destruct (highest_step (ck_h2 _) _), (lowest_step (ck_l2 _) _). dlet. reflexivity. }
  rewrite Hout. cbv zeta. rewrite S2, S3. destruct (Hx' cs) as (_ & ->). cbn [ck_h2 ck_l2 s0].
  rewrite (CH q _ h2 Hq Eh2), (CL q _ l2 Hq El2).
  rewrite (inputs_series_next cks_next iph (cks_phs ma x c0) s0 Hph cs c), (inputs_series_next cks_next ipl (cks_pls ma x c0) s0 Hpl cs c).
  unfold cks_values, cks_short0, cks_long0. rewrite rev_unit. reflexivity.
Qed.
End IP13.
