(** C05 continued: Kaufman adaptive moving average (KAMA). *)
From Yata Require Import Base.Prelude Base.Num Base.NumR Core.Window Core.WindowSpec Core.Candle Core.Action Core.Strings
  Spec.Hist Spec.MethodDefs Spec.IndicatorDefs Methods.Basic Methods.Select Indicators.Common Indicators.Set5
  Proofs.MethodsCommon Proofs.Windowed Proofs.Windowed3 Proofs.MAProofs Proofs.Cascade Proofs.IndicatorProofs Proofs.IndicatorProofs3.
From Coq Require Import Reals Lra.
Open Scope Z_scope.

Section IP14.
Context {pw : PW}.
Local Notation R := (@F NumR).
Local Notation C := (candle (N := NumR)).
Ltac dlet := repeat match goal with |- context [let '(_, _) := ?e in _] => destruct e end.

Section Defs.
Variables (cfg : kauf_cfg (N := NumR)) (v0 : R).
(** efficiency ratio: |x_t - x_{t-p1}| over the path length of the last p1 moves (0 on a flat path) *)
Definition kama_er (h : nat -> R) : R :=
  let vol := linvol_def (Z.to_nat (kf_p1 cfg)) h in
  if feq vol f0 then f0 else fdiv (fabs (momentum_def (Z.to_nat (kf_p1 cfg)) h)) vol.
Definition kama_smooth (h : nat -> R) : R :=
  let fastest := fdiv f2 (fofZ (kf_p2 cfg + 1)) in let slowest := fdiv f2 (fofZ (kf_p3 cfg + 1)) in
  let s := ffma (kama_er h) (fsub fastest slowest) slowest in
  if kf_square cfg then fmul s s else s.
(** newest-first history; the recursion runs back to the seeding value *)
Fixpoint kama (l : list R) : R :=
  match l with
  | [] => v0
  | x :: t => ffma (kama_smooth (hget v0 l)) (fsub x (kama t)) (kama t)
  end.
End Defs.

Definition kauf_value (s : kauf_st (N := NumR)) (k : C) : R :=
  let c := ka_cfg s in
  let src := c_source k (kf_source c) in
  let direction := fabs (snd (momentum_next (ka_change s) src)) in
  let volatility := snd (linvol_next (ka_vol s) src) in
  let er := if feq volatility f0 then f0 else fdiv direction volatility in
  let smooth0 := ffma er (fsub (ka_fastest s) (ka_slowest s)) (ka_slowest s) in
  let smooth := if kf_square c then fmul smooth0 smooth0 else smooth0 in
  ffma smooth (fsub src (ka_prev s)) (ka_prev s).

Lemma kauf_step_fields (s : kauf_st (N := NumR)) (k : C) :
  let st := fst (kauf_next s k) in let src := c_source k (kf_source (ka_cfg s)) in
  ka_cfg st = ka_cfg s /\ ka_fastest st = ka_fastest s /\ ka_slowest st = ka_slowest s /\
  ka_change st = fst (momentum_next (ka_change s) src) /\ ka_vol st = fst (linvol_next (ka_vol s) src) /\
  ka_prev st = kauf_value s k /\ fst (snd (kauf_next s k)) = [kauf_value s k].
Proof.
  cbv zeta. unfold kauf_next, kauf_value.
  destruct (momentum_next (ka_change s) _) as (ch, d0), (linvol_next (ka_vol s) _) as (lv, vol). cbn [fst snd].
  destruct (cross_next _ _). destruct (1 <? kf_filter (ka_cfg s)).
  - destruct (stdev_next _ _). destruct (a_is_some _); [|destruct (_ && _)]; cbn [fst snd ka_cfg ka_fastest ka_slowest ka_change ka_vol ka_prev]; repeat split.
  - cbn [fst snd ka_cfg ka_fastest ka_slowest ka_change ka_vol ka_prev]. repeat split.
Qed.

Theorem kaufman_values_correct (cfg : kauf_cfg (N := NumR)) (c0 : C) cs c : kauf_validate cfg = true ->
  kf_p1 cfg <= pmax - 1 -> 2 <= kf_filter cfg <= pmax - 1 ->
  exists s0, kauf_init cfg c0 = Ok s0 /\
    fst (snd (kauf_next (steps kauf_next s0 cs) c)) =
    [kama cfg (c_source c0 (kf_source cfg)) (srcs (kf_source cfg) (rev (cs ++ [c])))].
Proof.
  intros Hv H1 Hf. unfold kauf_init. rewrite Hv. cbn [negb]. cbv zeta. unfold kauf_validate in Hv.
  repeat (apply andb_prop in Hv; destruct Hv as (Hv & ?)).
  repeat match goal with H : (_ <? _) = true |- _ => apply Z.ltb_lt in H end.
  set (src := kf_source cfg). set (v := c_source c0 src).
  assert (R1 : 1 <= kf_p1 cfg <= pmax - 1) by lia.
  pose proof (linvol_correct (kf_p1 cfg) v) as CL. pose proof (momentum_correct (kf_p1 cfg) v) as CM.
  destruct (CL [] v R1) as (lv0 & Elv & _). destruct (CM [] v R1) as (ch0 & Ech & _).
  destruct (stdev_init (kf_filter cfg) v Hf) as (sd0 & Esd & _).
  assert (CM' : forall xs x, snd (momentum_next (steps momentum_next ch0 xs) x) = momentum_def (Z.to_nat (kf_p1 cfg)) (hget v (rev (xs ++ [x])))).
  { intros xs x. destruct (CM xs x R1) as (z & Ez & Hz). rewrite Ech in Ez. injection Ez as <-. exact Hz. }
  assert (CL' : forall xs x, snd (linvol_next (steps linvol_next lv0 xs) x) = linvol_def (Z.to_nat (kf_p1 cfg)) (hget v (rev (xs ++ [x])))).
  { intros xs x. destruct (CL xs x R1) as (z & Ez & Hz). rewrite Elv in Ez. injection Ez as <-. exact Hz. }
  rewrite Elv, Ech, Esd. cbn [obind]. eexists; split; [reflexivity|].
  set (s0 := mkKauf cfg lv0 ch0 _ _ sd0 _ _ v v).
  set (f := fun k : C => c_source k src).
  assert (I : forall p, let st := steps kauf_next s0 p in
     ka_cfg st = cfg /\ ka_fastest st = fdiv f2 (fofZ (kf_p2 cfg + 1)) /\ ka_slowest st = fdiv f2 (fofZ (kf_p3 cfg + 1)) /\
     ka_change st = steps momentum_next ch0 (map f p) /\ ka_vol st = steps linvol_next lv0 (map f p) /\
     ka_prev st = kama cfg v (srcs src (rev p))).
  { induction p as [|a r IH] using rev_ind; [cbn; repeat split|]. cbv zeta in *. rewrite steps_snoc.
    destruct IH as (I1 & I2 & I3 & I4 & I5 & I6).
    pose proof (kauf_step_fields (steps kauf_next s0 r) a) as K. cbv zeta in K. destruct K as (K1 & K2 & K3 & K4 & K5 & K6 & _).
    rewrite K1, K2, K3, K4, K5, K6, I1, I2, I3, I4, I5. rewrite map_app. cbn [map]. rewrite !steps_snoc. fold src. repeat split.
    unfold kauf_value. rewrite I1, I2, I3, I4, I5, I6. fold src.
    rewrite CM', CL'.
    unfold srcs. rewrite !rev_unit. cbn [map kama]. rewrite <- !map_rev. unfold kama_smooth, kama_er, f. reflexivity. }
  pose proof (kauf_step_fields (steps kauf_next s0 cs) c) as K. cbv zeta in K. destruct K as (_ & _ & _ & _ & _ & _ & ->).
  destruct (I cs) as (I1 & I2 & I3 & I4 & I5 & I6). cbv zeta in *.
  unfold kauf_value. rewrite I1, I2, I3, I4, I5, I6. fold src.
  rewrite CM', CL'.
  unfold srcs. rewrite !rev_unit. cbn [map kama]. rewrite <- !map_rev. unfold kama_smooth, kama_er, f. reflexivity.
Qed.

(** The documentation allows filter_period 0 and 1 (plain crossing signals) and validate accepts them, but init
    cannot build such an instance: StDev::new rejects lengths 0 and 1. *)
Lemma kaufman_small_filter_rejected (cfg : kauf_cfg (N := NumR)) (c0 : C) :
  0 <= kf_filter cfg <= 1 -> forall s, kauf_init cfg c0 <> Ok s.
Proof.
  intros Hf s. unfold kauf_init. destruct (negb _); [discriminate|]. cbv zeta.
  destruct (linvol_new _ _); cbn [obind]; try discriminate. destruct (momentum_new _ _); cbn [obind]; try discriminate.
  unfold stdev_new. destruct (Z.eqb_spec (kf_filter cfg) 0), (Z.eqb_spec (kf_filter cfg) 1); cbn [orb obind]; try discriminate. lia.
Qed.
End IP14.
