(** C05 continued: TrendStrengthIndex (correlation of the last n prices with time, from running sums). *)
From Yata Require Import Base.Prelude Base.Num Base.NumR Core.Window Core.WindowSpec Core.Candle Core.Action Core.Strings
  Spec.Hist Spec.MethodDefs Spec.IndicatorDefs Methods.Basic Methods.Select Indicators.Common Indicators.Set5
  Proofs.MethodsCommon Proofs.Windowed Proofs.Windowed2 Proofs.Cascade Proofs.IndicatorProofs Proofs.IndicatorProofs3.
From Coq Require Import Reals Lra.
Open Scope Z_scope.

Section IP15.
Context {pw : PW}.
Local Notation R := (@F NumR).
Local Notation C := (candle (N := NumR)).
Ltac dlet := repeat match goal with |- context [let '(_, _) := ?e in _] => destruct e end.

(** value as the code combines it, with the running sums replaced by the sums over the window *)
Definition tsx_sx (period : Z) : Z := (period + 1) * period / 2.
Definition tsx_k (period : Z) : R :=
  fsub (fdiv (fofZ (tsx_sx period * (2 * period + 1))) (fofZ 3)) (fmul (fofZ ((period + 1) * tsx_sx period)) (flit 1 2)).
Definition tsx_def (period : Z) (h : nat -> R) : R :=
  let n := Z.to_nat period in
  let sy := gsum n h in let sy2 := gsum n (fun i => fmul (h i) (h i)) in
  let sma := fmul (frecip (fofZ period)) sy in
  let p := fmul (fsub (wma_def n h) sma) (fofZ (tsx_sx period)) in
  let q := fmul (tsx_k period) (ffma sma (fneg sy) sy2) in
  fdiv p (fsqrt q).

Definition tsx_inv (period : Z) (src : source) (s : tsx_st (N := NumR)) (h : nat -> R) : Prop :=
  let n := Z.to_nat period in
  WinOK n (tz_window s) h /\ wma_inv n (tz_wma s) h /\ tz_sy s = gsum n h /\ tz_sy2 s = gsum n (fun i => fmul (h i) (h i)) /\
  tz_inv s = frecip (fofZ period) /\ tz_sx s = fofZ (tsx_sx period) /\ tz_k s = tsx_k period /\ tz_source s = src.

Lemma tsx_step period src s h (k : C) : 1 <= period -> tsx_inv period src s h ->
  tsx_inv period src (fst (tsx_next s k)) (hcons (c_source k src) h) /\
  fst (snd (tsx_next s k)) = [tsx_def period (hcons (c_source k src) h)].
Proof.
  intros Hp. destruct (nat_len period ltac:(lia)) as (m & Em). unfold tsx_inv, tsx_def. rewrite Em. cbv zeta.
  intros (Hw & Hwm & Hsy & Hsy2 & Hi & Hsx & Hk & Hs).
  destruct (winok_push m _ h (c_source k src) Hw) as (w' & Hpush & Hw').
  destruct (wma_step m _ h (c_source k src) Hwm) as (Hwm' & Hwv).
  unfold tsx_next. rewrite Hs, Hpush. destruct (wma_next (tz_wma s) (c_source k src)) as (wm, wv). cbn [fst snd] in Hwm', Hwv.
  dlet. cbn [fst snd tz_window tz_wma tz_sy tz_sy2 tz_inv tz_sx tz_k tz_source].
  set (x := c_source k src) in *.
  assert (E1 : fadd (tz_sy s) (fsub x (h m)) = gsum (S m) (hcons x h)).
  { rewrite Hsy. pose proof (gsum_hcons m x h (fun y => y)) as G. cbn beta in G.
    change (gsum (S m) (fun i => hcons x h i)) with (gsum (S m) (hcons x h)) in G.
    change (gsum (S m) (fun i => h i)) with (gsum (S m) h) in G. rewrite G. rsimp. lra. }
  assert (E2 : fadd (tz_sy2 s) (ffma x x (fmul (fneg (h m)) (h m))) = gsum (S m) (fun i => fmul (hcons x h i) (hcons x h i))).
  { rewrite Hsy2. pose proof (gsum_hcons m x h (fun y => fmul y y)) as G. cbn beta in G. rewrite G. rsimp. lra. }
  rewrite E1, E2, Hi, Hsx, Hk, Hwv. split; [|reflexivity]. split; [exact Hw'|]. split; [exact Hwm'|]. repeat split; reflexivity || assumption.
Qed.

Theorem trend_strength_values_correct period (zone : R) offset src (c0 : C) cs c :
  1 < period < pmax -> (0 <= zone < 1)%R -> 0 < offset < period -> 4 < pmax ->
  exists s0, tsx_init period zone offset src c0 = Ok s0 /\
    fst (snd (tsx_next (steps tsx_next s0 cs) c)) =
    [tsx_def period (hget (c_source c0 src) (srcs src (rev (cs ++ [c]))))].
Proof.
  intros Hp Hz Ho Hpm. unfold tsx_init.
  destruct (Z.ltb_spec 1 period); [|lia]. destruct (Z.ltb_spec period pmax); [|lia].
  destruct (Z.ltb_spec 0 offset); [|lia]. destruct (Z.ltb_spec offset period); [|lia].
  assert (Ez1 : fge zone (f0 (N := NumR)) = true) by (unfold fge; rsimp; destruct (Rleb_spec 0 zone); [reflexivity|lra]).
  assert (Ez2 : flt zone (f1 (N := NumR)) = true) by (unfold flt; rsimp; destruct (Rltb_spec zone 1); [reflexivity|lra]).
  rewrite Ez1, Ez2. cbn [andb]. cbv zeta. set (v := c_source c0 src).
  assert (Rp : 1 <= period <= pmax - 1) by lia.
  destruct (wma_init period v Rp) as (w0 & Ew & Iw). rewrite Ew. cbn [obind].
  destruct (reversal_new 1 2 (f0 (N := NumR))) as [r0| |] eqn:Er.
  2,3: exfalso; unfold reversal_new, rev_new in Er; assert (Hsa : sat_add 1 2 = 3) by (unfold sat_add; lia); rewrite Hsa in Er;
       destruct (Z.leb_spec (pmax - 1) 3); [lia|]; cbn in Er; discriminate.
  cbn [obind]. eexists; split; [reflexivity|].
  set (s0 := mkTsx _ _ _ _ _ _ _ _ _ _ _ _ _).
  assert (I0 : tsx_inv period src s0 (hconst v)).
  { unfold tsx_inv. cbv zeta. cbn [s0 tz_window tz_wma tz_sy tz_sy2 tz_inv tz_sx tz_k tz_source].
    split; [apply winok_new; lia|]. split; [exact Iw|]. unfold hconst. rewrite !gsum_const. rsimp. rewrite (IZR_nat period) by lia.
    repeat split; try reflexivity; try ring. }
  assert (I : forall p, tsx_inv period src (steps tsx_next s0 p) (hget v (srcs src (rev p)))).
  { induction p as [|a r IH] using rev_ind; [exact I0|]. rewrite steps_snoc. unfold srcs. rewrite rev_unit. cbn [map].
    change (hget v (c_source a src :: map (fun k => c_source k src) (rev r))) with (hcons (c_source a src) (hget v (srcs src (rev r)))).
    apply tsx_step; [lia|exact IH]. }
  destruct (tsx_step period src _ _ c ltac:(lia) (I cs)) as (_ & ->). unfold srcs. rewrite rev_unit. reflexivity.
Qed.
End IP15.
