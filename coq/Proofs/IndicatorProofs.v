(** C05: indicator values equal their published formulas (exact arithmetic). *)
From Yata Require Import Base.Prelude Base.Num Base.NumR Core.Window Core.WindowSpec Core.Candle Core.Action
  Spec.Hist Spec.MethodDefs Spec.IndicatorDefs Methods.Basic Methods.Select Indicators.Common Indicators.Set1
  Proofs.MethodsCommon Proofs.Windowed.
From Coq Require Import Reals.
Open Scope Z_scope.

Section IP.
Context {pw : PW}.
Local Notation C := (candle (N := NumR)).

Lemma hget_srcs src (c0 : C) rcs i : hget (c_source c0 src) (srcs src rcs) i = c_source (hget c0 rcs i) src.
Proof. unfold srcs. apply (hget_map_gen (fun c => c_source c src)). Qed.

Definition momi_inv (p1 p2 : nat) (src : source) (s : momi_st (N := NumR)) (h : nat -> C) : Prop :=
  mi_src s = src /\ WinOK p1 (mi_m1 s) (fun i => c_source (h i) src) /\ WinOK p2 (mi_m2 s) (fun i => c_source (h i) src).

Theorem momi_values_correct p1 p2 src (c0 : C) cs c : 1 <= p2 -> p2 < p1 <= pmax - 1 ->
  exists s0, momi_init p1 p2 src c0 = Ok s0 /\
    fst (snd (momi_next (steps momi_next s0 cs) c)) = momi_values p1 p2 src c0 (rev (cs ++ [c])).
Proof.
  intros H2 H1. unfold momi_init.
  destruct (Z.ltb_spec 0 p2); [|lia]. destruct (Z.ltb_spec p2 p1); [|lia]. cbn [andb negb].
  assert (R1 : 1 <= p1 <= pmax - 1) by lia. assert (R2 : 1 <= p2 <= pmax - 1) by lia.
  destruct (momentum_init p1 (c_source c0 src) R1) as (a & Ea & Ia).
  destruct (momentum_init p2 (c_source c0 src) R2) as (b & Eb & Ib).
  rewrite Ea, Eb. cbn [obind]. eexists; split; [reflexivity|].
  destruct (nat_len p1 ltac:(lia)) as (m1 & E1), (nat_len p2 ltac:(lia)) as (m2 & E2).
  set (next' := fun (s : momi_st (N := NumR)) (k : C) => (fst (momi_next s k), fst (snd (momi_next s k)))).
  assert (Hstep : forall s h k, momi_inv (S m1) (S m2) src s h ->
            momi_inv (S m1) (S m2) src (fst (next' s k)) (hcons k h) /\
            snd (next' s k) = [momentum_def (S m1) (fun i => c_source (hcons k h i) src);
                               momentum_def (S m2) (fun i => c_source (hcons k h i) src)]).
  { intros s h k (Hs & W1 & W2). unfold next', momi_next. rewrite Hs.
    destruct (winok_push m1 _ _ (c_source k src) W1) as (w1 & P1 & W1').
    destruct (winok_push m2 _ _ (c_source k src) W2) as (w2 & P2 & W2').
    unfold momentum_next. rewrite P1, P2. cbn [fst snd mi_src mi_m1 mi_m2].
    split; [split; [reflexivity|split]|reflexivity].
    - eapply winok_ext; [|exact W1']. intros [|i]; reflexivity.
    - eapply winok_ext; [|exact W2']. intros [|i]; reflexivity. }
  pose proof (inv_correct next' (momi_inv (S m1) (S m2) src)
                (fun h => [momentum_def (S m1) (fun i => c_source (h i) src); momentum_def (S m2) (fun i => c_source (h i) src)])
                Hstep (mkMomi src a b) c0 cs c) as (Hout & _).
  { split; [reflexivity|]. rewrite <- E1, <- E2. split.
    - eapply winok_ext; [|exact Ia]. intros i. reflexivity.
    - eapply winok_ext; [|exact Ib]. intros i. reflexivity. }
  assert (Hsteps : forall xs s, steps next' s xs = steps momi_next s xs).
  { induction xs as [|x r IH]; intros s; [reflexivity|]. unfold steps in *. cbn [fold_left]. apply IH. }
  rewrite <- Hsteps. unfold next' in Hout at 1. cbn [snd] in Hout. rewrite Hout.
  unfold momi_values. rewrite E1, E2. unfold momentum_def. f_equal; [|f_equal]; rewrite !hget_srcs; reflexivity.
Qed.
End IP.
