(** Aroon on binary64: both values lie in [0, 1] after every stream, with no rounding allowance.  The age returned by
    HighestIndex / LowestIndex lies in [0, length) on ANY carrier (a structural invariant of the position bookkeeping), so both
    Aroon values are binary64 quotients (period - age) / period of exactly converted integers 0 < period - age <= period. *)
From Coq Require Import ZArith Reals Floats Lra Lia List.
From Yata Require Import Base.Prelude Base.Num Base.NumR Base.NumF64 Core.Window Core.WindowSpec Core.Candle Core.Action
  Spec.Hist Methods.Basic Methods.Select Indicators.Common Indicators.Set2 Proofs.MethodsCommon Proofs.RoundingLink Proofs.Binary64Range.
Import ListNotations.
Open Scope Z_scope.

Section IndexBound.
Context {pw : PW} {N : Num}.
Variables (better keep : F -> F -> bool).

Definition hli_ok (m : nat) (s : hli) : Prop := (exists h, WinOK (S m) (hli_window s) h) /\ 0 <= hli_index s <= Z.of_nat m.

Lemma fold_pick_bound (l : list (Z * F)) (a0 : Z * F) lo hi :
  (forall b, In b l -> lo <= fst b <= hi) -> lo <= fst a0 <= hi ->
  lo <= fst (fold_left (fun a b => if better (snd b) (snd a) then b else a) l a0) <= hi.
Proof.
  revert a0. induction l as [|b l IH]; intros a0 Hl H0; [exact H0|]. cbn [fold_left]. apply IH.
  - intros c Hc. apply Hl. right. exact Hc.
  - destruct (better (snd b) (snd a0)); [apply Hl; left; reflexivity|exact H0].
Qed.
Lemma enumerate_bound {A} (l : list A) b : In b (enumerate l) -> 0 <= fst b <= Z.of_nat (length l) - 1.
Proof.
  unfold enumerate. intros Hb. destruct b as (i, x). apply in_combine_l in Hb. apply in_map_iff in Hb. destruct Hb as (k & <- & Hk).
  apply in_seq in Hk. cbn [fst]. lia.
Qed.

Lemma hindex_step_ok m (s : hli) x : hli_ok m s ->
  hli_ok m (fst (hindex_step better keep s x)) /\ 0 <= snd (hindex_step better keep s x) <= Z.of_nat m.
Proof.
  intros ((h & Hw) & Hi). unfold hindex_step. destruct (winok_push m _ h x Hw) as (w' & Hp & Hw'). rewrite Hp.
  assert (Hlen : w_len w' = Z.of_nat (S m)) by (unfold w_len; destruct Hw' as (_ & Hsz & _); exact Hsz).
  assert (Hit : length (w_items w') = S m) by (rewrite (winok_items (S m) w' _ Hw'), map_length, seq_length; reflexivity).
  destruct (keep x (hli_value s)).
  - unfold hli_ok. cbn [fst snd hli_window hli_index]. split; [split; [exists (hcons x h); exact Hw'|lia]|lia].
  - destruct (Z.eqb_spec (hli_index s + 1) (w_len w')) as [E|E].
    + set (r := fold_left _ _ _). assert (Hr : 0 <= fst r <= Z.of_nat m).
      { unfold r. apply fold_pick_bound; [|cbn [fst]; lia]. intros b Hb. pose proof (enumerate_bound _ b Hb) as Hb'. rewrite Hit in Hb'. lia. }
      destruct r as (i', v'). unfold hli_ok. cbn [fst snd hli_window hli_index] in *. split; [split; [exists (hcons x h); exact Hw'|exact Hr]|exact Hr].
    + unfold hli_ok. cbn [fst snd hli_window hli_index]. rewrite Hlen in E. split; [split; [exists (hcons x h); exact Hw'|lia]|lia].
Qed.
End IndexBound.

Section AroonF64.
Context {pw : PW}.
Local Notation C := (candle (N := NumF64)).
Open Scope Z_scope.

Definition aroon_inv (m : nat) (s : aroon_st (N := NumF64)) : Prop :=
  ar_period s = Z.of_nat (S m) /\ hli_ok m (ar_high s) /\ hli_ok m (ar_low s).

Lemma aroon_init_inv period zone ozp (c0 : C) s0 : aroon_init period zone ozp c0 = Ok s0 ->
  exists m, aroon_inv m s0.
Proof.
  unfold aroon_init. destruct (aroon_validate period zone ozp) eqn:Hv; [|discriminate]. cbn [negb].
  assert (Hn : 2 <= period <= pmax - 1).
  { unfold aroon_validate in Hv. repeat (apply andb_prop in Hv; destruct Hv as (Hv & ?)).
    repeat match goal with H : (_ <? _) = true |- _ => apply Z.ltb_lt in H end. lia. }
  assert (Hb : bad_len period = false) by (unfold bad_len; destruct (Z.eqb_spec period 0); [lia|]; destruct (Z.eqb_spec period pmax); [lia|]; reflexivity).
  unfold hli_new. rewrite Hb. intros E.
  destruct (fis_finite (c_low c0)); cbn [negb obind] in E; [|discriminate E]. destruct (fis_finite (c_high c0)); cbn [negb obind] in E; [|discriminate E].
  injection E as <-.
  exists (Z.to_nat (period - 1)). assert (Em : Z.to_nat period = S (Z.to_nat (period - 1))) by lia.
  unfold aroon_inv. cbn [ar_period ar_high ar_low]. split; [lia|]. split.
  - split; [|cbn [hli_index]; lia]. exists (hconst (c_high c0)). cbn [hli_window]. rewrite <- Em. apply winok_new. lia.
  - split; [|cbn [hli_index]; lia]. exists (hconst (c_low c0)). cbn [hli_window]. rewrite <- Em. apply winok_new. lia.
Qed.

Lemma aroon_step_inv m (s : aroon_st (N := NumF64)) (k : C) : aroon_inv m s -> Z.of_nat (S m) < 2 ^ 53 ->
  aroon_inv m (fst (aroon_next s k)) /\
  Forall (fun v => fin v /\ (0 <= val v <= 1)%R) (fst (snd (aroon_next s k))).
Proof.
  intros (Hp & Hh & Hl) Hbig. unfold aroon_next.
  destruct (hindex_step_ok fgt fge m (ar_high s) (c_high k) Hh) as (Hh' & Bh).
  destruct (hindex_step_ok flt fle m (ar_low s) (c_low k) Hl) as (Hl' & Bl).
  unfold highest_index_step, lowest_index_step.
  destruct (hindex_step fgt fge (ar_high s) (c_high k)) as (h, hi). destruct (hindex_step flt fle (ar_low s) (c_low k)) as (l, li).
  cbn [fst snd] in Hh', Hl', Bh, Bl. cbv zeta. destruct (cross_next (ar_cross s) _) as (c, trend). cbn [fst snd].
  split. { unfold aroon_inv; cbn [ar_period ar_high ar_low]. split; [exact Hp|split; [exact Hh'|exact Hl']]. }
  rewrite Hp. constructor; [|constructor; [|constructor]].
  - apply (f64_ratio_unit (Z.of_nat (S m) - hi) (Z.of_nat (S m))); lia.
  - apply (f64_ratio_unit (Z.of_nat (S m) - li) (Z.of_nat (S m))); lia.
Qed.

(** Aroon-up and Aroon-down of the binary64 model lie in [0, 1] after every stream (periods below 2^53: every PeriodType width
    up to 32 bits) *)
Theorem aroon_binary64_range period zone ozp (c0 : C) s0 cs c : aroon_init period zone ozp c0 = Ok s0 -> pmax <= 2 ^ 53 ->
  Forall (fun v => fin v /\ (0 <= val v <= 1)%R) (fst (snd (aroon_next (steps aroon_next s0 cs) c))).
Proof.
  intros Hi Hpm. destruct (aroon_init_inv period zone ozp c0 s0 Hi) as (m & Hm).
  assert (Hbig : Z.of_nat (S m) < 2 ^ 53).
  { destruct Hm as (Hp & _). rewrite <- Hp. clear - Hi Hpm. unfold aroon_init in Hi. destruct (aroon_validate period zone ozp) eqn:Hv; [|discriminate].
    unfold aroon_validate in Hv. repeat (apply andb_prop in Hv; destruct Hv as (Hv & ?)).
    repeat match goal with H : (_ <? _) = true |- _ => apply Z.ltb_lt in H end.
    cbn [negb] in Hi. destruct (hli_new period (c_low c0)); cbn [obind] in Hi; try discriminate. destruct (hli_new period (c_high c0)); cbn [obind] in Hi; try discriminate.
    injection Hi as <-. cbn [ar_period]. lia. }
  assert (G : forall cs0 s, aroon_inv m s -> aroon_inv m (steps aroon_next s cs0)).
  { induction cs0 as [|k r IH]; intros s Hs; [exact Hs|]. unfold steps in *. cbn [fold_left]. apply IH. apply (aroon_step_inv m s k Hs Hbig). }
  apply (aroon_step_inv m _ c (G cs s0 Hm) Hbig).
Qed.
End AroonF64.
