(** C05 continued: DetrendedPriceOscillator, TrueStrengthIndex (both lines), KeltnerChannel. *)
From Yata Require Import Base.Prelude Base.Num Base.NumR Core.Window Core.WindowSpec Core.Candle Core.Action Core.Strings
  Spec.Hist Spec.MethodDefs Spec.IndicatorDefs Methods.Basic Methods.Select Indicators.Common Indicators.Set1 Indicators.Set3
  Proofs.MethodsCommon Proofs.Windowed Proofs.Recursive Proofs.Tsi Proofs.MAProofs Proofs.Cascade Proofs.IndicatorProofs3.
From Coq Require Import Reals Lra.
Open Scope Z_scope.

Section IP4.
Context {pw : PW}.
Local Notation R := (@F NumR).
Local Notation C := (candle (N := NumR)).

(** ---- DPO: the price (period/2 + 1) bars ago minus the average *)
Theorem dpo_values_correct (ma : ma_cfg) src (c0 : C) cs c :
  1 < ma_period ma < pmax -> ma_proved ma = true -> ma_len_ok ma ->
  exists s0, dpo_init ma src c0 = Ok s0 /\
    fst (snd (dpo_next (steps dpo_next s0 cs) c)) = dpo_values ma src c0 (rev (cs ++ [c])).
Proof.
  intros Hp Pm Lm. unfold dpo_init.
  destruct (Z.ltb_spec 1 (ma_period ma)); [|lia]. destruct (Z.ltb_spec (ma_period ma) pmax); [|lia]. cbn [andb negb]. cbv zeta.
  set (f := fun k : C => c_source k src).
  destruct (ma_correct ma (f c0) [] (f c0) Pm Lm) as (m0 & Em & _). unfold f in Em at 1. rewrite Em. cbn [obind].
  eexists; split; [reflexivity|].
  pose proof (ma_correct' _ _ _ Pm Lm Em) as Cm.
  set (L := ma_period ma / 2 + 1).
  assert (HL : 1 <= L <= pmax - 1) by (unfold L; split; [lia|]; assert (ma_period ma / 2 <= ma_period ma - 1) by (apply Z.div_le_upper_bound; lia); lia).
  destruct (past_correct L (f c0) [] (f c0) HL) as (w0 & Ew & _).
  assert (Ew' : w0 = w_new_t L (f c0)).
  { unfold past_new in Ew. rewrite bad_len_false in Ew by lia. injection Ew as <-. reflexivity. }
  assert (Cw : forall xs x, snd (past_next (steps past_next (w_new_t L (f c0)) xs) x) = past_def (Z.to_nat L) (hget (f c0) (rev (xs ++ [x])))).
  { intros xs x. destruct (past_correct L (f c0) xs x HL) as (w1 & Ew1 & H1). rewrite Ew in Ew1. injection Ew1 as <-. rewrite <- Ew'. exact H1. }
  set (s0 := mkDpo src m0 (w_new_t L (c_source c0 src))).
  assert (G : forall cs0 s, dp_source s = src ->
     dp_source (steps dpo_next s cs0) = src /\ dp_ma (steps dpo_next s cs0) = steps ma_next (dp_ma s) (map f cs0) /\
     dp_window (steps dpo_next s cs0) = steps past_next (dp_window s) (map f cs0)).
  { induction cs0 as [|k r IH]; intros s Es; [repeat split; assumption|]. unfold steps in *. cbn [fold_left map].
    assert (Es' : dp_source (fst (dpo_next s k)) = src).
    { unfold dpo_next. destruct (ma_next (dp_ma s) _), (w_push_t (dp_window s) _). exact Es. }
    destruct (IH _ Es') as (I1 & I2 & I3). split; [exact I1|]. rewrite I2, I3.
    unfold dpo_next, past_next. rewrite Es. fold (f k). destruct (ma_next (dp_ma s) (f k)), (w_push_t (dp_window s) (f k)). split; reflexivity. }
  destruct (G cs s0 eq_refl) as (Hs & Hm & Hw).
  unfold dpo_next at 1. rewrite Hs, Hm, Hw. fold (f c). cbn [dp_ma dp_window s0]. fold (f c0).
  pose proof (Cm (map f cs) (f c)) as Om. pose proof (Cw (map f cs) (f c)) as Ow. unfold past_next at 1 in Ow.
  destruct (ma_next (steps ma_next m0 (map f cs)) (f c)) as (m', sma) eqn:E1.
  destruct (w_push_t (steps past_next (w_new_t L (f c0)) (map f cs)) (f c)) as (w', lft) eqn:E2.
  cbn [snd] in Om, Ow. cbn [fst snd]. unfold dpo_values. cbv zeta. rewrite srcs_rev_snoc.
  rewrite Om, Ow. unfold past_def, f, L. reflexivity.
Qed.

Ltac dlet := repeat match goal with |- context [let '(_, _) := ?e in _] => destruct e end.

(** ---- TrueStrengthIndex: the TSI of the source and the EMA of the series of TSI values *)
Theorem tsii_values_correct p1 p2 p3 zone src (c0 : C) cs c : tsii_validate p1 p2 p3 zone = true ->
  exists s0, tsii_init p1 p2 p3 zone src c0 = Ok s0 /\
    fst (snd (tsii_next (steps tsii_next s0 cs) c)) = tsii_values p1 p2 p3 src c0 (rev (cs ++ [c])).
Proof.
  intros Hv. unfold tsii_init. rewrite Hv. cbn [negb].
  assert (Hr : 2 <= p2 <= p1 /\ p1 <= pmax - 1 /\ 2 <= p3 <= pmax - 1).
  { unfold tsii_validate in Hv. repeat (apply andb_prop in Hv; destruct Hv as (Hv & ?)).
    repeat match goal with H : (_ <? _) = true |- _ => apply Z.ltb_lt in H | H : (_ <=? _) = true |- _ => apply Z.leb_le in H end. lia. }
  set (f := fun k : C => c_source k src).
  assert (R2 : 1 <= p2 <= pmax - 1) by lia. assert (R1 : 1 <= p1 <= pmax - 1) by lia. assert (R3 : 1 <= p3 <= pmax - 1) by lia.
  destruct (tsi_correct p2 p1 (f c0) [] (f c0) R2 R1) as (t0 & Et & _).
  destruct (ema_correct p3 (f0 (N := NumR)) [] (f0 (N := NumR)) R3) as (e0 & Ee & _).
  unfold f in Et at 1. rewrite Et, Ee. cbn [obind]. eexists; split; [reflexivity|].
  set (s0 := mkTsii zone src t0 e0 f0 f0 (f0, f0) (f0, f0)).
  assert (Ct : forall xs x, snd (tsi_next (steps tsi_next t0 xs) x) = tsi_def p2 p1 (f c0) (rev (xs ++ [x]))).
  { intros xs x. destruct (tsi_correct p2 p1 (f c0) xs x R2 R1) as (t1 & E1 & H1). unfold f in E1 at 1. rewrite Et in E1. injection E1 as <-. exact H1. }
  assert (Ce : forall xs x, snd (ema_next (steps ema_next e0 xs) x) = ema_def p3 f0 (rev (xs ++ [x]))).
  { intros xs x. destruct (ema_correct p3 (f0 (N := NumR)) xs x R3) as (e1 & E1 & H1). rewrite Ee in E1. injection E1 as <-. exact H1. }
  assert (G : forall cs0 s, ti_source s = src ->
     ti_source (steps tsii_next s cs0) = src /\ ti_tsi (steps tsii_next s cs0) = steps tsi_next (ti_tsi s) (map f cs0)).
  { induction cs0 as [|k r IH]; intros s Es; [split; [assumption|reflexivity]|]. unfold steps in *. cbn [fold_left map].
    assert (Es' : ti_source (fst (tsii_next s k)) = src) by (unfold tsii_next; dlet; exact Es).
    destruct (IH _ Es') as (I1 & I2). split; [exact I1|]. rewrite I2. f_equal.
    unfold tsii_next. rewrite Es. fold (f k). destruct (tsi_next (ti_tsi s) (f k)). dlet. reflexivity. }
  set (line := fun (rcs : list C) => tsi_line p2 p1 (f c0) (srcs src rcs)).
  set (inp := fun (s : tsii_st (N := NumR)) (k : C) => snd (tsi_next (ti_tsi s) (c_source k (ti_source s)))).
  assert (HD : forall p k, inp (steps tsii_next s0 p) k = line (rev (p ++ [k]))).
  { intros p k. destruct (G p s0 eq_refl) as (Hc & H1). unfold inp. rewrite Hc, H1. fold (f k). cbn [ti_tsi s0].
    rewrite Ct. unfold line, tsi_line. rewrite srcs_rev_snoc. reflexivity. }
  assert (Hproj : forall s k, ti_ema (fst (tsii_next s k)) = fst (ema_next (ti_ema s) (inp s k))).
  { intros s k. unfold tsii_next, inp. destruct (tsi_next (ti_tsi s) _). cbn [snd]. dlet. reflexivity. }
  pose proof (proj_steps tsii_next ema_next ti_ema inp Hproj cs s0) as H3.
  assert (Hout : fst (snd (tsii_next (steps tsii_next s0 cs) c)) =
      [inp (steps tsii_next s0 cs) c; snd (ema_next (ti_ema (steps tsii_next s0 cs)) (inp (steps tsii_next s0 cs) c))]).
  { unfold tsii_next, inp. destruct (tsi_next (ti_tsi _) _). cbn [snd]. dlet. reflexivity. }
  rewrite Hout, H3. cbn [ti_ema s0]. rewrite Ce.
  rewrite (inputs_series_next tsii_next inp line s0 HD cs c). rewrite HD.
  unfold tsii_values. cbv zeta. unfold line, series, f, srcs. rewrite suffixes_map, map_map. reflexivity.
Qed.

(** ---- Keltner channel: average of the source +- sigma * SMA of the true range (against the previous close) *)
Theorem keltner_values_correct (ma : ma_cfg) (sigma : R) src (c0 : C) cs c :
  1 < ma_period ma <= pmax - 1 -> (0 < sigma)%R -> ma_proved ma = true -> ma_len_ok ma ->
  exists s0, kelt_init ma sigma src c0 = Ok s0 /\
    fst (snd (kelt_next (steps kelt_next s0 cs) c)) = kelt_values ma sigma src c0 (rev (cs ++ [c])).
Proof.
  intros Hp Hs Pm Lm. unfold kelt_init. destruct (Z.ltb_spec 1 (ma_period ma)); [|lia].
  assert (Eg : fgt sigma (f0 (N := NumR)) = true) by (unfold fgt; rsimp; destruct (Rltb_spec 0 sigma); [reflexivity|lra]).
  rewrite Eg. cbn [andb negb].
  set (f := fun k : C => c_source k src). set (n := ma_period ma) in *.
  assert (Rn : 1 <= n <= pmax - 1) by lia.
  destruct (ma_correct ma (f c0) [] (f c0) Pm Lm) as (m0 & Em & _). unfold f in Em at 1. rewrite Em. cbn [obind].
  set (r0 := fsub (c_high c0) (c_low c0)).
  destruct (sma_correct n r0 [] r0 Rn) as (a0 & Ea & _). rewrite Ea. cbn [obind]. eexists; split; [reflexivity|].
  pose proof (ma_correct' _ _ _ Pm Lm Em) as Cm.
  assert (Ca : forall xs x, snd (sma_next (steps sma_next a0 xs) x) = sma_def (Z.to_nat n) (hget r0 (rev (xs ++ [x])))).
  { intros xs x. destruct (sma_correct n r0 xs x Rn) as (a1 & E1 & H1). rewrite Ea in E1. injection E1 as <-. exact H1. }
  set (s0 := mkKelt sigma src (c_close c0) m0 a0 f0 f0).
  assert (G : forall cs0 s, kl_source s = src -> kl_sigma s = sigma ->
     kl_source (steps kelt_next s cs0) = src /\ kl_sigma (steps kelt_next s cs0) = sigma /\
     kl_ma (steps kelt_next s cs0) = steps ma_next (kl_ma s) (map f cs0)).
  { induction cs0 as [|k r IH]; intros s Es Eg'; [repeat split; assumption|]. unfold steps in *. cbn [fold_left map].
    assert (Es' : kl_source (fst (kelt_next s k)) = src) by (unfold kelt_next; dlet; exact Es).
    assert (Eg'' : kl_sigma (fst (kelt_next s k)) = sigma) by (unfold kelt_next; dlet; exact Eg').
    destruct (IH _ Es' Eg'') as (I1 & I2 & I3). split; [exact I1|]. split; [exact I2|]. rewrite I3. f_equal.
    unfold kelt_next. rewrite Es. fold (f k). destruct (ma_next (kl_ma s) (f k)). dlet. reflexivity. }
  assert (Hprev : forall p, kl_prev_close (steps kelt_next s0 p) = c_close (hget c0 (rev p) 0%nat)).
  { intros p. destruct p as [|a q] using rev_ind; [reflexivity|]. rewrite steps_snoc, rev_unit. cbn [hget hcons].
    unfold kelt_next. dlet. reflexivity. }
  set (D := fun (rcs : list C) => c_tr_close (hget c0 rcs 0%nat) (c_close (hget c0 rcs 1%nat))).
  set (inp := fun (s : kelt_st (N := NumR)) (k : C) => c_tr_close k (kl_prev_close s)).
  assert (HD : forall p k, inp (steps kelt_next s0 p) k = D (rev (p ++ [k]))).
  { intros p k. unfold inp, D. rewrite Hprev, rev_unit. reflexivity. }
  assert (Hproj : forall s k, kl_sma (fst (kelt_next s k)) = fst (sma_next (kl_sma s) (inp s k))).
  { intros s k. unfold kelt_next, inp. destruct (ma_next (kl_ma s) _). destruct (sma_next (kl_sma s) _). dlet. reflexivity. }
  pose proof (proj_steps kelt_next sma_next kl_sma inp Hproj cs s0) as H3.
  destruct (G cs s0 eq_refl eq_refl) as (Hsrc & Hsig & Hma).
  assert (Hout : fst (snd (kelt_next (steps kelt_next s0 cs) c)) =
     let mv := snd (ma_next (kl_ma (steps kelt_next s0 cs)) (f c)) in
     let atr := snd (sma_next (kl_sma (steps kelt_next s0 cs)) (inp (steps kelt_next s0 cs) c)) in
     [f c; ffma atr sigma mv; ffma atr (fneg sigma) mv]).
  { unfold kelt_next at 1. unfold inp. rewrite Hsrc, Hsig. fold (f c). destruct (ma_next (kl_ma _) (f c)). destruct (sma_next (kl_sma _) _). cbn [snd]. dlet. reflexivity. }
  rewrite Hout. cbv zeta. rewrite Hma, H3. cbn [kl_ma kl_sma s0]. rewrite Cm, Ca.
  rewrite (inputs_series_next kelt_next inp D s0 HD cs c).
  unfold kelt_values. cbv zeta. rewrite srcs_rev_snoc. unfold tr_series, series. fold D. fold n. fold r0. fold f.
  f_equal; [unfold srcs; rewrite rev_unit; reflexivity|]. unfold f. f_equal; [rsimp; ring|]. f_equal. rsimp. ring.
Qed.
End IP4.
