(** C06 continued: AwesomeOscillator #1 ("twin peaks").  For every stream that begins with the candle the instance was created
    from: the reversal detector embedded in the indicator returns the DEFINITIONAL pivot of the series of oscillator values, the
    two counters held by the instance count the pivots seen while the oscillator has stayed on one side of zero (reset when it
    changes side), and the signal fires on a pivot exactly when that count has reached [conseq_peaks]. *)
From Yata Require Import Base.Prelude Base.Num Base.NumR Core.Window Core.WindowSpec Core.Candle Core.Action Core.Strings
  Spec.Hist Spec.MethodDefs Spec.IndicatorDefs Methods.Basic Methods.Select Indicators.Common Indicators.Set3 Indicators.Set4
  Proofs.MethodsCommon Proofs.Selection Proofs.Selection2 Proofs.MAProofs Proofs.Cascade Proofs.IndicatorProofs Proofs.IndicatorProofs3
  Proofs.IndicatorProofs11 Proofs.Averages5 Proofs.Constant Proofs.SignalProofs2 Proofs.SignalProofs7 Proofs.SignalProofs9.
From Coq Require Import Reals Lra Lia.
Open Scope Z_scope.

Section AoPeaks.
Context {pw : PW}.
Local Notation R := (@F NumR).
Local Notation C := (candle (N := NumR)).
Ltac dlete := repeat match goal with |- context [let '(_, _) := ?e in _] => let E := fresh "E" in destruct e eqn:E end.

Definition ao_inp (s : ao_st (N := NumR)) (k : C) : R :=
  let src := c_source k (oc_source (ao_cfg_ s)) in fsub (snd (ma_next (ao_ma2 s) src)) (snd (ma_next (ao_ma1 s) src)).
(** one step of the counting rule: (signal, low counter, high counter) from the pivot direction, the value and the counters *)
Definition ao_rule (peaks reverse : Z) (value : R) (lo hi : Z) : Z * Z * Z :=
  let hp := u8_sat (hi + b2z (0 <? reverse)) in let lp := u8_sat (lo + b2z (reverse <? 0)) in
  (b2z ((reverse <? 0) && (peaks <=? lp)) - b2z ((0 <? reverse) && (peaks <=? hp)), lp * b2z (fle value f0), hp * b2z (fge value f0)).

Lemma ao_peaks_shape (s : ao_st (N := NumR)) k :
  let reverse := a_to_i8 (snd (reversal_next (ao_rev s) (ao_inp s k))) in
  ao_cfg_ (fst (ao_next s k)) = ao_cfg_ s /\
  ao_rev (fst (ao_next s k)) = fst (reversal_next (ao_rev s) (ao_inp s k)) /\
  nth 0 (fst (snd (ao_next s k))) f0 = ao_inp s k /\
  (nth 0 (sigs (snd (ao_next s k))) ANone, ao_low (fst (ao_next s k)), ao_high (fst (ao_next s k))) =
    (let '(sg, lo, hi) := ao_rule (oc_peaks (ao_cfg_ s)) reverse (ao_inp s k) (ao_low s) (ao_high s) in (a_from_i8 sg, lo, hi)).
Proof.
  cbv zeta. unfold ao_next, ao_inp, ao_rule. cbv zeta.
  destruct (ma_next (ao_ma2 s) _) as (b, v2). destruct (ma_next (ao_ma1 s) _) as (a, v1). cbn [snd].
  destruct (reversal_next (ao_rev s) (fsub v2 v1)) as (r, ra). cbn [snd fst]. destruct (cross_next (ao_cross s) _) as (cx, s2).
  unfold sigs. cbn. repeat split.
Qed.

Variables (cfg : ao_cfg) (c0 : C).
Hypothesis Hv : ao_validate cfg = true.
Hypothesis Hlr : oc_left cfg + oc_right cfg <= pmax - 2.
Hypothesis L1 : ma_len_ok (oc_ma1 cfg).
Hypothesis L2 : ma_len_ok (oc_ma2 cfg).

Definition ao_of (l : list C) : R :=
  let s0' := c_source c0 (oc_source cfg) in let rs := srcs (oc_source cfg) l in
  fsub (ma_def (oc_ma2 cfg) s0' rs) (ma_def (oc_ma1 cfg) s0' rs).
(** the pivot direction at the newest candle of [rc] (candles newest first, the construction candle last): +1 pivot low,
    -1 pivot high of the oscillator [right] bars back, definitional over the whole history; none on the first candle *)
Definition ao_pivot (rc : list C) : Z :=
  match rc with
  | _ :: _ :: _ =>
    let h := hget f0 (series ao_of rc) in
    let L := Z.to_nat (oc_left cfg + oc_right cfg + 1) in let r := Z.to_nat (oc_right cfg) in
    a_to_i8 (a_sub (if Nat.eqb (argbest flt h L) r then a_buy_all else ANone) (if Nat.eqb (argbest fgt h L) r then a_buy_all else ANone))
  | _ => 0
  end.
(** (signal, low counter, high counter) as functions of the history *)
Fixpoint ao_counts (rc : list C) : Z * Z * Z :=
  match rc with
  | [] => (0, 0, 0)
  | k :: q => let '(_, lo, hi) := ao_counts q in ao_rule (oc_peaks cfg) (ao_pivot (k :: q)) (ao_of (k :: q)) lo hi
  end.

Lemma ao_bounds : 1 <= oc_left cfg /\ 1 <= oc_right cfg.
Proof.
  unfold ao_validate in Hv. repeat (apply andb_prop in Hv; destruct Hv as (Hv & ?)).
  repeat match goal with H : (_ <? _) = true |- _ => apply Z.ltb_lt in H end. lia.
Qed.

Section Run.
Variable s0 : ao_st (N := NumR).
Hypothesis Hinit : ao_init cfg c0 = Ok s0.

Lemma ao_s0 : ao_cfg_ s0 = cfg /\ reversal_new (oc_left cfg) (oc_right cfg) (f0 (N := NumR)) = Ok (ao_rev s0) /\ ao_low s0 = 0 /\ ao_high s0 = 0.
Proof.
  unfold ao_init in Hinit. rewrite Hv in Hinit. cbn [negb] in Hinit. cbv zeta in Hinit.
  destruct (ma_init (oc_ma1 cfg) _); cbn [obind] in Hinit; try discriminate. destruct (ma_init (oc_ma2 cfg) _); cbn [obind] in Hinit; try discriminate.
  destruct (reversal_new (oc_left cfg) (oc_right cfg) f0); cbn [obind] in Hinit; try discriminate. injection Hinit as <-. repeat split.
Qed.

Lemma ao_cfg_steps cs : ao_cfg_ (steps ao_next s0 cs) = cfg.
Proof. rewrite (steps_field ao_next ao_cfg_); [apply ao_s0|]. intros s k. apply ao_peaks_shape. Qed.

Lemma ao_inp_of p k : ao_inp (steps ao_next s0 p) k = ao_of (rev (p ++ [k])).
Proof.
  destruct (awesome_oscillator_values_correct cfg c0 p k Hv Hlr L1 L2) as (s1 & E1 & H1). rewrite Hinit in E1. injection E1 as <-.
  pose proof (proj1 (proj2 (proj2 (ao_peaks_shape (steps ao_next s0 p) k)))) as Hn. rewrite <- Hn, H1. reflexivity.
Qed.

Lemma ao_first : ao_of [c0] = f0.
Proof.
  unfold ao_of. cbv zeta. unfold srcs, series. cbn [map suffixes]. set (v := c_source c0 (oc_source cfg)).
  change [v] with (repeat v 1). rewrite !ma_def_constant by assumption. unfold f0. numR. apply Rminus_diag_eq. reflexivity.
Qed.

(** the detector's output at every step after the construction candle *)
Lemma ao_pivot_output cs c :
  a_to_i8 (snd (reversal_next (ao_rev (steps ao_next s0 (c0 :: cs))) (ao_inp (steps ao_next s0 (c0 :: cs)) c))) =
  ao_pivot (rev ((c0 :: cs) ++ [c])).
Proof.
  destruct ao_bounds as (Bl & Br). destruct ao_s0 as (_ & Enew & _).
  rewrite (pivot_output ao_next ao_rev ao_inp (fun s k => proj1 (proj2 (ao_peaks_shape s k))) s0 c0 f0 (oc_left cfg) (oc_right cfg)
             ao_of ao_inp_of Enew ao_first Bl Br Hlr).
  rewrite rev_unit. unfold ao_pivot. destruct (rev (c0 :: cs)) as [|k q] eqn:Eq.
  - exfalso. apply (f_equal (@length C)) in Eq. rewrite rev_length in Eq. discriminate.
  - reflexivity.
Qed.

Lemma ao_first_pivot : a_to_i8 (snd (reversal_next (ao_rev s0) (ao_inp s0 c0))) = 0.
Proof.
  destruct ao_s0 as (_ & Enew & _). unfold reversal_new in Enew.
  destruct (rev_new (oc_left cfg) (oc_right cfg) f0) as [h| |] eqn:Eh; cbn [obind] in Enew; try discriminate.
  injection Enew as En. rewrite <- En. unfold reversal_next. cbn [fst snd].
  destruct ao_bounds as (Bl & Br).
  pose proof (rev_first_none (oc_left cfg) (oc_right cfg) Br fle h f0 (ao_inp s0 c0) Eh) as N1.
  pose proof (rev_first_none (oc_left cfg) (oc_right cfg) Br fge h f0 (ao_inp s0 c0) Eh) as N2.
  fold (lower_rev_next h (ao_inp s0 c0)) in N1. fold (upper_rev_next h (ao_inp s0 c0)) in N2.
  destruct (lower_rev_next h (ao_inp s0 c0)) as (l', lo). destruct (upper_rev_next h (ao_inp s0 c0)) as (h', hi). cbn [snd] in *. subst lo hi. reflexivity.
Qed.

Lemma ao_counts_state cs :
  (ao_low (steps ao_next s0 (c0 :: cs)), ao_high (steps ao_next s0 (c0 :: cs))) =
  (let '(_, lo, hi) := ao_counts (rev (c0 :: cs)) in (lo, hi)).
Proof.
  induction cs as [|c cs IH] using rev_ind.
  - change (steps ao_next s0 [c0]) with (fst (ao_next s0 c0)). destruct (ao_peaks_shape s0 c0) as (_ & _ & _ & H). cbv zeta in H.
    rewrite ao_first_pivot in H. destruct ao_s0 as (Ec & _ & El & Eh). rewrite Ec, El, Eh in H.
    pose proof (ao_inp_of [] c0) as Hi. change (steps ao_next s0 []) with s0 in Hi. cbn [app rev] in Hi. rewrite Hi in H.
    cbn [rev app ao_counts]. change (ao_pivot [c0]) with 0.
    destruct (ao_rule (oc_peaks cfg) 0 (ao_of [c0]) 0 0) as ((sg, lo), hi). injection H as _ H2 H3. rewrite H2, H3. reflexivity.
  - change (c0 :: cs ++ [c]) with ((c0 :: cs) ++ [c]). rewrite steps_snoc, rev_unit. cbn [ao_counts].
    destruct (ao_peaks_shape (steps ao_next s0 (c0 :: cs)) c) as (_ & _ & _ & H). cbv zeta in H.
    rewrite ao_pivot_output, ao_cfg_steps, ao_inp_of, rev_unit in H.
    set (st := steps ao_next s0 (c0 :: cs)) in *.
    destruct (ao_counts (rev (c0 :: cs))) as ((sg0, lo0), hi0).
    assert (I1 : ao_low st = lo0) by (injection IH as I1 _; exact I1). assert (I2 : ao_high st = hi0) by (injection IH as _ I2; exact I2).
    rewrite I1, I2 in H.
    destruct (ao_rule (oc_peaks cfg) (ao_pivot (c :: rev (c0 :: cs))) (ao_of (c :: rev (c0 :: cs))) lo0 hi0) as ((sg, lo), hi).
    injection H as _ H2 H3. rewrite H2, H3. reflexivity.
Qed.

Theorem ao_twin_peaks_signal cs c :
  nth 0 (sigs (snd (ao_next (steps ao_next s0 (c0 :: cs)) c))) ANone =
  a_from_i8 (fst (fst (ao_counts (rev ((c0 :: cs) ++ [c]))))).
Proof.
  destruct (ao_peaks_shape (steps ao_next s0 (c0 :: cs)) c) as (_ & _ & _ & H). cbv zeta in H.
  rewrite ao_pivot_output, ao_cfg_steps, ao_inp_of, rev_unit in H. rewrite rev_unit. cbn [ao_counts].
  pose proof (ao_counts_state cs) as St. set (st := steps ao_next s0 (c0 :: cs)) in *. destruct (ao_counts (rev (c0 :: cs))) as ((sg0, lo0), hi0).
  assert (I1 : ao_low st = lo0) by (injection St as I1 _; exact I1). assert (I2 : ao_high st = hi0) by (injection St as _ I2; exact I2).
  rewrite I1, I2 in H.
  destruct (ao_rule (oc_peaks cfg) (ao_pivot (c :: rev (c0 :: cs))) (ao_of (c :: rev (c0 :: cs))) lo0 hi0) as ((sg, lo), hi).
  injection H as H1 _ _. exact H1.
Qed.
End Run.
End AoPeaks.
