(** C06: indicator signals fire exactly under their documented conditions, stated over the
    indicator's OWN returned values: e.g. MACD's two signals are the definitional crossings
    (C14) of the series (macd, signal line) and (macd, 0) it has returned so far. *)
From Yata Require Import Base.Prelude Base.Num Base.NumR Core.Window Core.WindowSpec Core.Candle Core.Action
  Spec.Hist Methods.Basic Methods.Select Indicators.Common Indicators.Set1 Proofs.MethodsCommon Proofs.Detectors.
From Coq Require Import Reals.
Open Scope Z_scope.

Section SP.
Context {pw : PW}.
Local Notation R := (@F NumR).
Local Notation C := (candle (N := NumR)).

(** a default Cross fed the pairs [ps] then [p]: its output is the definitional crossing of the pair history
    that starts from the difference 0 *)
Lemma cross_default_correct (ps : list (R * R)) p :
  snd (cross_next (steps cross_next (f0, f0) ps) p) = cross_def (hget (f0, f0) (rev (ps ++ [p]))).
Proof.
  pose proof (cross_correct (f0, f0) ps p) as H. unfold cross_new in H. cbn [fst snd] in H.
  replace (fsub (f0 (N := NumR)) f0) with (f0 (N := NumR)) in H by (unfold f0; numR; symmetry; apply Rminus_diag_eq; reflexivity).
  exact H.
Qed.

(** values returned by MACD along a run, as pairs for its two detectors *)
Definition macd_vals (s : macd_st (N := NumR)) (k : C) : R * R :=
  match fst (snd (macd_next s k)) with [a; b] => (a, b) | _ => (f0, f0) end.
Fixpoint macd_pairs (s : macd_st (N := NumR)) (cs : list C) : list (R * R) :=
  match cs with [] => [] | k :: r => macd_vals s k :: macd_pairs (fst (macd_next s k)) r end.

Lemma macd_next_shape s k : exists a b g c1 c2 m sg,
  macd_next s k = (mkMacd (md_cfg s) a b g c1 c2, ([m; sg], [snd (cross_next (md_cross1 s) (m, sg)); snd (cross_next (md_cross2 s) (m, f0))]))
  /\ c1 = fst (cross_next (md_cross1 s) (m, sg)) /\ c2 = fst (cross_next (md_cross2 s) (m, f0)).
Proof.
  unfold macd_next. destruct (ma_next (md_ma1 s) _) as [a e1]. destruct (ma_next (md_ma2 s) _) as [b e2].
  destruct (ma_next (md_ma3 s) _) as [g sg].
  destruct (cross_next (md_cross1 s) (fsub e1 e2, sg)) as [c1 s1] eqn:E1.
  destruct (cross_next (md_cross2 s) (fsub e1 e2, f0)) as [c2 s2] eqn:E2.
  exists a, b, g, c1, c2, (fsub e1 e2), sg. rewrite E1, E2. repeat split.
Qed.

Theorem macd_signals_correct (s0 : macd_st (N := NumR)) cs k :
  md_cross1 s0 = (f0, f0) -> md_cross2 s0 = (f0, f0) ->
  let s := steps macd_next s0 cs in
  let ps := macd_pairs s0 cs in
  let p := macd_vals s k in
  snd (snd (macd_next s k)) =
    [cross_def (hget (f0, f0) (rev (ps ++ [p])));
     cross_def (hget (f0, f0) (rev (map (fun q => (fst q, f0)) ps ++ [(fst p, f0)])))].
Proof.
  intros H1 H2. cbv zeta.
  assert (G : forall cs s0, md_cross1 (steps macd_next s0 cs) = steps cross_next (md_cross1 s0) (macd_pairs s0 cs) /\
                             md_cross2 (steps macd_next s0 cs) = steps cross_next (md_cross2 s0) (map (fun q => (fst q, f0)) (macd_pairs s0 cs))).
  { clear. induction cs as [|c r IH]; intros s0; [split; reflexivity|].
    unfold steps at 1 3. cbn [fold_left macd_pairs map]. fold (steps macd_next (fst (macd_next s0 c)) r).
    destruct (IH (fst (macd_next s0 c))) as (I1 & I2). rewrite I1, I2.
    destruct (macd_next_shape s0 c) as (a & b & g & c1 & c2 & m & sg & E & Ec1 & Ec2).
    unfold macd_vals. rewrite E. cbn [fst snd md_cross1 md_cross2]. subst c1 c2.
    unfold steps. cbn [fold_left fst]. split; reflexivity. }
  destruct (G cs s0) as (G1 & G2). rewrite H1 in G1. rewrite H2 in G2.
  destruct (macd_next_shape (steps macd_next s0 cs) k) as (a & b & g & c1 & c2 & m & sg & E & _ & _).
  unfold macd_vals. rewrite E. cbn [fst snd]. rewrite G1, G2. f_equal; [|f_equal].
  - apply cross_default_correct.
  - apply cross_default_correct.
Qed.
End SP.
