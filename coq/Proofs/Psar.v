(** ParabolicSAR: structural invariants of every reachable state (any carrier): the trend is +1 or -1, the count of new
    extremes since the last reversal is at least 1, the configuration never changes; hence the acceleration factor
    min(af_max, af_step * count) lies between af_step and af_max (exact arithmetic). *)
From Yata Require Import Base.Prelude Base.Num Base.NumR Core.Window Core.Candle Core.Action Spec.Hist
  Methods.Basic Indicators.Common Indicators.Set3 Proofs.MethodsCommon.
From Coq Require Import Reals Lra Lia.
Open Scope Z_scope.

Section Psar.
Context {pw : PW} {N : Num}.
Definition psar_inv (step mx : F) (s : psar_st) : Prop :=
  ps_step s = step /\ ps_max s = mx /\ (ps_trend s = 1 \/ ps_trend s = -1) /\ 1 <= ps_inc s.

Lemma psar_step_inv step mx s k : psar_inv step mx s -> psar_inv step mx (fst (psar_next s k)).
Proof.
  intros (H1 & H2 & Ht & Hi). unfold psar_next, psar_inv.
  destruct (0 <? ps_trend s) eqn:E1; [|destruct (ps_trend s <? 0) eqn:E2].
  - destruct (flt (ps_high s) (c_high k)), (flt (c_low k) (ps_sar s)); cbn [fst ps_step ps_max ps_trend ps_inc]; repeat split; auto; lia.
  - destruct (fgt (ps_low s) (c_low k)), (fgt (c_high k) (ps_sar s)); cbn [fst ps_step ps_max ps_trend ps_inc]; repeat split; auto; lia.
  - apply Z.ltb_ge in E1, E2. lia.
Qed.
Lemma psar_init_inv step mx k s0 : psar_init step mx k = Ok s0 -> psar_inv step mx s0.
Proof. unfold psar_init. destruct (negb _); [discriminate|]. intros [= <-]. unfold psar_inv. cbn. repeat split; auto; lia. Qed.
Theorem psar_reachable_inv step mx k s0 cs : psar_init step mx k = Ok s0 -> psar_inv step mx (steps psar_next s0 cs).
Proof.
  intros H. induction cs as [|c r IH] using rev_ind; [apply (psar_init_inv _ _ _ _ H)|].
  rewrite steps_snoc. apply psar_step_inv. exact IH.
Qed.
(** the trend value returned is the new trend: +1 or -1 at every step *)
Theorem psar_trend_value step mx k s0 cs c : psar_init step mx k = Ok s0 ->
  exists t, (t = 1 \/ t = -1) /\ nth 1 (fst (snd (psar_next (steps psar_next s0 cs) c))) f0 = fofZ t.
Proof.
  intros H. pose proof (psar_reachable_inv step mx k s0 (cs ++ [c]) H) as (_ & _ & Ht & _). rewrite steps_snoc in Ht.
  exists (ps_trend (fst (psar_next (steps psar_next s0 cs) c))). split; [exact Ht|].
  unfold psar_next. repeat match goal with |- context [if ?b then _ else _] => destruct b end; reflexivity.
Qed.
End Psar.

Section PsarR.
Context {pw : PW}.
Open Scope R_scope.
(** acceleration factor of the next update: between af_step and af_max *)
Theorem psar_af_range (step mx : @F NumR) k s0 cs : psar_init step mx k = Ok s0 -> 0 < step ->
  let s := steps psar_next s0 cs in
  step <= fmin (ps_max s) (fmul (ps_step s) (fofZ (ps_inc s))) <= mx.
Proof.
  intros H Hs. cbv zeta. destruct (psar_reachable_inv step mx k s0 cs H) as (-> & -> & _ & Hi).
  assert (Hlt : step < mx).
  { unfold psar_init in H. destruct (flt step mx) eqn:E; [|discriminate]. revert E. cbn [flt NumR]. destruct (Rltb_spec step mx); [auto|discriminate]. }
  rsimp. assert (1 <= IZR (ps_inc (steps psar_next s0 cs))) by (apply IZR_le; exact Hi).
  unfold Rmin. destruct (Rle_dec mx (step * IZR (ps_inc (steps psar_next s0 cs)))); split; try lra; nra.
Qed.
End PsarR.
