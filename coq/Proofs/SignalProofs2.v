(** C06 continued: signals that are a function of the values returned at the same step and of the candle —
    in EVERY state (hence after every stream) the signal is the documented rule applied to the returned values.
    Stated over any carrier [Num] (so also on binary64).  [v i] is the i-th returned value. *)
From Yata Require Import Base.Prelude Base.Num Core.Window Core.Candle Core.Action
  Spec.Hist Methods.Basic Methods.Select Indicators.Common Indicators.Set1 Indicators.Set3.
Open Scope Z_scope.

Section SP2.
Context {pw : PW} {N : Num}.
Ltac dlet := repeat match goal with |- context [let '(_, _) := ?e in _] => destruct e end.
Definition vals (r : iresult) (i : nat) : F := nth i (fst r) f0.
Definition sigs (r : iresult) : list action := snd r.

(** Donchian ([lower; middle; upper]): full buy when the candle's high reaches the upper bound, full sell when its
    low reaches the lower bound *)
Theorem donchian_signal (s : donch_st) (k : candle) :
  let r := snd (donch_next s k) in
  sigs r = [a_from_i8 (b2z (fge (c_high k) (vals r 2)) - b2z (fle (c_low k) (vals r 0)))].
Proof. unfold donch_next. dlet. reflexivity. Qed.
(** price channel ([upper; lower]) *)
Theorem price_channel_signal (s : pch_st) (k : candle) :
  let r := snd (pch_next s k) in
  sigs r = [a_from_i8 (b2z (fge (c_high k) (vals r 0)) - b2z (fle (c_low k) (vals r 1)))].
Proof. unfold pch_next. dlet. reflexivity. Qed.
(** Envelopes ([upper; lower; source2]): buy when the second source is below the lower envelope, sell above the upper *)
Theorem envelopes_signal (s : env_st) (k : candle) :
  let r := snd (env_next s k) in
  sigs r = [a_from_i8 (b2z (flt (vals r 2) (vals r 1)) - b2z (fgt (vals r 2) (vals r 0)))].
Proof. unfold env_next. dlet. reflexivity. Qed.
(** MomentumIndex: buy when both momenta are positive, sell when both are negative *)
Theorem momentum_index_signal (s : momi_st) (k : candle) :
  let r := snd (momi_next s k) in
  sigs r = [a_from_i8 (b2z (fgt (vals r 0) f0 && fgt (vals r 1) f0) - b2z (flt (vals r 0) f0 && flt (vals r 1) f0))].
Proof. unfold momi_next. dlet. reflexivity. Qed.
(** Bollinger ([upper; middle; lower]): the position of the source inside the band mapped to [-1, 1] (0 on a flat band) *)
Theorem bollinger_signal (s : boll_st) (k : candle) :
  let r := snd (boll_next s k) in
  let src := c_source k (bc_source (bo_cfg s)) in let range := fsub (vals r 0) (vals r 2) in
  let rel := if feq range f0 then flit 1 2 else fdiv (fsub src (vals r 2)) range in
  sigs r = [a_from_f (ffma rel f2 (fneg f1))].
Proof. unfold boll_next. dlet. reflexivity. Qed.
(** ParabolicSAR: fires exactly when the returned trend differs from the previously returned one, in its direction *)
Theorem psar_signal (s : psar_st) (k : candle) :
  let s' := fst (psar_next s k) in
  sigs (snd (psar_next s k)) = [a_from_i8 (b2z (negb (ps_prev_trend s =? ps_trend s')) * ps_trend s')] /\
  ps_prev_trend s' = ps_trend s' /\ vals (snd (psar_next s k)) 1 = fofZ (ps_trend s').
Proof.
  unfold psar_next.
  destruct (0 <? ps_trend s); [destruct (flt (ps_high s) (c_high k)); destruct (flt (c_low k) (ps_sar s))|
    destruct (ps_trend s <? 0); [destruct (fgt (ps_low s) (c_low k)); destruct (fgt (c_high k) (ps_sar s))|]];
    cbv beta iota zeta; repeat split; reflexivity.
Qed.
End SP2.
