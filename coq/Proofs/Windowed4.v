(** C02 (continued): Conv, MeanAbsDev, CCI and the cascades TRIMA, HMA. *)
From Yata Require Import Base.Prelude Base.Num Base.NumR Core.Window Core.WindowSpec Core.Candle
  Spec.Hist Spec.MethodDefs Methods.Basic Proofs.MethodsCommon Proofs.Windowed Proofs.Windowed2.
From Coq Require Import Reals Lra.
Open Scope Z_scope.

Open Scope R_scope.
Lemma fsum_lsum (l : list R) : fsum (N := NumR) l = lsum (N := NumR) l.
Proof.
  unfold fsum. rsimp. assert (G : forall a, fold_left Rplus l a = a + lsum (N := NumR) l).
  { induction l as [|x r IH]; intros a; simpl; rsimp; [lra|]. rewrite IH. lra. }
  rewrite G. lra.
Qed.
Lemma lsum_rev (l : list R) : lsum (N := NumR) (rev l) = lsum (N := NumR) l.
Proof. induction l as [|x r IH]; simpl; [reflexivity|]. rewrite lsum_app, IH. simpl. rsimp. lra. Qed.
Lemma lsum_map_hwin n (h : nat -> R) (g : R -> R) :
  lsum (N := NumR) (map g (hwin n h)) = gsum (N := NumR) n (fun i => g (h i)).
Proof. unfold hwin, gsum. rewrite map_map, map_rev, lsum_rev. reflexivity. Qed.
Lemma lsum_combine (l : list R) : forall (h : nat -> R),
  lsum (N := NumR) (map (fun p => fmul (fst p) (snd p)) (combine (map h (seq 0 (length l))) l)) =
  gsum (N := NumR) (length l) (fun i => nth i l 0 * h i).
Proof.
  induction l as [|a t IH]; intros h; [reflexivity|].
  cbn [length]. rewrite gsum_S_shift. change (seq 0 (S (length t))) with (O :: seq 1 (length t)).
  rewrite <- seq_shift. cbn [map]. rewrite map_map. cbn [map combine lsum fst snd nth].
  rewrite (IH (fun i => h (S i))). rsimp. lra.
Qed.
Open Scope Z_scope.

Section Proofs.
Context {pw : PW}.
Local Notation "'R'" := (@F NumR) (only parsing).

(* ----------------------------------------------------------------- Conv *)
Definition conv_inv (ws : list R) (s : conv (N := NumR)) (h : nat -> R) : Prop :=
  WinOK (length ws) (cv_window s) h /\ cv_weights s = ws /\ cv_wsum_invert s = (/ lsum ws)%R.

Lemma conv_out ws s h : conv_inv ws s h -> conv_peek s = conv_def ws h.
Proof.
  intros (Hw & Hws & Hi). unfold conv_peek, conv_def. rewrite Hi, Hws, fsum_lsum.
  rewrite (winok_items _ _ _ Hw). rewrite <- (rev_length ws) at 1. rewrite lsum_combine.
  rewrite rev_length. rsimp. unfold Rdiv. reflexivity.
Qed.

Lemma conv_step ws s h x : (0 < length ws)%nat -> conv_inv ws s h ->
  conv_inv ws (fst (conv_next s x)) (hcons x h) /\ snd (conv_next s x) = conv_def ws (hcons x h).
Proof.
  intros Hl (Hw & Hws & Hi). destruct (length ws) as [|m] eqn:El; [lia|].
  destruct (winok_push m _ h x Hw) as (w' & Hp & Hw').
  unfold conv_next. destruct (w_push_t (cv_window s) x) as [w'' o] eqn:E. injection Hp as -> _.
  cbv zeta. cbn [fst snd].
  assert (Hi' : conv_inv ws (mkConv (cv_weights s) w' (cv_wsum_invert s)) (hcons x h)).
  { split; [rewrite El; exact Hw'|split; [exact Hws|exact Hi]]. }
  split; [exact Hi'|apply conv_out; exact Hi'].
Qed.

Theorem conv_correct ws v xs x : 1 <= Z.of_nat (length ws) <= pmax - 1 ->
  exists s0, conv_new ws v = Ok s0 /\
    snd (conv_next (steps conv_next s0 xs) x) = conv_def ws (hget v (rev (xs ++ [x]))).
Proof.
  intros Hn. unfold conv_new.
  destruct (Z.leb_spec 1 (Z.of_nat (length ws))); [|lia].
  destruct (Z.leb_spec (Z.of_nat (length ws)) (pmax - 1)); [|lia]. cbn [andb].
  eexists; split; [reflexivity|].
  eapply (inv_correct conv_next (conv_inv ws) (conv_def ws)).
  - intros s h y Hi. apply conv_step; [lia|exact Hi].
  - assert (Hr : 0 <= Z.of_nat (length ws) <= pmax - 1) by lia.
    pose proof (winok_new (Z.of_nat (length ws)) v Hr) as W.
    rewrite Nat2Z.id in W. split; [exact W|]. split; [reflexivity|].
    cbn [cv_wsum_invert]. unfold frecip. rewrite fsum_lsum. rsimp. unfold Rdiv. lra.
Qed.

(* ------------------------------------------------------- MeanAbsDev, CCI *)
Lemma lsum_rot (b : list R) i : lsum (N := NumR) (rot b i) = lsum (N := NumR) b.
Proof. unfold rot. rewrite lsum_app. rewrite <- (firstn_skipn i b) at 3. rewrite lsum_app. rsimp. lra. Qed.
Lemma map_rot {A B} (g : A -> B) b i : map g (rot b i) = rot (map g b) i.
Proof. unfold rot. rewrite map_app, skipn_map, firstn_map. reflexivity. Qed.

Lemma mad_out n (s : sma (N := NumR)) h : sma_inv n s h -> mad_peek s = mad_def n h.
Proof.
  intros (Hw & Hd & Hv). unfold mad_peek, mad_def, sma_peek. rewrite Hd, Hv, fsum_lsum.
  destruct Hw as (Hwf & Hsz & Hs). unfold w_as_slice.
  rewrite <- (lsum_rot _ (Z.to_nat (widx (sma_window s)))), <- map_rot.
  change (rot (buf (sma_window s)) (Z.to_nat (widx (sma_window s)))) with (wseq (sma_window s)).
  rewrite Hs. rsimp. rewrite (lsum_map_hwin n h (fun y => Rabs (y - sma_def (N := NumR) n h))). unfold Rdiv. reflexivity.
Qed.

Lemma mad_step n s h x : sma_inv (S n) s h ->
  sma_inv (S n) (fst (mad_next s x)) (hcons x h) /\ snd (mad_next s x) = mad_def (S n) (hcons x h).
Proof.
  intros Hi. destruct (sma_step n s h x Hi) as (Hi' & _). unfold mad_next.
  destruct (sma_next s x) as [s' y]. cbn [fst snd] in *. split; [exact Hi'|apply mad_out; exact Hi'].
Qed.
Lemma mad_init n v : 1 <= n <= pmax - 1 ->
  exists s0, mad_new n v = Ok s0 /\ sma_inv (Z.to_nat n) s0 (hconst v).
Proof. intros Hn. unfold mad_new. destruct (Z.eqb_spec n 0); [lia|]. apply sma_init; exact Hn. Qed.
Theorem mad_correct n v xs x : 1 <= n <= pmax - 1 ->
  exists s0, mad_new n v = Ok s0 /\
    snd (mad_next (steps mad_next s0 xs) x) = mad_def (Z.to_nat n) (hget v (rev (xs ++ [x]))).
Proof. intros Hn. by_inv (mad_init n v Hn) mad_step. Qed.

Lemma cci_step n s h x : sma_inv (S n) s h ->
  sma_inv (S n) (fst (cci_next s x)) (hcons x h) /\ snd (cci_next s x) = cci_def (S n) (hcons x h).
Proof.
  intros Hi. destruct (mad_step n s h x Hi) as (Hi' & E). unfold cci_next.
  destruct (mad_next s x) as [s' y]. cbn [fst snd] in *. split; [exact Hi'|].
  subst y. unfold cci_def. destruct Hi' as (_ & _ & Hv). unfold sma_peek. rewrite Hv. reflexivity.
Qed.
Lemma cci_init n v : 1 <= n <= pmax - 1 ->
  exists s0, cci_new n v = Ok s0 /\ sma_inv (Z.to_nat n) s0 (hconst v).
Proof. intros Hn. unfold cci_new. destruct (Z.eqb_spec n 0); [lia|]. apply mad_init; exact Hn. Qed.
Theorem cci_correct n v xs x : 1 <= n <= pmax - 1 ->
  exists s0, cci_new n v = Ok s0 /\
    snd (cci_next (steps cci_next s0 xs) x) = cci_def (Z.to_nat n) (hget v (rev (xs ++ [x]))).
Proof. intros Hn. by_inv (cci_init n v Hn) cci_step. Qed.

(* ---------------------------------------------------------------- TRIMA *)
Lemma sma_def_ext n (h h' : nat -> R) : (forall i, h i = h' i) -> sma_def n h = sma_def n h'.
Proof. intros E. unfold sma_def, hsum. f_equal. apply gsum_ext. intros; apply E. Qed.
Lemma sma_inv_ext n s (h h' : nat -> R) : (forall i, h i = h' i) -> sma_inv n s h -> sma_inv n s h'.
Proof. intros E (H1 & H2 & H3). split; [eapply winok_ext; eauto|]. split; [exact H2|].
  rewrite H3. apply sma_def_ext. exact E. Qed.

Definition trima_inv (n : nat) (s : trima (N := NumR)) (h : nat -> R) : Prop :=
  sma_inv n (tr_sma1 s) h /\ sma_inv n (tr_sma2 s) (fun j => sma_def n (hshift j h)).

Lemma trima_step n s h x : trima_inv (S n) s h ->
  trima_inv (S n) (fst (trima_next s x)) (hcons x h) /\
  snd (trima_next s x) = trima_def (S n) (hcons x h).
Proof.
  intros (H1 & H2). unfold trima_next.
  destruct (sma_step n _ h x H1) as (H1' & E1).
  destruct (sma_next (tr_sma1 s) x) as [a y]. cbn [fst snd] in *. subst y.
  destruct (sma_step n _ _ (sma_def (S n) (hcons x h)) H2) as (H2' & E2).
  destruct (sma_next (tr_sma2 s) _) as [b z]. cbn [fst snd] in *. subst z.
  assert (P : forall i, hcons (sma_def (S n) (hcons x h)) (fun j => sma_def (S n) (hshift j h)) i
                        = sma_def (S n) (hshift i (hcons x h))) by (intros [|i]; reflexivity).
  split; [split; [exact H1'|eapply sma_inv_ext; [exact P|exact H2']]|].
  unfold trima_def. apply sma_def_ext. exact P.
Qed.

Lemma trima_init n v : 1 <= n <= pmax - 1 ->
  exists s0, trima_new n v = Ok s0 /\ trima_inv (Z.to_nat n) s0 (hconst v).
Proof.
  intros Hn. unfold trima_new. destruct (sma_init n v Hn) as (s0 & Hnew & Hi).
  rewrite Hnew. cbn [obind]. eexists; split; [reflexivity|]. split; [exact Hi|].
  cbn [tr_sma2]. eapply sma_inv_ext; [|exact Hi]. intros i. unfold hconst.
  destruct Hi as (_ & _ & Hv). cbn [sma_value] in Hv.
  assert (E : sma_value s0 = v). { unfold sma_new in Hnew. rewrite bad_len_false in Hnew by lia. injection Hnew as <-. reflexivity. }
  rewrite <- E at 1. rewrite Hv. apply sma_def_ext. intros j. reflexivity.
Qed.

Theorem trima_correct n v xs x : 1 <= n <= pmax - 1 ->
  exists s0, trima_new n v = Ok s0 /\
    snd (trima_next (steps trima_next s0 xs) x) = trima_def (Z.to_nat n) (hget v (rev (xs ++ [x]))).
Proof. intros Hn. by_inv (trima_init n v Hn) trima_step. Qed.
End Proofs.
