(** C08 continued: more indicators on a constant candle stream, through their value theorems: Bollinger bands collapse onto the
    price, the Donchian channel is [low; (high+low)/2; high], ChandeMomentumOscillator is 0 - for ever, in exact arithmetic. *)
From Yata Require Import Base.Prelude Base.Num Base.NumR Core.Window Core.Candle Core.Action Core.Strings
  Spec.Hist Spec.MethodDefs Spec.IndicatorDefs Methods.Basic Methods.Select Indicators.Common Indicators.Set1 Indicators.Set2 Indicators.Set3
  Proofs.MethodsCommon Proofs.Prehistory Proofs.Selection Proofs.Selection2 Proofs.MAProofs Proofs.IndicatorProofs2 Proofs.IndicatorProofs3
  Proofs.IndicatorProofs6 Proofs.IndicatorProofs11 Proofs.Constant.
From Coq Require Import Reals Lra Lia.
Open Scope R_scope.

Section Constant2.
Context {pw : PW}.
Local Notation R := (@F NumR).
Local Notation C := (candle (N := NumR)).

Lemma hget_repeat_const {A} (x : A) k : forall i, hget x (repeat x k) i = hconst x i.
Proof. intros i. rewrite hget_repeat. reflexivity. Qed.

Lemma sma_def_const n (v : R) : (1 <= n)%nat -> sma_def n (hconst v) = v.
Proof.
  intros Hn. unfold sma_def, hsum, hconst. rewrite (gsum_const n v). unfold fofN. numR. rewrite <- INR_IZR_INZ.
  field. apply not_0_INR. lia.
Qed.
Lemma var_def_const n (v : R) : (1 <= n)%nat -> var_def n (hconst v) = 0.
Proof.
  intros Hn. unfold var_def. cbv zeta. rewrite (sma_def_const n v Hn).
  rewrite (gsum_ext n _ (fun _ => 0)) by (intros i _; unfold hconst; numR; ring). rewrite gsum_const. numR. unfold Rdiv. ring.
Qed.
Lemma stdev_def_const n (v : R) : (1 <= n)%nat -> stdev_def n (hconst v) = 0.
Proof. intros Hn. unfold stdev_def. rewrite (var_def_const n v Hn). numR. apply sqrt_0. Qed.

Theorem bollinger_constant (cfg : boll_cfg (N := NumR)) (c0 : C) k : boll_validate cfg = true ->
  exists s0, boll_init cfg c0 = Ok s0 /\
    fst (snd (boll_next (steps boll_next s0 (repeat c0 k)) c0)) =
    let v := c_source c0 (bc_source cfg) in [v; v; v].
Proof.
  intros Hv. destruct (bollinger_values_correct cfg c0 (repeat c0 k) c0 Hv) as (s0 & E & H). exists s0. split; [exact E|]. rewrite H.
  assert (Hn : (3 <= bc_avg cfg)%Z).
  { unfold boll_validate in Hv. repeat (apply andb_prop in Hv; destruct Hv as (Hv & ?)).
    repeat match goal with H : (_ <? _)%Z = true |- _ => apply Z.ltb_lt in H end. lia. }
  unfold boll_values. cbv zeta. replace (rev (repeat c0 k ++ [c0])) with (repeat c0 (S k)) by (rewrite rev_unit, rev_repeat; reflexivity).
  rewrite srcs_repeat. set (v := c_source c0 (bc_source cfg)).
  rewrite (sma_ext _ _ (hconst v) (hget_repeat_const v (S k))), (stdev_ext _ _ (hconst v) (hget_repeat_const v (S k))).
  rewrite sma_def_const, stdev_def_const by lia. numR. f_equal; [ring|]. f_equal. f_equal. ring.
Qed.

Theorem cmo_constant period zone src (c0 : C) k : cmo_validate period zone = true ->
  exists s0, cmo_init period zone src c0 = Ok s0 /\ fst (snd (cmo_next (steps cmo_next s0 (repeat c0 k)) c0)) = [0].
Proof.
  intros Hv. destruct (cmo_values_correct period zone src c0 (repeat c0 k) c0 Hv) as (s0 & E & H). exists s0. split; [exact E|]. rewrite H.
  unfold cmo_values. cbv zeta. replace (rev (repeat c0 k ++ [c0])) with (repeat c0 (S k)) by (rewrite rev_unit, rev_repeat; reflexivity).
  rewrite srcs_repeat, diffs_repeat.
  assert (Hz : forall i, hget (f0 (N := NumR)) (repeat 0 (S k)) i = 0) by (intros i; change (f0 (N := NumR)) with (0 : R); apply hget_repeat).
  assert (Z1 : forall n (g : nat -> R), (forall i, g i = 0) -> gsum n g = 0).
  { intros n g Hg. rewrite (gsum_ext n g (fun _ => 0)) by (intros i _; apply Hg). rewrite gsum_const. numR. apply Rmult_0_r. }
  rewrite !Z1.
  - numR. destruct (Reqb_spec 0 0) as [_|N]; [reflexivity|congruence].
  - intros i. rewrite Hz. unfold fnegp. numR. destruct (Rltb 0 0); try reflexivity; apply Ropp_0.
  - intros i. rewrite Hz. unfold fpos. numR. destruct (Rltb 0 0); reflexivity.
Qed.

Lemma hmax_repeat n (v : R) k : hmax n (hget v (repeat v k)) = v.
Proof.
  unfold hmax. rewrite (map_ext _ (hconst v)) by (intros i; apply hget_repeat). rewrite hget_repeat. numR. apply fold_max_const.
Qed.
Lemma hmin_repeat n (v : R) k : hmin n (hget v (repeat v k)) = v.
Proof.
  unfold hmin. rewrite (map_ext _ (hconst v)) by (intros i; apply hget_repeat). rewrite hget_repeat. numR. apply fold_min_const.
Qed.

Theorem donchian_constant n (c0 : C) k : (2 <= n <= pmax - 1)%Z ->
  exists s0, donch_init n c0 = Ok s0 /\
    fst (snd (donch_next (steps donch_next s0 (repeat c0 k)) c0)) = [c_low c0; (c_high c0 + c_low c0) * / 2; c_high c0].
Proof.
  intros Hn. destruct (donchian_values_correct n c0 (repeat c0 k) c0 Hn) as (s0 & E & H). exists s0. split; [exact E|]. rewrite H.
  unfold donch_values. cbv zeta. replace (rev (repeat c0 k ++ [c0])) with (repeat c0 (S k)) by (rewrite rev_unit, rev_repeat; reflexivity).
  rewrite !map_repeat, hmax_repeat, hmin_repeat. unfold flit. numR. f_equal. f_equal. unfold Rdiv. rewrite Rmult_1_l. reflexivity.
Qed.

Theorem aroon_constant n zone ozp (c0 : C) k : aroon_validate n zone ozp = true ->
  exists s0, aroon_init n zone ozp c0 = Ok s0 /\ fst (snd (aroon_next (steps aroon_next s0 (repeat c0 k)) c0)) = [1; 1].
Proof.
  intros Hv. destruct (aroon_values_correct n zone ozp c0 (repeat c0 k) c0 Hv) as (s0 & E & H). exists s0. split; [exact E|]. rewrite H.
  assert (Hn : (2 <= n)%Z).
  { unfold aroon_validate in Hv. repeat (apply andb_prop in Hv; destruct Hv as (Hv & ?)).
    repeat match goal with H : (_ <? _)%Z = true |- _ => apply Z.ltb_lt in H end. lia. }
  unfold aroon_values, highest_age, lowest_age. cbv zeta.
  replace (rev (repeat c0 k ++ [c0])) with (repeat c0 (S k)) by (rewrite rev_unit, rev_repeat; reflexivity). rewrite !map_repeat.
  rewrite (argbest_ext fgt _ (hconst (c_high c0))) by (intros i; apply hget_repeat).
  rewrite (argbest_ext flt _ (hconst (c_low c0))) by (intros i; apply hget_repeat).
  rewrite (argbest_const fgt (fun a b => a > b)), (argbest_const flt (fun a b => a < b)).
  - cbn [Z.of_nat]. rewrite Z.sub_0_r. numR. assert (IZR n <> 0) by (apply not_0_IZR; lia). f_equal; [|f_equal]; field; assumption.
  - intros a b. unfold flt. numR. destruct (Rltb_spec a b); split; intros; try lra; try discriminate; reflexivity.
  - intros a. lra.
  - intros a b. unfold fgt. numR. destruct (Rltb_spec b a); split; intros; try lra; try discriminate; reflexivity.
  - intros a. lra.
Qed.
End Constant2.
