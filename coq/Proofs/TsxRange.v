(** C12: TrendStrengthIndex is a correlation coefficient (of the window with the ramp n, n-1, .., 1), hence in [-1, 1]. *)
From Yata Require Import Base.Prelude Base.Num Base.NumR Core.Window Core.Candle Spec.Hist Spec.MethodDefs Methods.Basic
  Proofs.MethodsCommon Proofs.Windowed2 Proofs.Correlation Proofs.IndicatorProofs15.
From Coq Require Import Reals Lra Lia Psatz ZArith.
Open Scope R_scope.

Local Notation gs := (gsum (N := NumR)).

Lemma sum_weights n : gs n (fun i => INR (n - i)) = INR n * (INR n + 1) / 2.
Proof.
  induction n as [|n IH]; [rewrite gsum_0; simpl; lra|].
  rewrite gsum_S_shift. rewrite (gsum_ext n _ (fun i => INR (n - i))) by (intros; reflexivity).
  rewrite IH. replace (S n - 0)%nat with (S n) by lia. rewrite S_INR. rsimp. field.
Qed.

Lemma sum_weights_sq n : gs n (fun i => INR (n - i) * INR (n - i)) = INR n * (INR n + 1) * (2 * INR n + 1) / 6.
Proof.
  induction n as [|n IH]; [rewrite gsum_0; simpl; lra|].
  rewrite gsum_S_shift. rewrite (gsum_ext n _ (fun i => INR (n - i) * INR (n - i))) by (intros; reflexivity).
  rewrite IH. replace (S n - 0)%nat with (S n) by lia. rewrite S_INR. rsimp. field.
Qed.

Lemma IZR_tri n : IZR (Z.of_nat n * (Z.of_nat n + 1) / 2) = INR n * (INR n + 1) / 2.
Proof. rewrite <- wma_weights_sum. apply sum_weights. Qed.

Section TR.
Context {pw : PW}.
Theorem tsx_range period (h : nat -> @F NumR) : (1 <= period)%Z -> -1 <= tsx_def period h <= 1.
Proof.
  intros Hp. unfold tsx_def. cbv zeta. set (n := Z.to_nat period).
  assert (En : period = Z.of_nat n) by (unfold n; lia). assert (Hn : (0 < n)%nat) by lia.
  assert (EN : IZR period = INR n) by (rewrite En, <- INR_IZR_INZ; reflexivity).
  assert (HN : INR n <> 0) by (apply not_0_INR; lia). assert (HN1 : 1 <= INR n) by (change 1 with (INR 1); apply le_INR; lia).
  set (w := fun i => INR (n - i)).
  destruct (covariance_bound n w h Hn) as (HPQ & HK & HQ). cbv zeta in HPQ, HK, HQ.
  assert (ET : IZR (tsx_sx period) = INR n * (INR n + 1) / 2).
  { unfold tsx_sx. rewrite En, Z.mul_comm. apply IZR_tri. }
  assert (Sw : gs n w = INR n * (INR n + 1) / 2) by apply sum_weights.
  assert (Sww : gs n (fun i => w i * w i) = INR n * (INR n + 1) * (2 * INR n + 1) / 6) by apply sum_weights_sq.
  set (P := gs n (fun i => w i * h i) - gs n w * gs n h / INR n) in *.
  set (K := gs n (fun i => w i * w i) - gs n w * gs n w / INR n) in *.
  set (Q := gs n (fun i => h i * h i) - gs n h * gs n h / INR n) in *.
  assert (Ep : fmul (fsub (wma_def n h) (fmul (frecip (fofZ period)) (gs n h))) (fofZ (tsx_sx period)) = P).
  { unfold wma_def, hwsum, frecip. rsimp. rewrite IZR_tri, ET, EN. unfold P. rewrite Sw.
    rewrite (gsum_ext n (fun i => fofN (N := NumR) (n - i) * h i) (fun i => w i * h i)) by (intros; rewrite fofN_INR; reflexivity).
    field. split; [exact HN|lra]. }
  assert (Eq : fmul (tsx_k period) (ffma (fmul (frecip (fofZ period)) (gs n h)) (fneg (gs n h)) (gs n (fun i => fmul (h i) (h i)))) = K * Q).
  { unfold tsx_k, frecip. rsimp. repeat (rewrite ?mult_IZR, ?plus_IZR). rewrite ET, EN. unfold K, Q. rewrite Sww, Sw. field. exact HN. }
  rewrite Ep, Eq. apply corr_quotient_range. exact HPQ.
Qed.
End TR.
