(** C05 continued: AverageDirectionalIndex.  The directional averages advance only on bars whose averaged true range
    is not zero, so the definition is a recursion over the history that collects the series each average has been fed. *)
From Yata Require Import Base.Prelude Base.Num Base.NumR Core.Window Core.WindowSpec Core.Candle Core.Action Core.Strings
  Spec.Hist Spec.MethodDefs Spec.IndicatorDefs Methods.Basic Methods.Select Indicators.Common Indicators.Set4
  Proofs.MethodsCommon Proofs.Windowed Proofs.MAProofs Proofs.Cascade Proofs.IndicatorProofs Proofs.IndicatorProofs3 Proofs.IndicatorProofs11.
From Coq Require Import Reals Lra.
Open Scope Z_scope.

Section IP16.
Context {pw : PW}.
Local Notation R := (@F NumR).
Local Notation C := (candle (N := NumR)).
Ltac dlet := repeat match goal with |- context [let '(_, _) := ?e in _] => destruct e end.

Section Defs.
Variables (cfg : adx_cfg (N := NumR)) (c0 : C).
(** what the instance remembers, as plain series (newest first): the close the true range refers to, and the inputs given
    so far to the averages of the true range, of +DM, of -DM and of DX *)
Record adx_hist := mkAH { ah_pc : R; ah_trs : list R; ah_ps : list R; ah_ms : list R; ah_dxs : list R }.
Definition adx_h0 : adx_hist := mkAH (c_close c0) [] [] [] [].
Definition adx_atr (trs : list R) : R := ma_def (ac_m1 cfg) (c_tr c0 c0) trs.
(** one bar: [prev] is the candle period1 bars before [k] *)
Definition adx_hstep (k prev : C) (H : adx_hist) : adx_hist * list R :=
  let trs := c_tr_close k (ah_pc H) :: ah_trs H in
  let atr := adx_atr trs in
  let '(pc, ps, ms, plus, minus) :=
    if feq atr f0 then (ah_pc H, ah_ps H, ah_ms H, f0, f0)
    else
      let du := fsub (c_high k) (c_high prev) in
      let dd := fsub (c_low prev) (c_low k) in
      let ps := fmul du (fofb (fgt du dd && fgt du f0)) :: ah_ps H in
      let ms := fmul dd (fofb (fgt dd du && fgt dd f0)) :: ah_ms H in
      (c_close k, ps, ms, fdiv (ma_def (ac_m1 cfg) f0 ps) atr, fdiv (ma_def (ac_m1 cfg) f0 ms) atr) in
  let sm := fadd plus minus in
  let dxs := (if feq sm f0 then f0 else fdiv (fabs (fsub plus minus)) sm) :: ah_dxs H in
  (mkAH pc trs ps ms dxs, [ma_def (ac_m2 cfg) f0 dxs; plus; minus]).
Definition adx_prev (t : list C) : C := hget c0 t (Z.to_nat (ac_period1 cfg) - 1)%nat.
Fixpoint adx_hist_of (l : list C) : adx_hist :=
  match l with [] => adx_h0 | k :: t => fst (adx_hstep k (adx_prev t) (adx_hist_of t)) end.
Definition adx_values (l : list C) : list R :=
  match l with [] => [] | k :: t => snd (adx_hstep k (adx_prev t) (adx_hist_of t)) end.
End Defs.

Theorem adx_values_correct (cfg : adx_cfg (N := NumR)) (c0 : C) cs c : adx_validate cfg = true ->
  ma_len_ok (ac_m1 cfg) -> ma_len_ok (ac_m2 cfg) ->
  exists s0, adx_init cfg c0 = Ok s0 /\
    fst (snd (adx_next (steps adx_next s0 cs) c)) = adx_values cfg c0 (rev (cs ++ [c])).
Proof.
  intros Hv L1 L2. unfold adx_init. rewrite Hv. cbn [negb]. unfold adx_validate in Hv.
  repeat (apply andb_prop in Hv; destruct Hv as (Hv & ?)).
  repeat match goal with H : (_ <? _) = true |- _ => apply Z.ltb_lt in H | H : (_ <=? _) = true |- _ => apply Z.leb_le in H end.
  destruct (ma_correct (ac_m1 cfg) (c_tr c0 c0) [] (c_tr c0 c0) (ma_proved_all _) L1) as (t0 & Et & _).
  destruct (ma_correct (ac_m1 cfg) (f0 (N := NumR)) [] (f0 (N := NumR)) (ma_proved_all _) L1) as (p0 & Ep & _).
  destruct (ma_correct (ac_m2 cfg) (f0 (N := NumR)) [] (f0 (N := NumR)) (ma_proved_all _) L2) as (a0 & Ea & _).
  rewrite Et, Ep, Ea. cbn [obind]. eexists; split; [reflexivity|].
  pose proof (ma_correct' _ _ _ (ma_proved_all _) L1 Et) as Ct. pose proof (ma_correct' _ _ _ (ma_proved_all _) L1 Ep) as Cp.
  pose proof (ma_correct' _ _ _ (ma_proved_all _) L2 Ea) as Ca.
  set (n := ac_period1 cfg) in *. destruct (nat_len n ltac:(lia)) as (m & Em).
  set (s0 := mkAdx cfg _ _ t0 p0 p0 a0).
  set (Inv := fun (st : adx_st (N := NumR)) (l : list C) => let H := adx_hist_of cfg c0 l in
     ax_cfg st = cfg /\ WinOK (S m) (ax_window st) (hget c0 l) /\ ax_prev_close st = ah_pc H /\
     ax_tr st = steps ma_next t0 (rev (ah_trs H)) /\ ax_plus st = steps ma_next p0 (rev (ah_ps H)) /\
     ax_minus st = steps ma_next p0 (rev (ah_ms H)) /\ ax_ma2 st = steps ma_next a0 (rev (ah_dxs H))).
  assert (Step : forall st l k, Inv st l -> Inv (fst (adx_next st k)) (k :: l) /\ fst (snd (adx_next st k)) = adx_values cfg c0 (k :: l)).
  { intros st l k (I1 & Iw & Ipc & It & Ip & Im & Ia).
    destruct (winok_push m _ _ k Iw) as (w' & Hpush & Hw').
    unfold Inv. cbn [adx_hist_of adx_values]. unfold adx_prev. fold n. rewrite Em. replace (S m - 1)%nat with m by lia.
    set (HH := adx_hist_of cfg c0 l) in *. unfold adx_hstep, adx_atr. unfold adx_next. rewrite Hpush, I1, Ipc, It, Ip, Im, Ia.
    pose proof (Ct (rev (ah_trs HH)) (c_tr_close k (ah_pc HH))) as Et'. rewrite rev_unit, rev_involutive in Et'.
    destruct (ma_next (steps ma_next t0 (rev (ah_trs HH))) _) as (t', atr) eqn:En. cbn [snd] in Et'. subst atr.
    assert (Est : t' = steps ma_next t0 (rev (c_tr_close k (ah_pc HH) :: ah_trs HH))) by (cbn [rev]; rewrite steps_snoc, En; reflexivity).
    set (atr := ma_def (ac_m1 cfg) (c_tr c0 c0) (c_tr_close k (ah_pc HH) :: ah_trs HH)) in *.
    assert (Dx : forall x, snd (ma_next (steps ma_next a0 (rev (ah_dxs HH))) x) = ma_def (ac_m2 cfg) f0 (x :: ah_dxs HH) /\
                         fst (ma_next (steps ma_next a0 (rev (ah_dxs HH))) x) = steps ma_next a0 (rev (x :: ah_dxs HH))).
    { intros x. split; [rewrite Ca, rev_unit, rev_involutive; reflexivity|cbn [rev]; rewrite steps_snoc; reflexivity]. }
    destruct (feq atr f0).
    - cbv zeta. destruct (feq (fadd f0 f0) f0).
      + destruct (Dx (f0 (N := NumR))) as (D1 & D2). destruct (ma_next (steps ma_next a0 _) _) as (a', adx). cbn [fst snd] in *. subst.
        (split; [split; [reflexivity|split; [exact Hw'|repeat split; reflexivity]]|reflexivity]).
      + destruct (Dx (fdiv (fabs (fsub (f0 (N := NumR)) f0)) (fadd f0 f0))) as (D1 & D2). destruct (ma_next (steps ma_next a0 _) _) as (a', adx). cbn [fst snd] in *. subst.
        (split; [split; [reflexivity|split; [exact Hw'|repeat split; reflexivity]]|reflexivity]).
    - set (du := fsub (c_high k) (c_high (hget c0 l m))). set (dd := fsub (c_low (hget c0 l m)) (c_low k)).
      set (pdm := fmul du _). set (mdm := fmul dd _).
      pose proof (Cp (rev (ah_ps HH)) pdm) as Ep'. rewrite rev_unit, rev_involutive in Ep'.
      pose proof (Cp (rev (ah_ms HH)) mdm) as Em'. rewrite rev_unit, rev_involutive in Em'.
      destruct (ma_next (steps ma_next p0 (rev (ah_ps HH))) pdm) as (p', pv) eqn:Enp. destruct (ma_next (steps ma_next p0 (rev (ah_ms HH))) mdm) as (m', mv) eqn:Enm.
      cbn [snd] in Ep', Em'. subst pv mv. cbv zeta.
      assert (Esp : p' = steps ma_next p0 (rev (pdm :: ah_ps HH))) by (cbn [rev]; rewrite steps_snoc, Enp; reflexivity).
      assert (Esm : m' = steps ma_next p0 (rev (mdm :: ah_ms HH))) by (cbn [rev]; rewrite steps_snoc, Enm; reflexivity).
      set (plus := fdiv (ma_def (ac_m1 cfg) f0 (pdm :: ah_ps HH)) atr). set (minus := fdiv (ma_def (ac_m1 cfg) f0 (mdm :: ah_ms HH)) atr).
      destruct (feq (fadd plus minus) f0).
      + destruct (Dx (f0 (N := NumR))) as (D1 & D2). destruct (ma_next (steps ma_next a0 _) _) as (a', adx). cbn [fst snd] in *. subst.
        (split; [split; [reflexivity|split; [exact Hw'|repeat split; reflexivity]]|reflexivity]).
      + destruct (Dx (fdiv (fabs (fsub plus minus)) (fadd plus minus))) as (D1 & D2). destruct (ma_next (steps ma_next a0 _) _) as (a', adx). cbn [fst snd] in *. subst.
        (split; [split; [reflexivity|split; [exact Hw'|repeat split; reflexivity]]|reflexivity]). }
  assert (I0 : Inv s0 []).
  { unfold Inv. cbv zeta. split; [reflexivity|]. split; [|repeat split; reflexivity].
    rewrite <- Em. apply (winok_ext _ _ (hconst c0)); [intros i; destruct i; reflexivity|]. apply winok_new. lia. }
  assert (I : forall p, Inv (steps adx_next s0 p) (rev p)).
  { induction p as [|a r IH] using rev_ind; [exact I0|]. rewrite steps_snoc, rev_unit. apply Step. exact IH. }
  rewrite rev_unit. apply Step. apply I.
Qed.
End IP16.
