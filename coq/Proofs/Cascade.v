(** Generic lemmas for indicators that embed method instances: the embedded instance after any stream is the
    method run on the series of inputs the indicator fed to it, and that series is a from-scratch function of
    the candle history.  With the end-to-end method theorems ([ma_correct] etc.) this gives value theorems for
    cascaded indicators (MACD's signal line is an average of the series of differences of two averages). *)
From Yata Require Import Base.Prelude Base.Num Base.NumR Core.Window Core.Candle Core.Action
  Spec.Hist Spec.MethodDefs Spec.IndicatorDefs Methods.Basic Indicators.Common Proofs.MethodsCommon.
Open Scope nat_scope.

Section Cascade.
Context {S C O M I O' : Type}.
Variable next : S -> C -> S * O.
Variable mnext : M -> I -> M * O'.
Variable proj : S -> M.
Variable inp : S -> C -> I.
Hypothesis Hproj : forall s k, proj (fst (next s k)) = fst (mnext (proj s) (inp s k)).

Fixpoint inputs (s : S) (cs : list C) : list I :=
  match cs with [] => [] | c :: r => inp s c :: inputs (fst (next s c)) r end.

Lemma proj_steps cs : forall s, proj (steps next s cs) = steps mnext (proj s) (inputs s cs).
Proof.
  induction cs as [|c r IH]; intros s; [reflexivity|].
  unfold steps in *. cbn [fold_left inputs]. rewrite IH, Hproj. reflexivity.
Qed.
Lemma inputs_snoc cs : forall s c, inputs s (cs ++ [c]) = inputs s cs ++ [inp (steps next s cs) c].
Proof.
  induction cs as [|k r IH]; intros s c; [reflexivity|].
  cbn [app inputs]. rewrite IH. reflexivity.
Qed.

(** if the input fed at every step is a function [D] of the candles so far (newest first) ... *)
Variable D : list C -> I.
Variable s0 : S.
Hypothesis HD : forall p c, inp (steps next s0 p) c = D (rev (p ++ [c])).
(** ... then the inputs fed so far, newest first, are [D] of every suffix of the history *)
Lemma inputs_series cs : rev (inputs s0 cs) = map D (suffixes (rev cs)).
Proof.
  induction cs as [|c r IH] using rev_ind; [reflexivity|].
  rewrite inputs_snoc, rev_unit, IH, HD, rev_unit. reflexivity.
Qed.
Lemma inputs_series_next cs c : rev (inputs s0 cs ++ [inp (steps next s0 cs) c]) = map D (suffixes (rev (cs ++ [c]))).
Proof. rewrite <- inputs_snoc. apply inputs_series. Qed.
End Cascade.

(** fields that [next] never changes *)
Lemma steps_field {S C O A} (next : S -> C -> S * O) (fld : S -> A) :
  (forall s k, fld (fst (next s k)) = fld s) -> forall cs s, fld (steps next s cs) = fld s.
Proof.
  intros H cs. induction cs as [|c r IH]; intros s; [reflexivity|].
  unfold steps in *. cbn [fold_left]. rewrite IH. apply H.
Qed.
(** a component fed a fixed function of the current candle *)
Lemma proj_steps_map {S C O M I O'} (next : S -> C -> S * O) (mnext : M -> I -> M * O') (proj : S -> M) (f : C -> I) :
  (forall s k, proj (fst (next s k)) = fst (mnext (proj s) (f k))) ->
  forall cs s, proj (steps next s cs) = steps mnext (proj s) (map f cs).
Proof.
  intros H cs. induction cs as [|c r IH]; intros s; [reflexivity|].
  unfold steps in *. cbn [fold_left map]. rewrite IH, H. reflexivity.
Qed.
