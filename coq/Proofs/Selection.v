(** C04: Highest / Lowest return exactly the maximum / minimum of the last n
    inputs (exact carrier NumR: bit equality is equality; the signed-zero
    cases are covered by the exhaustive tie-alphabet correspondence). *)
From Yata Require Import Base.Prelude Base.Num Base.NumR Core.Window Core.WindowSpec Core.Candle Core.Action
  Spec.Hist Spec.MethodDefs Methods.Basic Methods.Select Proofs.MethodsCommon.
From Coq Require Import Reals Lra.
Open Scope Z_scope.

Section Defs.
Context {N : Num}.
(** from-scratch extremum of the last n inputs (n >= 1), scanned newest first *)
Definition highest_def (n : nat) (h : nat -> F) : F := fold_left fmax (map h (seq 0 n)) (h O).
Definition lowest_def (n : nat) (h : nat -> F) : F := fold_left fmin (map h (seq 0 n)) (h O).
Definition hld_def (n : nat) (h : nat -> F) : F := fsub (highest_def n h) (lowest_def n h).
End Defs.

Open Scope R_scope.
(** [m] is the maximum of x :: l  iff  it bounds them and is one of them *)
Lemma lmax_ge (l : list R) x : x <= fold_left Rmax l x /\ forall y, In y l -> y <= fold_left Rmax l x.
Proof.
  revert x; induction l as [|a l IH]; intros x; simpl; [split; [lra|tauto]|].
  destruct (IH (Rmax x a)) as (H1 & H2). pose proof (Rmax_l x a). pose proof (Rmax_r x a).
  split; [lra|]. intros y [->|Hy]; [lra|auto].
Qed.
Lemma lmax_in (l : list R) x : fold_left Rmax l x = x \/ In (fold_left Rmax l x) l.
Proof.
  revert x; induction l as [|a l IH]; intros x; simpl; [auto|].
  destruct (IH (Rmax x a)) as [H|H]; [|auto].
  rewrite H. unfold Rmax. destruct (Rle_dec x a); auto.
Qed.
Lemma lmax_char (l : list R) x m :
  x <= m -> (forall y, In y l -> y <= m) -> (m = x \/ In m l) -> fold_left Rmax l x = m.
Proof.
  intros Hx Hl Hin. destruct (lmax_ge l x) as (G1 & G2).
  apply Rle_antisym.
  - destruct (lmax_in l x) as [->|Hi]; auto.
  - destruct Hin as [->|Hi]; auto.
Qed.
Lemma lmin_as_max (l : list R) x : fold_left Rmin l x = - fold_left Rmax (map Ropp l) (- x).
Proof.
  revert x; induction l as [|a l IH]; intros x; simpl; [lra|].
  rewrite IH. f_equal. f_equal. unfold Rmin, Rmax.
  destruct (Rle_dec x a), (Rle_dec (- x) (- a)); lra.
Qed.

Section Proofs.
Context {pw : PW}.
Local Notation "'R'" := (@F NumR) (only parsing).
Open Scope Z_scope.

Definition highest_inv (n : nat) (s : hl (N := NumR)) (h : nat -> R) : Prop :=
  WinOK n (hl_window s) h /\ hl_value s = highest_def n h.

Lemma in_hist n (h : nat -> R) y : In y (map h (seq 0 n)) <-> exists i, (i < n)%nat /\ h i = y.
Proof. rewrite in_map_iff. split; intros (i & H1 & H2).
  - apply in_seq in H2. exists i. split; [lia|auto].
  - exists i. split; [auto|]. apply in_seq. lia. Qed.

Lemma highest_step_ok n s h x : highest_inv (S n) s h ->
  highest_inv (S n) (fst (highest_step s x)) (hcons x h) /\
  snd (highest_step s x) = highest_def (S n) (hcons x h).
Proof.
  intros (Hw & Hv). destruct (winok_push n _ h x Hw) as (w' & Hp & Hw').
  unfold highest_step. rewrite Hp. cbv zeta. cbn [fst snd].
  rewrite (winok_items _ _ _ Hw').
  assert (E : (if fge x (hl_value s) then x
               else if fbits_eq (h n) (hl_value s)
                    then fold_left fmax (map (hcons x h) (seq 0 (S n))) x else hl_value s)
              = highest_def (S n) (hcons x h)).
  { unfold highest_def at 1. cbn [hcons]. rewrite Hv. unfold highest_def.
    destruct (lmax_ge (map h (seq 0 (S n))) (h O)) as (G1 & G2).
    set (m := fold_left fmax (map h (seq 0 (S n))) (h O)) in *.
    assert (Hall : forall i, (i < S n)%nat -> (h i <= m)%R).
    { intros i Hi. apply G2. apply in_hist. exists i. split; auto. }
    rsimp. destruct (Rleb_spec m x) as [Hge|Hlt].
    - (* the new value is a (weak) maximum *)
      symmetry. apply lmax_char; [lra| |left; reflexivity].
      intros y Hy. apply in_hist in Hy. destruct Hy as (i & Hi & <-).
      destruct i as [|i]; cbn [hcons]; [lra|]. specialize (Hall i ltac:(lia)). lra.
    - destruct (Reqb_spec (h n) m) as [Heq|Hne]; [reflexivity|].
      (* the cached maximum is still inside the window *)
      symmetry. apply lmax_char; [lra| |].
      + intros y Hy. apply in_hist in Hy. destruct Hy as (i & Hi & <-).
        destruct i as [|i]; cbn [hcons]; [lra|]. apply Hall. lia.
      + right. assert (Hm : m = h O \/ In m (map h (seq 0 (S n)))) by apply lmax_in.
        assert (Hex : exists i, (i < S n)%nat /\ h i = m).
        { destruct Hm as [Hm|Hm]; [exists O; split; [lia|auto]|apply in_hist in Hm; exact Hm]. }
        destruct Hex as (i & Hi & Hm').
        assert (i <> n) by (intros ->; auto).
        apply in_hist. exists (S i). split; [lia|]. exact Hm'. }
  split; [split; [exact Hw'|exact E]|exact E].
Qed.

Lemma fold_max_const n (v : R) : fold_left Rmax (map (hconst v) (seq 0 n)) v = v.
Proof. apply lmax_char; [lra| |left; reflexivity]. intros y Hy. apply in_hist in Hy.
  destruct Hy as (i & _ & <-). unfold hconst. lra. Qed.

Lemma highest_init n v : 1 <= n <= pmax - 1 ->
  exists s0, hl_new n v = Ok s0 /\ highest_inv (Z.to_nat n) s0 (hconst v).
Proof.
  intros Hn. unfold hl_new. cbn [fis_finite NumR negb]. rewrite bad_len_false by lia.
  eexists; split; [reflexivity|]. split; [apply winok_new; lia|].
  cbn [hl_value]. unfold highest_def. rsimp. symmetry. apply fold_max_const.
Qed.

Theorem highest_correct n v xs x : 1 <= n <= pmax - 1 ->
  exists s0, hl_new n v = Ok s0 /\
    snd (highest_step (steps highest_step s0 xs) x) = highest_def (Z.to_nat n) (hget v (rev (xs ++ [x]))).
Proof. intros Hn. by_inv (highest_init n v Hn) highest_step_ok. Qed.

(** the maximum really is one: it bounds the last n inputs and is one of them *)
Theorem highest_def_is_max n (h : nat -> R) : (0 < n)%nat ->
  (forall i, (i < n)%nat -> (h i <= highest_def n h)%R) /\ exists i, (i < n)%nat /\ h i = highest_def n h.
Proof.
  intros Hn. unfold highest_def. rsimp.
  destruct (lmax_ge (map h (seq 0 n)) (h O)) as (G1 & G2). split.
  - intros i Hi. apply G2. apply in_hist. eauto.
  - destruct (lmax_in (map h (seq 0 n)) (h O)) as [E|E].
    + exists O. split; [lia|]. symmetry. exact E.
    + apply in_hist in E. exact E.
Qed.
End Proofs.
