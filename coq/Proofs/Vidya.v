(** C03: Vidya follows its documented recurrence in exact arithmetic (EMA whose factor is scaled by the absolute
    Chande momentum of the last n one-step changes; the input itself when the window has not moved). *)
From Yata Require Import Base.Prelude Base.Num Base.NumR Core.Window Core.WindowSpec Core.Candle
  Spec.Hist Spec.MethodDefs Methods.Basic Proofs.MethodsCommon Proofs.Recursive.
From Coq Require Import Reals Lra.
Open Scope Z_scope.

Section Vidya.
Context {pw : PW}.
Local Notation "'R'" := (@F NumR) (only parsing).
Local Notation gs := (gsum (N := NumR)).

Definition vch (x0 : R) (rh : list R) : nat -> R := hget f0 (diffs x0 rh).
Definition vidya_inv (n : nat) (x0 : R) (s : vidya (N := NumR)) (rh : list R) : Prop :=
  vd_f s = MethodDefs.ema_alpha (Z.of_nat n) /\ WinOK n (vd_window s) (vch x0 rh) /\
  vd_up s = gs n (fun i => fpos (vch x0 rh i)) /\ vd_dn s = gs n (fun i => fnegp (vch x0 rh i)) /\
  vd_last_in s = hget x0 rh 0%nat /\ vd_last_out s = vidya_rec n x0 rh.

Lemma fpos_mul (d : R) : fmul d (fofb (fgt d f0)) = fpos d.
Proof. unfold fpos, fofb, fgt. rsimp. destruct (Rltb_spec 0 d); rsimp; ring. Qed.
Lemma fnegp_mul (d : R) : fneg (fmul d (fofb (flt d f0))) = fnegp d.
Proof. unfold fnegp, fofb. rsimp. destruct (Rltb_spec d 0); rsimp; ring. Qed.

Lemma vidya_step n x0 s rh x : vidya_inv (S n) x0 s rh ->
  vidya_inv (S n) x0 (fst (vidya_next s x)) (x :: rh) /\ snd (vidya_next s x) = vidya_rec (S n) x0 (x :: rh).
Proof.
  intros (Hf & Hw & Hu & Hd & Hi & Ho). unfold vidya_next. cbv zeta. rewrite Hi.
  set (d := fsub x (hget x0 rh 0%nat)).
  destruct (winok_push n _ _ d Hw) as (w' & Pw & Hw'). rewrite Pw. cbv beta iota.
  assert (Ech : forall i, hcons d (vch x0 rh) i = vch x0 (x :: rh) i) by (intros [|i]; reflexivity).
  assert (Eu : fadd (fsub (vd_up s) (fmul (vch x0 rh n) (fofb (fgt (vch x0 rh n) f0)))) (fmul d (fofb (fgt d f0)))
               = gs (S n) (fun i => fpos (vch x0 (x :: rh) i))).
  { rewrite Hu, !fpos_mul. rewrite (gsum_ext (S n) (fun i => fpos (vch x0 (x :: rh) i)) (fun i => fpos (hcons d (vch x0 rh) i)))
      by (intros; rewrite Ech; reflexivity).
    pose proof (gsum_hcons n d (vch x0 rh) (fun y : R => fpos y)) as G. cbn beta in G. rewrite G. rsimp. lra. }
  assert (Ed : fsub (fadd (vd_dn s) (fmul (vch x0 rh n) (fofb (flt (vch x0 rh n) f0)))) (fmul d (fofb (flt d f0)))
               = gs (S n) (fun i => fnegp (vch x0 (x :: rh) i))).
  { rewrite Hd. rewrite (gsum_ext (S n) (fun i => fnegp (vch x0 (x :: rh) i)) (fun i => fnegp (hcons d (vch x0 rh) i)))
      by (intros; rewrite Ech; reflexivity).
    pose proof (gsum_hcons n d (vch x0 rh) (fun y : R => fnegp y)) as G. cbn beta in G. rewrite G.
    rewrite <- (fnegp_mul d), <- (fnegp_mul (vch x0 rh n)). rsimp. lra. }
  rewrite Eu, Ed. cbn [fst snd].
  assert (Eout : (if fne (gs (S n) (fun i => fpos (vch x0 (x :: rh) i))) f0 || fne (gs (S n) (fun i => fnegp (vch x0 (x :: rh) i))) f0
      then ffma x (fmul (vd_f s) (fabs (fdiv (fsub (gs (S n) (fun i => fpos (vch x0 (x :: rh) i))) (gs (S n) (fun i => fnegp (vch x0 (x :: rh) i))))
                                              (fadd (gs (S n) (fun i => fpos (vch x0 (x :: rh) i))) (gs (S n) (fun i => fnegp (vch x0 (x :: rh) i)))))))
                  (fmul (fsub f1 (fmul (vd_f s) (fabs (fdiv (fsub (gs (S n) (fun i => fpos (vch x0 (x :: rh) i))) (gs (S n) (fun i => fnegp (vch x0 (x :: rh) i))))
                                              (fadd (gs (S n) (fun i => fpos (vch x0 (x :: rh) i))) (gs (S n) (fun i => fnegp (vch x0 (x :: rh) i)))))))) (vd_last_out s))
      else x) = vidya_rec (S n) x0 (x :: rh)).
  { cbn [vidya_rec]. cbv zeta. fold (vch x0 (x :: rh)). rewrite Hf, Ho.
    destruct (fne (gs (S n) (fun i => fpos (vch x0 (x :: rh) i))) f0 || fne (gs (S n) (fun i => fnegp (vch x0 (x :: rh) i))) f0); [|reflexivity].
    rsimp. ring. }
  split; [|exact Eout].
  split; [exact Hf|]. cbn [vd_window vd_up vd_dn vd_last_in vd_last_out].
  split; [eapply winok_ext; [|exact Hw']; exact Ech|]. split; [reflexivity|]. split; [reflexivity|]. split; [reflexivity|exact Eout].
Qed.

Lemma vidya_init n v : 1 <= n <= pmax - 1 ->
  exists s0, vidya_new n v = Ok s0 /\ vidya_inv (Z.to_nat n) v s0 [].
Proof.
  intros Hn. unfold vidya_new. rewrite bad_len_false by lia. eexists; split; [reflexivity|].
  split; [cbn [vd_f]; unfold MethodDefs.ema_alpha; rewrite Z2Nat.id by lia; f_equal; f_equal; lia|].
  cbn [vd_window vd_up vd_dn vd_last_in vd_last_out].
  assert (Z0 : forall i, vch v [] i = f0) by (intros i; reflexivity).
  split; [eapply winok_ext; [|apply (winok_new n (f0 (N := NumR))); lia]; intros i; reflexivity|].
  split; [rewrite (gsum_ext _ _ (fun _ => 0%R)); [rewrite gsum_const; rsimp; ring|]; intros i _; rewrite Z0; unfold fpos; rsimp; destruct (Rltb_spec 0 0); [lra|reflexivity]|].
  split; [rewrite (gsum_ext _ _ (fun _ => 0%R)); [rewrite gsum_const; rsimp; ring|]; intros i _; rewrite Z0; unfold fnegp; rsimp; destruct (Rltb_spec 0 0); [lra|reflexivity]|].
  split; reflexivity.
Qed.

Theorem vidya_correct n v xs x : 1 <= n <= pmax - 1 ->
  exists s0, vidya_new n v = Ok s0 /\
    snd (vidya_next (steps vidya_next s0 xs) x) = vidya_rec (Z.to_nat n) v (rev (xs ++ [x])).
Proof.
  intros Hn. destruct (vidya_init n v Hn) as (s0 & Hnew & Hinv). exists s0. split; [exact Hnew|].
  assert (Hn1 : 1 <= n) by lia. destruct (nat_len n Hn1) as (m & Em). rewrite Em in *.
  eapply (invL_correct _ _ (vidya_rec (S m) v) (vidya_step m v)). exact Hinv.
Qed.
End Vidya.
