(** C02 (continued): HMA (cascade of three WMAs). *)
From Yata Require Import Base.Prelude Base.Num Base.NumR Core.Window Core.WindowSpec Core.Candle
  Spec.Hist Spec.MethodDefs Methods.Basic Proofs.MethodsCommon Proofs.Windowed Proofs.Windowed2.
From Coq Require Import Reals Lra.
Open Scope Z_scope.

Section Proofs.
Context {pw : PW}.
Local Notation "'R'" := (@F NumR) (only parsing).

Lemma wma_def_ext n (h h' : nat -> R) : (forall i, h i = h' i) -> wma_def n h = wma_def n h'.
Proof. intros E. unfold wma_def, hwsum. f_equal. apply gsum_ext. intros i _. rewrite E. reflexivity. Qed.
Lemma wma_inv_ext n s (h h' : nat -> R) : (forall i, h i = h' i) -> wma_inv n s h -> wma_inv n s h'.
Proof.
  intros E (H1 & H2 & H3 & H4 & H5). split; [eapply winok_ext; eauto|]. split; [exact H2|]. split; [exact H3|].
  split.
  - rewrite H4. f_equal. unfold hsum. apply gsum_ext. intros; apply E.
  - rewrite H5. unfold wma_num, hwsum. apply gsum_ext. intros i _. rewrite E. reflexivity.
Qed.

Lemma tri_pos n : 1 <= n -> 1 <= n * (n + 1) / 2.
Proof. intros H. apply Z.div_le_lower_bound; nia. Qed.

Lemma wma_def_const n (v : R) : (1 <= n)%nat -> wma_def n (hconst v) = v.
Proof.
  intros Hn. unfold wma_def, hwsum, hconst.
  rewrite (gsum_ext _ _ (fun i => v * INR (n - i))%R) by (intros; rewrite fofN_INR; rsimp; lra).
  rewrite gsum_scal, wma_weights_sum. rsimp.
  assert (IZR (Z.of_nat n * (Z.of_nat n + 1) / 2) <> 0%R).
  { apply not_0_IZR. pose proof (tri_pos (Z.of_nat n) ltac:(lia)). lia. }
  field. assumption.
Qed.

Definition hma_mid (n2 n : nat) (h : nat -> R) : nat -> R :=
  fun j => fsub (fmul f2 (wma_def n2 (hshift j h))) (wma_def n (hshift j h)).
Definition hma_inv (n2 n n3 : nat) (s : hma (N := NumR)) (h : nat -> R) : Prop :=
  wma_inv n2 (hma_w1 s) h /\ wma_inv n (hma_w2 s) h /\ wma_inv n3 (hma_w3 s) (hma_mid n2 n h).

Lemma hma_step n2 n n3 s h x : hma_inv (S n2) (S n) (S n3) s h ->
  hma_inv (S n2) (S n) (S n3) (fst (hma_next s x)) (hcons x h) /\
  snd (hma_next s x) = hma_def (S n) (S n2) (S n3) (hcons x h).
Proof.
  intros (H1 & H2 & H3). unfold hma_next.
  destruct (wma_step n2 _ h x H1) as (H1' & E1).
  destruct (wma_next (hma_w1 s) x) as [a y1]. cbn [fst snd] in *. subst y1.
  destruct (wma_step n _ h x H2) as (H2' & E2).
  destruct (wma_next (hma_w2 s) x) as [b y2]. cbn [fst snd] in *. subst y2.
  set (mid := ffma (wma_def (S n2) (hcons x h)) f2 (fneg (wma_def (S n) (hcons x h)))).
  destruct (wma_step n3 _ _ mid H3) as (H3' & E3).
  destruct (wma_next (hma_w3 s) mid) as [c z]. cbn [fst snd] in *. subst z.
  assert (P : forall i, hcons mid (hma_mid (S n2) (S n) h) i = hma_mid (S n2) (S n) (hcons x h) i).
  { intros [|i]; [|reflexivity]. unfold mid, hma_mid. cbn [hcons]. rsimp.
    change (hshift 0 (hcons x h)) with (hcons x h). ring. }
  split; [split; [exact H1'|split; [exact H2'|eapply wma_inv_ext; [exact P|exact H3']]]|].
  unfold hma_def. apply wma_def_ext. exact P.
Qed.

(** the third length is the (saturating, truncating) cast of sqrt n, as in the source *)
Definition hma_len3 (n : Z) : Z := ftrunc_sat (Num := NumR) 0 pmax (fsqrt (fofZ n)).

Lemma hma_len3_range n : 2 <= n <= pmax - 1 -> 1 <= hma_len3 n <= pmax - 1.
Proof.
  intros Hn. unfold hma_len3. cbn [ftrunc_sat fsqrt fofZ NumR]. unfold Rsat, Rtrunc.
  assert (H1 : (1 <= sqrt (IZR n))%R).
  { rewrite <- sqrt_1. apply sqrt_le_1_alt. apply IZR_le. lia. }
  destruct (Rle_dec 0 (sqrt (IZR n))) as [_|C]; [|lra].
  destruct (base_Int_part (sqrt (IZR n))) as (B1 & B2).
  assert (H2 : (sqrt (IZR n) <= IZR n)%R).
  { rewrite <- (sqrt_Rsqr (IZR n)) at 2 by (apply IZR_le; lia). apply sqrt_le_1_alt.
    unfold Rsqr. assert (1 <= IZR n)%R by (apply IZR_le; lia). nra. }
  assert (L : 1 <= Int_part (sqrt (IZR n))).
  { destruct (Z_lt_le_dec (Int_part (sqrt (IZR n))) 1) as [l|l]; [|lia].
    assert (Hz : Int_part (sqrt (IZR n)) <= 0) by lia. apply IZR_le in Hz. lra. }
  assert (U : Int_part (sqrt (IZR n)) <= n).
  { apply le_IZR. lra. }
  lia.
Qed.

Theorem hma_correct n v xs x : 2 <= n <= pmax - 1 ->
  exists s0, hma_new n v = Ok s0 /\
    snd (hma_next (steps hma_next s0 xs) x) =
    hma_def (Z.to_nat n) (Z.to_nat (n / 2)) (Z.to_nat (hma_len3 n)) (hget v (rev (xs ++ [x]))).
Proof.
  intros Hn. unfold hma_new. destruct (Z.eqb_spec n 0), (Z.eqb_spec n 1); try lia. cbn [orb].
  assert (Hh : 1 <= n / 2 <= pmax - 1).
  { split; [apply Z.div_le_lower_bound; lia|]. apply Z.le_trans with n; [apply Z.div_le_upper_bound; lia|lia]. }
  pose proof (hma_len3_range n Hn) as H3. fold (hma_len3 n).
  destruct (wma_init (n / 2) v Hh) as (a & Ea & Ia). rewrite Ea. cbn [obind].
  assert (Hn1 : 1 <= n <= pmax - 1) by lia.
  destruct (wma_init n v Hn1) as (b & Eb & Ib). rewrite Eb. cbn [obind].
  destruct (wma_init (hma_len3 n) v H3) as (c & Ec & Ic). rewrite Ec. cbn [obind].
  eexists; split; [reflexivity|].
  destruct (nat_len (n / 2) ltac:(lia)) as (m2 & E2), (nat_len n ltac:(lia)) as (m & E1),
           (nat_len (hma_len3 n) ltac:(lia)) as (m3 & E3).
  rewrite E1, E2, E3 in *.
  apply (inv_correct hma_next (hma_inv (S m2) (S m) (S m3)) (hma_def (S m) (S m2) (S m3))
           (hma_step m2 m m3)).
  split; [exact Ia|split; [exact Ib|]]. cbn [hma_w3].
  eapply wma_inv_ext; [|exact Ic]. intros i. unfold hma_mid, hconst. rsimp.
  rewrite (wma_def_ext (S m2) _ (hconst v)) by reflexivity.
  rewrite (wma_def_ext (S m) _ (hconst v)) by reflexivity.
  rewrite !wma_def_const by lia. unfold hconst. ring.
Qed.
End Proofs.
