(** C06 continued: Kaufman adaptive moving average.  At every step the instance computes the DEFINITIONAL crossing (C14) of the
    series of pairs (source price, KAMA value returned).  Without a filter (filter_period <= 1) that crossing is the signal.
    With a filter the crossing is held back: it is remembered together with the KAMA value at which it happened and released
    at the first later step at which KAMA has moved away from that value by more than k * StDev(KAMA); a new crossing replaces a
    pending one.  Proved for streams of every length: the pending signal and its reference value held by the instance ARE that
    function of the history. *)
From Yata Require Import Base.Prelude Base.Num Base.NumR Core.Window Core.Candle Core.Action
  Spec.Hist Methods.Basic Methods.Select Indicators.Common Indicators.Set4 Indicators.Set5
  Proofs.MethodsCommon Proofs.Detectors Proofs.SignalProofs Proofs.SignalProofs2 Proofs.Cascade Proofs.SignalProofs3 Proofs.SignalProofs4.
From Coq Require Import Reals Lra Lia.
Open Scope Z_scope.

Section Kaufman.
Context {pw : PW}.
Local Notation R := (@F NumR).
Local Notation C := (candle (N := NumR)).
Local Notation IR := (iresult (N := NumR)).

Definition kauf_pair (src : source) (k : C) (r : IR) : R * R := (c_source k src, vals r 0).
(** one step of the hold-back rule: (signal returned, pending signal, reference value) *)
Definition kauf_rule (cross : action) (value filter : R) (ls : action) (lv : R) : action * action * R :=
  if a_is_some cross then (ANone, cross, value)
  else if a_is_some ls && fgt (fabs (fsub value lv)) filter then (ls, ANone, lv)
  else (ANone, ls, lv).

Lemma kauf_shape (s : kauf_st (N := NumR)) k : let r := snd (kauf_next s k) in let c := ka_cfg s in
  let cross := snd (cross_next (ka_cross s) (kauf_pair (kf_source c) k r)) in
  let filter := fmul (snd (stdev_next (ka_sd s) (vals r 0))) (kf_k c) in
  ka_cfg (fst (kauf_next s k)) = c /\
  ka_cross (fst (kauf_next s k)) = fst (cross_next (ka_cross s) (kauf_pair (kf_source c) k r)) /\
  (if 1 <? kf_filter c
   then (nth 0 (sigs r) ANone, ka_last_signal (fst (kauf_next s k)), ka_last_value (fst (kauf_next s k))) =
        kauf_rule cross (vals r 0) filter (ka_last_signal s) (ka_last_value s)
   else sigs r = [cross] /\ ka_last_signal (fst (kauf_next s k)) = ka_last_signal s /\ ka_last_value (fst (kauf_next s k)) = ka_last_value s).
Proof.
  cbv zeta. unfold kauf_next. cbv zeta. destruct (momentum_next (ka_change s) _) as (ch, dir0). destruct (linvol_next (ka_vol s) _) as (lv, vol).
  set (value := ffma _ _ (ka_prev s)).
  destruct (cross_next (ka_cross s) (c_source k (kf_source (ka_cfg s)), value)) as (cx, cross) eqn:Ec.
  destruct (1 <? kf_filter (ka_cfg s)) eqn:Ef.
  - destruct (stdev_next (ka_sd s) value) as (sd, sdv) eqn:Es. unfold kauf_rule, kauf_pair.
    destruct (a_is_some cross) eqn:E1; [|destruct (a_is_some (ka_last_signal s) && fgt (fabs (fsub value (ka_last_value s))) (fmul sdv (kf_k (ka_cfg s)))) eqn:E2];
      unfold vals, sigs; cbn [fst snd nth ka_cfg ka_cross ka_last_signal ka_last_value]; rewrite ?Ec, ?Es; cbn [fst snd]; rewrite ?E1, ?E2; repeat split.
  - unfold kauf_pair, vals, sigs. cbn [fst snd nth ka_cfg ka_cross ka_last_signal ka_last_value]. rewrite Ec. repeat split.
Qed.

Variable s0 : kauf_st (N := NumR).
Hypothesis H0 : ka_cross s0 = (f0, f0).
Let cfg := ka_cfg s0.
Let src := kf_source cfg.

Lemma kauf_cfg_steps cs : ka_cfg (steps kauf_next s0 cs) = cfg.
Proof. apply (steps_field kauf_next ka_cfg). intros s k. apply kauf_shape. Qed.

(** the crossing of (price, KAMA) at the step that consumes [k] after the stream [cs]: definitional over the whole history *)
Definition kauf_cross (cs : list C) (k : C) : action :=
  cross_def (hget (f0, f0) (rev (cpairs kauf_next (kauf_pair src) s0 (cs ++ [k])))).
Definition kauf_value (cs : list C) (k : C) : R := vals (snd (kauf_next (steps kauf_next s0 cs) k)) 0.
Definition kauf_filter (cs : list C) (k : C) : R :=
  fmul (snd (stdev_next (ka_sd (steps kauf_next s0 cs)) (kauf_value cs k))) (kf_k cfg).

Lemma kauf_cross_output cs k :
  snd (cross_next (ka_cross (steps kauf_next s0 cs)) (kauf_pair src k (snd (kauf_next (steps kauf_next s0 cs) k)))) = kauf_cross cs k.
Proof.
  unfold kauf_cross.
  rewrite <- (det_output2 kauf_next cross_next cross_def ka_cross (kauf_pair src) (fun s => ka_cfg s = cfg));
    [reflexivity | intros s k0 Hs; rewrite (proj1 (kauf_shape s k0)); exact Hs
    | intros s k0 Hs; rewrite (proj1 (proj2 (kauf_shape s k0))); unfold src; rewrite Hs; reflexivity
    | reflexivity | intros ps p; rewrite H0; apply cross_default_correct].
Qed.

(** pending signal and reference value as functions of the history (rcs: candles newest first) *)
Fixpoint kauf_latch (rcs : list C) : action * R :=
  match rcs with
  | [] => (ka_last_signal s0, ka_last_value s0)
  | k :: q => let '(ls, lv) := kauf_latch q in
              let '(_, ls', lv') := kauf_rule (kauf_cross (rev q) k) (kauf_value (rev q) k) (kauf_filter (rev q) k) ls lv in (ls', lv')
  end.
Definition kauf_signal (rcs : list C) : action :=
  match rcs with
  | [] => ANone
  | k :: q => let '(ls, lv) := kauf_latch q in
              fst (fst (kauf_rule (kauf_cross (rev q) k) (kauf_value (rev q) k) (kauf_filter (rev q) k) ls lv))
  end.

Theorem kaufman_unfiltered_signal cs k : kf_filter cfg <= 1 ->
  sigs (snd (kauf_next (steps kauf_next s0 cs) k)) = [kauf_cross cs k].
Proof.
  intros Hf. destruct (kauf_shape (steps kauf_next s0 cs) k) as (_ & _ & H). cbv zeta in H. rewrite kauf_cfg_steps in H. fold cfg in H.
  destruct (Z.ltb_spec 1 (kf_filter cfg)) as [L|L]; [lia|]. destruct H as (Hs & _). rewrite Hs. fold src. rewrite kauf_cross_output. reflexivity.
Qed.

Lemma kauf_latch_state cs : 1 < kf_filter cfg ->
  (ka_last_signal (steps kauf_next s0 cs), ka_last_value (steps kauf_next s0 cs)) = kauf_latch (rev cs).
Proof.
  intros Hf. induction cs as [|k cs IH] using rev_ind; [reflexivity|].
  rewrite steps_snoc, rev_unit. cbn [kauf_latch]. rewrite rev_involutive, <- IH.
  destruct (kauf_shape (steps kauf_next s0 cs) k) as (_ & _ & H). cbv zeta in H. rewrite kauf_cfg_steps in H. fold cfg in H.
  destruct (Z.ltb_spec 1 (kf_filter cfg)) as [L|L]; [|lia]. fold src in H. rewrite kauf_cross_output in H.
  fold (kauf_value cs k) in H. fold (kauf_filter cs k) in H.
  destruct (kauf_rule (kauf_cross cs k) (kauf_value cs k) (kauf_filter cs k) _ _) as ((sg, ls'), lv'). injection H as _ H2 H3. rewrite H2, H3. reflexivity.
Qed.

Theorem kaufman_filtered_signal cs k : 1 < kf_filter cfg ->
  nth 0 (sigs (snd (kauf_next (steps kauf_next s0 cs) k))) ANone = kauf_signal (k :: rev cs).
Proof.
  intros Hf. cbn [kauf_signal]. rewrite rev_involutive, <- (kauf_latch_state cs Hf).
  destruct (kauf_shape (steps kauf_next s0 cs) k) as (_ & _ & H). cbv zeta in H. rewrite kauf_cfg_steps in H. fold cfg in H.
  destruct (Z.ltb_spec 1 (kf_filter cfg)) as [L|L]; [|lia]. fold src in H. rewrite kauf_cross_output in H.
  fold (kauf_value cs k) in H. fold (kauf_filter cs k) in H.
  destruct (kauf_rule (kauf_cross cs k) (kauf_value cs k) (kauf_filter cs k) _ _) as ((sg, ls'), lv'). injection H as H1 _ _. exact H1.
Qed.
End Kaufman.
