(** C15 continued: superposition.  The definitions of the thirteen LINEAR averaging kinds (all but the moving median and Vidya)
    are additive in the history - avg(x + y) = avg(x) + avg(y) - and through the method theorems so are the running instances
    built by the MA constructor, for every accepted length and every pair of streams of equal length. *)
From Yata Require Import Base.Prelude Base.Num Base.NumR Core.Window Core.Candle Core.Action Core.Strings
  Spec.Hist Spec.MethodDefs Spec.IndicatorDefs Methods.Basic Indicators.Common
  Proofs.MethodsCommon Proofs.Prehistory Proofs.Averages Proofs.Selection2 Proofs.MAProofs Proofs.IndicatorProofs11.
From Coq Require Import Reals Lra Lia.
Open Scope R_scope.

Section Linear.
Context {pw : PW}.
Local Notation R := (@F NumR).

Definition hplus (h g : nat -> R) : nat -> R := fun i => h i + g i.
Definition zsum (rh rg : list R) : list R := map (fun p => fst p + snd p) (combine rh rg).

Lemma hget_zsum (x0 y0 : R) rh rg : length rh = length rg -> forall i, hget (x0 + y0) (zsum rh rg) i = hplus (hget x0 rh) (hget y0 rg) i.
Proof.
  revert rg. induction rh as [|x r IH]; intros [|y g] Hl i; cbn in Hl; try discriminate; [reflexivity|].
  unfold zsum. cbn [combine map hget fst snd]. destruct i as [|i]; [reflexivity|]. cbn [hcons]. unfold hplus. cbn [hget hcons].
  apply (IH g (eq_add_S _ _ Hl) i).
Qed.

Lemma zsum_app (l1 l2 m1 m2 : list R) : length l1 = length m1 -> zsum (l1 ++ l2) (m1 ++ m2) = zsum l1 m1 ++ zsum l2 m2.
Proof. intros Hl. unfold zsum. rewrite combine_app' by exact Hl. apply map_app. Qed.
Lemma zsum_rev (xs ys : list R) : length xs = length ys -> rev (zsum xs ys) = zsum (rev xs) (rev ys).
Proof.
  revert ys. induction xs as [|a r IH]; intros [|b q] Hl; cbn in Hl; try discriminate; [reflexivity|].
  cbn [rev]. rewrite zsum_app by (rewrite !rev_length; exact (eq_add_S _ _ Hl)). rewrite <- (IH q (eq_add_S _ _ Hl)). reflexivity.
Qed.

Lemma swma_linear n (h g : nat -> R) : swma_def n (hplus h g) = swma_def n h + swma_def n g.
Proof.
  unfold swma_def, hwsum, hplus. rsimp.
  rewrite (gsum_ext n _ (fun i => swma_weight (N := NumR) n i * h i + swma_weight (N := NumR) n i * g i)) by (intros; ring).
  rewrite gsum_plus. unfold Rdiv. ring.
Qed.
Lemma trima_linear n (h g : nat -> R) : trima_def n (hplus h g) = trima_def n h + trima_def n g.
Proof.
  unfold trima_def. rewrite (sma_ext n _ (fun j => sma_def n (hshift j h) + sma_def n (hshift j g))).
  - apply sma_linear.
  - intros j. rewrite <- sma_linear. apply sma_ext. intros i. reflexivity.
Qed.
Lemma hma_linear n n2 n3 (h g : nat -> R) : hma_def n n2 n3 (hplus h g) = hma_def n n2 n3 h + hma_def n n2 n3 g.
Proof.
  unfold hma_def.
  rewrite (wma_ext n3 _ (fun j => (fsub (fmul f2 (wma_def n2 (hshift j h))) (wma_def n (hshift j h)))
                                 + (fsub (fmul f2 (wma_def n2 (hshift j g))) (wma_def n (hshift j g))))).
  - apply wma_linear.
  - intros j. assert (E2 : wma_def n2 (hshift j (hplus h g)) = wma_def n2 (hshift j h) + wma_def n2 (hshift j g)).
    { rewrite <- wma_linear. apply wma_ext. intros i. reflexivity. }
    assert (E1 : wma_def n (hshift j (hplus h g)) = wma_def n (hshift j h) + wma_def n (hshift j g)).
    { rewrite <- wma_linear. apply wma_ext. intros i. reflexivity. }
    rewrite E1, E2. numR. ring.
Qed.
Lemma linreg_linear n (h g : nat -> R) : linreg_def n (hplus h g) = linreg_def n h + linreg_def n g.
Proof.
  unfold linreg_def, hsum, hplus. cbv zeta. numR. rewrite gsum_plus.
  rewrite (gsum_ext n (fun i => - fofN (N := NumR) i * (h i + g i)) (fun i => - fofN (N := NumR) i * h i + - fofN (N := NumR) i * g i))
    by (intros; ring).
  rewrite gsum_plus. unfold Rdiv. ring.
Qed.

Lemma ema_outs_zsum (al x0 y0 : R) rh rg : length rh = length rg ->
  ema_outs al (x0 + y0) (zsum rh rg) = zsum (ema_outs al x0 rh) (ema_outs al y0 rg) /\
  length (ema_outs al x0 rh) = length (ema_outs al y0 rg).
Proof.
  revert rg. induction rh as [|x r IH]; intros [|y g] Hl; cbn in Hl; try discriminate; [split; reflexivity|].
  destruct (IH g (eq_add_S _ _ Hl)) as (E & L). split; [|cbn [ema_outs length]; rewrite L; reflexivity].
  unfold zsum in *. cbn [combine map fst snd ema_outs]. fold (zsum r g). f_equal; [|exact E].
  change (x + y :: map (fun p => fst p + snd p) (combine r g)) with (zsum (x :: r) (y :: g)).
  apply (ema_linear al x0 y0 (x :: r) (y :: g)). cbn. lia.
Qed.

Lemma hma_ext n n2 n3 (h h' : nat -> R) : (forall i, h i = h' i) -> hma_def n n2 n3 h = hma_def n n2 n3 h'.
Proof.
  intros E. unfold hma_def. apply wma_ext. intros j.
  rewrite (wma_ext n2 (hshift j h) (hshift j h')) by (intros i; apply E). rewrite (wma_ext n (hshift j h) (hshift j h')) by (intros i; apply E). reflexivity.
Qed.
Lemma swma_ext n (h h' : nat -> R) : (forall i, h i = h' i) -> swma_def n h = swma_def n h'.
Proof. intros E. unfold swma_def, hwsum. f_equal. apply gsum_ext'. intros i. rewrite E. reflexivity. Qed.

Definition ma_linear_kind (c : ma_cfg) : bool :=
  match c with MAcfg k _ => match k with KSMM | KVidya => false | _ => true end end.

Theorem ma_def_superposition (c : ma_cfg) (x0 y0 : R) rh rg : ma_linear_kind c = true -> length rh = length rg ->
  ma_def c (x0 + y0) (zsum rh rg) = ma_def c x0 rh + ma_def c y0 rg.
Proof.
  destruct c as (k, n). intros Hk Hl. pose proof (hget_zsum x0 y0 rh rg Hl) as Hh. unfold ma_def. cbv zeta.
  assert (Eo := ema_outs_zsum). 
  destruct k; try discriminate Hk.
  - rewrite (sma_ext _ _ _ Hh). apply sma_linear.
  - rewrite (wma_ext _ _ _ Hh). apply wma_linear.
  - rewrite (hma_ext _ _ _ _ _ Hh). apply hma_linear.
  - unfold rma_def. apply ema_linear. exact Hl.
  - unfold ema_def. apply ema_linear. exact Hl.
  - unfold dma_def. destruct (Eo (MethodDefs.ema_alpha n) x0 y0 rh rg Hl) as (E1 & L1). rewrite E1. apply ema_linear. exact L1.
  - unfold dema_def, ema_def, dma_def. destruct (Eo (MethodDefs.ema_alpha n) x0 y0 rh rg Hl) as (E1 & L1). rewrite E1.
    rewrite (ema_linear _ x0 y0 rh rg Hl), (ema_linear _ x0 y0 _ _ L1). numR. ring.
  - unfold tma_def. destruct (Eo (MethodDefs.ema_alpha n) x0 y0 rh rg Hl) as (E1 & L1). rewrite E1.
    destruct (Eo (MethodDefs.ema_alpha n) x0 y0 _ _ L1) as (E2 & L2). rewrite E2. apply ema_linear. exact L2.
  - unfold tema_def, ema_def, dma_def, tma_def. destruct (Eo (MethodDefs.ema_alpha n) x0 y0 rh rg Hl) as (E1 & L1). rewrite E1.
    destruct (Eo (MethodDefs.ema_alpha n) x0 y0 _ _ L1) as (E2 & L2). rewrite E2.
    rewrite (ema_linear _ x0 y0 rh rg Hl), (ema_linear _ x0 y0 _ _ L1), (ema_linear _ x0 y0 _ _ L2). numR. ring.
  - unfold wsma_def, rma_def. apply ema_linear. exact Hl.
  - rewrite (swma_ext _ _ _ Hh). apply swma_linear.
  - rewrite (trima_ext _ _ _ Hh). apply trima_linear.
  - rewrite (linreg_ext _ _ _ Hh). apply linreg_linear.
Qed.

(** the running instances: feeding x_t + y_t to an instance built at v + w returns the sum of what the instances built at v and w
    return on x and y - after any number of steps *)
Theorem ma_method_superposition (c : ma_cfg) (v w : R) xs ys x y : ma_linear_kind c = true -> ma_len_ok c -> length xs = length ys ->
  exists s1 s2 s3, ma_init c v = Ok s1 /\ ma_init c w = Ok s2 /\ ma_init c (v + w) = Ok s3 /\
    snd (ma_next (steps ma_next s3 (zsum xs ys)) (x + y)) = snd (ma_next (steps ma_next s1 xs) x) + snd (ma_next (steps ma_next s2 ys) y).
Proof.
  intros Hk Hl Hlen.
  destruct (ma_correct c v xs x (ma_proved_all c) Hl) as (s1 & E1 & H1). destruct (ma_correct c w ys y (ma_proved_all c) Hl) as (s2 & E2 & H2).
  destruct (ma_correct c (v + w) (zsum xs ys) (x + y) (ma_proved_all c) Hl) as (s3 & E3 & H3).
  exists s1, s2, s3. repeat split; try assumption. rewrite H1, H2, H3.
  assert (Er : rev (zsum xs ys ++ [x + y]) = zsum (rev (xs ++ [x])) (rev (ys ++ [y]))).
  { rewrite !rev_unit. transitivity (x + y :: zsum (rev xs) (rev ys)); [f_equal; apply zsum_rev; exact Hlen|reflexivity]. }
  transitivity (ma_def c (v + w) (zsum (rev (xs ++ [x])) (rev (ys ++ [y])))); [f_equal; exact Er|].
  apply ma_def_superposition; [exact Hk|]. rewrite !rev_length, !app_length. cbn [length]. f_equal. exact Hlen.
Qed.
End Linear.
