(** C06 continued: Aroon #3 (trend strength).  The two counters held by the instance are, after every stream, the lengths of the
    current runs of consecutive steps on which (Aroon-up, Aroon-down) as returned were in the "up over / down under" zone
    (resp. "down over / up under"); the signal is the difference of the two run lengths over [over_zone_period], as an analog
    signal.  Proved for streams of every length and any carrier. *)
From Yata Require Import Base.Prelude Base.Num Core.Window Core.Candle Core.Action
  Spec.Hist Methods.Basic Methods.Select Indicators.Common Indicators.Set2 Proofs.Cascade Proofs.SignalProofs2.
From Coq Require Import Lia.
Open Scope Z_scope.

Section AroonTrend.
Context {pw : PW} {N : Num}.
Local Notation IR := (iresult (N := N)).

Definition aroon_up_zone (z : F) (r : IR) : bool := fge (vals r 0) (fsub f1 z) && fle (vals r 1) z.
Definition aroon_down_zone (z : F) (r : IR) : bool := fge (vals r 1) (fsub f1 z) && fle (vals r 0) z.
(** length of the run of results (newest first) satisfying [c], continued by [n0] when the whole list satisfies it *)
Fixpoint run_len (c : IR -> bool) (n0 : Z) (l : list IR) : Z :=
  match l with [] => n0 | r :: q => if c r then run_len c n0 q + 1 else 0 end.

Lemma aroon_trend_shape (s : aroon_st) k : let r := snd (aroon_next s k) in
  ar_zone (fst (aroon_next s k)) = ar_zone s /\ ar_ozp (fst (aroon_next s k)) = ar_ozp s /\
  ar_up (fst (aroon_next s k)) = (if aroon_up_zone (ar_zone s) r then ar_up s + 1 else 0) /\
  ar_down (fst (aroon_next s k)) = (if aroon_down_zone (ar_zone s) r then ar_down s + 1 else 0) /\
  nth 2 (sigs r) ANone = a_from_f (fdiv (fofZ (ar_up (fst (aroon_next s k)) - ar_down (fst (aroon_next s k)))) (fofZ (ar_ozp s))).
Proof.
  cbv zeta. unfold aroon_next. destruct (highest_index_step (ar_high s) (c_high k)) as (h, hi). destruct (lowest_index_step (ar_low s) (c_low k)) as (l, li).
  cbv zeta. destruct (cross_next (ar_cross s) _) as (c, trend).
  unfold aroon_up_zone, aroon_down_zone, vals, sigs. cbn [fst snd nth ar_zone ar_ozp ar_up ar_down].
  set (up := fdiv (fofZ (ar_period s - hi)) (fofZ (ar_period s))). set (down := fdiv (fofZ (ar_period s - li)) (fofZ (ar_period s))).
  repeat split.
  - destruct (fge up (fsub f1 (ar_zone s))), (fle down (ar_zone s)); cbn [andb b2z]; lia.
  - destruct (fge down (fsub f1 (ar_zone s))), (fle up (ar_zone s)); cbn [andb b2z]; lia.
Qed.

Variable s0 : aroon_st.

Lemma aroon_trend_state cs :
  ar_zone (steps aroon_next s0 cs) = ar_zone s0 /\ ar_ozp (steps aroon_next s0 cs) = ar_ozp s0 /\
  ar_up (steps aroon_next s0 cs) = run_len (aroon_up_zone (ar_zone s0)) (ar_up s0) (rev (run aroon_next s0 cs)) /\
  ar_down (steps aroon_next s0 cs) = run_len (aroon_down_zone (ar_zone s0)) (ar_down s0) (rev (run aroon_next s0 cs)).
Proof.
  induction cs as [|k cs IH] using rev_ind; [repeat split; reflexivity|]. destruct IH as (Z1 & Z2 & U & D).
  rewrite steps_snoc, run_app, rev_app_distr. cbn [run]. destruct (aroon_trend_shape (steps aroon_next s0 cs) k) as (A1 & A2 & A3 & A4 & _).
  cbv zeta in A3, A4. rewrite A1, A2, A3, A4, Z1, Z2, U, D.
  destruct (aroon_next (steps aroon_next s0 cs) k) as (s', y). cbn [snd rev app run_len]. repeat split.
Qed.

Theorem aroon_trend_signal cs k :
  nth 2 (sigs (snd (aroon_next (steps aroon_next s0 cs) k))) ANone =
  let rs := rev (run aroon_next s0 (cs ++ [k])) in
  a_from_f (fdiv (fofZ (run_len (aroon_up_zone (ar_zone s0)) (ar_up s0) rs - run_len (aroon_down_zone (ar_zone s0)) (ar_down s0) rs)) (fofZ (ar_ozp s0))).
Proof.
  destruct (aroon_trend_shape (steps aroon_next s0 cs) k) as (_ & _ & _ & _ & H). cbv zeta in H. rewrite H.
  destruct (aroon_trend_state (cs ++ [k])) as (_ & _ & U & D). rewrite steps_snoc in U, D. rewrite U, D.
  destruct (aroon_trend_state cs) as (_ & Z2 & _ & _). rewrite Z2. reflexivity.
Qed.
End AroonTrend.
