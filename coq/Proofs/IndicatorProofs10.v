(** C05 continued: KnowSureThing (four smoothed rates of change, weighted 1,2,3,4, and the signal average of their sum). *)
From Yata Require Import Base.Prelude Base.Num Base.NumR Core.Window Core.WindowSpec Core.Candle Core.Action Core.Strings
  Spec.Hist Spec.MethodDefs Spec.IndicatorDefs Methods.Basic Methods.Select Indicators.Common Indicators.Set3 Indicators.Set4
  Proofs.MethodsCommon Proofs.Windowed Proofs.Selection Proofs.Selection2 Proofs.MAProofs Proofs.Cascade Proofs.IndicatorProofs3 Proofs.IndicatorProofs7.
From Coq Require Import Reals Lra.
Open Scope Z_scope.

Section IP10.
Context {pw : PW}.
Local Notation R := (@F NumR).
Local Notation C := (candle (N := NumR)).
Ltac dlet := repeat match goal with |- context [let '(_, _) := ?e in _] => destruct e end.

Theorem kst_values_correct (cfg : kst_cfg) (c0 : C) cs c : kst_validate cfg = true ->
  1 <= kc_p1 cfg -> kc_p4 cfg <= pmax - 1 ->
  ma_proved (kc_ma1 cfg) = true -> ma_len_ok (kc_ma1 cfg) -> ma_proved (kc_ma2 cfg) = true -> ma_len_ok (kc_ma2 cfg) ->
  ma_proved (kc_ma3 cfg) = true -> ma_len_ok (kc_ma3 cfg) -> ma_proved (kc_ma4 cfg) = true -> ma_len_ok (kc_ma4 cfg) ->
  ma_proved (kc_signal cfg) = true -> ma_len_ok (kc_signal cfg) ->
  exists s0, kst_init (N := NumR) cfg c0 = Ok s0 /\
    fst (snd (kst_next (steps kst_next s0 cs) c)) =
    kst_values (kc_p1 cfg) (kc_p2 cfg) (kc_p3 cfg) (kc_p4 cfg) (kc_ma1 cfg) (kc_ma2 cfg) (kc_ma3 cfg) (kc_ma4 cfg) (kc_signal cfg) c0 (rev (cs ++ [c])).
Proof.
  intros Hv Hp1 Hp4 P1 L1 P2 L2 P3 L3 P4 L4 P5 L5. unfold kst_init. rewrite Hv. cbn [negb]. cbv zeta.
  assert (Hr : kc_p1 cfg < kc_p2 cfg /\ kc_p2 cfg < kc_p3 cfg /\ kc_p3 cfg < kc_p4 cfg).
  { unfold kst_validate in Hv. repeat (apply andb_prop in Hv; destruct Hv as (Hv & ?)).
    repeat match goal with H : (_ <? _) = true |- _ => apply Z.ltb_lt in H end. lia. }
  set (v0 := c_close c0).
  assert (R1 : 1 <= kc_p1 cfg <= pmax - 1) by lia.
  destruct (roc_correct (kc_p1 cfg) v0 [] v0 R1) as (r1 & Er1 & _).
  assert (R2 : 1 <= kc_p2 cfg <= pmax - 1) by lia.
  destruct (roc_correct (kc_p2 cfg) v0 [] v0 R2) as (r2 & Er2 & _).
  assert (R3 : 1 <= kc_p3 cfg <= pmax - 1) by lia.
  destruct (roc_correct (kc_p3 cfg) v0 [] v0 R3) as (r3 & Er3 & _).
  assert (R4 : 1 <= kc_p4 cfg <= pmax - 1) by lia.
  destruct (roc_correct (kc_p4 cfg) v0 [] v0 R4) as (r4 & Er4 & _).
  destruct (ma_correct (kc_ma1 cfg) (f0 (N := NumR)) [] (f0 (N := NumR)) P1 L1) as (m1 & E1 & _).
  destruct (ma_correct (kc_ma2 cfg) (f0 (N := NumR)) [] (f0 (N := NumR)) P2 L2) as (m2 & E2 & _).
  destruct (ma_correct (kc_ma3 cfg) (f0 (N := NumR)) [] (f0 (N := NumR)) P3 L3) as (m3 & E3 & _).
  destruct (ma_correct (kc_ma4 cfg) (f0 (N := NumR)) [] (f0 (N := NumR)) P4 L4) as (m4 & E4 & _).
  destruct (ma_correct (kc_signal cfg) (f0 (N := NumR)) [] (f0 (N := NumR)) P5 L5) as (m5 & E5 & _).
  rewrite Er1, Er2, Er3, Er4, E1, E2, E3, E4, E5. cbn [obind]. eexists; split; [reflexivity|].
  pose proof (ma_correct' _ _ _ P1 L1 E1) as C1.
  pose proof (ma_correct' _ _ _ P2 L2 E2) as C2.
  pose proof (ma_correct' _ _ _ P3 L3 E3) as C3.
  pose proof (ma_correct' _ _ _ P4 L4 E4) as C4.
  pose proof (ma_correct' _ _ _ P5 L5 E5) as C5.
  assert (Cr1 : forall xs x, snd (roc_next (steps roc_next r1 xs) x) = roc_def (Z.to_nat (kc_p1 cfg)) (hget v0 (rev (xs ++ [x])))).
  { intros xs x. destruct (roc_correct (kc_p1 cfg) v0 xs x R1) as (q & Eq & Hq). rewrite Er1 in Eq. injection Eq as <-. exact Hq. }
  assert (Cr2 : forall xs x, snd (roc_next (steps roc_next r2 xs) x) = roc_def (Z.to_nat (kc_p2 cfg)) (hget v0 (rev (xs ++ [x])))).
  { intros xs x. destruct (roc_correct (kc_p2 cfg) v0 xs x R2) as (q & Eq & Hq). rewrite Er2 in Eq. injection Eq as <-. exact Hq. }
  assert (Cr3 : forall xs x, snd (roc_next (steps roc_next r3 xs) x) = roc_def (Z.to_nat (kc_p3 cfg)) (hget v0 (rev (xs ++ [x])))).
  { intros xs x. destruct (roc_correct (kc_p3 cfg) v0 xs x R3) as (q & Eq & Hq). rewrite Er3 in Eq. injection Eq as <-. exact Hq. }
  assert (Cr4 : forall xs x, snd (roc_next (steps roc_next r4 xs) x) = roc_def (Z.to_nat (kc_p4 cfg)) (hget v0 (rev (xs ++ [x])))).
  { intros xs x. destruct (roc_correct (kc_p4 cfg) v0 xs x R4) as (q & Eq & Hq). rewrite Er4 in Eq. injection Eq as <-. exact Hq. }
  set (s0 := mkKst r1 r2 r3 r4 m1 m2 m3 m4 m5 (f0, f0)).
  assert (G : forall cs0 s,
     ks_r1 (steps kst_next s cs0) = steps roc_next (ks_r1 s) (map c_close cs0) /\ ks_r2 (steps kst_next s cs0) = steps roc_next (ks_r2 s) (map c_close cs0) /\
     ks_r3 (steps kst_next s cs0) = steps roc_next (ks_r3 s) (map c_close cs0) /\ ks_r4 (steps kst_next s cs0) = steps roc_next (ks_r4 s) (map c_close cs0)).
  { induction cs0 as [|k r IH]; intros s; [repeat split; reflexivity|]. unfold steps in *. cbn [fold_left map].
    destruct (IH (fst (kst_next s k))) as (I1 & I2 & I3 & I4). rewrite I1, I2, I3, I4. unfold kst_next.
    destruct (roc_next (ks_r1 s) (c_close k)), (roc_next (ks_r2 s) (c_close k)), (roc_next (ks_r3 s) (c_close k)), (roc_next (ks_r4 s) (c_close k)).
    dlet. repeat split; reflexivity. }
  set (i1 := fun (s : kst_st (N := NumR)) (k : C) => snd (roc_next (ks_r1 s) (c_close k))).
  set (D1 := fun rcs : list C => roc_def (Z.to_nat (kc_p1 cfg)) (hget v0 (map c_close rcs))).
  assert (HD1 : forall p k, i1 (steps kst_next s0 p) k = D1 (rev (p ++ [k]))).
  { intros p k. destruct (G p s0) as (H1 & H2 & H3 & H4). unfold i1. rewrite H1. cbn [ks_r1 s0]. rewrite Cr1.
    unfold D1. rewrite map_rev, map_app. reflexivity. }
  set (i2 := fun (s : kst_st (N := NumR)) (k : C) => snd (roc_next (ks_r2 s) (c_close k))).
  set (D2 := fun rcs : list C => roc_def (Z.to_nat (kc_p2 cfg)) (hget v0 (map c_close rcs))).
  assert (HD2 : forall p k, i2 (steps kst_next s0 p) k = D2 (rev (p ++ [k]))).
  { intros p k. destruct (G p s0) as (H1 & H2 & H3 & H4). unfold i2. rewrite H2. cbn [ks_r2 s0]. rewrite Cr2.
    unfold D2. rewrite map_rev, map_app. reflexivity. }
  set (i3 := fun (s : kst_st (N := NumR)) (k : C) => snd (roc_next (ks_r3 s) (c_close k))).
  set (D3 := fun rcs : list C => roc_def (Z.to_nat (kc_p3 cfg)) (hget v0 (map c_close rcs))).
  assert (HD3 : forall p k, i3 (steps kst_next s0 p) k = D3 (rev (p ++ [k]))).
  { intros p k. destruct (G p s0) as (H1 & H2 & H3 & H4). unfold i3. rewrite H3. cbn [ks_r3 s0]. rewrite Cr3.
    unfold D3. rewrite map_rev, map_app. reflexivity. }
  set (i4 := fun (s : kst_st (N := NumR)) (k : C) => snd (roc_next (ks_r4 s) (c_close k))).
  set (D4 := fun rcs : list C => roc_def (Z.to_nat (kc_p4 cfg)) (hget v0 (map c_close rcs))).
  assert (HD4 : forall p k, i4 (steps kst_next s0 p) k = D4 (rev (p ++ [k]))).
  { intros p k. destruct (G p s0) as (H1 & H2 & H3 & H4). unfold i4. rewrite H4. cbn [ks_r4 s0]. rewrite Cr4.
    unfold D4. rewrite map_rev, map_app. reflexivity. }
  assert (Hq1 : forall s k, ks_m1 (fst (kst_next s k)) = fst (ma_next (ks_m1 s) (i1 s k))).
  { intros s k. unfold kst_next, i1. destruct (roc_next (ks_r1 s) _), (roc_next (ks_r2 s) _), (roc_next (ks_r3 s) _), (roc_next (ks_r4 s) _). cbn [snd]. destruct (ma_next (ks_m1 s) _). dlet. reflexivity. }
  pose proof (proj_steps kst_next ma_next ks_m1 i1 Hq1) as S1.
  assert (Hq2 : forall s k, ks_m2 (fst (kst_next s k)) = fst (ma_next (ks_m2 s) (i2 s k))).
  { intros s k. unfold kst_next, i2. destruct (roc_next (ks_r1 s) _), (roc_next (ks_r2 s) _), (roc_next (ks_r3 s) _), (roc_next (ks_r4 s) _). cbn [snd]. destruct (ma_next (ks_m1 s) _). destruct (ma_next (ks_m2 s) _). dlet. reflexivity. }
  pose proof (proj_steps kst_next ma_next ks_m2 i2 Hq2) as S2.
  assert (Hq3 : forall s k, ks_m3 (fst (kst_next s k)) = fst (ma_next (ks_m3 s) (i3 s k))).
  { intros s k. unfold kst_next, i3. destruct (roc_next (ks_r1 s) _), (roc_next (ks_r2 s) _), (roc_next (ks_r3 s) _), (roc_next (ks_r4 s) _). cbn [snd]. destruct (ma_next (ks_m1 s) _). destruct (ma_next (ks_m2 s) _). destruct (ma_next (ks_m3 s) _). dlet. reflexivity. }
  pose proof (proj_steps kst_next ma_next ks_m3 i3 Hq3) as S3.
  assert (Hq4 : forall s k, ks_m4 (fst (kst_next s k)) = fst (ma_next (ks_m4 s) (i4 s k))).
  { intros s k. unfold kst_next, i4. destruct (roc_next (ks_r1 s) _), (roc_next (ks_r2 s) _), (roc_next (ks_r3 s) _), (roc_next (ks_r4 s) _). cbn [snd]. destruct (ma_next (ks_m1 s) _). destruct (ma_next (ks_m2 s) _). destruct (ma_next (ks_m3 s) _). destruct (ma_next (ks_m4 s) _). dlet. reflexivity. }
  pose proof (proj_steps kst_next ma_next ks_m4 i4 Hq4) as S4.
  (* level 2: the weighted sum fed to the signal average *)
  set (kk := fun (s : kst_st (N := NumR)) (k : C) =>
     fadd (ffma (snd (ma_next (ks_m2 s) (i2 s k))) f2 (snd (ma_next (ks_m1 s) (i1 s k))))
          (ffma (snd (ma_next (ks_m3 s) (i3 s k))) (fofZ 3) (fmul (snd (ma_next (ks_m4 s) (i4 s k))) (fofZ 4)))).
  set (DK := fun rcs : list C =>
     fadd (fadd (ma_def (kc_ma1 cfg) f0 (series D1 rcs)) (fmul f2 (ma_def (kc_ma2 cfg) f0 (series D2 rcs))))
          (fadd (fmul (fofZ 3) (ma_def (kc_ma3 cfg) f0 (series D3 rcs))) (fmul (fofZ 4) (ma_def (kc_ma4 cfg) f0 (series D4 rcs))))).
  assert (HDK : forall p k, kk (steps kst_next s0 p) k = DK (rev (p ++ [k]))).
  { intros p k. unfold kk. rewrite S1, S2, S3, S4. cbn [ks_m1 ks_m2 ks_m3 ks_m4 s0]. rewrite C1, C2, C3, C4.
    rewrite (inputs_series_next kst_next i1 D1 s0 HD1 p k), (inputs_series_next kst_next i2 D2 s0 HD2 p k),
            (inputs_series_next kst_next i3 D3 s0 HD3 p k), (inputs_series_next kst_next i4 D4 s0 HD4 p k).
    unfold DK, series. rsimp. ring. }
  assert (Hq5 : forall s k, ks_m5 (fst (kst_next s k)) = fst (ma_next (ks_m5 s) (kk s k))).
  { intros s k. unfold kst_next, kk, i1, i2, i3, i4. destruct (roc_next (ks_r1 s) _), (roc_next (ks_r2 s) _), (roc_next (ks_r3 s) _), (roc_next (ks_r4 s) _). cbn [snd].
    destruct (ma_next (ks_m1 s) _), (ma_next (ks_m2 s) _), (ma_next (ks_m3 s) _), (ma_next (ks_m4 s) _). cbn [snd].
    destruct (ma_next (ks_m5 s) _). dlet. reflexivity. }
  pose proof (proj_steps kst_next ma_next ks_m5 kk Hq5 cs s0) as S5.
  assert (Hout : fst (snd (kst_next (steps kst_next s0 cs) c)) =
     [kk (steps kst_next s0 cs) c; snd (ma_next (ks_m5 (steps kst_next s0 cs)) (kk (steps kst_next s0 cs) c))]).
  { unfold kst_next at 1. unfold kk, i1, i2, i3, i4.
    destruct (roc_next (ks_r1 _) _), (roc_next (ks_r2 _) _), (roc_next (ks_r3 _) _), (roc_next (ks_r4 _) _). cbn [snd].
    destruct (ma_next (ks_m1 _) _), (ma_next (ks_m2 _) _), (ma_next (ks_m3 _) _), (ma_next (ks_m4 _) _). cbn [snd].
    destruct (ma_next (ks_m5 _) _). dlet. reflexivity. }
  rewrite Hout, S5. cbn [ks_m5 s0]. rewrite C5.
  rewrite (inputs_series_next kst_next kk DK s0 HDK cs c). rewrite HDK.
  unfold kst_values. cbv zeta. fold v0.
  assert (Er : forall p l, series (fun q => roc_def (Z.to_nat p) (hget v0 q)) (map c_close l) =
                           series (fun rcs : list C => roc_def (Z.to_nat p) (hget v0 (map c_close rcs))) l).
  { intros p l. unfold series. rewrite suffixes_map, map_map. reflexivity. }
  rewrite !Er. fold D1 D2 D3 D4.
  f_equal. f_equal. f_equal. unfold series at 1. rewrite suffixes_map, map_map. apply map_ext. intros l. rewrite !Er. reflexivity.
Qed.

(** ---- Ichimoku cloud: midpoints of the (highest high, lowest low) over l1, l2, l3; the two spans are displaced by m bars *)
Theorem ichimoku_values_correct l1 l2 l3 m src (c0 : C) cs c :
  1 <= l1 -> l1 < l2 -> l2 < l3 -> l3 <= pmax - 1 -> 1 <= m <= pmax - 1 ->
  exists s0, ichi_init l1 l2 l3 m src c0 = Ok s0 /\
    fst (snd (ichi_next (steps ichi_next s0 cs) c)) = ichi_values l1 l2 l3 m c0 (rev (cs ++ [c])).
Proof.
  intros H1 H12 H23 H3 Hm. unfold ichi_init.
  destruct (Z.ltb_spec l1 l2); [|lia]. destruct (Z.ltb_spec l2 l3); [|lia]. destruct (Z.ltb_spec 0 m); [|lia]. destruct (Z.ltb_spec m pmax); [|lia].
  cbn [andb negb].
  assert (R1 : 1 <= l1 <= pmax - 1) by lia. assert (R2 : 1 <= l2 <= pmax - 1) by lia. assert (R3 : 1 <= l3 <= pmax - 1) by lia.
  destruct (highest_correct l1 (c_high c0) [] (c_high c0) R1) as (h1 & Eh1 & _). destruct (highest_correct l2 (c_high c0) [] (c_high c0) R2) as (h2 & Eh2 & _).
  destruct (highest_correct l3 (c_high c0) [] (c_high c0) R3) as (h3 & Eh3 & _).
  destruct (lowest_correct l1 (c_low c0) [] (c_low c0) R1) as (o1 & Eo1 & _). destruct (lowest_correct l2 (c_low c0) [] (c_low c0) R2) as (o2 & Eo2 & _).
  destruct (lowest_correct l3 (c_low c0) [] (c_low c0) R3) as (o3 & Eo3 & _).
  rewrite Eh1, Eh2, Eh3, Eo1, Eo2, Eo3. cbn [obind]. eexists; split; [reflexivity|].
  assert (CH : forall l h0, 1 <= l <= pmax - 1 -> hl_new l (c_high c0) = Ok h0 -> forall xs x,
     snd (highest_step (steps highest_step h0 xs) x) = highest_def (Z.to_nat l) (hget (c_high c0) (rev (xs ++ [x])))).
  { intros l h0 Rl E xs x. destruct (highest_correct l (c_high c0) xs x Rl) as (q & Eq & Hq). rewrite E in Eq. injection Eq as <-. exact Hq. }
  assert (CL : forall l o0, 1 <= l <= pmax - 1 -> hl_new l (c_low c0) = Ok o0 -> forall xs x,
     snd (lowest_step (steps lowest_step o0 xs) x) = lowest_def (Z.to_nat l) (hget (c_low c0) (rev (xs ++ [x])))).
  { intros l o0 Rl E xs x. destruct (lowest_correct l (c_low c0) xs x Rl) as (q & Eq & Hq). rewrite E in Eq. injection Eq as <-. exact Hq. }
  set (w0 := w_new_t m (c_hl2 c0)).
  assert (CW : forall xs x, snd (w_push_t (steps past_next w0 xs) x) = hget (c_hl2 c0) (rev (xs ++ [x])) (Z.to_nat m)).
  { intros xs x. destruct (past_correct m (c_hl2 c0) xs x Hm) as (q & Eq & Hq). unfold past_new in Eq. rewrite bad_len_false in Eq by lia.
    injection Eq as <-. exact Hq. }
  set (s0 := mkIchi src h1 h2 h3 o1 o2 o3 w0 w0 (f0, f0) (f0, f0)).
  assert (G : forall cs0 s,
     ic_h1 (steps ichi_next s cs0) = steps highest_step (ic_h1 s) (map c_high cs0) /\ ic_h2 (steps ichi_next s cs0) = steps highest_step (ic_h2 s) (map c_high cs0) /\
     ic_h3 (steps ichi_next s cs0) = steps highest_step (ic_h3 s) (map c_high cs0) /\ ic_l1 (steps ichi_next s cs0) = steps lowest_step (ic_l1 s) (map c_low cs0) /\
     ic_l2 (steps ichi_next s cs0) = steps lowest_step (ic_l2 s) (map c_low cs0) /\ ic_l3 (steps ichi_next s cs0) = steps lowest_step (ic_l3 s) (map c_low cs0)).
  { induction cs0 as [|k r IH]; intros s; [repeat split; reflexivity|]. unfold steps in *. cbn [fold_left map].
    destruct (IH (fst (ichi_next s k))) as (I1 & I2 & I3 & I4 & I5 & I6). rewrite I1, I2, I3, I4, I5, I6. unfold ichi_next.
    destruct (highest_step (ic_h1 s) (c_high k)), (lowest_step (ic_l1 s) (c_low k)), (highest_step (ic_h2 s) (c_high k)), (lowest_step (ic_l2 s) (c_low k)),
      (highest_step (ic_h3 s) (c_high k)), (lowest_step (ic_l3 s) (c_low k)). dlet. repeat split; reflexivity. }
  set (mid := fun (h : hl (N := NumR)) (o : hl (N := NumR)) (k : C) =>
     fmul (fadd (snd (highest_step h (c_high k))) (snd (lowest_step o (c_low k)))) (flit 1 2)).
  assert (Hmid : forall l hh oo p k, 1 <= l <= pmax - 1 -> hl_new l (c_high c0) = Ok hh -> hl_new l (c_low c0) = Ok oo ->
     mid (steps highest_step hh (map c_high p)) (steps lowest_step oo (map c_low p)) k = mid_hl l c0 (rev (p ++ [k]))).
  { intros l hh oo p k Rl Ehh Eoo. unfold mid. rewrite (CH l hh Rl Ehh), (CL l oo Rl Eoo). unfold mid_hl, hmax, hmin, highest_def, lowest_def.
    rewrite !map_rev, !map_app. reflexivity. }
  set (ia := fun (s : ichi_st (N := NumR)) (k : C) => fmul (fadd (mid (ic_h1 s) (ic_l1 s) k) (mid (ic_h2 s) (ic_l2 s) k)) (flit 1 2)).
  set (ib := fun (s : ichi_st (N := NumR)) (k : C) => mid (ic_h3 s) (ic_l3 s) k).
  set (DA := fun l : list C => fmul (fadd (mid_hl l1 c0 l) (mid_hl l2 c0 l)) (flit 1 2)).
  set (DB := fun l : list C => mid_hl l3 c0 l).
  assert (HDA : forall p k, ia (steps ichi_next s0 p) k = DA (rev (p ++ [k]))).
  { intros p k. destruct (G p s0) as (G1 & G2 & G3 & G4 & G5 & G6). unfold ia. rewrite G1, G2, G4, G5. cbn [ic_h1 ic_h2 ic_l1 ic_l2 s0].
    rewrite (Hmid l1 h1 o1 p k R1 Eh1 Eo1), (Hmid l2 h2 o2 p k R2 Eh2 Eo2). reflexivity. }
  assert (HDB : forall p k, ib (steps ichi_next s0 p) k = DB (rev (p ++ [k]))).
  { intros p k. destruct (G p s0) as (G1 & G2 & G3 & G4 & G5 & G6). unfold ib. rewrite G3, G6. cbn [ic_h3 ic_l3 s0].
    apply (Hmid l3 h3 o3 p k R3 Eh3 Eo3). }
  Ltac dhl s k := destruct (highest_step (ic_h1 s) (c_high k)), (lowest_step (ic_l1 s) (c_low k)), (highest_step (ic_h2 s) (c_high k)),
     (lowest_step (ic_l2 s) (c_low k)), (highest_step (ic_h3 s) (c_high k)), (lowest_step (ic_l3 s) (c_low k)); cbn [snd].
  assert (Hpa : forall s k, ic_w1 (fst (ichi_next s k)) = fst (past_next (ic_w1 s) (ia s k))).
  { intros s k. unfold ichi_next, ia, mid, past_next. dhl s k. destruct (w_push_t (ic_w1 s) _). dlet. reflexivity. }
  assert (Hpb : forall s k, ic_w2 (fst (ichi_next s k)) = fst (past_next (ic_w2 s) (ib s k))).
  { intros s k. unfold ichi_next, ib, mid, past_next. dhl s k. destruct (w_push_t (ic_w1 s) _), (w_push_t (ic_w2 s) _). dlet. reflexivity. }
  pose proof (proj_steps ichi_next past_next ic_w1 ia Hpa cs s0) as SA. pose proof (proj_steps ichi_next past_next ic_w2 ib Hpb cs s0) as SB.
  assert (Hout : fst (snd (ichi_next (steps ichi_next s0 cs) c)) =
     let st := steps ichi_next s0 cs in
     [mid (ic_h1 st) (ic_l1 st) c; mid (ic_h2 st) (ic_l2 st) c; snd (w_push_t (ic_w1 st) (ia st c)); snd (w_push_t (ic_w2 st) (ib st c))]).
  { cbv zeta. unfold ichi_next at 1. unfold ia, ib, mid. dhl (steps ichi_next s0 cs) c.
    destruct (w_push_t (ic_w1 _) _), (w_push_t (ic_w2 _) _). dlet. reflexivity. }
  rewrite Hout. cbv zeta. rewrite SA, SB. cbn [ic_w1 ic_w2 s0]. rewrite !CW.
  rewrite (inputs_series_next ichi_next ia DA s0 HDA cs c), (inputs_series_next ichi_next ib DB s0 HDB cs c).
  destruct (G cs s0) as (G1 & G2 & G3 & G4 & G5 & G6). rewrite G1, G2, G4, G5. cbn [ic_h1 ic_h2 ic_l1 ic_l2 s0].
  rewrite (Hmid l1 h1 o1 cs c R1 Eh1 Eo1), (Hmid l2 h2 o2 cs c R2 Eh2 Eo2).
  unfold ichi_values. cbv zeta. reflexivity.
Qed.
End IP10.
