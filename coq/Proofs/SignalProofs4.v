(** C06 continued: crossing detectors fed a pair that also depends on the CANDLE of the step (e.g. Ichimoku: source against
    the base line).  Same principle as [det_output], with the history of pairs formed from the candles and the results. *)
From Yata Require Import Base.Prelude Base.Num Base.NumR Core.Window Core.Candle Core.Action
  Spec.Hist Methods.Basic Methods.Select Indicators.Common Indicators.Set4
  Proofs.MethodsCommon Proofs.Detectors Proofs.SignalProofs Proofs.SignalProofs2 Proofs.SignalProofs3 Proofs.Cascade Proofs.Selection2.
From Coq Require Import Reals Lra.
Open Scope Z_scope.

Section Generic2.
Context {pw : PW}.
Local Notation R := (@F NumR).
Local Notation C := (candle (N := NumR)).
Local Notation IR := (iresult (N := NumR)).
Context {S D : Type}.
Variable next : S -> C -> S * IR.
Variable dnext : D -> R * R -> D * action.
Variable ddef : (nat -> R * R) -> action.
Variable dget : S -> D.
Variable pf : C -> IR -> R * R.
Variable Good : S -> Prop.
Hypothesis Hgood : forall s k, Good s -> Good (fst (next s k)).
Hypothesis Hstep : forall s k, Good s -> dget (fst (next s k)) = fst (dnext (dget s) (pf k (snd (next s k)))).
Variables (s0 : S) (p0 : R * R).
Hypothesis Hs0 : Good s0.
Hypothesis Hdet : forall ps p, snd (dnext (steps dnext (dget s0) ps) p) = ddef (hget p0 (rev (ps ++ [p]))).

(** pairs formed from every candle consumed so far and the result returned for it *)
Definition cpairs (cs : list C) : list (R * R) := map (fun cr => pf (fst cr) (snd cr)) (combine cs (run next s0 cs)).

Lemma good_steps2 cs : Good (steps next s0 cs).
Proof. induction cs as [|c r IH] using rev_ind; [exact Hs0|]. rewrite steps_snoc. apply Hgood, IH. Qed.

Lemma cpairs_snoc cs k : cpairs (cs ++ [k]) = cpairs cs ++ [pf k (snd (next (steps next s0 cs) k))].
Proof.
  unfold cpairs. rewrite run_app. cbn [run]. destruct (next (steps next s0 cs) k) as (s', y). cbn [snd].
  rewrite combine_app' by (rewrite run_length; reflexivity). rewrite map_app. reflexivity.
Qed.

Lemma det_state2 cs : dget (steps next s0 cs) = steps dnext (dget s0) (cpairs cs).
Proof.
  induction cs as [|c r IH] using rev_ind; [reflexivity|].
  rewrite steps_snoc, Hstep by apply good_steps2. rewrite IH, cpairs_snoc, steps_snoc. reflexivity.
Qed.

Theorem det_output2 cs k :
  snd (dnext (dget (steps next s0 cs)) (pf k (snd (next (steps next s0 cs) k)))) = ddef (hget p0 (rev (cpairs (cs ++ [k])))).
Proof. rewrite det_state2, Hdet, cpairs_snoc. reflexivity. Qed.
End Generic2.

Section Ichimoku.
Context {pw : PW}.
Local Notation R := (@F NumR).
Local Notation C := (candle (N := NumR)).
Local Notation IR := (iresult (N := NumR)).
Ltac dlete := repeat match goal with |- context [let '(_, _) := ?e in _] => let E := fresh "E" in destruct e eqn:E end.

(** pairs fed to the two detectors: (tenkan, kijun) and (source of the candle, kijun) *)
Definition ichi_p1 (k : C) (r : IR) : R * R := (vals r 0, vals r 1).
Definition ichi_p2 (src : source) (k : C) (r : IR) : R * R := (c_source k src, vals r 1).
(** position of the price relative to the cloud [span a; span b] *)
Definition ichi_above (src : source) (k : C) (r : IR) : bool :=
  fgt (c_source k src) (vals r 2) && fgt (c_source k src) (vals r 3) && fgt (vals r 2) (vals r 3).
Definition ichi_below (src : source) (k : C) (r : IR) : bool :=
  flt (c_source k src) (vals r 2) && flt (c_source k src) (vals r 3) && flt (vals r 2) (vals r 3).
Definition ichi_sig (above below : bool) (x : action) : action :=
  a_from_i8 (b2z (above && a_eq x a_buy_all) - b2z (below && a_eq x a_sell_all)).

Lemma ichi_shape (s : ichi_st (N := NumR)) k : let r := snd (ichi_next s k) in let src := ic_source s in
  ic_source (fst (ichi_next s k)) = ic_source s /\
  ic_c1 (fst (ichi_next s k)) = fst (cross_next (ic_c1 s) (ichi_p1 k r)) /\
  ic_c2 (fst (ichi_next s k)) = fst (cross_next (ic_c2 s) (ichi_p2 src k r)) /\
  sigs r = [ichi_sig (ichi_above src k r) (ichi_below src k r) (snd (cross_next (ic_c1 s) (ichi_p1 k r)));
            ichi_sig (ichi_above src k r) (ichi_below src k r) (snd (cross_next (ic_c2 s) (ichi_p2 src k r)))].
Proof.
  cbv zeta. unfold ichi_next. dlete. unfold ichi_p1, ichi_p2, ichi_above, ichi_below, ichi_sig, vals, sigs. cbn [fst snd nth].
  repeat match goal with E : ?l = (_, _) |- context [?l] => rewrite E end. cbn [fst snd]. repeat split; reflexivity.
Qed.

(** IchimokuCloud: #1 = crossing of (tenkan, kijun), #2 = crossing of (source, kijun), each kept only as a FULL signal in the
    direction of the price's position relative to the cloud (above a rising cloud: buy; below a falling cloud: sell) *)
Theorem ichimoku_signals_correct (s0 : ichi_st (N := NumR)) cs k : ic_c1 s0 = (f0, f0) -> ic_c2 s0 = (f0, f0) ->
  let src := ic_source s0 in let r := snd (ichi_next (steps ichi_next s0 cs) k) in
  let x1 := cross_def (hget (f0, f0) (rev (cpairs ichi_next ichi_p1 s0 (cs ++ [k])))) in
  let x2 := cross_def (hget (f0, f0) (rev (cpairs ichi_next (ichi_p2 src) s0 (cs ++ [k])))) in
  sigs r = [ichi_sig (ichi_above src k r) (ichi_below src k r) x1; ichi_sig (ichi_above src k r) (ichi_below src k r) x2].
Proof.
  intros H1 H2. cbv zeta. pose proof (ichi_shape (steps ichi_next s0 cs) k) as Sh. cbv zeta in Sh. destruct Sh as (_ & _ & _ & ->).
  rewrite (steps_field ichi_next ic_source) by (intros s c; apply ichi_shape).
  set (Good := fun s : ichi_st (N := NumR) => ic_source s = ic_source s0).
  assert (Hg : forall s c, Good s -> Good (fst (ichi_next s c))).
  { intros s c G. unfold Good in *. rewrite (proj1 (ichi_shape s c)). exact G. }
  rewrite (det_output2 ichi_next cross_next cross_def ic_c1 ichi_p1 Good Hg) with (p0 := (@f0 NumR, @f0 NumR)).
  rewrite (det_output2 ichi_next cross_next cross_def ic_c2 (ichi_p2 (ic_source s0)) Good Hg) with (p0 := (@f0 NumR, @f0 NumR)).
  reflexivity.
  all: try (unfold Good; reflexivity).
  - intros s c G. unfold Good in G. rewrite <- G. apply ichi_shape.
  - intros ps p. rewrite H2. apply cross_default_correct.
  - intros s c G. apply ichi_shape.
  - intros ps p. rewrite H1. apply cross_default_correct.
Qed.
End Ichimoku.
