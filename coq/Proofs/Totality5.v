(** C10 continued: the MA constructor accepts exactly the documented lengths of each kind.  Acceptance is [ma_correct]
    (an accepted length yields a running instance, which moreover returns the kind's definition); here the other half: every
    other length of the parameter type is rejected with an error, for every kind, construction value and width. *)
From Yata Require Import Base.Prelude Base.Num Core.Window Core.Candle Core.Action Core.Strings
  Methods.Basic Methods.Select Indicators.Common.
From Coq Require Import Lia.
Open Scope Z_scope.

Section MaReject.
Context {pw : PW} {N : Num}.

Definition ma_rejects (c : ma_cfg) : bool :=
  let 'MAcfg k n := c in
  match k with
  | KHMA | KLinReg => (n <? 2) || (n =? pmax)
  | KRMA => n =? 0
  | KWSMA => (n =? 0) || (pmax / 2 <? n)
  | _ => (n =? 0) || (n =? pmax)
  end.

Lemma bad_len_true n : (n =? 0) || (n =? pmax) = true -> bad_len n = true.
Proof. intros H. exact H. Qed.

Theorem ma_init_rejects (c : ma_cfg) (v : F) : 0 <= ma_period c -> ma_rejects c = true -> is_ok (ma_init c v) = false.
Proof.
  destruct c as (k, n). cbn [ma_period]. intros Hn Hr. unfold ma_init, ma_rejects in *.
  destruct k; cbn [omap].
  - unfold sma_new. rewrite (bad_len_true n Hr). reflexivity.
  - unfold wma_new. rewrite (bad_len_true n Hr). reflexivity.
  - unfold hma_new. destruct (Z.eqb_spec n 0) as [E|E]; [reflexivity|]. destruct (Z.eqb_spec n 1) as [E1|E1]; [reflexivity|]. cbn [orb].
    assert (Hp : n = pmax).
    { apply Bool.orb_prop in Hr. destruct Hr as [H|H]; [apply Z.ltb_lt in H; lia|apply Z.eqb_eq in H; exact H]. }
    destruct (wma_new (n / 2) v); cbn [obind]; try reflexivity.
    unfold wma_new at 1. assert (Hb : bad_len n = true) by (unfold bad_len; rewrite Hp, Z.eqb_refl, Bool.orb_true_r; reflexivity).
    rewrite Hb. reflexivity.
  - unfold rma_new. rewrite Hr. reflexivity.
  - unfold ema_new. rewrite (bad_len_true n Hr). reflexivity.
  - unfold dma_new. destruct (Z.eqb_spec n 0); [reflexivity|]. cbn [orb] in Hr. unfold ema_new. unfold bad_len. rewrite Hr, Bool.orb_true_r. reflexivity.
  - unfold dema_new, dma_new. destruct (Z.eqb_spec n 0); [reflexivity|]. cbn [orb] in Hr. unfold ema_new. unfold bad_len. rewrite Hr, Bool.orb_true_r. reflexivity.
  - unfold tma_new. destruct (Z.eqb_spec n 0); [reflexivity|]. cbn [orb] in Hr. unfold dma_new. destruct (n =? 0); [reflexivity|].
    unfold ema_new. unfold bad_len. rewrite Hr, Bool.orb_true_r. reflexivity.
  - unfold tema_new. destruct (Z.eqb_spec n 0); [reflexivity|]. cbn [orb] in Hr. unfold ema_new. unfold bad_len. rewrite Hr, Bool.orb_true_r. reflexivity.
  - unfold wsma_new. rewrite Hr. reflexivity.
  - unfold smm_new. destruct (negb (fis_finite v)); [reflexivity|]. rewrite (bad_len_true n Hr). reflexivity.
  - unfold swma_new. rewrite (bad_len_true n Hr). reflexivity.
  - unfold trima_new, sma_new. rewrite (bad_len_true n Hr). reflexivity.
  - unfold linreg_new. apply Bool.orb_prop in Hr. destruct Hr as [H|H].
    + apply Z.ltb_lt in H. destruct (Z.eqb_spec n 0); [reflexivity|]. destruct (Z.eqb_spec n 1); [reflexivity|]. lia.
    + rewrite H, !Bool.orb_true_r. reflexivity.
  - unfold vidya_new. rewrite (bad_len_true n Hr). reflexivity.
Qed.
End MaReject.

From Yata Require Import Base.NumR Spec.Hist Proofs.MAProofs Proofs.IndicatorProofs11.
Section MaAccept.
Context {pw : PW}.
Lemma not_rejected_len_ok (c : ma_cfg) : 0 <= ma_period c <= pmax -> pmax / 2 * 2 + 1 = pmax -> ma_rejects c = false -> ma_len_ok c.
Proof.
  destruct c as (k, n). cbn [ma_period]. intros Hn Hodd Hr. unfold ma_rejects in Hr. unfold ma_len_ok.
  destruct k; repeat match goal with
    | H : (_ || _) = false |- _ => apply Bool.orb_false_elim in H; destruct H
    | H : (_ =? _) = false |- _ => apply Z.eqb_neq in H
    | H : (_ <? _) = false |- _ => apply Z.ltb_ge in H end; lia.
Qed.
(** the MA constructor accepts exactly the documented lengths: all lengths of the parameter type except those of [ma_rejects] *)
Theorem ma_init_acceptance (c : ma_cfg) (v : @F NumR) : 0 <= ma_period c <= pmax -> pmax / 2 * 2 + 1 = pmax ->
  is_ok (ma_init c v) = negb (ma_rejects c).
Proof.
  intros Hn Hodd. destruct (ma_rejects c) eqn:Hr; cbn [negb].
  - apply ma_init_rejects; [lia|exact Hr].
  - destruct (ma_correct c v [] v (ma_proved_all c) (not_rejected_len_ok c Hn Hodd Hr)) as (s0 & E & _). rewrite E. reflexivity.
Qed.
End MaAccept.
