(** C02: the sliding-window methods equal their from-scratch definitions on
    every stream, every length and every position (exact arithmetic, NumR). *)
From Yata Require Import Base.Prelude Base.Num Base.NumR Core.Window Core.WindowSpec Core.Candle
  Spec.Hist Spec.MethodDefs Methods.Basic Proofs.MethodsCommon.
From Coq Require Import Reals Lra.
Open Scope Z_scope.


Section Proofs.
Context {pw : PW}.
Local Notation "'R'" := (@F NumR) (only parsing).

(* ------------------------------------------------------------------ SMA *)
Definition sma_inv (n : nat) (s : sma (N := NumR)) (h : nat -> R) : Prop :=
  WinOK n (sma_window s) h /\ sma_divider s = (/ INR n)%R /\ sma_value s = sma_def n h.

Lemma sma_step n s h x : sma_inv (S n) s h ->
  sma_inv (S n) (fst (sma_next s x)) (hcons x h) /\
  snd (sma_next s x) = sma_def (S n) (hcons x h).
Proof.
  intros (Hw & Hd & Hv). destruct (winok_push n _ h x Hw) as (w' & Hp & Hw').
  unfold sma_next. rewrite Hp. cbv zeta. cbn [fst snd].
  assert (E : (fadd (sma_value s) (fmul (fsub x (h n)) (sma_divider s)) = sma_def (S n) (hcons x h))).
  { rewrite Hd, Hv. unfold sma_def, hsum.
    pose proof (gsum_hcons n x h (fun y => y)) as G. cbn beta in G.
    change (gsum (S n) (fun i => hcons x h i)) with (gsum (S n) (hcons x h)) in G.
    change (gsum (S n) (fun i => h i)) with (gsum (S n) h) in G.
    rewrite G. rsimp. pose proof (INR_S_neq n). field. assumption. }
  split; [|exact E]. split; [exact Hw'|]. split; [exact Hd|exact E].
Qed.

Lemma sma_init n v : 1 <= n <= pmax - 1 ->
  exists s0, sma_new n v = Ok s0 /\ sma_inv (Z.to_nat n) s0 (hconst v).
Proof.
  intros Hn. unfold sma_new. rewrite bad_len_false by lia. eexists; split; [reflexivity|].
  split; [apply winok_new; lia|]. cbn [sma_divider sma_value]. split.
  - unfold frecip. rsimp. rewrite (IZR_nat n) by lia. unfold Rdiv. lra.
  - unfold sma_def, hsum, hconst. rewrite gsum_const. rsimp.
    destruct (nat_len n ltac:(lia)) as (m & ->). pose proof (INR_S_neq m). field. assumption.
Qed.

Theorem sma_correct n v xs x : 1 <= n <= pmax - 1 ->
  exists s0, sma_new n v = Ok s0 /\
    snd (sma_next (steps sma_next s0 xs) x) = sma_def (Z.to_nat n) (hget v (rev (xs ++ [x]))).
Proof.
  intros Hn. destruct (sma_init n v Hn) as (s0 & Hnew & Hinv). exists s0. split; [exact Hnew|].
  destruct (nat_len n ltac:(lia)) as (m & Em). rewrite Em in *.
  apply (inv_correct sma_next (sma_inv (S m)) (sma_def (S m)) (sma_step m) s0 v xs x Hinv).
Qed.

(* ------------------------------------------------- Integral (windowed) *)
Definition integral_inv (n : nat) (s : integral (N := NumR)) (h : nat -> R) : Prop :=
  WinOK n (in_window s) h /\ in_value s = integral_def n h.

Lemma integral_step n s h x : integral_inv (S n) s h ->
  integral_inv (S n) (fst (integral_next s x)) (hcons x h) /\
  snd (integral_next s x) = integral_def (S n) (hcons x h).
Proof.
  intros (Hw & Hv). destruct (winok_push n _ h x Hw) as (w' & Hp & Hw').
  unfold integral_next. rewrite (winok_nonempty _ _ _ Hw), Hp. cbv zeta. cbn [fst snd].
  assert (E : fsub (fadd (in_value s) x) (h n) = integral_def (S n) (hcons x h)).
  { rewrite Hv. unfold integral_def, hsum.
    pose proof (gsum_hcons n x h (fun y => y)) as G. cbn beta in G.
    change (gsum (S n) (fun i => hcons x h i)) with (gsum (S n) (hcons x h)) in G.
    change (gsum (S n) (fun i => h i)) with (gsum (S n) h) in G. rewrite G. rsimp. lra. }
  split; [split; [exact Hw'|exact E]|exact E].
Qed.

Lemma integral_init n v : 1 <= n <= pmax - 1 ->
  exists s0, integral_new n v = Ok s0 /\ integral_inv (Z.to_nat n) s0 (hconst v).
Proof.
  intros Hn. unfold integral_new. destruct (Z.eqb_spec n pmax); [lia|].
  eexists; split; [reflexivity|]. split; [apply winok_new; lia|]. cbn [in_value].
  unfold integral_def, hsum, hconst. rewrite gsum_const. rsimp. rewrite (IZR_nat n) by lia. lra.
Qed.

Theorem integral_correct n v xs x : 1 <= n <= pmax - 1 ->
  exists s0, integral_new n v = Ok s0 /\
    snd (integral_next (steps integral_next s0 xs) x) = integral_def (Z.to_nat n) (hget v (rev (xs ++ [x]))).
Proof. intros Hn. by_inv (integral_init n v Hn) integral_step. Qed.

(* ------------------------------- Momentum, Derivative, RateOfChange, Past *)
Definition win_inv (n : nat) (w : window R) (h : nat -> R) : Prop := WinOK n w h.

Lemma momentum_step n w h x : win_inv (S n) w h ->
  win_inv (S n) (fst (momentum_next w x)) (hcons x h) /\
  snd (momentum_next w x) = momentum_def (S n) (hcons x h).
Proof.
  intros Hw. destruct (winok_push n _ h x Hw) as (w' & Hp & Hw').
  unfold momentum_next. rewrite Hp. cbn [fst snd]. split; [exact Hw'|reflexivity].
Qed.
Lemma momentum_init n v : 1 <= n <= pmax - 1 ->
  exists s0, momentum_new n v = Ok s0 /\ win_inv (Z.to_nat n) s0 (hconst v).
Proof. intros Hn. unfold momentum_new. rewrite bad_len_false by lia.
  eexists; split; [reflexivity|]. apply winok_new; lia. Qed.
Theorem momentum_correct n v xs x : 1 <= n <= pmax - 1 ->
  exists s0, momentum_new n v = Ok s0 /\
    snd (momentum_next (steps momentum_next s0 xs) x) = momentum_def (Z.to_nat n) (hget v (rev (xs ++ [x]))).
Proof. intros Hn. by_inv (momentum_init n v Hn) momentum_step. Qed.

Lemma roc_step n w h x : win_inv (S n) w h ->
  win_inv (S n) (fst (roc_next w x)) (hcons x h) /\
  snd (roc_next w x) = roc_def (S n) (hcons x h).
Proof.
  intros Hw. destruct (winok_push n _ h x Hw) as (w' & Hp & Hw').
  unfold roc_next. rewrite Hp. cbn [fst snd]. split; [exact Hw'|reflexivity].
Qed.
Theorem roc_correct n v xs x : 1 <= n <= pmax - 1 ->
  exists s0, roc_new n v = Ok s0 /\
    snd (roc_next (steps roc_next s0 xs) x) = roc_def (Z.to_nat n) (hget v (rev (xs ++ [x]))).
Proof. intros Hn. by_inv (momentum_init n v Hn) roc_step. Qed.

Lemma past_step n w h x : win_inv (S n) w h ->
  win_inv (S n) (fst (past_next w x)) (hcons x h) /\
  snd (past_next w x) = past_def (S n) (hcons x h).
Proof.
  intros Hw. destruct (winok_push n _ h x Hw) as (w' & Hp & Hw').
  unfold past_next. rewrite Hp. cbn [fst snd]. split; [exact Hw'|reflexivity].
Qed.
Lemma past_init n (v : R) : 1 <= n <= pmax - 1 ->
  exists s0, past_new n v = Ok s0 /\ win_inv (Z.to_nat n) s0 (hconst v).
Proof. intros Hn. unfold past_new. rewrite bad_len_false by lia.
  eexists; split; [reflexivity|]. apply winok_new; lia. Qed.
Theorem past_correct n (v : R) xs x : 1 <= n <= pmax - 1 ->
  exists s0, past_new n v = Ok s0 /\
    snd (past_next (steps past_next s0 xs) x) = past_def (Z.to_nat n) (hget v (rev (xs ++ [x]))).
Proof. intros Hn. by_inv (past_init n v Hn) past_step. Qed.

Definition deriv_inv (n : nat) (s : deriv (N := NumR)) (h : nat -> R) : Prop :=
  WinOK n (dv_window s) h /\ dv_divider s = (/ INR n)%R.
Lemma derivative_step n s h x : deriv_inv (S n) s h ->
  deriv_inv (S n) (fst (derivative_next s x)) (hcons x h) /\
  snd (derivative_next s x) = derivative_def (S n) (hcons x h).
Proof.
  intros (Hw & Hd). destruct (winok_push n _ h x Hw) as (w' & Hp & Hw').
  unfold derivative_next. rewrite Hp. cbn [fst snd]. split; [split; [exact Hw'|exact Hd]|].
  rewrite Hd. unfold derivative_def. cbn [hcons]. rsimp. unfold Rdiv. reflexivity.
Qed.
Lemma derivative_init n v : 1 <= n <= pmax - 1 ->
  exists s0, derivative_new n v = Ok s0 /\ deriv_inv (Z.to_nat n) s0 (hconst v).
Proof. intros Hn. unfold derivative_new. rewrite bad_len_false by lia.
  eexists; split; [reflexivity|]. split; [apply winok_new; lia|]. cbn [dv_divider].
  unfold frecip. rsimp. rewrite (IZR_nat n) by lia. unfold Rdiv. lra. Qed.
Theorem derivative_correct n v xs x : 1 <= n <= pmax - 1 ->
  exists s0, derivative_new n v = Ok s0 /\
    snd (derivative_next (steps derivative_next s0 xs) x) = derivative_def (Z.to_nat n) (hget v (rev (xs ++ [x]))).
Proof. intros Hn. by_inv (derivative_init n v Hn) derivative_step. Qed.

(* ------------------------------------------------------ LinearVolatility *)
Definition dh (h : nat -> R) : nat -> R := fun i => Rabs (h i - h (S i)).
Definition linvol_inv (n : nat) (s : linvol (N := NumR)) (h : nat -> R) : Prop :=
  WinOK n (lv_window s) (dh h) /\ lv_prev s = h O /\ lv_vol s = linvol_def n h.
Lemma linvol_step n s h x : linvol_inv (S n) s h ->
  linvol_inv (S n) (fst (linvol_next s x)) (hcons x h) /\
  snd (linvol_next s x) = linvol_def (S n) (hcons x h).
Proof.
  intros (Hw & Hp0 & Hv).
  destruct (winok_push n _ (dh h) (fabs (fsub x (lv_prev s))) Hw) as (w' & Hp & Hw').
  unfold linvol_next. cbv zeta. rewrite Hp. cbn [fst snd].
  assert (E : fadd (lv_vol s) (fsub (fabs (fsub x (lv_prev s))) (dh h n)) = linvol_def (S n) (hcons x h)).
  { rewrite Hv, Hp0. unfold linvol_def.
    rewrite (gsum_S_shift n (fun i => fabs (fsub (hcons x h i) (hcons x h (S i))))).
    rewrite (gsum_S n (fun i => fabs (fsub (h i) (h (S i))))). cbn [hcons]. unfold dh. rsimp. lra. }
  split; [split; [|split; [reflexivity|exact E]]|exact E].
  eapply winok_ext; [|exact Hw']. intros [|i]; cbn [hcons]; unfold dh; rewrite ?Hp0; reflexivity.
Qed.
Lemma linvol_init n v : 1 <= n <= pmax - 1 ->
  exists s0, linvol_new n v = Ok s0 /\ linvol_inv (Z.to_nat n) s0 (hconst v).
Proof. intros Hn. unfold linvol_new. rewrite bad_len_false by lia.
  eexists; split; [reflexivity|]. split; [|split; [reflexivity|]].
  - eapply winok_ext; [|apply winok_new; lia]. intros i. unfold hconst, dh. rsimp.
    unfold Rminus; rewrite Rplus_opp_r, Rabs_R0. reflexivity.
  - cbn [lv_vol]. unfold linvol_def, hconst. rsimp.
    rewrite (gsum_ext _ _ (fun _ => 0%R)); [rewrite gsum_const; lra|].
    intros i _. unfold Rminus; rewrite Rplus_opp_r, Rabs_R0. reflexivity.
Qed.
Theorem linvol_correct n v xs x : 1 <= n <= pmax - 1 ->
  exists s0, linvol_new n v = Ok s0 /\
    snd (linvol_next (steps linvol_next s0 xs) x) = linvol_def (Z.to_nat n) (hget v (rev (xs ++ [x]))).
Proof. intros Hn. by_inv (linvol_init n v Hn) linvol_step. Qed.
End Proofs.
