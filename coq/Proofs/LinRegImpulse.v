(** C15 continued: impulse response of LinReg - a unit impulse k steps ago contributes the least-squares end-point weight
    2 (2n - 1 - 3k) / (n (n + 1)) while it is in the window (the weights sum to 1, the newest input has the largest one, the
    oldest ones are negative: LinReg overshoots). *)
From Yata Require Import Base.Prelude Base.Num Base.NumR Spec.Hist Spec.MethodDefs Proofs.MethodsCommon Proofs.Averages.
From Coq Require Import Reals Lra Lia.
Open Scope R_scope.

Lemma gsum_id n : gsum (N := NumR) n (fun i => INR i) = INR n * (INR n - 1) / 2.
Proof.
  induction n as [|n IH]; [unfold gsum; cbn; numR; lra|]. rewrite gsum_S, IH, S_INR. lra.
Qed.
Lemma gsum_sq n : gsum (N := NumR) n (fun i => INR i * INR i) = (INR n - 1) * INR n * (2 * INR n - 1) / 6.
Proof.
  induction n as [|n IH]; [unfold gsum; cbn; numR; lra|]. rewrite gsum_S, IH, S_INR. lra.
Qed.

Theorem linreg_impulse n k : (2 <= n)%nat -> (k < n)%nat ->
  linreg_def n (impulse k) = 2 * (2 * INR n - 1 - 3 * INR k) / (INR n * (INR n + 1)).
Proof.
  intros Hn Hk. unfold linreg_def, hsum. cbv zeta. rsimp.
  rewrite (gsum_ext n (fun i => - fofN (N := NumR) i) (fun i => -1 * INR i)) by (intros; rewrite fofN_INR; lra). rewrite gsum_scal, gsum_id.
  rewrite (gsum_ext n (impulse k) (fun i => 1 * impulse k i)) by (intros; lra). rewrite gsum_impulse.
  rewrite (gsum_ext n (fun i => - fofN (N := NumR) i * impulse k i) (fun i => (- INR i) * impulse k i)) by (intros; rewrite fofN_INR; lra).
  rewrite gsum_impulse.
  rewrite (gsum_ext n (fun i => fofN (N := NumR) i * fofN (N := NumR) i) (fun i => INR i * INR i)) by (intros; rewrite !fofN_INR; reflexivity).
  rewrite gsum_sq. destruct (Nat.ltb_spec k n) as [_|H]; [|lia].
  assert (H2 : 2 <= INR n) by (change 2 with (INR 2); apply le_INR; exact Hn).
  field. split; [lra|]. split; [lra|].
  replace (INR n * ((INR n - 1) * INR n * (2 * INR n - 1)) * 4 - -1 * (INR n * (INR n - 1)) * (-1 * (INR n * (INR n - 1))) * 6)
    with (2 * (INR n * INR n) * ((INR n - 1) * (INR n + 1))) by ring.
  assert (0 < INR n * INR n) by nra. assert (0 < (INR n - 1) * (INR n + 1)) by nra. nra.
Qed.
