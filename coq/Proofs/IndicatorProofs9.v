(** C05 continued: KlingerVolumeOscillator (signed volume -> two averages -> difference -> signal average) and
    ChaikinOscillator (two averages of the accumulation/distribution line, windowed or cumulative). *)
From Yata Require Import Base.Prelude Base.Num Base.NumR Core.Window Core.WindowSpec Core.Candle Core.Action Core.Strings
  Spec.Hist Spec.MethodDefs Spec.IndicatorDefs Methods.Basic Methods.Select Indicators.Common Indicators.Set4 Indicators.Set5
  Proofs.MethodsCommon Proofs.Windowed Proofs.Windowed3 Proofs.Windowed5 Proofs.Tsi Proofs.MAProofs Proofs.Cascade Proofs.IndicatorProofs3 Proofs.IndicatorProofs7.
From Coq Require Import Reals Lra.
Open Scope Z_scope.

Section IP9.
Context {pw : PW}.
Local Notation R := (@F NumR).
Local Notation C := (candle (N := NumR)).
Ltac dlet := repeat match goal with |- context [let '(_, _) := ?e in _] => destruct e end.

(** ---- Klinger volume oscillator *)
Theorem kvo_values_correct (ma1 ma2 signal : ma_cfg) (c0 : C) cs c :
  ma_similar ma1 ma2 = true -> 1 < ma_period ma1 < ma_period ma2 -> 1 < ma_period signal ->
  ma_proved ma1 = true -> ma_len_ok ma1 -> ma_proved ma2 = true -> ma_len_ok ma2 -> ma_proved signal = true -> ma_len_ok signal ->
  exists s0, kvo_init ma1 ma2 signal c0 = Ok s0 /\
    fst (snd (kvo_next (steps kvo_next s0 cs) c)) = kvo_values ma1 ma2 signal c0 (rev (cs ++ [c])).
Proof.
  intros Hsim Hp Hs P1 L1 P2 L2 P3 L3. unfold kvo_init. rewrite Hsim.
  destruct (Z.ltb_spec 1 (ma_period ma1)); [|lia]. destruct (Z.ltb_spec 1 (ma_period signal)); [|lia].
  destruct (Z.ltb_spec (ma_period ma1) (ma_period ma2)); [|lia]. cbn [andb negb].
  destruct (ma_correct ma1 (f0 (N := NumR)) [] (f0 (N := NumR)) P1 L1) as (a0 & Ea & _).
  destruct (ma_correct ma2 (f0 (N := NumR)) [] (f0 (N := NumR)) P2 L2) as (b0 & Eb & _).
  destruct (ma_correct signal (f0 (N := NumR)) [] (f0 (N := NumR)) P3 L3) as (g0 & Eg & _).
  rewrite Ea, Eb, Eg. cbn [obind]. eexists; split; [reflexivity|].
  pose proof (ma_correct' _ _ _ P1 L1 Ea) as C1. pose proof (ma_correct' _ _ _ P2 L2 Eb) as C2. pose proof (ma_correct' _ _ _ P3 L3 Eg) as C3.
  set (s0 := mkKvo a0 b0 g0 (f0, f0) (f0, f0) (c_tp c0)).
  assert (Hlast : forall p, kv_last_tp (steps kvo_next s0 p) = c_tp (hget c0 (rev p) 0%nat)).
  { intros p. destruct p as [|a q _] using rev_ind; [reflexivity|]. rewrite steps_snoc, rev_unit. cbn [hget hcons].
    unfold kvo_next. dlet. reflexivity. }
  (* level 1: the signed volume fed to both averages *)
  set (sv := fun (s : kvo_st (N := NumR)) (k : C) => fmul (fsign (fsub (c_tp k) (kv_last_tp s))) (c_volume k)).
  set (D1 := fun l : list C => let h := hget c0 l in let d := fsub (c_tp (h O)) (c_tp (h 1%nat)) in
               fmul (fsub (fofb (fgt d f0)) (fofb (flt d f0))) (c_volume (h O))).
  assert (HD1 : forall p k, sv (steps kvo_next s0 p) k = D1 (rev (p ++ [k]))).
  { intros p k. unfold sv, D1. cbv zeta. rewrite Hlast, rev_unit. cbn [hget hcons]. reflexivity. }
  assert (Hp1 : forall s k, kv_ma1 (fst (kvo_next s k)) = fst (ma_next (kv_ma1 s) (sv s k))).
  { intros s k. unfold kvo_next, sv. destruct (ma_next (kv_ma1 s) _). dlet. reflexivity. }
  assert (Hp2 : forall s k, kv_ma2 (fst (kvo_next s k)) = fst (ma_next (kv_ma2 s) (sv s k))).
  { intros s k. unfold kvo_next, sv. destruct (ma_next (kv_ma1 s) _), (ma_next (kv_ma2 s) _). dlet. reflexivity. }
  pose proof (proj_steps kvo_next ma_next kv_ma1 sv Hp1) as S1. pose proof (proj_steps kvo_next ma_next kv_ma2 sv Hp2) as S2.
  (* level 2: the oscillator fed to the signal average *)
  set (ko := fun (s : kvo_st (N := NumR)) (k : C) => fsub (snd (ma_next (kv_ma1 s) (sv s k))) (snd (ma_next (kv_ma2 s) (sv s k)))).
  set (D2 := fun l : list C => fsub (ma_def ma1 f0 (series D1 l)) (ma_def ma2 f0 (series D1 l))).
  assert (HD2 : forall p k, ko (steps kvo_next s0 p) k = D2 (rev (p ++ [k]))).
  { intros p k. unfold ko. rewrite S1, S2. cbn [kv_ma1 kv_ma2 s0]. rewrite C1, C2.
    rewrite (inputs_series_next kvo_next sv D1 s0 HD1 p k). reflexivity. }
  assert (Hp3 : forall s k, kv_ma3 (fst (kvo_next s k)) = fst (ma_next (kv_ma3 s) (ko s k))).
  { intros s k. unfold kvo_next, ko, sv. destruct (ma_next (kv_ma1 s) _), (ma_next (kv_ma2 s) _). cbn [snd]. destruct (ma_next (kv_ma3 s) _). dlet. reflexivity. }
  pose proof (proj_steps kvo_next ma_next kv_ma3 ko Hp3 cs s0) as S3.
  assert (Hout : fst (snd (kvo_next (steps kvo_next s0 cs) c)) =
     [ko (steps kvo_next s0 cs) c; snd (ma_next (kv_ma3 (steps kvo_next s0 cs)) (ko (steps kvo_next s0 cs) c))]).
  { unfold kvo_next at 1. unfold ko, sv. destruct (ma_next (kv_ma1 _) _), (ma_next (kv_ma2 _) _). cbn [snd]. destruct (ma_next (kv_ma3 _) _). dlet. reflexivity. }
  rewrite Hout, S3. cbn [kv_ma3 s0]. rewrite C3.
  rewrite (inputs_series_next kvo_next ko D2 s0 HD2 cs c). rewrite HD2.
  unfold kvo_values. cbv zeta. unfold D2, series. rewrite series_series, map_map. reflexivity.
Qed.

(** ---- Chaikin oscillator *)
Theorem chaikin_oscillator_values_correct (ma1 ma2 : ma_cfg) window (c0 : C) cs c :
  ma_similar ma1 ma2 = true -> 0 < ma_period ma1 < ma_period ma2 -> ma_period ma2 < pmax -> 0 <= window <= pmax - 1 -> 2 <= pmax ->
  ma_proved ma1 = true -> ma_len_ok ma1 -> ma_proved ma2 = true -> ma_len_ok ma2 ->
  exists s0, co_init ma1 ma2 window c0 = Ok s0 /\
    fst (snd (co_next (steps co_next s0 cs) c)) = co_values ma1 ma2 window c0 (rev (cs ++ [c])).
Proof.
  intros Hsim Hp Hp2 Hw Hpm P1 L1 P2 L2. unfold co_init. rewrite Hsim.
  destruct (Z.ltb_spec 0 (ma_period ma1)); [|lia]. destruct (Z.ltb_spec (ma_period ma1) (ma_period ma2)); [|lia].
  destruct (Z.ltb_spec (ma_period ma2) pmax); [|lia]. cbn [andb negb].
  set (D := fun l : list C => if (window =? 0)%Z then cumsum (map clvv l) else adi_def (Z.to_nat window) (hget c0 l)).
  set (seed := if (window =? 0)%Z then f0 (N := NumR) else fmul (clvv c0) (fofZ window)).
  assert (Hadi : exists a0, adi_new window c0 = Ok a0 /\ adi_peek a0 = seed /\
            forall xs x, snd (adi_next (steps adi_next a0 xs) x) = D (rev (xs ++ [x]))).
  { unfold D, seed. destruct (Z.eqb_spec window 0) as [E0|E0].
    - subst window. destruct (adi0_correct c0 [] c0 Hpm) as (a0 & Ea & _). exists a0. split; [exact Ea|]. split.
      + unfold adi_new in Ea. destruct (Z.eqb_spec 0 pmax); [lia|]. cbn in Ea. injection Ea as <-. reflexivity.
      + intros xs x. destruct (adi0_correct c0 xs x Hpm) as (a1 & Ea1 & Ha1). rewrite Ea in Ea1. injection Ea1 as <-. exact Ha1.
    - assert (Rw : 1 <= window <= pmax - 1) by lia. destruct (adi_correct window c0 [] c0 Rw) as (a0 & Ea & _). exists a0. split; [exact Ea|]. split.
      + unfold adi_new in Ea. destruct (Z.eqb_spec window pmax); [lia|]. destruct (Z.ltb_spec 0 window); [|lia]. injection Ea as <-. reflexivity.
      + intros xs x. destruct (adi_correct window c0 xs x Rw) as (a1 & Ea1 & Ha1). rewrite Ea in Ea1. injection Ea1 as <-. exact Ha1. }
  destruct Hadi as (a0 & Ea & Epk & Ca). rewrite Ea. cbn [obind]. rewrite Epk.
  destruct (ma_correct ma1 seed [] seed P1 L1) as (m1 & E1 & _). destruct (ma_correct ma2 seed [] seed P2 L2) as (m2 & E2 & _).
  rewrite E1, E2. cbn [obind]. eexists; split; [reflexivity|].
  pose proof (ma_correct' _ _ _ P1 L1 E1) as C1. pose proof (ma_correct' _ _ _ P2 L2 E2) as C2.
  set (s0 := mkCo a0 m1 m2 (f0, f0)).
  assert (Hpa : forall cs0 s, co_adi (steps co_next s cs0) = steps adi_next (co_adi s) cs0).
  { induction cs0 as [|k r IH]; intros s; [reflexivity|]. unfold steps in *. cbn [fold_left]. rewrite IH. f_equal.
    unfold co_next. destruct (adi_next (co_adi s) k). dlet. reflexivity. }
  set (inp := fun (s : co_st (N := NumR)) (k : C) => snd (adi_next (co_adi s) k)).
  assert (HD : forall p k, inp (steps co_next s0 p) k = D (rev (p ++ [k]))).
  { intros p k. unfold inp. rewrite Hpa. cbn [co_adi s0]. apply Ca. }
  assert (Hp1 : forall s k, co_ma1 (fst (co_next s k)) = fst (ma_next (co_ma1 s) (inp s k))).
  { intros s k. unfold co_next, inp. destruct (adi_next (co_adi s) k). cbn [snd]. destruct (ma_next (co_ma1 s) _). dlet. reflexivity. }
  assert (Hp2' : forall s k, co_ma2 (fst (co_next s k)) = fst (ma_next (co_ma2 s) (inp s k))).
  { intros s k. unfold co_next, inp. destruct (adi_next (co_adi s) k). cbn [snd]. destruct (ma_next (co_ma1 s) _), (ma_next (co_ma2 s) _). dlet. reflexivity. }
  pose proof (proj_steps co_next ma_next co_ma1 inp Hp1 cs s0) as S1. pose proof (proj_steps co_next ma_next co_ma2 inp Hp2' cs s0) as S2.
  assert (Hout : fst (snd (co_next (steps co_next s0 cs) c)) =
     [fsub (snd (ma_next (co_ma1 (steps co_next s0 cs)) (inp (steps co_next s0 cs) c)))
           (snd (ma_next (co_ma2 (steps co_next s0 cs)) (inp (steps co_next s0 cs) c)))]).
  { unfold co_next at 1. unfold inp. destruct (adi_next (co_adi _) c). cbn [snd]. destruct (ma_next (co_ma1 _) _), (ma_next (co_ma2 _) _). dlet. reflexivity. }
  rewrite Hout, S1, S2. cbn [co_ma1 co_ma2 s0]. rewrite C1, C2.
  rewrite (inputs_series_next co_next inp D s0 HD cs c).
  unfold co_values. cbv zeta. reflexivity.
Qed.

(** ---- Coppock curve: average of the sum of two rates of change, and its signal average *)
Theorem coppock_values_correct (cfg : cop_cfg) (c0 : C) cs c : cop_validate cfg = true -> cc_left cfg + cc_right cfg <= pmax - 2 ->
  ma_proved (cc_ma1 cfg) = true -> ma_len_ok (cc_ma1 cfg) -> ma_proved (cc_s3 cfg) = true -> ma_len_ok (cc_s3 cfg) ->
  exists s0, cop_init (N := NumR) cfg c0 = Ok s0 /\
    fst (snd (cop_next (steps cop_next s0 cs) c)) =
    cop_values (cc_ma1 cfg) (cc_s3 cfg) (cc_p2 cfg) (cc_p3 cfg) (cc_source cfg) c0 (rev (cs ++ [c])).
Proof.
  intros Hv Hlr2 P1 L1 P2 L2. unfold cop_init. rewrite Hv. cbn [negb]. cbv zeta.
  assert (Hr : 1 <= cc_p3 cfg /\ cc_p3 cfg < cc_p2 cfg /\ cc_p2 cfg <= pmax - 1 /\ 1 <= cc_left cfg /\ 1 <= cc_right cfg /\ sat_add (cc_left cfg) (cc_right cfg) < pmax).
  { unfold cop_validate in Hv. repeat (apply andb_prop in Hv; destruct Hv as (Hv & ?)).
    repeat match goal with H : (_ <? _) = true |- _ => apply Z.ltb_lt in H end. lia. }
  destruct Hr as (H3 & H32 & H2 & Hl & Hrr & Hlr).
  set (f := fun k : C => c_source k (cc_source cfg)). set (v0 := f c0).
  assert (R2 : 1 <= cc_p2 cfg <= pmax - 1) by lia. assert (R3 : 1 <= cc_p3 cfg <= pmax - 1) by lia.
  destruct (roc_correct (cc_p2 cfg) v0 [] v0 R2) as (r1 & Er1 & _). destruct (roc_correct (cc_p3 cfg) v0 [] v0 R3) as (r2 & Er2 & _).
  destruct (ma_correct (cc_ma1 cfg) (f0 (N := NumR)) [] (f0 (N := NumR)) P1 L1) as (m1 & E1 & _).
  destruct (ma_correct (cc_s3 cfg) (f0 (N := NumR)) [] (f0 (N := NumR)) P2 L2) as (m2 & E2 & _).
  unfold v0, f in Er1, Er2. rewrite Er1, Er2, E1, E2. cbn [obind].
  destruct (reversal_new (cc_left cfg) (cc_right cfg) (f0 (N := NumR))) as [pv0| |] eqn:Epv.
  2:{ exfalso. unfold reversal_new, rev_new in Epv. destruct (Z.eqb_spec (cc_left cfg) 0); [lia|]. destruct (Z.eqb_spec (cc_right cfg) 0); [lia|].
      assert (Hsa : sat_add (cc_left cfg) (cc_right cfg) = cc_left cfg + cc_right cfg) by (unfold sat_add; lia). rewrite Hsa in Epv.
      destruct (Z.leb_spec (pmax - 1) (cc_left cfg + cc_right cfg)); [lia|]. cbn in Epv. discriminate. }
  2:{ exfalso. unfold reversal_new, rev_new in Epv. destruct (Z.eqb_spec (cc_left cfg) 0); [lia|]. destruct (Z.eqb_spec (cc_right cfg) 0); [lia|].
      assert (Hsa : sat_add (cc_left cfg) (cc_right cfg) = cc_left cfg + cc_right cfg) by (unfold sat_add; lia). rewrite Hsa in Epv.
      destruct (Z.leb_spec (pmax - 1) (cc_left cfg + cc_right cfg)); [lia|]. cbn in Epv. discriminate. }
  cbn [obind]. eexists; split; [reflexivity|].
  pose proof (ma_correct' _ _ _ P1 L1 E1) as C1. pose proof (ma_correct' _ _ _ P2 L2 E2) as C2.
  assert (Cr1 : forall xs x, snd (roc_next (steps roc_next r1 xs) x) = roc_def (Z.to_nat (cc_p2 cfg)) (hget v0 (rev (xs ++ [x])))).
  { intros xs x. destruct (roc_correct (cc_p2 cfg) v0 xs x R2) as (q & Eq & Hq). unfold v0, f in Eq. rewrite Er1 in Eq. injection Eq as <-. exact Hq. }
  assert (Cr2 : forall xs x, snd (roc_next (steps roc_next r2 xs) x) = roc_def (Z.to_nat (cc_p3 cfg)) (hget v0 (rev (xs ++ [x])))).
  { intros xs x. destruct (roc_correct (cc_p3 cfg) v0 xs x R3) as (q & Eq & Hq). unfold v0, f in Eq. rewrite Er2 in Eq. injection Eq as <-. exact Hq. }
  set (s0 := mkCop (cc_source cfg) r1 r2 m1 m2 (f0, f0) pv0 (f0, f0)).
  assert (G : forall cs0 s, cp_source s = cc_source cfg ->
     cp_source (steps cop_next s cs0) = cc_source cfg /\ cp_r1 (steps cop_next s cs0) = steps roc_next (cp_r1 s) (map f cs0) /\
     cp_r2 (steps cop_next s cs0) = steps roc_next (cp_r2 s) (map f cs0)).
  { induction cs0 as [|k r IH]; intros s Es; [repeat split; assumption|]. unfold steps in *. cbn [fold_left map].
    assert (Es' : cp_source (fst (cop_next s k)) = cc_source cfg) by (unfold cop_next; dlet; exact Es).
    destruct (IH _ Es') as (I1 & I2 & I3). split; [exact I1|]. rewrite I2, I3.
    unfold cop_next. rewrite Es. fold (f k). destruct (roc_next (cp_r1 s) (f k)), (roc_next (cp_r2 s) (f k)). dlet. split; reflexivity. }
  set (i1 := fun (s : cop_st (N := NumR)) (k : C) =>
     let v := c_source k (cp_source s) in fadd (snd (roc_next (cp_r1 s) v)) (snd (roc_next (cp_r2 s) v))).
  set (D1 := fun rcs : list C => let l := srcs (cc_source cfg) rcs in
     fadd (roc_def (Z.to_nat (cc_p2 cfg)) (hget v0 l)) (roc_def (Z.to_nat (cc_p3 cfg)) (hget v0 l))).
  assert (HD1 : forall p k, i1 (steps cop_next s0 p) k = D1 (rev (p ++ [k]))).
  { intros p k. destruct (G p s0 eq_refl) as (Hs & H1 & H2'). unfold i1. cbv zeta. rewrite Hs, H1, H2'. fold (f k). cbn [cp_r1 cp_r2 s0].
    rewrite Cr1, Cr2. unfold D1. cbv zeta. rewrite srcs_rev_snoc. reflexivity. }
  assert (Hp1 : forall s k, cp_m1 (fst (cop_next s k)) = fst (ma_next (cp_m1 s) (i1 s k))).
  { intros s k. unfold cop_next, i1. cbv zeta. destruct (roc_next (cp_r1 s) _), (roc_next (cp_r2 s) _). cbn [snd]. destruct (ma_next (cp_m1 s) _). dlet. reflexivity. }
  pose proof (proj_steps cop_next ma_next cp_m1 i1 Hp1) as S1.
  set (i2 := fun (s : cop_st (N := NumR)) (k : C) => snd (ma_next (cp_m1 s) (i1 s k))).
  set (D2 := fun rcs : list C => ma_def (cc_ma1 cfg) f0 (series D1 rcs)).
  assert (HD2 : forall p k, i2 (steps cop_next s0 p) k = D2 (rev (p ++ [k]))).
  { intros p k. unfold i2. rewrite S1. cbn [cp_m1 s0]. rewrite C1. rewrite (inputs_series_next cop_next i1 D1 s0 HD1 p k). reflexivity. }
  assert (Hp2 : forall s k, cp_m2 (fst (cop_next s k)) = fst (ma_next (cp_m2 s) (i2 s k))).
  { intros s k. unfold cop_next, i2, i1. cbv zeta. destruct (roc_next (cp_r1 s) _), (roc_next (cp_r2 s) _). cbn [snd].
    destruct (ma_next (cp_m1 s) _). cbn [snd]. destruct (ma_next (cp_m2 s) _). dlet. reflexivity. }
  pose proof (proj_steps cop_next ma_next cp_m2 i2 Hp2 cs s0) as S2.
  assert (Hout : fst (snd (cop_next (steps cop_next s0 cs) c)) =
     [i2 (steps cop_next s0 cs) c; snd (ma_next (cp_m2 (steps cop_next s0 cs)) (i2 (steps cop_next s0 cs) c))]).
  { unfold cop_next at 1. unfold i2, i1. cbv zeta. destruct (roc_next (cp_r1 _) _), (roc_next (cp_r2 _) _). cbn [snd].
    destruct (ma_next (cp_m1 _) _). cbn [snd]. destruct (ma_next (cp_m2 _) _). dlet. reflexivity. }
  rewrite Hout, S2. cbn [cp_m2 s0]. rewrite C2.
  rewrite (inputs_series_next cop_next i2 D2 s0 HD2 cs c). rewrite HD2.
  unfold cop_values. cbv zeta. unfold D2, D1, series, srcs, v0, f. cbv zeta. rewrite suffixes_map, !map_map, series_series, map_map. reflexivity.
Qed.

(** ---- HullMovingAverage (the indicator): its value is the Hull average of the source *)
Theorem hull_indicator_values_correct period lft right src (c0 : C) cs c :
  2 < period <= pmax - 1 -> 1 <= lft -> 1 <= right -> lft + right <= pmax - 2 ->
  exists s0, hmai_init period lft right src c0 = Ok s0 /\
    fst (snd (hmai_next (steps hmai_next s0 cs) c)) =
    [hma_def (Z.to_nat period) (Z.to_nat (period / 2)) (Z.to_nat (hma_len3 period))
       (hget (c_source c0 src) (srcs src (rev (cs ++ [c]))))].
Proof.
  intros Hp Hl Hr Hlr. unfold hmai_init.
  assert (Hsa : sat_add lft right = lft + right) by (unfold sat_add; lia). rewrite Hsa.
  destruct (Z.ltb_spec 2 period); [|lia]. destruct (Z.leb_spec 1 lft); [|lia]. destruct (Z.leb_spec 1 right); [|lia].
  destruct (Z.ltb_spec (lft + right) pmax); [|lia]. cbn [andb negb]. cbv zeta.
  set (f := fun k : C => c_source k src).
  assert (Rn : 2 <= period <= pmax - 1) by lia.
  destruct (hma_correct period (f c0) [] (f c0) Rn) as (h0 & Eh & _). unfold f in Eh at 1. rewrite Eh. cbn [obind].
  destruct (reversal_new lft right (c_source c0 src)) as [pv0| |] eqn:Epv.
  2:{ exfalso. unfold reversal_new, rev_new in Epv. rewrite Hsa in Epv. destruct (Z.eqb_spec lft 0); [lia|]. destruct (Z.eqb_spec right 0); [lia|].
      destruct (Z.leb_spec (pmax - 1) (lft + right)); [lia|]. cbn in Epv. discriminate. }
  2:{ exfalso. unfold reversal_new, rev_new in Epv. rewrite Hsa in Epv. destruct (Z.eqb_spec lft 0); [lia|]. destruct (Z.eqb_spec right 0); [lia|].
      destruct (Z.leb_spec (pmax - 1) (lft + right)); [lia|]. cbn in Epv. discriminate. }
  cbn [obind]. eexists; split; [reflexivity|].
  assert (Ch : forall xs x, snd (hma_next (steps hma_next h0 xs) x) =
     hma_def (Z.to_nat period) (Z.to_nat (period / 2)) (Z.to_nat (hma_len3 period)) (hget (f c0) (rev (xs ++ [x])))).
  { intros xs x. destruct (hma_correct period (f c0) xs x Rn) as (h1 & Eh1 & Hh1). unfold f in Eh1 at 1. rewrite Eh in Eh1. injection Eh1 as <-. exact Hh1. }
  set (s0 := mkHmai src h0 pv0).
  assert (G : forall cs0 s, hi_source s = src ->
     hi_source (steps hmai_next s cs0) = src /\ hi_hma (steps hmai_next s cs0) = steps hma_next (hi_hma s) (map f cs0)).
  { induction cs0 as [|k r IH]; intros s Es; [split; [assumption|reflexivity]|]. unfold steps in *. cbn [fold_left map].
    assert (Es' : hi_source (fst (hmai_next s k)) = src) by (unfold hmai_next; dlet; exact Es).
    destruct (IH _ Es') as (I1 & I2). split; [exact I1|]. rewrite I2. f_equal.
    unfold hmai_next. rewrite Es. fold (f k). destruct (hma_next (hi_hma s) (f k)). dlet. reflexivity. }
  destruct (G cs s0 eq_refl) as (Hs & Hm).
  unfold hmai_next at 1. rewrite Hs, Hm. fold (f c). cbn [hi_hma s0]. pose proof (Ch (map f cs) (f c)) as Oh.
  destruct (hma_next (steps hma_next h0 (map f cs)) (f c)) as (h', v). cbn [snd] in Oh. dlet. cbn [fst snd].
  rewrite Oh, srcs_rev_snoc. reflexivity.
Qed.
End IP9.
