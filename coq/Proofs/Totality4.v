(** C10 continued: the only window INDEX operation in an indicator's [next] (TrendStrengthIndex reads
    window[reverse_offset]) is in range in every reachable state of every instance that [init] accepts. *)
From Yata Require Import Base.Prelude Base.Num Base.NumR Core.Window Core.WindowSpec Core.Candle Core.Action Core.Strings
  Spec.Hist Spec.MethodDefs Spec.IndicatorDefs Methods.Basic Methods.Select Indicators.Common Indicators.Set5
  Proofs.MethodsCommon Proofs.IndicatorProofs Proofs.IndicatorProofs3 Proofs.IndicatorProofs15.
From Coq Require Import Reals Lra Lia.
Open Scope Z_scope.

Section T4.
Context {pw : PW}.
Local Notation R := (@F NumR).
Local Notation C := (candle (N := NumR)).

Lemma nth_error_seq0 n i : (i < n)%nat -> nth_error (seq 0 n) i = Some i.
Proof. intros H. rewrite (nth_error_nth' (seq 0 n) 0%nat) by (rewrite seq_length; exact H). rewrite seq_nth by exact H. reflexivity. Qed.

Lemma winok_index {A} n (w : window A) (h : nat -> A) i : 2 <= pmax -> WinOK n w h -> (i < n)%nat -> Z.of_nat n <= pmax ->
  w_index w (Z.of_nat i) = Ok (h i).
Proof.
  intros Hp2 (Hwf & Hsz & Hs) Hi Hp. pose proof (index_spec Hp2 w (Z.of_nat i) Hwf ltac:(lia)) as H.
  unfold content in H. rewrite Hs in H. unfold hwin in H. rewrite <- map_rev, rev_involutive, Nat2Z.id in H.
  rewrite (map_nth_error h i (seq 0 n) (nth_error_seq0 n i Hi)) in H. exact H.
Qed.

(** TrendStrengthIndex: in every state reachable from an accepted configuration the read of window[reverse_offset] succeeds
    (the totalised [match ... | _ => f0] of the model never takes its default branch) *)
Theorem tsx_index_in_range period (zone : R) offset src (c0 : C) cs c :
  1 < period < pmax -> (0 <= zone < 1)%R -> 0 < offset < period -> 4 < pmax ->
  exists s0, tsx_init period zone offset src c0 = Ok s0 /\
    let st := steps tsx_next s0 cs in
    exists v, w_index (fst (w_push_t (tz_window st) (c_source c (tz_source st)))) (tz_offset st) = Ok v.
Proof.
  intros Hp Hz Ho Hpm. unfold tsx_init.
  destruct (Z.ltb_spec 1 period); [|lia]. destruct (Z.ltb_spec period pmax); [|lia].
  destruct (Z.ltb_spec 0 offset); [|lia]. destruct (Z.ltb_spec offset period); [|lia].
  assert (Ez1 : fge zone (f0 (N := NumR)) = true) by (unfold fge; rsimp; destruct (Rleb_spec 0 zone); [reflexivity|lra]).
  assert (Ez2 : flt zone (f1 (N := NumR)) = true) by (unfold flt; rsimp; destruct (Rltb_spec zone 1); [reflexivity|lra]).
  rewrite Ez1, Ez2. cbn [andb]. cbv zeta. set (v := c_source c0 src).
  assert (Rp : 1 <= period <= pmax - 1) by lia.
  destruct (Proofs.Windowed2.wma_init period v Rp) as (w0 & Ew & Iw). rewrite Ew. cbn [obind].
  destruct (reversal_new 1 2 (f0 (N := NumR))) as [r0| |] eqn:Er.
  2,3: exfalso; unfold reversal_new, rev_new in Er; assert (Hsa : sat_add 1 2 = 3) by (unfold sat_add; lia); rewrite Hsa in Er;
       destruct (Z.leb_spec (pmax - 1) 3); [lia|]; cbn in Er; discriminate.
  cbn [obind]. eexists; split; [reflexivity|].
  set (s0 := mkTsx _ _ _ _ _ _ _ _ _ _ _ _ _).
  assert (I0 : tsx_inv period src s0 (hconst v) /\ tz_offset s0 = offset).
  { split; [|reflexivity]. unfold tsx_inv. cbv zeta. cbn [s0 tz_window tz_wma tz_sy tz_sy2 tz_inv tz_sx tz_k tz_source].
    split; [apply winok_new; lia|]. split; [exact Iw|]. unfold hconst. rewrite !gsum_const. rsimp. rewrite (IZR_nat period) by lia.
    repeat split; try reflexivity; try ring. }
  assert (Hoff : forall s k, tz_offset (fst (tsx_next s k)) = tz_offset s).
  { intros s k. unfold tsx_next. repeat match goal with |- context [let '(_, _) := ?e in _] => destruct e end. reflexivity. }
  assert (I : forall p, tsx_inv period src (steps tsx_next s0 p) (hget v (srcs src (rev p))) /\ tz_offset (steps tsx_next s0 p) = offset).
  { induction p as [|a r IH] using rev_ind; [exact I0|]. rewrite steps_snoc. destruct IH as (IH & IO). split; [|rewrite Hoff; exact IO].
    unfold srcs. rewrite rev_unit. cbn [map].
    change (hget v (c_source a src :: map (fun k => c_source k src) (rev r))) with (hcons (c_source a src) (hget v (srcs src (rev r)))).
    apply tsx_step; [lia|exact IH]. }
  cbv zeta. destruct (I cs) as (Inv & ->). destruct Inv as (Hw & _ & _ & _ & _ & _ & _ & Hsrc).
  destruct (nat_len period ltac:(lia)) as (m & Em). rewrite Em in Hw.
  destruct (winok_push m _ _ (c_source c (tz_source (steps tsx_next s0 cs))) Hw) as (w' & Hpush & Hw'). rewrite Hpush. cbn [fst].
  rewrite <- (Z2Nat.id offset) by lia. eexists. apply (winok_index (S m) w' _ (Z.to_nat offset) ltac:(lia) Hw'); lia.
Qed.
End T4.
