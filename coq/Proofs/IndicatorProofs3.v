(** C05 continued: Envelopes, Bollinger bands and MACD (both lines) equal their published formulas for every
    stream and every configuration whose averaging kinds have a method theorem (exact arithmetic). *)
From Yata Require Import Base.Prelude Base.Num Base.NumR Core.Window Core.WindowSpec Core.Candle Core.Action Core.Strings
  Spec.Hist Spec.MethodDefs Spec.IndicatorDefs Methods.Basic Methods.Select Indicators.Common Indicators.Set1
  Proofs.MethodsCommon Proofs.Windowed Proofs.Windowed3 Proofs.MAProofs Proofs.Cascade.
From Coq Require Import Reals Lra.
Open Scope Z_scope.

Section IP3.
Context {pw : PW}.
Local Notation R := (@F NumR).
Local Notation C := (candle (N := NumR)).

Lemma srcs_rev_snoc src (cs : list C) c : srcs src (rev (cs ++ [c])) = rev (map (fun k => c_source k src) cs ++ [c_source c src]).
Proof. unfold srcs. rewrite map_rev, map_app. reflexivity. Qed.

(** ---- Envelopes *)
Theorem envelopes_values_correct (cfg : env_cfg (N := NumR)) (c0 : C) cs c :
  env_validate cfg = true -> ma_proved (ec_ma cfg) = true -> ma_len_ok (ec_ma cfg) ->
  exists s0, env_init cfg c0 = Ok s0 /\
    fst (snd (env_next (steps env_next s0 cs) c)) =
    env_values (ec_ma cfg) (ec_k cfg) (ec_source cfg) (ec_source2 cfg) c0 (rev (cs ++ [c])).
Proof.
  intros Hv Hp Hl. unfold env_init. rewrite Hv. cbn [negb].
  set (f := fun k : C => c_source k (ec_source cfg)).
  destruct (ma_correct (ec_ma cfg) (f c0) (map f cs) (f c) Hp Hl) as (m0 & Em & Hm).
  unfold f in Em at 1. rewrite Em. cbn [obind]. eexists; split; [reflexivity|].
  set (s0 := mkEnv cfg m0 (fadd f1 (ec_k cfg)) (fsub f1 (ec_k cfg))).
  assert (Hc : forall cs0, en_cfg (steps env_next s0 cs0) = cfg).
  { intros cs0. rewrite (steps_field env_next en_cfg); [reflexivity|]. intros s k. unfold env_next.
    destruct (ma_next (en_ma s) _). reflexivity. }
  assert (Hkh : forall cs0, en_khigh (steps env_next s0 cs0) = fadd f1 (ec_k cfg)).
  { intros cs0. rewrite (steps_field env_next en_khigh); [reflexivity|]. intros s k. unfold env_next. destruct (ma_next (en_ma s) _). reflexivity. }
  assert (Hkl : forall cs0, en_klow (steps env_next s0 cs0) = fsub f1 (ec_k cfg)).
  { intros cs0. rewrite (steps_field env_next en_klow); [reflexivity|]. intros s k. unfold env_next. destruct (ma_next (en_ma s) _). reflexivity. }
  (* the embedded average sees the source of every candle; [f] depends on the (constant) configuration *)
  assert (Hma : en_ma (steps env_next s0 cs) = steps ma_next m0 (map f cs)).
  { assert (G : forall cs0 s, en_cfg s = cfg -> en_ma (steps env_next s cs0) = steps ma_next (en_ma s) (map f cs0)).
    { induction cs0 as [|k r IH]; intros s Es; [reflexivity|]. unfold steps in *. cbn [fold_left map].
      rewrite IH.
      - f_equal. unfold env_next. rewrite Es. fold (f k). destruct (ma_next (en_ma s) (f k)). reflexivity.
      - unfold env_next. destruct (ma_next (en_ma s) _). exact Es. }
    apply (G cs s0). reflexivity. }
  unfold env_next at 1. rewrite Hc, Hkh, Hkl, Hma. fold (f c).
  destruct (ma_next (steps ma_next m0 (map f cs)) (f c)) as (m', v) eqn:E. cbn [snd] in Hm. cbn [fst snd].
  unfold env_values. rewrite srcs_rev_snoc. rewrite Hm. unfold f.
  repeat f_equal. unfold srcs. rewrite rev_unit. reflexivity.
Qed.

(** ---- Bollinger bands *)
Theorem bollinger_values_correct (cfg : boll_cfg (N := NumR)) (c0 : C) cs c : boll_validate cfg = true ->
  exists s0, boll_init cfg c0 = Ok s0 /\
    fst (snd (boll_next (steps boll_next s0 cs) c)) =
    boll_values (bc_avg cfg) (bc_sigma cfg) (bc_source cfg) c0 (rev (cs ++ [c])).
Proof.
  intros Hv. unfold boll_init. rewrite Hv. cbn [negb]. cbv zeta.
  assert (Hn : 3 <= bc_avg cfg <= pmax - 1).
  { unfold boll_validate in Hv. apply andb_prop in Hv. destruct Hv as (Hv & H2). apply andb_prop in Hv. destruct Hv as (_ & H1).
    apply Z.ltb_lt in H1, H2. lia. }
  set (f := fun k : C => c_source k (bc_source cfg)).
  assert (H1 : 1 <= bc_avg cfg <= pmax - 1) by lia. assert (H2 : 2 <= bc_avg cfg <= pmax - 1) by lia.
  destruct (sma_correct (bc_avg cfg) (f c0) (map f cs) (f c) H1) as (a0 & Ea & Ha).
  destruct (stdev_correct (bc_avg cfg) (f c0) (map f cs) (f c) H2) as (d0 & Ed & Hd).
  unfold f in Ea at 1, Ed at 1. rewrite Ea, Ed. cbn [obind]. eexists; split; [reflexivity|].
  set (s0 := mkBoll cfg a0 d0).
  assert (G : forall cs0 s, bo_cfg s = cfg ->
     bo_cfg (steps boll_next s cs0) = cfg /\ bo_ma (steps boll_next s cs0) = steps sma_next (bo_ma s) (map f cs0) /\
     bo_sd (steps boll_next s cs0) = steps stdev_next (bo_sd s) (map f cs0)).
  { induction cs0 as [|k r IH]; intros s Es; [repeat split; assumption|]. unfold steps in *. cbn [fold_left map].
    assert (Es' : bo_cfg (fst (boll_next s k)) = cfg).
    { unfold boll_next. destruct (sma_next (bo_ma s) _), (stdev_next (bo_sd s) _). exact Es. }
    destruct (IH _ Es') as (I1 & I2 & I3). split; [exact I1|]. rewrite I2, I3.
    unfold boll_next. rewrite Es. fold (f k). destruct (sma_next (bo_ma s) (f k)), (stdev_next (bo_sd s) (f k)). split; reflexivity. }
  destruct (G cs s0 eq_refl) as (Hc & Hma & Hsd).
  unfold boll_next at 1. rewrite Hc, Hma, Hsd. fold (f c). cbn [bo_ma bo_sd s0].
  destruct (sma_next (steps sma_next a0 (map f cs)) (f c)) as (a', mid) eqn:E1.
  destruct (stdev_next (steps stdev_next d0 (map f cs)) (f c)) as (d', sd) eqn:E2.
  cbn [snd] in Ha, Hd. cbn [fst snd]. unfold boll_values. cbv zeta. rewrite srcs_rev_snoc.
  rewrite Ha, Hd. unfold f. repeat f_equal; rsimp; ring.
Qed.

Lemma suffixes_map {A B} (g : A -> B) (l : list A) : suffixes (map g l) = map (map g) (suffixes l).
Proof. induction l as [|a l IH]; [reflexivity|]. cbn [map suffixes]. rewrite IH. reflexivity. Qed.

(** ---- MACD: difference of two averages, and the signal average of the series of those differences *)
Lemma ma_correct' (c : ma_cfg) (v : R) m0 : ma_proved c = true -> ma_len_ok c -> ma_init c v = Ok m0 ->
  forall xs x, snd (ma_next (steps ma_next m0 xs) x) = ma_def c v (rev (xs ++ [x])).
Proof.
  intros Hp Hl E xs x. destruct (ma_correct c v xs x Hp Hl) as (m & Em & Hm). rewrite E in Em. injection Em as <-. exact Hm.
Qed.

Theorem macd_values_correct (cfg : macd_cfg) (c0 : C) cs c : macd_validate cfg = true ->
  ma_proved (mc_ma1 cfg) = true -> ma_len_ok (mc_ma1 cfg) -> ma_proved (mc_ma2 cfg) = true -> ma_len_ok (mc_ma2 cfg) ->
  ma_proved (mc_signal cfg) = true -> ma_len_ok (mc_signal cfg) ->
  exists s0, macd_init (N := NumR) cfg c0 = Ok s0 /\
    fst (snd (macd_next (steps macd_next s0 cs) c)) =
    macd_values (mc_ma1 cfg) (mc_ma2 cfg) (mc_signal cfg) (mc_source cfg) c0 (rev (cs ++ [c])).
Proof.
  intros Hv P1 L1 P2 L2 P3 L3. unfold macd_init. rewrite Hv. cbv zeta.
  set (f := fun k : C => c_source k (mc_source cfg)).
  destruct (ma_correct (mc_ma1 cfg) (f c0) [] (f c0) P1 L1) as (a0 & Ea & _).
  destruct (ma_correct (mc_ma2 cfg) (f c0) [] (f c0) P2 L2) as (b0 & Eb & _).
  destruct (ma_correct (mc_signal cfg) (f0 (N := NumR)) [] (f0 (N := NumR)) P3 L3) as (g0 & Eg & _).
  unfold f in Ea at 1, Eb at 1. rewrite Ea, Eb, Eg. cbn [obind]. eexists; split; [reflexivity|].
  set (s0 := mkMacd cfg a0 b0 g0 (f0, f0) (f0, f0)).
  pose proof (ma_correct' _ _ _ P1 L1 Ea) as C1. pose proof (ma_correct' _ _ _ P2 L2 Eb) as C2.
  pose proof (ma_correct' _ _ _ P3 L3 Eg) as C3.
  (* the configuration and the two price averages *)
  assert (G : forall cs0 s, md_cfg s = cfg ->
     md_cfg (steps macd_next s cs0) = cfg /\ md_ma1 (steps macd_next s cs0) = steps ma_next (md_ma1 s) (map f cs0) /\
     md_ma2 (steps macd_next s cs0) = steps ma_next (md_ma2 s) (map f cs0)).
  { induction cs0 as [|k r IH]; intros s Es; [repeat split; assumption|]. unfold steps in *. cbn [fold_left map].
    assert (Es' : md_cfg (fst (macd_next s k)) = cfg).
    { unfold macd_next. destruct (ma_next (md_ma1 s) _), (ma_next (md_ma2 s) _), (ma_next (md_ma3 s) _), (cross_next (md_cross1 s) _),
        (cross_next (md_cross2 s) _). exact Es. }
    destruct (IH _ Es') as (I1 & I2 & I3). split; [exact I1|]. rewrite I2, I3.
    unfold macd_next. rewrite Es. fold (f k).
    destruct (ma_next (md_ma1 s) (f k)), (ma_next (md_ma2 s) (f k)), (ma_next (md_ma3 s) _), (cross_next (md_cross1 s) _),
      (cross_next (md_cross2 s) _). split; reflexivity. }
  set (line := fun (rcs : list C) => macd_line (mc_ma1 cfg) (mc_ma2 cfg) (f c0) (srcs (mc_source cfg) rcs)).
  set (inp := fun (s : macd_st (N := NumR)) (k : C) =>
     let src := c_source k (mc_source (md_cfg s)) in fsub (snd (ma_next (md_ma1 s) src)) (snd (ma_next (md_ma2 s) src))).
  assert (HD : forall p k, inp (steps macd_next s0 p) k = line (rev (p ++ [k]))).
  { intros p k. destruct (G p s0 eq_refl) as (Hc & H1 & H2). unfold inp. cbv zeta. rewrite Hc, H1, H2. fold (f k).
    cbn [md_ma1 md_ma2 s0]. rewrite C1, C2. unfold line, macd_line. rewrite srcs_rev_snoc. reflexivity. }
  assert (Hproj : forall s k, md_ma3 (fst (macd_next s k)) = fst (ma_next (md_ma3 s) (inp s k))).
  { intros s k. unfold macd_next, inp. cbv zeta.
    destruct (ma_next (md_ma1 s) _), (ma_next (md_ma2 s) _). cbn [snd].
    destruct (ma_next (md_ma3 s) _), (cross_next (md_cross1 s) _), (cross_next (md_cross2 s) _). reflexivity. }
  pose proof (proj_steps macd_next ma_next md_ma3 inp Hproj cs s0) as H3.
  (* the last step *)
  assert (Hout : fst (snd (macd_next (steps macd_next s0 cs) c)) =
      [inp (steps macd_next s0 cs) c; snd (ma_next (md_ma3 (steps macd_next s0 cs)) (inp (steps macd_next s0 cs) c))]).
  { unfold macd_next, inp. cbv zeta.
    destruct (ma_next (md_ma1 _) _), (ma_next (md_ma2 _) _). cbn [snd].
    destruct (ma_next (md_ma3 _) _), (cross_next (md_cross1 _) _), (cross_next (md_cross2 _) _). reflexivity. }
  rewrite Hout, H3. cbn [md_ma3 s0]. rewrite C3.
  rewrite (inputs_series_next macd_next inp line s0 HD cs c). rewrite HD.
  unfold macd_values. cbv zeta. unfold line, series, f, srcs. rewrite suffixes_map, map_map. reflexivity.
Qed.
End IP3.
