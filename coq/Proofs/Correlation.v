(** Cauchy-Schwarz for finite sums and the range of a correlation coefficient computed from window sums
    (TrendStrengthIndex, C12). *)
From Yata Require Import Base.Prelude Base.Num Base.NumR Spec.Hist Spec.MethodDefs Proofs.MethodsCommon.
From Coq Require Import Reals Lra Lia Psatz.
Open Scope R_scope.

Local Notation gs := (gsum (N := NumR)).

Lemma gsum_sq_nonneg n (a : nat -> R) : 0 <= gs n (fun i => a i * a i).
Proof. induction n as [|n IH]; [rewrite gsum_0; lra|]. rewrite gsum_S. pose proof (Rle_0_sqr (a n)) as H. unfold Rsqr in H. rsimp. lra. Qed.

Lemma cauchy_schwarz n (a b : nat -> R) :
  gs n (fun i => a i * b i) * gs n (fun i => a i * b i) <= gs n (fun i => a i * a i) * gs n (fun i => b i * b i).
Proof.
  induction n as [|n IH]; [rewrite !gsum_0; rsimp; lra|]. rewrite !gsum_S. rsimp.
  pose proof (gsum_sq_nonneg n a) as HA. pose proof (gsum_sq_nonneg n b) as HB.
  set (S := gs n (fun i => a i * b i)) in *. set (A := gs n (fun i => a i * a i)) in *. set (B := gs n (fun i => b i * b i)) in *.
  set (x := a n). set (y := b n).
  assert (K : 2 * S * (x * y) <= A * (y * y) + (x * x) * B).
  { assert (Hs : (2 * S * (x * y)) * (2 * S * (x * y)) <= (A * (y * y) + (x * x) * B) * (A * (y * y) + (x * x) * B)).
    { assert (H1 : (2 * S * (x * y)) * (2 * S * (x * y)) = 4 * (S * S) * ((x * x) * (y * y))) by ring.
      assert (H2 : 4 * (S * S) * ((x * x) * (y * y)) <= 4 * (A * B) * ((x * x) * (y * y))).
      { apply Rmult_le_compat_r; [pose proof (Rle_0_sqr x); pose proof (Rle_0_sqr y); unfold Rsqr in *; nra|lra]. }
      assert (H3 : 4 * (A * B) * ((x * x) * (y * y)) <= (A * (y * y) + (x * x) * B) * (A * (y * y) + (x * x) * B)).
      { pose proof (Rle_0_sqr (A * (y * y) - (x * x) * B)) as H. unfold Rsqr in H. nra. }
      lra. }
    assert (Hr : 0 <= A * (y * y) + (x * x) * B) by (pose proof (Rle_0_sqr x); pose proof (Rle_0_sqr y); unfold Rsqr in *; nra).
    destruct (Rle_or_lt (2 * S * (x * y)) (A * (y * y) + (x * x) * B)) as [|Hlt]; [assumption|]. exfalso. nra. }
  nra.
Qed.

Lemma gsum_centered n (a b : nat -> R) (al be : R) :
  gs n (fun i => (a i - al) * (b i - be)) =
  gs n (fun i => a i * b i) - be * gs n a - al * gs n b + INR n * (al * be).
Proof.
  induction n as [|n IH]; [rewrite !gsum_0; simpl; lra|]. rewrite !gsum_S, IH, S_INR. rsimp. ring.
Qed.

(** covariance form of Cauchy-Schwarz:  (Swy - Sw Sy / n)^2 <= (Sww - Sw^2/n) (Syy - Sy^2/n) *)
Lemma covariance_bound n (w y : nat -> R) : (0 < n)%nat ->
  let N := INR n in
  let P := gs n (fun i => w i * y i) - gs n w * gs n y / N in
  let K := gs n (fun i => w i * w i) - gs n w * gs n w / N in
  let Q := gs n (fun i => y i * y i) - gs n y * gs n y / N in
  P * P <= K * Q /\ 0 <= K /\ 0 <= Q.
Proof.
  intros Hn N P K Q. assert (HN : N <> 0) by (apply not_0_INR; lia).
  set (al := gs n w / N). set (be := gs n y / N).
  pose proof (cauchy_schwarz n (fun i => w i - al) (fun i => y i - be)) as CS. cbv beta in CS.
  pose proof (gsum_sq_nonneg n (fun i => w i - al)) as KW. pose proof (gsum_sq_nonneg n (fun i => y i - be)) as KY. cbv beta in KW, KY.
  rewrite gsum_centered in CS, KW, KY. rewrite !gsum_centered in CS.
  change (gs n (fun i => w i)) with (gs n w) in *. change (gs n (fun i => y i)) with (gs n y) in *.
  assert (EP : gs n (fun i => w i * y i) - be * gs n w - al * gs n y + INR n * (al * be) = P) by (unfold P, al, be; fold N; field; exact HN).
  assert (EK : gs n (fun i => w i * w i) - al * gs n w - al * gs n w + INR n * (al * al) = K) by (unfold K, al; fold N; field; exact HN).
  assert (EQ : gs n (fun i => y i * y i) - be * gs n y - be * gs n y + INR n * (be * be) = Q) by (unfold Q, be; fold N; field; exact HN).
  rewrite EP, EK, EQ in CS. rewrite EK in KW. rewrite EQ in KY. repeat split; assumption.
Qed.

(** a quotient  P / sqrt (K Q)  with  P^2 <= K Q  lies in [-1, 1]  (and is 0 when K Q = 0: then P = 0) *)
Lemma corr_quotient_range (P KQ : R) : P * P <= KQ -> -1 <= P / sqrt KQ <= 1.
Proof.
  intros H. assert (H0 : 0 <= KQ) by (pose proof (Rle_0_sqr P) as Hs; unfold Rsqr in Hs; lra).
  destruct (Req_dec KQ 0) as [E|NE].
  - assert (P = 0) by (rewrite E in H; pose proof (Rle_0_sqr P) as Hs; unfold Rsqr in Hs; nra). subst P. unfold Rdiv. rewrite Rmult_0_l. lra.
  - assert (Hp : 0 < KQ) by lra. pose proof (sqrt_lt_R0 KQ Hp) as Hsq.
    assert (Ha : Rabs P <= sqrt KQ).
    { rewrite <- (sqrt_Rsqr_abs P). apply sqrt_le_1; unfold Rsqr; try lra. pose proof (Rle_0_sqr P) as Hs; unfold Rsqr in Hs; lra. }
    assert (Hb : - sqrt KQ <= P <= sqrt KQ) by (unfold Rabs in Ha; destruct (Rcase_abs P); lra).
    split.
    + apply (Rmult_le_reg_r (sqrt KQ)); [exact Hsq|]. unfold Rdiv. rewrite Rmult_assoc, Rinv_l by lra. lra.
    + apply (Rmult_le_reg_r (sqrt KQ)); [exact Hsq|]. unfold Rdiv. rewrite Rmult_assoc, Rinv_l by lra. lra.
Qed.
