(** C17 continued: Heikin-Ashi outputs a valid candle whenever the inputs are valid (exact arithmetic, every stream length). *)
From Yata Require Import Base.Prelude Base.Num Base.NumR Core.Window Core.Candle Spec.Hist Spec.MethodDefs
  Methods.Basic Methods.Convert Proofs.ConvertProofs Proofs.Recursive.
From Coq Require Import Reals Lra Lia.
Open Scope R_scope.

Section HA.
Local Notation R := (@F NumR).
Local Notation C := (candle (N := NumR)).

Definition cvalid (c : C) : Prop :=
  c_low c <= c_close c <= c_high c /\ c_low c <= c_open c <= c_high c /\
  0 < c_close c /\ 0 < c_open c /\ 0 < c_high c /\ 0 < c_low c /\ 0 <= c_volume c.

Lemma c_validate_iff (c : C) : c_validate c = true <-> cvalid c.
Proof.
  unfold c_validate, cvalid. numR.
  destruct (Rltb_spec (c_high c) (c_close c)), (Rltb_spec (c_close c) (c_low c)), (Rltb_spec (c_high c) (c_low c)),
    (Rltb_spec (c_high c) (c_open c)), (Rltb_spec (c_open c) (c_low c)), (Rltb_spec 0 (c_close c)), (Rltb_spec 0 (c_open c)),
    (Rltb_spec 0 (c_high c)), (Rltb_spec 0 (c_low c)), (Rleb_spec 0 (c_volume c)); cbn; split; try discriminate; try lra; intros; try reflexivity; lra.
Qed.

Lemma ohlc4_between (c : C) : cvalid c -> c_low c <= c_ohlc4 c <= c_high c /\ 0 < c_ohlc4 c.
Proof. unfold cvalid, c_ohlc4. numR. intros H. split; [split|]; lra. Qed.

Lemma ha_open_pos (c0 : C) rh : cvalid c0 -> Forall cvalid rh -> 0 < ha_open c0 rh.
Proof.
  intros H0 Hall. induction rh as [|c r IH]; cbn [ha_open]; [apply ohlc4_between, H0|].
  inversion Hall as [|? ? Hc Hr]; subst. pose proof (IH Hr). pose proof (proj2 (ohlc4_between c Hc)). numR. lra.
Qed.

Theorem ha_def_valid (c0 : C) rh c : cvalid c0 -> Forall cvalid rh -> cvalid c -> cvalid (ha_def c0 rh c).
Proof.
  intros H0 Hall Hc. pose proof (ha_open_pos c0 rh H0 Hall) as Ho. pose proof (ohlc4_between c Hc) as ((Hl & Hh) & Hp).
  unfold ha_def. cbv zeta. set (o := ha_open c0 rh) in *. unfold cvalid in *. cbn [c_open c_high c_low c_close c_volume]. numR.
  pose proof (Rmax_l (c_high c) o). pose proof (Rmax_r (c_high c) o). pose proof (Rmin_l (c_low c) o). pose proof (Rmin_r (c_low c) o).
  assert (0 < Rmin (c_low c) o) by (apply Rmin_glb_lt; lra).
  repeat split; try lra.
Qed.

(** on the model, after every stream *)
Theorem ha_model_valid (c0 : C) cs c : c_validate c0 = true -> Forall (fun k => c_validate k = true) (cs ++ [c]) ->
  c_validate (snd (ha_next (steps ha_next (ha_new c0) cs) c)) = true.
Proof.
  intros H0 Hall. rewrite ha_correct. apply c_validate_iff. apply Forall_app in Hall. destruct Hall as (Hcs & Hc).
  apply ha_def_valid; [apply c_validate_iff, H0| |apply c_validate_iff; inversion Hc; assumption].
  apply Forall_rev. eapply Forall_impl; [|exact Hcs]. intros k Hk. apply c_validate_iff, Hk.
Qed.
End HA.
