(** The rounding link for a running sum, PROVED (the growth bound of DESIGN.md II.5 is otherwise measured):
    (1) each binary64 addition of the model's carrier returns the exact sum times (1 + eps), |eps| <= 2^-53, unless it overflows
        (Flocq's Bplus_correct through the PrimFloat bridge; sums of floats never underflow);
    (2) a recurrence s' = (s + d)(1 + eps) stays within u * (sum of the magnitudes of its own partial sums) of the exact sum;
    (3) hence the binary64 cumulative sum of the model ([cumsum] on NumF64 - the value of the cumulative Integral) differs from
        the exact sum of the same inputs by at most 2^-53 * n * (largest partial sum): linear in the number of steps. *)
From Coq Require Import ZArith Reals Floats Lra Lia Psatz List.
From Flocq Require Import Core BinarySingleNaN PrimFloat Relative Operations.
From Yata Require Import Base.Prelude Base.Num Base.NumR Base.NumF64 Spec.MethodDefs.
Import ListNotations.
Open Scope R_scope.

Local Notation pfloat := Coq.Floats.PrimFloat.float.
Definition val (x : pfloat) : R := B2R (Prim2B x).
Definition fin (x : pfloat) : Prop := Coq.Floats.PrimFloat.is_finite x = true.
Definition u64 : R := / 2 * bpow radix2 (- 53 + 1).    (* 2^-53 *)
Definition maxf : R := bpow radix2 1024.

Local Notation rnd := (round radix2 (FLT_exp (-1074) 53) ZnearestE).
Local Instance Hprec53 : FLX.Prec_gt_0 prec := eq_refl _.
Local Instance Hmax1024 : Prec_lt_emax prec emax := eq_refl _.

(** every finite binary64 value is an integer multiple of 2^-1074 *)
Lemma val_multiple (x : pfloat) : exists m : Z, val x = F2R (Float radix2 m (-1074)).
Proof.
  unfold val. destruct (FLT_format_B2R prec emax Hprec53 (Prim2B x)) as [f Hf Hm He].
  change (SpecFloat.emin prec emax) with (-1074)%Z in He.
  exists (Fnum f * Zpower radix2 (Fexp f - (-1074)))%Z. rewrite Hf.
  unfold F2R. cbn [Fnum Fexp]. rewrite mult_IZR, IZR_Zpower by lia. rewrite Rmult_assoc, <- bpow_plus. f_equal. f_equal. lia.
Qed.

Theorem f64_add_error (x y : pfloat) : fin x -> fin y -> Rabs (rnd (val x + val y)) < maxf ->
  fin (x + y)%float /\ exists eps, Rabs eps <= u64 /\ val (x + y)%float = (val x + val y) * (1 + eps).
Proof.
  unfold fin. rewrite !is_finite_equiv. intros Fx Fy Hov. unfold val. rewrite add_equiv.
  pose proof (Bplus_correct prec emax Hprec53 Hmax1024 mode_NE (Prim2B x) (Prim2B y) Fx Fy) as H.
  change (SpecFloat.fexp prec emax) with (FLT_exp (-1074) 53) in H. cbn [round_mode] in H.
  rewrite Rlt_bool_true in H by exact Hov. destruct H as (Hv & Hf & _). split; [exact Hf|].
  destruct (val_multiple x) as (mx & Ex). destruct (val_multiple y) as (my & Ey). unfold val in Ex, Ey.
  destruct (relative_error_N_FLT_F2R_emin_ex radix2 (-1074) 53 eq_refl (fun z => negb (Z.even z)) (mx + my)) as (eps & He & Hr).
  exists eps. split; [exact He|]. transitivity (rnd (B2R (Prim2B x) + B2R (Prim2B y))); [exact Hv|]. rewrite Ex, Ey.
  replace (F2R (Float radix2 mx (-1074)) + F2R (Float radix2 my (-1074))) with (F2R (Float radix2 (mx + my) (-1074)))
    by (unfold F2R; cbn [Fnum Fexp]; rewrite plus_IZR; ring).
  exact Hr.
Qed.

Lemma val_zero : val (f0 (N := NumF64)) = 0 /\ fin (f0 (N := NumF64)).
Proof. split; vm_compute; try reflexivity. Qed.

Local Notation csf := (@cumsum NumF64).
Local Notation csr := (@cumsum NumR).

(** no step overflows, every input is finite *)
Fixpoint sum_ok (l : list pfloat) : Prop :=
  match l with [] => True | x :: r => sum_ok r /\ fin x /\ Rabs (rnd (val (csf r) + val x)) < maxf end.
(** the magnitudes of the additions actually performed *)
Fixpoint sum_scale (l : list pfloat) : R :=
  match l with [] => 0 | x :: r => sum_scale r + Rabs (val (csf r) + val x) end.

Theorem cumsum_rounding_link (l : list pfloat) : sum_ok l ->
  fin (csf l) /\ Rabs (val (csf l) - csr (map val l)) <= u64 * sum_scale l.
Proof.
  induction l as [|x r IH]; intros Hok.
  - cbn [cumsum map sum_scale]. destruct val_zero as (E & Hf). split; [exact Hf|]. rewrite E. unfold f0. cbn. rewrite Rminus_0_r, Rabs_R0. lra.
  - destruct Hok as (Hr & Hx & Hov). destruct (IH Hr) as (Fr & Er). cbn [cumsum map sum_scale].
    destruct (f64_add_error (csf r) x Fr Hx Hov) as (Fs & eps & He & Hv). split; [exact Fs|].
    change (@fadd NumF64 (csf r) x) with (csf r + x)%float. rewrite Hv.
    change (@fadd NumR (csr (map val r)) (val x)) with (csr (map val r) + val x).
    set (a := val (csf r)) in *. set (e := csr (map val r)) in *. set (v := val x) in *.
    replace ((a + v) * (1 + eps) - (e + v)) with ((a - e) + eps * (a + v)) by ring.
    eapply Rle_trans; [apply Rabs_triang|]. rewrite Rabs_mult.
    assert (H1 : Rabs eps * Rabs (a + v) <= u64 * Rabs (a + v)) by (apply Rmult_le_compat_r; [apply Rabs_pos|exact He]).
    lra.
Qed.

(** linear growth: if every partial addition is bounded by M in magnitude, the error after n steps is at most 2^-53 * n * M *)
Corollary cumsum_rounding_linear (l : list pfloat) (M : R) : sum_ok l ->
  (forall x r, (exists p, l = p ++ x :: r) -> Rabs (val (csf r) + val x) <= M) ->
  Rabs (val (csf l) - csr (map val l)) <= u64 * (INR (length l) * M).
Proof.
  intros Hok HM. destruct (cumsum_rounding_link l Hok) as (_ & H). eapply Rle_trans; [exact H|].
  apply Rmult_le_compat_l; [unfold u64; pose proof (bpow_gt_0 radix2 (-53 + 1)); lra|].
  clear H Hok. induction l as [|x r IH]; [cbn; lra|].
  cbn [sum_scale length]. rewrite S_INR.
  assert (H1 : sum_scale r <= INR (length r) * M).
  { apply IH. intros y q (p & Ep). apply HM. exists (x :: p). rewrite Ep. reflexivity. }
  assert (H2 : Rabs (val (csf r) + val x) <= M) by (apply HM; exists []; reflexivity). lra.
Qed.

(** ---- the model: the cumulative (windowless) Integral, on ANY carrier, returns [cumsum] of its inputs when v * 0 is the zero of
    the carrier (every finite non-negative binary64 seed; every real seed) *)
From Yata Require Import Core.Window Core.WindowSpec Spec.Hist Methods.Basic.
Open Scope R_scope.
Section Integral0.
Context {pw : PW} {N : Num}.
Theorem integral0_is_cumsum (v : F) xs x : (2 <= pmax)%Z -> fmul v (fofZ 0) = f0 ->
  exists s0, integral_new 0 v = Ok s0 /\
    snd (integral_next (steps integral_next s0 xs) x) = cumsum (rev (xs ++ [x])).
Proof.
  intros Hp Hz. unfold integral_new. destruct (Z.eqb_spec 0 pmax); [lia|].
  eexists; split; [reflexivity|].
  pose (Inv := fun (s : integral) (rh : list F) => w_is_empty (in_window s) = true /\ in_value s = cumsum rh).
  assert (Hs : forall s rh y, Inv s rh -> Inv (fst (integral_next s y)) (y :: rh) /\ snd (integral_next s y) = cumsum (y :: rh)).
  { intros s rh y (He & Hv). unfold integral_next. cbv zeta. rewrite He. cbn [fst snd in_window in_value cumsum].
    rewrite Hv. repeat split; auto. }
  apply (invL_correct integral_next Inv cumsum Hs). split.
  - cbn [in_window]. unfold w_new_t, w_new. destruct (Z.leb_spec 0 (pmax - 1)); [reflexivity|lia].
  - cbn [in_value cumsum]. exact Hz.
Qed.
End Integral0.

(** end to end on binary64: the output of the model's cumulative Integral after n inputs is within 2^-53 * n * M of the exact sum *)
Theorem integral0_f64_accuracy (xs : list pfloat) (x : pfloat) (M : R) :
  let l := rev (xs ++ [x]) in
  sum_ok l -> (forall y r, (exists p, l = p ++ y :: r) -> Rabs (val (csf r) + val y) <= M) ->
  exists s0, integral_new (pw := PW8) (N := NumF64) 0 1%float = Ok s0 /\
    Rabs (val (snd (integral_next (pw := PW8) (steps (integral_next (pw := PW8)) s0 xs) x)) - csr (map val l)) <= u64 * (INR (length l) * M).
Proof.
  intros l Hok HM.
  destruct (integral0_is_cumsum (pw := PW8) (N := NumF64) 1%float xs x ltac:(cbn; lia) ltac:(vm_compute; reflexivity)) as (s0 & E & H).
  exists s0. split; [exact E|]. rewrite H. apply cumsum_rounding_linear; assumption.
Qed.

(** ---- the hypothesis is decidable by computation: a finite binary64 result means that the addition did not overflow *)
Lemma finite_sum_no_overflow (x y : pfloat) : fin x -> fin y -> fin (x + y)%float -> Rabs (rnd (val x + val y)) < maxf.
Proof.
  unfold fin. rewrite !is_finite_equiv, add_equiv. intros Fx Fy Fs.
  pose proof (Bplus_correct prec emax Hprec53 Hmax1024 mode_NE (Prim2B x) (Prim2B y) Fx Fy) as H.
  change (SpecFloat.fexp prec emax) with (FLT_exp (-1074) 53) in H. cbn [round_mode] in H.
  destruct (Rlt_bool_spec (Rabs (rnd (B2R (Prim2B x) + B2R (Prim2B y)))) (bpow radix2 emax)) as [Hlt|Hge]; [exact Hlt|].
  exfalso. destruct H as (Ho & _). unfold binary_overflow in Ho. cbn [overflow_to_inf] in Ho.
  assert (Hi : is_finite (Bplus mode_NE (Prim2B x) (Prim2B y)) = false).
  { destruct (Bplus mode_NE (Prim2B x) (Prim2B y)); cbn in Ho; try discriminate; reflexivity. }
  assert (Hc : is_finite (Bplus mode_NE (Prim2B x) (Prim2B y)) = true) by exact Fs. rewrite Hi in Hc. discriminate.
Qed.

Fixpoint sum_okb (l : list pfloat) : bool :=
  match l with [] => true
  | x :: r => sum_okb r && Coq.Floats.PrimFloat.is_finite x && Coq.Floats.PrimFloat.is_finite (csf r + x)%float end.
Lemma sum_okb_ok (l : list pfloat) : sum_okb l = true -> sum_ok l.
Proof.
  induction l as [|x r IH]; [intros _; exact I|]. cbn [sum_okb sum_ok]. intros H.
  apply andb_prop in H. destruct H as (H & H3). apply andb_prop in H. destruct H as (H1 & H2).
  assert (Hr := IH H1). split; [exact Hr|]. split; [exact H2|].
  assert (Fr : fin (csf r)).
  { clear - Hr. destruct r as [|y q]; [apply val_zero|]. cbn [sum_ok] in Hr. destruct Hr as (Hq & Hy & Hov).
    cbn [cumsum]. assert (Fq : fin (csf q)).
    { clear - Hq. induction q as [|z q IH]; [apply val_zero|]. cbn [sum_ok] in Hq. destruct Hq as (Hq & Hz & Hov).
      cbn [cumsum]. apply (f64_add_error (csf q) z (IH Hq) Hz Hov). }
    apply (f64_add_error (csf q) y Fq Hy Hov). }
  apply finite_sum_no_overflow; assumption.
Qed.

(** a concrete stream meets the hypotheses (inputs of very different magnitudes, newest first) *)
Example sum_ok_witness : sum_ok [3.5%float; 0x1.7e43c8800759cp+996%float; 0.2%float; 0.1%float; (-7)%float].
Proof. apply sum_okb_ok. vm_compute. reflexivity. Qed.

(** ---- the same for subtraction, and for the SLIDING sum  s' = (s + x) - old  (windowed Integral, SMA, ...): two roundings per
    step; the deviation from the exact recurrence is at most u times the magnitudes of all additions and subtractions performed
    so far - it grows with the length of the stream and does NOT shrink when large values leave the window (the residue behind
    the findings KF-C07-wma-drift, KF-C12-*-residue) *)
Theorem f64_sub_error (x y : pfloat) : fin x -> fin y -> Rabs (rnd (val x - val y)) < maxf ->
  fin (x - y)%float /\ exists eps, Rabs eps <= u64 /\ val (x - y)%float = (val x - val y) * (1 + eps).
Proof.
  unfold fin. rewrite !is_finite_equiv. intros Fx Fy Hov. unfold val. rewrite sub_equiv.
  pose proof (Bminus_correct prec emax Hprec53 Hmax1024 mode_NE (Prim2B x) (Prim2B y) Fx Fy) as H.
  change (SpecFloat.fexp prec emax) with (FLT_exp (-1074) 53) in H. cbn [round_mode] in H.
  rewrite Rlt_bool_true in H by exact Hov. destruct H as (Hv & Hf & _). split; [exact Hf|].
  destruct (val_multiple x) as (mx & Ex). destruct (val_multiple y) as (my & Ey). unfold val in Ex, Ey.
  destruct (relative_error_N_FLT_F2R_emin_ex radix2 (-1074) 53 eq_refl (fun z => negb (Z.even z)) (mx - my)) as (eps & He & Hr).
  exists eps. split; [exact He|]. transitivity (rnd (B2R (Prim2B x) - B2R (Prim2B y))); [exact Hv|]. rewrite Ex, Ey.
  replace (F2R (Float radix2 mx (-1074)) - F2R (Float radix2 my (-1074))) with (F2R (Float radix2 (mx - my) (-1074)))
    by (unfold F2R; cbn [Fnum Fexp]; rewrite minus_IZR; ring).
  exact Hr.
Qed.

(** steps (x, old), newest first; start value s0 *)
Fixpoint slide_f (s0 : pfloat) (l : list (pfloat * pfloat)) : pfloat :=
  match l with [] => s0 | (x, old) :: r => (slide_f s0 r + x - old)%float end.
Fixpoint slide_r (s0 : R) (l : list (R * R)) : R :=
  match l with [] => s0 | (x, old) :: r => slide_r s0 r + x - old end.
Fixpoint slide_ok (s0 : pfloat) (l : list (pfloat * pfloat)) : Prop :=
  match l with [] => fin s0
  | (x, old) :: r => slide_ok s0 r /\ fin x /\ fin old /\ Rabs (rnd (val (slide_f s0 r) + val x)) < maxf /\
                     Rabs (rnd (val (slide_f s0 r + x)%float - val old)) < maxf end.
Fixpoint slide_scale (s0 : pfloat) (l : list (pfloat * pfloat)) : R :=
  match l with [] => 0
  | (x, old) :: r => slide_scale s0 r + Rabs (val (slide_f s0 r) + val x) + Rabs (val (slide_f s0 r + x)%float - val old) end.

Theorem sliding_sum_rounding_link (s0 : pfloat) (l : list (pfloat * pfloat)) : slide_ok s0 l ->
  fin (slide_f s0 l) /\
  Rabs (val (slide_f s0 l) - slide_r (val s0) (map (fun p => (val (fst p), val (snd p))) l)) <= u64 * slide_scale s0 l.
Proof.
  induction l as [|(x, old) r IH]; intros Hok.
  - cbn [slide_f slide_r map slide_scale]. split; [exact Hok|]. rewrite Rminus_diag_eq by reflexivity. rewrite Rabs_R0. lra.
  - destruct Hok as (Hr & Hx & Ho & Hov1 & Hov2). destruct (IH Hr) as (Fr & Er). cbn [slide_f slide_r map slide_scale fst snd].
    destruct (f64_add_error (slide_f s0 r) x Fr Hx Hov1) as (Fa & e1 & He1 & Hv1).
    destruct (f64_sub_error (slide_f s0 r + x)%float old Fa Ho Hov2) as (Fs & e2 & He2 & Hv2).
    split; [exact Fs|]. rewrite Hv2.
    set (a := val (slide_f s0 r)) in *. set (ex := slide_r (val s0) _) in *. set (vx := val x) in *. set (vo := val old) in *.
    set (b := val (slide_f s0 r + x)%float) in *.
    replace ((b - vo) * (1 + e2) - (ex + vx - vo)) with ((a - ex) + e1 * (a + vx) + e2 * (b - vo)) by (rewrite Hv1; ring).
    eapply Rle_trans; [apply Rabs_triang|]. eapply Rle_trans; [apply Rplus_le_compat_r, Rabs_triang|]. rewrite !Rabs_mult.
    assert (H1 : Rabs e1 * Rabs (a + vx) <= u64 * Rabs (a + vx)) by (apply Rmult_le_compat_r; [apply Rabs_pos|exact He1]).
    assert (H2 : Rabs e2 * Rabs (b - vo) <= u64 * Rabs (b - vo)) by (apply Rmult_le_compat_r; [apply Rabs_pos|exact He2]).
    lra.
Qed.

(** ---- multiplication: the standard model with an underflow term (|eta| <= 2^-1075, eps * eta = 0) *)
Theorem f64_mul_error (x y : pfloat) : fin x -> fin y -> Rabs (rnd (val x * val y)) < maxf ->
  fin (x * y)%float /\ exists eps eta, Rabs eps <= u64 /\ Rabs eta <= / 2 * bpow radix2 (-1074) /\ eps * eta = 0 /\
    val (x * y)%float = (val x * val y) * (1 + eps) + eta.
Proof.
  unfold fin. rewrite !is_finite_equiv. intros Fx Fy Hov. unfold val. rewrite mul_equiv.
  pose proof (Bmult_correct prec emax Hprec53 Hmax1024 mode_NE (Prim2B x) (Prim2B y)) as H.
  change (SpecFloat.fexp prec emax) with (FLT_exp (-1074) 53) in H. cbn [round_mode] in H.
  rewrite Rlt_bool_true in H by exact Hov. destruct H as (Hv & Hf & _). split; [transitivity (is_finite (Prim2B x) && is_finite (Prim2B y))%bool; [exact Hf|rewrite Fx, Fy; reflexivity]|].
  destruct (error_N_FLT radix2 (-1074) 53 eq_refl (fun z => negb (Z.even z)) (B2R (Prim2B x) * B2R (Prim2B y))) as (eps & eta & He & Ht & Hz & Hr).
  exists eps, eta. repeat split; try assumption. transitivity (rnd (B2R (Prim2B x) * B2R (Prim2B y))); [exact Hv|exact Hr].
Qed.
