(** Lemmas shared by the method proofs: windows holding the last [n] inputs
    of a history, and algebra of from-scratch sums over [NumR]. *)
From Yata Require Import Base.Prelude Base.Num Base.NumR Core.Window Core.WindowSpec
  Spec.Hist Spec.MethodDefs Methods.Basic.
From Coq Require Import Reals Lra.

Open Scope Z_scope.
Section WinHist.
Context {pw : PW}.
Context {A : Type}.

(** the window holds exactly the last [n] inputs of history [h] *)
Definition WinOK (n : nat) (w : window A) (h : nat -> A) : Prop :=
  wf w /\ wsize w = Z.of_nat n /\ wseq w = hwin n h.

Lemma winok_new n v : 0 <= n <= pmax - 1 ->
  WinOK (Z.to_nat n) (w_new_t n v) (hconst v).
Proof.
  intros Hn. destruct (new_spec n v Hn) as (w & Hnew & Hwf & Hs & Hsz).
  unfold w_new_t. rewrite Hnew. split; [exact Hwf|]. split; [lia|].
  rewrite Hs, hwin_const. reflexivity.
Qed.

Lemma winok_push n w h x : WinOK (S n) w h ->
  exists w', w_push_t w x = (w', h n) /\ WinOK (S n) w' (hcons x h).
Proof.
  intros (Hwf & Hsz & Hs).
  destruct (push_spec w x Hwf ltac:(lia)) as (w' & old & Hp & Hwf' & Hsz' & Hs1 & Hs2).
  exists w'. unfold w_push_t. rewrite Hp. rewrite Hs, hwin_S in Hs1. injection Hs1 as Hold.
  split; [congruence|]. split; [exact Hwf'|]. split; [lia|].
  rewrite Hs2, Hs, hwin_S, hwin_hcons. reflexivity.
Qed.

Lemma winok_nonempty n w h : WinOK (S n) w h -> w_is_empty w = false.
Proof.
  intros (Hwf & Hsz & Hs). unfold w_is_empty. destruct (buf w) eqn:E; auto.
  destruct Hwf as (H1 & _). rewrite E in H1. simpl in H1. lia.
Qed.

Lemma winok_items n w h : WinOK n w h -> w_items w = map h (seq 0 n).
Proof.
  intros (Hwf & Hsz & Hs). unfold w_items. rewrite (iter_all w Hwf).
  unfold content. rewrite Hs. unfold hwin. rewrite <- map_rev, rev_involutive. reflexivity.
Qed.

Lemma winok_newest n w h d : WinOK (S n) w h -> past_peek w d = h O.
Proof.
  intros (Hwf & Hsz & Hs). unfold past_peek.
  destruct (newest_spec w Hwf ltac:(lia)) as (v & Hv & Hc). rewrite Hv.
  unfold content in Hc. rewrite Hs in Hc. unfold hwin in Hc.
  rewrite <- map_rev, rev_involutive in Hc. simpl in Hc. congruence.
Qed.
End WinHist.

(** sums over NumR *)
Open Scope R_scope.
Lemma lsum_app (l1 l2 : list R) : lsum (N := NumR) (l1 ++ l2) = lsum (N := NumR) l1 + lsum (N := NumR) l2.
Proof. induction l1 as [|x r IH]; simpl; numR; [lra|]. rewrite IH. lra. Qed.

Lemma gsum_S n (g : nat -> R) : gsum (N := NumR) (S n) g = gsum (N := NumR) n g + g n.
Proof. unfold gsum. rewrite seq_S, map_app, lsum_app. simpl. numR. lra. Qed.

Lemma gsum_S_shift n (g : nat -> R) :
  gsum (N := NumR) (S n) g = g O + gsum (N := NumR) n (fun i => g (S i)).
Proof. unfold gsum. change (seq 0 (S n)) with (O :: seq 1 n). rewrite <- seq_shift. cbn [map lsum]. rewrite map_map. reflexivity. Qed.

Lemma gsum_ext n (g g' : nat -> R) : (forall i, (i < n)%nat -> g i = g' i) ->
  gsum (N := NumR) n g = gsum (N := NumR) n g'.
Proof. intros H. unfold gsum. f_equal. apply map_ext_in. intros i Hi. apply in_seq in Hi. apply H. lia. Qed.

Lemma gsum_plus n (g g' : nat -> R) :
  gsum (N := NumR) n (fun i => g i + g' i) = gsum (N := NumR) n g + gsum (N := NumR) n g'.
Proof. induction n as [|n IH]; [unfold gsum; simpl; numR; lra|]. rewrite !gsum_S, IH. lra. Qed.

Lemma gsum_scal n c (g : nat -> R) :
  gsum (N := NumR) n (fun i => c * g i) = c * gsum (N := NumR) n g.
Proof. induction n as [|n IH]; [unfold gsum; simpl; numR; lra|]. rewrite !gsum_S, IH. lra. Qed.

Lemma gsum_const n c : gsum (N := NumR) n (fun _ => c) = INR n * c.
Proof. induction n as [|n IH]; [unfold gsum; simpl; numR; lra|]. rewrite gsum_S, IH, S_INR. lra. Qed.

Lemma gsum_0 (g : nat -> R) : gsum (N := NumR) O g = 0.
Proof. reflexivity. Qed.

(** one step of a sliding sum: the history gains [x], the window loses [h n] *)
Lemma gsum_hcons {A} n (x : A) (h : nat -> A) (g : A -> R) :
  gsum (N := NumR) (S n) (fun i => g (hcons x h i)) =
  g x + gsum (N := NumR) (S n) (fun i => g (h i)) - g (h n).
Proof. rewrite gsum_S_shift, gsum_S. simpl. lra. Qed.

Lemma fofN_INR n : fofN (N := NumR) n = INR n.
Proof. unfold fofN. numR. rewrite <- INR_IZR_INZ. reflexivity. Qed.

Lemma hget_map_gen {A B} (f : A -> B) x0 rh i : hget (f x0) (map f rh) i = f (hget x0 rh i).
Proof. rewrite !hget_nth. rewrite <- (map_nth f). reflexivity. Qed.

Ltac rsimp := numR; rewrite ?fofN_INR in *.

Section Helpers.
Context {pw : PW}.
Open Scope Z_scope.
Lemma nat_len n : 1 <= n -> exists m, Z.to_nat n = S m.
Proof. intros H. exists (Z.to_nat (n - 1)). lia. Qed.
Lemma bad_len_false n : 1 <= n <= pmax - 1 -> bad_len n = false.
Proof. intros H. unfold bad_len. destruct (Z.eqb_spec n 0), (Z.eqb_spec n pmax); auto; lia. Qed.
Lemma IZR_nat n : 0 <= n -> IZR n = INR (Z.to_nat n).
Proof. intros H. rewrite INR_IZR_INZ, Z2Nat.id by lia. reflexivity. Qed.
Lemma INR_S_neq n : INR (S n) <> 0%R.
Proof. apply not_0_INR. lia. Qed.


Lemma winok_ext {A} n (w : window A) h h' : (forall i, h i = h' i) -> WinOK n w h -> WinOK n w h'.
Proof. intros E (H1 & H2 & H3). split; [exact H1|]. split; [exact H2|].
  rewrite H3. apply hwin_ext. intros; apply E. Qed.
End Helpers.

(** closing step shared by all [X_correct] theorems *)
Ltac by_inv init step :=
  let s0 := fresh "s0" in let Hnew := fresh "Hnew" in let Hinv := fresh "Hinv" in
  let m := fresh "m" in let Em := fresh "Em" in
  match goal with Hn : (1 <= ?n <= _)%Z |- _ =>
    destruct init as (s0 & Hnew & Hinv); exists s0; split; [exact Hnew|];
    destruct (nat_len n ltac:(lia)) as (m & Em); rewrite Em in *;
    eapply (inv_correct _ _ _ (step m)); exact Hinv
  end.
