(** C15: moving averages are averages — affine equivariance, range preservation,
    superposition and impulse response, at the level of the definitions
    (exact arithmetic); the [X_correct] theorems transfer them to the methods. *)
From Yata Require Import Base.Prelude Base.Num Base.NumR Core.Window Core.WindowSpec Core.Candle
  Spec.Hist Spec.MethodDefs Methods.Basic Proofs.MethodsCommon Proofs.Windowed Proofs.Windowed2 Proofs.Windowed5
  Proofs.Recursive.
From Coq Require Import Reals Lra.
Open Scope R_scope.

Section Avg.
Local Notation R := (@F NumR).
Local Notation gsumR := (gsum (N := NumR)).

Lemma INR_pos n : (1 <= n)%nat -> 0 < INR n.
Proof. intros H. apply lt_0_INR. lia. Qed.

(* ---------------------------------------------------------------- SMA *)
Theorem sma_affine n a b (h : nat -> R) : (1 <= n)%nat ->
  sma_def n (fun i => a * h i + b) = a * sma_def n h + b.
Proof.
  intros Hn. unfold sma_def, hsum. rewrite gsum_plus, gsum_scal, gsum_const. rsimp.
  pose proof (INR_pos n Hn). field. lra.
Qed.
Theorem sma_linear n (h g : nat -> R) : sma_def n (fun i => h i + g i) = sma_def n h + sma_def n g.
Proof. unfold sma_def, hsum. rewrite gsum_plus. rsimp. unfold Rdiv. ring. Qed.
Lemma gsum_le n (g g' : nat -> R) : (forall i, (i < n)%nat -> g i <= g' i) -> gsumR n g <= gsumR n g'.
Proof. intros H. induction n as [|n IH]; [unfold gsum; simpl; rsimp; lra|]. rewrite !gsum_S.
  assert (gsumR n g <= gsumR n g') by (apply IH; intros; apply H; lia). specialize (H n ltac:(lia)). lra. Qed.
Theorem sma_range n lo hi (h : nat -> R) : (1 <= n)%nat -> (forall i, (i < n)%nat -> lo <= h i <= hi) ->
  lo <= sma_def n h <= hi.
Proof.
  intros Hn Hb. unfold sma_def, hsum. rsimp. pose proof (INR_pos n Hn) as Hp.
  assert (H1 : gsumR n (fun _ => lo) <= gsumR n h) by (apply gsum_le; intros; apply Hb; auto).
  assert (H2 : gsumR n h <= gsumR n (fun _ => hi)) by (apply gsum_le; intros; apply Hb; auto).
  rewrite gsum_const in H1, H2. split.
  - apply Rmult_le_reg_r with (INR n); [exact Hp|]. unfold Rdiv. rewrite Rmult_assoc, Rinv_l by lra. lra.
  - apply Rmult_le_reg_r with (INR n); [exact Hp|]. unfold Rdiv. rewrite Rmult_assoc, Rinv_l by lra. lra.
Qed.
(** impulse response: a unit impulse k steps ago contributes 1/n while it is in the window *)
Definition impulse (k : nat) : nat -> R := fun i => if Nat.eqb i k then 1 else 0.
Lemma gsum_impulse n k (w : nat -> R) :
  gsumR n (fun i => w i * impulse k i) = if Nat.ltb k n then w k else 0.
Proof.
  induction n as [|n IH]; [reflexivity|]. rewrite gsum_S, IH. unfold impulse.
  destruct (Nat.eqb_spec n k) as [->|Hne].
  - rewrite Nat.ltb_irrefl. replace (k <? S k)%nat with true by (symmetry; apply Nat.ltb_lt; lia). lra.
  - destruct (Nat.ltb_spec k n), (Nat.ltb_spec k (S n)); try lia; lra.
Qed.
Theorem sma_impulse n k : sma_def n (impulse k) = if Nat.ltb k n then / INR n else 0.
Proof.
  unfold sma_def, hsum. rewrite (gsum_ext n (impulse k) (fun i => 1 * impulse k i)) by (intros; lra).
  rewrite gsum_impulse. rsimp. destruct (k <? n)%nat; unfold Rdiv; lra.
Qed.

(* ---------------------------------------------------------------- WMA *)
Lemma wma_den_pos n : (1 <= n)%nat -> 0 < IZR (Z.of_nat n * (Z.of_nat n + 1) / 2).
Proof. intros H. apply IZR_lt. pose proof (tri_pos (Z.of_nat n) ltac:(lia)). lia. Qed.
Theorem wma_affine n a b (h : nat -> R) : (1 <= n)%nat ->
  wma_def n (fun i => a * h i + b) = a * wma_def n h + b.
Proof.
  intros Hn. unfold wma_def, hwsum. rsimp.
  rewrite (gsum_ext n _ (fun i => a * (fofN (N := NumR) (n - i) * h i) + b * INR (n - i)))
    by (intros; rewrite fofN_INR; ring).
  rewrite gsum_plus, !gsum_scal, wma_weights_sum. pose proof (wma_den_pos n Hn). field. lra.
Qed.
Theorem wma_linear n (h g : nat -> R) : wma_def n (fun i => h i + g i) = wma_def n h + wma_def n g.
Proof.
  unfold wma_def, hwsum. rsimp.
  rewrite (gsum_ext n _ (fun i => fofN (N := NumR) (n - i) * h i + fofN (N := NumR) (n - i) * g i)) by (intros; ring).
  rewrite gsum_plus. unfold Rdiv. ring.
Qed.
Theorem wma_range n lo hi (h : nat -> R) : (1 <= n)%nat -> (forall i, (i < n)%nat -> lo <= h i <= hi) ->
  lo <= wma_def n h <= hi.
Proof.
  intros Hn Hb. unfold wma_def, hwsum. rsimp. pose proof (wma_den_pos n Hn) as Hp.
  assert (H1 : gsumR n (fun i => INR (n - i) * lo) <= gsumR n (fun i => fofN (N := NumR) (n - i) * h i)).
  { apply gsum_le. intros i Hi. rewrite fofN_INR. apply Rmult_le_compat_l; [apply pos_INR|apply Hb; auto]. }
  assert (H2 : gsumR n (fun i => fofN (N := NumR) (n - i) * h i) <= gsumR n (fun i => INR (n - i) * hi)).
  { apply gsum_le. intros i Hi. rewrite fofN_INR. apply Rmult_le_compat_l; [apply pos_INR|apply Hb; auto]. }
  rewrite (gsum_ext n (fun i => INR (n - i) * lo) (fun i => lo * INR (n - i))) in H1 by (intros; ring).
  rewrite (gsum_ext n (fun i => INR (n - i) * hi) (fun i => hi * INR (n - i))) in H2 by (intros; ring).
  rewrite gsum_scal, wma_weights_sum in H1, H2.
  set (D := IZR (Z.of_nat n * (Z.of_nat n + 1) / 2)) in *. set (S := gsumR n _) in *.
  split; apply Rmult_le_reg_r with D; try exact Hp; unfold Rdiv; rewrite Rmult_assoc, Rinv_l by lra; lra.
Qed.
(** impulse response: weight (n-k)/(n(n+1)/2), the newest input has the largest weight *)
Theorem wma_impulse n k : wma_def n (impulse k) =
  if Nat.ltb k n then INR (n - k) / IZR (Z.of_nat n * (Z.of_nat n + 1) / 2) else 0.
Proof.
  unfold wma_def, hwsum. cbn [fmul fdiv fofZ NumR]. rewrite (gsum_impulse n k (fun i => fofN (N := NumR) (n - i))).
  destruct (k <? n)%nat; [rewrite fofN_INR; reflexivity|unfold Rdiv; lra].
Qed.

(* -------------------------------------------------- EMA family (recurrence) *)
Theorem ema_affine (al x0 a b : R) rh :
  ema_rec al (a * x0 + b) (map (fun x => a * x + b) rh) = a * ema_rec al x0 rh + b.
Proof. induction rh as [|x r IH]; cbn [map ema_rec]; [reflexivity|]. rewrite IH. rsimp. ring. Qed.
Theorem ema_linear (al x0 y0 : R) rh rg : length rh = length rg ->
  ema_rec al (x0 + y0) (map (fun p => fst p + snd p) (combine rh rg)) = ema_rec al x0 rh + ema_rec al y0 rg.
Proof.
  revert rg; induction rh as [|x r IH]; intros [|y g] Hl; cbn in Hl; try discriminate; [reflexivity|].
  cbn [combine map ema_rec fst snd]. rewrite IH by lia. rsimp. ring.
Qed.
Theorem ema_range (al x0 lo hi : R) rh : 0 <= al <= 1 -> lo <= x0 <= hi -> (forall x, In x rh -> lo <= x <= hi) ->
  lo <= ema_rec al x0 rh <= hi.
Proof.
  intros Ha H0 Hb. induction rh as [|x r IH]; cbn [ema_rec]; [exact H0|].
  assert (Hx : lo <= x <= hi) by (apply Hb; left; reflexivity).
  assert (Hr : lo <= ema_rec al x0 r <= hi) by (apply IH; intros; apply Hb; right; assumption).
  rsimp. split; nra.
Qed.
Lemma ema_alpha_range n : (1 <= n)%Z -> 0 <= MethodDefs.ema_alpha (N := NumR) n <= 1.
Proof.
  intros Hn. unfold MethodDefs.ema_alpha. rsimp. assert (2 <= IZR (n + 1)) by (apply IZR_le; lia).
  split; [apply Rle_mult_inv_pos; lra|].
  apply Rmult_le_reg_r with (IZR (n + 1)); [lra|]. unfold Rdiv. rewrite Rmult_assoc, Rinv_l by lra. lra.
Qed.
Lemma rma_alpha_range n : (1 <= n)%Z -> 0 <= MethodDefs.rma_alpha (N := NumR) n <= 1.
Proof.
  intros Hn. unfold MethodDefs.rma_alpha. rsimp. assert (1 <= IZR n) by (apply IZR_le; lia).
  split; [apply Rle_mult_inv_pos; lra|].
  apply Rmult_le_reg_r with (IZR n); [lra|]. unfold Rdiv. rewrite Rmult_assoc, Rinv_l by lra. lra.
Qed.
(** impulse response of the EMA recurrence started at 0: alpha (1-alpha)^k *)
Theorem ema_impulse (al : R) k : ema_rec al 0 (repeat 0 k ++ [1]) = al * (1 - al) ^ k.
Proof. induction k as [|k IH]; cbn [repeat app ema_rec pow]; rsimp; [ring|]. rewrite IH. ring. Qed.

(* --------------------------------------- transfer to the running methods (SMA) *)
Context {pw : PW}.
Open Scope Z_scope.
Lemma hget_map {A B} (f : A -> B) x0 rh i : hget (f x0) (map f rh) i = f (hget x0 rh i).
Proof. rewrite !hget_nth. rewrite <- (map_nth f). reflexivity. Qed.
Definition aff (a b : R) : R -> R := fun y => (a * y + b)%R.
Theorem sma_method_affine n (a b v : R) xs x : 1 <= n <= pmax - 1 ->
  exists s0 s1, sma_new n v = Ok s0 /\ sma_new n (aff a b v) = Ok s1 /\
    snd (sma_next (steps sma_next s1 (map (aff a b) xs)) (aff a b x)) =
    aff a b (snd (sma_next (steps sma_next s0 xs) x)).
Proof.
  intros Hn. destruct (sma_correct n v xs x Hn) as (s0 & E0 & O0).
  destruct (sma_correct n (aff a b v) (map (aff a b) xs) (aff a b x) Hn) as (s1 & E1 & O1).
  exists s0, s1. split; [exact E0|]. split; [exact E1|]. rewrite O0, O1.
  assert (Ef : map (aff a b) xs ++ [aff a b x] = map (aff a b) (xs ++ [x])) by (rewrite map_app; reflexivity).
  rewrite Ef, <- map_rev. unfold aff at 3. rewrite <- (sma_affine (Z.to_nat n) a b) by lia.
  unfold sma_def, hsum. f_equal. apply gsum_ext. intros i _. apply (hget_map (aff a b)).
Qed.
End Avg.
