(** C05 continued: Trix (one-step change of the triple EMA and its signal average: a three-level cascade). *)
From Yata Require Import Base.Prelude Base.Num Base.NumR Core.Window Core.WindowSpec Core.Candle Core.Action Core.Strings
  Spec.Hist Spec.MethodDefs Spec.IndicatorDefs Methods.Basic Methods.Select Indicators.Common Indicators.Set3
  Proofs.MethodsCommon Proofs.Windowed Proofs.Recursive Proofs.MAProofs Proofs.Cascade Proofs.IndicatorProofs3.
From Coq Require Import Reals Lra.
Open Scope Z_scope.

Section IP7.
Context {pw : PW}.
Local Notation R := (@F NumR).
Local Notation C := (candle (N := NumR)).
Ltac dlet := repeat match goal with |- context [let '(_, _) := ?e in _] => destruct e end.

Lemma series_series {A} (g : list A -> R) (l : list A) :
  suffixes (map g (suffixes l)) = map (fun l' => map g (suffixes l')) (suffixes l).
Proof. induction l as [|x r IH]; [reflexivity|]. cbn [suffixes map]. rewrite IH. reflexivity. Qed.

Theorem trix_values_correct p1 (signal : ma_cfg) src (c0 : C) cs c :
  2 < p1 <= pmax - 1 -> 1 < ma_period signal -> ma_proved signal = true -> ma_len_ok signal -> 4 <= pmax ->
  exists s0, trix_init p1 signal src c0 = Ok s0 /\
    fst (snd (trix_next (steps trix_next s0 cs) c)) = trix_values p1 signal src c0 (rev (cs ++ [c])).
Proof.
  intros Hp Hsg Ps Ls Hpm. unfold trix_init.
  destruct (Z.ltb_spec 2 p1); [|lia]. destruct (Z.ltb_spec 1 (ma_period signal)); [|lia]. cbn [andb]. cbv zeta.
  set (f := fun k : C => c_source k src). set (v0 := f c0).
  assert (R1 : 1 <= p1 <= pmax - 1) by lia. assert (R11 : 1 <= 1 <= pmax - 1) by lia.
  destruct (tma_correct p1 v0 [] v0 R1) as (t0 & Et & _).
  destruct (ma_correct signal (f0 (N := NumR)) [] (f0 (N := NumR)) Ps Ls) as (m0 & Em & _).
  destruct (momentum_correct 1 v0 [] v0 R11) as (w0 & Ew & _).
  unfold v0, f in Et, Ew. rewrite Et, Em, Ew. cbn [obind].
  destruct (reversal_new 1 1 (f0 (N := NumR))) as [r0| |] eqn:Er.
  2:{ exfalso. unfold reversal_new, rev_new in Er. assert (Hsa : sat_add 1 1 = 2) by (unfold sat_add; lia). rewrite Hsa in Er.
      destruct (Z.leb_spec (pmax - 1) 2); [lia|]. cbn in Er. discriminate. }
  2:{ exfalso. unfold reversal_new, rev_new in Er. assert (Hsa : sat_add 1 1 = 2) by (unfold sat_add; lia). rewrite Hsa in Er.
      destruct (Z.leb_spec (pmax - 1) 2); [lia|]. cbn in Er. discriminate. }
  cbn [obind]. eexists; split; [reflexivity|].
  assert (Ct : forall xs x, snd (tma_next (steps tma_next t0 xs) x) = tma_def p1 v0 (rev (xs ++ [x]))).
  { intros xs x. destruct (tma_correct p1 v0 xs x R1) as (t1 & E1 & H1). unfold v0, f in E1. rewrite Et in E1. injection E1 as <-. exact H1. }
  assert (Cw : forall xs x, snd (momentum_next (steps momentum_next w0 xs) x) = momentum_def 1 (hget v0 (rev (xs ++ [x])))).
  { intros xs x. destruct (momentum_correct 1 v0 xs x R11) as (w1 & E1 & H1). unfold v0, f in E1. rewrite Ew in E1. injection E1 as <-. exact H1. }
  pose proof (ma_correct' _ _ _ Ps Ls Em) as Cs.
  set (s0 := mkTrix src t0 m0 w0 _ _ r0).
  assert (G : forall cs0 s, tx_source s = src ->
     tx_source (steps trix_next s cs0) = src /\ tx_tma (steps trix_next s cs0) = steps tma_next (tx_tma s) (map f cs0)).
  { induction cs0 as [|k r IH]; intros s Es; [split; [assumption|reflexivity]|]. unfold steps in *. cbn [fold_left map].
    assert (Es' : tx_source (fst (trix_next s k)) = src) by (unfold trix_next; dlet; exact Es).
    destruct (IH _ Es') as (I1 & I2). split; [exact I1|]. rewrite I2. f_equal.
    unfold trix_next. rewrite Es. fold (f k). destruct (tma_next (tx_tma s) (f k)). dlet. reflexivity. }
  (* level 2: the triple EMA fed to the one-step change *)
  set (i2 := fun (s : trix_st (N := NumR)) (k : C) => snd (tma_next (tx_tma s) (c_source k (tx_source s)))).
  set (D2 := fun rcs : list C => tma_def p1 v0 (srcs src rcs)).
  assert (HD2 : forall p k, i2 (steps trix_next s0 p) k = D2 (rev (p ++ [k]))).
  { intros p k. destruct (G p s0 eq_refl) as (H1 & H2). unfold i2. rewrite H1, H2. fold (f k). cbn [tx_tma s0]. rewrite Ct.
    unfold D2. rewrite srcs_rev_snoc. reflexivity. }
  assert (Hp2 : forall s k, tx_change (fst (trix_next s k)) = fst (momentum_next (tx_change s) (i2 s k))).
  { intros s k. unfold trix_next, i2. destruct (tma_next (tx_tma s) _). cbn [snd]. destruct (momentum_next (tx_change s) _). dlet. reflexivity. }
  pose proof (proj_steps trix_next momentum_next tx_change i2 Hp2) as S2.
  (* level 3: the change fed to the signal average *)
  set (i3 := fun (s : trix_st (N := NumR)) (k : C) => snd (momentum_next (tx_change s) (i2 s k))).
  set (D3 := fun rcs : list C => momentum_def 1 (hget v0 (series D2 rcs))).
  assert (HD3 : forall p k, i3 (steps trix_next s0 p) k = D3 (rev (p ++ [k]))).
  { intros p k. unfold i3. rewrite S2. cbn [tx_change s0]. rewrite Cw.
    rewrite (inputs_series_next trix_next i2 D2 s0 HD2 p k). reflexivity. }
  assert (Hp3 : forall s k, tx_sig (fst (trix_next s k)) = fst (ma_next (tx_sig s) (i3 s k))).
  { intros s k. unfold trix_next, i3, i2. destruct (tma_next (tx_tma s) _). cbn [snd]. destruct (momentum_next (tx_change s) _). cbn [snd].
    destruct (reversal_next (tx_rev s) _). destruct (ma_next (tx_sig s) _). dlet. reflexivity. }
  pose proof (proj_steps trix_next ma_next tx_sig i3 Hp3 cs s0) as S3.
  assert (Hout : fst (snd (trix_next (steps trix_next s0 cs) c)) =
     [i3 (steps trix_next s0 cs) c; snd (ma_next (tx_sig (steps trix_next s0 cs)) (i3 (steps trix_next s0 cs) c))]).
  { unfold trix_next at 1. unfold i3, i2. destruct (tma_next (tx_tma _) _). cbn [snd]. destruct (momentum_next (tx_change _) _). cbn [snd].
    destruct (reversal_next (tx_rev _) _). destruct (ma_next (tx_sig _) _). dlet. reflexivity. }
  rewrite Hout, S3. cbn [tx_sig s0]. rewrite Cs.
  rewrite (inputs_series_next trix_next i3 D3 s0 HD3 cs c). rewrite HD3.
  unfold trix_values. cbv zeta.
  assert (Etm : series (tma_def p1 (c_source c0 src)) (srcs src (rev (cs ++ [c]))) = map D2 (suffixes (rev (cs ++ [c])))).
  { unfold series, srcs, D2. rewrite suffixes_map, map_map. reflexivity. }
  rewrite Etm. unfold series. rewrite series_series, map_map. unfold D3, momentum_def, series. reflexivity.
Qed.
End IP7.
