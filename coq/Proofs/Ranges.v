(** C12: documented value ranges and ordering invariants, exact arithmetic. *)
From Yata Require Import Base.Prelude Base.Num Base.NumR Core.Window Core.Candle Core.Action Core.Strings
  Spec.Hist Spec.MethodDefs Spec.IndicatorDefs Methods.Basic Methods.Select Indicators.Common Indicators.Set3
  Proofs.MethodsCommon Proofs.Windowed3 Proofs.CandleProofs Proofs.Selection Proofs.Averages.
From Coq Require Import Reals Lra.
Open Scope R_scope.

Section Ranges.
Context {pw : PW}.
Local Notation R := (@F NumR).
Local Notation C := (candle (N := NumR)).
Local Notation gsumR := (gsum (N := NumR)).

(** dispersion measures are never negative *)
Theorem stdev_nonneg n (h : nat -> R) : 0 <= stdev_def n h.
Proof. unfold stdev_def. rsimp. apply sqrt_pos. Qed.
Theorem mad_nonneg n (h : nat -> R) : (1 <= n)%nat -> 0 <= mad_def n h.
Proof.
  intros Hn. unfold mad_def. rsimp. apply Rmult_le_pos.
  - apply gsum_nonneg. intros i. apply Rabs_pos.
  - left. apply Rinv_0_lt_compat. apply lt_0_INR. lia.
Qed.
Theorem linvol_nonneg n (h : nat -> R) : 0 <= linvol_def n h.
Proof. unfold linvol_def. apply gsum_nonneg. intros i. rsimp. apply Rabs_pos. Qed.

(** Bollinger: upper >= middle >= lower for a non-negative multiplier *)
Theorem bollinger_order n sigma src (c0 : C) rcs : 0 <= sigma ->
  match boll_values n sigma src c0 rcs with
  | [u; m; l] => l <= m <= u
  | _ => False
  end.
Proof.
  intros Hs. unfold boll_values. cbv zeta.
  pose proof (stdev_nonneg (Z.to_nat n) (hget (c_source c0 src) (srcs src rcs))) as Hd.
  set (sd := stdev_def _ _) in *. set (m := sma_def _ _). rsimp. assert (0 <= sigma * sd) by (apply Rmult_le_pos; assumption). lra.
Qed.

(** Donchian / price channel: the channel contains every high and low it is built from *)
Lemma hmax_ge n (h : nat -> R) i : (i < n)%nat -> h i <= hmax n h.
Proof. intros Hi. unfold hmax. rsimp. destruct (lmax_ge (map h (seq 0 n)) (h O)) as (_ & G). apply G.
  apply in_map. apply in_seq. lia. Qed.
Lemma hmin_le n (h : nat -> R) i : (i < n)%nat -> hmin n h <= h i.
Proof.
  intros Hi. unfold hmin. rsimp. rewrite lmin_as_max.
  destruct (lmax_ge (map Ropp (map h (seq 0 n))) (- h O)) as (_ & G).
  assert (- h i <= fold_left Rmax (map Ropp (map h (seq 0 n))) (- h O)).
  { apply G. apply in_map. apply in_map. apply in_seq. lia. }
  lra.
Qed.
Theorem donchian_contains n (c0 : C) rcs i : (i < Z.to_nat n)%nat ->
  match donch_values n c0 rcs with
  | [lo; mid; hi] => lo <= c_low (hget c0 rcs i) /\ c_high (hget c0 rcs i) <= hi
  | _ => False
  end.
Proof.
  intros Hi. unfold donch_values. cbv zeta. split.
  - rewrite <- (hget_map_gen c_low). apply hmin_le. exact Hi.
  - rewrite <- (hget_map_gen c_high). apply hmax_ge. exact Hi.
Qed.

(** Aroon values lie in [0, 1] *)
Lemma argbest_lt better (h : nat -> R) n : (1 <= n)%nat -> (argbest better h n < n)%nat.
Proof. induction n as [|n IH]; [lia|]. intros _. cbn [argbest]. destruct n as [|n].
  - cbn. destruct (better (h O) (h O)); lia.
  - specialize (IH ltac:(lia)). destruct (better (h (S n)) (h (argbest better h (S n)))); lia. Qed.
Theorem aroon_range n (c0 : C) rcs : (1 <= n)%Z ->
  Forall (fun v => 0 <= v <= 1) (aroon_values n c0 rcs).
Proof.
  intros Hn. unfold aroon_values. cbv zeta.
  assert (Hp : 0 < IZR n) by (apply IZR_lt; lia).
  assert (G : forall a, (0 <= a < n)%Z -> 0 <= fdiv (fofZ (n - a)) (fofZ n) <= 1).
  { intros a Ha. rsimp. assert (0 <= IZR (n - a) <= IZR n) by (split; apply IZR_le; lia).
    split; [apply Rle_mult_inv_pos; lra|].
    apply Rmult_le_reg_r with (IZR n); [exact Hp|]. unfold Rdiv. rewrite Rmult_assoc, Rinv_l by lra. lra. }
  constructor; [|constructor; [|constructor]]; apply G; unfold highest_age, lowest_age;
    (split; [lia|]; pose proof (argbest_lt fgt (hget (c_high c0) (map c_high rcs)) (Z.to_nat n) ltac:(lia));
     pose proof (argbest_lt flt (hget (c_low c0) (map c_low rcs)) (Z.to_nat n) ltac:(lia)); lia).
Qed.

(** Chande momentum oscillator lies in [-1, 1] *)
Lemma fpos_nonneg (x : R) : 0 <= fpos x.
Proof. unfold fpos. rsimp. destruct (Rltb_spec 0 x); lra. Qed.
Lemma fnegp_nonneg (x : R) : 0 <= fnegp x.
Proof. unfold fnegp. rsimp. destruct (Rltb_spec x 0); lra. Qed.
Theorem cmo_range n src (c0 : C) rcs : Forall (fun v => -1 <= v <= 1) (cmo_values n src c0 rcs).
Proof.
  unfold cmo_values. cbv zeta. set (ch := hget f0 _).
  pose proof (gsum_nonneg (Z.to_nat n) (fun i => fpos (ch i)) (fun i => fpos_nonneg _)) as Hu.
  pose proof (gsum_nonneg (Z.to_nat n) (fun i => fnegp (ch i)) (fun i => fnegp_nonneg _)) as Hd.
  set (up := gsum _ (fun i => fpos (ch i))) in *. set (dn := gsum _ (fun i => fnegp (ch i))) in *. constructor; [|constructor]. rsimp.
  destruct (Reqb_spec up 0) as [Eu|Eu], (Reqb_spec dn 0) as [Ed|Ed]; cbn [negb orb]; try lra.
  all: assert (Hs : 0 < up + dn) by (destruct Hu as [Hu|Hu], Hd as [Hd|Hd]; try lra; congruence);
       split; apply Rmult_le_reg_r with (up + dn); try exact Hs; unfold Rdiv; rewrite Rmult_assoc, Rinv_l by lra; lra.
Qed.

(** close location value and true range (C18) restated as ranges *)
Theorem clv_in_range (c : C) : c_low c <= c_close c <= c_high c -> -1 <= c_clv c <= 1.
Proof. exact (clv_range c). Qed.
Theorem true_range_nonneg (c : C) pc : c_low c <= c_high c -> 0 <= c_tr_close c pc.
Proof. exact (tr_nonneg c pc). Qed.

(** Money flow index lies in [0, 1) whenever volumes are non-negative *)
Lemma mfi_core (pmf nmf : R) : 0 <= pmf -> 0 <= nmf ->
  0 <= fsub f1 (fdiv f1 (fadd f1 (if feq nmf f0 then f1 else fdiv pmf nmf))) <= 1.
Proof.
  intros Hp Hn.
  assert (G : forall m : R, 0 <= m -> 0 <= 1 - 1 / (1 + m) <= 1).
  { intros m Hm. assert (0 < / (1 + m) <= 1).
    { split; [apply Rinv_0_lt_compat; lra|]. assert (Hi : / (1 + m) <= / 1) by (apply Rinv_le_contravar; lra).
      rewrite Rinv_1 in Hi. exact Hi. }
    unfold Rdiv. lra. }
  rsimp. destruct (Reqb_spec nmf 0) as [E|E]; apply G; [lra|].
  apply Rle_mult_inv_pos; [exact Hp|]. destruct Hn as [Hn|Hn]; [exact Hn|congruence].
Qed.
Theorem mfi_range n zone (c0 : C) rcs : c_volume c0 >= 0 -> (forall c, In c rcs -> c_volume c >= 0) ->
  match mfi_values n zone c0 rcs with [_; v; _] => 0 <= v <= 1 | _ => False end.
Proof.
  intros H0 Hv. unfold mfi_values. cbv zeta.
  assert (Hh : forall i, 0 <= c_volume (hget c0 rcs i)).
  { intros i. rewrite hget_nth. destruct (nth_in_or_default i rcs c0) as [Hi|Hi]; [apply Rge_le, Hv, Hi|rewrite Hi; lra]. }
  apply mfi_core; apply gsum_nonneg; intros i; match goal with |- context [if ?b then _ else _] => destruct b end;
    try apply Hh; rsimp; lra.
Qed.

(** Chaikin money flow lies in [-1, 1] on valid candles with a positive total volume *)
Theorem cmf_range n (c0 : C) rcs :
  (forall i, c_low (hget c0 rcs i) <= c_close (hget c0 rcs i) <= c_high (hget c0 rcs i) /\ 0 <= c_volume (hget c0 rcs i)) ->
  0 < gsumR (Z.to_nat n) (fun i => c_volume (hget c0 rcs i)) ->
  Forall (fun v => -1 <= v <= 1) (cmf_values n c0 rcs).
Proof.
  intros Hc Hs. unfold cmf_values. cbv zeta. constructor; [|constructor].
  set (h := hget c0 rcs) in *. set (V := gsum _ (fun i => c_volume (h i))) in *.
  assert (Hb : forall i, - c_volume (h i) <= clvv (h i) <= c_volume (h i)).
  { intros i. destruct (Hc i) as (Hr & Hv). pose proof (clv_range (h i) Hr) as Hk. unfold clvv. rsimp.
    set (k := c_clv (h i)) in *. set (v := c_volume (h i)) in *. split; nra. }
  assert (H1 : gsumR (Z.to_nat n) (fun i => clvv (h i)) <= V) by (apply gsum_le; intros i _; apply Hb).
  assert (H2 : - V <= gsumR (Z.to_nat n) (fun i => clvv (h i))).
  { replace (- V) with (gsumR (Z.to_nat n) (fun i => - c_volume (h i))).
    - apply gsum_le; intros i _; apply Hb.
    - unfold V. clear. induction (Z.to_nat n) as [|m IH]; [cbn; rsimp; lra|]. rewrite !gsum_S, IH. rsimp. lra. }
  set (S1 := gsumR _ (fun i => clvv (h i))) in *. rsimp.
  split; apply Rmult_le_reg_r with V; try exact Hs; unfold Rdiv; rewrite Rmult_assoc, Rinv_l by lra; lra.
Qed.

(** raw %K of the stochastic oscillator lies in [0, 1] *)
Theorem sto_raw_range n (c0 : C) rcs : (1 <= n)%Z ->
  c_low (hget c0 rcs O) <= c_close (hget c0 rcs O) <= c_high (hget c0 rcs O) ->
  0 <= sto_raw n c0 rcs <= 1.
Proof.
  intros Hn Hc. unfold sto_raw. cbv zeta.
  pose proof (hmax_ge (Z.to_nat n) (hget (c_high c0) (map c_high rcs)) O ltac:(lia)) as Hh.
  pose proof (hmin_le (Z.to_nat n) (hget (c_low c0) (map c_low rcs)) O ltac:(lia)) as Hl.
  rewrite hget_map_gen in Hh, Hl.
  set (hi := hmax _ _) in *. set (lo := hmin _ _) in *. rsimp.
  destruct (Reqb_spec hi lo) as [E|E]; [lra|].
  assert (0 < hi - lo) by lra.
  split; [apply Rle_mult_inv_pos; lra|].
  apply Rmult_le_reg_r with (hi - lo); [lra|]. unfold Rdiv. rewrite Rmult_assoc, Rinv_l by lra. lra.
Qed.

(** price channel: upper >= lower *)
Theorem pch_order n sigma (c0 : C) rcs : (1 <= n)%Z -> 0 <= sigma ->
  c_low (hget c0 rcs O) <= c_high (hget c0 rcs O) ->
  match pch_values n sigma c0 rcs with [u; l] => l <= u | _ => False end.
Proof.
  intros Hn Hs Hc. unfold pch_values. cbv zeta.
  pose proof (hmax_ge (Z.to_nat n) (hget (c_high c0) (map c_high rcs)) O ltac:(lia)) as Hh.
  pose proof (hmin_le (Z.to_nat n) (hget (c_low c0) (map c_low rcs)) O ltac:(lia)) as Hl.
  rewrite hget_map_gen in Hh, Hl.
  set (hi := hmax _ _) in *. set (lo := hmin _ _) in *. rsimp. nra.
Qed.

(** true range against a previous close is never negative (no validity needed) *)
Lemma tr_close_nonneg (c : C) pc : 0 <= c_tr_close c pc.
Proof. unfold c_tr_close. rsimp. pose proof (Rmax_r (c_high c) pc). pose proof (Rmin_r (c_low c) pc). lra. Qed.

(** TSI lies in [-1, 1]: |EMA(EMA(m))| <= EMA(EMA(|m|)) *)
Lemma ema_dom (al : R) x0 y0 l l' : 0 <= al <= 1 -> Rabs x0 <= y0 -> Forall2 (fun x y => Rabs x <= y) l l' ->
  Rabs (ema_rec al x0 l) <= ema_rec al y0 l'.
Proof.
  intros Ha H0 HF. induction HF as [|x y l l' Hxy HF IH]; cbn [ema_rec]; [exact H0|]. rsimp.
  eapply Rle_trans; [apply Rabs_triang|]. rewrite !Rabs_mult, (Rabs_pos_eq al), (Rabs_pos_eq (1 - al)) by lra.
  apply Rplus_le_compat; apply Rmult_le_compat_l; try lra; assumption.
Qed.
Lemma ema_outs_dom (al : R) x0 y0 l l' : 0 <= al <= 1 -> Rabs x0 <= y0 -> Forall2 (fun x y => Rabs x <= y) l l' ->
  Forall2 (fun x y => Rabs x <= y) (ema_outs al x0 l) (ema_outs al y0 l').
Proof.
  intros Ha H0 HF. induction HF as [|x y l l' Hxy HF IH]; cbn [ema_outs]; constructor; [|exact IH].
  apply ema_dom; [exact Ha|exact H0|constructor; assumption].
Qed.
Lemma ema_alpha_unit n : (1 <= n)%Z -> 0 <= MethodDefs.ema_alpha (N := NumR) n <= 1.
Proof.
  intros Hn. unfold MethodDefs.ema_alpha. rsimp. assert (2 <= IZR (n + 1)) by (apply IZR_le; lia).
  split; [apply Rle_mult_inv_pos; lra|]. apply Rmult_le_reg_r with (IZR (n + 1)); [lra|].
  unfold Rdiv. rewrite Rmult_assoc, Rinv_l by lra. lra.
Qed.
Lemma tsi_core (num den : R) : Rabs num <= den -> -1 <= (if fgt den f0 then fdiv num den else f0) <= 1.
Proof.
  intros Hd. rsimp. destruct (Rltb_spec 0 den) as [Hp|Hp]; [|lra].
  assert (- den <= num <= den) by (revert Hd; unfold Rabs; destruct (Rcase_abs num); intros; lra).
  split; apply Rmult_le_reg_r with den; try exact Hp; unfold Rdiv; rewrite Rmult_assoc, Rinv_l by lra; lra.
Qed.
Theorem tsi_range short long (x0 : R) rh : (1 <= short)%Z -> (1 <= long)%Z -> -1 <= tsi_def short long x0 rh <= 1.
Proof.
  intros Hs Hl. unfold tsi_def. cbv zeta.
  assert (HF : Forall2 (fun x y : R => Rabs x <= y) (diffs x0 rh) (map fabs (diffs x0 rh))).
  { induction (diffs x0 rh) as [|d l IH]; cbn [map]; constructor; [rsimp; lra|exact IH]. }
  assert (Z0 : Rabs (f0 (N := NumR)) <= f0 (N := NumR)) by (rsimp; rewrite Rabs_R0; lra).
  apply tsi_core.
  exact (ema_dom _ _ _ _ _ (ema_alpha_unit short Hs) Z0 (ema_outs_dom _ _ _ _ _ (ema_alpha_unit long Hl) Z0 HF)).
Qed.

(** Parabolic SAR: the returned SAR is on the side of the bar opposite to the returned trend, in every state *)
Theorem psar_side (s : psar_st (N := NumR)) (k : C) : ps_trend s <> 0%Z ->
  match snd (psar_next s k) with
  | ([sar; tr], _) => (0 < tr -> sar <= c_low k) /\ (tr < 0 -> c_high k <= sar)
  | _ => False
  end.
Proof.
  intros Ht. unfold psar_next.
  destruct (Z.ltb_spec 0 (ps_trend s)) as [Hp|Hp].
  - destruct (flt (ps_high s) (c_high k)) eqn:Eh; destruct (flt (c_low k) (ps_sar s)) eqn:El; cbn [snd]; rsimp;
      revert Eh El; rsimp; intros Eh El;
      destruct (Rltb_spec (ps_high s) (c_high k)); destruct (Rltb_spec (c_low k) (ps_sar s)); try discriminate;
      (assert (Hz : IZR (ps_trend s) > 0) by (apply Rlt_gt, IZR_lt; lia));
      rewrite ?opp_IZR; split; intros; lra.
  - destruct (Z.ltb_spec (ps_trend s) 0) as [Hq|Hq]; [|lia].
    destruct (fgt (ps_low s) (c_low k)) eqn:Eh; destruct (fgt (c_high k) (ps_sar s)) eqn:El; cbn [snd]; rsimp;
      revert Eh El; rsimp; intros Eh El;
      destruct (Rltb_spec (c_low k) (ps_low s)); destruct (Rltb_spec (ps_sar s) (c_high k)); try discriminate;
      (assert (Hz : IZR (ps_trend s) < 0) by (apply IZR_lt; lia));
      rewrite ?opp_IZR; split; intros; lra.
Qed.
End Ranges.
