(** C06 continued: PivotReversalStrategy.  For every stream that begins with the candle the instance was created from, its signal is
    the documented rule evaluated on DEFINITIONAL quantities of the whole history: the pivot-high / pivot-low predicates of the
    highs / lows (the element [right] bars back is the extreme of the last left+right+1 bars), the candle [right] bars back, and the
    two latched prices (the high / low of that candle at the most recent pivot; 0 before the first pivot). *)
From Yata Require Import Base.Prelude Base.Num Base.NumR Core.Window Core.WindowSpec Core.Candle Core.Action
  Spec.Hist Spec.MethodDefs Spec.IndicatorDefs Methods.Basic Methods.Select Indicators.Common Indicators.Set4
  Proofs.MethodsCommon Proofs.Selection Proofs.Selection2 Proofs.Cascade Proofs.SignalProofs2 Proofs.SignalProofs3.
From Coq Require Import Reals Lra Lia.
Open Scope Z_scope.

Section Prs.
Context {pw : PW}.
Local Notation R := (@F NumR).
Local Notation C := (candle (N := NumR)).
Variables (lft right : Z) (c0 : C).
Hypothesis Hl : 1 <= lft.
Hypothesis Hr : 1 <= right.
Hypothesis Hlr : lft + right <= pmax - 2.

Definition prs_L : nat := Z.to_nat (lft + right + 1).
Definition prs_r : nat := Z.to_nat right.
(** rc: the candles so far, newest first (the construction candle is the last element) *)
Definition up_piv (rc : list C) : bool :=
  match rc with _ :: _ :: _ => Nat.eqb (argbest fgt (hget (c_high c0) (map c_high rc)) prs_L) prs_r | _ => false end.
Definition lo_piv (rc : list C) : bool :=
  match rc with _ :: _ :: _ => Nat.eqb (argbest flt (hget (c_low c0) (map c_low rc)) prs_L) prs_r | _ => false end.
Fixpoint prs_hprice (rc : list C) : R :=
  match rc with [] => f0 | k :: q => if up_piv (k :: q) then c_high (hget c0 q (prs_r - 1)) else prs_hprice q end.
Fixpoint prs_lprice (rc : list C) : R :=
  match rc with [] => f0 | k :: q => if lo_piv (k :: q) then c_low (hget c0 q (prs_r - 1)) else prs_lprice q end.
Definition prs_signal (rc : list C) : action :=
  match rc with
  | [] => ANone
  | c :: _ =>
    let le := if up_piv rc || fle (c_high c) (prs_hprice rc) then 1 else 0 in
    let se := if lo_piv rc || fge (c_low c) (prs_lprice rc) then 1 else 0 in
    a_from_i8 (se - le)
  end.

Definition wstep (w : window C) (k : C) : window C * C := w_push_t w k.

Lemma prs_components (s : prs_st (N := NumR)) k :
  pr_ph (fst (prs_next s k)) = fst (upper_rev_next (pr_ph s) (c_high k)) /\
  pr_pl (fst (prs_next s k)) = fst (lower_rev_next (pr_pl s) (c_low k)) /\
  pr_window (fst (prs_next s k)) = fst (wstep (pr_window s) k).
Proof.
  unfold prs_next, wstep. destruct (w_push_t (pr_window s) k) as (w, past).
  destruct (upper_rev_next (pr_ph s) (c_high k)) as (h, swh). destruct (lower_rev_next (pr_pl s) (c_low k)) as (l, swl).
  cbn. repeat split.
Qed.

Lemma rev_first_none (keep : R -> R -> bool) (s0 : rvs (N := NumR)) (v x : R) :
  rev_new lft right v = Ok s0 -> snd (rev_next keep s0 x) = ANone.
Proof.
  unfold rev_new. destruct ((lft =? 0) || (right =? 0) || (pmax - 1 <=? sat_add lft right)); [discriminate|]. intros E. injection E as <-.
  unfold rev_next. cbn [rv_window rv_index rv_mindex rv_value rv_right rv_left].
  destruct (w_push_t _ x) as (w, o). cbv zeta.
  destruct (if 0 <? sat_sub (sat_add 0 1) (w_len w) then _ else _) as (mv, mi).
  destruct (Z.leb_spec right 0) as [H|H]; [lia|]. cbn [andb].
  destruct (if w_len w <? 0 + 1 then _ else _). reflexivity.
Qed.

Lemma cwin_ok (p : list C) : WinOK prs_r (steps wstep (w_new_t right c0) p) (hget c0 (rev p)).
Proof.
  induction p as [|k p IH] using rev_ind.
  - cbn. apply winok_new. lia.
  - rewrite steps_snoc, rev_unit. unfold prs_r in *. destruct (Z.to_nat right) as [|m] eqn:Em; [lia|].
    destruct (winok_push m _ _ k IH) as (w' & Hp & Hw'). unfold wstep at 1. rewrite Hp. exact Hw'.
Qed.
Lemma cwin_past (p : list C) (k : C) : snd (w_push_t (steps wstep (w_new_t right c0) p) k) = hget c0 (rev p) (prs_r - 1)%nat.
Proof.
  pose proof (cwin_ok p) as W. unfold prs_r in *. destruct (Z.to_nat right) as [|m] eqn:Em; [lia|].
  destruct (winok_push m _ _ k W) as (w' & Hp & _). rewrite Hp. cbn [snd]. f_equal. lia.
Qed.

Lemma analog_flag (b : bool) : (0 <? a_analog (if b then a_buy_all else ANone)) = b.
Proof. destruct b; reflexivity. Qed.

Section Run.
Variable s0 : prs_st (N := NumR).
Hypothesis Hinit : prs_init lft right c0 = Ok s0.

Lemma prs_s0 : exists h0 l0, rev_new lft right (c_high c0) = Ok h0 /\ rev_new lft right (c_low c0) = Ok l0 /\
  s0 = mkPrs h0 l0 (w_new_t right c0) f0 f0.
Proof.
  unfold prs_init in Hinit. destruct (negb _); [discriminate|].
  destruct (rev_new lft right (c_high c0)) as [h0| |]; cbn [obind] in Hinit; try discriminate.
  destruct (rev_new lft right (c_low c0)) as [l0| |]; cbn [obind] in Hinit; try discriminate.
  injection Hinit as <-. exists h0, l0. repeat split.
Qed.

Lemma prs_fields (p : list C) :
  pr_ph (steps prs_next s0 p) = steps upper_rev_next (pr_ph s0) (map c_high p) /\
  pr_pl (steps prs_next s0 p) = steps lower_rev_next (pr_pl s0) (map c_low p) /\
  pr_window (steps prs_next s0 p) = steps wstep (pr_window s0) p.
Proof.
  split; [|split].
  - apply (proj_steps_map prs_next upper_rev_next pr_ph c_high). intros s k. apply prs_components.
  - apply (proj_steps_map prs_next lower_rev_next pr_pl c_low). intros s k. apply prs_components.
  - rewrite <- (map_id p) at 2. apply (proj_steps_map prs_next wstep pr_window (fun k => k)). intros s k. apply prs_components.
Qed.

(** one step from the state after c0 :: cs, in terms of the definitional quantities *)
Lemma prs_step_rule cs c :
  let s := steps prs_next s0 (c0 :: cs) in let rc := rev ((c0 :: cs) ++ [c]) in
  pr_hprice (fst (prs_next s c)) = (if up_piv rc then c_high (hget c0 (rev (c0 :: cs)) (prs_r - 1)%nat) else pr_hprice s) /\
  pr_lprice (fst (prs_next s c)) = (if lo_piv rc then c_low (hget c0 (rev (c0 :: cs)) (prs_r - 1)%nat) else pr_lprice s) /\
  sigs (snd (prs_next s c)) =
    [a_from_i8 ((if lo_piv rc || fge (c_low c) (pr_lprice (fst (prs_next s c))) then 1 else 0)
                - (if up_piv rc || fle (c_high c) (pr_hprice (fst (prs_next s c))) then 1 else 0))].
Proof.
  cbv zeta. destruct prs_s0 as (h0 & l0 & Eh & El & Es0).
  destruct (prs_fields (c0 :: cs)) as (Fh & Fl & Fw).
  assert (Ph : pr_ph s0 = h0) by (rewrite Es0; reflexivity). assert (Pl : pr_pl s0 = l0) by (rewrite Es0; reflexivity).
  assert (Pw : pr_window s0 = w_new_t right c0) by (rewrite Es0; reflexivity).
  rewrite Ph in Fh. rewrite Pl in Fl. rewrite Pw in Fw.
  destruct (upper_reversal_correct lft right (c_high c0) (map c_high cs) (c_high c) Hl Hr Hlr) as (u0 & Eu & Hu).
  rewrite Eh in Eu. injection Eu as <-.
  destruct (lower_reversal_correct lft right (c_low c0) (map c_low cs) (c_low c) Hl Hr Hlr) as (v0 & Ev & Hv).
  rewrite El in Ev. injection Ev as <-.
  change (c_high c0 :: map c_high cs) with (map c_high (c0 :: cs)) in Hu. change (c_low c0 :: map c_low cs) with (map c_low (c0 :: cs)) in Hv.
  rewrite <- Fh in Hu. rewrite <- Fl in Hv.
  pose proof (cwin_past (c0 :: cs) c) as Hp. rewrite <- Fw in Hp.
  assert (Eup : up_piv (rev ((c0 :: cs) ++ [c])) =
                Nat.eqb (argbest fgt (hget (c_high c0) (rev (map c_high (c0 :: cs) ++ [c_high c]))) (Z.to_nat (lft + right + 1))) (Z.to_nat right)).
  { rewrite rev_unit. unfold up_piv. destruct (rev (c0 :: cs)) as [|k q] eqn:Eq.
    - exfalso. apply (f_equal (@length C)) in Eq. rewrite rev_length in Eq. discriminate.
    - rewrite <- Eq. change (c :: rev (c0 :: cs)) with (rev [c] ++ rev (c0 :: cs)). rewrite <- rev_app_distr, map_rev, map_app. reflexivity. }
  assert (Elo : lo_piv (rev ((c0 :: cs) ++ [c])) =
                Nat.eqb (argbest flt (hget (c_low c0) (rev (map c_low (c0 :: cs) ++ [c_low c]))) (Z.to_nat (lft + right + 1))) (Z.to_nat right)).
  { rewrite rev_unit. unfold lo_piv. destruct (rev (c0 :: cs)) as [|k q] eqn:Eq.
    - exfalso. apply (f_equal (@length C)) in Eq. rewrite rev_length in Eq. discriminate.
    - rewrite <- Eq. change (c :: rev (c0 :: cs)) with (rev [c] ++ rev (c0 :: cs)). rewrite <- rev_app_distr, map_rev, map_app. reflexivity. }
  rewrite <- Eup in Hu. rewrite <- Elo in Hv.
  set (s := steps prs_next s0 (c0 :: cs)) in *. set (rc := rev ((c0 :: cs) ++ [c])) in *.
  unfold prs_next. destruct (w_push_t (pr_window s) c) as (w, past). cbn [snd] in Hp.
  destruct (upper_rev_next (pr_ph s) (c_high c)) as (h, swh). destruct (lower_rev_next (pr_pl s) (c_low c)) as (l, swl).
  cbn [snd] in Hu, Hv. subst swh swl past. rewrite !analog_flag. cbn [fst snd pr_hprice pr_lprice sigs]. repeat split.
Qed.

Lemma prs_latch cs :
  pr_hprice (steps prs_next s0 (c0 :: cs)) = prs_hprice (rev (c0 :: cs)) /\
  pr_lprice (steps prs_next s0 (c0 :: cs)) = prs_lprice (rev (c0 :: cs)).
Proof.
  induction cs as [|c cs IH] using rev_ind.
  - change (steps prs_next s0 [c0]) with (fst (prs_next s0 c0)). destruct prs_s0 as (h0 & l0 & Eh & El & Es0).
    pose proof (rev_first_none fge h0 (c_high c0) (c_high c0) Eh) as N1. pose proof (rev_first_none fle l0 (c_low c0) (c_low c0) El) as N2.
    rewrite Es0. unfold prs_next. cbn [pr_window pr_ph pr_pl pr_hprice pr_lprice]. destruct (w_push_t _ c0) as (w, past).
    fold (upper_rev_next h0 (c_high c0)) in N1. fold (lower_rev_next l0 (c_low c0)) in N2.
    destruct (upper_rev_next h0 (c_high c0)) as (h, swh). destruct (lower_rev_next l0 (c_low c0)) as (l, swl). cbn [snd] in N1, N2. subst swh swl.
    cbn. split; reflexivity.
  - destruct IH as (IH1 & IH2). change (c0 :: cs ++ [c]) with ((c0 :: cs) ++ [c]). rewrite steps_snoc.
    destruct (prs_step_rule cs c) as (H1 & H2 & _). cbv zeta in H1, H2. rewrite H1, H2, IH1, IH2.
    rewrite rev_unit. cbn [prs_hprice prs_lprice]. rewrite <- (rev_unit (c0 :: cs) c). split; reflexivity.
Qed.

Theorem prs_signal_correct cs c :
  sigs (snd (prs_next (steps prs_next s0 (c0 :: cs)) c)) = [prs_signal (rev ((c0 :: cs) ++ [c]))].
Proof.
  destruct (prs_step_rule cs c) as (H1 & H2 & H3). cbv zeta in H1, H2, H3. rewrite H3.
  assert (L := prs_latch (cs ++ [c])). change (c0 :: cs ++ [c]) with ((c0 :: cs) ++ [c]) in L. rewrite steps_snoc in L.
  destruct L as (L1 & L2). rewrite L1, L2. rewrite rev_unit. reflexivity.
Qed.
End Run.
End Prs.
