(** C16: Action is a consistent signed-strength algebra.  The integer part is
    proved by case analysis + lia for all strengths; the binary64 part by kernel
    computation over the complete set of 513 actions. *)
From Yata Require Import Base.Prelude Base.Num Base.NumF64 Core.Action.
From Coq Require Import Floats ZifyBool.

Lemma neg_involutive a : a_neg (a_neg a) = a.
Proof. destruct a; reflexivity. Qed.

Lemma neg_valid a : a_valid a -> a_valid (a_neg a).
Proof. destruct a; simpl; auto. Qed.

Lemma ratio255_neg a : a_r0 (a_neg a) = - a_r0 a.
Proof. destruct a; unfold a_r0; simpl; lia. Qed.

Lemma ratio255_range a : a_valid a -> - BOUND <= a_r0 a <= BOUND.
Proof. destruct a; unfold a_valid, a_r0, BOUND; simpl; lia. Qed.

Lemma sub_valid a b : a_valid a -> a_valid b -> a_valid (a_sub a b).
Proof.
  destruct a as [x| |x], b as [y| |y]; unfold a_valid, a_sub, u8_sat_add, BOUND; simpl; intros;
    try lia; try (destruct (Z.leb_spec y x); lia).
Qed.

(** a - b has the ratio of a minus the ratio of b, None counting as zero,
    saturated to [-1,1] (scaled by 255). *)
Lemma sub_spec a b : a_valid a -> a_valid b ->
  a_r0 (a_sub a b) = Z.max (- BOUND) (Z.min BOUND (a_r0 a - a_r0 b)).
Proof.
  destruct a as [x| |x], b as [y| |y]; unfold a_valid, a_sub, a_r0, u8_sat_add, BOUND; simpl; intros;
    try lia; try (destruct (Z.leb_spec y x); simpl; lia).
Qed.

Lemma sub_none_iff a b : a_sub a b = ANone <-> a = ANone /\ b = ANone.
Proof.
  destruct a as [x| |x], b as [y| |y]; simpl; split; try (intros (? & ?)); try discriminate; auto;
    try (destruct (Z.leb_spec y x); discriminate).
Qed.

(** analog / sign agree with the sign of the ratio *)
Lemma analog_sign_agree a : a_valid a -> a_analog a = Z.sgn (a_r0 a).
Proof.
  destruct a as [x| |x]; unfold a_analog, a_to_i8, a_r0, BOUND; simpl; intros; try lia;
    destruct (Z.ltb_spec 0 x); lia.
Qed.
Lemma sign_spec a : a_sign a = match a with ANone => None | _ => Some (a_analog a) end.
Proof. destruct a; reflexivity. Qed.

Lemma from_i8_spec v : -128 <= v <= 127 ->
  a_from_i8 v = (if v =? 0 then ANone else if 0 <? v then Buy 255 else Sell 255) /\
  a_valid (a_from_i8 v) /\ a_analog (a_from_i8 v) = Z.sgn v.
Proof.
  intros Hv. unfold a_from_i8, a_buy_all, a_sell_all, BOUND, a_analog.
  destruct (Z.eqb_spec v 0); [subst; simpl; repeat split; lia|].
  destruct (Z.ltb_spec 0 v); unfold a_valid, BOUND; simpl; repeat split; lia.
Qed.

(** equality is an equivalence relation: it is equality of a normal form *)
Definition a_nf (a : action) : action :=
  match a with Sell k => if k =? 0 then Buy 0 else Sell k | x => x end.
Lemma eq_nf a b : a_valid a -> a_valid b -> (a_eq a b = true <-> a_nf a = a_nf b).
Proof.
  destruct a as [x| |x], b as [y| |y]; unfold a_valid, BOUND; simpl; intros Ha Hb;
    repeat match goal with |- context [Z.eqb ?u ?v] => destruct (Z.eqb_spec u v) end;
    simpl; split; intros H; try discriminate; try reflexivity; try congruence;
    try (f_equal; lia); try (injection H; lia).
Qed.

Lemma eq_refl_a a : a_valid a -> a_eq a a = true.
Proof. intros H. apply eq_nf; auto. Qed.
Lemma eq_sym_a a b : a_valid a -> a_valid b -> a_eq a b = true -> a_eq b a = true.
Proof. intros Ha Hb H. apply eq_nf; auto. symmetry. apply eq_nf; auto. Qed.
Lemma eq_trans_a a b c : a_valid a -> a_valid b -> a_valid c ->
  a_eq a b = true -> a_eq b c = true -> a_eq a c = true.
Proof. intros Ha Hb Hc H1 H2. apply eq_nf; auto. apply eq_nf in H1; auto. apply eq_nf in H2; auto. congruence. Qed.

(** equal actions have equal ratios (as integers scaled by 255) *)
Lemma eq_ratio a b : a_valid a -> a_valid b -> a_eq a b = true -> a_r0 a = a_r0 b.
Proof.
  destruct a as [x| |x], b as [y| |y]; unfold a_valid, a_r0, BOUND; simpl; intros; try discriminate; lia.
Qed.

(** Ordering vs equality.  The derived Ord is consistent with the hand-written
    PartialEq everywhere except on the pair of zero-strength signals, where it
    is not (known finding KF-C16-ord): full statement refuted, restricted one proved. *)
Definition zero_pair (a b : action) : Prop :=
  (a = Buy 0 /\ b = Sell 0) \/ (a = Sell 0 /\ b = Buy 0).

Lemma ord_consistent_partial a b : a_valid a -> a_valid b -> ~ zero_pair a b ->
  (a_eq a b = true <-> a_cmp a b = Eq).
Proof.
  unfold zero_pair.
  destruct a as [x| |x], b as [y| |y]; unfold a_valid, a_cmp, BOUND; simpl; intros Ha Hb Hn; split; intros H;
    try discriminate; try reflexivity.
  - apply Z.compare_eq_iff. lia.
  - apply Z.compare_eq_iff in H. lia.
  - exfalso. apply Hn. left. split; f_equal; lia.
  - exfalso. apply Hn. right. split; f_equal; lia.
  - apply Z.compare_eq_iff. lia.
  - apply Z.compare_eq_iff in H. lia.
Qed.

Lemma ord_consistent_refuted :
  exists a b, a_valid a /\ a_valid b /\ zero_pair a b /\ a_eq a b = true /\ a_cmp a b <> Eq.
Proof. exists (Buy 0), (Sell 0). unfold a_valid, zero_pair, BOUND. repeat split; try lia; auto. discriminate. Qed.

(** the ordering itself is a total order on the representation *)
Lemma cmp_antisym a b : a_cmp b a = CompOpp (a_cmp a b).
Proof.
  unfold a_cmp. rewrite (Z.compare_antisym (a_rank a) (a_rank b)).
  destruct (a_rank a ?= a_rank b); simpl; auto. apply Z.compare_antisym.
Qed.

(** ** binary64 part: the complete finite domain, by kernel computation *)
Definition all_strengths : list Z := map Z.of_nat (seq 0 256).
Definition all_actions : list action := map Buy all_strengths ++ [ANone] ++ map Sell all_strengths.

Lemma all_strengths_complete k : 0 <= k <= 255 -> In k all_strengths.
Proof.
  intros H. unfold all_strengths. apply in_map_iff. exists (Z.to_nat k). split; [lia|].
  apply in_seq. lia.
Qed.
Lemma all_actions_complete a : a_valid a -> In a all_actions.
Proof.
  unfold all_actions. destruct a as [k| |k]; intros H.
  - apply in_or_app. left. apply in_map. apply all_strengths_complete; exact H.
  - apply in_or_app. right. apply in_or_app. left. left. reflexivity.
  - apply in_or_app. right. apply in_or_app. right. apply in_map.
    apply all_strengths_complete; exact H.
Qed.

Definition opt_float_le1 (o : option float) : bool :=
  match o with None => true | Some r => PrimFloat.leb (-1)%float r && PrimFloat.leb r 1%float end.

(** from(ratio(a)) is a itself (bit for bit, also for Sell 0 whose ratio is -0.0) *)
Definition roundtrip_ok (a : action) : bool :=
  match a_from_opt_f (a_ratio (N := NumF64) a), a with
  | Buy x, Buy y | Sell x, Sell y => x =? y
  | ANone, ANone => true
  | _, _ => false
  end.
Lemma roundtrip_all : forallb roundtrip_ok all_actions = true.
Proof. vm_compute. reflexivity. Qed.
Lemma from_ratio_roundtrip a : a_valid a ->
  roundtrip_ok a = true.
Proof. intros H. apply (proj1 (forallb_forall _ _) roundtrip_all). apply all_actions_complete; auto. Qed.

Lemma ratio_range_all : forallb (fun a => opt_float_le1 (a_ratio (N := NumF64) a)) all_actions = true.
Proof. vm_compute. reflexivity. Qed.
Lemma ratio_range_f a : a_valid a -> opt_float_le1 (a_ratio (N := NumF64) a) = true.
Proof. intros H. apply (proj1 (forallb_forall _ _) ratio_range_all). apply all_actions_complete; auto. Qed.

(** ratio (neg a) = - ratio a, bitwise, in binary64 *)
Definition ratio_neg_ok (a : action) : bool :=
  match a_ratio (N := NumF64) (a_neg a), a_ratio (N := NumF64) a with
  | Some r, Some s => f64_bits_eq r (PrimFloat.opp s)
  | None, None => true
  | _, _ => false
  end.
Lemma ratio_neg_all : forallb ratio_neg_ok all_actions = true.
Proof. vm_compute. reflexivity. Qed.
Lemma ratio_neg_f a : a_valid a -> ratio_neg_ok a = true.
Proof. intros H. apply (proj1 (forallb_forall _ _) ratio_neg_all). apply all_actions_complete; auto. Qed.

(** special values: NaN is no signal, infinities and out-of-range saturate,
    the sign (also of zero) selects the direction *)
Lemma from_f_special :
  a_from_f (N := NumF64) nan = ANone /\
  a_from_f (N := NumF64) infinity = Buy 255 /\ a_from_f (N := NumF64) neg_infinity = Sell 255 /\
  a_from_f (N := NumF64) 2%float = Buy 255 /\ a_from_f (N := NumF64) (-2)%float = Sell 255 /\
  a_from_f (N := NumF64) 0%float = Buy 0 /\ a_from_f (N := NumF64) (-0)%float = Sell 0 /\
  a_from_f (N := NumF64) 0x1p-1074%float = Buy 0 /\ a_from_f (N := NumF64) (-0x1p-1074)%float = Sell 0 /\
  a_from_f (N := NumF64) 0x1.fffffffffffffp+1023%float = Buy 255.
Proof. vm_compute. repeat split; reflexivity. Qed.

(** The 255 positive break points: [bp k] is the largest binary64 value mapped
    to [Buy k] and its successor is mapped to [Buy (k+1)]; found by bisection
    inside Coq, checked by computation.  Together with monotonicity of each
    stage (clamp, multiplication by 255, rounding) this pins from(f64) on every
    input; the monotonicity half is argued in DESIGN.md and exercised by the
    exhaustive f32 sweep of the thorough tier. *)
Definition strength_of (x : float) : Z :=
  match a_from_f (N := NumF64) x with Buy k => k | Sell k => - k - 1000 | ANone => -1 end.

Fixpoint bp_down (fuel : nat) (k : Z) (c : float) : float :=
  match fuel with O => c | S f =>
    if k <? strength_of c then bp_down f k (PrimFloat.next_down c) else c end.
Fixpoint bp_up (fuel : nat) (k : Z) (c : float) : float :=
  match fuel with O => c | S f =>
    if strength_of (PrimFloat.next_up c) <=? k then bp_up f k (PrimFloat.next_up c) else c end.
Definition bp (k : Z) : float :=
  let c := PrimFloat.div (PrimFloat.add (f64_ofZ k) 0.5%float) 255%float in
  bp_up 16 k (bp_down 16 k c).

Definition bp_ok (k : Z) : bool :=
  (strength_of (bp k) =? k) && (strength_of (PrimFloat.next_up (bp k)) =? k + 1).
Lemma breakpoints_adjacent : forallb bp_ok (map Z.of_nat (seq 0 255)) = true.
Proof. vm_compute. reflexivity. Qed.

(** negative side mirrors the positive one on the same break points *)
Definition bp_neg_ok (k : Z) : bool :=
  (strength_of (PrimFloat.opp (bp k)) =? - k - 1000) &&
  (strength_of (PrimFloat.opp (PrimFloat.next_up (bp k))) =? - (k + 1) - 1000).
Lemma breakpoints_mirror : forallb bp_neg_ok (map Z.of_nat (seq 0 255)) = true.
Proof. vm_compute. reflexivity. Qed.

(** table of the break points as bit patterns (used by the f32/f64 sweeps of the harness) *)
Definition bp_table : list Z := map (fun k => f64_bits (bp k)) (map Z.of_nat (seq 0 255)).
