(** C12 support: the averaging kinds with non-negative weights cannot overshoot - the definition of SMA, WMA, EMA, DMA, TMA, RMA
    and WSMA applied to a history inside [lo, hi] stays inside [lo, hi] - and therefore RelativeStrengthIndex configured with one
    of them stays inside [0, 1] on every stream (exact arithmetic). *)
From Yata Require Import Base.Prelude Base.Num Base.NumR Core.Window Core.Candle Core.Action Core.Strings
  Spec.Hist Spec.MethodDefs Spec.IndicatorDefs Methods.Basic Indicators.Common Indicators.Set2 Indicators.Set3
  Proofs.MethodsCommon Proofs.Averages Proofs.MAProofs Proofs.Ranges Proofs.IndicatorProofs3 Proofs.IndicatorProofs4 Proofs.IndicatorProofs5 Proofs.IndicatorProofs11.
From Coq Require Import Reals Lra Lia.
Open Scope R_scope.

Section RangeMA.
Context {pw : PW}.
Local Notation R := (@F NumR).
Local Notation C := (candle (N := NumR)).

Definition ma_no_overshoot (c : ma_cfg) : bool :=
  match c with MAcfg k _ => match k with KSMA | KWMA | KEMA | KDMA | KTMA | KRMA | KWSMA => true | _ => false end end.

Lemma hget_in_range (x0 lo hi : R) rh : lo <= x0 <= hi -> (forall x, In x rh -> lo <= x <= hi) -> forall i, lo <= hget x0 rh i <= hi.
Proof.
  intros H0. induction rh as [|x r IH]; intros Hin i; [exact H0|]. destruct i as [|i]; cbn [hget hcons].
  - apply Hin. left. reflexivity.
  - apply IH. intros y Hy. apply Hin. right. exact Hy.
Qed.

Lemma ema_outs_in_range (al x0 lo hi : R) rh : 0 <= al <= 1 -> lo <= x0 <= hi -> (forall x, In x rh -> lo <= x <= hi) ->
  forall y, In y (ema_outs al x0 rh) -> lo <= y <= hi.
Proof.
  intros Ha H0. induction rh as [|x r IH]; intros Hin y Hy; [destruct Hy|]. cbn [ema_outs] in Hy. destruct Hy as [<-|Hy].
  - apply ema_range; assumption.
  - apply IH; [intros z Hz; apply Hin; right; exact Hz|exact Hy].
Qed.

Theorem ma_def_range (c : ma_cfg) (x0 lo hi : R) rh : ma_no_overshoot c = true -> (1 <= ma_period c)%Z ->
  lo <= x0 <= hi -> (forall x, In x rh -> lo <= x <= hi) -> lo <= ma_def c x0 rh <= hi.
Proof.
  destruct c as (k, n). cbn [ma_period]. intros Hk Hn H0 Hin. pose proof (hget_in_range x0 lo hi rh H0 Hin) as Hh.
  assert (Hn' : (1 <= Z.to_nat n)%nat) by lia.
  assert (Ae := ema_alpha_range n Hn). assert (Ar := rma_alpha_range n Hn).
  unfold ma_def. destruct k; try discriminate Hk.
  - apply sma_range; [exact Hn'|intros i _; apply Hh].
  - apply wma_range; [exact Hn'|intros i _; apply Hh].
  - apply ema_range; assumption.
  - apply ema_range; assumption.
  - unfold dma_def. apply ema_range; [exact Ae|exact H0|]. apply ema_outs_in_range; assumption.
  - unfold tma_def. apply ema_range; [exact Ae|exact H0|]. apply ema_outs_in_range; [exact Ae|exact H0|]. apply ema_outs_in_range; assumption.
  - apply ema_range; assumption.
Qed.

Lemma list_upper (l : list R) : exists B, 0 <= B /\ forall x, In x l -> x <= B.
Proof.
  induction l as [|a l (B & HB & H)]; [exists 0; split; [lra|intros x []]|].
  exists (Rmax B a). split; [eapply Rle_trans; [exact HB|apply Rmax_l]|]. intros x [<-|Hx]; [apply Rmax_r|eapply Rle_trans; [apply H, Hx|apply Rmax_l]].
Qed.
Lemma list_lower (l : list R) : exists B, B <= 0 /\ forall x, In x l -> B <= x.
Proof.
  induction l as [|a l (B & HB & H)]; [exists 0; split; [lra|intros x []]|].
  exists (Rmin B a). split; [eapply Rle_trans; [apply Rmin_l|exact HB]|]. intros x [<-|Hx]; [apply Rmin_r|eapply Rle_trans; [apply Rmin_l|apply H, Hx]].
Qed.

(** RSI of the definition is in [0, 1] for every history *)
Theorem rsi_values_range (ma : ma_cfg) src (c0 : C) rcs : ma_no_overshoot ma = true -> (1 <= ma_period ma)%Z ->
  Forall (fun v => 0 <= v <= 1) (rsi_values ma src c0 rcs).
Proof.
  intros Hk Hn. unfold rsi_values. cbv zeta. set (ch := diffs _ _).
  set (ups := map (fun d => fmax d f0) ch). set (dns := map (fun d => fmin d f0) ch).
  assert (Hup : forall x, In x ups -> 0 <= x) by (intros x Hx; apply in_map_iff in Hx; destruct Hx as (d & <- & _); unfold f0; numR; apply Rmax_r).
  assert (Hdn : forall x, In x dns -> x <= 0) by (intros x Hx; apply in_map_iff in Hx; destruct Hx as (d & <- & _); unfold f0; numR; apply Rmin_r).
  destruct (list_upper ups) as (B & HB & HBu). destruct (list_lower dns) as (Bl & HBl & HBd).
  assert (P : 0 <= ma_def ma f0 ups <= B).
  { apply ma_def_range; try assumption; [unfold f0; numR; lra|]. intros x Hx. split; [apply Hup, Hx|apply HBu, Hx]. }
  assert (Q : Bl <= ma_def ma f0 dns <= 0).
  { apply ma_def_range; try assumption; [unfold f0; numR; lra|]. intros x Hx. split; [apply HBd, Hx|apply Hdn, Hx]. }
  set (pos := ma_def ma f0 ups) in *. set (neg := fneg (ma_def ma f0 dns)). assert (Hneg : 0 <= neg) by (unfold neg; numR; lra).
  constructor; [|constructor]. numR.
  destruct (Reqb_spec (pos + neg) 0) as [E|E]; cbn [negb].
  - lra.
  - assert (Hs : 0 < pos + neg) by lra. split.
    + apply Rmult_le_pos; [lra|left; apply Rinv_0_lt_compat; exact Hs].
    + apply (Rmult_le_reg_r (pos + neg)); [exact Hs|]. unfold Rdiv. rewrite Rmult_assoc, Rinv_l by lra. lra.
Qed.

(** Stochastic: both smoothed lines stay in [0, 1] when every candle has low <= close <= high and the two averages cannot overshoot *)
Definition candle_ordered (c : C) : Prop := c_low c <= c_close c <= c_high c.
Lemma suffix_series_range {A} (f : list A -> R) (P : list A -> Prop) lo hi (l : list A) :
  (forall q, P q -> lo <= f q <= hi) -> (forall q, In q (suffixes l) -> P q) -> forall x, In x (series f l) -> lo <= x <= hi.
Proof. intros Hf HP x Hx. unfold series in Hx. apply in_map_iff in Hx. destruct Hx as (q & <- & Hq). apply Hf, HP, Hq. Qed.
Lemma suffixes_forall {A} (Q : A -> Prop) (l : list A) : Forall Q l -> forall q, In q (suffixes l) -> Forall Q q /\ q <> [].
Proof.
  induction l as [|a r IH]; intros HF q Hq; [destruct Hq|]. cbn [suffixes] in Hq. destruct Hq as [<-|Hq]; [split; [exact HF|discriminate]|].
  apply IH; [inversion HF; assumption|exact Hq].
Qed.

Theorem sto_values_range n (ma signal : ma_cfg) (c0 : C) rcs : (1 <= n)%Z ->
  ma_no_overshoot ma = true -> (1 <= ma_period ma)%Z -> ma_no_overshoot signal = true -> (1 <= ma_period signal)%Z ->
  candle_ordered c0 -> Forall candle_ordered rcs ->
  Forall (fun v => 0 <= v <= 1) (sto_values n ma signal c0 rcs).
Proof.
  intros Hn K1 N1 K2 N2 H0 Hall. unfold sto_values. cbv zeta.
  set (k0 := if feq (c_high c0) (c_low c0) then flit 1 2 else _).
  assert (Hk0 : 0 <= k0 <= 1).
  { unfold k0, candle_ordered in *. numR. destruct (Reqb_spec (c_high c0) (c_low c0)) as [E|E]; [lra|].
    assert (Hs : 0 < c_high c0 - c_low c0) by lra. split.
    - apply Rmult_le_pos; [lra|left; apply Rinv_0_lt_compat; exact Hs].
    - apply (Rmult_le_reg_r (c_high c0 - c_low c0)); [exact Hs|]. unfold Rdiv. rewrite Rmult_assoc, Rinv_l by lra. lra. }
  assert (Hraw : forall q, Forall candle_ordered q -> 0 <= sto_raw n c0 q <= 1).
  { intros q Hq. apply sto_raw_range; [exact Hn|]. destruct q as [|a q]; cbn [hget hcons hconst]; [exact H0|inversion Hq; assumption]. }
  assert (Hkline : forall q, Forall candle_ordered q -> 0 <= ma_def ma k0 (series (sto_raw n c0) q) <= 1).
  { intros q Hq. apply ma_def_range; try assumption.
    apply (suffix_series_range (sto_raw n c0) (Forall candle_ordered) 0 1 q Hraw). intros p Hp. apply (suffixes_forall candle_ordered q Hq p Hp). }
  constructor; [apply Hkline, Hall|]. constructor; [|constructor].
  apply ma_def_range; try assumption.
  apply (suffix_series_range _ (Forall candle_ordered) 0 1 rcs Hkline). intros p Hp. apply (suffixes_forall candle_ordered rcs Hall p Hp).
Qed.

(** Keltner channel: upper >= average >= lower whenever every candle has low <= high (the averaged true range is never negative) *)
Definition candle_hl (c : C) : Prop := c_low c <= c_high c.
Theorem kelt_values_order (ma : ma_cfg) (sigma : R) src (c0 : C) rcs : (1 <= ma_period ma)%Z -> 0 <= sigma ->
  candle_hl c0 -> Forall candle_hl rcs ->
  match kelt_values ma sigma src c0 rcs with [_; up; lo] => lo <= ma_def ma (c_source c0 src) (srcs src rcs) <= up | _ => False end.
Proof.
  intros Hn Hs H0 Hall. unfold kelt_values. cbv zeta.
  set (m := ma_def ma _ _). set (atr := sma_def _ _).
  assert (Hatr : 0 <= atr).
  { assert (Hb : exists B, forall i, 0 <= hget (fsub (c_high c0) (c_low c0)) (tr_series c0 rcs) i <= B).
    { destruct (list_upper (tr_series c0 rcs)) as (B & HB & HBu). exists (Rmax B (c_high c0 - c_low c0)). intros i.
      assert (Hin : forall x, In x (tr_series c0 rcs) -> 0 <= x <= Rmax B (c_high c0 - c_low c0)).
      { intros x Hx. split; [|eapply Rle_trans; [apply HBu, Hx|apply Rmax_l]]. unfold tr_series, series in Hx. apply in_map_iff in Hx.
        destruct Hx as (q & <- & Hq). apply true_range_nonneg. destruct (suffixes_forall candle_hl rcs Hall q Hq) as (Fq & Nq).
        destruct q as [|a q]; [congruence|]. cbn [hget hcons]. inversion Fq; assumption. }
      apply hget_in_range; [|exact Hin]. unfold candle_hl in H0. numR. split; [lra|apply Rmax_r]. }
    destruct Hb as (B & Hb). unfold atr. apply (sma_range (Z.to_nat (ma_period ma)) 0 B); [lia|]. intros i _. apply Hb. }
  numR. assert (0 <= sigma * atr) by (apply Rmult_le_pos; assumption). lra.
Qed.

(** Envelopes: upper >= average >= lower whenever the average is non-negative (non-negative prices, an average that cannot
    overshoot) and 0 <= k *)
Theorem env_values_order (ma : ma_cfg) (k : R) src src2 (c0 : C) rcs : ma_no_overshoot ma = true -> (1 <= ma_period ma)%Z -> 0 <= k ->
  0 <= c_source c0 src -> (forall c, In c rcs -> 0 <= c_source c src) ->
  match env_values ma k src src2 c0 rcs with [up; lo; _] => lo <= ma_def ma (c_source c0 src) (srcs src rcs) <= up | _ => False end.
Proof.
  intros Hk Hn Hk0 H0 Hall. unfold env_values. cbv zeta. set (v := ma_def ma _ _).
  assert (Hv : 0 <= v).
  { destruct (list_upper (srcs src rcs)) as (B & HB & HBu).
    assert (P : 0 <= v <= Rmax B (c_source c0 src)).
    { apply ma_def_range; try assumption; [split; [exact H0|apply Rmax_r]|]. intros x Hx. split.
      - unfold srcs in Hx. apply in_map_iff in Hx. destruct Hx as (c & <- & Hc). apply Hall, Hc.
      - eapply Rle_trans; [apply HBu, Hx|apply Rmax_l]. }
    lra. }
  numR. assert (0 <= v * k) by (apply Rmult_le_pos; assumption). nra.
Qed.

(** SMI ergodic indicator: the TSI line and its signal line (an average that cannot overshoot, started at 0) stay in [-1, 1] *)
Theorem smi_lines_range p1 p2 (signal : ma_cfg) (x0 : R) rs : (1 <= p1)%Z -> (1 <= p2)%Z ->
  ma_no_overshoot signal = true -> (1 <= ma_period signal)%Z ->
  -1 <= tsi_line p2 p1 x0 rs <= 1 /\ -1 <= ma_def signal f0 (series (tsi_line p2 p1 x0) rs) <= 1.
Proof.
  intros H1 H2 Hk Hn. split; [apply tsi_range; assumption|].
  apply ma_def_range; try assumption; [unfold f0; numR; lra|].
  intros x Hx. unfold series in Hx. apply in_map_iff in Hx. destruct Hx as (q & <- & _). apply tsi_range; assumption.
Qed.
End RangeMA.
