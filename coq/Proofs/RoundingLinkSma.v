(** The rounding link for the SMA recurrence of the model,  v' = v + (x - old) * d  (three roundings per step): the binary64 value
    stays within  2^-53 * (magnitudes of the operations performed so far) + n * 2^-1075  of the exact recurrence - linear growth
    with the number of steps, the shape of the allowance A(t). *)
From Coq Require Import ZArith Reals Floats Lra Lia Psatz List.
From Flocq Require Import Core BinarySingleNaN PrimFloat Relative Operations.
From Yata Require Import Base.Prelude Base.Num Base.NumR Base.NumF64 Proofs.RoundingLink Proofs.RoundingLinkEma.
Import ListNotations.
Open Scope R_scope.

Local Notation pfloat := Coq.Floats.PrimFloat.float.
Local Notation rnd := (round radix2 (FLT_exp (-1074) 53) ZnearestE).

(** steps (x, old), newest first; divider d; start value v0 *)
Fixpoint smaF (d v0 : pfloat) (l : list (pfloat * pfloat)) : pfloat :=
  match l with [] => v0 | (x, old) :: r => (smaF d v0 r + (x - old) * d)%float end.
Fixpoint smaR (d v0 : R) (l : list (R * R)) : R :=
  match l with [] => v0 | (x, old) :: r => smaR d v0 r + (x - old) * d end.
Fixpoint sma_ok (d v0 : pfloat) (l : list (pfloat * pfloat)) : Prop :=
  match l with [] => fin v0
  | (x, old) :: r => sma_ok d v0 r /\ fin x /\ fin old /\ Rabs (rnd (val x - val old)) < maxf /\
      Rabs (rnd (val (x - old)%float * val d)) < maxf /\ Rabs (rnd (val (smaF d v0 r) + val ((x - old) * d)%float)) < maxf end.
Fixpoint sma_scale (d v0 : pfloat) (l : list (pfloat * pfloat)) : R :=
  match l with [] => 0
  | (x, old) :: r => sma_scale d v0 r + 3 * Rabs ((val x - val old) * val d) + Rabs (val (smaF d v0 r) + val ((x - old) * d)%float) end.

Theorem sma_rounding_link (d v0 : pfloat) (l : list (pfloat * pfloat)) : fin d -> sma_ok d v0 l ->
  fin (smaF d v0 l) /\
  Rabs (val (smaF d v0 l) - smaR (val d) (val v0) (map (fun p => (val (fst p), val (snd p))) l))
    <= u64 * sma_scale d v0 l + INR (length l) * eta64.
Proof.
  intros Fd. assert (Hu : 0 <= u64 <= 1).
  { unfold u64. change (-53 + 1)%Z with (-52)%Z. pose proof (bpow_gt_0 radix2 (-52)).
    assert (bpow radix2 (-52) <= bpow radix2 0) by (apply bpow_le; lia). cbn [bpow] in *. lra. }
  induction l as [|(x, old) r IH]; intros Hok.
  - cbn [smaF smaR map sma_scale length]. split; [exact Hok|]. rewrite Rminus_diag_eq by reflexivity. rewrite Rabs_R0. cbn [INR]. lra.
  - destruct Hok as (Hr & Hx & Ho & Hov1 & Hov2 & Hov3). destruct (IH Hr) as (Fr & Er). cbn [smaF smaR map sma_scale fst snd].
    change (length ((x, old) :: r)) with (S (length r)). rewrite S_INR.
    destruct (f64_sub_error x old Hx Ho Hov1) as (Fs & e1 & He1 & Hv1).
    destruct (f64_mul_error (x - old)%float d Fs Fd Hov2) as (Fm & e2 & eta & He2 & Heta & _ & Hv2).
    destruct (f64_add_error (smaF d v0 r) ((x - old) * d)%float Fr Fm Hov3) as (Fa & e3 & He3 & Hv3).
    split; [exact Fa|]. rewrite Hv3.
    set (v := val (smaF d v0 r)) in *. set (V := smaR (val d) (val v0) _) in *. set (xr := val x) in *. set (orr := val old) in *.
    set (D := val d) in *. set (q := val ((x - old) * d)%float) in *. set (dl := val (x - old)%float) in *.
    fold eta64 in Heta.
    assert (Hq : q - (xr - orr) * D = (xr - orr) * D * (e1 + e2 + e1 * e2) + eta) by (rewrite Hv2, Hv1; ring).
    replace ((v + q) * (1 + e3) - (V + (xr - orr) * D)) with ((v - V) + (q - (xr - orr) * D) + e3 * (v + q)) by ring.
    rewrite Hq. eapply Rle_trans; [apply Rabs_triang|]. eapply Rle_trans; [apply Rplus_le_compat_r, Rabs_triang|].
    eapply Rle_trans; [apply Rplus_le_compat_r, Rplus_le_compat_l, Rabs_triang|]. rewrite !Rabs_mult.
    assert (H3 : Rabs e3 * Rabs (v + q) <= u64 * Rabs (v + q)) by (apply Rmult_le_compat_r; [apply Rabs_pos|exact He3]).
    assert (He : Rabs (e1 + e2 + e1 * e2) <= 3 * u64).
    { eapply Rle_trans; [apply Rabs_triang|]. eapply Rle_trans; [apply Rplus_le_compat_r, Rabs_triang|]. rewrite Rabs_mult.
      assert (0 <= Rabs e1) by apply Rabs_pos. assert (0 <= Rabs e2) by apply Rabs_pos. nra. }
    assert (H12 : Rabs (xr - orr) * Rabs D * Rabs (e1 + e2 + e1 * e2) <= Rabs (xr - orr) * Rabs D * (3 * u64)).
    { apply Rmult_le_compat_l; [apply Rmult_le_pos; apply Rabs_pos|exact He]. }
    lra.
Qed.

(** linear growth: if the operations of every step are bounded by M the error after n steps is at most n * (4 * 2^-53 * M + 2^-1075) *)
Corollary sma_rounding_linear (d v0 : pfloat) (l : list (pfloat * pfloat)) (M : R) : fin d -> sma_ok d v0 l -> 0 <= M ->
  (forall x old r, (exists p, l = p ++ (x, old) :: r) ->
     Rabs ((val x - val old) * val d) <= M /\ Rabs (val (smaF d v0 r) + val ((x - old) * d)%float) <= M) ->
  Rabs (val (smaF d v0 l) - smaR (val d) (val v0) (map (fun p => (val (fst p), val (snd p))) l)) <= INR (length l) * (4 * u64 * M + eta64).
Proof.
  intros Fd Hok HM Hb. destruct (sma_rounding_link d v0 l Fd Hok) as (_ & H). eapply Rle_trans; [exact H|].
  assert (Hu : 0 <= u64) by (unfold u64; pose proof (bpow_gt_0 radix2 (-53 + 1)); lra).
  assert (Hs : sma_scale d v0 l <= INR (length l) * (4 * M)).
  { clear H Hok. induction l as [|(x, old) r IH]; [cbn [sma_scale length INR]; lra|].
    change (length ((x, old) :: r)) with (S (length r)). rewrite S_INR. cbn [sma_scale].
    destruct (Hb x old r (ex_intro _ [] eq_refl)) as (B1 & B2).
    assert (IH' : sma_scale d v0 r <= INR (length r) * (4 * M)).
    { apply IH. intros x' o' r' (p & ->). apply Hb. exists ((x, old) :: p). reflexivity. }
    lra. }
  assert (u64 * sma_scale d v0 l <= u64 * (INR (length l) * (4 * M))) by (apply Rmult_le_compat_l; assumption). lra.
Qed.

(** ---- hypotheses decided by computation, and the tie to the model's own step function (window included) *)
From Yata Require Import Core.Window Methods.Basic Spec.Hist Proofs.RoundingLinkRma.
Open Scope R_scope.

Fixpoint sma_okb (d v0 : pfloat) (l : list (pfloat * pfloat)) : bool :=
  match l with [] => Coq.Floats.PrimFloat.is_finite v0
  | (x, old) :: r => sma_okb d v0 r && Coq.Floats.PrimFloat.is_finite x && Coq.Floats.PrimFloat.is_finite old
      && Coq.Floats.PrimFloat.is_finite (x - old)%float && Coq.Floats.PrimFloat.is_finite ((x - old) * d)%float
      && Coq.Floats.PrimFloat.is_finite (smaF d v0 r + (x - old) * d)%float end.
Lemma sma_okb_ok (d v0 : pfloat) l : fin d -> sma_okb d v0 l = true -> sma_ok d v0 l.
Proof.
  intros Fd. induction l as [|(x, old) r IH]; cbn [sma_okb sma_ok]; intros H; [exact H|].
  repeat (apply andb_prop in H; let H' := fresh "Hb" in destruct H as (H & H')).
  assert (Okr := IH H). split; [exact Okr|]. split; [exact Hb3|]. split; [exact Hb2|].
  destruct (sma_rounding_link d v0 r Fd Okr) as (Fr & _).
  split; [apply finite_sub_no_overflow; assumption|]. split; [apply finite_mul_no_overflow; assumption|].
  apply finite_sum_no_overflow; assumption.
Qed.

Section Model.
Context {pw : PW}.
(** the pairs (input, value leaving the window) the model's SMA meets along a stream, oldest first *)
Fixpoint sma_pairs {N : Num} (w : window F) (xs : list F) : list (F * F) :=
  match xs with [] => [] | x :: r => let '(w', old) := w_push_t w x in (x, old) :: sma_pairs w' r end.

Lemma sma_first {N : Num} (d v : F) (w : window F) x :
  fst (sma_next (mkSMA d v w) x) = mkSMA d (fadd v (fmul (fsub x (snd (w_push_t w x))) d)) (fst (w_push_t w x)).
Proof. unfold sma_next. cbn [sma_window sma_value sma_divider]. destruct (w_push_t w x) as (w', old). reflexivity. Qed.
Lemma sma_pairs_cons {N : Num} (w : window F) x r :
  sma_pairs w (x :: r) = (x, snd (w_push_t w x)) :: sma_pairs (fst (w_push_t w x)) r.
Proof. cbn [sma_pairs]. destruct (w_push_t w x) as (w', old). reflexivity. Qed.
Lemma smaF_snoc d v l x o : smaF d v (l ++ [(x, o)]) = smaF d (v + (x - o) * d)%float l.
Proof. induction l as [|(y, p) l IH]; [reflexivity|]. cbn [app smaF]. rewrite IH. reflexivity. Qed.
Lemma smaR_snoc d v l x o : smaR d v (l ++ [(x, o)]) = smaR d (v + (x - o) * d) l.
Proof. induction l as [|(y, p) l IH]; [reflexivity|]. cbn [app smaR]. rewrite IH. reflexivity. Qed.

Lemma sma_model_f (d v : pfloat) (w : window pfloat) xs :
  sma_value (steps (sma_next (N := NumF64)) (@mkSMA NumF64 d v w) xs) = smaF d v (rev (sma_pairs (N := NumF64) w xs)).
Proof.
  revert v w. induction xs as [|x r IH]; intros v w; [reflexivity|].
  change (steps sma_next (@mkSMA NumF64 d v w) (x :: r)) with (steps sma_next (fst (sma_next (N := NumF64) (@mkSMA NumF64 d v w) x)) r).
  rewrite (sma_first (N := NumF64)), IH, (sma_pairs_cons (N := NumF64)). cbn [rev]. rewrite smaF_snoc. reflexivity.
Qed.
Lemma sma_model_r (d v : R) (w : window R) xs :
  sma_value (steps (sma_next (N := NumR)) (@mkSMA NumR d v w) xs) = smaR d v (rev (sma_pairs (N := NumR) w xs)).
Proof.
  revert v w. induction xs as [|x r IH]; intros v w; [reflexivity|].
  change (steps sma_next (@mkSMA NumR d v w) (x :: r)) with (steps sma_next (fst (sma_next (N := NumR) (@mkSMA NumR d v w) x)) r).
  rewrite (sma_first (N := NumR)), IH, (sma_pairs_cons (N := NumR)). cbn [rev]. rewrite smaR_snoc. reflexivity.
Qed.
End Model.

(** non-vacuity: SMA(3) coefficients on a stream with values of very different magnitudes *)
Example sma_okb_witness :
  let d := (1 / 3)%float in
  sma_okb d 1%float [(7, 1e15); (1e15, 0.1); (0.1, 3); (3, -0x1.7e43c8800759cp+50); (-0x1.7e43c8800759cp+50, 1); (1, 1)]%float = true.
Proof. vm_compute. reflexivity. Qed.
