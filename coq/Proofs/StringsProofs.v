(** Text forms round-trip (C18) and parsing is total by construction (C10):
    decided by kernel computation over the complete finite domains (8 sources;
    15 MA kinds x all 256 lengths of the default PeriodType). *)
From Yata Require Import Base.Prelude Core.Window Core.Candle Core.Strings.
Open Scope Z_scope.

Theorem source_roundtrip : forall k, In k all_sources ->
  source_from_str (of_ascii (source_to_str k)) = Some k.
Proof. intros k H. cbn in H. repeat (destruct H as [<-|H]; [vm_compute; reflexivity|]). contradiction. Qed.

Theorem all_sources_complete : forall k, In k all_sources.
Proof. destruct k; cbn; tauto. Qed.

(** anything [Source::from_str] accepts is, after ASCII lower-casing and trimming, one of the nine names *)
Theorem source_parse_exact s k : source_from_str s = Some k ->
  exists name, In (name, k) source_names /\ ustr_eqb (trim (map ascii_lower s)) (of_ascii name) = true.
Proof.
  unfold source_from_str. destruct (find _ source_names) as [p|] eqn:E; [|discriminate].
  intros [= <-]. apply find_some in E. destruct E as (Hin & Heq). exists (fst p). split; [|exact Heq].
  destruct p; exact Hin.
Qed.

Definition ma_rt_ok (pw : PW) (k : ma_kind) (len : Z) : bool :=
  match ma_from_str (pw := pw) (ma_to_str k len) with
  | Some (k', len') => (ma_code k' =? ma_code k) && (len' =? len)
  | None => false
  end.
(** every MA kind, every length 0..255: the textual form parses back to the same constructor *)
Theorem ma_roundtrip_u8 : forall k, In k all_kinds -> forall n, (n < 256)%nat ->
  ma_rt_ok PW8 k (Z.of_nat n) = true.
Proof.
  assert (H : forallb (fun k => forallb (fun n => ma_rt_ok PW8 k (Z.of_nat n)) (seq 0 256)) all_kinds = true)
    by (vm_compute; reflexivity).
  intros k Hk n Hn. rewrite forallb_forall in H. specialize (H k Hk). rewrite forallb_forall in H.
  apply H. apply in_seq. lia.
Qed.

(** anything [MA::from_str] accepts has the shape <kind name>-<digits> *)
Theorem ma_parse_exact {pw : PW} s k len : ma_from_str s = Some (k, len) ->
  exists m p name, split_once 45 s = Some (m, p) /\ parse_period p = Some len /\
    In (name, k) ma_names /\ ustr_eqb m (of_ascii name) = true.
Proof.
  unfold ma_from_str. destruct (split_once 45 s) as [[m p]|] eqn:E1; [|discriminate].
  destruct (parse_period p) as [l|] eqn:E2; [|discriminate].
  destruct (find _ ma_names) as [q|] eqn:E3; [|discriminate]. intros [= <- <-].
  apply find_some in E3. destruct E3 as (Hin & Heq). exists m, p, (fst q). repeat split; auto. destruct q; exact Hin.
Qed.
(** a parsed length always fits PeriodType *)
Lemma parse_digits_range {pw : PW} s : forall acc v, 0 <= acc <= pmax -> parse_digits acc s = Some v -> 0 <= v <= pmax.
Proof.
  induction s as [|c r IH]; intros acc v Ha; cbn [parse_digits]; [intros [= <-]; exact Ha|].
  destruct ((48 <=? c) && (c <=? 57)) eqn:E; [|discriminate].
  destruct (Z.ltb_spec pmax (acc * 10 + (c - 48))); [discriminate|]. apply IH. lia.
Qed.
Lemma parse_period_other {pw : PW} c r : c <> 43 -> parse_period (c :: r) = parse_digits 0 (c :: r).
Proof.
  intros Hc. unfold parse_period. destruct c as [|p|p]; try reflexivity.
  do 6 (destruct p as [p|p|]; try reflexivity). all: try (destruct p; reflexivity). congruence.
Qed.
Theorem parse_period_range {pw : PW} s v : 0 <= pmax -> parse_period s = Some v -> 0 <= v <= pmax.
Proof.
  intros Hp. destruct s as [|c r]; [discriminate|].
  destruct (Z.eq_dec c 43) as [->|Hc].
  - destruct r; [discriminate|]. apply parse_digits_range. lia.
  - rewrite parse_period_other by exact Hc. apply parse_digits_range. lia.
Qed.
