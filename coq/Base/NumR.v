(** Exact-arithmetic instance of [Num]: F := R.  All universally quantified
    theorems about the numeric models are stated on this instance; the same
    polymorphic terms are executed on [NumF64]. *)
From Yata Require Import Base.Prelude Base.Num.
From Coq Require Import Reals Lra.
Open Scope R_scope.

Definition Rltb (a b : R) : bool := if Rlt_dec a b then true else false.
Definition Rleb (a b : R) : bool := if Rle_dec a b then true else false.
Definition Reqb (a b : R) : bool := if Req_EM_T a b then true else false.
Definition Rtrunc (x : R) : Z := if Rle_dec 0 x then Int_part x else (- Int_part (- x))%Z.
Definition Rround_away (x : R) : Z :=
  if Rle_dec 0 x then Int_part (x + / 2) else (- Int_part (- x + / 2))%Z.
Definition Rsat (conv : R -> Z) (lo hi : Z) (x : R) : Z := Z.max lo (Z.min hi (conv x)).

#[global] Instance NumR : Num := {|
  F := R;
  fadd := Rplus; fsub := Rminus; fmul := Rmult; fdiv := Rdiv;
  ffma := fun a b c => a * b + c;
  fneg := Ropp; fabs := Rabs; fsqrt := sqrt;
  fmax := Rmax; fmin := Rmin;
  fofZ := IZR;
  flt := Rltb; fle := Rleb; feq := Reqb;
  fbits_eq := Reqb;
  fis_finite := fun _ => true; fis_nan := fun _ => false;
  fsign_neg := fun x => Rltb x 0;
  ftrunc_sat := Rsat Rtrunc;
  fround_sat := Rsat Rround_away;
|}.

Lemma Rltb_spec a b : reflect (a < b) (Rltb a b).
Proof. unfold Rltb. destruct (Rlt_dec a b); constructor; auto. Qed.
Lemma Rleb_spec a b : reflect (a <= b) (Rleb a b).
Proof. unfold Rleb. destruct (Rle_dec a b); constructor; auto. Qed.
Lemma Reqb_spec a b : reflect (a = b) (Reqb a b).
Proof. unfold Reqb. destruct (Req_EM_T a b); constructor; auto. Qed.

(** expose the real operations behind the class projections *)
Ltac numR :=
  cbn [F fadd fsub fmul fdiv ffma fneg fabs fsqrt fmax fmin fofZ flt fle feq fbits_eq
       fis_finite fis_nan fsign_neg NumR] in *;
  unfold fgt, fge, fne, f0, f1, f2, flit, fhalf, fofb in *;
  cbn [F fadd fsub fmul fdiv ffma fneg fabs fsqrt fmax fmin fofZ flt fle feq fbits_eq
       fis_finite fis_nan fsign_neg NumR] in *.
