(** IEEE-754 binary64 instance of [Num] on Coq's primitive floats; fma through
    Flocq's verified [Bfma].  Also: bit patterns of floats for the
    correspondence check. *)
From Yata Require Import Base.Prelude Base.Num.
From Coq Require Import Floats Uint63.
From Flocq Require Import IEEE754.BinarySingleNaN IEEE754.PrimFloat.
Open Scope Z_scope.

Local Instance Hprec : FLX.Prec_gt_0 FloatOps.prec := eq_refl.
Local Instance Hmax : Prec_lt_emax FloatOps.prec FloatOps.emax := eq_refl.

Definition f64_fma (a b c : float) : float :=
  B2Prim (Bfma mode_NE (Prim2B a) (Prim2B b) (Prim2B c)).

(** exact decomposition of a finite non-zero float: |x| = mant * 2^ex, mant in [2^52,2^53) *)
Definition f64_decomp (x : float) : Z * Z :=
  let (m, e) := PrimFloat.frshiftexp (PrimFloat.abs x) in
  (Uint63.to_Z (PrimFloat.normfr_mantissa m), Uint63.to_Z e - FloatOps.shift - 53).

Definition f64_bits (x : float) : Z :=
  if PrimFloat.is_nan x then 9221120237041090560          (* 0x7ff8000000000000 *)
  else
    let s := if PrimFloat.get_sign x then 9223372036854775808 else 0 in
    if PrimFloat.is_infinity x then s + 9218868437227405312 (* 0x7ff0000000000000 *)
    else if PrimFloat.is_zero x then s
    else
      let '(mant, ex) := f64_decomp x in
      let be := ex + 53 + 1022 in
      if 1 <=? be then s + be * 4503599627370496 + (mant - 4503599627370496)
      else s + mant / 2 ^ (- (ex + 1074)).

Definition f64_ofZ (z : Z) : float :=
  if z <? 0 then PrimFloat.opp (PrimFloat.of_uint63 (Uint63.of_Z (- z)))
  else PrimFloat.of_uint63 (Uint63.of_Z z).

(** truncation / rounding half away from zero of a finite float, exactly *)
Definition f64_trunc_Z (x : float) : Z :=
  if PrimFloat.is_zero x then 0 else
  let '(mant, ex) := f64_decomp x in
  let a := if 0 <=? ex then mant * 2 ^ ex else mant / 2 ^ (- ex) in
  if PrimFloat.get_sign x then - a else a.
Definition f64_round_Z (x : float) : Z :=
  if PrimFloat.is_zero x then 0 else
  let '(mant, ex) := f64_decomp x in
  let a := if 0 <=? ex then mant * 2 ^ ex
           else (2 * mant + 2 ^ (- ex)) / 2 ^ (- ex + 1) in
  if PrimFloat.get_sign x then - a else a.
Definition f64_sat (conv : float -> Z) (lo hi : Z) (x : float) : Z :=
  if PrimFloat.is_nan x then 0
  else if PrimFloat.is_infinity x then (if PrimFloat.get_sign x then lo else hi)
  else Z.max lo (Z.min hi (conv x)).

(** f64::max / f64::min (IEEE maxNum/minNum: a NaN operand is ignored; on
    equal operands -- including zeros of either sign -- the first is kept). *)
Definition f64_max (a b : float) : float :=
  if PrimFloat.ltb a b then b else if PrimFloat.ltb b a then a
  else if PrimFloat.is_nan a then b else a.
Definition f64_min (a b : float) : float :=
  if PrimFloat.ltb b a then b else if PrimFloat.ltb a b then a
  else if PrimFloat.is_nan a then b else a.

(** to_bits() equality: Leibniz equality of floats (NaNs identified; never inputs) *)
Definition f64_bits_eq (a b : float) : bool := PrimFloat.Leibniz.eqb a b.

#[global] Instance NumF64 : Num := {|
  F := float;
  fadd := PrimFloat.add; fsub := PrimFloat.sub; fmul := PrimFloat.mul; fdiv := PrimFloat.div;
  ffma := f64_fma;
  fneg := PrimFloat.opp; fabs := PrimFloat.abs; fsqrt := PrimFloat.sqrt;
  fmax := f64_max; fmin := f64_min;
  fofZ := f64_ofZ;
  flt := PrimFloat.ltb; fle := PrimFloat.leb; feq := PrimFloat.eqb;
  fbits_eq := f64_bits_eq;
  fis_finite := PrimFloat.is_finite; fis_nan := PrimFloat.is_nan;
  fsign_neg := PrimFloat.get_sign;
  ftrunc_sat := f64_sat f64_trunc_Z;
  fround_sat := f64_sat f64_round_Z;
|}.
