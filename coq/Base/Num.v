(** The arithmetic interface every numeric model is written against
    (DESIGN.md 3.1).  Instances: NumR (exact reals, theorems), NumF64
    (IEEE binary64, executed bit-exactly against the implementation). *)
From Yata Require Import Base.Prelude.

Class Num := {
  F : Type;
  fadd : F -> F -> F;
  fsub : F -> F -> F;
  fmul : F -> F -> F;
  fdiv : F -> F -> F;
  ffma : F -> F -> F -> F;          (* a * b + c with one rounding (f64::mul_add) *)
  fneg : F -> F;
  fabs : F -> F;
  fsqrt : F -> F;
  fmax : F -> F -> F;               (* f64::max / f64::min *)
  fmin : F -> F -> F;
  fofZ : Z -> F;                    (* integer -> float cast *)
  flt : F -> F -> bool;             (* IEEE <, <=, == *)
  fle : F -> F -> bool;
  feq : F -> F -> bool;
  fbits_eq : F -> F -> bool;        (* to_bits() equality *)
  fis_finite : F -> bool;
  fis_nan : F -> bool;
  fsign_neg : F -> bool;            (* is_sign_negative *)
  ftrunc_sat : Z -> Z -> F -> Z;    (* `x as uN`: truncate, saturate to [lo,hi], NaN -> 0 *)
  fround_sat : Z -> Z -> F -> Z;    (* `x.round() as uN`: half away from zero, saturating *)
}.

Declare Scope num_scope.
Delimit Scope num_scope with num.
Infix "+" := fadd : num_scope.
Infix "-" := fsub : num_scope.
Infix "*" := fmul : num_scope.
Infix "/" := fdiv : num_scope.
Notation "- x" := (fneg x) : num_scope.
Infix "<?" := flt : num_scope.
Infix "<=?" := fle : num_scope.
Infix "=?" := feq : num_scope.

Section Derived.
Context {N : Num}.
Definition fgt (a b : F) : bool := flt b a.
Definition fge (a b : F) : bool := fle b a.
Definition fne (a b : F) : bool := negb (feq a b).   (* IEEE != : true on NaN *)
Definition f0 : F := fofZ 0.
Definition f1 : F := fofZ 1.
Definition f2 : F := fofZ 2.
(** decimal literal p/q with p, q exactly representable: the correctly rounded
    quotient is the correctly rounded literal *)
Definition flit (p q : Z) : F := fdiv (fofZ p) (fofZ q).
Definition fhalf : F := flit 1 2.
(** bool as ValueType *)
Definition fofb (b : bool) : F := if b then f1 else f0.
(** f64::clamp (lo <= hi, no NaN bounds) *)
Definition fclamp (x lo hi : F) : F := if flt x lo then lo else if flt hi x then hi else x.
(** iter().sum::<f64>() folds from -0.0 *)
Definition fsum (l : list F) : F := fold_left fadd l (fneg f0).
End Derived.
Notation "a >? b" := (fgt a b) (at level 70) : num_scope.
Notation "a >=? b" := (fge a b) (at level 70) : num_scope.
