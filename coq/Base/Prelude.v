(** Common prelude: outcomes (Ok / Err / Panic as values), small list helpers. *)
From Coq Require Export String.
From Coq Require Export List ZArith Bool Lia.
Open Scope string_scope.
Open Scope list_scope.
Export ListNotations.
Open Scope Z_scope.

(** Errors of yata's [Error] enum that the model distinguishes. *)
Inductive yerr := EWrongMethodParameters | EWrongConfig | EInvalidCandles
  | EParameterParse | EOther.

(** A panic site is named by a short string (file:function). *)
Inductive outcome (A : Type) :=
  | Ok (a : A)
  | Err (e : yerr)
  | Panic (site : string).
Arguments Ok {A} a.
Arguments Err {A} e.
Arguments Panic {A} site.

Definition obind {A B} (o : outcome A) (f : A -> outcome B) : outcome B :=
  match o with Ok a => f a | Err e => Err e | Panic s => Panic s end.
Definition omap {A B} (f : A -> B) (o : outcome A) : outcome B :=
  match o with Ok a => Ok (f a) | Err e => Err e | Panic s => Panic s end.
Notation "'do' x <- o ; k" := (obind o (fun x => k))
  (at level 200, x pattern, o at level 100, k at level 200, right associativity).

Definition is_ok {A} (o : outcome A) : bool := match o with Ok _ => true | _ => false end.
Definition is_panic {A} (o : outcome A) : bool := match o with Panic _ => true | _ => false end.

(** Replace the element at position [i] (no-op when out of range). *)
Fixpoint set_nth {A} (i : nat) (x : A) (l : list A) : list A :=
  match l, i with
  | [], _ => []
  | _ :: t, O => x :: t
  | h :: t, S i' => h :: set_nth i' x t
  end.

Lemma set_nth_length {A} i (x : A) l : length (set_nth i x l) = length l.
Proof. revert i; induction l as [|h t IH]; intros [|i]; simpl; auto. Qed.

Lemma nth_error_set_nth_eq {A} i (x : A) l :
  (i < length l)%nat -> nth_error (set_nth i x l) i = Some x.
Proof. revert i; induction l as [|h t IH]; intros [|i] H; simpl in *; try lia; auto.
  apply IH; lia. Qed.

Lemma nth_error_set_nth_neq {A} i j (x : A) l :
  i <> j -> nth_error (set_nth i x l) j = nth_error l j.
Proof. revert i j; induction l as [|h t IH]; intros [|i] [|j] H; simpl; auto; try congruence. Qed.

Lemma set_nth_split {A} i (x : A) l :
  (i < length l)%nat -> set_nth i x l = firstn i l ++ x :: skipn (S i) l.
Proof. revert i; induction l as [|h t IH]; intros [|i] H; simpl in *; try lia; auto.
  f_equal; apply IH; lia. Qed.

Lemma nth_error_skipn {A} n (l : list A) i : nth_error (skipn n l) i = nth_error l (n + i).
Proof. revert l; induction n as [|n IH]; intros [|h t]; simpl; auto. destruct i; auto. Qed.

Lemma nth_error_firstn {A} n (l : list A) i :
  nth_error (firstn n l) i = if (i <? n)%nat then nth_error l i else None.
Proof. revert n l; induction i as [|i IH]; intros [|n] [|h t]; simpl; auto.
  - destruct (Nat.ltb_spec (S i) (S n)); auto.
  - rewrite IH. change (S i <? S n)%nat with (i <? n)%nat. reflexivity. Qed.

Lemma nth_error_rev {A} (l : list A) i : (i < length l)%nat ->
  nth_error (rev l) i = nth_error l (length l - S i).
Proof.
  intros H. destruct (nth_error l (length l - S i)) as [v|] eqn:E.
  - rewrite (nth_error_nth' (rev l) v) by (rewrite rev_length; lia).
    rewrite rev_nth by lia. f_equal. apply nth_error_nth. exact E.
  - apply nth_error_None in E. lia.
Qed.

Lemma skipn_skipn {A} x y (l : list A) : skipn x (skipn y l) = skipn (x + y) l.
Proof. revert l; induction y as [|y IH]; intros l.
  - rewrite Nat.add_0_r. reflexivity.
  - rewrite Nat.add_succ_r. destruct l; simpl; [destruct x; reflexivity|]. apply IH. Qed.
