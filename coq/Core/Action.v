(** Model of src/core/action.rs. *)
From Yata Require Import Base.Prelude Base.Num.

Inductive action := Buy (k : Z) | ANone | Sell (k : Z).

Definition BOUND : Z := 255.
Definition a_valid (a : action) : Prop :=
  match a with Buy k | Sell k => 0 <= k <= BOUND | ANone => True end.

Definition a_buy_all := Buy BOUND.
Definition a_sell_all := Sell BOUND.

(** hand-written PartialEq *)
Definition a_eq (a b : action) : bool :=
  match a, b with
  | ANone, ANone => true
  | Buy x, Sell y | Sell x, Buy y => (x =? 0) && (y =? 0)
  | Buy x, Buy y | Sell x, Sell y => x =? y
  | _, _ => false
  end.

(** derived Ord: variant order Buy < None < Sell, then the payload *)
Definition a_rank (a : action) : Z := match a with Buy _ => 0 | ANone => 1 | Sell _ => 2 end.
Definition a_payload (a : action) : Z := match a with Buy k | Sell k => k | ANone => 0 end.
Definition a_cmp (a b : action) : comparison :=
  match Z.compare (a_rank a) (a_rank b) with
  | Eq => Z.compare (a_payload a) (a_payload b)
  | c => c
  end.

Definition a_from_bool (b : bool) : action := if b then a_buy_all else ANone.
Definition a_from_i8 (v : Z) : action :=
  if v =? 0 then ANone else if 0 <? v then a_buy_all else a_sell_all.
Definition a_to_i8 (a : action) : Z :=
  match a with
  | Buy v => if 0 <? v then 1 else 0
  | ANone => 0
  | Sell v => - (if 0 <? v then 1 else 0)
  end.
Definition a_from_opt_i8 (o : option Z) : action := match o with None => ANone | Some v => a_from_i8 v end.
Definition a_sign (a : action) : option Z := match a with ANone => None | _ => Some (a_to_i8 a) end.
Definition a_analog := a_to_i8.
Definition a_value (a : action) : option Z := match a with ANone => None | Buy v | Sell v => Some v end.
Definition a_is_none (a : action) : bool := match a with ANone => true | _ => false end.

Definition a_neg (a : action) : action :=
  match a with ANone => ANone | Buy v => Sell v | Sell v => Buy v end.

Definition u8_sat_add (a b : Z) : Z := Z.min BOUND (a + b).
Definition a_sub (a b : action) : action :=
  match a, b with
  | ANone, ANone => ANone
  | s, ANone => s
  | ANone, s => a_neg s
  | Buy v1, Buy v2 => if v2 <=? v1 then Buy (v1 - v2) else Sell (v2 - v1)
  | Sell v1, Sell v2 => if v2 <=? v1 then Sell (v1 - v2) else Buy (v2 - v1)
  | Buy v1, Sell v2 => Buy (u8_sat_add v1 v2)
  | Sell v1, Buy v2 => Sell (u8_sat_add v1 v2)
  end.

(** integer-scaled ratio: ratio = ratio255 / 255; None counts as no ratio *)
Definition a_ratio255 (a : action) : option Z :=
  match a with ANone => None | Buy v => Some v | Sell v => Some (- v) end.
Definition a_r0 (a : action) : Z := match a_ratio255 a with Some r => r | None => 0 end.

Section Floats.
Context {N : Num}.

Definition a_from_f (v : F) : action :=
  if fis_nan v then ANone else
  let normalized := fclamp v (fneg f1) f1 in
  let value := fround_sat 0 BOUND (fmul (fabs normalized) (fofZ BOUND)) in
  if fsign_neg normalized then (if value =? BOUND then a_sell_all else Sell value)
  else (if value =? BOUND then a_buy_all else Buy value).
Definition a_from_opt_f (o : option F) : action := match o with None => ANone | Some v => a_from_f v end.

Definition a_ratio (a : action) : option F :=
  match a with
  | ANone => None
  | Buy v => Some (fdiv (fofZ v) (fofZ BOUND))
  | Sell v => Some (fdiv (fneg (fofZ v)) (fofZ BOUND))
  end.
End Floats.
