(** Model of src/core/ohlcv.rs (default methods of the OHLCV trait) and of the
    Candle struct / Source enum of src/core/candles.rs. *)
From Yata Require Import Base.Prelude Base.Num.

Inductive source := SClose | SHigh | SLow | STP | SHL2 | SVolume | SVolumedPrice | SOpen.

Section Candle.
Context {N : Num}.

Record candle := mkCandle { c_open : F; c_high : F; c_low : F; c_close : F; c_volume : F }.

Definition c_tp (c : candle) : F := fdiv (fadd (fadd (c_high c) (c_low c)) (c_close c)) (fofZ 3).
Definition c_hl2 (c : candle) : F := fmul (fadd (c_high c) (c_low c)) (flit 1 2).
Definition c_ohlc4 (c : candle) : F :=
  fmul (fadd (fadd (fadd (c_high c) (c_low c)) (c_close c)) (c_open c)) (flit 1 4).
Definition c_clv (c : candle) : F :=
  if feq (c_high c) (c_low c) then f0
  else fdiv (fsub (ffma f2 (c_close c) (fneg (c_low c))) (c_high c)) (fsub (c_high c) (c_low c)).
Definition c_tr_close (c : candle) (prev_close : F) : F :=
  fsub (fmax (c_high c) prev_close) (fmin (c_low c) prev_close).
Definition c_tr (c prev : candle) : F := c_tr_close c (c_close prev).
Definition c_volumed_price (c : candle) : F := fmul (c_tp c) (c_volume c).
Definition c_validate (c : candle) : bool :=
  negb (fgt (c_close c) (c_high c) || flt (c_close c) (c_low c) || flt (c_high c) (c_low c))
  && negb (fgt (c_open c) (c_high c) || flt (c_open c) (c_low c))
  && fgt (c_close c) f0 && fgt (c_open c) f0 && fgt (c_high c) f0 && fgt (c_low c) f0
  && fis_finite (c_close c) && fis_finite (c_open c) && fis_finite (c_high c) && fis_finite (c_low c)
  && (fis_nan (c_volume c) || fge (c_volume c) f0).
Definition c_source (c : candle) (s : source) : F :=
  match s with
  | SClose => c_close c | SHigh => c_high c | SLow => c_low c | STP => c_tp c
  | SHL2 => c_hl2 c | SVolume => c_volume c | SVolumedPrice => c_volumed_price c | SOpen => c_open c
  end.
Definition c_is_rising (c : candle) : bool := fgt (c_close c) (c_open c).
Definition c_is_falling (c : candle) : bool := flt (c_close c) (c_open c).

(** Candle + Candle (aggregation used by CollapseTimeframe) *)
Definition c_add (a b : candle) : candle :=
  mkCandle (c_open a) (fmax (c_high a) (c_high b)) (fmin (c_low a) (c_low b)) (c_close b)
           (fadd (c_volume a) (c_volume b)).
End Candle.
Arguments candle {N}.
