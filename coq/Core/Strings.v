(** Model of the two parsers of the crate on strings of Unicode code points:
    [Source::from_str] (candles.rs) and [MA::from_str] (helpers/methods.rs),
    with the std functions they use: to_ascii_lowercase, str::trim (Unicode
    White_Space), split_once('-'), u8::from_str.  Total functions: the model
    cannot panic; the implementation is compared with it on arbitrary texts. *)
From Yata Require Import Base.Prelude Core.Window Core.Candle.
Open Scope Z_scope.

Definition ustr := list Z.
Fixpoint ustr_eqb (a b : ustr) : bool :=
  match a, b with
  | [], [] => true
  | x :: r, y :: s => (x =? y) && ustr_eqb r s
  | _, _ => false
  end.
Definition of_ascii (s : string) : ustr := map (fun c => Z.of_nat (Ascii.nat_of_ascii c)) (list_ascii_of_string s).

Definition ascii_lower (c : Z) : Z := if (65 <=? c) && (c <=? 90) then c + 32 else c.
Definition is_white (c : Z) : bool :=
  ((9 <=? c) && (c <=? 13)) || (c =? 32) || (c =? 133) || (c =? 160) || (c =? 5760)
  || ((8192 <=? c) && (c <=? 8202)) || (c =? 8232) || (c =? 8233) || (c =? 8239) || (c =? 8287) || (c =? 12288).
Fixpoint trim_start (s : ustr) : ustr :=
  match s with c :: r => if is_white c then trim_start r else s | [] => [] end.
Definition trim (s : ustr) : ustr := rev (trim_start (rev (trim_start s))).

Definition source_names : list (string * source) :=
  [("close", SClose); ("high", SHigh); ("low", SLow); ("volume", SVolume); ("tp", STP); ("hlc3", STP);
   ("hl2", SHL2); ("open", SOpen); ("volumed_price", SVolumedPrice)].
Definition source_from_str (s : ustr) : option source :=
  let t := trim (map ascii_lower s) in
  match find (fun p => ustr_eqb t (of_ascii (fst p))) source_names with
  | Some p => Some (snd p) | None => None end.
Definition source_to_str (k : source) : string :=
  match k with
  | SClose => "close" | SHigh => "high" | SLow => "low" | SOpen => "open" | STP => "tp"
  | SHL2 => "hl2" | SVolume => "volume" | SVolumedPrice => "volumed_price"
  end.
Definition all_sources := [SClose; SHigh; SLow; STP; SHL2; SVolume; SVolumedPrice; SOpen].
Definition source_eqb (a b : source) : bool :=
  match a, b with
  | SClose, SClose | SHigh, SHigh | SLow, SLow | STP, STP | SHL2, SHL2 | SVolume, SVolume
  | SVolumedPrice, SVolumedPrice | SOpen, SOpen => true
  | _, _ => false
  end.

(** u8::from_str (width from [pmax]): optional '+', at least one ASCII digit, no overflow *)
Section Parse.
Context {pw : PW}.
Fixpoint parse_digits (acc : Z) (s : ustr) : option Z :=
  match s with
  | [] => Some acc
  | c :: r => if (48 <=? c) && (c <=? 57)
              then let v := acc * 10 + (c - 48) in if pmax <? v then None else parse_digits v r
              else None
  end.
Definition parse_period (s : ustr) : option Z :=
  match s with
  | [] => None
  | 43 :: [] => None
  | 43 :: r => parse_digits 0 r
  | _ => parse_digits 0 s
  end.
Fixpoint split_once (sep : Z) (s : ustr) : option (ustr * ustr) :=
  match s with
  | [] => None
  | c :: r => if c =? sep then Some ([], r)
              else match split_once sep r with Some (a, b) => Some (c :: a, b) | None => None end
  end.

Inductive ma_kind := KSMA | KWMA | KHMA | KRMA | KEMA | KDMA | KDEMA | KTMA | KTEMA | KWSMA | KSMM | KSWMA
  | KTRIMA | KLinReg | KVidya.
Definition ma_names : list (string * ma_kind) :=
  [("sma", KSMA); ("wma", KWMA); ("hma", KHMA); ("rma", KRMA); ("ema", KEMA); ("dma", KDMA); ("tma", KTMA);
   ("dema", KDEMA); ("tema", KTEMA); ("wsma", KWSMA); ("smm", KSMM); ("swma", KSWMA); ("trima", KTRIMA);
   ("linreg", KLinReg); ("vidya", KVidya)].
Definition ma_code (k : ma_kind) : Z :=
  match k with KSMA => 0 | KWMA => 1 | KHMA => 2 | KRMA => 3 | KEMA => 4 | KDMA => 5 | KDEMA => 6 | KTMA => 7
  | KTEMA => 8 | KWSMA => 9 | KSMM => 10 | KSWMA => 11 | KTRIMA => 12 | KLinReg => 13 | KVidya => 14 end.
Definition ma_from_str (s : ustr) : option (ma_kind * Z) :=
  match split_once 45 s with
  | None => None
  | Some (m, p) =>
    match parse_period p with
    | None => None
    | Some len =>
      match find (fun q => ustr_eqb m (of_ascii (fst q))) ma_names with
      | Some q => Some (snd q, len) | None => None end
    end
  end.
(** decimal text of a period *)
Definition digit (d : Z) : Z := 48 + d.
Fixpoint dec_fuel (fuel : nat) (n : Z) (acc : ustr) : ustr :=
  match fuel with
  | O => acc
  | S f => if n <? 10 then digit n :: acc else dec_fuel f (n / 10) (digit (n mod 10) :: acc)
  end.
Definition dec (n : Z) : ustr := dec_fuel 25 n [].
Definition ma_to_str (k : ma_kind) (len : Z) : ustr :=
  match find (fun q => ma_code (snd q) =? ma_code k) ma_names with
  | Some q => of_ascii (fst q) ++ [45] ++ dec len
  | None => []
  end.
Definition all_kinds := map snd ma_names.
End Parse.
