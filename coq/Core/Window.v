(** Model of src/core/window.rs, transcribed field by field.
    PeriodType is Z with an explicit maximum [pmax] (255 for u8); the debug
    profile is modelled: integer overflow, failed (debug_)assert and slice
    index out of range are [Panic] values.  No proofs here. *)
From Yata Require Import Base.Prelude.

Class PW := { pmax : Z }.
Definition PW8 : PW := {| pmax := 255 |}.
Definition PW16 : PW := {| pmax := 65535 |}.

Section Window.
Context {pw : PW}.
Context {A : Type}.

Record window := mkW { buf : list A; widx : Z; wsize : Z; ws1 : Z }.

Definition sat_sub (a b : Z) : Z := Z.max 0 (a - b).
Definition sat_add (a b : Z) : Z := Z.min pmax (a + b).

(** vec![value; size] : the length is a usize; [repeat] on [Z.to_nat]. *)
Definition w_new (size : Z) (v : A) : outcome window :=
  if size <=? pmax - 1
  then Ok (mkW (repeat v (Z.to_nat size)) 0 size (sat_sub size 1))
  else Panic "window.rs:new:debug_assert".

Definition wrap_cast (n : Z) : Z := n mod (pmax + 1).  (* usize as PeriodType *)

Definition w_from_parts (slice : list A) (index : Z) : outcome window :=
  let len := Z.of_nat (length slice) in
  let size := wrap_cast len in
  if negb (len <? pmax) then Panic "window.rs:from_parts:len"
  else if negb (index <? len) && negb ((len =? 0) && (index =? 0))
       then Panic "window.rs:from_parts:index"
  else Ok (mkW slice index size (sat_sub size 1)).

Definition w_empty : window := mkW [] 0 0 0.

Definition w_is_empty (w : window) : bool := match buf w with [] => true | _ => false end.
Definition w_len (w : window) : Z := wsize w.
Definition w_as_slice (w : window) : list A := buf w.

(** push: returns the new window and the replaced (oldest) value. *)
Definition w_push (w : window) (x : A) : outcome (window * A) :=
  if w_is_empty w then Panic "window.rs:push:empty"
  else match nth_error (buf w) (Z.to_nat (widx w)) with
  | None => Panic "window.rs:push:index"
  | Some old =>
    let buf' := set_nth (Z.to_nat (widx w)) x (buf w) in
    if pmax <? widx w + 1 then Panic "window.rs:push:overflow"
    else
      let idx' := (if negb (widx w =? ws1 w) then 1 else 0) * (widx w + 1) in
      Ok (mkW buf' idx' (wsize w) (ws1 w), old)
  end.

Definition w_newest (w : window) : outcome A :=
  let i := if widx w - 1 <? 0 then ws1 w else widx w - 1 in
  match nth_error (buf w) (Z.to_nat i) with
  | Some v => Ok v | None => Panic "window.rs:newest:index" end.

Definition w_oldest (w : window) : outcome A :=
  match nth_error (buf w) (Z.to_nat (widx w)) with
  | Some v => Ok v | None => Panic "window.rs:oldest:index" end.

(** slice_index: None | Some slot; the subtraction [size - index] can
    overflow only on an ill-formed window (then Panic in debug). *)
Definition w_slice_index (w : window) (i : Z) : outcome (option Z) :=
  if ws1 w - i <? 0 then Ok None
  else
    let j := ws1 w - i in
    let saturated := sat_add (widx w) j in
    let overflow := if wsize w <=? saturated then 1 else 0 in
    if wsize w - widx w <? 0 then Panic "window.rs:slice_index:underflow"
    else
      let s := wsize w - widx w in
      Ok (Some (overflow * sat_sub j s + (1 - overflow) * saturated)).

Definition w_get (w : window) (i : Z) : outcome (option A) :=
  do si <- w_slice_index w i;
  match si with
  | None => Ok None
  | Some k => Ok (nth_error (buf w) (Z.to_nat k))
  end.

Definition w_index (w : window) (i : Z) : outcome A :=
  do si <- w_slice_index w i;
  match si with
  | None => Panic "window.rs:index:range"
  | Some k => match nth_error (buf w) (Z.to_nat k) with
              | Some v => Ok v | None => Panic "window.rs:index:slot" end
  end.

(** Iterators: a cursor and a remaining count next to the borrowed window. *)
Record witer := mkIt { it_idx : Z; it_size : Z }.

Definition w_iter (w : window) : witer := mkIt (widx w) (wsize w).

Definition it_next (w : window) (it : witer) : outcome (witer * option A) :=
  if it_size it =? 0 then Ok (it, None)
  else
    let size' := it_size it - 1 in
    let at_start := if it_idx it =? 0 then 1 else 0 in
    let idx' := sat_sub (it_idx it) 1 + at_start * ws1 w in
    if pmax <? idx' then Panic "window.rs:iter:overflow" else
    match nth_error (buf w) (Z.to_nat idx') with
    | Some v => Ok (mkIt idx' size', Some v)
    | None => Panic "window.rs:iter:index"
    end.

Definition it_size_hint (it : witer) : Z := it_size it.
Definition it_count (it : witer) : Z := it_size it.
Definition it_last (w : window) (it : witer) : outcome (option A) :=
  if it_size it =? 0 then Ok None else omap Some (w_oldest w).

Definition rit_next (w : window) (it : witer) : outcome (witer * option A) :=
  if it_size it =? 0 then Ok (it, None)
  else
    match nth_error (buf w) (Z.to_nat (it_idx it)) with
    | None => Panic "window.rs:iter_rev:index"
    | Some v =>
      let size' := it_size it - 1 in
      let not_end := if negb (it_idx it =? ws1 w) then 1 else 0 in
      if pmax <? it_idx it + 1 then Panic "window.rs:iter_rev:overflow" else
      Ok (mkIt ((it_idx it + 1) * not_end) size', Some v)
    end.
Definition rit_last (w : window) (it : witer) : outcome (option A) :=
  if it_size it =? 0 then Ok None else omap Some (w_newest w).

(** Taking [k] items (fuel = k) from an iterator. *)
Fixpoint it_take (next : window -> witer -> outcome (witer * option A))
   (w : window) (it : witer) (k : nat) : outcome (witer * list A) :=
  match k with
  | O => Ok (it, [])
  | S k' =>
    do r <- next w it;
    let '(it', o) := r in
    match o with
    | None => Ok (it', [])
    | Some v => do r2 <- it_take next w it' k'; let '(it'', l) := r2 in Ok (it'', v :: l)
    end
  end.

(** All items of the forward iterator (newest first): used by the methods. *)
Definition w_iter_all (w : window) : outcome (list A) :=
  omap snd (it_take it_next w (w_iter w) (length (buf w))).
Definition w_iter_rev_all (w : window) : outcome (list A) :=
  omap snd (it_take rit_next w (w_iter w) (length (buf w))).

(** Hand-written serde: the serialized form is (buf, index). *)
Definition w_serialize (w : window) : list A * Z := (buf w, widx w).

Inductive deser_res := DOk (w : window) | DErr | DPanic (site : string).
Definition w_deserialize (s : list A * Z) : deser_res :=
  let '(b, index) := s in
  let len := Z.of_nat (length b) in
  if negb (0 <=? index) || negb (index <=? pmax) then DErr  (* u8 field does not parse *)
  else if pmax - 1 <? len then DErr
  else if (wrap_cast len <=? index) && negb ((len =? 0) && (index =? 0)) then DErr
  else match w_from_parts b index with
       | Ok w => DOk w | Err _ => DErr | Panic s => DPanic s end.

End Window.
Arguments window : clear implicits.
Arguments mkW {A}.
