(** Refinement of the ring buffer model to a list (C01).
    [wseq w] is the window content oldest first, [content w] newest first. *)
From Yata Require Import Base.Prelude Core.Window.
From Coq Require Import ZifyBool.
Ltac Zify.zify_post_hook ::= Z.div_mod_to_equations.

Lemma mod_pred a n : 0 < n ->
  (a - 1) mod n = if a mod n =? 0 then n - 1 else a mod n - 1.
Proof.
  intros Hn. pose proof (Z.div_mod a n ltac:(lia)) as Hd.
  pose proof (Z.mod_pos_bound a n Hn) as Hb.
  destruct (Z.eqb_spec (a mod n) 0) as [E|E]; symmetry.
  - apply Z.mod_unique with (q := a / n - 1); [lia|].
    replace (n * (a / n - 1)) with (n * (a / n) - n) by ring. lia.
  - apply Z.mod_unique with (q := a / n); lia.
Qed.

Lemma mod_succ a n : 0 < n ->
  (a + 1) mod n = if a mod n =? n - 1 then 0 else a mod n + 1.
Proof.
  intros Hn. pose proof (Z.div_mod a n ltac:(lia)) as Hd.
  pose proof (Z.mod_pos_bound a n Hn) as Hb.
  destruct (Z.eqb_spec (a mod n) (n - 1)) as [E|E]; symmetry.
  - apply Z.mod_unique with (q := a / n + 1); [lia|].
    replace (n * (a / n + 1)) with (n * (a / n) + n) by ring. lia.
  - apply Z.mod_unique with (q := a / n); lia.
Qed.

Section WindowSpec.
Context {pw : PW}.
Context {A : Type}.
Hypothesis pmax_ge : 2 <= pmax.

Definition rot (b : list A) (i : nat) : list A := skipn i b ++ firstn i b.
Definition wseq (w : window A) : list A := rot (buf w) (Z.to_nat (widx w)).
Definition content (w : window A) : list A := rev (wseq w).

Definition wf (w : window A) : Prop :=
  wsize w = Z.of_nat (length (buf w)) /\ wsize w <= pmax - 1 /\
  ws1 w = Z.max 0 (wsize w - 1) /\
  (0 <= widx w < wsize w \/ (wsize w = 0 /\ widx w = 0)).

Lemma rot_length b i : length (rot b i) = length b.
Proof. unfold rot. rewrite app_length, skipn_length, firstn_length. lia. Qed.

Lemma wseq_length w : length (wseq w) = length (buf w).
Proof. apply rot_length. Qed.
Lemma content_length w : length (content w) = length (buf w).
Proof. unfold content. rewrite rev_length. apply wseq_length. Qed.

Lemma nth_error_rot b i j :
  (i < length b)%nat -> (j < length b)%nat ->
  nth_error (rot b i) j = nth_error b ((i + j) mod length b)%nat.
Proof.
  intros Hi Hj. unfold rot.
  destruct (Nat.ltb_spec j (length b - i)) as [H|H].
  - rewrite nth_error_app1 by (rewrite skipn_length; lia).
    rewrite nth_error_skipn. f_equal. rewrite Nat.mod_small; lia.
  - rewrite nth_error_app2 by (rewrite skipn_length; lia).
    rewrite skipn_length. rewrite nth_error_firstn.
    replace ((i + j) mod length b)%nat with (j - (length b - i))%nat.
    + destruct (Nat.ltb_spec (j - (length b - i)) i); auto; lia.
    + symmetry. rewrite (Nat.mod_unique (i + j) (length b) 1 (j - (length b - i))); auto; lia.
Qed.

(** ** new *)
Lemma new_spec n v : 0 <= n <= pmax - 1 ->
  exists w, w_new n v = Ok w /\ wf w /\ wseq w = repeat v (Z.to_nat n) /\ wsize w = n.
Proof.
  intros Hn. unfold w_new. destruct (Z.leb_spec n (pmax - 1)); try lia.
  eexists; split; [reflexivity|]. unfold wf, wseq, rot, sat_sub; simpl.
  rewrite repeat_length, app_nil_r. repeat split; try lia.
Qed.

Lemma new_rejects n (v : A) : pmax - 1 < n -> is_panic (w_new n v) = true.
Proof. intros H. unfold w_new. destruct (Z.leb_spec n (pmax - 1)); auto; lia. Qed.

Lemma rev_repeat (v : A) n : rev (repeat v n) = repeat v n.
Proof. induction n; simpl; auto. rewrite IHn. clear.
  induction n; simpl; auto. f_equal; auto. Qed.

(** ** push *)
Lemma push_spec w x : wf w -> 0 < wsize w ->
  exists w' old, w_push w x = Ok (w', old) /\ wf w' /\ wsize w' = wsize w /\
    wseq w = old :: tl (wseq w) /\ wseq w' = tl (wseq w) ++ [x].
Proof.
  intros (Hs & Hm & H1 & Hi) Hpos. unfold w_push, w_is_empty.
  destruct (buf w) as [|b0 bt] eqn:Eb; [simpl in Hs; lia|]. rewrite <- Eb in *.
  assert (Hlt : (Z.to_nat (widx w) < length (buf w))%nat) by lia.
  destruct (nth_error (buf w) (Z.to_nat (widx w))) as [old|] eqn:En;
    [|apply nth_error_None in En; lia].
  destruct (Z.ltb_spec pmax (widx w + 1)); [lia|].
  eexists _, old. split; [reflexivity|].
  set (i := Z.to_nat (widx w)) in *.
  assert (Hsplit : buf w = firstn i (buf w) ++ old :: skipn (S i) (buf w)).
  { rewrite <- (firstn_skipn i (buf w)) at 1. f_equal.
    rewrite <- (firstn_skipn i (buf w)) in En.
    rewrite nth_error_app2 in En by (rewrite firstn_length; lia).
    rewrite firstn_length, Nat.min_l, Nat.sub_diag in En by lia.
    destruct (skipn i (buf w)) as [|y ys] eqn:Es; simpl in En; [discriminate|].
    injection En as ->. f_equal.
    replace (S i) with (1 + i)%nat by lia. rewrite <- skipn_skipn, Es. reflexivity. }
  assert (Hseq : wseq w = old :: skipn (S i) (buf w) ++ firstn i (buf w)).
  { unfold wseq, rot. fold i. rewrite Hsplit at 1.
    rewrite skipn_app, firstn_length, Nat.min_l, Nat.sub_diag by lia.
    rewrite skipn_all2 by (rewrite firstn_length; lia). reflexivity. }
  assert (Hfl : length (firstn i (buf w)) = i) by (rewrite firstn_length; lia).
  unfold wf. cbn [buf widx wsize ws1]. rewrite set_nth_length.
  destruct (Z.eqb_spec (widx w) (ws1 w)) as [He|He]; cbn [negb].
  - (* wrap-around *)
    repeat split; try lia.
    + rewrite Hseq. reflexivity.
    + rewrite Hseq. cbn [tl]. unfold wseq, rot. cbn [buf widx].
      assert (Hsk : skipn (S i) (buf w) = []) by (apply skipn_all2; lia).
      rewrite Hsk. replace (Z.to_nat (0 * (widx w + 1))) with O by lia.
      rewrite skipn_O, firstn_O, app_nil_r.
      rewrite set_nth_split by lia. fold i. rewrite Hsk. reflexivity.
  - repeat split; try lia.
    + rewrite Hseq. reflexivity.
    + rewrite Hseq. cbn [tl]. unfold wseq, rot. cbn [buf widx].
      replace (Z.to_nat (1 * (widx w + 1))) with (S i) by lia.
      rewrite set_nth_split by lia. fold i.
      rewrite skipn_app, Hfl.
      rewrite (skipn_all2 (firstn i (buf w))) by lia.
      replace (S i - i)%nat with 1%nat by lia. cbn [skipn app].
      rewrite firstn_app, Hfl.
      rewrite (firstn_all2 (firstn i (buf w))) by lia.
      replace (S i - i)%nat with 1%nat by lia. cbn [firstn]. rewrite <- app_assoc. reflexivity.
Qed.

Lemma push_content w x : wf w -> 0 < wsize w ->
  exists w' old, w_push w x = Ok (w', old) /\ wf w' /\ wsize w' = wsize w /\
    content w' = x :: removelast (content w) /\
    last (content w) old = old /\ nth_error (content w) (length (content w) - 1) = Some old.
Proof.
  intros Hwf Hpos. destruct (push_spec w x Hwf Hpos) as (w' & old & Hp & Hwf' & Hsz & Hs & Hs').
  exists w', old. split; [exact Hp|]. split; [exact Hwf'|]. split; [exact Hsz|].
  split; [|split].
  - unfold content. rewrite Hs', rev_app_distr. simpl. f_equal.
    rewrite Hs at 2. simpl. rewrite removelast_last. reflexivity.
  - unfold content. rewrite Hs. simpl. apply last_last.
  - unfold content. rewrite Hs. simpl. rewrite app_length. simpl.
    rewrite nth_error_app2 by lia. replace (_ - _)%nat with O by lia. reflexivity.
Qed.

Lemma push_empty_panics w (x : A) : buf w = [] -> is_panic (w_push w x) = true.
Proof. intros H. unfold w_push, w_is_empty. rewrite H. reflexivity. Qed.

(** Many pushes: the state after pushing [xs] (oldest first) holds the last
    [n] elements of [repeat v n ++ xs]; each push returns the element pushed
    [n] steps before. *)
Fixpoint w_pushes (w : window A) (xs : list A) : outcome (window A * list A) :=
  match xs with
  | [] => Ok (w, [])
  | x :: r => do p <- w_push w x; let '(w1, old) := p in
              do q <- w_pushes w1 r; let '(w2, olds) := q in Ok (w2, old :: olds)
  end.

Lemma pushes_spec xs : forall w, wf w -> 0 < wsize w ->
  exists w' olds, w_pushes w xs = Ok (w', olds) /\ wf w' /\ wsize w' = wsize w /\
    wseq w ++ xs = olds ++ wseq w' /\ length olds = length xs.
Proof.
  induction xs as [|x r IH]; intros w Hwf Hpos; simpl.
  - exists w, []. rewrite app_nil_r. auto.
  - destruct (push_spec w x Hwf Hpos) as (w1 & old & Hp & Hwf1 & Hsz1 & Hs & Hs1).
    rewrite Hp. simpl.
    destruct (IH w1 Hwf1 ltac:(lia)) as (w2 & olds & Hps & Hwf2 & Hsz2 & Hcat & Hlen).
    rewrite Hps. simpl. exists w2, (old :: olds).
    split; [reflexivity|]. split; [exact Hwf2|]. split; [lia|]. split.
    + rewrite Hs. simpl. f_equal. rewrite <- Hcat, Hs1, <- app_assoc. reflexivity.
    + simpl; lia.
Qed.

Theorem pushes_from_new n v xs : 0 < n <= pmax - 1 ->
  exists w0 w' olds, w_new n v = Ok w0 /\ w_pushes w0 xs = Ok (w', olds) /\ wf w' /\
    repeat v (Z.to_nat n) ++ xs = olds ++ wseq w' /\
    length olds = length xs /\ length (wseq w') = Z.to_nat n.
Proof.
  intros Hn. destruct (new_spec n v ltac:(lia)) as (w0 & Hnew & Hwf0 & Hs0 & Hsz0).
  destruct (pushes_spec xs w0 Hwf0 ltac:(lia)) as (w' & olds & Hp & Hwf' & Hsz & Hcat & Hlen).
  exists w0, w', olds. split; [exact Hnew|]. split; [exact Hp|]. split; [exact Hwf'|].
  split; [|split; [exact Hlen|]].
  - rewrite <- Hs0. exact Hcat.
  - rewrite wseq_length. destruct Hwf' as (Hs & _). lia.
Qed.

(** ** observers *)
Lemma wf_idx_nat w : wf w -> 0 < wsize w ->
  (Z.to_nat (widx w) < length (buf w))%nat /\ ws1 w = wsize w - 1.
Proof. intros (Hs & Hm & H1 & Hi) Hpos. lia. Qed.

Lemma nth_wseq w j : wf w -> 0 <= j < wsize w ->
  nth_error (wseq w) (Z.to_nat j) =
  nth_error (buf w) (Z.to_nat ((widx w + j) mod wsize w)).
Proof.
  intros Hwf Hj. destruct (wf_idx_nat w Hwf ltac:(lia)) as (Hi & _).
  destruct Hwf as (Hs & Hm & H1 & Hidx).
  unfold wseq. rewrite nth_error_rot by lia. f_equal.
  rewrite Hs. rewrite <- (Nat2Z.id (_ mod _)%nat). f_equal.
  rewrite Nat2Z.inj_mod, Nat2Z.inj_add. rewrite !Z2Nat.id by lia. reflexivity.
Qed.

Lemma nth_content w i : wf w -> 0 <= i < wsize w ->
  nth_error (content w) (Z.to_nat i) =
  nth_error (buf w) (Z.to_nat ((widx w + (wsize w - 1 - i)) mod wsize w)).
Proof.
  intros Hwf Hi. unfold content.
  assert (Hl : length (wseq w) = Z.to_nat (wsize w)).
  { rewrite wseq_length. destruct Hwf as (Hs & _). lia. }
  rewrite nth_error_rev by lia. rewrite Hl.
  replace (Z.to_nat (wsize w) - S (Z.to_nat i))%nat with (Z.to_nat (wsize w - 1 - i)) by lia.
  apply nth_wseq; auto; lia.
Qed.

Lemma oldest_spec w : wf w -> 0 < wsize w ->
  exists v, w_oldest w = Ok v /\ hd_error (wseq w) = Some v.
Proof.
  intros Hwf Hpos. pose proof (nth_wseq w 0 Hwf ltac:(lia)) as H.
  rewrite Z.add_0_r, Z.mod_small in H by (destruct Hwf as (?&?&?&?); lia).
  unfold w_oldest. simpl in H. destruct (wseq w) as [|s0 st] eqn:Es.
  - pose proof (wseq_length w) as Hl. rewrite Es in Hl. destruct Hwf as (?&_). simpl in Hl; lia.
  - simpl in H. rewrite <- H. eauto.
Qed.

Lemma newest_spec w : wf w -> 0 < wsize w ->
  exists v, w_newest w = Ok v /\ hd_error (content w) = Some v.
Proof.
  intros Hwf Hpos. pose proof (nth_content w 0 Hwf ltac:(lia)) as H.
  destruct (wf_idx_nat w Hwf Hpos) as (_ & H1).
  assert (Hs : wsize w = Z.of_nat (length (buf w))) by (destruct Hwf as (?&_); auto).
  assert (Hix : 0 <= widx w < wsize w) by (destruct Hwf as (?&?&?&[?|?]); lia).
  unfold w_newest.
  replace (Z.to_nat (if widx w - 1 <? 0 then ws1 w else widx w - 1))
    with (Z.to_nat ((widx w + (wsize w - 1 - 0)) mod wsize w)).
  - destruct (content w) as [|c0 ct] eqn:Ec.
    + pose proof (content_length w) as Hl. rewrite Ec in Hl. simpl in Hl; lia.
    + simpl in H. rewrite <- H. eauto.
  - f_equal. destruct (Z.ltb_spec (widx w - 1) 0).
    + replace (widx w) with 0 by lia. rewrite Z.mod_small; lia.
    + replace (widx w + (wsize w - 1 - 0)) with (widx w - 1 + 1 * wsize w) by lia.
      rewrite Z.mod_add, Z.mod_small; lia.
Qed.

Lemma slice_index_spec w i : wf w -> 0 < wsize w -> 0 <= i <= pmax ->
  w_slice_index w i =
    Ok (if (i <? wsize w) then Some ((widx w + (wsize w - 1 - i)) mod wsize w) else None).
Proof.
  intros (Hs & Hm & H1 & Hidx) Hpos Hi. unfold w_slice_index, sat_add, sat_sub.
  destruct (Z.ltb_spec (ws1 w - i) 0) as [Hlt|Hge].
  - destruct (Z.ltb_spec i (wsize w)); auto. lia.
  - destruct (Z.ltb_spec i (wsize w)) as [Hlt2|Hge2].
    + destruct (Z.ltb_spec (wsize w - widx w) 0); [lia|].
      f_equal. f_equal.
      destruct (Z.leb_spec (wsize w) (Z.min pmax (widx w + (ws1 w - i)))) as [Ho|Ho].
      * replace (widx w + (wsize w - 1 - i)) with
          ((widx w + (wsize w - 1 - i) - wsize w) + 1 * wsize w) by lia.
        rewrite Z.mod_add, Z.mod_small by lia. lia.
      * rewrite Z.mod_small by lia. lia.
    + lia.
Qed.

(* size = 0 and i = 0 : slice_index yields Some 0 (s_1 saturates to 0); the
   subsequent [buf.get] is what returns None.  Stated separately. *)
Lemma slice_index_empty w : wf w -> wsize w = 0 -> w_slice_index w 0 = Ok (Some 0).
Proof.
  intros (Hs & Hm & H1 & Hidx) Hz. unfold w_slice_index, sat_add, sat_sub.
  destruct (Z.ltb_spec (ws1 w - 0) 0); [lia|].
  destruct (Z.ltb_spec (wsize w - widx w) 0); [lia|].
  f_equal. f_equal. destruct (Z.leb_spec (wsize w) (Z.min pmax (widx w + (ws1 w - 0)))); lia.
Qed.

Theorem get_spec w i : wf w -> 0 <= i <= pmax ->
  w_get w i = Ok (nth_error (content w) (Z.to_nat i)).
Proof.
  intros Hwf Hi. unfold w_get.
  destruct (Z.eq_dec (wsize w) 0) as [Hz|Hnz].
  - assert (Hb : buf w = []).
    { destruct Hwf as (Hs & _). destruct (buf w); auto. simpl in Hs; lia. }
    assert (Hc : content w = []).
    { apply length_zero_iff_nil. rewrite content_length, Hb. reflexivity. }
    rewrite Hc. destruct (Z.eq_dec i 0) as [->|Hi0].
    + rewrite slice_index_empty by auto. simpl. rewrite Hb. reflexivity.
    + unfold w_slice_index. destruct Hwf as (Hs & Hm & H1 & Hidx).
      destruct (Z.ltb_spec (ws1 w - i) 0); [|lia]. simpl.
      destruct (Z.to_nat i); reflexivity.
  - assert (Hpos : 0 < wsize w) by (destruct Hwf as (?&?&?&?); lia).
    rewrite slice_index_spec by auto. simpl.
    destruct (Z.ltb_spec i (wsize w)).
    + rewrite nth_content by (auto; lia). reflexivity.
    + symmetry. f_equal. apply nth_error_None. rewrite content_length.
      destruct Hwf as (Hs & _). lia.
Qed.

Theorem index_spec w i : wf w -> 0 <= i <= pmax ->
  match nth_error (content w) (Z.to_nat i) with
  | Some v => w_index w i = Ok v
  | None => is_panic (w_index w i) = true
  end.
Proof.
  intros Hwf Hi. pose proof (get_spec w i Hwf Hi) as Hg. unfold w_get in Hg. unfold w_index.
  destruct (w_slice_index w i) as [[k|]|e|s]; simpl in *; try discriminate.
  - injection Hg as Hg. rewrite <- Hg. destruct (nth_error (buf w) (Z.to_nat k)); reflexivity.
  - injection Hg as Hg. rewrite <- Hg. reflexivity.
Qed.

(** ** iterators *)
Definition it_inv (w : window A) (it : witer) (t : Z) : Prop :=
  0 <= t <= wsize w /\ it_size it = wsize w - t /\
  (0 < wsize w -> it_idx it = (widx w - t) mod wsize w).

Lemma skipn_cons_nth (l : list A) t v : nth_error l t = Some v ->
  skipn t l = v :: skipn (S t) l.
Proof. revert t; induction l as [|h r IH]; intros [|t] H; simpl in *; try discriminate.
  - injection H as ->. reflexivity.
  - apply IH; auto. Qed.

Lemma it_take_spec w : wf w -> forall k it t, it_inv w it t ->
  exists it', it_take it_next w it k = Ok (it', firstn k (skipn (Z.to_nat t) (content w))) /\
    it_inv w it' (Z.min (wsize w) (t + Z.of_nat k)).
Proof.
  intros Hwf. induction k as [|k IH]; intros it t (Ht & Hsz & Hix).
  - simpl. exists it. split; auto. replace (Z.min _ _) with t by lia. repeat split; auto; lia.
  - cbn [it_take]. unfold it_next at 1.
    assert (Hlen : length (content w) = Z.to_nat (wsize w)).
    { rewrite content_length. destruct Hwf as (Hs & _). lia. }
    destruct (Z.eqb_spec (it_size it) 0) as [Hz|Hnz].
    + simpl. exists it. rewrite skipn_all2 by lia. rewrite ?firstn_nil. split; auto.
      replace (Z.min _ _) with t by lia. repeat split; auto; lia.
    + assert (Hpos : 0 < wsize w) by lia. specialize (Hix Hpos).
      destruct (wf_idx_nat w Hwf Hpos) as (_ & H1).
      assert (Hrange : 0 <= widx w < wsize w) by (destruct Hwf as (?&?&?&[?|?]); lia).
      assert (Hm : wsize w <= pmax - 1) by (destruct Hwf as (?&?&?&?); lia).
      set (idx' := sat_sub (it_idx it) 1 + (if it_idx it =? 0 then 1 else 0) * ws1 w).
      assert (Hidx' : idx' = (widx w - (t + 1)) mod wsize w).
      { unfold idx', sat_sub. replace (widx w - (t + 1)) with (widx w - t - 1) by lia.
        rewrite mod_pred by lia. rewrite <- Hix.
        destruct (Z.eqb_spec (it_idx it) 0) as [H0|H0]; lia. }
      fold idx'.
      assert (Hb : 0 <= idx' < wsize w) by (rewrite Hidx'; apply Z.mod_pos_bound; lia).
      destruct (Z.ltb_spec pmax idx'); [lia|].
      assert (Hnth : nth_error (content w) (Z.to_nat t) = nth_error (buf w) (Z.to_nat idx')).
      { rewrite nth_content by (auto; lia). f_equal. f_equal. rewrite Hidx'.
        replace (widx w + (wsize w - 1 - t)) with (widx w - (t + 1) + 1 * wsize w) by lia.
        rewrite Z.mod_add by lia. reflexivity. }
      destruct (nth_error (buf w) (Z.to_nat idx')) as [v|] eqn:En.
      2:{ apply nth_error_None in En. destruct Hwf as (Hs & _). lia. }
      cbn [obind].
      destruct (IH (mkIt idx' (it_size it - 1)) (t + 1)) as (it' & Htk & Hinv').
      { split; [lia|]. split; [simpl; lia|]. intros _; exact Hidx'. }
      rewrite Htk. cbn [obind]. exists it'. split.
      * f_equal. f_equal. rewrite (skipn_cons_nth _ _ v Hnth). cbn [firstn]. f_equal.
        replace (S (Z.to_nat t)) with (Z.to_nat (t + 1)) by lia. reflexivity.
      * replace (Z.min (wsize w) (t + Z.of_nat (S k))) with
          (Z.min (wsize w) (t + 1 + Z.of_nat k)) by lia. exact Hinv'.
Qed.

Lemma it_inv_init w : wf w -> it_inv w (w_iter w) 0.
Proof. intros (Hs & Hm & H1 & Hidx). unfold it_inv, w_iter; simpl. repeat split; try lia.
  intros Hp. rewrite Z.sub_0_r, Z.mod_small; lia. Qed.

Theorem iter_take w k : wf w ->
  exists it', it_take it_next w (w_iter w) k = Ok (it', firstn k (content w)) /\
    it_size_hint it' = Z.max 0 (wsize w - Z.of_nat k) /\ it_count it' = it_size_hint it'.
Proof.
  intros Hwf. destruct (it_take_spec w Hwf k _ 0 (it_inv_init w Hwf)) as (it' & Htk & Hinv).
  exists it'. simpl in Htk. split; auto. destruct Hinv as (Ht & Hsz & _).
  unfold it_size_hint, it_count. split; lia.
Qed.

Theorem iter_all w : wf w -> w_iter_all w = Ok (content w).
Proof.
  intros Hwf. unfold w_iter_all.
  destruct (iter_take w (length (buf w)) Hwf) as (it' & Htk & _). rewrite Htk. simpl.
  rewrite firstn_all2; auto. rewrite content_length. lia.
Qed.

(** [last] of a partially consumed forward iterator: the oldest element iff
    anything is left. *)
Theorem iter_last w k : wf w ->
  exists it', it_take it_next w (w_iter w) k = Ok (it', firstn k (content w)) /\
    it_last w it' = Ok (if Z.of_nat k <? wsize w then
                          nth_error (content w) (length (content w) - 1) else None).
Proof.
  intros Hwf. destruct (it_take_spec w Hwf k _ 0 (it_inv_init w Hwf)) as (it' & Htk & Hinv).
  exists it'. simpl in Htk. split; auto. destruct Hinv as (Ht & Hsz & _).
  unfold it_last. destruct (Z.ltb_spec (Z.of_nat k) (wsize w)) as [Hlt|Hge].
  - destruct (Z.eqb_spec (it_size it') 0); [lia|].
    destruct (oldest_spec w Hwf ltac:(lia)) as (v & Ho & Hh). rewrite Ho. simpl. f_equal.
    unfold content. rewrite rev_length.
    destruct (wseq w) as [|s0 st]; simpl in *; [discriminate|]. injection Hh as ->.
    rewrite nth_error_app2 by (rewrite rev_length; lia).
    rewrite rev_length. replace (_ - _)%nat with O by lia. reflexivity.
  - destruct (Z.eqb_spec (it_size it') 0); [reflexivity|lia].
Qed.

(** reverse iterator *)
Definition rit_inv (w : window A) (it : witer) (t : Z) : Prop :=
  0 <= t <= wsize w /\ it_size it = wsize w - t /\
  (0 < wsize w -> it_idx it = (widx w + t) mod wsize w).

Lemma rit_take_spec w : wf w -> forall k it t, rit_inv w it t ->
  exists it', it_take rit_next w it k = Ok (it', firstn k (skipn (Z.to_nat t) (wseq w))) /\
    rit_inv w it' (Z.min (wsize w) (t + Z.of_nat k)).
Proof.
  intros Hwf. induction k as [|k IH]; intros it t (Ht & Hsz & Hix).
  - simpl. exists it. split; auto. replace (Z.min _ _) with t by lia. repeat split; auto; lia.
  - cbn [it_take]. unfold rit_next at 1.
    assert (Hlen : length (wseq w) = Z.to_nat (wsize w)).
    { rewrite wseq_length. destruct Hwf as (Hs & _). lia. }
    destruct (Z.eqb_spec (it_size it) 0) as [Hz|Hnz].
    + simpl. exists it. rewrite skipn_all2 by lia. rewrite ?firstn_nil. split; auto.
      replace (Z.min _ _) with t by lia. repeat split; auto; lia.
    + assert (Hpos : 0 < wsize w) by lia. specialize (Hix Hpos).
      destruct (wf_idx_nat w Hwf Hpos) as (_ & H1).
      assert (Hm : wsize w <= pmax - 1) by (destruct Hwf as (?&?&?&?); lia).
      assert (Hb : 0 <= it_idx it < wsize w) by (rewrite Hix; apply Z.mod_pos_bound; lia).
      assert (Hnth : nth_error (wseq w) (Z.to_nat t) = nth_error (buf w) (Z.to_nat (it_idx it))).
      { rewrite nth_wseq by (auto; lia). rewrite Hix. reflexivity. }
      destruct (nth_error (buf w) (Z.to_nat (it_idx it))) as [v|] eqn:En.
      2:{ apply nth_error_None in En. destruct Hwf as (Hs & _). lia. }
      destruct (Z.ltb_spec pmax (it_idx it + 1)); [lia|].
      cbn [obind].
      set (idx' := (it_idx it + 1) * (if negb (it_idx it =? ws1 w) then 1 else 0)).
      assert (Hidx' : idx' = (widx w + (t + 1)) mod wsize w).
      { unfold idx'. replace (widx w + (t + 1)) with ((widx w + t) + 1) by lia.
        rewrite mod_succ by lia. rewrite <- Hix, <- H1.
        destruct (Z.eqb_spec (it_idx it) (ws1 w)) as [He|He]; simpl; lia. }
      destruct (IH (mkIt idx' (it_size it - 1)) (t + 1)) as (it' & Htk & Hinv').
      { split; [lia|]. split; [simpl; lia|]. intros _; exact Hidx'. }
      rewrite Htk. cbn [obind]. exists it'. split.
      * f_equal. f_equal. rewrite (skipn_cons_nth _ _ v Hnth). cbn [firstn]. f_equal.
        replace (S (Z.to_nat t)) with (Z.to_nat (t + 1)) by lia. reflexivity.
      * replace (Z.min (wsize w) (t + Z.of_nat (S k))) with
          (Z.min (wsize w) (t + 1 + Z.of_nat k)) by lia. exact Hinv'.
Qed.

Lemma rit_inv_init w : wf w -> rit_inv w (w_iter w) 0.
Proof. intros (Hs & Hm & H1 & Hidx). unfold rit_inv, w_iter; simpl. repeat split; try lia.
  intros Hp. rewrite Z.add_0_r, Z.mod_small; lia. Qed.

Theorem iter_rev_take w k : wf w ->
  exists it', it_take rit_next w (w_iter w) k = Ok (it', firstn k (rev (content w))) /\
    it_size_hint it' = Z.max 0 (wsize w - Z.of_nat k) /\ it_count it' = it_size_hint it' /\
    rit_last w it' = Ok (if Z.of_nat k <? wsize w then hd_error (content w) else None).
Proof.
  intros Hwf. destruct (rit_take_spec w Hwf k _ 0 (rit_inv_init w Hwf)) as (it' & Htk & Hinv).
  exists it'. simpl in Htk. unfold content. rewrite rev_involutive. split; auto.
  destruct Hinv as (Ht & Hsz & _). unfold it_size_hint, it_count. repeat split; try lia.
  unfold rit_last. destruct (Z.ltb_spec (Z.of_nat k) (wsize w)) as [Hlt|Hge].
  - destruct (Z.eqb_spec (it_size it') 0); [lia|].
    destruct (newest_spec w Hwf ltac:(lia)) as (v & Hn & Hh). rewrite Hn. simpl. f_equal.
    symmetry. exact Hh.
  - destruct (Z.eqb_spec (it_size it') 0); [reflexivity|lia].
Qed.

Theorem iter_rev_all w : wf w -> w_iter_rev_all w = Ok (rev (content w)).
Proof.
  intros Hwf. unfold w_iter_rev_all.
  destruct (iter_rev_take w (length (buf w)) Hwf) as (it' & Htk & _). rewrite Htk. simpl.
  rewrite firstn_all2; auto. rewrite rev_length, content_length. lia.
Qed.

(** The empty window never yields an element. *)
Theorem empty_yields_nothing (x : A) i k : 0 <= i <= pmax ->
  let e : window A := w_empty in
  wf e /\ w_get e i = Ok None /\ is_panic (w_index e i) = true /\
  is_panic (w_push e x) = true /\ is_panic (w_newest e) = true /\
  is_panic (w_oldest e) = true /\
  (exists it, it_take it_next e (w_iter e) k = Ok (it, [])) /\
  (exists it, it_take rit_next e (w_iter e) k = Ok (it, [])) /\
  it_last e (w_iter e) = Ok None /\ rit_last e (w_iter e) = Ok None.
Proof.
  intros Hi e.
  assert (Hwf : wf e) by (unfold wf, e, w_empty; simpl; lia).
  split; auto. split.
  { rewrite get_spec by auto. simpl. destruct (Z.to_nat i); reflexivity. }
  split.
  { pose proof (index_spec e i Hwf Hi) as H. simpl in H.
    destruct (Z.to_nat i); exact H. }
  repeat split; try reflexivity.
  - exists (w_iter e). destruct k; reflexivity.
  - exists (w_iter e). destruct k; reflexivity.
Qed.

(** ** from_parts and the hand-written serde *)
Theorem from_parts_spec (b : list A) idx :
  Z.of_nat (length b) <= pmax - 1 ->
  (0 <= idx < Z.of_nat (length b) \/ (b = [] /\ idx = 0)) ->
  exists w, w_from_parts b idx = Ok w /\ wf w /\ wseq w = rot b (Z.to_nat idx) /\
    buf w = b /\ widx w = idx.
Proof.
  intros Hl Hi. unfold w_from_parts, wrap_cast.
  destruct (Z.ltb_spec (Z.of_nat (length b)) pmax); [|lia]. cbn [negb].
  assert (Hc : negb (idx <? Z.of_nat (length b)) &&
               negb ((Z.of_nat (length b) =? 0) && (idx =? 0)) = false).
  { destruct Hi as [Hi|(-> & ->)]; [|reflexivity].
    destruct (Z.ltb_spec idx (Z.of_nat (length b))); [reflexivity|lia]. }
  rewrite Hc.
  eexists; split; [reflexivity|]. unfold wf, wseq, sat_sub; simpl.
  rewrite Z.mod_small by lia. repeat split; try lia.
Qed.

Theorem from_parts_rejects (b : list A) idx :
  pmax <= Z.of_nat (length b) \/ (Z.of_nat (length b) <= idx /\ ~ (b = [] /\ idx = 0)) ->
  is_panic (w_from_parts b idx) = true.
Proof.
  intros H. unfold w_from_parts.
  destruct (Z.ltb_spec (Z.of_nat (length b)) pmax); simpl; auto.
  destruct H as [H|(H & Hn)]; [lia|].
  destruct (Z.ltb_spec idx (Z.of_nat (length b))); [lia|]. cbn [negb andb].
  destruct (Z.eqb_spec (Z.of_nat (length b)) 0) as [E|E]; [|reflexivity].
  destruct (Z.eqb_spec idx 0) as [E2|E2]; [|reflexivity].
  exfalso. apply Hn. split; auto. destruct b; auto. simpl in E; lia.
Qed.

Theorem from_parts_roundtrip w : wf w ->
  w_from_parts (w_as_slice w) (widx w) = Ok w.
Proof.
  intros Hwf. pose proof Hwf as (Hs & Hm & H1 & Hidx). unfold w_as_slice.
  destruct (from_parts_spec (buf w) (widx w)) as (w' & Hfp & Hwf' & _ & Hb & Hi).
  - lia.
  - destruct Hidx as [Hidx|(Hz & Hi0)]; [left; lia|right].
    split; auto. destruct (buf w); auto. simpl in Hs; lia.
  - rewrite Hfp. f_equal. destruct Hwf' as (Hs' & _ & H1' & _).
    destruct w as [b i s s1]; destruct w' as [b' i' s' s1']; simpl in *. subst.
    f_equal; lia.
Qed.

Theorem deser_ser w : wf w -> w_deserialize (w_serialize w) = DOk w.
Proof.
  intros Hwf. pose proof (from_parts_roundtrip w Hwf) as Hrt.
  destruct Hwf as (Hs & Hm & H1 & Hidx).
  unfold w_deserialize, w_serialize, wrap_cast.
  destruct (Z.leb_spec 0 (widx w)); [|lia]. destruct (Z.leb_spec (widx w) pmax); [|lia]. simpl.
  destruct (Z.ltb_spec (pmax - 1) (Z.of_nat (length (buf w)))); [lia|].
  rewrite Z.mod_small by lia.
  assert (Hc : (Z.of_nat (length (buf w)) <=? widx w) &&
               negb ((Z.of_nat (length (buf w)) =? 0) && (widx w =? 0)) = false).
  { destruct Hidx as [Hidx|(Hz & Hi0)].
    - destruct (Z.leb_spec (Z.of_nat (length (buf w))) (widx w)); [lia|reflexivity].
    - rewrite Hi0, <- Hs, Hz. reflexivity. }
  rewrite Hc. unfold w_as_slice in Hrt. rewrite Hrt. reflexivity.
Qed.

(** Whatever is fed to [deserialize]: never a panic, and anything accepted is
    a well-formed window representing exactly the given buffer rotated at the
    given index. *)
Definition parts_ok (b : list A) (idx : Z) : Prop :=
  Z.of_nat (length b) <= pmax - 1 /\ (0 <= idx < Z.of_nat (length b) \/ (b = [] /\ idx = 0)).

Theorem deser_total (b : list A) idx :
  match w_deserialize (b, idx) with
  | DOk w => wf w /\ buf w = b /\ widx w = idx /\ parts_ok b idx
  | DErr => ~ parts_ok b idx
  | DPanic _ => False
  end.
Proof.
  unfold w_deserialize, wrap_cast, parts_ok.
  destruct (Z.leb_spec 0 idx); simpl; [|intros (? & [?|(? & ?)]); lia].
  destruct (Z.leb_spec idx pmax); simpl; [|intros (? & [?|(? & ?)]); lia].
  destruct (Z.ltb_spec (pmax - 1) (Z.of_nat (length b))); [lia|].
  rewrite Z.mod_small by lia.
  destruct (Z.leb_spec (Z.of_nat (length b)) idx) as [Hle|Hlt]; cbn [andb].
  - destruct (Z.eqb_spec (Z.of_nat (length b)) 0) as [E|E]; cbn [andb negb].
    + destruct (Z.eqb_spec idx 0) as [E2|E2]; cbn [negb].
      * assert (b = []) by (destruct b; auto; simpl in E; lia). subst.
        destruct (from_parts_spec [] 0) as (w & Hfp & Hwf & _ & Hb & Hi); simpl; try lia.
        { right; auto. }
        rewrite Hfp. split; [exact Hwf|]. split; [exact Hb|]. split; [exact Hi|].
        split; [lia|right; auto].
      * intros (? & [?|(? & ?)]); lia.
    + intros (? & [?|(-> & ?)]); [lia|simpl in E; lia].
  - destruct (from_parts_spec b idx) as (w & Hfp & Hwf & _ & Hb & Hi); try lia.
    rewrite Hfp. split; [exact Hwf|]. repeat split; auto; lia.
Qed.

End WindowSpec.
