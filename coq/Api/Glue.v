(** Model of the API glue of src/core/method.rs, src/core/sequence.rs,
    src/helpers/history.rs and the indicator-level over/init_fn: each function
    is given its own definition mirroring the source; the theorems say they
    all produce the plain next-loop outputs ([run]). *)
From Yata Require Import Base.Prelude Spec.Hist.

Section Glue.
Context {S I O : Type}.
Variable new : I -> outcome S.
Variable next : S -> I -> S * O.

(** Sequence::call : self.as_ref().iter().map(|x| method.next(x)).collect(), returning the advanced state too *)
Fixpoint seq_call (s : S) (xs : list I) : S * list O :=
  match xs with
  | [] => (s, [])
  | x :: r => let '(s1, y) := next s x in let '(s2, ys) := seq_call s1 r in (s2, y :: ys)
  end.
Definition m_over := seq_call.                  (* Method::over = inputs.call(self) *)
(** Method::new_over : empty input -> Ok(empty); else new(params, first) then call *)
Definition m_new_over (xs : list I) : outcome (list O) :=
  match xs with
  | [] => Ok []
  | x0 :: _ => do s <- new x0; Ok (snd (seq_call s xs))
  end.
(** into_fn / new_fn : a closure capturing the instance; calling it is [next] *)
Definition fn_calls := seq_call.
(** evaluation chunk by chunk (repeated over / IndicatorInstance::over) *)
Fixpoint chunked (s : S) (chunks : list (list I)) : S * list O :=
  match chunks with
  | [] => (s, [])
  | c :: r => let '(s1, ys) := seq_call s c in let '(s2, zs) := chunked s1 r in (s2, ys ++ zs)
  end.

Lemma seq_call_run s xs : seq_call s xs = (steps next s xs, run next s xs).
Proof.
  revert s; induction xs as [|x r IH]; intros s; [reflexivity|].
  cbn [seq_call run]. destruct (next s x) as [s1 y] eqn:E. rewrite IH.
  unfold steps. cbn [fold_left]. rewrite E. reflexivity.
Qed.

Theorem over_is_run s xs : snd (m_over s xs) = run next s xs /\ length (snd (m_over s xs)) = length xs.
Proof. unfold m_over. rewrite seq_call_run. split; [reflexivity|apply run_length]. Qed.

Theorem new_over_is_run x0 r s : new x0 = Ok s -> m_new_over (x0 :: r) = Ok (run next s (x0 :: r)).
Proof. intros H. unfold m_new_over. rewrite H. cbn [obind]. rewrite seq_call_run. reflexivity. Qed.
Theorem new_over_empty : m_new_over [] = Ok [].
Proof. reflexivity. Qed.

(** however the stream is cut into consecutive chunks (empty ones included) *)
Theorem chunked_is_run chunks : forall s,
  chunked s chunks = (steps next s (concat chunks), run next s (concat chunks)).
Proof.
  induction chunks as [|c r IH]; intros s; [reflexivity|].
  cbn [chunked concat]. rewrite seq_call_run, IH, run_app, steps_app. reflexivity.
Qed.

(** WithHistory : the wrapped instance plus the list of its outputs *)
Definition wh_next (st : S * list O) (x : I) : (S * list O) * O :=
  let '(s1, y) := next (fst st) x in ((s1, snd st ++ [y]), y).
Theorem with_history_is_run s xs :
  run wh_next (s, []) xs = run next s xs /\ snd (steps wh_next (s, []) xs) = run next s xs.
Proof.
  assert (G : forall xs s h, run wh_next (s, h) xs = run next s xs /\
                             snd (steps wh_next (s, h) xs) = h ++ run next s xs).
  { clear. induction xs as [|x r IH]; intros s h.
    - split; [reflexivity|]. cbn. rewrite app_nil_r. reflexivity.
    - cbn [run]. unfold wh_next at 1. cbn [fst snd]. destruct (next s x) as [s1 y] eqn:E.
      destruct (IH s1 (h ++ [y])) as (G1 & G2). split; [rewrite G1; reflexivity|].
      unfold steps in *. cbn [fold_left]. unfold wh_next at 2. cbn [fst snd]. rewrite E. cbn [fst].
      rewrite G2, <- app_assoc. reflexivity. }
  destruct (G xs s []) as (G1 & G2). split; [exact G1|exact G2].
Qed.

(** WithLastValue::new feeds the initial value once; afterwards it is the wrapped instance *)
Definition wlv_new (x0 : I) : outcome (S * O) :=
  do s <- new x0; let '(s1, y) := next s x0 in Ok (s1, y).
Definition wlv_next (st : S * O) (x : I) : (S * O) * O :=
  let '(s1, y) := next (fst st) x in ((s1, y), y).
Definition wlv_peek (st : S * O) : O := snd st.
Theorem with_last_value_is_run x0 s xs : new x0 = Ok s ->
  exists st, wlv_new x0 = Ok st /\
    wlv_peek st = snd (next s x0) /\
    run wlv_next st xs = run next (fst (next s x0)) xs.
Proof.
  intros H. unfold wlv_new. rewrite H. cbn [obind]. destruct (next s x0) as [s1 y]. eexists; split; [reflexivity|].
  split; [reflexivity|]. cbn [fst]. generalize y. revert s1. induction xs as [|x r IH]; intros s1 y0; [reflexivity|].
  cbn [run]. unfold wlv_next at 1. cbn [fst]. destruct (next s1 x) as [s2 y2]. rewrite IH. reflexivity.
Qed.
Theorem wlv_peek_after_next st x : wlv_peek (fst (wlv_next st x)) = snd (wlv_next st x).
Proof. unfold wlv_next, wlv_peek. destruct (next (fst st) x). reflexivity. Qed.
End Glue.

(** determinism and independence of clones are properties of values: two runs
    from equal states on equal inputs are equal, whatever else is computed *)
Theorem clone_independent {S I O} (next : S -> I -> S * O) (s : S) (xs other : list I) :
  let clone := s in
  let _original_after := steps next s other in
  run next clone xs = run next s xs.
Proof. reflexivity. Qed.
