(** Executable oracle: the from-scratch definitions of Spec/MethodDefs.v
    evaluated on binary64 along a stream (sgl value per step, as bit patterns). *)
From Yata Require Import Base.Prelude Base.Num Base.NumF64 Core.Window Core.Candle
  Spec.Hist Spec.MethodDefs Exec.MethodRun.
From Coq Require Import Floats.

(** window definitions: [def] sees the history after each input *)
Fixpoint def_run {I} (def : (nat -> I) -> list float) (x0 : I) (rh : list I) (xs : list I) : list Z :=
  match xs with
  | [] => []
  | x :: r => map f64_bits (def (hget x0 (x :: rh))) ++ def_run def x0 (x :: rh) r
  end.
(** stream definitions: [def] sees the list of inputs so far, newest first *)
Fixpoint defL_run {I} (def : list I -> list float) (rh : list I) (xs : list I) : list Z :=
  match xs with
  | [] => []
  | x :: r => map f64_bits (def (x :: rh)) ++ defL_run def (x :: rh) r
  end.
Definition sgl (x : float) : list float := [x].
Definition spec_w (def : nat -> (nat -> float) -> float) (n : Z) (x0 : float) (xs : list float) : list Z :=
  def_run (fun h => sgl (def (Z.to_nat n) h)) x0 [] xs.
Definition spec_l (def : Z -> float -> list float -> float) (n : Z) (x0 : float) (xs : list float) : list Z :=
  defL_run (fun rh => sgl (def n x0 rh)) [] xs.
(** numerator and denominator of quotient-shaped definitions (class D of DESIGN.md 5) *)
Definition vwma_nd (n : nat) (h : nat -> float * float) : list float :=
  [gsum n (fun i => fmul (fst (h i)) (snd (h i))); gsum n (fun i => snd (h i))].
Definition cci_nd (n : nat) (h : nat -> float) : list float :=
  [fsub (h 0%nat) (sma_def n h); mad_def n h].
Definition tsi_nd (short long : Z) (x0 : float) (rh : list float) : list float :=
  let m := diffs x0 rh in
  [ema_rec (MethodDefs.ema_alpha short) f0 (ema_outs (MethodDefs.ema_alpha long) f0 m);
   ema_rec (MethodDefs.ema_alpha short) f0 (ema_outs (MethodDefs.ema_alpha long) f0 (map fabs m))].
Definition hma_def_z (n : Z) (h : nat -> float) : float :=
  hma_def (Z.to_nat n) (Z.to_nat (n / 2)) (Z.to_nat (ftrunc_sat 0 255 (fsqrt (fofZ n)))) h.
Definition vidya_ud (n : nat) (x0 : float) (rh : list float) : list float :=
  let ch := hget f0 (diffs x0 rh) in
  [gsum n (fun i => fpos (ch i)); gsum n (fun i => fnegp (ch i))].
Definition candle_floats (c : candle (N := NumF64)) : list float :=
  [c_open c; c_high c; c_low c; c_close c; c_volume c].
