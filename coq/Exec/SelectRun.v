(** Drivers for the comparison-only method models are the generic [run_gen] /
    [run_gen_o] of Exec/MethodRun.v; this file only fixes the import set. *)
From Yata Require Export Base.Prelude Base.Num Base.NumF64 Core.Window Core.Candle Core.Action
  Methods.Basic Methods.Select Exec.MethodRun Exec.ActionRun.
