(** Driver for the indicator models: init outcome, then per step
    nvalues, values.., nsignals, signals.. (the harness transcript without its header). *)
From Yata Require Export Base.Prelude Base.Num Base.NumF64 Core.Window Core.Candle Core.Action Core.Strings
  Methods.Basic Methods.Select Indicators.Common Indicators.Set1 Indicators.Set2 Indicators.Set3 Indicators.Set4 Indicators.Set5 Exec.WindowRun Exec.ActionRun Exec.MethodRun.
From Coq Require Import Floats.

Definition enc_res (r : iresult (N := NumF64)) : list Z :=
  Z.of_nat (length (fst r)) :: map f64_bits (fst r) ++ Z.of_nat (length (snd r)) :: map enc_action (snd r).
Definition ind_run {S} (init : outcome S) (next : S -> candle (N := NumF64) -> S * iresult (N := NumF64))
    (cs : list (candle (N := NumF64))) : list Z :=
  match init with
  | Ok s => 0 :: (fix go s cs := match cs with [] => [] | c :: r => let '(s', o) := next s c in enc_res o ++ go s' r end) s cs
  | Err _ => [T_ERR]
  | Panic _ => [T_PANIC]
  end.

From Yata Require Import Spec.Hist Spec.MethodDefs Spec.IndicatorDefs.
(** the published formula evaluated from scratch after every candle (values only) *)
Fixpoint ind_spec (vals : candle (N := NumF64) -> list (candle (N := NumF64)) -> list float)
    (c0 : candle (N := NumF64)) (rcs cs : list (candle (N := NumF64))) : list Z :=
  match cs with
  | [] => []
  | c :: r => map f64_bits (vals c0 (c :: rcs)) ++ ind_spec vals c0 (c :: rcs) r
  end.
