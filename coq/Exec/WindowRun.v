(** Executable driver for the Window model: programs of observer calls,
    outputs flattened to a list of integers (same layout as harness/). *)
From Yata Require Import Base.Prelude Core.Window.

Definition T_NONE := -1.
Definition T_ERR := -2.
Definition T_PANIC := -3.

Inductive wctor := CNew (n v : Z) | CFromParts (b : list Z) (idx : Z) | CEmpty | CFromVec (b : list Z)
  | CDeser (b : list Z) (idx : Z).
Inductive wop :=
  | WPush (x : Z) | WNewest | WOldest | WGet (i : Z) | WIndex (i : Z)
  | WLen | WIsEmpty | WSlice
  | WIter (k : Z)      (* take k items, then size_hint, count, last of the rest *)
  | WIterRev (k : Z)
  | WIterAll | WIterRevAll
  | WSerde             (* serialize, deserialize, dump the restored parts *)
  | WReparts           (* from_parts (as_slice, oldest index) *)
  | WSerdeSwap | WRepartsSwap.  (* continue with the restored window *)

Section Run.
Context {pw : PW}.

Definition enc_opt (o : option Z) : Z := match o with Some v => v | None => T_NONE end.
Definition enc_out {X} (f : X -> list Z) (o : outcome X) : list Z :=
  match o with Ok x => f x | Err _ => [T_ERR] | Panic _ => [T_PANIC] end.
Definition enc_list (l : list Z) : list Z := Z.of_nat (length l) :: l.
Definition enc_bool (b : bool) : Z := if b then 1 else 0.

Definition dump (w : window Z) : list Z := enc_list (buf w) ++ [widx w; wsize w].

Definition run_iter (next : window Z -> witer -> outcome (witer * option Z))
   (last : window Z -> witer -> outcome (option Z)) (w : window Z) (k : Z) : list Z :=
  match it_take next w (w_iter w) (Z.to_nat k) with
  | Ok (it, items) =>
      enc_list items ++ [it_size_hint it; it_count it] ++ enc_out (fun o => [enc_opt o]) (last w it)
  | Err _ => [T_ERR] | Panic _ => [T_PANIC]
  end.

Definition wstep (w : window Z) (op : wop) : window Z * list Z :=
  match op with
  | WPush x => match w_push w x with
               | Ok (w', old) => (w', [old]) | Err _ => (w, [T_ERR]) | Panic _ => (w, [T_PANIC]) end
  | WNewest => (w, enc_out (fun v => [v]) (w_newest w))
  | WOldest => (w, enc_out (fun v => [v]) (w_oldest w))
  | WGet i => (w, enc_out (fun o => [enc_opt o]) (w_get w i))
  | WIndex i => (w, enc_out (fun v => [v]) (w_index w i))
  | WLen => (w, [w_len w])
  | WIsEmpty => (w, [enc_bool (w_is_empty w)])
  | WSlice => (w, enc_list (w_as_slice w))
  | WIter k => (w, run_iter it_next it_last w k)
  | WIterRev k => (w, run_iter rit_next rit_last w k)
  | WIterAll => (w, enc_out enc_list (w_iter_all w))
  | WIterRevAll => (w, enc_out enc_list (w_iter_rev_all w))
  | WSerde => (w, match w_deserialize (w_serialize w) with
                  | DOk w' => dump w' | DErr => [T_ERR] | DPanic _ => [T_PANIC] end)
  | WReparts => (w, enc_out dump (w_from_parts (w_as_slice w) (widx w)))
  | WSerdeSwap => match w_deserialize (w_serialize w) with
                  | DOk w' => (w', [0]) | DErr => (w, [T_ERR]) | DPanic _ => (w, [T_PANIC]) end
  | WRepartsSwap => match w_from_parts (w_as_slice w) (widx w) with
                    | Ok w' => (w', [0]) | Err _ => (w, [T_ERR]) | Panic _ => (w, [T_PANIC]) end
  end.

Fixpoint wsteps (w : window Z) (ops : list wop) : list Z :=
  match ops with
  | [] => []
  | op :: r => let '(w', o) := wstep w op in o ++ wsteps w' r
  end.

Definition wctor_run (c : wctor) : outcome (window Z) :=
  match c with
  | CNew n v => w_new n v
  | CFromParts b i => w_from_parts b i
  | CEmpty => Ok w_empty
  | CFromVec b => w_from_parts b 0
  | CDeser b i => match w_deserialize (b, i) with
                  | DOk w => Ok w | DErr => Err EOther | DPanic s => Panic s end
  end.

Definition wrun (c : wctor) (ops : list wop) : list Z :=
  match wctor_run c with
  | Ok w => 0 :: wsteps w ops
  | Err _ => [T_ERR]
  | Panic _ => [T_PANIC]
  end.
End Run.
