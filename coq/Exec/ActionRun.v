(** Executable driver for the Action model (layout shared with harness/src/action.rs). *)
From Yata Require Import Base.Prelude Base.Num Base.NumF64 Core.Action Proofs.ActionProofs.
From Coq Require Import Floats.

Definition enc_action (a : action) : Z :=
  match a with Buy k => k | ANone => 1000 | Sell k => 2000 + k end.
Definition dec_action (z : Z) : action :=
  if z =? 1000 then ANone else if z <? 1000 then Buy z else Sell (z - 2000).
Definition enc_optZ (o : option Z) : Z := match o with Some v => v | None => -1 end.
Definition enc_optF (o : option float) : Z := match o with Some v => f64_bits v | None => -1 end.
Definition enc_cmp (c : comparison) : Z := match c with Lt => -1 | Eq => 0 | Gt => 1 end.

(** everything unary about one action *)
Definition act_unary (a : action) : list Z :=
  [enc_optF (a_ratio (N := NumF64) a); a_analog a; enc_optZ (match a_sign a with Some s => Some (s + 10) | None => None end);
   enc_optZ (a_value a); (if a_is_none a then 1 else 0); enc_action (a_neg a);
   enc_action (a_from_opt_f (N := NumF64) (a_ratio (N := NumF64) a))].
Definition act_all : list Z := flat_map act_unary all_actions.

(** a against every b: sub, eq, cmp *)
Definition act_pairs (za : Z) : list Z :=
  let a := dec_action za in
  flat_map (fun b => [enc_action (a_sub a b); (if a_eq a b then 1 else 0); enc_cmp (a_cmp a b)]) all_actions.

Definition act_i8 : list Z :=
  flat_map (fun k => let v := Z.of_nat k - 128 in
     [enc_action (a_from_i8 v); enc_action (a_from_opt_i8 (Some v))]) (seq 0 256)
  ++ [enc_action (a_from_opt_i8 None); enc_action (a_from_bool true); enc_action (a_from_bool false)].

Definition act_floats (xs : list float) : list Z :=
  map (fun x => enc_action (a_from_f (N := NumF64) x)) xs.
