(** Drivers for the converter models (layouts of harness `candle collapse` / `candle renko`). *)
From Yata Require Import Base.Prelude Base.Num Base.NumF64 Core.Window Core.Candle Methods.Convert
  Exec.WindowRun Exec.MethodRun Exec.TextRun.
From Coq Require Import Floats.

Definition enc_oc (o : option (candle (N := NumF64))) : list Z :=
  match o with None => [-1] | Some c => 1 :: encC c end.
Definition collapse_run (period : Z) (cs : list (candle (N := NumF64))) : list Z :=
  match collapse_new period with
  | Ok s =>
    0 :: (fix go s cs := match cs with [] => [] | c :: r => let '(s', o) := collapse_next s c in enc_oc o ++ go s' r end) s cs
    ++ [-77] ++
    (let b := batch_collapse (Z.to_nat period) cs in
     Z.of_nat (length b) :: flat_map (fun o => match o with Some c => encC c | None => [] end) b)
  | _ => [T_ERR]
  end.
Definition src_of (k : Z) : source :=
  nth (Z.to_nat k) [SClose; SHigh; SLow; STP; SHL2; SVolume; SVolumedPrice; SOpen] SClose.
Fixpoint bricks (o : renko_out (N := NumF64)) (i : nat) (n : nat) : list Z :=
  match n with
  | O => []
  | S m => [f64_bits (brick_open o (Z.of_nat i)); f64_bits (brick_close o (Z.of_nat i)); f64_bits (ro_vol o)]
           ++ bricks o (S i) m
  end.
Definition renko_step_out (o : renko_out (N := NumF64)) : list Z :=
  let len := ro_len o in
  if len =? 0 then [0; 0; f64_bits PrimFloat.nan; f64_bits PrimFloat.nan; f64_bits PrimFloat.nan; 0]
  else
    let gap := fmul (ro_size o) (fofZ len) in
    [len; (if fsign_neg (ro_size o) then -1 else 1); f64_bits (ro_base o); f64_bits (fadd (ro_base o) gap);
     f64_bits (fmul (ro_vol o) (fofZ len)); len] ++ bricks o 0 (Z.to_nat (Z.min len 64)).
Definition renko_run (size : float) (src : Z) (c0 : candle (N := NumF64)) (cs : list (candle (N := NumF64))) : list Z :=
  match renko_new size (src_of src) c0 with
  | Ok s => 0 :: (fix go s cs := match cs with [] => [] | c :: r => let '(s', o) := renko_next s c in renko_step_out o ++ go s' r end) s cs
  | _ => [T_ERR]
  end.
