(** C07: long-stream soak driver.  The stream is produced inside Coq by the same integer LCG and the same
    binary64 operations as harness/src/soak.rs, so streams of 10^5..10^6 steps need no literals.
    Output layout (shared with the harness): 0, then per sample position [t; bits of the input x_t; encoded
    output..], then the two running checksums (inputs, outputs) as bit patterns. *)
From Yata Require Import Base.Prelude Base.Num Base.NumF64 Core.Window Core.Candle Core.Action
  Methods.Basic Exec.WindowRun Exec.ActionRun Exec.MethodRun Exec.IndRun.
From Coq Require Import Floats Uint63 NArith.
Open Scope uint63_scope.

Definition lcg (s : int) : int := s * 6364136223846793005 + 1442695040888963407.
Definition unit_of (s : int) : float := PrimFloat.mul (PrimFloat.of_uint63 (s >> 10)) 0x1p-53%float.

Record gst := mkG { g_s : int; g_y : float; g_x : float; g_t : int }.

Definition scale_of (phase : int) : float :=
  let k := (phase / 2) mod 4 in
  if k =? 0 then 1%float else if k =? 1 then 1000%float else if k =? 2 then 0x1p-10%float else 30%float.
Definition is_flat (t P : int) : bool := ((t / P) mod 2) =? 1.

(** next price; [t] counts the prices produced so far *)
Definition gen_next (P : int) (base : float) (g : gst) : gst :=
  let s1 := lcg (g_s g) in
  let t := g_t g in
  if is_flat t P then mkG s1 (g_y g) (g_x g) (t + 1)
  else
    let u := unit_of s1 in
    let y := PrimFloat.add (PrimFloat.mul 0.95%float (g_y g)) (PrimFloat.sub u 0.5%float) in
    let x := PrimFloat.mul (PrimFloat.mul base (scale_of (t / P))) (PrimFloat.add 1%float (PrimFloat.mul 0.05%float y)) in
    mkG s1 y x (t + 1).
Definition gen_init (seed : int) (P : int) (base : float) : gst :=
  gen_next P base (mkG seed 0%float base 0).

(** a candle from the previous and the new price, three more draws *)
Definition gen_candle (P : int) (base : float) (g : gst) : gst * candle (N := NumF64) :=
  let o := g_x g in
  let flat := is_flat (g_t g) P in
  let g1 := gen_next P base g in
  let c := g_x g1 in
  let s2 := lcg (g_s g1) in let s3 := lcg s2 in let s4 := lcg s3 in
  let hi := if PrimFloat.ltb o c then c else o in
  let lo := if PrimFloat.ltb o c then o else c in
  let h := if flat then hi else PrimFloat.mul hi (PrimFloat.add 1%float (PrimFloat.mul 0.01%float (unit_of s2))) in
  let l := if flat then lo else PrimFloat.mul lo (PrimFloat.sub 1%float (PrimFloat.mul 0.01%float (unit_of s3))) in
  let v := PrimFloat.of_uint63 (s4 >> 53) in
  (mkG s4 (g_y g1) c (g_t g1), mkCandle (N := NumF64) o h l c v).

Definition chk_step (chk x : float) : float :=
  if PrimFloat.is_finite x then PrimFloat.add (PrimFloat.mul chk 0.75%float) x else chk.

Record sst (S : Type) := mkS { s_g : gst; s_m : S; s_ci : float; s_co : float; s_left : list int; s_acc : list Z; s_n : int }.
Arguments mkS {S}. Arguments s_g {S}. Arguments s_m {S}. Arguments s_ci {S}. Arguments s_co {S}.
Arguments s_left {S}. Arguments s_acc {S}. Arguments s_n {S}.

(** [draw g] produces the next input, its checksum float; [vals o] the floats of an output for the checksum *)
Definition soak_step {S I O} (draw : gst -> gst * I) (xof : I -> float) (next : S -> I -> S * O)
    (vals : O -> list float) (enc : O -> list Z) (st : sst S) : sst S :=
  let '(g, x) := draw (s_g st) in
  let '(m, o) := next (s_m st) x in
  let n := s_n st + 1 in
  let ci := chk_step (s_ci st) (xof x) in
  let co := fold_left chk_step (vals o) (s_co st) in
  match s_left st with
  | p :: rest =>
    if p =? n then mkS g m ci co rest (rev_append (Uint63.to_Z n :: f64_bits (xof x) :: enc o) (s_acc st)) n
    else mkS g m ci co (s_left st) (s_acc st) n
  | [] => mkS g m ci co [] (s_acc st) n
  end.

Definition soak_run {S I O} (init : outcome S) (g0 : gst) (draw : gst -> gst * I) (xof : I -> float)
    (next : S -> I -> S * O) (vals : O -> list float) (enc : O -> list Z) (steps : N) (samples : list int) : list Z :=
  match init with
  | Ok m0 =>
    let st := N.iter steps (soak_step draw xof next vals enc) (mkS g0 m0 0%float 0%float samples [] 0) in
    0%Z :: rev_append (s_acc st) [f64_bits (s_ci st); f64_bits (s_co st)]
  | Err _ => [T_ERR]
  | Panic _ => [T_PANIC]
  end.

Section Soak.
Context {pw : PW}.
(** scalar methods: construction value = first price *)
Definition draw_x (P : int) (base : float) (g : gst) : gst * float := let g' := gen_next P base g in (g', g_x g').
Definition soak_scalar {S} (new : Z -> float -> outcome S) (next : S -> float -> S * float)
    (n : Z) (seed P : int) (base : float) (steps : N) (samples : list int) : list Z :=
  let g0 := gen_init seed P base in
  soak_run (new n (g_x g0)) g0 (draw_x P base) (fun x => x) next (fun y => [y]) (fun y => [f64_bits y]) steps samples.
Definition soak_scalar_z {S} (new : Z -> float -> outcome S) (next : S -> float -> S * Z)
    (n : Z) (seed P : int) (base : float) (steps : N) (samples : list int) : list Z :=
  let g0 := gen_init seed P base in
  soak_run (new n (g_x g0)) g0 (draw_x P base) (fun x => x) next (fun y => [f64_ofZ y]) (fun y => [y]) steps samples.
Definition soak_scalar_a {S} (new : float -> outcome S) (next : S -> float -> S * action)
    (seed P : int) (base : float) (steps : N) (samples : list int) : list Z :=
  let g0 := gen_init seed P base in
  soak_run (new (g_x g0)) g0 (draw_x P base) (fun x => x) next (fun a => [f64_ofZ (enc_action a)]) (fun a => [enc_action a]) steps samples.
(** methods whose [next] can panic in the model (empty window, non-finite input): a panic shows as NaN / -3 *)
Definition tot_f {S} (next : S -> float -> outcome (S * float)) (s : S) (x : float) : S * float :=
  match next s x with Ok r => r | _ => (s, PrimFloat.nan) end.
Definition tot_z {S} (next : S -> float -> outcome (S * Z)) (s : S) (x : float) : S * Z :=
  match next s x with Ok r => r | _ => (s, T_PANIC) end.
Definition soak_scalar_o {S} (new : Z -> float -> outcome S) (next : S -> float -> outcome (S * float)) :=
  soak_scalar new (tot_f next).
Definition soak_scalar_zo {S} (new : Z -> float -> outcome S) (next : S -> float -> outcome (S * Z)) :=
  soak_scalar_z new (tot_z next).
(** indicators: construction candle = flat candle at the first price with volume 1 *)
Definition soak_ind {S} (init : candle (N := NumF64) -> outcome S) (next : S -> candle (N := NumF64) -> S * iresult (N := NumF64))
    (seed P : int) (base : float) (steps : N) (samples : list int) : list Z :=
  let g0 := gen_init seed P base in
  let x0 := g_x g0 in
  soak_run (init (mkCandle (N := NumF64) x0 x0 x0 x0 1%float)) g0 (gen_candle P base) (fun c => c_close c) next
    (fun r => fst r) enc_res steps samples.
End Soak.
