(** Drivers for the string models (layout shared with harness/src/misc.rs `text`). *)
From Yata Require Import Base.Prelude Core.Window Core.Candle Core.Strings Exec.WindowRun.
Definition source_code (s : source) : Z :=
  match s with SClose => 0 | SHigh => 1 | SLow => 2 | STP => 3 | SHL2 => 4 | SVolume => 5 | SVolumedPrice => 6 | SOpen => 7 end.
Definition text_ma {pw : PW} (s : ustr) : list Z :=
  match ma_from_str s with Some (k, n) => [0; ma_code k; n] | None => [T_ERR] end.
Definition text_source (s : ustr) : list Z :=
  match source_from_str s with Some k => [0; source_code k] | None => [T_ERR] end.
