(** Drivers for the string models (layout shared with harness/src/misc.rs `text`). *)
From Yata Require Import Base.Prelude Core.Window Core.Candle Core.Strings Exec.WindowRun.
Definition source_code (s : source) : Z :=
  match s with SClose => 0 | SHigh => 1 | SLow => 2 | STP => 3 | SHL2 => 4 | SVolume => 5 | SVolumedPrice => 6 | SOpen => 7 end.
Definition text_ma {pw : PW} (s : ustr) : list Z :=
  match ma_from_str s with Some (k, n) => [0; ma_code k; n] | None => [T_ERR] end.
Definition text_source (s : ustr) : list Z :=
  match source_from_str s with Some k => [0; source_code k] | None => [T_ERR] end.

From Yata Require Import Base.Num Base.NumF64 Exec.MethodRun.
From Coq Require Import Floats.
(** layout of harness `candle helpers` *)
Definition candle_helpers (c : candle (N := NumF64)) (pc : float) : list Z :=
  [f64_bits (c_tp c); f64_bits (c_hl2 c); f64_bits (c_ohlc4 c); f64_bits (c_clv c);
   f64_bits (c_tr_close c pc); f64_bits (c_tr_close c pc); f64_bits (c_volumed_price c);
   (if c_validate c then 1 else 0); (if c_is_rising c then 1 else 0); (if c_is_falling c then 1 else 0)]
  ++ map (fun s => f64_bits (c_source c s)) [SClose; SHigh; SLow; STP; SHL2; SVolume; SVolumedPrice; SOpen] ++ [1].
Definition candle_add3 (a b c : candle (N := NumF64)) : list Z :=
  encC (c_add (c_add a b) c) ++ encC (c_add a (c_add b c)) ++ encC (c_add a b).
