(** Executable drivers for the method models on binary64 (layout shared with
    harness/src/method.rs): constructor outcome, then one output per step. *)
From Yata Require Import Base.Prelude Base.Num Base.NumF64 Core.Window Core.Candle Core.Action
  Methods.Basic Exec.WindowRun Exec.ActionRun.
From Coq Require Import Floats.

Section Run.
Context {pw : PW}.

Definition run_gen {S I O} (new : outcome S) (next : S -> I -> S * O) (enc : O -> list Z)
   (peek : option (S -> list Z)) (xs : list I) : list Z :=
  match new with
  | Ok s =>
    0 :: (fix go (s : S) (xs : list I) : list Z :=
            match xs with
            | [] => []
            | x :: r => let '(s', y) := next s x in
                        enc y ++ (match peek with Some p => p s' | None => [] end) ++ go s' r
            end) s xs
  | Err _ => [T_ERR]
  | Panic _ => [T_PANIC]
  end.

(** methods whose [next] can panic (assert!(finite), empty window) *)
Definition run_gen_o {S I O} (new : outcome S) (next : S -> I -> outcome (S * O)) (enc : O -> list Z)
   (peek : option (S -> list Z)) (xs : list I) : list Z :=
  match new with
  | Ok s =>
    0 :: (fix go (s : S) (xs : list I) : list Z :=
            match xs with
            | [] => []
            | x :: r => match next s x with
                        | Ok (s', y) => enc y ++ (match peek with Some p => p s' | None => [] end) ++ go s' r
                        | _ => [T_PANIC]
                        end
            end) s xs
  | Err _ => [T_ERR]
  | Panic _ => [T_PANIC]
  end.

Definition encF (x : float) : list Z := [f64_bits x].
Definition encC (c : candle (N := NumF64)) : list Z :=
  [f64_bits (c_open c); f64_bits (c_high c); f64_bits (c_low c); f64_bits (c_close c); f64_bits (c_volume c)].
Definition encA (a : action) : list Z := [enc_action a].
Definition encZ (z : Z) : list Z := [z].

Definition run_scalar {S} (new : Z -> float -> outcome S) (next : S -> float -> S * float)
   (n : Z) (x0 : float) (xs : list float) : list Z :=
  run_gen (new n x0) next encF None xs.
Definition run_scalar_peek {S} (new : Z -> float -> outcome S) (next : S -> float -> S * float)
   (peek : S -> float) (n : Z) (x0 : float) (xs : list float) : list Z :=
  run_gen (new n x0) next encF (Some (fun s => encF (peek s))) xs.

Definition mkC (o h l c v : float) : candle (N := NumF64) := mkCandle o h l c v.
End Run.
