(** Models of the timeseries converters: collapse_timeframe.rs,
    Sequence::collapse_timeframe (sequence.rs) and renko.rs. *)
From Yata Require Import Base.Prelude Base.Num Core.Window Core.Candle.

Section Convert.
Context {N : Num}.

(* ------------------------------------------------------ CollapseTimeframe *)
Record collapse := mkCol { col_current : option candle; col_index : Z; col_period : Z }.
Definition collapse_new (period : Z) : outcome collapse :=
  if period =? 0 then Err EWrongMethodParameters else Ok (mkCol None 0 period).
Definition collapse_next (s : collapse) (c : candle) : collapse * option candle :=
  let cur := match col_current s with Some k => Some (c_add k c) | None => Some c end in
  let idx := col_index s + 1 in
  if idx =? col_period s then (mkCol None 0 (col_period s), cur)
  else (mkCol cur idx (col_period s), None).

(** windows(size).step_by(size).map(reduce): complete chunks only *)
Definition agg (l : list candle) : option candle :=
  match l with [] => None | c :: r => Some (fold_left c_add r c) end.
Fixpoint chunks_fuel (fuel : nat) (size : nat) (l : list candle) : list (list candle) :=
  match fuel with
  | O => []
  | S f => if Nat.leb size (length l) then firstn size l :: chunks_fuel f size (skipn size l) else []
  end.
Definition batch_collapse (size : nat) (l : list candle) : list (option candle) :=
  map agg (chunks_fuel (length l) size l).

(* ------------------------------------------------------------------ Renko *)
Record renko := mkRenko { rk_last_upper : F; rk_last_lower : F; rk_next_upper : F; rk_next_lower : F;
                          rk_size : F; rk_src : source; rk_volume : F }.
Record renko_out := mkRO { ro_len : Z; ro_size : F; ro_base : F; ro_vol : F }.
Definition usize_max : Z := 18446744073709551615.
Definition feps : F := fdiv f1 (fofZ 4503599627370496).     (* f64::EPSILON = 2^-52 *)
Definition renko_new (size : F) (src : source) (c : candle) : outcome renko :=
  let value := c_source c src in
  if fle feps size && flt size f1 then
    let half := fmul (fmul value size) (flit 1 2) in
    Ok (mkRenko (fadd value half) (fsub value half)
                (fmul (fadd value half) (fadd f1 size)) (fmul (fsub value half) (fsub f1 size)) size src f0)
  else Err EWrongMethodParameters.
Definition renko_next (s : renko) (c : candle) : renko * renko_out :=
  let value := c_source c (rk_src s) in
  let vol := fadd (rk_volume s) (c_volume c) in
  let sz := rk_size s in
  if fge value (rk_next_upper s) then
    let len := Z.max 1 (ftrunc_sat 0 usize_max (fdiv (fdiv (fsub value (rk_last_upper s)) (rk_last_upper s)) sz)) in
    let base := rk_last_upper s in
    let lu := fmul base (fadd f1 (fmul sz (fofZ len))) in
    let ll := fmul base (fadd f1 (fmul sz (fofZ (len - 1)))) in
    (mkRenko lu ll (fmul lu (fadd f1 sz)) (fmul ll (fsub f1 sz)) sz (rk_src s) f0,
     mkRO len sz base (fdiv vol (fofZ len)))
  else if fle value (rk_next_lower s) then
    let len := Z.max 1 (ftrunc_sat 0 usize_max (fdiv (fdiv (fsub (rk_last_lower s) value) (rk_last_lower s)) sz)) in
    let base := rk_last_lower s in
    let lu := fmul base (fsub f1 (fmul sz (fofZ (len - 1)))) in
    let ll := fmul base (fsub f1 (fmul sz (fofZ len))) in
    (mkRenko lu ll (fmul lu (fadd f1 sz)) (fmul ll (fsub f1 sz)) sz (rk_src s) f0,
     mkRO len (fneg sz) base (fdiv vol (fofZ len)))
  else
    (mkRenko (rk_last_upper s) (rk_last_lower s) (rk_next_upper s) (rk_next_lower s) sz (rk_src s) vol,
     mkRO 0 sz f0 f0).
(** the bricks of one output: open_i = (size*i + 1) * base, close_i = (size*(i+1) + 1) * base *)
Definition brick_open (o : renko_out) (i : Z) : F := fmul (ffma (ro_size o) (fofZ i) f1) (ro_base o).
Definition brick_close (o : renko_out) (i : Z) : F := fmul (ffma (ro_size o) (fofZ (i + 1)) f1) (ro_base o).
End Convert.
