(** Models of the comparison-only methods: highest_lowest.rs,
    highest_lowest_index.rs, smm.rs, median_abs_dev.rs, cross.rs, reversal.rs.
    Written over [Num]; they only use comparisons, bit equality, max/min (and
    one subtraction for Cross / HighestLowestDelta).  No proofs here. *)
From Yata Require Import Base.Prelude Base.Num Core.Window Core.Candle Core.Action Methods.Basic.

Section Select.
Context {pw : PW} {N : Num}.

(** f64::total_cmp(a, b) == Greater, for non-NaN arguments *)
Definition ftotal_gt (a b : F) : bool := flt b a || (feq a b && fsign_neg b && negb (fsign_neg a)).

(* --------------------------------------------------- highest_lowest.rs *)
Record hl := mkHL { hl_value : F; hl_window : window F }.
Definition hl_new (n : Z) (v : F) : outcome hl :=
  if negb (fis_finite v) then Err EInvalidCandles
  else if bad_len n then EWMP else Ok (mkHL v (w_new_t n v)).
Definition highest_step (s : hl) (x : F) : hl * F :=
  let '(w, lft) := w_push_t (hl_window s) x in
  let v := if fge x (hl_value s) then x
           else if fbits_eq lft (hl_value s) then fold_left fmax (w_items w) x
           else hl_value s in
  (mkHL v w, v).
Definition lowest_step (s : hl) (x : F) : hl * F :=
  let '(w, lft) := w_push_t (hl_window s) x in
  let v := if fle x (hl_value s) then x
           else if fbits_eq lft (hl_value s) then fold_left fmin (w_items w) x
           else hl_value s in
  (mkHL v w, v).
Definition guarded {S O} (step : S -> F -> S * O) (site : string) (s : S) (x : F) : outcome (S * O) :=
  if fis_finite x then Ok (step s x) else Panic site.
Definition highest_next := guarded highest_step "highest:assert".
Definition lowest_next := guarded lowest_step "lowest:assert".
Definition hl_peek (s : hl) : F := hl_value s.

Record hld := mkHLD { hld_highest : F; hld_lowest : F; hld_window : window F }.
Definition hld_new (n : Z) (v : F) : outcome hld :=
  if negb (fis_finite v) then Err EInvalidCandles
  else if bad_len n then EWMP else Ok (mkHLD v v (w_new_t n v)).
Definition hld_peek (s : hld) : F := fsub (hld_highest s) (hld_lowest s).
Definition hld_next (s : hld) (x : F) : hld * F :=
  let '(w, lft) := w_push_t (hld_window s) x in
  let '(hi1, search1) := if fge x (hld_highest s) then (x, false)
                         else (hld_highest s, fbits_eq lft (hld_highest s)) in
  let '(lo1, search2) := if fle x (hld_lowest s) then (x, false)
                         else (hld_lowest s, fbits_eq lft (hld_lowest s)) in
  let '(lo2, hi2) :=
    if search1 || search2
    then fold_left (fun mm v => (fmin (fst mm) v, fmax (snd mm) v)) (w_items w) (x, x)
    else (lo1, hi1) in
  let s' := mkHLD hi2 lo2 w in (s', hld_peek s').

(* --------------------------------------------- highest_lowest_index.rs *)
Record hli := mkHLI { hli_index : Z; hli_value : F; hli_window : window F }.
Definition hli_new (n : Z) (v : F) : outcome hli :=
  if negb (fis_finite v) then Err EInvalidCandles
  else if bad_len n then EWMP else Ok (mkHLI 0 v (w_new_t n v)).
Definition enumerate {A} (l : list A) : list (Z * A) := combine (map Z.of_nat (seq 0 (length l))) l.
Definition hindex_step (better : F -> F -> bool) (keep : F -> F -> bool) (s : hli) (x : F) : hli * Z :=
  let '(w, _) := w_push_t (hli_window s) x in
  let idx := hli_index s + 1 in
  let '(idx', v') :=
    if keep x (hli_value s) then (0, x)
    else if idx =? w_len w then
      fold_left (fun a b => if better (snd b) (snd a) then b else a) (enumerate (w_items w)) (0, x)
    else (idx, hli_value s) in
  (mkHLI idx' v' w, idx').
Definition highest_index_step := hindex_step fgt fge.
Definition lowest_index_step := hindex_step flt fle.
Definition highest_index_next := guarded highest_index_step "highest_index:assert".
Definition lowest_index_next := guarded lowest_index_step "lowest_index:assert".
Definition hli_peek (s : hli) : Z := hli_index s.

(* ----------------------------------------------------------------- smm.rs *)
(** the two binary searches, with fuel = length of the slice *)
Fixpoint smm_find (insert : bool) (fuel : nat) (value : F) (slice : list F) (padding : Z) : Z :=
  let len := Z.of_nat (length slice) in
  if insert && (len =? 0) then padding
  else if negb insert && (len <? 2) then padding + 1 - len
  else match fuel with
  | O => -1
  | S f =>
    let half := Nat.div (length slice) 2 in
    match nth_error slice half with
    | None => -1
    | Some h =>
      if fbits_eq value h then padding + Z.of_nat half
      else if ftotal_gt value h
           then smm_find insert f value (skipn (S half) slice) (padding + Z.of_nat half + 1)
           else smm_find insert f value (firstn half slice) padding
    end
  end.
Definition find_index (v : F) (slice : list F) : Z := smm_find false (S (length slice)) v slice 0.
Definition find_insert_index (v : F) (slice : list F) : Z := smm_find true (S (length slice)) v slice 0.

Fixpoint remove_at {A} (i : nat) (l : list A) : list A :=
  match l, i with [], _ => [] | _ :: t, O => t | h :: t, S j => h :: remove_at j t end.
Fixpoint insert_at {A} (i : nat) (x : A) (l : list A) : list A :=
  match i, l with O, _ => x :: l | S j, [] => [x] | S j, h :: t => h :: insert_at j x t end.

Record smm := mkSMM { smm_half : Z; smm_half_m1 : Z; smm_window : window F; smm_slice : list F }.
Definition smm_new (n : Z) (v : F) : outcome smm :=
  if negb (fis_finite v) then Err EInvalidCandles
  else if bad_len n then EWMP else
  let half := n / 2 in
  Ok (mkSMM half (sat_sub half (if n mod 2 =? 0 then 1 else 0)) (w_new_t n v) (repeat v (Z.to_nat n))).
Definition smm_peek_o (s : smm) : outcome F :=
  match nth_error (smm_slice s) (Z.to_nat (smm_half s)), nth_error (smm_slice s) (Z.to_nat (smm_half_m1 s)) with
  | Some a, Some b =>
      let sum := fadd a b in
      (* the sum of two finite values above half of the range overflows: then the operands are halved first *)
      Ok (if fis_finite sum then fmul sum (flit 1 2) else fadd (fmul a (flit 1 2)) (fmul b (flit 1 2)))
  | _, _ => Panic "smm:peek:index"
  end.
Definition smm_peek (s : smm) : F := match smm_peek_o s with Ok v => v | _ => f0 end.
Definition smm_next (s : smm) (x : F) : outcome (smm * F) :=
  if negb (fis_finite x) then Panic "smm:assert" else
  let '(w, old) := w_push_t (smm_window s) x in
  let len := Z.of_nat (length (smm_slice s)) in
  let old_index := find_index old (smm_slice s) in
  let index0 := find_insert_index x (smm_slice s) in
  if (old_index <? 0) || (index0 <? 0) then Panic "smm:search" else
  let index := index0 - (if old_index <? index0 then 1 else 0) in
  if (len <=? old_index) || (len <=? index) then Panic "smm:slice:index" else
  let sl := insert_at (Z.to_nat index) x (remove_at (Z.to_nat old_index) (smm_slice s)) in
  let s' := mkSMM (smm_half s) (smm_half_m1 s) w sl in
  do v <- smm_peek_o s'; Ok (s', v).

(* -------------------------------------------------------- median_abs_dev.rs *)
Record medad := mkMedAD { md_smm : smm; md_divider : F }.
Definition medad_new (n : Z) (v : F) : outcome medad :=
  if (n =? 0) || (n =? 1) then EWMP else
  do s <- smm_new n v; Ok (mkMedAD s (frecip (fofZ n))).
Definition medad_peek (s : medad) : F :=
  let m := smm_peek (md_smm s) in
  fmul (fsum (map (fun x => fabs (fsub x m)) (w_as_slice (smm_window (md_smm s))))) (md_divider s).
Definition medad_next (s : medad) (x : F) : outcome (medad * F) :=
  do r <- smm_next (md_smm s) x;
  let s' := mkMedAD (fst r) (md_divider s) in Ok (s', medad_peek s').

(* --------------------------------------------------------------- cross.rs *)
Definition cross_above_bin (last : F) (a b : F) : F * bool :=
  let cur := fsub a b in (cur, flt last f0 && fge cur f0).
Definition cross_under_bin (last : F) (a b : F) : F * bool :=
  let cur := fsub a b in (cur, fgt last f0 && fle cur f0).
Definition cross_new (v : F * F) : F := fsub (fst v) (snd v).
Definition cross_above_next (last : F) (v : F * F) : F * action :=
  let '(c, b) := cross_above_bin last (fst v) (snd v) in (c, a_from_i8 (if b then 1 else 0)).
Definition cross_under_next (last : F) (v : F * F) : F * action :=
  let '(c, b) := cross_under_bin last (fst v) (snd v) in (c, a_from_i8 (if b then 1 else 0)).
Definition cross_next (s : F * F) (v : F * F) : (F * F) * action :=
  let '(cu, up) := cross_above_bin (fst s) (fst v) (snd v) in
  let '(cd, down) := cross_under_bin (snd s) (fst v) (snd v) in
  ((cu, cd), a_from_i8 ((if up then 1 else 0) - (if down then 1 else 0))).

(* ------------------------------------------------------------ reversal.rs *)
Record rvs := mkRev { rv_left : Z; rv_right : Z; rv_value : F; rv_mindex : Z; rv_index : Z;
                      rv_window : window F }.
Definition rev_new (lft right : Z) (v : F) : outcome rvs :=
  if (lft =? 0) || (right =? 0) || (pmax - 1 <=? sat_add lft right) then EWMP
  else Ok (mkRev lft right v 0 0 (w_new_t (lft + right + 1) v)).
(** [beats x m]: x >= m for the upper detector, x <= m for the lower one *)
Definition rev_next (beats : F -> F -> bool) (s : rvs) (x : F) : rvs * action :=
  let '(w, _) := w_push_t (rv_window s) x in
  let len := w_len w in
  let first_index := sat_sub (sat_add (rv_index s) 1) len in
  let '(mv, mi) :=
    if rv_mindex s <? first_index then
      let items := match w_iter_rev_all w with Ok l => l | _ => [] end in
      match items with
      | [] => (rv_value s, rv_mindex s)
      | o :: rest =>
        fold_left (fun (a : F * Z) (b : Z * F) => if beats (snd b) (fst a) then (snd b, fst b) else a)
          (combine (map (fun k => first_index + 1 + Z.of_nat k) (seq 0 (length rest))) rest)
          (o, first_index)
      end
    else if beats x (rv_value s) then (x, rv_index s)
    else (rv_value s, rv_mindex s) in
  let sgn := if (rv_right s <=? rv_index s) && (mi =? sat_sub (rv_index s) (rv_right s))
             then a_buy_all else ANone in
  let idx := rv_index s + 1 in
  let '(idx', mi') := if len <? idx then (idx - 1, mi - 1) else (idx, mi) in
  (mkRev (rv_left s) (rv_right s) mv mi' idx' w, sgn).
Definition upper_rev_next := rev_next fge.
Definition lower_rev_next := rev_next fle.
Definition reversal_new (lft right : Z) (v : F) : outcome (rvs * rvs) :=
  do h <- rev_new lft right v; do l <- rev_new lft right v; Ok (h, l).
Definition reversal_next (s : rvs * rvs) (x : F) : (rvs * rvs) * action :=
  let '(l', lo) := lower_rev_next (snd s) x in
  let '(h', hi) := upper_rev_next (fst s) x in
  ((h', l'), a_sub lo hi).
End Select.
