(** Models of the arithmetic methods of src/methods (one Section per file),
    written once over [Num].  Operation order and fused multiply-adds follow the
    source literally; [X_new] mirrors [Method::new], [X_next] [Method::next],
    [X_peek] [Peekable::peek].  No proofs here. *)
From Yata Require Import Base.Prelude Base.Num Core.Window Core.Candle.

Section Methods.
Context {pw : PW} {N : Num}.

Definition EWMP {A} : outcome A := Err EWrongMethodParameters.

(** push on a window known to be non-empty (constructors guarantee it);
    [w_push_t_eq] in Proofs/MethodsCommon.v relates it to [w_push]. *)
Definition w_push_t {A} (w : window A) (x : A) : window A * A :=
  match w_push w x with Ok r => r | _ => (w, x) end.
Definition w_new_t {A} (n : Z) (v : A) : window A :=
  match w_new n v with Ok w => w | _ => w_empty end.
(** items newest first (iter()) / in ring-buffer order (as_slice()) *)
Definition w_items {A} (w : window A) : list A :=
  match w_iter_all w with Ok l => l | _ => [] end.

Definition frecip (x : F) : F := fdiv f1 x.
Definition bad_len (n : Z) : bool := (n =? 0) || (n =? pmax).

(* ---------------------------------------------------------------- sma.rs *)
Record sma := mkSMA { sma_divider : F; sma_value : F; sma_window : window F }.
Definition sma_new (n : Z) (v : F) : outcome sma :=
  if bad_len n then EWMP else Ok (mkSMA (frecip (fofZ n)) v (w_new_t n v)).
Definition sma_next (s : sma) (x : F) : sma * F :=
  let '(w, prev) := w_push_t (sma_window s) x in
  let v := fadd (sma_value s) (fmul (fsub x prev) (sma_divider s)) in
  (mkSMA (sma_divider s) v w, v).
Definition sma_peek (s : sma) : F := sma_value s.

(* ---------------------------------------------------------------- wma.rs *)
Record wma := mkWMA { wma_invert_sum : F; wma_float_length : F; wma_total : F; wma_numerator : F;
                      wma_window : window F }.
Definition wma_new (n : Z) (v : F) : outcome wma :=
  if bad_len n then EWMP else
  let sum := fofZ ((n * (n + 1)) / 2) in
  let fl := fofZ n in
  Ok (mkWMA (frecip sum) fl (fmul (fneg v) fl) (fmul v sum) (w_new_t n v)).
Definition wma_peek (s : wma) : F := fmul (wma_numerator s) (wma_invert_sum s).
Definition wma_next (s : wma) (x : F) : wma * F :=
  let '(w, prev) := w_push_t (wma_window s) x in
  let num := fadd (wma_numerator s) (ffma (wma_float_length s) x (wma_total s)) in
  let tot := fadd (wma_total s) (fsub prev x) in
  let s' := mkWMA (wma_invert_sum s) (wma_float_length s) tot num w in
  (s', wma_peek s').

(* ---------------------------------------------------------------- ema.rs *)
Record ema := mkEMA { ema_alpha : F; ema_value : F }.
Definition ema_new (n : Z) (v : F) : outcome ema :=
  if bad_len n then EWMP else Ok (mkEMA (fdiv f2 (fofZ (n + 1))) v).
Definition ema_next (s : ema) (x : F) : ema * F :=
  let v := ffma (fsub x (ema_value s)) (ema_alpha s) (ema_value s) in
  (mkEMA (ema_alpha s) v, v).
Definition ema_peek (s : ema) : F := ema_value s.

Record dma := mkDMA { dma_ema : ema; dma_dma : ema }.
Definition dma_new (n : Z) (v : F) : outcome dma :=
  if n =? 0 then EWMP else
  do e <- ema_new n v; do d <- ema_new n v; Ok (mkDMA e d).
Definition dma_next (s : dma) (x : F) : dma * F :=
  let '(e, y) := ema_next (dma_ema s) x in
  let '(d, z) := ema_next (dma_dma s) y in (mkDMA e d, z).
Definition dma_peek (s : dma) : F := ema_value (dma_dma s).

Record tma := mkTMA { tma_dma : dma; tma_tma : ema }.
Definition tma_new (n : Z) (v : F) : outcome tma :=
  if n =? 0 then EWMP else
  do d <- dma_new n v; do t <- ema_new n v; Ok (mkTMA d t).
Definition tma_next (s : tma) (x : F) : tma * F :=
  let '(d, y) := dma_next (tma_dma s) x in
  let '(t, z) := ema_next (tma_tma s) y in (mkTMA d t, z).
Definition tma_peek (s : tma) : F := ema_value (tma_tma s).

(* DEMA shares DMA's state layout *)
Definition dema_new := dma_new.
Definition dema_peek (s : dma) : F := ffma (ema_value (dma_ema s)) f2 (fneg (ema_value (dma_dma s))).
Definition dema_next (s : dma) (x : F) : dma * F :=
  let '(e, y) := ema_next (dma_ema s) x in
  let '(d, _) := ema_next (dma_dma s) y in
  let s' := mkDMA e d in (s', dema_peek s').

Record tema := mkTEMA { tema_ema : ema; tema_dma : ema; tema_tma : ema }.
Definition tema_new (n : Z) (v : F) : outcome tema :=
  if n =? 0 then EWMP else
  do e <- ema_new n v; do d <- ema_new n v; do t <- ema_new n v; Ok (mkTEMA e d t).
Definition tema_peek (s : tema) : F :=
  ffma (fsub (ema_value (tema_ema s)) (ema_value (tema_dma s))) (fofZ 3) (ema_value (tema_tma s)).
Definition tema_next (s : tema) (x : F) : tema * F :=
  let '(e, y) := ema_next (tema_ema s) x in
  let '(d, z) := ema_next (tema_dma s) y in
  let '(t, _) := ema_next (tema_tma s) z in
  let s' := mkTEMA e d t in (s', tema_peek s').

(* ---------------------------------------------------------------- rma.rs *)
Record rma := mkRMA { rma_alpha : F; rma_alpha_rev : F; rma_prev : F }.
Definition rma_new (n : Z) (v : F) : outcome rma :=
  if n =? 0 then EWMP else
  let a := frecip (fofZ n) in Ok (mkRMA a (fsub f1 a) v).
Definition rma_next (s : rma) (x : F) : rma * F :=
  let v := ffma (rma_alpha s) x (fmul (rma_alpha_rev s) (rma_prev s)) in
  (mkRMA (rma_alpha s) (rma_alpha_rev s) v, v).
Definition rma_peek (s : rma) : F := rma_prev s.

(* --------------------------------------------------------------- wsma.rs *)
Definition wsma_new (n : Z) (v : F) : outcome ema :=
  if (n =? 0) || (pmax / 2 <? n) then EWMP else ema_new (n * 2 - 1) v.
Definition wsma_next := ema_next.
Definition wsma_peek := ema_peek.

(* --------------------------------------------------------------- swma.rs *)
Record swma := mkSWMA { sw_right_total : F; sw_right_fl : F; sw_right_window : window F;
                        sw_left_total : F; sw_left_fl : F; sw_left_window : window F;
                        sw_invert_sum : F; sw_numerator : F }.
Definition swma_new (n : Z) (v : F) : outcome swma :=
  if bad_len n then EWMP else
  let ll := (n + 1) / 2 in let rl := n / 2 in
  let sum := fofZ ((ll * (ll + 1)) / 2 + (rl * (rl + 1)) / 2) in
  Ok (mkSWMA (fmul v (fofZ rl)) (fneg (fofZ rl)) (w_new_t rl v)
             (fmul (fneg v) (fofZ ll)) (fofZ ll) (w_new_t ll v)
             (frecip sum) (fmul v sum)).
Definition swma_peek (s : swma) : F := fmul (sw_numerator s) (sw_invert_sum s).
Definition swma_next (s : swma) (x : F) : swma * F :=
  if w_is_empty (sw_right_window s)
  then (mkSWMA (sw_right_total s) (sw_right_fl s) (sw_right_window s) (sw_left_total s) (sw_left_fl s)
               (sw_left_window s) (sw_invert_sum s) x, x) else
  let '(rw, rp) := w_push_t (sw_right_window s) x in
  let rt := fadd (sw_right_total s) (fsub x rp) in
  let num1 := fadd (sw_numerator s) (ffma rp (sw_right_fl s) rt) in
  let '(lw, lp) := w_push_t (sw_left_window s) rp in
  let num2 := fadd num1 (ffma rp (sw_left_fl s) (sw_left_total s)) in
  let lt := fadd (sw_left_total s) (fsub lp rp) in
  let s' := mkSWMA rt (sw_right_fl s) rw lt (sw_left_fl s) lw (sw_invert_sum s) num2 in
  (s', swma_peek s').

(* -------------------------------------------------------------- trima.rs *)
Record trima := mkTRIMA { tr_sma1 : sma; tr_sma2 : sma }.
Definition trima_new (n : Z) (v : F) : outcome trima :=
  do a <- sma_new n v; do b <- sma_new n v; Ok (mkTRIMA a b).
Definition trima_next (s : trima) (x : F) : trima * F :=
  let '(a, y) := sma_next (tr_sma1 s) x in
  let '(b, z) := sma_next (tr_sma2 s) y in (mkTRIMA a b, z).
Definition trima_peek (s : trima) : F := sma_peek (tr_sma2 s).

(* ---------------------------------------------------------------- hma.rs *)
Record hma := mkHMA { hma_w1 : wma; hma_w2 : wma; hma_w3 : wma }.
Definition hma_new (n : Z) (v : F) : outcome hma :=
  if (n =? 0) || (n =? 1) then EWMP else
  do a <- wma_new (n / 2) v; do b <- wma_new n v;
  do c <- wma_new (ftrunc_sat 0 pmax (fsqrt (fofZ n))) v; Ok (mkHMA a b c).
Definition hma_next (s : hma) (x : F) : hma * F :=
  let '(a, w1) := wma_next (hma_w1 s) x in
  let '(b, w2) := wma_next (hma_w2 s) x in
  let '(c, y) := wma_next (hma_w3 s) (ffma w1 f2 (fneg w2)) in (mkHMA a b c, y).
Definition hma_peek (s : hma) : F := wma_peek (hma_w3 s).

(* ------------------------------------------------------------ lin_reg.rs *)
Record linreg := mkLR { lr_s_xy : F; lr_s_y : F; lr_s_x : F; lr_fl : F; lr_linv : F; lr_divider : F;
                        lr_window : window F }.
Definition linreg_tan (s : linreg) : F :=
  fmul (ffma (lr_s_xy s) (lr_fl s) (fmul (lr_s_x s) (lr_s_y s))) (lr_divider s).
Definition linreg_b (s : linreg) : F :=
  fmul (ffma (lr_s_x s) (linreg_tan s) (lr_s_y s)) (lr_linv s).
Definition linreg_new (n : Z) (v : F) : outcome linreg :=
  if (n =? 0) || (n =? 1) || (n =? pmax) then EWMP else
  let fl := fofZ n in
  let linv := fneg (frecip fl) in
  let n_1 := n - 1 in
  let sx := n * n_1 / 2 in
  let sx2 := sx * (2 * n_1 + 1) / 3 in
  let divider := frecip (fofZ (n * sx2 - sx * sx)) in
  let s_x := fneg (fofZ sx) in
  Ok (mkLR (fmul v s_x) (fmul (fneg v) fl) s_x fl linv divider (w_new_t n v)).
Definition linreg_next (s : linreg) (x : F) : linreg * F :=
  let '(w, past) := w_push_t (lr_window s) x in
  let sxy := fadd (lr_s_xy s) (ffma past (lr_fl s) (lr_s_y s)) in
  let sy := fadd (lr_s_y s) (fsub past x) in
  let s' := mkLR sxy sy (lr_s_x s) (lr_fl s) (lr_linv s) (lr_divider s) w in
  (s', linreg_b s').
Definition linreg_peek := linreg_b.

(* --------------------------------------------------------------- conv.rs *)
Record conv := mkConv { cv_weights : list F; cv_window : window F; cv_wsum_invert : F }.
Definition conv_new (weights : list F) (v : F) : outcome conv :=
  let len := Z.of_nat (length weights) in
  if (1 <=? len) && (len <=? pmax - 1) then
    Ok (mkConv weights (w_new_t len v) (frecip (fsum weights)))
  else EWMP.
Definition conv_peek (s : conv) : F :=
  fmul (fsum (map (fun p => fmul (fst p) (snd p)) (combine (w_items (cv_window s)) (rev (cv_weights s)))))
       (cv_wsum_invert s).
Definition conv_next (s : conv) (x : F) : conv * F :=
  let '(w, _) := w_push_t (cv_window s) x in
  let s' := mkConv (cv_weights s) w (cv_wsum_invert s) in (s', conv_peek s').

(* --------------------------------------------------------------- vwma.rs *)
Record vwma := mkVWMA { vw_sum : F; vw_vol_sum : F; vw_window : window (F * F) }.
Definition vwma_new (n : Z) (v : F * F) : outcome vwma :=
  if bad_len n then EWMP else
  Ok (mkVWMA (fmul (fmul (fst v) (snd v)) (fofZ n)) (fmul (snd v) (fofZ n)) (w_new_t n v)).
Definition vwma_peek (s : vwma) : F := fdiv (vw_sum s) (vw_vol_sum s).
Definition vwma_next (s : vwma) (x : F * F) : vwma * F :=
  let '(w, past) := w_push_t (vw_window s) x in
  let vs := fadd (vw_vol_sum s) (fsub (snd x) (snd past)) in
  let sm := fadd (vw_sum s) (ffma (fst x) (snd x) (fmul (fneg (fst past)) (snd past))) in
  let s' := mkVWMA sm vs w in (s', vwma_peek s').

(* ----------------------------------------------------------- integral.rs *)
Record integral := mkInt { in_value : F; in_window : window F }.
Definition integral_new (n : Z) (v : F) : outcome integral :=
  if n =? pmax then EWMP else Ok (mkInt (fmul v (fofZ n)) (w_new_t n v)).
Definition integral_next (s : integral) (x : F) : integral * F :=
  let v := fadd (in_value s) x in
  if w_is_empty (in_window s) then (mkInt v (in_window s), v)
  else let '(w, old) := w_push_t (in_window s) x in
       let v2 := fsub v old in (mkInt v2 w, v2).
Definition integral_peek (s : integral) : F := in_value s.

(* ------------------------------------------- derivative / momentum / roc / past *)
Record deriv := mkDeriv { dv_divider : F; dv_window : window F }.
Definition derivative_new (n : Z) (v : F) : outcome deriv :=
  if bad_len n then EWMP else Ok (mkDeriv (frecip (fofZ n)) (w_new_t n v)).
Definition derivative_next (s : deriv) (x : F) : deriv * F :=
  let '(w, prev) := w_push_t (dv_window s) x in
  (mkDeriv (dv_divider s) w, fmul (fsub x prev) (dv_divider s)).

Definition momentum_new (n : Z) (v : F) : outcome (window F) :=
  if bad_len n then EWMP else Ok (w_new_t n v).
Definition momentum_next (w : window F) (x : F) : window F * F :=
  let '(w', prev) := w_push_t w x in (w', fsub x prev).

Definition roc_new := momentum_new.
Definition roc_next (w : window F) (x : F) : window F * F :=
  let '(w', prev) := w_push_t w x in (w', fdiv (fsub x prev) prev).

Definition past_new {A} (n : Z) (v : A) : outcome (window A) :=
  if bad_len n then EWMP else Ok (w_new_t n v).
Definition past_next {A} (w : window A) (x : A) : window A * A := w_push_t w x.
Definition past_peek {A} (w : window A) (d : A) : A :=
  match w_newest w with Ok v => v | _ => d end.

(* ------------------------------------------------------------- st_dev.rs *)
Record stdev := mkSD { sd_mean : F; sd_val_sum : F; sd_sq_val_sum : F; sd_divider : F; sd_k : F;
                       sd_window : window F }.
Definition stdev_new (n : Z) (v : F) : outcome stdev :=
  if (n =? 0) || (n =? 1) || (n =? pmax) then EWMP else
  let k := frecip (fofZ (n - 1)) in
  let fl := fofZ n in
  Ok (mkSD (fneg v) (fmul v fl) (fmul (fmul v v) fl) (fneg (frecip fl)) k (w_new_t n v)).
Definition stdev_peek (s : stdev) : F :=
  fsqrt (fabs (fmul (ffma (sd_val_sum s) (sd_mean s) (sd_sq_val_sum s)) (sd_k s))).
Definition stdev_next (s : stdev) (x : F) : stdev * F :=
  let '(w, prev) := w_push_t (sd_window s) x in
  let diff := fsub x prev in
  let sq := fadd (sd_sq_val_sum s) (fmul diff (fadd x prev)) in
  let vs := fadd (sd_val_sum s) diff in
  let mean := fadd (sd_mean s) (fmul diff (sd_divider s)) in
  let s' := mkSD mean vs sq (sd_divider s) (sd_k s) w in (s', stdev_peek s').

(* ------------------------------------------------ mean_abs_dev.rs, cci.rs *)
Definition mad_new (n : Z) (v : F) : outcome sma :=
  if n =? 0 then EWMP else sma_new n v.
Definition mad_peek (s : sma) : F :=
  let mean := sma_peek s in
  fmul (fsum (map (fun x => fabs (fsub x mean)) (w_as_slice (sma_window s)))) (sma_divider s).
Definition mad_next (s : sma) (x : F) : sma * F :=
  let '(s', _) := sma_next s x in (s', mad_peek s').

Definition cci_new (n : Z) (v : F) : outcome sma :=
  if n =? 0 then EWMP else mad_new n v.
Definition cci_next (s : sma) (x : F) : sma * F :=
  let '(s', mean) := mad_next s x in
  let ma := sma_peek s' in
  (s', if fgt mean f0 then fdiv (fsub x ma) mean else f0).

(* --------------------------------------------------------- volatility.rs *)
Record linvol := mkLV { lv_window : window F; lv_prev : F; lv_vol : F }.
Definition linvol_new (n : Z) (v : F) : outcome linvol :=
  if bad_len n then EWMP else Ok (mkLV (w_new_t n f0) v f0).
Definition linvol_next (s : linvol) (x : F) : linvol * F :=
  let d := fabs (fsub x (lv_prev s)) in
  let '(w, past) := w_push_t (lv_window s) d in
  let v := fadd (lv_vol s) (fsub d past) in (mkLV w x v, v).
Definition linvol_peek (s : linvol) : F := lv_vol s.

(* ---------------------------------------------------------------- adi.rs *)
Record adi := mkADI { adi_sum : F; adi_window : window F }.
Definition adi_new (n : Z) (c : candle) : outcome adi :=
  if n =? pmax then EWMP else
  if 0 <? n then
    let clvv := fmul (c_clv c) (c_volume c) in
    Ok (mkADI (fmul clvv (fofZ n)) (w_new_t n clvv))
  else Ok (mkADI f0 w_empty).
Definition adi_next (s : adi) (c : candle) : adi * F :=
  let clvv := fmul (c_clv c) (c_volume c) in
  let v := fadd (adi_sum s) clvv in
  if w_is_empty (adi_window s) then (mkADI v (adi_window s), v)
  else let '(w, old) := w_push_t (adi_window s) clvv in
       let v2 := fsub v old in (mkADI v2 w, v2).
Definition adi_peek (s : adi) : F := adi_sum s.

(* ---------------------------------------------------------------- tsi.rs *)
Record tsi := mkTSI { tsi_last : F; tsi_e11 : ema; tsi_e12 : ema; tsi_e21 : ema; tsi_e22 : ema }.
Definition tsi_new (short long : Z) (v : F) : outcome tsi :=
  do a <- ema_new long f0; do b <- ema_new short f0;
  do c <- ema_new long f0; do d <- ema_new short f0; Ok (mkTSI v a b c d).
Definition tsi_peek (s : tsi) : F :=
  let num := ema_peek (tsi_e12 s) in let den := ema_peek (tsi_e22 s) in
  if fgt den f0 then fdiv num den else f0.
Definition tsi_next (s : tsi) (x : F) : tsi * F :=
  let m := fsub x (tsi_last s) in
  let '(e11, y1) := ema_next (tsi_e11 s) m in
  let '(e12, _) := ema_next (tsi_e12 s) y1 in
  let '(e21, y2) := ema_next (tsi_e21 s) (fabs m) in
  let '(e22, _) := ema_next (tsi_e22 s) y2 in
  let s' := mkTSI x e11 e12 e21 e22 in (s', tsi_peek s').

(* -------------------------------------------------------------- vidya.rs *)
Record vidya := mkVid { vd_f : F; vd_up : F; vd_dn : F; vd_last_in : F; vd_last_out : F;
                        vd_window : window F }.
Definition vidya_new (n : Z) (v : F) : outcome vidya :=
  if bad_len n then EWMP else
  Ok (mkVid (fdiv f2 (fofZ (1 + n))) f0 f0 v v (w_new_t n f0)).
Definition vidya_next (s : vidya) (x : F) : vidya * F :=
  let change := fsub x (vd_last_in s) in
  let '(w, lft) := w_push_t (vd_window s) change in
  let up1 := fsub (vd_up s) (fmul lft (fofb (fgt lft f0))) in
  let dn1 := fadd (vd_dn s) (fmul lft (fofb (flt lft f0))) in
  let up2 := fadd up1 (fmul change (fofb (fgt change f0))) in
  let dn2 := fsub dn1 (fmul change (fofb (flt change f0))) in
  let out := if fne up2 f0 || fne dn2 f0 then
               let cmo := fabs (fdiv (fsub up2 dn2) (fadd up2 dn2)) in
               let f_cmo := fmul (vd_f s) cmo in
               ffma x f_cmo (fmul (fsub f1 f_cmo) (vd_last_out s))
             else x in
  (mkVid (vd_f s) up2 dn2 x out w, out).
Definition vidya_peek (s : vidya) : F := vd_last_out s.

(* ------------------------------------------------- tr.rs, heikin_ashi.rs *)
Definition tr_new (c : candle) : F := c_close c.           (* state: prev_close *)
Definition tr_next (prev_close : F) (c : candle) : F * F := (c_close c, c_tr_close c prev_close).

Definition ha_new (c : candle) : F := c_ohlc4 c.           (* state: next_open *)
Definition ha_next (next_open : F) (c : candle) : F * candle :=
  let open := next_open in
  let close := c_ohlc4 c in
  (fmul (fadd open close) (flit 1 2),
   mkCandle open (fmax (c_high c) open) (fmin (c_low c) open) close (c_volume c)).

End Methods.
