(** Indicator models, part 2: RelativeStrengthIndex, ChandeMomentumOscillator, MoneyFlowIndex,
    ChaikinMoneyFlow, StochasticOscillator, Aroon. *)
From Yata Require Import Base.Prelude Base.Num Core.Window Core.Candle Core.Action Core.Strings
  Methods.Basic Methods.Select Indicators.Common.

Section Set2.
Context {pw : PW} {N : Num}.
Definition fm1 : F := fneg f1.

(* ------------------------------------------------ relative_strength_index.rs *)
Record rsi_cfg := mkRsiCfg { rc_ma : ma_cfg; rc_zone : F; rc_source : source }.
Record rsi_st := mkRsi { rs_cfg : rsi_cfg; rs_prev : F; rs_pos : ma_state; rs_neg : ma_state;
                         rs_cross_upper : F * F; rs_cross_lower : F * F }.
Definition rsi_validate (c : rsi_cfg) : bool :=
  (2 <? ma_period (rc_ma c)) && fgt (rc_zone c) f0 && fle (rc_zone c) (flit 1 2).
Definition rsi_init (c : rsi_cfg) (k : candle) : outcome rsi_st :=
  if negb (rsi_validate c) then EWC else
  do p <- ma_init (rc_ma c) f0; do n <- ma_init (rc_ma c) f0;
  let du := cross_new (flit 1 2, fsub f1 (rc_zone c)) in
  let dl := cross_new (flit 1 2, rc_zone c) in
  Ok (mkRsi c (c_source k (rc_source c)) p n (du, du) (dl, dl)).
Definition rsi_next (s : rsi_st) (k : candle) : rsi_st * iresult :=
  let c := rs_cfg s in
  let src := c_source k (rc_source c) in
  let change := fsub src (rs_prev s) in
  let '(p, pos) := ma_next (rs_pos s) (fmax change f0) in
  let '(n, neg0) := ma_next (rs_neg s) (fmin change f0) in
  let neg := fmul neg0 fm1 in
  let sum := fadd pos neg in
  let value := if fne sum f0 then fdiv pos sum else flit 1 2 in
  let '(cl, al) := cross_next (rs_cross_lower s) (value, rc_zone c) in
  let '(cu, au) := cross_next (rs_cross_upper s) (value, fsub f1 (rc_zone c)) in
  let oversold := a_analog al in let overbought := a_analog au in
  let s1 := b2z (oversold <? 0) - b2z (0 <? overbought) in
  let s2 := b2z (0 <? oversold) - b2z (overbought <? 0) in
  (mkRsi c src p n cu cl, ([value], [a_from_i8 s1; a_from_i8 s2])).

(* ---------------------------------------------- chande_momentum_oscillator.rs *)
Record cmo_st := mkCmo { cm_zone : F; cm_source : source; cm_pos : F; cm_neg : F; cm_change : window F;
                         cm_window : window F; cm_cu : F; cm_ca : F }.
Definition cmo_validate (period : Z) (zone : F) : bool :=
  fge zone f0 && fle zone f1 && (1 <? period) && (period <? pmax).
Definition cmo_init (period : Z) (zone : F) (src : source) (k : candle) : outcome cmo_st :=
  if negb (cmo_validate period zone) then EWC else
  do ch <- momentum_new 1 (c_source k src);
  Ok (mkCmo zone src f0 f0 ch (w_new_t period f0) f0 f0).
Definition cmo_change (ch : F) : F * F :=
  (fmul (fofb (fgt ch f0)) ch, fmul (fofb (flt ch f0)) (fneg ch)).
Definition cmo_next (s : cmo_st) (k : candle) : cmo_st * iresult :=
  let '(chw, ch) := momentum_next (cm_change s) (c_source k (cm_source s)) in
  let '(w, lft) := w_push_t (cm_window s) ch in
  let '(lp, ln) := cmo_change lft in let '(rp, rn) := cmo_change ch in
  let pos := fadd (cm_pos s) (fsub rp lp) in
  let neg := fadd (cm_neg s) (fsub rn ln) in
  let value := if fne pos f0 || fne neg f0 then fdiv (fsub pos neg) (fadd pos neg) else f0 in
  let '(cu, au) := cross_under_next (cm_cu s) (value, fneg (cm_zone s)) in
  let '(ca, aa) := cross_above_next (cm_ca s) (value, cm_zone s) in
  (mkCmo (cm_zone s) (cm_source s) pos neg chw w cu ca, ([value], [a_sub au aa])).

(* ------------------------------------------------------- money_flow_index.rs *)
Record mfi_st := mkMfi { mf_zone : F; mf_window : window candle; mf_prev : candle; mf_last_prev : candle;
                         mf_pmf : F; mf_nmf : F; mf_cl : F * F; mf_cu : F * F }.
Definition mfi_validate (period : Z) (zone : F) : bool :=
  fge zone f0 && fle zone (flit 1 2) && (0 <? period) && (period <? pmax).
Definition mfi_init (period : Z) (zone : F) (k : candle) : outcome mfi_st :=
  if negb (mfi_validate period zone) then EWC else
  Ok (mkMfi zone (w_new_t period k) k k f0 f0 (f0, f0) (f0, f0)).
Definition mfi_tfunc (c lastc : candle) : F * F :=
  let tp1 := c_tp c in let tp2 := c_tp lastc in
  (fmul (fofb (fgt tp1 tp2)) (c_volume c), fmul (fofb (flt tp1 tp2)) (c_volume c)).
Definition mfi_next (s : mfi_st) (k : candle) : mfi_st * iresult :=
  let '(pos, neg) := mfi_tfunc k (mf_prev s) in
  let '(w, lastc) := w_push_t (mf_window s) k in
  let '(lpos, lneg) := mfi_tfunc lastc (mf_last_prev s) in
  let pmf := fadd (mf_pmf s) (fsub pos lpos) in
  let nmf := fadd (mf_nmf s) (fsub neg lneg) in
  let mfr := if feq nmf f0 then f1 else fdiv pmf nmf in
  let value := fsub f1 (frecip (fadd f1 mfr)) in
  let upper := fsub f1 (mf_zone s) in let lower := mf_zone s in
  let '(cu, au) := cross_next (mf_cu s) (value, upper) in
  let '(cl, al) := cross_next (mf_cl s) (value, lower) in
  let xu := a_to_i8 au in let xl := a_to_i8 al in
  let enters := b2z (xl <? 0) - b2z (0 <? xu) in
  let leaves := b2z (0 <? xl) - b2z (xu <? 0) in
  (mkMfi (mf_zone s) w k lastc pmf nmf cl cu, ([upper; value; lower], [a_from_i8 enters; a_from_i8 leaves])).

(* ----------------------------------------------------- chaikin_money_flow.rs *)
Record cmf_st := mkCmf { cf_adi : adi; cf_vol_sum : F; cf_window : window F; cf_cross : F * F }.
Definition cmf_init (size : Z) (k : candle) : outcome cmf_st :=
  if negb ((1 <? size) && (size <? pmax)) then EWC else
  do a <- adi_new size k;
  Ok (mkCmf a (fmul (c_volume k) (fofZ size)) (w_new_t size (c_volume k)) (f0, f0)).
Definition cmf_next (s : cmf_st) (k : candle) : cmf_st * iresult :=
  let '(a, adiv) := adi_next (cf_adi s) k in
  let '(w, old) := w_push_t (cf_window s) (c_volume k) in
  let vs := fadd (cf_vol_sum s) (fsub (c_volume k) old) in
  let value := fdiv adiv vs in
  let '(c, sg) := cross_next (cf_cross s) (value, f0) in
  (mkCmf a vs w c, ([value], [sg])).

(* -------------------------------------------------- stochastic_oscillator.rs *)
Record sto_cfg := mkStoCfg { sc_period : Z; sc_ma : ma_cfg; sc_signal : ma_cfg; sc_zone : F }.
Record sto_st := mkSto { so_cfg : sto_cfg; so_upper : F; so_high : hl; so_low : hl; so_ma1 : ma_state; so_ma2 : ma_state;
                         so_cross : F * F; so_ca1 : F; so_cu1 : F; so_ca2 : F; so_cu2 : F }.
Definition sto_validate (c : sto_cfg) : bool :=
  (1 <? sc_period c) && fge (sc_zone c) f0 && fle (sc_zone c) (flit 1 2).
Definition sto_init (c : sto_cfg) (k : candle) : outcome sto_st :=
  if negb (sto_validate c) then EWC else
  let k_rows := if feq (c_high k) (c_low k) then flit 1 2
                else fdiv (fsub (c_close k) (c_low k)) (fsub (c_high k) (c_low k)) in
  do h <- hl_new (sc_period c) (c_high k); do l <- hl_new (sc_period c) (c_low k);
  do m1 <- ma_init (sc_ma c) k_rows; do m2 <- ma_init (sc_signal c) k_rows;
  Ok (mkSto c (fsub f1 (sc_zone c)) h l m1 m2 (f0, f0) f0 f0 f0 f0).
Definition sto_next (s : sto_st) (k : candle) : sto_st * iresult :=
  let c := so_cfg s in
  let '(h, highest) := highest_step (so_high s) (c_high k) in
  let '(l, lowest) := lowest_step (so_low s) (c_low k) in
  let k_rows := if feq highest lowest then flit 1 2
                else fdiv (fsub (c_close k) lowest) (fsub highest lowest) in
  let '(m1, v1) := ma_next (so_ma1 s) k_rows in
  let '(m2, v2) := ma_next (so_ma2 s) v1 in
  let '(ca1, a1) := cross_above_next (so_ca1 s) (v1, sc_zone c) in
  let '(cu1, u1) := cross_under_next (so_cu1 s) (v1, so_upper s) in
  let '(ca2, a2) := cross_above_next (so_ca2 s) (v2, sc_zone c) in
  let '(cu2, u2) := cross_under_next (so_cu2 s) (v2, so_upper s) in
  let '(cx, s3) := cross_next (so_cross s) (v1, v2) in
  (mkSto c (so_upper s) h l m1 m2 cx ca1 cu1 ca2 cu2, ([v1; v2], [a_sub a1 u1; a_sub a2 u2; s3])).

(* ------------------------------------------------------------------ aroon.rs *)
Record aroon_st := mkAroon { ar_period : Z; ar_zone : F; ar_ozp : Z; ar_low : hli; ar_high : hli; ar_cross : F * F;
                             ar_up : Z; ar_down : Z }.
Definition aroon_validate (period : Z) (zone : F) (ozp : Z) : bool :=
  fge zone f0 && fle zone f1 && (1 <? period) && (period <? pmax) && (0 <? ozp) && (ozp <? pmax).
Definition aroon_init (period : Z) (zone : F) (ozp : Z) (k : candle) : outcome aroon_st :=
  if negb (aroon_validate period zone ozp) then EWC else
  do l <- hli_new period (c_low k); do h <- hli_new period (c_high k);
  Ok (mkAroon period zone ozp l h (f0, f0) 0 0).
Definition aroon_next (s : aroon_st) (k : candle) : aroon_st * iresult :=
  let '(h, hi) := highest_index_step (ar_high s) (c_high k) in
  let '(l, li) := lowest_index_step (ar_low s) (c_low k) in
  let p := fofZ (ar_period s) in
  let up := fdiv (fofZ (ar_period s - hi)) p in
  let down := fdiv (fofZ (ar_period s - li)) p in
  let '(c, trend) := cross_next (ar_cross s) (up, down) in
  let edge := b2z (hi =? 0) - b2z (li =? 0) in
  let z := ar_zone s in
  let up_over := b2z (fge up (fsub f1 z)) in let up_under := b2z (fle up z) in
  let down_over := b2z (fge down (fsub f1 z)) in let down_under := b2z (fle down z) in
  let upt := (ar_up s + 1) * up_over * down_under in
  let dnt := (ar_down s + 1) * down_over * up_under in
  let tv := fdiv (fofZ (upt - dnt)) (fofZ (ar_ozp s)) in
  (mkAroon (ar_period s) z (ar_ozp s) l h c upt dnt, ([up; down], [trend; a_from_i8 edge; a_from_f tv])).
End Set2.
