(** Indicator models, part 5: ChandeKrollStop, EaseOfMovement, Kaufman, KlingerVolumeOscillator, TrendStrengthIndex. *)
From Yata Require Import Base.Prelude Base.Num Core.Window Core.Candle Core.Action Core.Strings
  Methods.Basic Methods.Select Indicators.Common.

Section Set5.
Context {pw : PW} {N : Num}.
Definition fsign (x : F) : F := fsub (fofb (fgt x f0)) (fofb (flt x f0)).
Definition signi (x : F) : Z := b2z (fgt x f0) - b2z (flt x f0).

(* -------------------------------------------------------- chande_kroll_stop.rs *)
Record cks_st := mkCks { ck_x : F; ck_source : source; ck_ma : ma_state; ck_h1 : hl; ck_l1 : hl; ck_h2 : hl; ck_l2 : hl;
                         ck_prev_close : F; ck_prev_short : F; ck_prev_long : F; ck_ca : F }.
Definition cks_init (ma : ma_cfg) (x : F) (q : Z) (src : source) (k : candle) : outcome cks_st :=
  if negb (fge x f0 && (0 <? ma_period ma) && (0 <? q)) then EWC else
  let tr := fsub (c_high k) (c_low k) in
  let short0 := ffma x (fneg tr) (c_high k) in
  let long0 := ffma x tr (c_low k) in
  do m <- ma_init ma (c_tr k k);
  do h1 <- hl_new (ma_period ma) (c_high k); do l1 <- hl_new (ma_period ma) (c_low k);
  do h2 <- hl_new q short0; do l2 <- hl_new q long0;
  Ok (mkCks x src m h1 l1 h2 l2 (c_close k) short0 long0 (cross_new (long0, short0))).
Definition cks_next (s : cks_st) (k : candle) : cks_st * iresult :=
  let tr := c_tr_close k (ck_prev_close s) in
  let '(m, atr) := ma_next (ck_ma s) tr in
  let '(h1, hi) := highest_step (ck_h1 s) (c_high k) in
  let '(l1, lo) := lowest_step (ck_l1 s) (c_low k) in
  let phs := ffma atr (fneg (ck_x s)) hi in
  let pls := ffma atr (ck_x s) lo in
  let '(h2, stop_short) := highest_step (ck_h2 s) phs in
  let '(l2, stop_long) := lowest_step (ck_l2 s) pls in
  let src := c_source k (ck_source s) in
  let mid := fmul (fadd stop_short stop_long) (flit 1 2) in
  let size := fsub mid stop_long in
  let value := if feq size f0 then f0 else fdiv (fsub src mid) size in
  let s2_diff := fadd (fsub stop_short (ck_prev_short s)) (fsub stop_long (ck_prev_long s)) in
  let is_s2 := b2z (flt stop_short stop_long) in
  let '(ca, cra) := cross_above_next (ck_ca s) (stop_long, stop_short) in
  let s2 := a_to_i8 cra * is_s2 * signi s2_diff in
  (mkCks (ck_x s) (ck_source s) m h1 l1 h2 l2 (c_close k) stop_short stop_long ca,
   ([stop_long; src; stop_short], [a_from_f value; a_from_i8 s2])).

(* --------------------------------------------------------- ease_of_movement.rs *)
Record eom_st := mkEom { eo_ma : ma_state; eo_w : window candle; eo_cross : F * F }.
Definition eom_init (ma : ma_cfg) (p2 : Z) (k : candle) : outcome eom_st :=
  if negb ((1 <? ma_period ma) && (ma_period ma <? pmax) && (1 <=? p2) && (p2 <? pmax)) then EWC else
  do m <- ma_init ma f0; Ok (mkEom m (w_new_t p2 k) (cross_new (f0, f0), cross_new (f0, f0))).
Definition eom_next (s : eom_st) (k : candle) : eom_st * iresult :=
  let '(w, prev) := w_push_t (eo_w s) k in
  let d_high := fsub (c_high k) (c_high prev) in
  let d_low := fsub (c_low k) (c_low prev) in
  let d := fmul (fadd d_high d_low) (flit 1 2) in
  let v := if feq (c_volume k) f0 then f0 else fdiv (fmul d (fsub (c_high k) (c_low k))) (c_volume k) in
  let '(m, value) := ma_next (eo_ma s) v in
  let '(c, sg) := cross_next (eo_cross s) (value, f0) in
  (mkEom m w c, ([value], [sg])).

(* ------------------------------------------------------------------ kaufman.rs *)
Record kauf_cfg := mkKaufCfg { kf_p1 : Z; kf_p2 : Z; kf_p3 : Z; kf_filter : Z; kf_square : bool; kf_k : F; kf_source : source }.
Record kauf_st := mkKauf { ka_cfg : kauf_cfg; ka_vol : linvol; ka_change : window F; ka_fastest : F; ka_slowest : F;
                           ka_sd : stdev; ka_cross : F * F; ka_last_signal : action; ka_last_value : F; ka_prev : F }.
Definition kauf_validate (c : kauf_cfg) : bool :=
  (kf_p2 c <? kf_p3 c) && (kf_p3 c <? pmax) && (0 <? kf_p2 c) && (0 <? kf_p1 c) && (fgt (kf_k c) f0 || (kf_filter c <? 2)).
Definition kauf_init (c : kauf_cfg) (k : candle) : outcome kauf_st :=
  if negb (kauf_validate c) then EWC else
  let v := c_source k (kf_source c) in
  do lv <- linvol_new (kf_p1 c) v; do ch <- momentum_new (kf_p1 c) v; do sd <- stdev_new (kf_filter c) v;
  Ok (mkKauf c lv ch (fdiv f2 (fofZ (kf_p2 c + 1))) (fdiv f2 (fofZ (kf_p3 c + 1))) sd (f0, f0) ANone v v).
Definition a_is_some (a : action) : bool := negb (a_is_none a).
Definition kauf_next (s : kauf_st) (k : candle) : kauf_st * iresult :=
  let c := ka_cfg s in
  let src := c_source k (kf_source c) in
  let '(ch, dir0) := momentum_next (ka_change s) src in
  let direction := fabs dir0 in
  let '(lv, volatility) := linvol_next (ka_vol s) src in
  let er := if feq volatility f0 then f0 else fdiv direction volatility in
  let smooth0 := ffma er (fsub (ka_fastest s) (ka_slowest s)) (ka_slowest s) in
  let smooth := if kf_square c then fmul smooth0 smooth0 else smooth0 in
  let value := ffma smooth (fsub src (ka_prev s)) (ka_prev s) in
  let '(cx, cross) := cross_next (ka_cross s) (src, value) in
  if 1 <? kf_filter c then
    let '(sd, sdv) := stdev_next (ka_sd s) value in
    let filter := fmul sdv (kf_k c) in
    let '(signal, last_signal, last_value) :=
      if a_is_some cross then (ANone, cross, value)
      else if a_is_some (ka_last_signal s) && fgt (fabs (fsub value (ka_last_value s))) filter
           then (ka_last_signal s, ANone, ka_last_value s)
      else (ANone, ka_last_signal s, ka_last_value s) in
    (mkKauf c lv ch (ka_fastest s) (ka_slowest s) sd cx last_signal last_value value, ([value], [signal]))
  else
    (mkKauf c lv ch (ka_fastest s) (ka_slowest s) (ka_sd s) cx (ka_last_signal s) (ka_last_value s) value, ([value], [cross])).

(* ------------------------------------------------- klinger_volume_oscillator.rs *)
Record kvo_st := mkKvo { kv_ma1 : ma_state; kv_ma2 : ma_state; kv_ma3 : ma_state; kv_c1 : F * F; kv_c2 : F * F; kv_last_tp : F }.
Definition kvo_init (ma1 ma2 signal : ma_cfg) (k : candle) : outcome kvo_st :=
  if negb (ma_similar ma1 ma2 && (1 <? ma_period ma1) && (1 <? ma_period signal) && (ma_period ma1 <? ma_period ma2)) then EWC else
  do a <- ma_init ma1 f0; do b <- ma_init ma2 f0; do c <- ma_init signal f0;
  Ok (mkKvo a b c (f0, f0) (f0, f0) (c_tp k)).
Definition kvo_next (s : kvo_st) (k : candle) : kvo_st * iresult :=
  let tp := c_tp k in
  let d := fsub tp (kv_last_tp s) in
  let vol := fmul (fsign d) (c_volume k) in
  let '(a, v1) := ma_next (kv_ma1 s) vol in
  let '(b, v2) := ma_next (kv_ma2 s) vol in
  let ko := fsub v1 v2 in
  let '(c, v3) := ma_next (kv_ma3 s) ko in
  let '(c1, s1) := cross_next (kv_c1 s) (ko, f0) in
  let '(c2, s2) := cross_next (kv_c2 s) (ko, v3) in
  (mkKvo a b c c1 c2 tp, ([ko; v3], [s1; s2])).

(* ------------------------------------------------------ trend_strength_index.rs *)
Record tsx_st := mkTsx { tz_zone : F; tz_offset : Z; tz_source : source; tz_inv : F; tz_sx : F; tz_sy : F; tz_sy2 : F;
                         tz_k : F; tz_wma : wma; tz_cu : F; tz_ca : F; tz_rev : rvs * rvs; tz_window : window F }.
Definition tsx_init (period : Z) (zone : F) (offset : Z) (src : source) (k : candle) : outcome tsx_st :=
  if (1 <? period) && (period <? pmax) && fge zone f0 && flt zone f1 && (0 <? offset) && (offset <? period) then
    let v := c_source k src in
    let sx := (period + 1) * period / 2 in
    let sx2 := fdiv (fofZ (sx * (2 * period + 1))) (fofZ 3) in
    let inv_sx := fmul (fofZ ((period + 1) * sx)) (flit 1 2) in
    do w <- wma_new period v; do r <- reversal_new 1 2 f0;
    Ok (mkTsx zone offset src (frecip (fofZ period)) (fofZ sx) (fmul v (fofZ period)) (fmul (fmul v v) (fofZ period))
              (fsub sx2 inv_sx) w (cross_new (f0, zone)) (cross_new (f0, fneg zone)) r (w_new_t period v))
  else EWC.
Definition tsx_next (s : tsx_st) (k : candle) : tsx_st * iresult :=
  let src := c_source k (tz_source s) in
  let '(w, past) := w_push_t (tz_window s) src in
  let sy := fadd (tz_sy s) (fsub src past) in
  let sy2 := fadd (tz_sy2 s) (ffma src src (fmul (fneg past) past)) in
  let sma := fmul (tz_inv s) sy in
  let '(wm, wv) := wma_next (tz_wma s) src in
  let p := fmul (fsub wv sma) (tz_sx s) in
  let q := fmul (tz_k s) (ffma sma (fneg sy) sy2) in
  let value := fdiv p (fsqrt q) in
  let '(cu, au) := cross_under_next (tz_cu s) (value, tz_zone s) in
  let '(ca, aa) := cross_above_next (tz_ca s) (value, fneg (tz_zone s)) in
  let '(r, ra) := reversal_next (tz_rev s) value in
  let reverse := a_analog ra in
  let at_off := match w_index w (tz_offset s) with Ok v => v | _ => f0 end in
  let up := (reverse <? 0) && fge at_off (tz_zone s) in
  let lowr := (0 <? reverse) && fle at_off (fneg (tz_zone s)) in
  (mkTsx (tz_zone s) (tz_offset s) (tz_source s) (tz_inv s) (tz_sx s) sy sy2 (tz_k s) wm cu ca r w,
   ([value], [a_sub au aa; a_from_i8 (b2z up - b2z lowr)])).
End Set5.
