(** Indicator models, part 4: AverageDirectionalIndex, AwesomeOscillator, ChaikinOscillator,
    HullMovingAverage, PivotReversalStrategy, IchimokuCloud, RelativeVigorIndex, WoodiesCCI, CoppockCurve.
    (HLC is modelled as a candle whose open/volume are never read.) *)
From Yata Require Import Base.Prelude Base.Num Core.Window Core.Candle Core.Action Core.Strings
  Methods.Basic Methods.Select Indicators.Common Indicators.Set3.

Section Set4.
Context {pw : PW} {N : Num}.

(* ------------------------------------------------ average_directional_index.rs *)
Record adx_cfg := mkAdxCfg { ac_m1 : ma_cfg; ac_m2 : ma_cfg; ac_period1 : Z; ac_zone : F }.
Record adx_st := mkAdx { ax_cfg : adx_cfg; ax_window : window candle; ax_prev_close : F; ax_tr : ma_state;
                         ax_plus : ma_state; ax_minus : ma_state; ax_ma2 : ma_state }.
Definition adx_validate (c : adx_cfg) : bool :=
  (1 <=? ma_period (ac_m1 c)) && (ma_period (ac_m1 c) <? pmax) && (1 <=? ma_period (ac_m2 c)) && (ma_period (ac_m2 c) <? pmax)
  && fge (ac_zone c) f0 && fle (ac_zone c) f1 && (1 <=? ac_period1 c)
  && (ac_period1 c <? ma_period (ac_m1 c)) && (ac_period1 c <? ma_period (ac_m2 c)).
Definition adx_init (c : adx_cfg) (k : candle) : outcome adx_st :=
  if negb (adx_validate c) then EWC else
  do t <- ma_init (ac_m1 c) (c_tr k k); do p <- ma_init (ac_m1 c) f0; do m <- ma_init (ac_m1 c) f0;
  do a <- ma_init (ac_m2 c) f0;
  Ok (mkAdx c (w_new_t (ac_period1 c) k) (c_close k) t p m a).
Definition adx_next (s : adx_st) (k : candle) : adx_st * iresult :=
  let c := ax_cfg s in
  let '(w, prev) := w_push_t (ax_window s) k in
  let '(t, true_range) := ma_next (ax_tr s) (c_tr_close k (ax_prev_close s)) in
  let '(pc, p, m, plus, minus) :=
    if feq true_range f0 then (ax_prev_close s, ax_plus s, ax_minus s, f0, f0)
    else
      let du := fsub (c_high k) (c_high prev) in
      let dd := fsub (c_low prev) (c_low k) in
      let plus_dm := fmul du (fofb (fgt du dd && fgt du f0)) in
      let minus_dm := fmul dd (fofb (fgt dd du && fgt dd f0)) in
      let '(p, pv) := ma_next (ax_plus s) plus_dm in
      let '(m, mv) := ma_next (ax_minus s) minus_dm in
      (c_close k, p, m, fdiv pv true_range, fdiv mv true_range) in
  let sm := fadd plus minus in
  let '(a, adx) := if feq sm f0 then ma_next (ax_ma2 s) f0
                   else ma_next (ax_ma2 s) (fdiv (fabs (fsub plus minus)) sm) in
  let s1 := b2z (fgt adx (ac_zone c)) * (b2z (fgt plus minus) - b2z (flt plus minus)) in
  (mkAdx c w pc t p m a, ([adx; plus; minus], [a_from_i8 s1; a_from_f (fsub plus minus)])).

(* ------------------------------------------------------- awesome_oscillator.rs *)
Record ao_cfg := mkAoCfg { oc_ma1 : ma_cfg; oc_ma2 : ma_cfg; oc_source : source; oc_left : Z; oc_right : Z; oc_peaks : Z }.
Record ao_st := mkAo { ao_cfg_ : ao_cfg; ao_ma1 : ma_state; ao_ma2 : ma_state; ao_cross : F * F; ao_rev : rvs * rvs;
                       ao_low : Z; ao_high : Z }.
Definition ao_validate (c : ao_cfg) : bool :=
  (2 <? ma_period (oc_ma1 c)) && ma_similar (oc_ma1 c) (oc_ma2 c) && (ma_period (oc_ma1 c) <? pmax)
  && (ma_period (oc_ma2 c) <? ma_period (oc_ma1 c)) && (1 <? ma_period (oc_ma2 c))
  && (0 <? oc_left c) && (0 <? oc_right c) && (0 <? oc_peaks c) && (sat_add (oc_left c) (oc_right c) <? pmax).
Definition ao_init (c : ao_cfg) (k : candle) : outcome ao_st :=
  if negb (ao_validate c) then EWC else
  let src := c_source k (oc_source c) in
  do a <- ma_init (oc_ma1 c) src; do b <- ma_init (oc_ma2 c) src; do r <- reversal_new (oc_left c) (oc_right c) f0;
  Ok (mkAo c a b (f0, f0) r 0 0).
Definition u8_sat (z : Z) : Z := Z.min 255 z.
Definition ao_next (s : ao_st) (k : candle) : ao_st * iresult :=
  let c := ao_cfg_ s in
  let src := c_source k (oc_source c) in
  let '(b, v2) := ma_next (ao_ma2 s) src in
  let '(a, v1) := ma_next (ao_ma1 s) src in
  let value := fsub v2 v1 in
  let '(r, ra) := reversal_next (ao_rev s) value in
  let reverse := a_to_i8 ra in
  let hp := u8_sat (ao_high s + b2z (0 <? reverse)) in
  let lp := u8_sat (ao_low s + b2z (reverse <? 0)) in
  let s1 := b2z ((reverse <? 0) && (oc_peaks c <=? lp)) - b2z ((0 <? reverse) && (oc_peaks c <=? hp)) in
  let '(cx, s2) := cross_next (ao_cross s) (value, f0) in
  (mkAo c a b cx r (lp * b2z (fle value f0)) (hp * b2z (fge value f0)), ([value], [a_from_i8 s1; s2])).

(* ------------------------------------------------------- chaikin_oscillator.rs *)
Record co_st := mkCo { co_adi : adi; co_ma1 : ma_state; co_ma2 : ma_state; co_cross : F * F }.
Definition co_init (ma1 ma2 : ma_cfg) (window : Z) (k : candle) : outcome co_st :=
  if negb (ma_similar ma1 ma2 && (0 <? ma_period ma1) && (ma_period ma1 <? ma_period ma2) && (ma_period ma2 <? pmax)) then EWC else
  do a <- adi_new window k;
  do m1 <- ma_init ma1 (adi_peek a); do m2 <- ma_init ma2 (adi_peek a); Ok (mkCo a m1 m2 (f0, f0)).
Definition co_next (s : co_st) (k : candle) : co_st * iresult :=
  let '(a, v) := adi_next (co_adi s) k in
  let '(m1, d1) := ma_next (co_ma1 s) v in
  let '(m2, d2) := ma_next (co_ma2 s) v in
  let value := fsub d1 d2 in
  let '(c, sg) := cross_next (co_cross s) (value, f0) in
  (mkCo a m1 m2 c, ([value], [sg])).

(* ------------------------------------------------------ hull_moving_average.rs *)
Record hmai_st := mkHmai { hi_source : source; hi_hma : hma; hi_pivot : rvs * rvs }.
Definition hmai_init (period lft right : Z) (src : source) (k : candle) : outcome hmai_st :=
  if negb ((2 <? period) && (1 <=? lft) && (1 <=? right) && (sat_add lft right <? pmax)) then EWC else
  let v := c_source k src in
  do h <- hma_new period v; do r <- reversal_new lft right v; Ok (mkHmai src h r).
Definition hmai_next (s : hmai_st) (k : candle) : hmai_st * iresult :=
  let '(h, value) := hma_next (hi_hma s) (c_source k (hi_source s)) in
  let '(r, sg) := reversal_next (hi_pivot s) value in
  (mkHmai (hi_source s) h r, ([value], [sg])).

(* -------------------------------------------------- pivot_reversal_strategy.rs *)
Record prs_st := mkPrs { pr_ph : rvs; pr_pl : rvs; pr_window : window candle; pr_hprice : F; pr_lprice : F }.
Definition prs_init (lft right : Z) (k : candle) : outcome prs_st :=
  if negb ((1 <=? lft) && (1 <=? right) && (sat_add lft right <? pmax)) then EWC else
  do h <- rev_new lft right (c_high k); do l <- rev_new lft right (c_low k);
  Ok (mkPrs h l (w_new_t right k) f0 f0).
Definition prs_next (s : prs_st) (k : candle) : prs_st * iresult :=
  let '(w, past) := w_push_t (pr_window s) k in
  let '(h, swh) := upper_rev_next (pr_ph s) (c_high k) in
  let '(l, swl) := lower_rev_next (pr_pl s) (c_low k) in
  let hprice := if 0 <? a_analog swh then c_high past else pr_hprice s in
  let le := if (0 <? a_analog swh) || fle (c_high k) hprice then 1 else 0 in
  let lprice := if 0 <? a_analog swl then c_low past else pr_lprice s in
  let se := if (0 <? a_analog swl) || fge (c_low k) lprice then 1 else 0 in
  (mkPrs h l w hprice lprice, ([], [a_from_i8 (se - le)])).

(* ----------------------------------------------------------- ichimoku_cloud.rs *)
Record ichi_st := mkIchi { ic_source : source; ic_h1 : hl; ic_h2 : hl; ic_h3 : hl; ic_l1 : hl; ic_l2 : hl; ic_l3 : hl;
                           ic_w1 : window F; ic_w2 : window F; ic_c1 : F * F; ic_c2 : F * F }.
Definition ichi_init (l1 l2 l3 m : Z) (src : source) (k : candle) : outcome ichi_st :=
  if negb ((l1 <? l2) && (l2 <? l3) && (0 <? m) && (m <? pmax)) then EWC else
  do h1 <- hl_new l1 (c_high k); do h2 <- hl_new l2 (c_high k); do h3 <- hl_new l3 (c_high k);
  do o1 <- hl_new l1 (c_low k); do o2 <- hl_new l2 (c_low k); do o3 <- hl_new l3 (c_low k);
  Ok (mkIchi src h1 h2 h3 o1 o2 o3 (w_new_t m (c_hl2 k)) (w_new_t m (c_hl2 k)) (f0, f0) (f0, f0)).
Definition ichi_next (s : ichi_st) (k : candle) : ichi_st * iresult :=
  let src := c_source k (ic_source s) in
  let '(h1, hi1) := highest_step (ic_h1 s) (c_high k) in let '(o1, lo1) := lowest_step (ic_l1 s) (c_low k) in
  let '(h2, hi2) := highest_step (ic_h2 s) (c_high k) in let '(o2, lo2) := lowest_step (ic_l2 s) (c_low k) in
  let '(h3, hi3) := highest_step (ic_h3 s) (c_high k) in let '(o3, lo3) := lowest_step (ic_l3 s) (c_low k) in
  let half := flit 1 2 in
  let tenkan := fmul (fadd hi1 lo1) half in
  let kijun := fmul (fadd hi2 lo2) half in
  let '(w1, span_a) := w_push_t (ic_w1 s) (fmul (fadd tenkan kijun) half) in
  let '(w2, span_b) := w_push_t (ic_w2 s) (fmul (fadd hi3 lo3) half) in
  let '(c1, x1) := cross_next (ic_c1 s) (tenkan, kijun) in
  let '(c2, x2) := cross_next (ic_c2 s) (src, kijun) in
  let green := fgt span_a span_b in let red := flt span_a span_b in
  let above := fgt src span_a && fgt src span_b && green in
  let below := flt src span_a && flt src span_b && red in
  let s1 := b2z (above && a_eq x1 a_buy_all) - b2z (below && a_eq x1 a_sell_all) in
  let s2 := b2z (above && a_eq x2 a_buy_all) - b2z (below && a_eq x2 a_sell_all) in
  (mkIchi (ic_source s) h1 h2 h3 o1 o2 o3 w1 w2 c1 c2, ([tenkan; kijun; span_a; span_b], [a_from_i8 s1; a_from_i8 s2])).

(* ------------------------------------------------------ relative_vigor_index.rs *)
Record rvi_st := mkRvi { rv_zone : F; rv_prev_close : F; rv_swma1 : swma; rv_sma1 : sma; rv_swma2 : swma; rv_sma2 : sma;
                         rv_ma : ma_state; rv_cross : F * F }.
Definition rvi_init (p1 p2 : Z) (signal : ma_cfg) (zone : F) (k : candle) : outcome rvi_st :=
  if negb ((2 <=? p1) && fge zone f0 && flt zone (flit 1 2) && (1 <? p2) && (1 <? ma_period signal)) then EWC else
  let d_hl := fsub (c_high k) (c_low k) in
  do w1 <- swma_new p2 f0; do a1 <- sma_new p1 f0; do w2 <- swma_new p2 d_hl; do a2 <- sma_new p1 d_hl;
  do m <- ma_init signal f0;
  Ok (mkRvi zone (c_close k) w1 a1 w2 a2 m (f0, f0)).
Definition rvi_next (s : rvi_st) (k : candle) : rvi_st * iresult :=
  let close_open := fsub (c_close k) (rv_prev_close s) in
  let high_low := fsub (c_high k) (c_low k) in
  let '(w1, x1) := swma_next (rv_swma1 s) close_open in
  let '(a1, y1) := sma_next (rv_sma1 s) x1 in
  let '(w2, x2) := swma_next (rv_swma2 s) high_low in
  let '(a2, y2) := sma_next (rv_sma2 s) x2 in
  let rvi := if feq y2 f0 then f0 else fdiv y1 y2 in
  let '(m, sg) := ma_next (rv_ma s) rvi in
  let '(c, cr) := cross_next (rv_cross s) (rvi, sg) in
  let s1 := a_analog cr in
  let z := rv_zone s in
  let s2 := b2z ((s1 <? 0) && fgt rvi z && fgt sg z) - b2z ((0 <? s1) && flt rvi (fneg z) && flt sg (fneg z)) in
  (mkRvi z (c_close k) w1 a1 w2 a2 m c, ([rvi; sg], [a_from_i8 s1; a_from_i8 s2])).

(* ---------------------------------------------------------------- woodies_cci.rs *)
Record wcci_st := mkWcci { wc_lag : Z; wc_source : source; wc_turbo : sma; wc_trend : sma; wc_count : Z; wc_cross : F * F }.
Definition wcci_init (p1 p2 lag : Z) (src : source) (k : candle) : outcome wcci_st :=
  if negb ((p1 <? p2) && (0 <? lag) && (p2 <? pmax) && (lag <? pmax)) then EWC else
  let v := c_source k src in
  do a <- cci_new p1 v; do b <- cci_new p2 v; Ok (mkWcci lag src a b 0 (f0, f0)).
Definition wcci_next (s : wcci_st) (k : candle) : wcci_st * iresult :=
  let v := c_source k (wc_source s) in
  let '(a, t0) := cci_next (wc_turbo s) v in let '(b, r0) := cci_next (wc_trend s) v in
  let turbo := fmul t0 cci_scale in let trend := fmul r0 cci_scale in
  let '(c, cr) := cross_next (wc_cross s) (trend, f0) in
  let x := a_analog cr in
  let count := if x =? 0 then wc_count s + (b2z (fgt trend f0) - b2z (flt trend f0)) else x in
  let s1 := b2z (Z.abs count =? wc_lag s) * Z.sgn count in
  (mkWcci (wc_lag s) (wc_source s) a b count c, ([turbo; trend], [a_from_i8 s1])).

(* -------------------------------------------------------------- coppock_curve.rs *)
Record cop_cfg := mkCopCfg { cc_ma1 : ma_cfg; cc_s3 : ma_cfg; cc_p2 : Z; cc_p3 : Z; cc_left : Z; cc_right : Z; cc_source : source }.
Record cop_st := mkCop { cp_source : source; cp_r1 : window F; cp_r2 : window F; cp_m1 : ma_state; cp_m2 : ma_state;
                         cp_c1 : F * F; cp_pivot : rvs * rvs; cp_c2 : F * F }.
Definition cop_validate (c : cop_cfg) : bool :=
  (1 <? ma_period (cc_ma1 c)) && (cc_p3 c <? cc_p2 c) && (cc_p2 c <? pmax) && (0 <? cc_p3 c) && (1 <? ma_period (cc_s3 c))
  && (0 <? cc_left c) && (0 <? cc_right c) && (sat_add (cc_left c) (cc_right c) <? pmax).
Definition cop_init (c : cop_cfg) (k : candle) : outcome cop_st :=
  if negb (cop_validate c) then EWC else
  let v := c_source k (cc_source c) in
  do r1 <- roc_new (cc_p2 c) v; do r2 <- roc_new (cc_p3 c) v;
  do m1 <- ma_init (cc_ma1 c) f0; do m2 <- ma_init (cc_s3 c) f0; do pv <- reversal_new (cc_left c) (cc_right c) f0;
  Ok (mkCop (cc_source c) r1 r2 m1 m2 (f0, f0) pv (f0, f0)).
Definition cop_next (s : cop_st) (k : candle) : cop_st * iresult :=
  let v := c_source k (cp_source s) in
  let '(r1, x1) := roc_next (cp_r1 s) v in let '(r2, x2) := roc_next (cp_r2 s) v in
  let '(m1, value1) := ma_next (cp_m1 s) (fadd x1 x2) in
  let '(m2, value2) := ma_next (cp_m2 s) value1 in
  let '(c1, s1) := cross_next (cp_c1 s) (value1, f0) in
  let '(pv, s2) := reversal_next (cp_pivot s) value1 in
  let '(c2, s3) := cross_next (cp_c2 s) (value1, value2) in
  (mkCop (cp_source s) r1 r2 m1 m2 c1 pv c2, ([value1; value2], [s1; s2; s3])).
End Set4.
