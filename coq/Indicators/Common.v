(** Common parts of the indicator models: the MA constructor (helpers/methods.rs:
    MA / MAInstance dispatch over the 15 moving-average kinds), IndicatorResult. *)
From Yata Require Import Base.Prelude Base.Num Core.Window Core.Candle Core.Action Core.Strings
  Methods.Basic Methods.Select.

Section Common.
Context {pw : PW} {N : Num}.

Inductive ma_cfg := MAcfg (k : ma_kind) (n : Z).
Definition ma_period (c : ma_cfg) : Z := let 'MAcfg _ n := c in n.
Definition ma_type (c : ma_cfg) : Z := let 'MAcfg k _ := c in ma_code k.
Definition ma_similar (a b : ma_cfg) : bool := ma_type a =? ma_type b.

Inductive ma_state :=
  | MS_SMA (s : sma) | MS_WMA (s : wma) | MS_HMA (s : hma) | MS_RMA (s : rma) | MS_EMA (s : ema)
  | MS_DMA (s : dma) | MS_DEMA (s : dma) | MS_TMA (s : tma) | MS_TEMA (s : tema) | MS_WSMA (s : ema)
  | MS_SMM (s : smm) | MS_SWMA (s : swma) | MS_TRIMA (s : trima) | MS_LinReg (s : linreg) | MS_Vidya (s : vidya).

Definition ma_init (c : ma_cfg) (v : F) : outcome ma_state :=
  let 'MAcfg k n := c in
  match k with
  | KSMA => omap MS_SMA (sma_new n v) | KWMA => omap MS_WMA (wma_new n v) | KHMA => omap MS_HMA (hma_new n v)
  | KRMA => omap MS_RMA (rma_new n v) | KEMA => omap MS_EMA (ema_new n v) | KDMA => omap MS_DMA (dma_new n v)
  | KDEMA => omap MS_DEMA (dema_new n v) | KTMA => omap MS_TMA (tma_new n v) | KTEMA => omap MS_TEMA (tema_new n v)
  | KWSMA => omap MS_WSMA (wsma_new n v) | KSMM => omap MS_SMM (smm_new n v) | KSWMA => omap MS_SWMA (swma_new n v)
  | KTRIMA => omap MS_TRIMA (trima_new n v) | KLinReg => omap MS_LinReg (linreg_new n v)
  | KVidya => omap MS_Vidya (vidya_new n v)
  end.
(** SMM asserts finiteness of its input; the indicator suites feed finite values, the
    non-finite case keeps the state and returns the input (never reached in the suites) *)
Definition ma_next (s : ma_state) (x : F) : ma_state * F :=
  let lift {S} (c : S -> ma_state) (r : S * F) := (c (fst r), snd r) in
  match s with
  | MS_SMA s => lift MS_SMA (sma_next s x) | MS_WMA s => lift MS_WMA (wma_next s x)
  | MS_HMA s => lift MS_HMA (hma_next s x) | MS_RMA s => lift MS_RMA (rma_next s x)
  | MS_EMA s => lift MS_EMA (ema_next s x) | MS_DMA s => lift MS_DMA (dma_next s x)
  | MS_DEMA s => lift MS_DEMA (dema_next s x) | MS_TMA s => lift MS_TMA (tma_next s x)
  | MS_TEMA s => lift MS_TEMA (tema_next s x) | MS_WSMA s => lift MS_WSMA (wsma_next s x)
  | MS_SMM s => match smm_next s x with Ok r => lift MS_SMM r | _ => (MS_SMM s, x) end
  | MS_SWMA s => lift MS_SWMA (swma_next s x) | MS_TRIMA s => lift MS_TRIMA (trima_next s x)
  | MS_LinReg s => lift MS_LinReg (linreg_next s x) | MS_Vidya s => lift MS_Vidya (vidya_next s x)
  end.

(** IndicatorResult::new(&values, &signals) *)
Definition iresult : Type := list F * list action.
Definition EWC {A} : outcome A := Err EWrongConfig.
Definition b2z (b : bool) : Z := if b then 1 else 0.
(** total wrappers for the methods whose next asserts finiteness *)
Definition hl_next_t (step : hl -> F -> hl * F) (s : hl) (x : F) : hl * F := step s x.
End Common.
