(** Indicator models, part 1: MACD, BollingerBands, DonchianChannel, Envelopes, MomentumIndex. *)
From Yata Require Import Base.Prelude Base.Num Core.Window Core.Candle Core.Action Core.Strings
  Methods.Basic Methods.Select Indicators.Common.

Section Set1.
Context {pw : PW} {N : Num}.

(* ------------------------------------------------------------------ macd.rs *)
Record macd_cfg := mkMacdCfg { mc_ma1 : ma_cfg; mc_ma2 : ma_cfg; mc_signal : ma_cfg; mc_source : source }.
Record macd_st := mkMacd { md_cfg : macd_cfg; md_ma1 : ma_state; md_ma2 : ma_state; md_ma3 : ma_state;
                           md_cross1 : F * F; md_cross2 : F * F }.
Definition macd_validate (c : macd_cfg) : bool :=
  (ma_period (mc_ma1 c) <? ma_period (mc_ma2 c)) && (1 <? ma_period (mc_ma1 c)) && (1 <? ma_period (mc_signal c)).
Definition macd_init (c : macd_cfg) (k : candle) : outcome macd_st :=
  if macd_validate c then
    let src := c_source k (mc_source c) in
    do a <- ma_init (mc_ma1 c) src; do b <- ma_init (mc_ma2 c) src; do s <- ma_init (mc_signal c) f0;
    Ok (mkMacd c a b s (f0, f0) (f0, f0))
  else EWC.
Definition macd_next (s : macd_st) (k : candle) : macd_st * iresult :=
  let src := c_source k (mc_source (md_cfg s)) in
  let '(a, e1) := ma_next (md_ma1 s) src in
  let '(b, e2) := ma_next (md_ma2 s) src in
  let macd := fsub e1 e2 in
  let '(g, sig) := ma_next (md_ma3 s) macd in
  let '(c1, s1) := cross_next (md_cross1 s) (macd, sig) in
  let '(c2, s2) := cross_next (md_cross2 s) (macd, f0) in
  (mkMacd (md_cfg s) a b g c1 c2, ([macd; sig], [s1; s2])).

(* ------------------------------------------------------- bollinger_bands.rs *)
Record boll_cfg := mkBollCfg { bc_avg : Z; bc_sigma : F; bc_source : source }.
Record boll_st := mkBoll { bo_cfg : boll_cfg; bo_ma : sma; bo_sd : stdev }.
Definition boll_validate (c : boll_cfg) : bool := fgt (bc_sigma c) f0 && (2 <? bc_avg c) && (bc_avg c <? pmax).
Definition boll_init (c : boll_cfg) (k : candle) : outcome boll_st :=
  if negb (boll_validate c) then EWC else
  let src := c_source k (bc_source c) in
  do a <- sma_new (bc_avg c) src; do d <- stdev_new (bc_avg c) src; Ok (mkBoll c a d).
Definition boll_next (s : boll_st) (k : candle) : boll_st * iresult :=
  let c := bo_cfg s in
  let src := c_source k (bc_source c) in
  let '(a, middle) := sma_next (bo_ma s) src in
  let '(d, sq) := stdev_next (bo_sd s) src in
  let upper := ffma sq (bc_sigma c) middle in
  let lower := ffma sq (fneg (bc_sigma c)) middle in
  let range := fsub upper lower in
  let relative := if feq range f0 then flit 1 2 else fdiv (fsub src lower) range in
  (mkBoll c a d, ([upper; middle; lower], [a_from_f (ffma relative f2 (fneg f1))])).

(* ------------------------------------------------------ donchian_channel.rs *)
Record donch_st := mkDonch { dn_high : hl; dn_low : hl }.
Definition donch_init (period : Z) (k : candle) : outcome donch_st :=
  if negb (1 <? period) then EWC else
  do h <- hl_new period (c_high k); do l <- hl_new period (c_low k); Ok (mkDonch h l).
Definition donch_next (s : donch_st) (k : candle) : donch_st * iresult :=
  let '(h, highest) := highest_step (dn_high s) (c_high k) in
  let '(l, lowest) := lowest_step (dn_low s) (c_low k) in
  let middle := fmul (fadd highest lowest) (flit 1 2) in
  let sg := b2z (fge (c_high k) highest) - b2z (fle (c_low k) lowest) in
  (mkDonch h l, ([lowest; middle; highest], [a_from_i8 sg])).

(* -------------------------------------------------------------- envelopes.rs *)
Record env_cfg := mkEnvCfg { ec_ma : ma_cfg; ec_k : F; ec_source : source; ec_source2 : source }.
Record env_st := mkEnv { en_cfg : env_cfg; en_ma : ma_state; en_khigh : F; en_klow : F }.
Definition env_validate (c : env_cfg) : bool := fgt (ec_k c) f0 && (1 <? ma_period (ec_ma c)).
Definition env_init (c : env_cfg) (k : candle) : outcome env_st :=
  if negb (env_validate c) then EWC else
  do m <- ma_init (ec_ma c) (c_source k (ec_source c));
  Ok (mkEnv c m (fadd f1 (ec_k c)) (fsub f1 (ec_k c))).
Definition env_next (s : env_st) (k : candle) : env_st * iresult :=
  let c := en_cfg s in
  let '(m, v) := ma_next (en_ma s) (c_source k (ec_source c)) in
  let v1 := fmul v (en_khigh s) in let v2 := fmul v (en_klow s) in
  let src2 := c_source k (ec_source2 c) in
  let sg := b2z (flt src2 v2) - b2z (fgt src2 v1) in
  (mkEnv c m (en_khigh s) (en_klow s), ([v1; v2; src2], [a_from_i8 sg])).

(* --------------------------------------------------------- momentum_index.rs *)
Record momi_st := mkMomi { mi_src : source; mi_m1 : window F; mi_m2 : window F }.
Definition momi_init (p1 p2 : Z) (src : source) (k : candle) : outcome momi_st :=
  if negb ((0 <? p2) && (p2 <? p1)) then EWC else
  let v := c_source k src in
  do a <- momentum_new p1 v; do b <- momentum_new p2 v; Ok (mkMomi src a b).
Definition momi_next (s : momi_st) (k : candle) : momi_st * iresult :=
  let v := c_source k (mi_src s) in
  let '(a, x) := momentum_next (mi_m1 s) v in
  let '(b, y) := momentum_next (mi_m2 s) v in
  let sg := b2z (fgt x f0 && fgt y f0) - b2z (flt x f0 && flt y f0) in
  (mkMomi (mi_src s) a b, ([x; y], [a_from_i8 sg])).
End Set1.
