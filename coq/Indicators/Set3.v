(** Indicator models, part 3: KeltnerChannel, PriceChannelStrategy, CommodityChannelIndex,
    DetrendedPriceOscillator, ParabolicSAR, TrueStrengthIndex, SMIErgodicIndicator, Trix,
    KnowSureThing, EldersForceIndex. *)
From Yata Require Import Base.Prelude Base.Num Core.Window Core.Candle Core.Action Core.Strings
  Methods.Basic Methods.Select Indicators.Common.

Section Set3.
Context {pw : PW} {N : Num}.

(* --------------------------------------------------------- keltner_channel.rs *)
Record kelt_st := mkKelt { kl_sigma : F; kl_source : source; kl_prev_close : F; kl_ma : ma_state; kl_sma : sma;
                           kl_ca : F; kl_cu : F }.
Definition kelt_init (ma : ma_cfg) (sigma : F) (src : source) (k : candle) : outcome kelt_st :=
  if negb ((1 <? ma_period ma) && fgt sigma f0) then EWC else
  do m <- ma_init ma (c_source k src);
  do a <- sma_new (ma_period ma) (fsub (c_high k) (c_low k));
  Ok (mkKelt sigma src (c_close k) m a f0 f0).
Definition kelt_next (s : kelt_st) (k : candle) : kelt_st * iresult :=
  let source := c_source k (kl_source s) in
  let tr := c_tr_close k (kl_prev_close s) in
  let '(m, ma) := ma_next (kl_ma s) source in
  let '(a, atr) := sma_next (kl_sma s) tr in
  let upper := ffma atr (kl_sigma s) ma in
  let lower := ffma atr (fneg (kl_sigma s)) ma in
  let '(cu, au) := cross_under_next (kl_cu s) (source, lower) in
  let '(ca, aa) := cross_above_next (kl_ca s) (source, upper) in
  (mkKelt (kl_sigma s) (kl_source s) (c_close k) m a ca cu, ([source; upper; lower], [a_sub au aa])).

(* -------------------------------------------------- price_channel_strategy.rs *)
Record pch_st := mkPch { pc_sigma : F; pc_high : hl; pc_low : hl }.
Definition pch_init (period : Z) (sigma : F) (k : candle) : outcome pch_st :=
  if negb ((1 <? period) && fgt sigma f0 && fle sigma f1) then EWC else
  do h <- hl_new period (c_high k); do l <- hl_new period (c_low k); Ok (mkPch sigma h l).
Definition pch_next (s : pch_st) (k : candle) : pch_st * iresult :=
  let '(h, highest) := highest_step (pc_high s) (c_high k) in
  let '(l, lowest) := lowest_step (pc_low s) (c_low k) in
  let middle := fmul (fadd highest lowest) (flit 1 2) in
  let delta := fsub highest middle in
  let upper := ffma delta (pc_sigma s) middle in
  let lower := ffma delta (fneg (pc_sigma s)) middle in
  let sg := b2z (fge (c_high k) upper) - b2z (fle (c_low k) lower) in
  (mkPch (pc_sigma s) h l, ([upper; lower], [a_from_i8 sg])).

(* ------------------------------------------------- commodity_channel_index.rs *)
Record ccii_st := mkCcii { ci_zone : F; ci_source : source; ci_cci : sma; ci_last : F; ci_last_signal : Z }.
Definition cci_scale : F := fdiv f1 (flit 3 2).
Definition ccii_init (period : Z) (zone : F) (src : source) (k : candle) : outcome ccii_st :=
  if negb (fge zone f0 && (1 <? period) && (period <? pmax)) then EWC else
  do c <- cci_new period (c_source k src); Ok (mkCcii zone src c f0 0).
Definition ccii_next (s : ccii_st) (k : candle) : ccii_st * iresult :=
  let '(c, raw) := cci_next (ci_cci s) (c_source k (ci_source s)) in
  let cci := fmul raw cci_scale in
  let z := ci_zone s in
  let t_signal := b2z (flt cci (fneg z) && fge (ci_last s) (fneg z)) - b2z (fgt cci z && fle (ci_last s) z) in
  let signal := b2z (negb (t_signal =? 0) && negb (ci_last_signal s =? t_signal)) * t_signal in
  (mkCcii z (ci_source s) c cci signal, ([cci], [a_from_i8 signal])).

(* ---------------------------------------------- detrended_price_oscillator.rs *)
Record dpo_st := mkDpo { dp_source : source; dp_ma : ma_state; dp_window : window F }.
Definition dpo_init (ma : ma_cfg) (src : source) (k : candle) : outcome dpo_st :=
  if negb ((1 <? ma_period ma) && (ma_period ma <? pmax)) then EWC else
  let v := c_source k src in
  do m <- ma_init ma v; Ok (mkDpo src m (w_new_t (ma_period ma / 2 + 1) v)).
Definition dpo_next (s : dpo_st) (k : candle) : dpo_st * iresult :=
  let v := c_source k (dp_source s) in
  let '(m, sma) := ma_next (dp_ma s) v in
  let '(w, lft) := w_push_t (dp_window s) v in
  (mkDpo (dp_source s) m w, ([fsub lft sma], [])).

(* ------------------------------------------------------------ parabolic_sar.rs *)
Record psar_st := mkPsar { ps_step : F; ps_max : F; ps_trend : Z; ps_inc : Z; ps_low : F; ps_high : F; ps_sar : F;
                           ps_prev_high : F; ps_prev_low : F; ps_prev_trend : Z }.
Definition psar_init (step mx : F) (k : candle) : outcome psar_st :=
  if negb (flt step mx) then EWC else
  Ok (mkPsar step mx 1 1 (c_low k) (c_high k) (c_low k) (c_high k) (c_low k) 0).
Definition psar_next (s : psar_st) (k : candle) : psar_st * iresult :=
  let '(trend1, inc1, low1, high1, sar1) :=
    if 0 <? ps_trend s then
      let '(high, inc) := if flt (ps_high s) (c_high k) then (c_high k, ps_inc s + 1) else (ps_high s, ps_inc s) in
      if flt (c_low k) (ps_sar s) then (- ps_trend s, 1, c_low k, high, high)
      else (ps_trend s, inc, ps_low s, high, ps_sar s)
    else if ps_trend s <? 0 then
      let '(low, inc) := if fgt (ps_low s) (c_low k) then (c_low k, ps_inc s + 1) else (ps_low s, ps_inc s) in
      if fgt (c_high k) (ps_sar s) then (- ps_trend s, 1, low, c_high k, low)
      else (ps_trend s, inc, low, ps_high s, ps_sar s)
    else (ps_trend s, ps_inc s, ps_low s, ps_high s, ps_sar s) in
  let af := fmin (ps_max s) (fmul (ps_step s) (fofZ inc1)) in
  let sar2 :=
    if 0 <? trend1 then fmin (fmin (ffma af (fsub high1 sar1) sar1) (c_low k)) (ps_prev_low s)
    else if trend1 <? 0 then fmax (fmax (ffma af (fsub low1 sar1) sar1) (c_high k)) (ps_prev_high s)
    else sar1 in
  let signal := b2z (negb (ps_prev_trend s =? trend1)) * trend1 in
  (mkPsar (ps_step s) (ps_max s) trend1 inc1 low1 high1 sar2 (c_high k) (c_low k) trend1,
   ([sar1; fofZ trend1], [a_from_i8 signal])).

(* ------------------------------------------------------ true_strength_index.rs *)
Record tsii_st := mkTsii { ti_zone : F; ti_source : source; ti_tsi : tsi; ti_ema : ema; ti_cu : F; ti_ca : F;
                           ti_c1 : F * F; ti_c2 : F * F }.
Definition tsii_validate (p1 p2 p3 : Z) (zone : F) : bool :=
  (1 <? p2) && (p2 <=? p1) && (p1 <? pmax) && (1 <? p3) && (p3 <? pmax) && fge zone f0 && fle zone f1.
Definition tsii_init (p1 p2 p3 : Z) (zone : F) (src : source) (k : candle) : outcome tsii_st :=
  if negb (tsii_validate p1 p2 p3 zone) then EWC else
  do t <- tsi_new p2 p1 (c_source k src); do e <- ema_new p3 f0;
  Ok (mkTsii zone src t e f0 f0 (f0, f0) (f0, f0)).
Definition tsii_next (s : tsii_st) (k : candle) : tsii_st * iresult :=
  let '(t, v) := tsi_next (ti_tsi s) (c_source k (ti_source s)) in
  let '(e, sg) := ema_next (ti_ema s) v in
  let '(cu, au) := cross_under_next (ti_cu s) (v, fneg (ti_zone s)) in
  let '(ca, aa) := cross_above_next (ti_ca s) (v, ti_zone s) in
  let '(c1, s2) := cross_next (ti_c1 s) (v, f0) in
  let '(c2, s3) := cross_next (ti_c2 s) (v, sg) in
  (mkTsii (ti_zone s) (ti_source s) t e cu ca c1 c2, ([v; sg], [a_sub au aa; s2; s3])).

(* --------------------------------------------------- smi_ergodic_indicator.rs *)
Record smi_st := mkSmi { sm_zone : F; sm_source : source; sm_tsi : tsi; sm_ma : ma_state; sm_cross : F * F }.
Definition smi_init (p1 p2 : Z) (signal : ma_cfg) (zone : F) (src : source) (k : candle) : outcome smi_st :=
  if negb ((1 <? p2) && (p2 <=? p1) && (p1 <? pmax) && (1 <? ma_period signal) && (ma_period signal <? pmax)
           && fge zone f0 && fle zone f1) then EWC else
  do t <- tsi_new p2 p1 (c_source k src); do m <- ma_init signal f0; Ok (mkSmi zone src t m (f0, f0)).
Definition smi_next (s : smi_st) (k : candle) : smi_st * iresult :=
  let '(t, v) := tsi_next (sm_tsi s) (c_source k (sm_source s)) in
  let '(m, sg) := ma_next (sm_ma s) v in
  let '(c, cr) := cross_next (sm_cross s) (v, sg) in
  let x := a_analog cr in
  let s1 := b2z ((0 <? x) && flt sg (fneg (sm_zone s))) - b2z ((x <? 0) && fgt sg (sm_zone s)) in
  (mkSmi (sm_zone s) (sm_source s) t m c, ([v; sg; fsub v sg], [a_from_i8 s1])).

(* --------------------------------------------------------------------- trix.rs *)
Record trix_st := mkTrix { tx_source : source; tx_tma : tma; tx_sig : ma_state; tx_change : window F;
                           tx_c1 : F * F; tx_c2 : F * F; tx_rev : rvs * rvs }.
Definition trix_init (p1 : Z) (signal : ma_cfg) (src : source) (k : candle) : outcome trix_st :=
  if (2 <? p1) && (1 <? ma_period signal) then
    let v := c_source k src in
    do t <- tma_new p1 v; do m <- ma_init signal f0; do ch <- momentum_new 1 v;
    do r <- reversal_new 1 1 f0;
    Ok (mkTrix src t m ch (cross_new (v, v), cross_new (v, v)) (cross_new (v, v), cross_new (v, v)) r)
  else EWC.
Definition trix_next (s : trix_st) (k : candle) : trix_st * iresult :=
  let '(t, tmav) := tma_next (tx_tma s) (c_source k (tx_source s)) in
  let '(ch, value) := momentum_next (tx_change s) tmav in
  let '(r, s1) := reversal_next (tx_rev s) value in
  let '(m, sigline) := ma_next (tx_sig s) value in
  let '(c1, s2) := cross_next (tx_c1 s) (value, sigline) in
  let '(c2, s3) := cross_next (tx_c2 s) (value, f0) in
  (mkTrix (tx_source s) t m ch c1 c2 r, ([value; sigline], [s1; s2; s3])).

(* ---------------------------------------------------------- know_sure_thing.rs *)
Record kst_cfg := mkKstCfg { kc_p1 : Z; kc_p2 : Z; kc_p3 : Z; kc_p4 : Z; kc_ma1 : ma_cfg; kc_ma2 : ma_cfg;
                             kc_ma3 : ma_cfg; kc_ma4 : ma_cfg; kc_signal : ma_cfg }.
Record kst_st := mkKst { ks_r1 : window F; ks_r2 : window F; ks_r3 : window F; ks_r4 : window F;
                         ks_m1 : ma_state; ks_m2 : ma_state; ks_m3 : ma_state; ks_m4 : ma_state; ks_m5 : ma_state;
                         ks_cross : F * F }.
Definition kst_validate (c : kst_cfg) : bool :=
  ma_similar (kc_ma1 c) (kc_ma2 c) && ma_similar (kc_ma1 c) (kc_ma3 c) && ma_similar (kc_ma1 c) (kc_ma4 c)
  && (kc_p1 c <? kc_p2 c) && (kc_p2 c <? kc_p3 c) && (kc_p3 c <? kc_p4 c).
Definition kst_init (c : kst_cfg) (k : candle) : outcome kst_st :=
  if negb (kst_validate c) then EWC else
  let cl := c_close k in
  do r1 <- roc_new (kc_p1 c) cl; do r2 <- roc_new (kc_p2 c) cl; do r3 <- roc_new (kc_p3 c) cl; do r4 <- roc_new (kc_p4 c) cl;
  do m1 <- ma_init (kc_ma1 c) f0; do m2 <- ma_init (kc_ma2 c) f0; do m3 <- ma_init (kc_ma3 c) f0;
  do m4 <- ma_init (kc_ma4 c) f0; do m5 <- ma_init (kc_signal c) f0;
  Ok (mkKst r1 r2 r3 r4 m1 m2 m3 m4 m5 (f0, f0)).
Definition kst_next (s : kst_st) (k : candle) : kst_st * iresult :=
  let cl := c_close k in
  let '(r1, v1) := roc_next (ks_r1 s) cl in let '(r2, v2) := roc_next (ks_r2 s) cl in
  let '(r3, v3) := roc_next (ks_r3 s) cl in let '(r4, v4) := roc_next (ks_r4 s) cl in
  let '(m1, a1) := ma_next (ks_m1 s) v1 in let '(m2, a2) := ma_next (ks_m2 s) v2 in
  let '(m3, a3) := ma_next (ks_m3 s) v3 in let '(m4, a4) := ma_next (ks_m4 s) v4 in
  let kst := fadd (ffma a2 f2 a1) (ffma a3 (fofZ 3) (fmul a4 (fofZ 4))) in
  let '(m5, sl) := ma_next (ks_m5 s) kst in
  let '(c, sg) := cross_next (ks_cross s) (kst, sl) in
  (mkKst r1 r2 r3 r4 m1 m2 m3 m4 m5 c, ([kst; sl], [sg])).

(* ------------------------------------------------------- elders_force_index.rs *)
Record efi_st := mkEfi { ef_source : source; ef_ma : ma_state; ef_window : window candle; ef_vol_sum : F; ef_cross : F * F }.
Definition efi_init (ma : ma_cfg) (p2 : Z) (src : source) (k : candle) : outcome efi_st :=
  if negb ((1 <? ma_period ma) && (1 <=? p2) && (p2 <? pmax)) then EWC else
  do m <- ma_init ma f0; Ok (mkEfi src m (w_new_t p2 k) (fmul (c_volume k) (fofZ p2)) (f0, f0)).
Definition efi_next (s : efi_st) (k : candle) : efi_st * iresult :=
  let '(w, lft) := w_push_t (ef_window s) k in
  let vs := fadd (ef_vol_sum s) (fsub (c_volume k) (c_volume lft)) in
  let r := fmul (fsub (c_source k (ef_source s)) (c_source lft (ef_source s))) vs in
  let '(m, value) := ma_next (ef_ma s) r in
  let '(c, sg) := cross_next (ef_cross s) (value, f0) in
  (mkEfi (ef_source s) m w vs c, ([value], [sg])).
End Set3.
