(** Specification language (DESIGN.md 3.2): histories and from-scratch sums.
    A history is a total function [h : nat -> A], [h i] = the input [i] steps
    ago ([h 0] newest); beyond the start of the stream it is the construction
    value.  Definitions of methods are functions of the history alone. *)
From Yata Require Import Base.Prelude.
Open Scope nat_scope.

Section Hist.
Context {A : Type}.

(** history after the inputs [rh] (newest first) of an instance built from [x0] *)
Definition hcons (x : A) (h : nat -> A) : nat -> A :=
  fun i => match i with O => x | S j => h j end.
Definition hconst (x0 : A) : nat -> A := fun _ => x0.
Fixpoint hget (x0 : A) (rh : list A) : nat -> A :=
  match rh with [] => hconst x0 | x :: r => hcons x (hget x0 r) end.
Lemma hget_nth x0 rh i : hget x0 rh i = nth i rh x0.
Proof. revert i; induction rh as [|x r IH]; intros [|i]; simpl; auto. Qed.
Definition hshift (k : nat) (h : nat -> A) : nat -> A := fun i => h (k + i).

(** the last [n] inputs, oldest first: [h (n-1); ...; h 0] *)
Definition hwin (n : nat) (h : nat -> A) : list A := map h (rev (seq 0 n)).

Lemma hwin_S n h : hwin (S n) h = h n :: hwin n h.
Proof. unfold hwin. rewrite seq_S, rev_app_distr. reflexivity. Qed.

Lemma hwin_length n h : length (hwin n h) = n.
Proof. unfold hwin. rewrite map_length, rev_length, seq_length. reflexivity. Qed.

Lemma hwin_hcons n x h : hwin (S n) (hcons x h) = hwin n h ++ [x].
Proof.
  unfold hwin. change (seq 0 (S n)) with (0 :: seq 1 n).
  rewrite <- seq_shift. cbn [rev]. rewrite map_app, <- map_rev, map_map. reflexivity.
Qed.

Lemma hwin_const n x0 : hwin n (hconst x0) = repeat x0 n.
Proof. induction n as [|n IH]; [reflexivity|]. rewrite hwin_S, IH. reflexivity. Qed.

Lemma hwin_ext n h h' : (forall i, i < n -> h i = h' i) -> hwin n h = hwin n h'.
Proof. intros H. unfold hwin. apply map_ext_in. intros i Hi.
  apply in_rev, in_seq in Hi. apply H. lia. Qed.

Lemma hwin_nth n h i : i < n -> nth_error (hwin n h) i = Some (h (n - 1 - i)).
Proof.
  revert i; induction n as [|n IH]; intros i Hi; [lia|].
  rewrite hwin_S. destruct i as [|i]; simpl.
  - f_equal. f_equal. lia.
  - rewrite IH by lia. f_equal. f_equal. lia.
Qed.
End Hist.

(** Generic run of a step function over a stream, and the induction principle
    every [M_correct] theorem uses. *)
Section Run.
Context {S I O : Type}.
Variable next : S -> I -> S * O.

Definition steps (s : S) (xs : list I) : S := fold_left (fun s x => fst (next s x)) xs s.
Fixpoint run (s : S) (xs : list I) : list O :=
  match xs with [] => [] | x :: r => let (s', y) := next s x in y :: run s' r end.
Fixpoint steps_rev (s : S) (rh : list I) : S :=
  match rh with [] => s | x :: r => fst (next (steps_rev s r) x) end.

Lemma steps_app s xs ys : steps s (xs ++ ys) = steps (steps s xs) ys.
Proof. apply fold_left_app. Qed.
Lemma steps_snoc s xs x : steps s (xs ++ [x]) = fst (next (steps s xs) x).
Proof. rewrite steps_app. reflexivity. Qed.
Lemma steps_is_rev s xs : steps s xs = steps_rev s (rev xs).
Proof.
  induction xs as [|x r IH] using rev_ind; [reflexivity|].
  rewrite steps_snoc, rev_unit. simpl. rewrite IH. reflexivity.
Qed.

Lemma run_length s xs : length (run s xs) = length xs.
Proof. revert s; induction xs as [|x r IH]; intros s; simpl; auto.
  destruct (next s x). simpl. rewrite IH. reflexivity. Qed.

(** chunked evaluation (C09): any split of the stream gives the same outputs *)
Lemma run_app s xs ys : run s (xs ++ ys) = run s xs ++ run (steps s xs) ys.
Proof.
  revert s; induction xs as [|x r IH]; intros s; simpl; auto.
  destruct (next s x) as [s' y] eqn:E. simpl. rewrite IH.
  replace (steps s (x :: r)) with (steps s' r); [reflexivity|].
  unfold steps. simpl. rewrite E. reflexivity.
Qed.

Lemma run_nth s xs x k : k = length xs ->
  nth_error (run s (xs ++ [x])) k = Some (snd (next (steps s xs) x)).
Proof.
  intros ->. rewrite run_app, nth_error_app2 by (rewrite run_length; lia).
  rewrite run_length, Nat.sub_diag. simpl. destruct (next (steps s xs) x). reflexivity.
Qed.

(** The invariant principle: [Inv s h] relates a state to the history it has
    seen; one step extends the history by [hcons].  Then after ANY stream the
    state satisfies the invariant w.r.t. [hget x0 (rev xs)] and the output of
    the next step is [def] of the extended history. *)
Variable Inv : S -> (nat -> I) -> Prop.
Variable def : (nat -> I) -> O.
Hypothesis step_ok : forall s h x, Inv s h ->
  Inv (fst (next s x)) (hcons x h) /\ snd (next s x) = def (hcons x h).

Lemma steps_rev_inv s x0 rh : Inv s (hconst x0) -> Inv (steps_rev s rh) (hget x0 rh).
Proof.
  intros H0. induction rh as [|x r IH]; simpl.
  - exact H0.
  - change (hget x0 (x :: r)) with (hcons x (hget x0 r)). apply step_ok. exact IH.
Qed.

Theorem inv_correct s x0 xs x : Inv s (hconst x0) ->
  snd (next (steps s xs) x) = def (hget x0 (rev (xs ++ [x]))) /\
  Inv (steps s (xs ++ [x])) (hget x0 (rev (xs ++ [x]))).
Proof.
  intros H0. rewrite rev_unit, steps_snoc, steps_is_rev.
  change (hget x0 (x :: rev xs)) with (hcons x (hget x0 (rev xs))).
  split; apply step_ok, steps_rev_inv, H0.
Qed.
End Run.

(** The same principle for definitions that depend on the whole stream
    (recursive methods): the history is the list of inputs, newest first. *)
Section RunL.
Context {S I O : Type}.
Variable next : S -> I -> S * O.
Variable InvL : S -> list I -> Prop.
Variable defL : list I -> O.
Hypothesis stepL_ok : forall s rh x, InvL s rh ->
  InvL (fst (next s x)) (x :: rh) /\ snd (next s x) = defL (x :: rh).

Lemma steps_rev_invL s rh : InvL s [] -> InvL (steps_rev next s rh) rh.
Proof. intros H0. induction rh as [|x r IH]; simpl; [exact H0|]. apply stepL_ok. exact IH. Qed.

Theorem invL_correct s xs x : InvL s [] ->
  snd (next (steps next s xs) x) = defL (rev (xs ++ [x])) /\
  InvL (steps next s (xs ++ [x])) (rev (xs ++ [x])).
Proof.
  intros H0. rewrite rev_unit, steps_snoc, steps_is_rev.
  split; apply stepL_ok, steps_rev_invL, H0.
Qed.
End RunL.

(** Cascade lemma: a method fed with the outputs of another one. *)
Section Compose.
Context {S1 S2 I M O : Type}.
Variable next1 : S1 -> I -> S1 * M.
Variable next2 : S2 -> M -> S2 * O.
Variable Inv1 : S1 -> (nat -> I) -> Prop.
Variable Inv2 : S2 -> (nat -> M) -> Prop.
Variable def1 : (nat -> I) -> M.
Variable def2 : (nat -> M) -> O.
Hypothesis step1 : forall s h x, Inv1 s h ->
  Inv1 (fst (next1 s x)) (hcons x h) /\ snd (next1 s x) = def1 (hcons x h).
Hypothesis step2 : forall s h x, Inv2 s h ->
  Inv2 (fst (next2 s x)) (hcons x h) /\ snd (next2 s x) = def2 (hcons x h).
Hypothesis Inv2_ext : forall s h h', (forall i, h i = h' i) -> Inv2 s h -> Inv2 s h'.
Hypothesis def2_ext : forall h h', (forall i, h i = h' i) -> def2 h = def2 h'.

Definition comp_next (s : S1 * S2) (x : I) : (S1 * S2) * O :=
  let '(a, y) := next1 (fst s) x in let '(b, z) := next2 (snd s) y in ((a, b), z).
Definition comp_hist (h : nat -> I) : nat -> M := fun j => def1 (hshift j h).
Definition comp_inv (s : S1 * S2) (h : nat -> I) : Prop :=
  Inv1 (fst s) h /\ Inv2 (snd s) (comp_hist h).
Definition comp_def (h : nat -> I) : O := def2 (comp_hist h).

Lemma comp_hist_hcons x h i : hcons (def1 (hcons x h)) (comp_hist h) i = comp_hist (hcons x h) i.
Proof. destruct i; reflexivity. Qed.

Lemma comp_step s h x : comp_inv s h ->
  comp_inv (fst (comp_next s x)) (hcons x h) /\ snd (comp_next s x) = comp_def (hcons x h).
Proof.
  intros (H1 & H2). unfold comp_next.
  destruct (step1 (fst s) h x H1) as (H1' & E1).
  destruct (next1 (fst s) x) as [a y]. simpl in H1', E1. subst y.
  destruct (step2 (snd s) (comp_hist h) (def1 (hcons x h)) H2) as (H2' & E2).
  destruct (next2 (snd s) (def1 (hcons x h))) as [b z]. simpl in H2', E2. subst z.
  simpl. split; [split; [exact H1'|]|].
  - eapply Inv2_ext; [|exact H2']. apply comp_hist_hcons.
  - unfold comp_def. apply def2_ext. apply comp_hist_hcons.
Qed.
End Compose.
