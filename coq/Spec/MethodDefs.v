(** From-scratch definitions of the methods of src/methods as functions of
    the input history (DESIGN.md 3.2, Appendix A).  Polymorphic over [Num]:
    the theorems of Proofs/ are stated on [NumR]; the same terms evaluated on
    [NumF64] are the oracle of the correspondence check. *)
From Yata Require Import Base.Prelude Base.Num Core.Candle Spec.Hist.

Section Defs.
Context {N : Num}.

Fixpoint lsum (l : list F) : F := match l with [] => f0 | x :: r => fadd x (lsum r) end.
Definition fofN (n : nat) : F := fofZ (Z.of_nat n).
(** sum of [g i] for i < n *)
Definition gsum (n : nat) (g : nat -> F) : F := lsum (map g (seq 0 n)).
Definition hsum (n : nat) (h : nat -> F) : F := gsum n h.
Definition hwsum (n : nat) (w : nat -> F) (h : nat -> F) : F := gsum n (fun i => fmul (w i) (h i)).

(* ---- finite-window methods (C02) *)
Definition sma_def (n : nat) (h : nat -> F) : F := fdiv (hsum n h) (fofN n).
(** weights n, n-1, ..., 1 from the newest to the oldest element *)
Definition wma_def (n : nat) (h : nat -> F) : F :=
  fdiv (hwsum n (fun i => fofN (n - i)) h) (fofZ (Z.of_nat n * (Z.of_nat n + 1) / 2)).
(** symmetric weights 1,2,..,2,1: w_i = min (i+1) (n-i) *)
Definition swma_weight (n i : nat) : F := fofN (Nat.min (i + 1) (n - i)).
Definition swma_wsum (n : nat) : Z :=
  let ll := ((Z.of_nat n + 1) / 2)%Z in let rl := (Z.of_nat n / 2)%Z in
  (ll * (ll + 1) / 2 + rl * (rl + 1) / 2)%Z.
Definition swma_def (n : nat) (h : nat -> F) : F :=
  fdiv (hwsum n (swma_weight n) h) (fofZ (swma_wsum n)).
Definition trima_def (n : nat) (h : nat -> F) : F :=
  sma_def n (fun j => sma_def n (hshift j h)).
Definition hma_def (n n2 n3 : nat) (h : nat -> F) : F :=
  wma_def n3 (fun j => fsub (fmul f2 (wma_def n2 (hshift j h))) (wma_def n (hshift j h))).
(** least-squares line through the points (-i, h i), i < n: value at x = 0 *)
Definition linreg_def (n : nat) (h : nat -> F) : F :=
  let fn := fofN n in
  let sx := gsum n (fun i => fneg (fofN i)) in
  let sy := hsum n h in
  let sxy := gsum n (fun i => fmul (fneg (fofN i)) (h i)) in
  let sxx := gsum n (fun i => fmul (fofN i) (fofN i)) in
  let slope := fdiv (fsub (fmul fn sxy) (fmul sx sy)) (fsub (fmul fn sxx) (fmul sx sx)) in
  fdiv (fsub sy (fmul slope sx)) fn.
(** Conv: the newest element meets the LAST weight *)
Definition conv_def (ws : list F) (h : nat -> F) : F :=
  fdiv (gsum (length ws) (fun i => fmul (nth i (rev ws) f0) (h i))) (lsum ws).
Definition vwma_def (n : nat) (h : nat -> F * F) : F :=
  fdiv (gsum n (fun i => fmul (fst (h i)) (snd (h i)))) (gsum n (fun i => snd (h i))).
Definition integral_def (n : nat) (h : nat -> F) : F := hsum n h.
Definition momentum_def (n : nat) (h : nat -> F) : F := fsub (h 0%nat) (h n).
Definition derivative_def (n : nat) (h : nat -> F) : F := fdiv (fsub (h 0%nat) (h n)) (fofN n).
Definition roc_def (n : nat) (h : nat -> F) : F := fdiv (fsub (h 0%nat) (h n)) (h n).
Definition past_def {A} (n : nat) (h : nat -> A) : A := h n.
(** sample standard deviation (n - 1), as in st_dev::tests *)
Definition var_def (n : nat) (h : nat -> F) : F :=
  let m := sma_def n h in
  fdiv (gsum n (fun i => fmul (fsub (h i) m) (fsub (h i) m))) (fofN (n - 1)).
Definition stdev_def (n : nat) (h : nat -> F) : F := fsqrt (var_def n h).
Definition mad_def (n : nat) (h : nat -> F) : F :=
  let m := sma_def n h in fdiv (gsum n (fun i => fabs (fsub (h i) m))) (fofN n).
Definition cci_def (n : nat) (h : nat -> F) : F :=
  let d := mad_def n h in
  if fgt d f0 then fdiv (fsub (h 0%nat) (sma_def n h)) d else f0.
Definition linvol_def (n : nat) (h : nat -> F) : F :=
  gsum n (fun i => fabs (fsub (h i) (h (S i)))).
Definition clvv (c : candle) : F := fmul (c_clv c) (c_volume c).
Definition adi_def (n : nat) (h : nat -> candle) : F := gsum n (fun i => clvv (h i)).

(* ---- recursive methods (C03): recurrences over the whole stream *)
(** [ema_rec a x0 rh]: y = a*x + (1-a)*y_prev, y_{-1} = x0 *)
Fixpoint ema_rec (a : F) (x0 : F) (rh : list F) : F :=
  match rh with [] => x0 | x :: r => fadd (fmul a x) (fmul (fsub f1 a) (ema_rec a x0 r)) end.
(** outputs of a recurrence along the stream, newest first *)
Fixpoint ema_outs (a : F) (x0 : F) (rh : list F) : list F :=
  match rh with [] => [] | x :: r => ema_rec a x0 (x :: r) :: ema_outs a x0 r end.
Definition ema_alpha (n : Z) : F := fdiv f2 (fofZ (n + 1)).
Definition rma_alpha (n : Z) : F := fdiv f1 (fofZ n).
Definition ema_def (n : Z) x0 rh := ema_rec (ema_alpha n) x0 rh.
Definition dma_def (n : Z) x0 rh := ema_rec (ema_alpha n) x0 (ema_outs (ema_alpha n) x0 rh).
Definition tma_def (n : Z) x0 rh :=
  ema_rec (ema_alpha n) x0 (ema_outs (ema_alpha n) x0 (ema_outs (ema_alpha n) x0 rh)).
Definition dema_def (n : Z) x0 rh := fsub (fmul f2 (ema_def n x0 rh)) (dma_def n x0 rh).
Definition tema_def (n : Z) x0 rh :=
  fadd (fmul (fofZ 3) (fsub (ema_def n x0 rh) (dma_def n x0 rh))) (tma_def n x0 rh).
Definition rma_def (n : Z) x0 rh := ema_rec (rma_alpha n) x0 rh.
Definition wsma_def := rma_def.
(** momentum series of a stream (newest first), first difference against x0 *)
Fixpoint diffs (x0 : F) (rh : list F) : list F :=
  match rh with [] => [] | x :: r => fsub x (hget x0 r 0%nat) :: diffs x0 r end.
Definition tsi_def (short long : Z) x0 rh :=
  let m := diffs x0 rh in
  let num := ema_rec (ema_alpha short) f0 (ema_outs (ema_alpha long) f0 m) in
  let den := ema_rec (ema_alpha short) f0 (ema_outs (ema_alpha long) f0 (map fabs m)) in
  if fgt den f0 then fdiv num den else f0.
Definition fpos (x : F) : F := if fgt x f0 then x else f0.
Definition fnegp (x : F) : F := if flt x f0 then fneg x else f0.
(** Vidya: EMA whose factor is scaled by |CMO| of the last n changes *)
Fixpoint vidya_rec (n : nat) (x0 : F) (rh : list F) : F :=
  match rh with
  | [] => x0
  | x :: r =>
    let ch := hget f0 (diffs x0 (x :: r)) in
    let up := gsum n (fun i => fpos (ch i)) in
    let dn := gsum n (fun i => fnegp (ch i)) in
    if fne up f0 || fne dn f0 then
      let k := fmul (ema_alpha (Z.of_nat n)) (fabs (fdiv (fsub up dn) (fadd up dn))) in
      fadd (fmul x k) (fmul (fsub f1 k) (vidya_rec n x0 r))
    else x
  end.
Definition tr_def (h : nat -> candle) : F := c_tr_close (h 0%nat) (c_close (h 1%nat)).
(** cumulative (windowless) Integral / ADI: sum of everything seen, seeded with 0 *)
Fixpoint cumsum (rh : list F) : F := match rh with [] => f0 | x :: r => fadd (cumsum r) x end.
(** Heikin-Ashi: open_t = (open_{t-1} + close_{t-1})/2, close_t = ohlc4, open_0 = ohlc4(c0) *)
Fixpoint ha_open (c0 : candle) (rh : list candle) : F :=
  match rh with
  | [] => c_ohlc4 c0
  | c :: r => fmul (fadd (ha_open c0 r) (c_ohlc4 c)) (flit 1 2)
  end.
Definition ha_def (c0 : candle) (rh : list candle) (c : candle) : candle :=
  let o := ha_open c0 rh in
  mkCandle o (fmax (c_high c) o) (fmin (c_low c) o) (c_ohlc4 c) (c_volume c).
End Defs.
