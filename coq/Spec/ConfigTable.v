(** Declarative tables of the indicator configurations (DESIGN.md 3.4).  The
    table VALUE is generated from /repo/src/indicators on every run
    (Generated/Configs.v); this file fixes its type, the semantics of the
    string setter it describes and the well-formedness checks. *)
From Yata Require Import Base.Prelude.
Open Scope string_scope.

Record itable := mkITable {
  it_config : string;                          (* name of the configuration struct *)
  it_NAME : string;                            (* the NAME constant *)
  it_fields : list (string * bool * string);   (* field, is pub, type *)
  it_arms : list (string * string);            (* set(): key  ->  field assigned *)
  it_default_err : bool;                       (* the `_` arm returns Err *)
  it_size : Z * Z;                             (* literal returned by size() *)
  it_arities : list (Z * Z);                   (* every IndicatorResult::new(&[..], &[..]) in next() *)
  it_guard_first : bool;                       (* init starts with the validate() guard *)
  it_defaults : list string;                   (* fields given a value by Default *)
  it_serde : bool                              (* config and instance derive Serialize+Deserialize, no skip *)
}.

Definition fname (f : string * bool * string) : string := fst (fst f).
Definition fpub (f : string * bool * string) : bool := snd (fst f).
Definition ftype (f : string * bool * string) : string := snd f.
Definition mem (s : string) (l : list string) : bool := existsb (String.eqb s) l.
Definition pub_fields (t : itable) : list string := map fname (filter fpub (it_fields t)).
Fixpoint nodupb (l : list string) : bool :=
  match l with [] => true | x :: r => negb (mem x r) && nodupb r end.

(** every arm assigns the field whose name is the key, the field is public, keys are distinct *)
Definition set_sound (t : itable) : bool :=
  forallb (fun a => String.eqb (fst a) (snd a) && mem (snd a) (pub_fields t)) (it_arms t)
  && nodupb (map fst (it_arms t)) && it_default_err t.
(** every public parameter can be set *)
Definition set_complete (t : itable) : bool :=
  forallb (fun f => mem f (map fst (it_arms t))) (pub_fields t).
(** every result built by next() has the announced shape *)
Definition arity_ok (t : itable) : bool :=
  forallb (fun a => (fst a =? fst (it_size t))%Z && (snd a =? snd (it_size t))%Z) (it_arities t)
  && negb (match it_arities t with [] => true | _ => false end)
  && (fst (it_size t) <=? 4)%Z && (snd (it_size t) <=? 4)%Z.
Definition defaults_complete (t : itable) : bool :=
  forallb (fun f => mem (fname f) (it_defaults t)) (it_fields t).
Definition table_ok (t : itable) : bool :=
  set_sound t && set_complete t && arity_ok t && defaults_complete t && it_guard_first t
  && it_serde t && negb (String.eqb (it_NAME t) "").

(** ** semantics of the string setter described by a table.  A configuration
    is an association list field -> text of its value; [parses ty v] abstracts
    [str::parse::<ty>] (total, a boolean). *)
Section SetSem.
Variable parses : string -> string -> bool.
Definition cfg := list (string * string).
Fixpoint assoc (k : string) (l : list (string * string)) : option string :=
  match l with [] => None | (a, b) :: r => if String.eqb k a then Some b else assoc k r end.
Fixpoint update (k v : string) (c : cfg) : cfg :=
  match c with [] => [] | (a, b) :: r => if String.eqb k a then (a, v) :: r else (a, b) :: update k v r end.
Definition field_type (t : itable) (f : string) : option string :=
  assoc f (map (fun x => (fname x, ftype x)) (it_fields t)).
(** [None] = Err (configuration unchanged), [Some c'] = Ok *)
Definition set_sem (t : itable) (c : cfg) (name value : string) : option cfg :=
  match assoc name (it_arms t) with
  | None => None
  | Some field =>
    match field_type t field with
    | Some ty => if parses ty value then Some (update field value c) else None
    | None => None
    end
  end.

Lemma assoc_update_same k v c : assoc k c <> None -> assoc k (update k v c) = Some v.
Proof. induction c as [|[a b] r IH]; simpl; [congruence|].
  destruct (String.eqb k a) eqn:E; simpl; rewrite E; auto. Qed.
Lemma assoc_update_other k k' v c : k <> k' -> assoc k' (update k v c) = assoc k' c.
Proof. intros H. induction c as [|[a b] r IH]; simpl; auto.
  destruct (String.eqb k a) eqn:E; simpl.
  - apply String.eqb_eq in E. subst a. destruct (String.eqb k' k) eqn:E2; auto.
    apply String.eqb_eq in E2. congruence.
  - rewrite IH. reflexivity. Qed.
Lemma assoc_in k (l : list (string * string)) v : assoc k l = Some v -> In (k, v) l.
Proof. induction l as [|[a b] r IH]; simpl; [discriminate|].
  destruct (String.eqb k a) eqn:E; [|auto]. apply String.eqb_eq in E. intros [= ->]. subst. auto. Qed.
Lemma mem_in s l : mem s l = true <-> In s l.
Proof. unfold mem. rewrite existsb_exists. split.
  - intros (x & H1 & H2). apply String.eqb_eq in H2. subst; auto.
  - intros H. exists s. split; auto. apply String.eqb_refl. Qed.

(** set changes exactly the named parameter, or fails leaving everything as it was *)
Theorem set_sem_exact t c name value c' : set_sound t = true ->
  set_sem t c name value = Some c' ->
  (forall other, other <> name -> assoc other c' = assoc other c) /\
  (assoc name c <> None -> assoc name c' = Some value) /\ mem name (pub_fields t) = true.
Proof.
  unfold set_sound, set_sem. intros Hs. apply andb_prop in Hs as (Hs & _). apply andb_prop in Hs as (Hs & _).
  destruct (assoc name (it_arms t)) as [field|] eqn:Ea; [|discriminate].
  apply assoc_in in Ea. rewrite forallb_forall in Hs. specialize (Hs _ Ea). cbn [fst snd] in Hs.
  apply andb_prop in Hs as (Hk & Hp). apply String.eqb_eq in Hk. subst field.
  destruct (field_type t name); [|discriminate]. destruct (parses s value); [|discriminate].
  intros [= <-]. split; [|split; [|exact Hp]].
  - intros other Ho. apply assoc_update_other. congruence.
  - apply assoc_update_same.
Qed.
(** an unknown name is an error *)
Theorem set_sem_unknown t c name value :
  assoc name (it_arms t) = None -> set_sem t c name value = None.
Proof. unfold set_sem. intros ->. reflexivity. Qed.
End SetSem.

Lemma table_ok_parts t : table_ok t = true ->
  set_sound t = true /\ set_complete t = true /\ arity_ok t = true /\ defaults_complete t = true /\
  it_guard_first t = true /\ it_serde t = true.
Proof.
  unfold table_ok. intros H.
  apply andb_prop in H as (H & _). apply andb_prop in H as (H & H6). apply andb_prop in H as (H & H5).
  apply andb_prop in H as (H & H4). apply andb_prop in H as (H & H3). apply andb_prop in H as (H1 & H2).
  repeat split; assumption.
Qed.
