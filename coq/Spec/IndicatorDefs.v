(** Published formulas of the indicators as functions of the candle history
    (DESIGN.md 9/C05): compositions of the method definitions of
    Spec/MethodDefs.v over the series derived from the candles.  [rcs] is the
    list of candles seen so far, NEWEST FIRST; [c0] the construction candle,
    standing for everything before the stream.  Polymorphic over [Num]:
    evaluated on binary64 they are the oracle of C05; on NumR they are the
    right-hand sides of the indicator theorems. *)
From Yata Require Import Base.Prelude Base.Num Core.Window Core.Candle Core.Action Core.Strings
  Spec.Hist Spec.MethodDefs Methods.Basic Methods.Select Indicators.Common.

Section IDefs.
Context {pw : PW} {N : Num}.

(** all suffixes of a newest-first list = the history as it was after each step, newest first *)
Fixpoint suffixes {A} (l : list A) : list (list A) :=
  match l with [] => [] | x :: r => (x :: r) :: suffixes r end.
(** the series of a quantity [f] (a function of the history so far), newest first *)
Definition series {A} (f : list A -> F) (rh : list A) : list F := map f (suffixes rh).

(** median of the last n values (both middle elements averaged for even n) *)
Fixpoint insert_sorted (x : F) (l : list F) : list F :=
  match l with [] => [x] | y :: r => if fle x y then x :: l else y :: insert_sorted x r end.
Definition median_def (n : nat) (h : nat -> F) : F :=
  let s := fold_right insert_sorted [] (map h (seq 0 n)) in
  fmul (fadd (nth (n / 2) s f0) (nth (n / 2 - (if Nat.even n then 1 else 0)) s f0)) (flit 1 2).

(** the from-scratch value of a moving average of kind/length [c] seeded with x0 after inputs rh *)
Definition ma_def (c : ma_cfg) (x0 : F) (rh : list F) : F :=
  let 'MAcfg k n := c in
  let m := Z.to_nat n in
  let h := hget x0 rh in
  match k with
  | KSMA => sma_def m h | KWMA => wma_def m h | KSWMA => swma_def m h | KTRIMA => trima_def m h
  | KHMA => hma_def m (Z.to_nat (n / 2)) (Z.to_nat (ftrunc_sat 0 pmax (fsqrt (fofZ n)))) h
  | KLinReg => linreg_def m h | KSMM => median_def m h
  | KEMA => ema_def n x0 rh | KDMA => dma_def n x0 rh | KTMA => tma_def n x0 rh
  | KDEMA => dema_def n x0 rh | KTEMA => tema_def n x0 rh | KRMA => rma_def n x0 rh | KWSMA => wsma_def n x0 rh
  | KVidya => vidya_rec m x0 rh
  end.

Definition srcs (s : source) (rcs : list candle) : list F := map (fun c => c_source c s) rcs.
Definition hmax (n : nat) (h : nat -> F) : F := fold_left fmax (map h (seq 0 n)) (h O).
Definition hmin (n : nat) (h : nat -> F) : F := fold_left fmin (map h (seq 0 n)) (h O).
(** age of the newest maximal / minimal element among the last n *)
Fixpoint argbest (better : F -> F -> bool) (h : nat -> F) (n : nat) : nat :=
  match n with
  | O => O
  | S m => let j := argbest better h m in if better (h m) (h j) then m else j
  end.
Definition highest_age (n : nat) (h : nat -> F) : Z := Z.of_nat (argbest fgt h n).
Definition lowest_age (n : nat) (h : nat -> F) : Z := Z.of_nat (argbest flt h n).

(* ---- MACD: difference of two averages of the source and the signal average of that difference *)
Definition macd_line (ma1 ma2 : ma_cfg) (s0 : F) (rs : list F) : F := fsub (ma_def ma1 s0 rs) (ma_def ma2 s0 rs).
Definition macd_values (ma1 ma2 signal : ma_cfg) (src : source) (c0 : candle) (rcs : list candle) : list F :=
  let s0 := c_source c0 src in let rs := srcs src rcs in
  [macd_line ma1 ma2 s0 rs; ma_def signal f0 (series (macd_line ma1 ma2 s0) rs)].
(* ---- Bollinger: mean +- sigma * sample standard deviation *)
Definition boll_values (n : Z) (sigma : F) (src : source) (c0 : candle) (rcs : list candle) : list F :=
  let h := hget (c_source c0 src) (srcs src rcs) in
  let mid := sma_def (Z.to_nat n) h in let sd := stdev_def (Z.to_nat n) h in
  [fadd mid (fmul sigma sd); mid; fsub mid (fmul sigma sd)].
(* ---- Donchian: lowest low, middle, highest high of the last n candles *)
Definition donch_values (n : Z) (c0 : candle) (rcs : list candle) : list F :=
  let hi := hmax (Z.to_nat n) (hget (c_high c0) (map c_high rcs)) in
  let lo := hmin (Z.to_nat n) (hget (c_low c0) (map c_low rcs)) in
  [lo; fmul (fadd hi lo) (flit 1 2); hi].
(* ---- Envelopes: average scaled by (1 +- k), and the second source *)
Definition env_values (ma : ma_cfg) (k : F) (src src2 : source) (c0 : candle) (rcs : list candle) : list F :=
  let v := ma_def ma (c_source c0 src) (srcs src rcs) in
  [fmul v (fadd f1 k); fmul v (fsub f1 k); hget (c_source c0 src2) (srcs src2 rcs) O].
(* ---- MomentumIndex: two momenta of the source *)
Definition momi_values (p1 p2 : Z) (src : source) (c0 : candle) (rcs : list candle) : list F :=
  let h := hget (c_source c0 src) (srcs src rcs) in
  [momentum_def (Z.to_nat p1) h; momentum_def (Z.to_nat p2) h].
(* ---- DPO: price (period/2 + 1) steps ago minus the average *)
Definition dpo_values (ma : ma_cfg) (src : source) (c0 : candle) (rcs : list candle) : list F :=
  let s0 := c_source c0 src in let rs := srcs src rcs in
  [fsub (hget s0 rs (Z.to_nat (ma_period ma / 2 + 1))) (ma_def ma s0 rs)].
(* ---- RSI: average gain / (average gain + average loss) of the one-step changes (0.5 when their sum vanishes) *)
Definition rsi_values (ma : ma_cfg) (src : source) (c0 : candle) (rcs : list candle) : list F :=
  let ch := diffs (c_source c0 src) (srcs src rcs) in
  let pos := ma_def ma f0 (map (fun d => fmax d f0) ch) in
  let neg := fneg (ma_def ma f0 (map (fun d => fmin d f0) ch)) in
  [if fne (fadd pos neg) f0 then fdiv pos (fadd pos neg) else flit 1 2].
(* ---- Chande momentum oscillator over the last n one-step changes *)
Definition cmo_values (n : Z) (src : source) (c0 : candle) (rcs : list candle) : list F :=
  let ch := hget f0 (diffs (c_source c0 src) (srcs src rcs)) in
  let up := gsum (Z.to_nat n) (fun i => fpos (ch i)) in
  let dn := gsum (Z.to_nat n) (fun i => fnegp (ch i)) in
  [if fne up f0 || fne dn f0 then fdiv (fsub up dn) (fadd up dn) else f0].
(* ---- Stochastic: %K raw = (close - lowest)/(highest - lowest) (0.5 on a flat range), smoothed twice *)
Definition sto_raw (n : Z) (c0 : candle) (rcs : list candle) : F :=
  let hi := hmax (Z.to_nat n) (hget (c_high c0) (map c_high rcs)) in
  let lo := hmin (Z.to_nat n) (hget (c_low c0) (map c_low rcs)) in
  if feq hi lo then flit 1 2 else fdiv (fsub (c_close (hget c0 rcs O)) lo) (fsub hi lo).
Definition sto_values (n : Z) (ma signal : ma_cfg) (c0 : candle) (rcs : list candle) : list F :=
  let k0 := if feq (c_high c0) (c_low c0) then flit 1 2
            else fdiv (fsub (c_close c0) (c_low c0)) (fsub (c_high c0) (c_low c0)) in
  let kline := fun l => ma_def ma k0 (series (sto_raw n c0) l) in
  [kline rcs; ma_def signal k0 (series kline rcs)].
(* ---- Aroon: (n - age of the highest high)/n and (n - age of the lowest low)/n *)
Definition aroon_values (n : Z) (c0 : candle) (rcs : list candle) : list F :=
  let ah := highest_age (Z.to_nat n) (hget (c_high c0) (map c_high rcs)) in
  let al := lowest_age (Z.to_nat n) (hget (c_low c0) (map c_low rcs)) in
  [fdiv (fofZ (n - ah)) (fofZ n); fdiv (fofZ (n - al)) (fofZ n)].
(* ---- Chaikin money flow: sum of clv*volume over the sum of volumes of the last n candles *)
Definition cmf_values (n : Z) (c0 : candle) (rcs : list candle) : list F :=
  let h := hget c0 rcs in
  [fdiv (gsum (Z.to_nat n) (fun i => clvv (h i))) (gsum (Z.to_nat n) (fun i => c_volume (h i)))].
(* ---- Money flow index: positive flow / (positive + negative flow) of the last n candles *)
Definition mfi_values (n : Z) (zone : F) (c0 : candle) (rcs : list candle) : list F :=
  let h := hget c0 rcs in
  let flow := fun (up : bool) i => if (if up then fgt else flt) (c_tp (h i)) (c_tp (h (S i))) then c_volume (h i) else f0 in
  let pmf := gsum (Z.to_nat n) (flow true) in let nmf := gsum (Z.to_nat n) (flow false) in
  let mfr := if feq nmf f0 then f1 else fdiv pmf nmf in
  [fsub f1 zone; fsub f1 (fdiv f1 (fadd f1 mfr)); zone].
(* ---- Keltner: average +- sigma * SMA of the true range *)
Definition tr_series (c0 : candle) (rcs : list candle) : list F :=
  series (fun l => c_tr_close (hget c0 l O) (c_close (hget c0 l 1%nat))) rcs.
Definition kelt_values (ma : ma_cfg) (sigma : F) (src : source) (c0 : candle) (rcs : list candle) : list F :=
  let s0 := c_source c0 src in let rs := srcs src rcs in
  let m := ma_def ma s0 rs in
  let atr := sma_def (Z.to_nat (ma_period ma)) (hget (fsub (c_high c0) (c_low c0)) (tr_series c0 rcs)) in
  [hget s0 rs O; fadd m (fmul sigma atr); fsub m (fmul sigma atr)].
(* ---- Price channel: middle +- sigma * half-range of the Donchian channel *)
Definition pch_values (n : Z) (sigma : F) (c0 : candle) (rcs : list candle) : list F :=
  let hi := hmax (Z.to_nat n) (hget (c_high c0) (map c_high rcs)) in
  let lo := hmin (Z.to_nat n) (hget (c_low c0) (map c_low rcs)) in
  let mid := fmul (fadd hi lo) (flit 1 2) in let d := fsub hi mid in
  [fadd mid (fmul sigma d); fsub mid (fmul sigma d)].
(* ---- CCI: (price - SMA) / (1.5 * mean absolute deviation) *)
Definition ccii_values (n : Z) (src : source) (c0 : candle) (rcs : list candle) : list F :=
  [fdiv (cci_def (Z.to_nat n) (hget (c_source c0 src) (srcs src rcs))) (flit 3 2)].
(* ---- Ichimoku: midpoints of the highest high / lowest low over l1, l2, l3; the spans are displaced by m *)
Definition mid_hl (n : Z) (c0 : candle) (rcs : list candle) : F :=
  fmul (fadd (hmax (Z.to_nat n) (hget (c_high c0) (map c_high rcs))) (hmin (Z.to_nat n) (hget (c_low c0) (map c_low rcs)))) (flit 1 2).
Definition ichi_values (l1 l2 l3 m : Z) (c0 : candle) (rcs : list candle) : list F :=
  let tenkan := mid_hl l1 c0 in let kijun := mid_hl l2 c0 in
  let a := fun l => fmul (fadd (tenkan l) (kijun l)) (flit 1 2) in
  [tenkan rcs; kijun rcs; hget (c_hl2 c0) (series a rcs) (Z.to_nat m); hget (c_hl2 c0) (series (mid_hl l3 c0) rcs) (Z.to_nat m)].
(* ---- Elder's force index: average of (price change over p2) * (volume summed over p2) *)
Definition efi_values (ma : ma_cfg) (p2 : Z) (src : source) (c0 : candle) (rcs : list candle) : list F :=
  let raw := fun l => let h := hget c0 l in
    fmul (fsub (c_source (h O) src) (c_source (h (Z.to_nat p2)) src)) (gsum (Z.to_nat p2) (fun i => c_volume (h i))) in
  [ma_def ma f0 (series raw rcs)].
(* ---- Klinger: difference of two averages of the signed volume, and its signal average *)
Definition kvo_values (ma1 ma2 signal : ma_cfg) (c0 : candle) (rcs : list candle) : list F :=
  let sv := series (fun l => let h := hget c0 l in
              let d := fsub (c_tp (h O)) (c_tp (h 1%nat)) in
              fmul (fsub (fofb (fgt d f0)) (fofb (flt d f0))) (c_volume (h O))) rcs in
  let ko := fun l => fsub (ma_def ma1 f0 l) (ma_def ma2 f0 l) in
  [ko sv; ma_def signal f0 (series ko sv)].
(* ---- KST: weighted sum of four smoothed rates of change, and its signal average *)
Definition kst_values (p1 p2 p3 p4 : Z) (ma1 ma2 ma3 ma4 signal : ma_cfg) (c0 : candle) (rcs : list candle) : list F :=
  let cl := map c_close rcs in let c00 := c_close c0 in
  let rocs := fun p l => series (fun q => roc_def (Z.to_nat p) (hget c00 q)) l in
  let kst := fun l => fadd (fadd (ma_def ma1 f0 (rocs p1 l)) (fmul f2 (ma_def ma2 f0 (rocs p2 l))))
                           (fadd (fmul (fofZ 3) (ma_def ma3 f0 (rocs p3 l))) (fmul (fofZ 4) (ma_def ma4 f0 (rocs p4 l)))) in
  [kst cl; ma_def signal f0 (series kst cl)].
(* ---- TrueStrengthIndex / SMI: the TSI of the source and its signal average *)
Definition tsi_line (short long : Z) (s0 : F) (rs : list F) : F := tsi_def short long s0 rs.
Definition tsii_values (p1 p2 p3 : Z) (src : source) (c0 : candle) (rcs : list candle) : list F :=
  let s0 := c_source c0 src in let rs := srcs src rcs in
  [tsi_line p2 p1 s0 rs; ema_def p3 f0 (series (tsi_line p2 p1 s0) rs)].
(* ---- Trix: one-step change of the triple EMA, and its signal average *)
Definition trix_values (p1 : Z) (signal : ma_cfg) (src : source) (c0 : candle) (rcs : list candle) : list F :=
  let s0 := c_source c0 src in let rs := srcs src rcs in
  let tm := series (tma_def p1 s0) rs in
  let ch := fun l => fsub (hget s0 l O) (hget s0 l 1%nat) in
  [ch tm; ma_def signal f0 (series ch tm)].
(* ---- Chaikin oscillator: difference of two averages of the accumulation/distribution line *)
Definition co_values (ma1 ma2 : ma_cfg) (window : Z) (c0 : candle) (rcs : list candle) : list F :=
  let adl := series (fun l => if (window =? 0)%Z then cumsum (map clvv l) else adi_def (Z.to_nat window) (hget c0 l)) rcs in
  let seed := if (window =? 0)%Z then f0 else fmul (clvv c0) (fofZ window) in
  [fsub (ma_def ma1 seed adl) (ma_def ma2 seed adl)].
(* ---- Coppock: average of the sum of two rates of change, and its signal average *)
Definition cop_values (ma1 s3 : ma_cfg) (p2 p3 : Z) (src : source) (c0 : candle) (rcs : list candle) : list F :=
  let s0 := c_source c0 src in let rs := srcs src rcs in
  let sum := series (fun l => fadd (roc_def (Z.to_nat p2) (hget s0 l)) (roc_def (Z.to_nat p3) (hget s0 l))) rs in
  let v1 := fun l => ma_def ma1 f0 l in
  [v1 sum; ma_def s3 f0 (series v1 sum)].
End IDefs.
