(** C01 — Window is a faithful fixed-capacity FIFO for every size, phase and
    history.  Only statements pinned to lemmas proved in Core/WindowSpec.v. *)
From Yata Require Import Base.Prelude Core.Window Core.WindowSpec.

Section C01.
Context {pw : PW} {A : Type}.
Hypothesis pmax_ge : 2 <= pmax.

(** Construction: [n] copies of the construction value. *)
Theorem C01_new n (v : A) : 0 <= n <= pmax - 1 ->
  exists w, w_new n v = Ok w /\ wf w /\ wseq w = repeat v (Z.to_nat n) /\ wsize w = n.
Proof. exact (new_spec n v). Qed.

(** One push: well-formedness is kept, the value returned is the oldest one
    and the content shifts by one. *)
Theorem C01_push (w : window A) x : wf w -> 0 < wsize w ->
  exists w' old, w_push w x = Ok (w', old) /\ wf w' /\ wsize w' = wsize w /\
    content w' = x :: removelast (content w) /\
    last (content w) old = old /\ nth_error (content w) (length (content w) - 1) = Some old.
Proof. exact (push_content w x). Qed.

(** Any number of pushes, any capacity: the stream [repeat v n ++ xs] is split
    into the values returned (each pushed [n] steps before its push) and the
    window content. *)
Theorem C01_pushes n (v : A) xs : 0 < n <= pmax - 1 ->
  exists w0 w' olds, w_new n v = Ok w0 /\ w_pushes w0 xs = Ok (w', olds) /\ wf w' /\
    repeat v (Z.to_nat n) ++ xs = olds ++ wseq w' /\
    length olds = length xs /\ length (wseq w') = Z.to_nat n.
Proof. exact (pushes_from_new n v xs). Qed.

Theorem C01_newest (w : window A) : wf w -> 0 < wsize w ->
  exists v, w_newest w = Ok v /\ hd_error (content w) = Some v.
Proof. exact (newest_spec w). Qed.

Theorem C01_oldest (w : window A) : wf w -> 0 < wsize w ->
  exists v, w_oldest w = Ok v /\ hd_error (wseq w) = Some v.
Proof. exact (oldest_spec w). Qed.

(** get: for EVERY index of PeriodType, the i-th newest element or None. *)
Theorem C01_get (w : window A) i : wf w -> 0 <= i <= pmax ->
  w_get w i = Ok (nth_error (content w) (Z.to_nat i)).
Proof. exact (get_spec pmax_ge w i). Qed.

(** Index: that element, or a panic — never another element. *)
Theorem C01_index (w : window A) i : wf w -> 0 <= i <= pmax ->
  match nth_error (content w) (Z.to_nat i) with
  | Some v => w_index w i = Ok v
  | None => is_panic (w_index w i) = true
  end.
Proof. exact (index_spec pmax_ge w i). Qed.

(** Forward iterator split after k items. *)
Theorem C01_iter (w : window A) k : wf w ->
  exists it', it_take it_next w (w_iter w) k = Ok (it', firstn k (content w)) /\
    it_size_hint it' = Z.max 0 (wsize w - Z.of_nat k) /\ it_count it' = it_size_hint it'.
Proof. exact (iter_take w k). Qed.

Theorem C01_iter_last (w : window A) k : wf w ->
  exists it', it_take it_next w (w_iter w) k = Ok (it', firstn k (content w)) /\
    it_last w it' = Ok (if Z.of_nat k <? wsize w then
                          nth_error (content w) (length (content w) - 1) else None).
Proof. exact (iter_last w k). Qed.

Theorem C01_iter_rev (w : window A) k : wf w ->
  exists it', it_take rit_next w (w_iter w) k = Ok (it', firstn k (rev (content w))) /\
    it_size_hint it' = Z.max 0 (wsize w - Z.of_nat k) /\ it_count it' = it_size_hint it' /\
    rit_last w it' = Ok (if Z.of_nat k <? wsize w then hd_error (content w) else None).
Proof. exact (iter_rev_take w k). Qed.

Theorem C01_empty (x : A) i k : 0 <= i <= pmax ->
  let e : window A := w_empty in
  wf e /\ w_get e i = Ok None /\ is_panic (w_index e i) = true /\
  is_panic (w_push e x) = true /\ is_panic (w_newest e) = true /\
  is_panic (w_oldest e) = true /\
  (exists it, it_take it_next e (w_iter e) k = Ok (it, [])) /\
  (exists it, it_take rit_next e (w_iter e) k = Ok (it, [])) /\
  it_last e (w_iter e) = Ok None /\ rit_last e (w_iter e) = Ok None.
Proof. exact (empty_yields_nothing pmax_ge x i k). Qed.

Theorem C01_from_parts (b : list A) idx :
  Z.of_nat (length b) <= pmax - 1 ->
  (0 <= idx < Z.of_nat (length b) \/ (b = [] /\ idx = 0)) ->
  exists w, w_from_parts b idx = Ok w /\ wf w /\ wseq w = rot b (Z.to_nat idx) /\
    buf w = b /\ widx w = idx.
Proof. exact (from_parts_spec b idx). Qed.

Theorem C01_from_parts_rejects (b : list A) idx :
  pmax <= Z.of_nat (length b) \/ (Z.of_nat (length b) <= idx /\ ~ (b = [] /\ idx = 0)) ->
  is_panic (w_from_parts b idx) = true.
Proof. exact (from_parts_rejects b idx). Qed.

(** Round trips hold for every well-formed window, the empty one included. *)
Theorem C01_from_parts_roundtrip (w : window A) : wf w ->
  w_from_parts (w_as_slice w) (widx w) = Ok w.
Proof. exact (from_parts_roundtrip pmax_ge w). Qed.

Theorem C01_serde_roundtrip (w : window A) : wf w ->
  w_deserialize (w_serialize w) = DOk w.
Proof. exact (deser_ser pmax_ge w). Qed.

Theorem C01_deser_total (b : list A) idx :
  match w_deserialize (b, idx) with
  | DOk w => wf w /\ buf w = b /\ widx w = idx /\ parts_ok b idx
  | DErr => ~ parts_ok b idx
  | DPanic _ => False
  end.
Proof. exact (deser_total pmax_ge b idx). Qed.
End C01.

(** Non-vacuity: a 3-slot window after 5 pushes is well formed with a
    non-zero oldest index, and its content is the last three pushes. *)
Example C01_nonvacuous :
  let pw := PW8 in
  match w_new 3 0 with
  | Ok w0 => match w_pushes w0 [1;2;3;4;5] with
             | Ok (w, olds) => widx w = 2 /\ content w = [5;4;3] /\ olds = [0;0;0;1;2] /\
                               wsize w = 3 /\ ws1 w = 2 /\ buf w = [4;5;3]
             | _ => False end
  | _ => False end.
Proof. vm_compute. repeat split; reflexivity. Qed.

Print Assumptions C01_new.
Print Assumptions C01_push.
Print Assumptions C01_pushes.
Print Assumptions C01_newest.
Print Assumptions C01_oldest.
Print Assumptions C01_get.
Print Assumptions C01_index.
Print Assumptions C01_iter.
Print Assumptions C01_iter_last.
Print Assumptions C01_iter_rev.
Print Assumptions C01_empty.
Print Assumptions C01_from_parts.
Print Assumptions C01_from_parts_rejects.
Print Assumptions C01_from_parts_roundtrip.
Print Assumptions C01_serde_roundtrip.
Print Assumptions C01_deser_total.
