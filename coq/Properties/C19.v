(** C19 — The unsafe_performance feature changes nothing observable and stays in bounds. *)
From Yata Require Import Base.Prelude Base.Num Core.Window Core.WindowSpec Methods.Basic Methods.Select Proofs.Unsafe.
Open Scope Z_scope.

Section C19.
Context {pw : PW}.
Hypothesis pmax_ge : 2 <= pmax.
Context {A : Type}.
Theorem C19_push_oldest_in_bounds (w : window A) : wf w -> 0 < wsize w -> in_bounds (buf w) (widx w).
Proof. exact (push_slot_in_bounds w). Qed.
Theorem C19_newest_in_bounds (w : window A) : wf w -> 0 < wsize w ->
  in_bounds (buf w) (if widx w - 1 <? 0 then ws1 w else widx w - 1).
Proof. exact (newest_slot_in_bounds w). Qed.
Theorem C19_index_in_bounds (w : window A) i k : wf w -> 0 < wsize w -> 0 <= i <= pmax ->
  w_slice_index w i = Ok (Some k) -> in_bounds (buf w) k.
Proof. exact (index_slot_in_bounds pmax_ge w i k). Qed.
Theorem C19_empty_get_must_stay_checked (w : window A) : wf w -> wsize w = 0 ->
  w_slice_index w 0 = Ok (Some 0) /\ ~ in_bounds (buf w) 0.
Proof. exact (empty_get_needs_check pmax_ge w). Qed.
Theorem C19_iterators_defined (w : window A) : wf w -> exists l, w_iter_all w = Ok l /\ length l = length (buf w).
Proof. exact (iter_all_defined w). Qed.
End C19.

Theorem C19_smm_indices {pw : PW} {N : Num} (s : smm) x s' y : smm_next s x = Ok (s', y) ->
  let old_index := find_index (snd (w_push_t (smm_window s) x)) (smm_slice s) in
  let index0 := find_insert_index x (smm_slice s) in
  let index := index0 - (if old_index <? index0 then 1 else 0) in
  0 <= old_index < Z.of_nat (length (smm_slice s)) /\ 0 <= index < Z.of_nat (length (smm_slice s)).
Proof. exact (smm_indices_in_range s x s' y). Qed.
Theorem C19_smm_copy_ranges (len oi i : Z) : 0 <= oi < len -> 0 <= i < len -> i <> oi ->
  let after := if oi <? i then 1 else 0 in
  let start := (oi + 1) * after + i * (1 - after) in
  let dest := oi * after + (i + 1) * (1 - after) in
  let count := Z.max 0 (i - oi) * after + Z.max 0 (oi - i) * (1 - after) in
  0 <= start /\ start + count <= len /\ 0 <= dest /\ dest + count <= len.
Proof. exact (smm_copy_ranges_in_slice len oi i). Qed.
