(** C09 — Streaming, batch and chunked evaluation agree; clones are independent;
    peek returns the value most recently produced. *)
From Yata Require Import Base.Prelude Base.Num Core.Window Core.Candle Methods.Basic Methods.Select
  Spec.Hist Api.Glue Proofs.Peek.
Open Scope Z_scope.

Section C09.
Context {S I O : Type}.
Variable new : I -> outcome S.
Variable next : S -> I -> S * O.

Theorem C09_over_is_next_loop s xs :
  snd (m_over next s xs) = run next s xs /\ length (snd (m_over next s xs)) = length xs.
Proof. exact (over_is_run next s xs). Qed.
Theorem C09_new_over x0 r s : new x0 = Ok s -> m_new_over new next (x0 :: r) = Ok (run next s (x0 :: r)).
Proof. exact (new_over_is_run new next x0 r s). Qed.
Theorem C09_new_over_empty : m_new_over new next [] = Ok [].
Proof. exact (new_over_empty new next). Qed.
(** every way of cutting the stream into consecutive chunks, empty ones included *)
Theorem C09_chunked chunks s :
  chunked next s chunks = (steps next s (concat chunks), run next s (concat chunks)).
Proof. exact (chunked_is_run next chunks s). Qed.
Theorem C09_streaming_split s xs ys : run next s (xs ++ ys) = run next s xs ++ run next (steps next s xs) ys.
Proof. exact (run_app next s xs ys). Qed.
Theorem C09_one_output_per_input s xs : length (run next s xs) = length xs.
Proof. exact (run_length next s xs). Qed.
Theorem C09_with_history s xs :
  run (wh_next next) (s, []) xs = run next s xs /\ snd (steps (wh_next next) (s, []) xs) = run next s xs.
Proof. exact (with_history_is_run next s xs). Qed.
Theorem C09_with_last_value x0 s xs : new x0 = Ok s ->
  exists st, wlv_new new next x0 = Ok st /\ wlv_peek st = snd (next s x0) /\
    run (wlv_next next) st xs = run next (fst (next s x0)) xs.
Proof. exact (with_last_value_is_run new next x0 s xs). Qed.
Theorem C09_clone_independent (s : S) (xs other : list I) :
  let clone := s in let _original_after := steps next s other in run next clone xs = run next s xs.
Proof. exact (clone_independent next s xs other). Qed.
End C09.

(** peek = last output, per Peekable method (any arithmetic) *)
Section C09_peek.
Context {pw : PW} {N : Num}.
Theorem C09_peek_sma s x : sma_peek (fst (sma_next s x)) = snd (sma_next s x). Proof. exact (sma_peek_ok s x). Qed.
Theorem C09_peek_wma s x : wma_peek (fst (wma_next s x)) = snd (wma_next s x). Proof. exact (wma_peek_ok s x). Qed.
Theorem C09_peek_ema s x : ema_peek (fst (ema_next s x)) = snd (ema_next s x). Proof. exact (ema_peek_ok s x). Qed.
Theorem C09_peek_dma s x : dma_peek (fst (dma_next s x)) = snd (dma_next s x). Proof. exact (dma_peek_ok s x). Qed.
Theorem C09_peek_tma s x : tma_peek (fst (tma_next s x)) = snd (tma_next s x). Proof. exact (tma_peek_ok s x). Qed.
Theorem C09_peek_dema s x : dema_peek (fst (dema_next s x)) = snd (dema_next s x). Proof. exact (dema_peek_ok s x). Qed.
Theorem C09_peek_tema s x : tema_peek (fst (tema_next s x)) = snd (tema_next s x). Proof. exact (tema_peek_ok s x). Qed.
Theorem C09_peek_rma s x : rma_peek (fst (rma_next s x)) = snd (rma_next s x). Proof. exact (rma_peek_ok s x). Qed.
Theorem C09_peek_trima s x : trima_peek (fst (trima_next s x)) = snd (trima_next s x). Proof. exact (trima_peek_ok s x). Qed.
Theorem C09_peek_hma s x : hma_peek (fst (hma_next s x)) = snd (hma_next s x). Proof. exact (hma_peek_ok s x). Qed.
Theorem C09_peek_linreg s x : linreg_peek (fst (linreg_next s x)) = snd (linreg_next s x). Proof. exact (linreg_peek_ok s x). Qed.
Theorem C09_peek_conv s x : conv_peek (fst (conv_next s x)) = snd (conv_next s x). Proof. exact (conv_peek_ok s x). Qed.
Theorem C09_peek_vwma s x : vwma_peek (fst (vwma_next s x)) = snd (vwma_next s x). Proof. exact (vwma_peek_ok s x). Qed.
Theorem C09_peek_stdev s x : stdev_peek (fst (stdev_next s x)) = snd (stdev_next s x). Proof. exact (stdev_peek_ok s x). Qed.
Theorem C09_peek_mad s x : mad_peek (fst (mad_next s x)) = snd (mad_next s x). Proof. exact (mad_peek_ok s x). Qed.
Theorem C09_peek_linvol s x : linvol_peek (fst (linvol_next s x)) = snd (linvol_next s x). Proof. exact (linvol_peek_ok s x). Qed.
Theorem C09_peek_vidya s x : vidya_peek (fst (vidya_next s x)) = snd (vidya_next s x). Proof. exact (vidya_peek_ok s x). Qed.
Theorem C09_peek_tsi s x : tsi_peek (fst (tsi_next s x)) = snd (tsi_next s x). Proof. exact (tsi_peek_ok s x). Qed.
Theorem C09_peek_integral s x : integral_peek (fst (integral_next s x)) = snd (integral_next s x). Proof. exact (integral_peek_ok s x). Qed.
Theorem C09_peek_adi s c : adi_peek (fst (adi_next s c)) = snd (adi_next s c). Proof. exact (adi_peek_ok s c). Qed.
Theorem C09_peek_highest s x : hl_peek (fst (highest_step s x)) = snd (highest_step s x). Proof. exact (highest_peek_ok s x). Qed.
Theorem C09_peek_lowest s x : hl_peek (fst (lowest_step s x)) = snd (lowest_step s x). Proof. exact (lowest_peek_ok s x). Qed.
End C09_peek.

(** Known finding KF-C09-past-peek: Past::peek reads the NEWEST element of its
    window (the last input), not the value [next] just returned (the input
    [length] steps ago).  Witness: Past(2) seeded 0, after input 7: next
    returned 0, peek returns 7. *)
Local Existing Instance PW8.
Example C09_past_peek_refuted :
  exists w : window Z, past_new 2 0 = Ok w /\
    snd (past_next w 7) = 0 /\ past_peek (fst (past_next w 7)) 0 = 7.
Proof. eexists. split; [reflexivity|]. split; vm_compute; reflexivity. Qed.
