(** C02 — Sliding-window numeric methods equal their from-scratch definition.
    Only statements and [exact]; the proofs are in Proofs/Windowed*.v.
    All theorems: exact arithmetic (NumR), every length in the accepted range,
    every construction value, every stream, every position. *)
From Yata Require Import Base.Prelude Base.Num Base.NumR Core.Window Core.Candle
  Spec.Hist Spec.MethodDefs Methods.Basic Proofs.MethodsCommon Proofs.Windowed Proofs.Windowed2 Proofs.Windowed3 Proofs.Windowed4
  Proofs.Windowed5 Proofs.Windowed6 Proofs.Swma.
From Coq Require Import Reals Lra.
Open Scope Z_scope.

Section C02.
Context {pw : PW}.
Local Notation R := (@F NumR).

(** "at every step of every stream the output is the definition applied to
    the history": [xs] is the stream so far, [x] the current input *)
Definition windowed_correct {S I O} (new : Z -> I -> outcome S) (next : S -> I -> S * O)
    (def : nat -> (nat -> I) -> O) (lo hi : Z) : Prop :=
  forall n v xs x, lo <= n <= hi ->
    exists s0, new n v = Ok s0 /\
      snd (next (steps next s0 xs) x) = def (Z.to_nat n) (hget v (rev (xs ++ [x]))).

Theorem C02_sma : windowed_correct sma_new sma_next (sma_def (N := NumR)) 1 (pmax - 1).
Proof. exact sma_correct. Qed.
Theorem C02_wma : windowed_correct wma_new wma_next (wma_def (N := NumR)) 1 (pmax - 1).
Proof. exact wma_correct. Qed.
Theorem C02_integral : windowed_correct integral_new integral_next (integral_def (N := NumR)) 1 (pmax - 1).
Proof. exact integral_correct. Qed.
Theorem C02_momentum : windowed_correct momentum_new momentum_next (momentum_def (N := NumR)) 1 (pmax - 1).
Proof. exact momentum_correct. Qed.
Theorem C02_derivative : windowed_correct derivative_new derivative_next (derivative_def (N := NumR)) 1 (pmax - 1).
Proof. exact derivative_correct. Qed.
Theorem C02_rate_of_change : windowed_correct roc_new roc_next (roc_def (N := NumR)) 1 (pmax - 1).
Proof. exact roc_correct. Qed.
Theorem C02_past : windowed_correct (past_new (A := R)) past_next (past_def (A := R)) 1 (pmax - 1).
Proof. exact past_correct. Qed.
Theorem C02_linear_volatility : windowed_correct linvol_new linvol_next (linvol_def (N := NumR)) 1 (pmax - 1).
Proof. exact linvol_correct. Qed.

Theorem C02_vwma : windowed_correct vwma_new vwma_next (vwma_def (N := NumR)) 1 (pmax - 1).
Proof. exact vwma_correct. Qed.
Theorem C02_adi_windowed : windowed_correct adi_new adi_next (adi_def (N := NumR)) 1 (pmax - 1).
Proof. exact adi_correct. Qed.
(** sample standard deviation: sqrt (sum (x - mean)^2 / (n-1)); the |.| under the root is shown redundant *)
Theorem C02_st_dev : windowed_correct stdev_new stdev_next (stdev_def (N := NumR)) 2 (pmax - 1).
Proof. exact stdev_correct. Qed.
Theorem C02_mean_abs_dev : windowed_correct mad_new mad_next (mad_def (N := NumR)) 1 (pmax - 1).
Proof. exact mad_correct. Qed.
Theorem C02_cci : windowed_correct cci_new cci_next (cci_def (N := NumR)) 1 (pmax - 1).
Proof. exact cci_correct. Qed.
Theorem C02_trima : windowed_correct trima_new trima_next (trima_def (N := NumR)) 1 (pmax - 1).
Proof. exact trima_correct. Qed.
(** least-squares intercept at the newest point, closed forms of s_x, s_x2 and the divider included *)
Theorem C02_lin_reg : windowed_correct linreg_new linreg_next (linreg_def (N := NumR)) 2 (pmax - 1).
Proof. exact linreg_correct. Qed.
(** every weight vector of length 1..MAX-1; the newest element meets the last weight *)
Theorem C02_conv ws v xs x : 1 <= Z.of_nat (length ws) <= pmax - 1 ->
  exists s0, conv_new (N := NumR) ws v = Ok s0 /\
    snd (conv_next (steps conv_next s0 xs) x) = conv_def ws (hget v (rev (xs ++ [x]))).
Proof. exact (conv_correct ws v xs x). Qed.
(** HMA(n) = WMA_k (2 WMA_(n/2) - WMA_n) with k the saturating truncating cast of sqrt n *)
Theorem C02_hma n v xs x : 2 <= n <= pmax - 1 ->
  exists s0, hma_new (N := NumR) n v = Ok s0 /\
    snd (hma_next (steps hma_next s0 xs) x) =
    hma_def (Z.to_nat n) (Z.to_nat (n / 2)) (Z.to_nat (hma_len3 n)) (hget v (rev (xs ++ [x]))).
Proof. exact (hma_correct n v xs x). Qed.
(** symmetric weights 1,2,..,2,1 (two half windows) *)
Theorem C02_swma : windowed_correct swma_new swma_next (swma_def (N := NumR)) 1 (pmax - 1).
Proof. exact swma_correct. Qed.
End C02.

(** non-vacuity: the hypotheses are met and the statement is about a concrete,
    non-constant run (SMA(3) seeded with 1 on 2,6,7 : mean of 2,6,7 = 5) *)
Example C02_sma_example :
  exists s0, sma_new (pw := PW8) (N := NumR) 3 1%R = Ok s0 /\
    snd (sma_next (pw := PW8) (steps (sma_next (pw := PW8)) s0 [2; 6]%R) 7%R) = 5%R.
Proof.
  destruct (C02_sma (pw := PW8) 3 1%R [2; 6]%R 7%R) as (s0 & H1 & H2); [cbn; lia|].
  exists s0. split; [exact H1|]. rewrite H2. unfold sma_def, hsum, gsum, fofN. cbn. numR.
  change (Pos.to_nat 3) with 3%nat. cbn. numR. lra.
Qed.
