(** C08 — The construction value acts as an infinite constant prehistory.
    Statements only.  [prefix_ok new next lo hi]: for every length, value v,
    number k of leading copies of v, stream xs and next input x, the output
    after (k copies of v, then xs) equals the output after xs alone; with
    xs = [] and x = v this is "constant input gives constant output". *)
From Yata Require Import Base.Prelude Base.Num Base.NumR Core.Window Core.Candle
  Spec.Hist Spec.MethodDefs Spec.IndicatorDefs Methods.Basic Methods.Select Proofs.MethodsCommon Proofs.Windowed Proofs.Windowed2
  Proofs.Windowed3 Proofs.Windowed4 Proofs.Windowed5 Proofs.Windowed6 Proofs.Recursive Proofs.Prehistory Proofs.Swma Proofs.Selection Proofs.Selection2 Proofs.LongRun.
From Coq Require Import Reals.
Open Scope Z_scope.

Section C08.
Context {pw : PW}.
Local Notation R := (@F NumR).

Definition prefix_ok {S I O} (new : Z -> I -> outcome S) (next : S -> I -> S * O) (lo hi : Z) : Prop :=
  forall n v k xs x, lo <= n <= hi ->
    exists s0, new n v = Ok s0 /\
      snd (next (steps next s0 (repeat v k ++ xs)) x) = snd (next (steps next s0 xs) x).

Theorem C08_sma : prefix_ok (sma_new (N := NumR)) sma_next 1 (pmax - 1).
Proof. intros n v k xs x. exact (prefix_invariant _ _ _ _ _ sma_correct sma_ext n v k xs x). Qed.
Theorem C08_wma : prefix_ok (wma_new (N := NumR)) wma_next 1 (pmax - 1).
Proof. intros n v k xs x. exact (prefix_invariant _ _ _ _ _ wma_correct wma_ext n v k xs x). Qed.
Theorem C08_trima : prefix_ok (trima_new (N := NumR)) trima_next 1 (pmax - 1).
Proof. intros n v k xs x. exact (prefix_invariant _ _ _ _ _ trima_correct trima_ext n v k xs x). Qed.
Theorem C08_lin_reg : prefix_ok (linreg_new (N := NumR)) linreg_next 2 (pmax - 1).
Proof. intros n v k xs x. exact (prefix_invariant _ _ _ _ _ linreg_correct linreg_ext n v k xs x). Qed.
Theorem C08_vwma : prefix_ok (vwma_new (N := NumR)) vwma_next 1 (pmax - 1).
Proof. intros n v k xs x. exact (prefix_invariant _ _ _ _ _ vwma_correct vwma_ext n v k xs x). Qed.
Theorem C08_integral_windowed : prefix_ok (integral_new (N := NumR)) integral_next 1 (pmax - 1).
Proof. intros n v k xs x. exact (prefix_invariant _ _ _ _ _ integral_correct integral_ext n v k xs x). Qed.
Theorem C08_momentum : prefix_ok (momentum_new (N := NumR)) momentum_next 1 (pmax - 1).
Proof. intros n v k xs x. exact (prefix_invariant _ _ _ _ _ momentum_correct momentum_ext n v k xs x). Qed.
Theorem C08_derivative : prefix_ok (derivative_new (N := NumR)) derivative_next 1 (pmax - 1).
Proof. intros n v k xs x. exact (prefix_invariant _ _ _ _ _ derivative_correct derivative_ext n v k xs x). Qed.
Theorem C08_rate_of_change : prefix_ok (roc_new (N := NumR)) roc_next 1 (pmax - 1).
Proof. intros n v k xs x. exact (prefix_invariant _ _ _ _ _ roc_correct roc_ext n v k xs x). Qed.
Theorem C08_past : prefix_ok (past_new (A := R)) past_next 1 (pmax - 1).
Proof. intros n v k xs x. exact (prefix_invariant _ _ _ _ _ past_correct past_ext n v k xs x). Qed.
Theorem C08_st_dev : prefix_ok (stdev_new (N := NumR)) stdev_next 2 (pmax - 1).
Proof. intros n v k xs x. exact (prefix_invariant _ _ _ _ _ stdev_correct stdev_ext n v k xs x). Qed.
Theorem C08_mean_abs_dev : prefix_ok (mad_new (N := NumR)) mad_next 1 (pmax - 1).
Proof. intros n v k xs x. exact (prefix_invariant _ _ _ _ _ mad_correct mad_ext n v k xs x). Qed.
Theorem C08_cci : prefix_ok (cci_new (N := NumR)) cci_next 1 (pmax - 1).
Proof. intros n v k xs x. exact (prefix_invariant _ _ _ _ _ cci_correct cci_ext n v k xs x). Qed.
Theorem C08_linear_volatility : prefix_ok (linvol_new (N := NumR)) linvol_next 1 (pmax - 1).
Proof. intros n v k xs x. exact (prefix_invariant _ _ _ _ _ linvol_correct linvol_ext n v k xs x). Qed.
Theorem C08_adi_windowed : prefix_ok (adi_new (N := NumR)) adi_next 1 (pmax - 1).
Proof. intros n v k xs x. exact (prefix_invariant _ _ _ _ _ adi_correct adi_ext n v k xs x). Qed.

Theorem C08_swma : prefix_ok (swma_new (N := NumR)) swma_next 1 (pmax - 1).
Proof. intros n v k xs x. refine (prefix_invariant _ _ _ _ _ swma_correct _ n v k xs x). intros m h h' E. apply swma_local. intros i _. apply E. Qed.
Theorem C08_highest : prefix_ok (hl_new (N := NumR)) highest_step 1 (pmax - 1).
Proof. intros n v k xs x. refine (prefix_invariant _ _ _ _ _ highest_correct _ n v k xs x). intros m h h' E. unfold highest_def. rewrite (E O). f_equal. apply map_ext. intros i. apply E. Qed.
Theorem C08_lowest : prefix_ok (hl_new (N := NumR)) lowest_step 1 (pmax - 1).
Proof. intros n v k xs x. refine (prefix_invariant _ _ _ _ _ lowest_correct _ n v k xs x). intros m h h' E. unfold lowest_def. rewrite (E O). f_equal. apply map_ext. intros i. apply E. Qed.
Theorem C08_highest_index : prefix_ok (hli_new (N := NumR)) highest_index_step 1 (pmax - 1).
Proof. intros n v k xs x. refine (prefix_invariant _ _ (fun m h => highest_age m h) _ _ highest_index_correct _ n v k xs x). intros m h h' E. unfold highest_age. f_equal. apply argbest_ext. exact E. Qed.
Theorem C08_lowest_index : prefix_ok (hli_new (N := NumR)) lowest_index_step 1 (pmax - 1).
Proof. intros n v k xs x. refine (prefix_invariant _ _ (fun m h => lowest_age m h) _ _ lowest_index_correct _ n v k xs x). intros m h h' E. unfold lowest_age. f_equal. apply argbest_ext. exact E. Qed.

(** EMA family / RMA: the recurrence started at v is at its fixed point on v *)
Theorem C08_ema_family n (v : R) k rh :
  ema_def n v (rh ++ repeat v k) = ema_def n v rh /\
  dma_def n v (rh ++ repeat v k) = dma_def n v rh /\
  tma_def n v (rh ++ repeat v k) = tma_def n v rh /\
  dema_def n v (rh ++ repeat v k) = dema_def n v rh /\
  tema_def n v (rh ++ repeat v k) = tema_def n v rh /\
  rma_def n v (rh ++ repeat v k) = rma_def n v rh.
Proof. exact (ema_family_prefix n v k rh). Qed.

(** constant input from the first step on (instance of the above with xs = [], x = v) *)
Theorem C08_sma_constant n (v : R) k : 1 <= n <= pmax - 1 ->
  exists s0, sma_new n v = Ok s0 /\ snd (sma_next (steps sma_next s0 (repeat v k)) v) = snd (sma_next s0 v).
Proof. exact (constant_output _ _ _ _ _ sma_correct sma_ext n v k). Qed.
End C08.

(** Known finding KF-C08-hma-constant-noise (binary64, kernel computation): HMA(9)
    built from x = 0x1.97f498a7cd536p+16 and fed x again does not return a constant:
    the second output differs from the first in the last bits (rounding residue of the
    WMA cascade), which the pivot detector of HullMovingAverage turns into a signal. *)
From Yata Require Import Base.NumF64.
From Coq Require Import Floats.
Example C08_hma_constant_noise_refuted :
  let x := (0x1.97f498a7cd536p+16)%float in
  exists s0, hma_new (pw := PW8) (N := NumF64) 9 x = Ok s0 /\
    PrimFloat.eqb (snd (hma_next (pw := PW8) s0 x))
                  (snd (hma_next (pw := PW8) (steps (hma_next (pw := PW8)) s0 [x]) x)) = false.
Proof. eexists. split; [reflexivity|]. vm_compute. reflexivity. Qed.

(** Constant input gives constant output for the MA constructor - all 15 averaging kinds, every length, any number of
    steps (exact arithmetic; the affine law of C15 with slope 0) - and for indicators composed of such averages *)
From Yata Require Import Core.Strings Indicators.Common Indicators.Set1 Proofs.MAProofs Proofs.Constant.
Theorem C08_ma_constant_all_kinds {pw : PW} (c : ma_cfg) (b : @F NumR) k : ma_len_ok c ->
  exists s0, ma_init c b = Ok s0 /\ snd (ma_next (steps ma_next s0 (repeat b k)) b) = b.
Proof. exact (ma_method_constant c b k). Qed.
Theorem C08_envelopes_constant {pw : PW} (cfg : env_cfg (N := NumR)) (c0 : candle (N := NumR)) k : env_validate cfg = true -> ma_len_ok (ec_ma cfg) ->
  exists s0, env_init cfg c0 = Ok s0 /\
    fst (snd (env_next (steps env_next s0 (repeat c0 k)) c0)) =
    let v := c_source c0 (ec_source cfg) in [fmul v (fadd f1 (ec_k cfg)); fmul v (fsub f1 (ec_k cfg)); c_source c0 (ec_source2 cfg)].
Proof. exact (envelopes_constant cfg c0 k). Qed.
Theorem C08_macd_constant {pw : PW} (cfg : macd_cfg) (c0 : candle (N := NumR)) k : macd_validate cfg = true ->
  ma_len_ok (mc_ma1 cfg) -> ma_len_ok (mc_ma2 cfg) -> ma_len_ok (mc_signal cfg) ->
  exists s0, macd_init (N := NumR) cfg c0 = Ok s0 /\
    fst (snd (macd_next (steps macd_next s0 (repeat c0 k)) c0)) = [0%R; 0%R].
Proof. exact (macd_constant cfg c0 k). Qed.
From Yata Require Import Indicators.Set2 Indicators.Set3.
Theorem C08_rsi_constant {pw : PW} (cfg : rsi_cfg (N := NumR)) (c0 : candle (N := NumR)) k : rsi_validate cfg = true -> ma_len_ok (rc_ma cfg) ->
  exists s0, rsi_init cfg c0 = Ok s0 /\ fst (snd (rsi_next (steps rsi_next s0 (repeat c0 k)) c0)) = [flit 1 2].
Proof. exact (rsi_constant cfg c0 k). Qed.
Theorem C08_dpo_constant {pw : PW} (ma : ma_cfg) src (c0 : candle (N := NumR)) k : (1 < ma_period ma < pmax)%Z -> ma_len_ok ma ->
  exists s0, dpo_init ma src c0 = Ok s0 /\ fst (snd (dpo_next (steps dpo_next s0 (repeat c0 k)) c0)) = [0%R].
Proof. exact (dpo_constant ma src c0 k). Qed.
Theorem C08_trix_constant {pw : PW} p1 (signal : ma_cfg) src (c0 : candle (N := NumR)) k :
  (2 < p1 <= pmax - 1)%Z -> (1 < ma_period signal)%Z -> ma_len_ok signal -> (4 <= pmax)%Z ->
  exists s0, trix_init p1 signal src c0 = Ok s0 /\ fst (snd (trix_next (steps trix_next s0 (repeat c0 k)) c0)) = [0%R; 0%R].
Proof. exact (trix_constant p1 signal src c0 k). Qed.
From Yata Require Import Proofs.Constant2.
Theorem C08_bollinger_constant {pw : PW} (cfg : boll_cfg (N := NumR)) (c0 : candle (N := NumR)) k : boll_validate cfg = true ->
  exists s0, boll_init cfg c0 = Ok s0 /\
    fst (snd (boll_next (steps boll_next s0 (repeat c0 k)) c0)) = let v := c_source c0 (bc_source cfg) in [v; v; v].
Proof. exact (bollinger_constant cfg c0 k). Qed.
Theorem C08_cmo_constant {pw : PW} period zone src (c0 : candle (N := NumR)) k : cmo_validate period zone = true ->
  exists s0, cmo_init period zone src c0 = Ok s0 /\ fst (snd (cmo_next (steps cmo_next s0 (repeat c0 k)) c0)) = [0%R].
Proof. exact (cmo_constant period zone src c0 k). Qed.
Theorem C08_donchian_constant {pw : PW} n (c0 : candle (N := NumR)) k : (2 <= n <= pmax - 1)%Z ->
  exists s0, donch_init n c0 = Ok s0 /\
    fst (snd (donch_next (steps donch_next s0 (repeat c0 k)) c0)) = [c_low c0; ((c_high c0 + c_low c0) * / 2)%R; c_high c0].
Proof. exact (donchian_constant n c0 k). Qed.
Theorem C08_aroon_constant {pw : PW} n zone ozp (c0 : candle (N := NumR)) k : aroon_validate n zone ozp = true ->
  exists s0, aroon_init n zone ozp c0 = Ok s0 /\ fst (snd (aroon_next (steps aroon_next s0 (repeat c0 k)) c0)) = [1%R; 1%R].
Proof. exact (aroon_constant n zone ozp c0 k). Qed.
