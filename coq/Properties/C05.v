(** C05 — Indicator raw values equal the documented formulas (theorems added per indicator). *)
From Yata Require Import Base.Prelude Base.Num Base.NumR Core.Window Core.Candle Core.Action
  Spec.Hist Spec.MethodDefs Spec.IndicatorDefs Methods.Basic Methods.Select Indicators.Common Indicators.Set1 Indicators.Set2 Indicators.Set3 Indicators.Set4 Indicators.Set5
  Proofs.IndicatorProofs Proofs.IndicatorProofs2 Proofs.IndicatorProofs3 Proofs.IndicatorProofs4 Proofs.IndicatorProofs5 Proofs.IndicatorProofs6 Proofs.IndicatorProofs7 Proofs.IndicatorProofs8 Proofs.IndicatorProofs9 Proofs.IndicatorProofs10 Proofs.IndicatorProofs11 Proofs.IndicatorProofs12 Proofs.IndicatorProofs13 Proofs.IndicatorProofs14 Proofs.IndicatorProofs15 Proofs.IndicatorProofs16 Proofs.Psar Proofs.Windowed5 Proofs.MAProofs.
From Coq Require Import Reals.
Open Scope Z_scope.

Section C05.
Context {pw : PW}.
Local Notation C := (candle (N := NumR)).

(** MomentumIndex: both values are the momenta of the source over period1 and period2 *)
Theorem C05_momentum_index p1 p2 src (c0 : C) cs c : 1 <= p2 -> p2 < p1 <= pmax - 1 ->
  exists s0, momi_init p1 p2 src c0 = Ok s0 /\
    fst (snd (momi_next (steps momi_next s0 cs) c)) = momi_values p1 p2 src c0 (rev (cs ++ [c])).
Proof. exact (momi_values_correct p1 p2 src c0 cs c). Qed.

(** the MA constructor: all 15 kinds return the kind's definition at every step *)
Theorem C05_ma_constructor (c : ma_cfg) (v : @F NumR) xs x : ma_proved c = true -> ma_len_ok c ->
  exists s0, ma_init c v = Ok s0 /\ snd (ma_next (steps ma_next s0 xs) x) = ma_def c v (rev (xs ++ [x])).
Proof. exact (ma_correct c v xs x). Qed.
Theorem C05_donchian_channel n (c0 : C) cs c : 2 <= n <= pmax - 1 ->
  exists s0, donch_init n c0 = Ok s0 /\
    fst (snd (donch_next (steps donch_next s0 cs) c)) = donch_values n c0 (rev (cs ++ [c])).
Proof. exact (donchian_values_correct n c0 cs c). Qed.
Theorem C05_price_channel n (sigma : @F NumR) (c0 : C) cs c : 2 <= n <= pmax - 1 -> (0 < sigma <= 1)%R ->
  exists s0, pch_init n sigma c0 = Ok s0 /\
    fst (snd (pch_next (steps pch_next s0 cs) c)) = pch_values n sigma c0 (rev (cs ++ [c])).
Proof. exact (price_channel_values_correct n sigma c0 cs c). Qed.
Theorem C05_aroon n zone ozp (c0 : C) cs c : aroon_validate n zone ozp = true ->
  exists s0, aroon_init n zone ozp c0 = Ok s0 /\
    fst (snd (aroon_next (steps aroon_next s0 cs) c)) = aroon_values n c0 (rev (cs ++ [c])).
Proof. exact (aroon_values_correct n zone ozp c0 cs c). Qed.
Theorem C05_envelopes (cfg : env_cfg (N := NumR)) (c0 : C) cs c :
  env_validate cfg = true -> ma_proved (ec_ma cfg) = true -> ma_len_ok (ec_ma cfg) ->
  exists s0, env_init cfg c0 = Ok s0 /\
    fst (snd (env_next (steps env_next s0 cs) c)) =
    env_values (ec_ma cfg) (ec_k cfg) (ec_source cfg) (ec_source2 cfg) c0 (rev (cs ++ [c])).
Proof. exact (envelopes_values_correct cfg c0 cs c). Qed.
Theorem C05_bollinger_bands (cfg : boll_cfg (N := NumR)) (c0 : C) cs c : boll_validate cfg = true ->
  exists s0, boll_init cfg c0 = Ok s0 /\
    fst (snd (boll_next (steps boll_next s0 cs) c)) =
    boll_values (bc_avg cfg) (bc_sigma cfg) (bc_source cfg) c0 (rev (cs ++ [c])).
Proof. exact (bollinger_values_correct cfg c0 cs c). Qed.
(** MACD: both lines; the signal line is the average of the SERIES of differences (a cascade) *)
Theorem C05_macd (cfg : macd_cfg) (c0 : C) cs c : macd_validate cfg = true ->
  ma_proved (mc_ma1 cfg) = true -> ma_len_ok (mc_ma1 cfg) -> ma_proved (mc_ma2 cfg) = true -> ma_len_ok (mc_ma2 cfg) ->
  ma_proved (mc_signal cfg) = true -> ma_len_ok (mc_signal cfg) ->
  exists s0, macd_init (N := NumR) cfg c0 = Ok s0 /\
    fst (snd (macd_next (steps macd_next s0 cs) c)) =
    macd_values (mc_ma1 cfg) (mc_ma2 cfg) (mc_signal cfg) (mc_source cfg) c0 (rev (cs ++ [c])).
Proof. exact (macd_values_correct cfg c0 cs c). Qed.
Theorem C05_detrended_price_oscillator (ma : ma_cfg) src (c0 : C) cs c :
  1 < ma_period ma < pmax -> ma_proved ma = true -> ma_len_ok ma ->
  exists s0, dpo_init ma src c0 = Ok s0 /\
    fst (snd (dpo_next (steps dpo_next s0 cs) c)) = dpo_values ma src c0 (rev (cs ++ [c])).
Proof. exact (dpo_values_correct ma src c0 cs c). Qed.
(** TrueStrengthIndex: the TSI line and the EMA of the series of TSI values *)
Theorem C05_true_strength_index p1 p2 p3 zone src (c0 : C) cs c : tsii_validate p1 p2 p3 zone = true ->
  exists s0, tsii_init p1 p2 p3 zone src c0 = Ok s0 /\
    fst (snd (tsii_next (steps tsii_next s0 cs) c)) = tsii_values p1 p2 p3 src c0 (rev (cs ++ [c])).
Proof. exact (tsii_values_correct p1 p2 p3 zone src c0 cs c). Qed.
Theorem C05_keltner_channel (ma : ma_cfg) (sigma : @F NumR) src (c0 : C) cs c :
  1 < ma_period ma <= pmax - 1 -> (0 < sigma)%R -> ma_proved ma = true -> ma_len_ok ma ->
  exists s0, kelt_init ma sigma src c0 = Ok s0 /\
    fst (snd (kelt_next (steps kelt_next s0 cs) c)) = kelt_values ma sigma src c0 (rev (cs ++ [c])).
Proof. exact (keltner_values_correct ma sigma src c0 cs c). Qed.
(** StochasticOscillator: raw %K from the extremes of the window, smoothed twice (two-level cascade) *)
Theorem C05_stochastic_oscillator (cfg : sto_cfg (N := NumR)) (c0 : C) cs c : sto_validate cfg = true ->
  sc_period cfg <= pmax - 1 ->
  ma_proved (sc_ma cfg) = true -> ma_len_ok (sc_ma cfg) -> ma_proved (sc_signal cfg) = true -> ma_len_ok (sc_signal cfg) ->
  exists s0, sto_init cfg c0 = Ok s0 /\
    fst (snd (sto_next (steps sto_next s0 cs) c)) =
    sto_values (sc_period cfg) (sc_ma cfg) (sc_signal cfg) c0 (rev (cs ++ [c])).
Proof. exact (stochastic_values_correct cfg c0 cs c). Qed.
Theorem C05_relative_strength_index (cfg : rsi_cfg (N := NumR)) (c0 : C) cs c : rsi_validate cfg = true ->
  ma_proved (rc_ma cfg) = true -> ma_len_ok (rc_ma cfg) ->
  exists s0, rsi_init cfg c0 = Ok s0 /\
    fst (snd (rsi_next (steps rsi_next s0 cs) c)) = rsi_values (rc_ma cfg) (rc_source cfg) c0 (rev (cs ++ [c])).
Proof. exact (rsi_values_correct cfg c0 cs c). Qed.
Theorem C05_commodity_channel_index period (zone : @F NumR) src (c0 : C) cs c : (0 <= zone)%R -> 1 < period < pmax ->
  exists s0, ccii_init period zone src c0 = Ok s0 /\
    fst (snd (ccii_next (steps ccii_next s0 cs) c)) = ccii_values period src c0 (rev (cs ++ [c])).
Proof. exact (cci_indicator_values_correct period zone src c0 cs c). Qed.
Theorem C05_chaikin_money_flow size (c0 : C) cs c : 1 < size < pmax ->
  exists s0, cmf_init size c0 = Ok s0 /\
    fst (snd (cmf_next (steps cmf_next s0 cs) c)) = cmf_values size c0 (rev (cs ++ [c])).
Proof. exact (cmf_values_correct size c0 cs c). Qed.
Theorem C05_chande_momentum_oscillator period zone src (c0 : C) cs c : cmo_validate period zone = true ->
  exists s0, cmo_init period zone src c0 = Ok s0 /\
    fst (snd (cmo_next (steps cmo_next s0 cs) c)) = cmo_values period src c0 (rev (cs ++ [c])).
Proof. exact (cmo_values_correct period zone src c0 cs c). Qed.
Theorem C05_money_flow_index period zone (c0 : C) cs c : mfi_validate period zone = true ->
  exists s0, mfi_init period zone c0 = Ok s0 /\
    fst (snd (mfi_next (steps mfi_next s0 cs) c)) = mfi_values period zone c0 (rev (cs ++ [c])).
Proof. exact (mfi_values_correct period zone c0 cs c). Qed.
(** Trix: one-step change of the triple EMA and the average of the series of those changes (three-level cascade) *)
Theorem C05_trix p1 (signal : ma_cfg) src (c0 : C) cs c :
  2 < p1 <= pmax - 1 -> 1 < ma_period signal -> ma_proved signal = true -> ma_len_ok signal -> 4 <= pmax ->
  exists s0, trix_init p1 signal src c0 = Ok s0 /\
    fst (snd (trix_next (steps trix_next s0 cs) c)) = trix_values p1 signal src c0 (rev (cs ++ [c])).
Proof. exact (trix_values_correct p1 signal src c0 cs c). Qed.
Theorem C05_elders_force_index (ma : ma_cfg) p2 src (c0 : C) cs c :
  1 < ma_period ma -> 1 <= p2 < pmax -> ma_proved ma = true -> ma_len_ok ma ->
  exists s0, efi_init ma p2 src c0 = Ok s0 /\
    fst (snd (efi_next (steps efi_next s0 cs) c)) = efi_values ma p2 src c0 (rev (cs ++ [c])).
Proof. exact (efi_values_correct ma p2 src c0 cs c). Qed.
Theorem C05_klinger_volume_oscillator (ma1 ma2 signal : ma_cfg) (c0 : C) cs c :
  ma_similar ma1 ma2 = true -> 1 < ma_period ma1 < ma_period ma2 -> 1 < ma_period signal ->
  ma_proved ma1 = true -> ma_len_ok ma1 -> ma_proved ma2 = true -> ma_len_ok ma2 -> ma_proved signal = true -> ma_len_ok signal ->
  exists s0, kvo_init ma1 ma2 signal c0 = Ok s0 /\
    fst (snd (kvo_next (steps kvo_next s0 cs) c)) = kvo_values ma1 ma2 signal c0 (rev (cs ++ [c])).
Proof. exact (kvo_values_correct ma1 ma2 signal c0 cs c). Qed.
(** ChaikinOscillator: windowed (window >= 1) and cumulative (window = 0) accumulation/distribution line *)
Theorem C05_chaikin_oscillator (ma1 ma2 : ma_cfg) window (c0 : C) cs c :
  ma_similar ma1 ma2 = true -> 0 < ma_period ma1 < ma_period ma2 -> ma_period ma2 < pmax -> 0 <= window <= pmax - 1 -> 2 <= pmax ->
  ma_proved ma1 = true -> ma_len_ok ma1 -> ma_proved ma2 = true -> ma_len_ok ma2 ->
  exists s0, co_init ma1 ma2 window c0 = Ok s0 /\
    fst (snd (co_next (steps co_next s0 cs) c)) = co_values ma1 ma2 window c0 (rev (cs ++ [c])).
Proof. exact (chaikin_oscillator_values_correct ma1 ma2 window c0 cs c). Qed.
Theorem C05_coppock_curve (cfg : cop_cfg) (c0 : C) cs c : cop_validate cfg = true -> cc_left cfg + cc_right cfg <= pmax - 2 ->
  ma_proved (cc_ma1 cfg) = true -> ma_len_ok (cc_ma1 cfg) -> ma_proved (cc_s3 cfg) = true -> ma_len_ok (cc_s3 cfg) ->
  exists s0, cop_init (N := NumR) cfg c0 = Ok s0 /\
    fst (snd (cop_next (steps cop_next s0 cs) c)) =
    cop_values (cc_ma1 cfg) (cc_s3 cfg) (cc_p2 cfg) (cc_p3 cfg) (cc_source cfg) c0 (rev (cs ++ [c])).
Proof. exact (coppock_values_correct cfg c0 cs c). Qed.
Theorem C05_know_sure_thing (cfg : kst_cfg) (c0 : C) cs c : kst_validate cfg = true ->
  1 <= kc_p1 cfg -> kc_p4 cfg <= pmax - 1 ->
  ma_proved (kc_ma1 cfg) = true -> ma_len_ok (kc_ma1 cfg) -> ma_proved (kc_ma2 cfg) = true -> ma_len_ok (kc_ma2 cfg) ->
  ma_proved (kc_ma3 cfg) = true -> ma_len_ok (kc_ma3 cfg) -> ma_proved (kc_ma4 cfg) = true -> ma_len_ok (kc_ma4 cfg) ->
  ma_proved (kc_signal cfg) = true -> ma_len_ok (kc_signal cfg) ->
  exists s0, kst_init (N := NumR) cfg c0 = Ok s0 /\
    fst (snd (kst_next (steps kst_next s0 cs) c)) =
    kst_values (kc_p1 cfg) (kc_p2 cfg) (kc_p3 cfg) (kc_p4 cfg) (kc_ma1 cfg) (kc_ma2 cfg) (kc_ma3 cfg) (kc_ma4 cfg) (kc_signal cfg) c0 (rev (cs ++ [c])).
Proof. exact (kst_values_correct cfg c0 cs c). Qed.
Theorem C05_ichimoku_cloud l1 l2 l3 m src (c0 : C) cs c :
  1 <= l1 -> l1 < l2 -> l2 < l3 -> l3 <= pmax - 1 -> 1 <= m <= pmax - 1 ->
  exists s0, ichi_init l1 l2 l3 m src c0 = Ok s0 /\
    fst (snd (ichi_next (steps ichi_next s0 cs) c)) = ichi_values l1 l2 l3 m c0 (rev (cs ++ [c])).
Proof. exact (ichimoku_values_correct l1 l2 l3 m src c0 cs c). Qed.
Theorem C05_hull_moving_average period lft right src (c0 : C) cs c :
  2 < period <= pmax - 1 -> 1 <= lft -> 1 <= right -> lft + right <= pmax - 2 ->
  exists s0, hmai_init period lft right src c0 = Ok s0 /\
    fst (snd (hmai_next (steps hmai_next s0 cs) c)) =
    [hma_def (Z.to_nat period) (Z.to_nat (period / 2)) (Z.to_nat (hma_len3 period))
       (hget (c_source c0 src) (srcs src (rev (cs ++ [c]))))].
Proof. exact (hull_indicator_values_correct period lft right src c0 cs c). Qed.
Theorem C05_awesome_oscillator (cfg : ao_cfg) (c0 : C) cs c : ao_validate cfg = true ->
  oc_left cfg + oc_right cfg <= pmax - 2 -> ma_len_ok (oc_ma1 cfg) -> ma_len_ok (oc_ma2 cfg) ->
  exists s0, ao_init (N := NumR) cfg c0 = Ok s0 /\
    fst (snd (ao_next (steps ao_next s0 cs) c)) =
    let s0' := c_source c0 (oc_source cfg) in let rs := srcs (oc_source cfg) (rev (cs ++ [c])) in
    [fsub (ma_def (oc_ma2 cfg) s0' rs) (ma_def (oc_ma1 cfg) s0' rs)].
Proof. exact (awesome_oscillator_values_correct cfg c0 cs c). Qed.
Theorem C05_smi_ergodic p1 p2 (signal : ma_cfg) (zone : @F NumR) src (c0 : C) cs c :
  1 < p2 <= p1 -> p1 < pmax -> 1 < ma_period signal < pmax -> (0 <= zone <= 1)%R -> ma_len_ok signal ->
  exists s0, smi_init p1 p2 signal zone src c0 = Ok s0 /\
    fst (snd (smi_next (steps smi_next s0 cs) c)) =
    let s0' := c_source c0 src in let rs := srcs src (rev (cs ++ [c])) in
    let t := tsi_line p2 p1 s0' rs in let sg := ma_def signal f0 (series (tsi_line p2 p1 s0') rs) in
    [t; sg; fsub t sg].
Proof. exact (smi_values_correct p1 p2 signal zone src c0 cs c). Qed.
Theorem C05_woodies_cci p1 p2 lag src (c0 : C) cs c : 1 <= p1 -> p1 < p2 -> p2 < pmax -> 0 < lag < pmax ->
  exists s0, wcci_init p1 p2 lag src c0 = Ok s0 /\
    fst (snd (wcci_next (steps wcci_next s0 cs) c)) =
    let h := hget (c_source c0 src) (srcs src (rev (cs ++ [c]))) in
    [fmul (cci_def (Z.to_nat p1) h) cci_scale; fmul (cci_def (Z.to_nat p2) h) cci_scale].
Proof. exact (woodies_cci_values_correct p1 p2 lag src c0 cs c). Qed.
Theorem C05_ease_of_movement (ma : ma_cfg) p2 (c0 : C) cs c : 1 < ma_period ma < pmax -> 1 <= p2 < pmax -> ma_len_ok ma ->
  exists s0, eom_init ma p2 c0 = Ok s0 /\
    fst (snd (eom_next (steps eom_next s0 cs) c)) = [ma_def ma f0 (series (eom_raw p2 c0) (rev (cs ++ [c])))].
Proof. exact (eom_values_correct ma p2 c0 cs c). Qed.
Theorem C05_relative_vigor_index p1 p2 (signal : ma_cfg) (zone : @F NumR) (c0 : C) cs c :
  2 <= p1 <= pmax - 1 -> 2 <= p2 <= pmax - 1 -> 1 < ma_period signal -> (0 <= zone < 1 / 2)%R -> ma_len_ok signal ->
  exists s0, rvi_init p1 p2 signal zone c0 = Ok s0 /\
    fst (snd (rvi_next (steps rvi_next s0 cs) c)) = rvi_values p1 p2 signal c0 (rev (cs ++ [c])).
Proof. exact (rvi_values_correct p1 p2 signal zone c0 cs c). Qed.
Theorem C05_chande_kroll_stop (ma : ma_cfg) (x : @F NumR) q src (c0 : C) cs c :
  (0 <= x)%R -> 1 <= ma_period ma <= pmax - 1 -> 1 <= q <= pmax - 1 -> ma_len_ok ma ->
  exists s0, cks_init ma x q src c0 = Ok s0 /\
    fst (snd (cks_next (steps cks_next s0 cs) c)) = cks_values ma x q c0 src (rev (cs ++ [c])).
Proof. exact (cks_values_correct ma x q src c0 cs c). Qed.
Theorem C05_kaufman (cfg : kauf_cfg (N := NumR)) (c0 : C) cs c : kauf_validate cfg = true ->
  kf_p1 cfg <= pmax - 1 -> 2 <= kf_filter cfg <= pmax - 1 ->
  exists s0, kauf_init cfg c0 = Ok s0 /\
    fst (snd (kauf_next (steps kauf_next s0 cs) c)) =
    [kama cfg (c_source c0 (kf_source cfg)) (srcs (kf_source cfg) (rev (cs ++ [c])))].
Proof. exact (kaufman_values_correct cfg c0 cs c). Qed.
(** filter_period 0 and 1 are documented and pass validate, but no instance can be built with them (StDev::new rejects them) *)
Theorem C05_kaufman_small_filter_rejected (cfg : kauf_cfg (N := NumR)) (c0 : C) :
  0 <= kf_filter cfg <= 1 -> forall s, kauf_init cfg c0 <> Ok s.
Proof. exact (kaufman_small_filter_rejected cfg c0). Qed.
Theorem C05_trend_strength_index period (zone : @F NumR) offset src (c0 : C) cs c :
  1 < period < pmax -> (0 <= zone < 1)%R -> 0 < offset < period -> 4 < pmax ->
  exists s0, tsx_init period zone offset src c0 = Ok s0 /\
    fst (snd (tsx_next (steps tsx_next s0 cs) c)) =
    [tsx_def period (hget (c_source c0 src) (srcs src (rev (cs ++ [c]))))].
Proof. exact (trend_strength_values_correct period zone offset src c0 cs c). Qed.
Theorem C05_average_directional_index (cfg : adx_cfg (N := NumR)) (c0 : C) cs c : adx_validate cfg = true ->
  ma_len_ok (ac_m1 cfg) -> ma_len_ok (ac_m2 cfg) ->
  exists s0, adx_init cfg c0 = Ok s0 /\
    fst (snd (adx_next (steps adx_next s0 cs) c)) = adx_values cfg c0 (rev (cs ++ [c])).
Proof. exact (adx_values_correct cfg c0 cs c). Qed.
(** ParabolicSAR (its definition is the documented recursion itself; checked against it on the implementation): structure
    of every reachable state - the returned trend is +1 or -1 at every step and the acceleration factor of the next update,
    min(af_max, af_step * number of new extremes since the last reversal), lies between af_step and af_max *)
Theorem C05_parabolic_sar_trend (step mx : @F NumR) k s0 cs c : psar_init step mx k = Ok s0 ->
  exists t, (t = 1 \/ t = -1) /\ nth 1 (fst (snd (psar_next (steps psar_next s0 cs) c))) f0 = fofZ t.
Proof. exact (psar_trend_value step mx k s0 cs c). Qed.
Theorem C05_parabolic_sar_acceleration (step mx : @F NumR) k s0 cs : psar_init step mx k = Ok s0 -> (0 < step)%R ->
  let s := steps psar_next s0 cs in
  (step <= fmin (ps_max s) (fmul (ps_step s) (fofZ (ps_inc s))) <= mx)%R.
Proof. exact (psar_af_range step mx k s0 cs). Qed.
End C05.
