(** C05 — Indicator raw values equal the documented formulas (theorems added per indicator). *)
From Yata Require Import Base.Prelude Base.Num Base.NumR Core.Window Core.Candle Core.Action
  Spec.Hist Spec.MethodDefs Spec.IndicatorDefs Methods.Basic Methods.Select Indicators.Common Indicators.Set1
  Proofs.IndicatorProofs.
Open Scope Z_scope.

Section C05.
Context {pw : PW}.
Local Notation C := (candle (N := NumR)).

(** MomentumIndex: both values are the momenta of the source over period1 and period2 *)
Theorem C05_momentum_index p1 p2 src (c0 : C) cs c : 1 <= p2 -> p2 < p1 <= pmax - 1 ->
  exists s0, momi_init p1 p2 src c0 = Ok s0 /\
    fst (snd (momi_next (steps momi_next s0 cs) c)) = momi_values p1 p2 src c0 (rev (cs ++ [c])).
Proof. exact (momi_values_correct p1 p2 src c0 cs c). Qed.
End C05.
