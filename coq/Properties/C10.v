(** C10 — Invalid parameters are rejected with an error; accepted instances never panic. *)
From Yata Require Import Base.Prelude Base.Num Base.NumR Core.Window Core.WindowSpec Core.Candle Core.Strings
  Spec.Hist Methods.Basic Methods.Select Methods.Convert Indicators.Common Indicators.Set1 Indicators.Set2 Indicators.Set3 Indicators.Set4 Indicators.Set5
  Proofs.MethodsCommon Proofs.Totality Proofs.Totality2 Proofs.Totality3 Proofs.Totality4 Proofs.StringsProofs.
Open Scope Z_scope.

Section C10.
Context {pw : PW} {N : Num}.
Hypothesis pmax_ge : 2 <= pmax.

(** [ctor_class new lo hi]: over the WHOLE parameter range 0..=MAX the constructor returns Ok exactly
    for lo <= n <= hi and Err(WrongMethodParameters) otherwise (the model has no other outcome) *)
Definition ctor_class {S V} (new : Z -> V -> outcome S) (lo hi : Z) : Prop :=
  forall n v, 0 <= n <= pmax ->
    (accepts (new n v) = true <-> lo <= n <= hi) /\ (accepts (new n v) = false -> rejects (new n v) = true).

Theorem C10_sma : ctor_class sma_new 1 (pmax - 1). Proof. exact sma_new_class. Qed.
Theorem C10_wma : ctor_class wma_new 1 (pmax - 1). Proof. exact wma_new_class. Qed.
Theorem C10_ema : ctor_class ema_new 1 (pmax - 1). Proof. exact ema_new_class. Qed.
Theorem C10_swma : ctor_class swma_new 1 (pmax - 1). Proof. exact swma_new_class. Qed.
Theorem C10_wsma : ctor_class wsma_new 1 (pmax / 2). Proof. exact (wsma_new_class pmax_ge). Qed.
Theorem C10_lin_reg : ctor_class linreg_new 2 (pmax - 1). Proof. exact linreg_new_class. Qed.
Theorem C10_st_dev : ctor_class stdev_new 2 (pmax - 1). Proof. exact stdev_new_class. Qed.
Theorem C10_integral : ctor_class integral_new 0 (pmax - 1). Proof. exact integral_new_class. Qed.
Theorem C10_vidya : ctor_class vidya_new 1 (pmax - 1). Proof. exact vidya_new_class. Qed.
Theorem C10_momentum : ctor_class momentum_new 1 (pmax - 1). Proof. exact momentum_new_class. Qed.
Theorem C10_derivative : ctor_class derivative_new 1 (pmax - 1). Proof. exact derivative_new_class. Qed.
Theorem C10_vwma : ctor_class vwma_new 1 (pmax - 1). Proof. exact vwma_new_class. Qed.
Theorem C10_linear_volatility : ctor_class linvol_new 1 (pmax - 1). Proof. exact linvol_new_class. Qed.
Theorem C10_rma n v : 0 <= n <= pmax ->
  (accepts (rma_new n v) = true <-> 1 <= n) /\ (accepts (rma_new n v) = false -> rejects (rma_new n v) = true).
Proof. exact (rma_new_class n v). Qed.
Theorem C10_reversal l r v : 0 <= l <= pmax -> 0 <= r <= pmax ->
  (accepts (rev_new l r v) = true <-> 1 <= l /\ 1 <= r /\ l + r <= pmax - 2) /\
  (accepts (rev_new l r v) = false -> rejects (rev_new l r v) = true).
Proof. exact (rev_new_class l r v). Qed.

(** what an accepted constructor requests stays inside PeriodType and below MAX (no overflow, no debug assertion) *)
Theorem C10_requests_in_range n : 1 <= n <= pmax - 1 ->
  n <= pmax - 1 /\ n + 1 <= pmax /\ (n + 1) / 2 <= pmax - 1 /\ n / 2 <= pmax - 1 /\ 0 <= n - 1.
Proof. exact (ctor_requests_in_range pmax_ge n). Qed.
Theorem C10_wsma_requests n : 1 <= n <= pmax / 2 -> 1 <= n * 2 - 1 <= pmax - 1 /\ n * 2 - 1 + 1 <= pmax.
Proof. exact (wsma_requests_in_range n). Qed.
Theorem C10_reversal_requests l r : 1 <= l -> 1 <= r -> l + r <= pmax - 2 -> 3 <= l + r + 1 <= pmax - 1.
Proof. exact (reversal_requests_in_range l r). Qed.
Theorem C10_window_new_accepted {A} n (v : A) : 0 <= n <= pmax - 1 -> w_new n v = Ok (w_new_t n v).
Proof. exact (w_new_accepted n v). Qed.
Theorem C10_push_nonempty {A} (w : window A) x : wf w -> 0 < wsize w -> w_push w x = Ok (w_push_t w x).
Proof. exact (w_push_nonempty w x). Qed.
(** a parsed period always fits PeriodType; parsing is a total function (it cannot panic) *)
Theorem C10_parse_period_range s v : parse_period s = Some v -> 0 <= v <= pmax.
Proof. apply parse_period_range. lia. Qed.
End C10.

Theorem C10_sma_never_pushes_into_empty_window {pw : PW} n (v : @F NumR) xs x : 1 <= n <= pmax - 1 ->
  exists s0, sma_new n v = Ok s0 /\
    let s := steps sma_next s0 xs in w_push (sma_window s) x = Ok (w_push_t (sma_window s) x).
Proof. exact (sma_never_panics n v xs x). Qed.

(** the MA constructor (helpers::MA::init) never panics: any kind, any length, any construction value, any carrier *)
Theorem C10_ma_constructor_never_panics {pw : PW} {N : Num} (c : ma_cfg) (v : F) : is_panic (ma_init c v) = false.
Proof. exact (ma_init_never_panics c v). Qed.

(** [init] of every modelled indicator reaches no panic path of the model, whatever the configuration and the first candle
    (it returns an instance or an error): the model's explicit panic sites (assertions, empty-window pushes, slice
    indexing) are unreachable.  A window requested inside [init] is modelled by the total wrapper [w_new_t]; that its
    capacity stays in 1 ..= MAX-1 whenever [init] accepts (no capacity assertion in Window::new, no push into an empty window in next) is the second group of theorems ([C10_cap_*], one per direct
    request; windows built by method constructors are bounded by the constructor classification theorems above). *)
Section C10i.
Context {pw : PW} {N : Num}.
Theorem C10_init_adx (c : adx_cfg) (k : candle) : is_panic (adx_init c k) = false.
Proof. exact (adx_init_never_panics c k). Qed.
Theorem C10_init_ao (c : ao_cfg) (k : candle) : is_panic (ao_init c k) = false.
Proof. exact (ao_init_never_panics c k). Qed.
Theorem C10_init_aroon (period : Z) (zone : F) (ozp : Z) (k : candle) : is_panic (aroon_init period zone ozp k) = false.
Proof. exact (aroon_init_never_panics period zone ozp k). Qed.
Theorem C10_init_boll (c : boll_cfg) (k : candle) : is_panic (boll_init c k) = false.
Proof. exact (boll_init_never_panics c k). Qed.
Theorem C10_init_ccii (period : Z) (zone : F) (src : source) (k : candle) : is_panic (ccii_init period zone src k) = false.
Proof. exact (ccii_init_never_panics period zone src k). Qed.
Theorem C10_init_cks (ma : ma_cfg) (x : F) (q : Z) (src : source) (k : candle) : is_panic (cks_init ma x q src k) = false.
Proof. exact (cks_init_never_panics ma x q src k). Qed.
Theorem C10_init_cmf (size : Z) (k : candle) : is_panic (cmf_init size k) = false.
Proof. exact (cmf_init_never_panics size k). Qed.
Theorem C10_init_cmo (period : Z) (zone : F) (src : source) (k : candle) : is_panic (cmo_init period zone src k) = false.
Proof. exact (cmo_init_never_panics period zone src k). Qed.
Theorem C10_init_co (ma1 ma2 : ma_cfg) (window : Z) (k : candle) : is_panic (co_init ma1 ma2 window k) = false.
Proof. exact (co_init_never_panics ma1 ma2 window k). Qed.
Theorem C10_init_cop (c : cop_cfg) (k : candle) : is_panic (cop_init c k) = false.
Proof. exact (cop_init_never_panics c k). Qed.
Theorem C10_init_donch (period : Z) (k : candle) : is_panic (donch_init period k) = false.
Proof. exact (donch_init_never_panics period k). Qed.
Theorem C10_init_dpo (ma : ma_cfg) (src : source) (k : candle) : is_panic (dpo_init ma src k) = false.
Proof. exact (dpo_init_never_panics ma src k). Qed.
Theorem C10_init_efi (ma : ma_cfg) (p2 : Z) (src : source) (k : candle) : is_panic (efi_init ma p2 src k) = false.
Proof. exact (efi_init_never_panics ma p2 src k). Qed.
Theorem C10_init_env (c : env_cfg) (k : candle) : is_panic (env_init c k) = false.
Proof. exact (env_init_never_panics c k). Qed.
Theorem C10_init_eom (ma : ma_cfg) (p2 : Z) (k : candle) : is_panic (eom_init ma p2 k) = false.
Proof. exact (eom_init_never_panics ma p2 k). Qed.
Theorem C10_init_hmai (period lft right : Z) (src : source) (k : candle) : is_panic (hmai_init period lft right src k) = false.
Proof. exact (hmai_init_never_panics period lft right src k). Qed.
Theorem C10_init_ichi (l1 l2 l3 m : Z) (src : source) (k : candle) : is_panic (ichi_init l1 l2 l3 m src k) = false.
Proof. exact (ichi_init_never_panics l1 l2 l3 m src k). Qed.
Theorem C10_init_kauf (c : kauf_cfg) (k : candle) : is_panic (kauf_init c k) = false.
Proof. exact (kauf_init_never_panics c k). Qed.
Theorem C10_init_kelt (ma : ma_cfg) (sigma : F) (src : source) (k : candle) : is_panic (kelt_init ma sigma src k) = false.
Proof. exact (kelt_init_never_panics ma sigma src k). Qed.
Theorem C10_init_kst (c : kst_cfg) (k : candle) : is_panic (kst_init c k) = false.
Proof. exact (kst_init_never_panics c k). Qed.
Theorem C10_init_kvo (ma1 ma2 signal : ma_cfg) (k : candle) : is_panic (kvo_init ma1 ma2 signal k) = false.
Proof. exact (kvo_init_never_panics ma1 ma2 signal k). Qed.
Theorem C10_init_macd (c : macd_cfg) (k : candle) : is_panic (macd_init c k) = false.
Proof. exact (macd_init_never_panics c k). Qed.
Theorem C10_init_mfi (period : Z) (zone : F) (k : candle) : is_panic (mfi_init period zone k) = false.
Proof. exact (mfi_init_never_panics period zone k). Qed.
Theorem C10_init_momi (p1 p2 : Z) (src : source) (k : candle) : is_panic (momi_init p1 p2 src k) = false.
Proof. exact (momi_init_never_panics p1 p2 src k). Qed.
Theorem C10_init_pch (period : Z) (sigma : F) (k : candle) : is_panic (pch_init period sigma k) = false.
Proof. exact (pch_init_never_panics period sigma k). Qed.
Theorem C10_init_prs (lft right : Z) (k : candle) : is_panic (prs_init lft right k) = false.
Proof. exact (prs_init_never_panics lft right k). Qed.
Theorem C10_init_psar (step mx : F) (k : candle) : is_panic (psar_init step mx k) = false.
Proof. exact (psar_init_never_panics step mx k). Qed.
Theorem C10_init_rsi (c : rsi_cfg) (k : candle) : is_panic (rsi_init c k) = false.
Proof. exact (rsi_init_never_panics c k). Qed.
Theorem C10_init_rvi (p1 p2 : Z) (signal : ma_cfg) (zone : F) (k : candle) : is_panic (rvi_init p1 p2 signal zone k) = false.
Proof. exact (rvi_init_never_panics p1 p2 signal zone k). Qed.
Theorem C10_init_smi (p1 p2 : Z) (signal : ma_cfg) (zone : F) (src : source) (k : candle) : is_panic (smi_init p1 p2 signal zone src k) = false.
Proof. exact (smi_init_never_panics p1 p2 signal zone src k). Qed.
Theorem C10_init_sto (c : sto_cfg) (k : candle) : is_panic (sto_init c k) = false.
Proof. exact (sto_init_never_panics c k). Qed.
Theorem C10_init_trix (p1 : Z) (signal : ma_cfg) (src : source) (k : candle) : is_panic (trix_init p1 signal src k) = false.
Proof. exact (trix_init_never_panics p1 signal src k). Qed.
Theorem C10_init_tsii (p1 p2 p3 : Z) (zone : F) (src : source) (k : candle) : is_panic (tsii_init p1 p2 p3 zone src k) = false.
Proof. exact (tsii_init_never_panics p1 p2 p3 zone src k). Qed.
Theorem C10_init_tsx (period : Z) (zone : F) (offset : Z) (src : source) (k : candle) : is_panic (tsx_init period zone offset src k) = false.
Proof. exact (tsx_init_never_panics period zone offset src k). Qed.
Theorem C10_init_wcci (p1 p2 lag : Z) (src : source) (k : candle) : is_panic (wcci_init p1 p2 lag src k) = false.
Proof. exact (wcci_init_never_panics p1 p2 lag src k). Qed.
Theorem C10_cap_cmo period zone src k s : cmo_init period zone src k = Ok s -> cap_ok period.
Proof. exact (cmo_cap period zone src k s). Qed.
Theorem C10_cap_mfi period zone k s : mfi_init period zone k = Ok s -> cap_ok period.
Proof. exact (mfi_cap period zone k s). Qed.
Theorem C10_cap_cmf size k s : cmf_init size k = Ok s -> cap_ok size.
Proof. exact (cmf_cap size k s). Qed.
Theorem C10_cap_dpo ma src k s : dpo_init ma src k = Ok s -> cap_ok (ma_period ma / 2 + 1).
Proof. exact (dpo_cap ma src k s). Qed.
Theorem C10_cap_efi ma p2 src k s : efi_init ma p2 src k = Ok s -> cap_ok p2.
Proof. exact (efi_cap ma p2 src k s). Qed.
Theorem C10_cap_adx c k s : adx_init c k = Ok s -> cap_ok (ac_period1 c).
Proof. exact (adx_cap c k s). Qed.
Theorem C10_cap_prs lft right k s : prs_init lft right k = Ok s -> cap_ok right.
Proof. exact (prs_cap lft right k s). Qed.
Theorem C10_cap_ichi l1 l2 l3 m src k s : ichi_init l1 l2 l3 m src k = Ok s -> cap_ok m.
Proof. exact (ichi_cap l1 l2 l3 m src k s). Qed.
Theorem C10_cap_eom ma p2 k s : eom_init ma p2 k = Ok s -> cap_ok p2.
Proof. exact (eom_cap ma p2 k s). Qed.
Theorem C10_cap_tsx period zone offset src k s : tsx_init period zone offset src k = Ok s -> cap_ok period.
Proof. exact (tsx_cap period zone offset src k s). Qed.
End C10i.

From Coq Require Import Reals.
(** [next] of an accepted instance: the only window INDEX read in an indicator (TrendStrengthIndex, window[reverse_offset]) is in
    range in every reachable state, so the [next] of the model never takes the totalised default of that read *)
Theorem C10_trend_strength_index_read_in_range {pw : PW} period (zone : @F NumR) offset src (c0 : candle (N := NumR)) cs c :
  1 < period < pmax -> (0 <= zone < 1)%R -> 0 < offset < period -> 4 < pmax ->
  exists s0, tsx_init period zone offset src c0 = Ok s0 /\
    let st := steps tsx_next s0 cs in
    exists v, w_index (fst (w_push_t (tz_window st) (c_source c (tz_source st)))) (tz_offset st) = Ok v.
Proof. exact (tsx_index_in_range period zone offset src c0 cs c). Qed.

(** the MA constructor accepts exactly the documented lengths of each kind: every length of the parameter type except 0 / MAX
    (HMA, LinReg: below 2 / MAX; RMA: 0; WSMA: 0 and above MAX/2) - any width with an odd MAX (all PeriodType widths), every
    construction value; the rejected ones return an error (any carrier), the accepted ones a running instance *)
From Yata Require Import Proofs.Totality5.
Theorem C10_ma_constructor_acceptance {pw : PW} (c : ma_cfg) (v : @F NumR) : 0 <= ma_period c <= pmax -> pmax / 2 * 2 + 1 = pmax ->
  is_ok (ma_init c v) = negb (ma_rejects c).
Proof. exact (ma_init_acceptance c v). Qed.
Theorem C10_ma_constructor_rejects {pw : PW} {N : Num} (c : ma_cfg) (v : F) : 0 <= ma_period c -> ma_rejects c = true -> is_ok (ma_init c v) = false.
Proof. exact (ma_init_rejects c v). Qed.
